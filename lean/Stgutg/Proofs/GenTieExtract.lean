import Stgutg.Proofs.GenTieExtractBase
/-!
  Tie by translation of the hand-written extractors of src/stgutg/pdu.go (C12, C02): `Gen/PureExtract.lean` is regenerated
  from the source text of `DecodePDUSessionResourceSetupRequestTransfer` and `DecodePDUSessionNASPDU` (and of the two
  package-level tables the latter reads) on every run by `gen pure-extract` (harness/cmd/gen/pure_extract.go, the
  slice-walker grammar: byte slices WITH their hidden capacity, loops on fuel). The theorems below prove the translated
  functions equal to the hand model `Model/Extract.lean` the C12 theorems are about — for every fuel and every slice
  (octets, length, capacity, octets behind the length). The generated functions return slices (`Go.Sl`); the model
  returns their visible octets: `projXfer` / `projNas` are that projection. A semantic edit of either function (or of a
  table) changes the generated definition and these proofs stop checking, whatever input would show the difference;
  renaming locals, `x++` for `x += 1`, parentheses, an explicit `x = x + k` keep them.
-/
namespace Stgutg.Proofs.GenTie.Extract
open Stgutg Stgutg.Gen
open Stgutg.Model.Extract

/-- two computations that start with the same step agree if they agree after it -/
theorem bind_congr_map {α β γ : Type} (p : β → γ) (x : Res α) (F : α → Res β) (G : α → Res γ)
    (h : ∀ a, x = .ok a → Except.map p (F a) = G a) : Except.map p (x >>= F) = (x >>= G) := by
  cases x with
  | error e => rfl
  | ok a => exact h a rfl

/-- … the same when the generated side's step is the model's step seen through the carrier -/
theorem bind_congr_map' {α α' β γ : Type} (g : α → α') (p : β → γ) (x : Res α) (F : α' → Res β) (G : α → Res γ)
    (h : ∀ a, x = .ok a → Except.map p (F (g a)) = G a) : Except.map p (Except.map g x >>= F) = (x >>= G) := by
  cases x with
  | error e => rfl
  | ok a => exact h a rfl

/-- the branch of the transfer walk that has found the tunnel IE (id 139) -/
theorem xfer_found (s : Sl) (hs : s.len < 2 ^ 62) (off : Nat) (h : off < s.len) :
    Except.map projXfer
      (s.idx (off + 3) >>= fun t4 =>
        (toGo s).slice (Go.iadd (Go.iadd (off : Int) 3) 1) (Go.iadd (Go.iadd (Go.iadd (off : Int) 3) 1) (t4.toNat : Int)) >>= fun t5 =>
        t5.sliceFrom (Go.isub (t4.toNat : Int) 4) >>= fun t6 =>
        t6.be32 >>= fun t7 =>
        t5.slice (Go.isub (t4.toNat : Int) 8) (Go.isub (t4.toNat : Int) 4) >>= fun t8 =>
        (Except.ok (t7, t8) : Res (UInt32 × Go.Sl)))
    = (s.idx (off + 3) >>= fun n =>
        s.slice (off + 3 + 1) (off + 3 + 1 + n.toNat) >>= fun info =>
        if n.toNat < 4 then Except.error Err.panic else
        info.sliceFrom (n.toNat - 4) >>= fun y =>
        be32 y >>= fun teid =>
        if n.toNat < 8 then Except.error Err.panic else
        info.slice (n.toNat - 8) (n.toNat - 4) >>= fun ip =>
        (pure (teid, ip.toBytes) : Res (Nat × Bytes))) := by
  have e3 : Go.iadd (off : Int) 3 = ((off + 3 : Nat) : Int) := iadd_nat off 3 _ _ rfl rfl (by omega)
  apply bind_congr_map
  intro n _
  have hn := n.toNat_lt
  have e4 : Go.iadd (Go.iadd (off : Int) 3) 1 = ((off + 3 + 1 : Nat) : Int) := iadd_nat (off + 3) 1 _ _ e3 rfl (by omega)
  have e5 : Go.iadd (Go.iadd (Go.iadd (off : Int) 3) 1) (n.toNat : Int) = ((off + 3 + 1 + n.toNat : Nat) : Int) :=
    iadd_nat (off + 3 + 1) n.toNat _ _ e4 rfl (by omega)
  rw [slice_eq s _ _ (off + 3 + 1) (off + 3 + 1 + n.toNat) e4 e5]
  apply bind_congr_map'
  intro info _
  by_cases h6 : n.toNat < 4
  · rw [sliceFrom_neg (toGo info) _ (isub_neg n.toNat 4 (n.toNat : Int) 4 rfl rfl h6 (by omega)), if_pos h6]
    rfl
  · have e6 : Go.isub (n.toNat : Int) 4 = ((n.toNat - 4 : Nat) : Int) := isub_nat n.toNat 4 _ _ rfl rfl (by omega) (by omega)
    rw [sliceFrom_eq info _ (n.toNat - 4) e6, if_neg h6]
    apply bind_congr_map'
    intro y _
    rw [be32_eq]
    apply bind_congr_map'
    intro teid h8
    have ht := be32_lt y teid h8
    by_cases h9 : n.toNat < 8
    · rw [slice_neg (toGo info) _ _ (isub_neg n.toNat 8 (n.toNat : Int) 8 rfl rfl h9 (by omega)), if_pos h9]
      rfl
    · have e8 : Go.isub (n.toNat : Int) 8 = ((n.toNat - 8 : Nat) : Int) := isub_nat n.toNat 8 _ _ rfl rfl (by omega) (by omega)
      rw [slice_eq info _ _ (n.toNat - 8) (n.toNat - 4) e8 e6, if_neg h9]
      apply bind_congr_map'
      intro ip _
      show Except.ok ((UInt32.ofNat teid).toNat, (ofGo (toGo ip)).toBytes) = Except.ok (teid, ip.toBytes)
      rw [UInt32.toNat_ofNat', Nat.mod_eq_of_lt ht]
      rfl

theorem xfer_loop (s : Sl) (hs : s.len < 2 ^ 62) (fuel : Nat) : ∀ off : Nat,
    (Gen.Pure.Extract.DecodePDUSessionResourceSetupRequestTransfer.loop1 (toGo s) fuel 0 Go.Sl.nil (off : Int)).map projXfer
      = xferLoop s fuel off := by
  induction fuel with
  | zero => intro off; rfl
  | succ fuel ih =>
    intro off
    rw [Gen.Pure.Extract.DecodePDUSessionResourceSetupRequestTransfer.loop1, xferLoop]
    by_cases h : off < s.len
    · have hc : ((off : Int) < Go.Sl.length (toGo s)) := by simp [Go.Sl.length]; omega
      simp only [hc, h, decide_true, if_true]
      have e2 : Go.iadd (off : Int) 2 = ((off + 2 : Nat) : Int) := iadd_nat off 2 _ _ rfl rfl (by omega)
      have e3 : Go.iadd (off : Int) 3 = ((off + 3 : Nat) : Int) := iadd_nat off 3 _ _ rfl rfl (by omega)
      rw [slice_eq s _ _ off (off + 2) rfl e2, idx_eq s _ (off + 3) e3]
      cases h1 : s.slice off (off + 2) with
      | error e => simp only [map_error, error_bind]
      | ok x =>
        simp only [map_ok, ok_bind]
        rw [be16_eq]
        cases h2 : be16 x with
        | error e => simp only [map_error, error_bind]
        | ok id =>
          have hid := be16_lt x id h2
          have hn : (UInt16.ofNat id).toNat = id := by
            rw [UInt16.toNat_ofNat']; omega
          simp only [map_ok, ok_bind, hn]
          by_cases h3 : id = 139
          · have hd : decide ((id : Int) ≠ 139) = false := by simp; omega
            have h3' : ¬ id ≠ 139 := by omega
            simp only [hd, Bool.false_eq_true, if_false, if_neg h3']
            exact xfer_found s hs off h
          · have hd : decide ((id : Int) ≠ 139) = true := by simp; omega
            have h3' : id ≠ 139 := h3
            simp only [hd, if_true, if_pos h3']
            cases h4 : s.idx (off + 3) with
            | error e => simp only [map_error, error_bind]
            | ok l =>
              try simp only [ok_bind]
              have := l.toNat_lt
              have e4 : Go.iadd 3 (l.toNat : Int) = ((3 + l.toNat : Nat) : Int) := iadd_nat 3 l.toNat _ _ rfl rfl (by omega)
              have e5 : Go.iadd (Go.iadd 3 (l.toNat : Int)) 1 = ((3 + l.toNat + 1 : Nat) : Int) := iadd_nat (3 + l.toNat) 1 _ _ e4 rfl (by omega)
              have e6 := iadd_nat off (3 + l.toNat + 1) _ _ rfl e5 (by omega)
              have e7 : off + (3 + l.toNat + 1) = off + 3 + l.toNat + 1 := by omega
              rw [e6, e7, ih]
    · have hc : ¬ ((off : Int) < Go.Sl.length (toGo s)) := by simp [Go.Sl.length]; omega
      simp only [hc, h, decide_false, Bool.false_eq_true, if_false]
      rfl

/-- **Tie** (C12, C02). For every fuel and every slice (octets, length, capacity and the octets behind the length) of fewer
    than 2^62 octets — the hand model counts in unbounded naturals where the code counts in 64-bit ints — the function
    translated from the text of `DecodePDUSessionResourceSetupRequestTransfer` IS the hand model `decodeTransfer`:
    same traps, same exhaustion of the fuel, same TEID, same address octets. -/
theorem DecodePDUSessionResourceSetupRequestTransfer_eq (fuel : Nat) (s : Sl) (hs : s.len < 2 ^ 62) :
    (Gen.Pure.Extract.DecodePDUSessionResourceSetupRequestTransfer fuel (toGo s)).map projXfer = decodeTransfer fuel s := by
  unfold Gen.Pure.Extract.DecodePDUSessionResourceSetupRequestTransfer decodeTransfer
  have h := xfer_loop s hs fuel 3
  change Except.map projXfer (Gen.Pure.Extract.DecodePDUSessionResourceSetupRequestTransfer.loop1 (toGo s) fuel 0 Go.Sl.nil 3) = _ at h
  rw [← h]
  show Except.map projXfer (Gen.Pure.Extract.DecodePDUSessionResourceSetupRequestTransfer.loop1 (toGo s) fuel 0 Go.Sl.nil 3 >>= fun t9 => Except.ok (t9.1, t9.2)) = _
  cases Gen.Pure.Extract.DecodePDUSessionResourceSetupRequestTransfer.loop1 (toGo s) fuel 0 Go.Sl.nil 3 <;> rfl



/-! ### DecodePDUSessionNASPDU -/

theorem u8_toNat_beq (a b : UInt8) : (a.toNat == b.toNat) = (a == b) := by
  by_cases h : a = b
  · subst h; simp
  · have h1 : (a == b) = false := beq_false_of_ne h
    have h2 : (a.toNat == b.toNat) = false := beq_false_of_ne (fun e => h (UInt8.toNat_inj.mp e))
    rw [h1, h2]

/-- a table keyed by octets, read through the numbers of the keys -/
theorem lookup_toNat (t : List (UInt8 × Int)) (k : UInt8) :
    (t.map (fun p => (p.1.toNat, p.2))).lookup k.toNat = t.lookup k := by
  induction t with
  | nil => rfl
  | cons p t ih =>
    obtain ⟨pk, pv⟩ := p
    simp only [List.map_cons, List.lookup_cons, u8_toNat_beq, ih]

/-- the map as `gen pure-extract` reads it is the map as `gen extract` reads it -/
theorem optLen_same :
    Gen.Extract.optLen = Gen.Pure.Extract.PDUSessionEstablishmentAcceptOptionalElementsLength.map (fun p => (p.1.toNat, p.2)) := by
  decide +kernel

theorem mapGet_eq (id : UInt8) :
    Go.mapGetU8 Gen.Pure.Extract.PDUSessionEstablishmentAcceptOptionalElementsLength id = lookupLen id := by
  unfold Go.mapGetU8 lookupLen
  rw [optLen_same, lookup_toNat]
  cases List.lookup id Gen.Pure.Extract.PDUSessionEstablishmentAcceptOptionalElementsLength <;> rfl

theorem lookup_bound (t : List (UInt8 × Int)) (B : Int) (h : t.all (fun p => decide (p.2 < B)) = true) (k : UInt8) (v : Int)
    (hv : t.lookup k = some v) : v < B := by
  induction t with
  | nil => simp [List.lookup] at hv
  | cons p t ih =>
    simp only [List.all_cons, Bool.and_eq_true, decide_eq_true_eq] at h
    simp only [List.lookup] at hv
    cases hk : k == p.1 <;> simp only [hk] at hv
    · exact ih h.2 hv
    · cases hv; exact h.1

/-- every length in the table is far from the end of the int range -/
theorem lookupLen_lt (id : UInt8) : lookupLen id < 2 ^ 32 := by
  rw [← mapGet_eq]
  unfold Go.mapGetU8
  cases h : Gen.Pure.Extract.PDUSessionEstablishmentAcceptOptionalElementsLength.lookup id with
  | none => decide
  | some v => exact lookup_bound _ (2 ^ 32) (by decide +kernel) id v h

/-- the two tests of the unrolled `range …HalfByte` loop are the model's `isHalfByte` -/
theorem halfByte_eq (id : UInt8) :
    isHalfByte id = (decide ((id &&& 240) = 128) || decide ((id &&& 240) = 192)) := by
  have h : Gen.Extract.halfByte = Gen.Pure.Extract.PDUSessionEstablishmentAcceptOptionalElementsHalfByte.map UInt8.toNat := by
    decide +kernel
  unfold isHalfByte
  rw [h]
  simp only [Gen.Pure.Extract.PDUSessionEstablishmentAcceptOptionalElementsHalfByte, List.map, List.any, Bool.or_false]
  rw [u8_toNat_beq, u8_toNat_beq]
  rfl

/-- what the model returns of the generated function's result: the visible octets of the address -/
def projNas (r : Go.Sl) : Bytes := (ofGo r).toBytes

theorem nas_loop (op : Sl) (hop : op.len < 2 ^ 62) (fuel : Nat) : ∀ (index : Nat) (id0 : UInt8) (l0 : Int),
    (Gen.Pure.Extract.DecodePDUSessionNASPDU.loop1 (toGo op) (op.len : Int) fuel Go.Sl.nil (index : Int) id0 l0).map projNas
      = nasLoop true op fuel index := by
  induction fuel with
  | zero => intro index id0 l0; rfl
  | succ fuel ih =>
    intro index id0 l0
    rw [Gen.Pure.Extract.DecodePDUSessionNASPDU.loop1, nasLoop]
    by_cases h : index < op.len
    · have hc : ((index : Int) < (op.len : Int)) := by omega
      simp only [hc, h, decide_true, if_true]
      rw [idx_eq op _ index rfl]
      cases h1 : op.idx index with
      | error e => simp only [map_error, error_bind]
      | ok id =>
        simp only [ok_bind]
        by_cases h2 : id = 41
        · have h2' : id = 0x29 := h2
          simp only [h2, decide_true, if_true]
          have e3 : Go.iadd (index : Int) 3 = ((index + 3 : Nat) : Int) := iadd_nat index 3 _ _ rfl rfl (by omega)
          have e7 : Go.iadd (index : Int) 7 = ((index + 7 : Nat) : Int) := iadd_nat index 7 _ _ rfl rfl (by omega)
          rw [slice_eq op _ _ (index + 3) (index + 7) e3 e7]
          cases h3 : op.slice (index + 3) (index + 7) with
          | error e => simp only [map_error, error_bind]
          | ok r => simp only [map_ok, ok_bind, projNas, ofGo_toGo, pure_eq]
        · have h2' : ¬ id = 0x29 := h2
          simp only [h2, decide_false, Bool.false_eq_true, if_false]
          rw [halfByte_eq id]
          have e1 : Go.iadd (index : Int) 1 = ((index + 1 : Nat) : Int) := iadd_nat index 1 _ _ rfl rfl (by omega)
          by_cases h3 : (id &&& 240) = 128
          · have d3 : decide ((id &&& 240) = 128) = true := by simp [h3]
            simp only [d3, if_true, Bool.true_or]
            rw [e1, ih]
          · have d3 : decide ((id &&& 240) = 128) = false := by simp [h3]
            by_cases h4 : (id &&& 240) = 192
            · have d4 : decide ((id &&& 240) = 192) = true := by simp [h4]
              simp only [d3, d4, if_true, Bool.false_eq_true, if_false, Bool.or_true]
              rw [e1, ih]
            · have d4 : decide ((id &&& 240) = 192) = false := by simp [h4]
              simp only [d3, d4, Bool.false_eq_true, if_false, Bool.or_self]
              rw [mapGet_eq id]
              have hl := lookupLen_lt id
              generalize lookupLen id = l at hl
              by_cases h5 : l > 0
              · simp only [h5, decide_true, if_true]
                have e : Go.iadd (index : Int) l = ((index + l.toNat : Nat) : Int) := by
                  unfold Go.iadd Go.wrapInt; omega
                rw [e, ih]
              · simp only [h5, decide_false, Bool.false_eq_true, if_false]
                by_cases h6 : l = -1
                · simp only [h6, decide_true, if_true]
                  rw [idx_eq op _ (index + 1) e1]
                  cases h7 : op.idx (index + 1) with
                  | error e => simp only [map_error, error_bind]
                  | ok n =>
                    simp only [ok_bind]
                    have := n.toNat_lt
                    have f1 : Go.iadd 2 (n.toNat : Int) = ((2 + n.toNat : Nat) : Int) := iadd_nat 2 n.toNat _ _ rfl rfl (by omega)
                    have f2 := iadd_nat index (2 + n.toNat) _ _ rfl f1 (by omega)
                    have f3 : index + (2 + n.toNat) = index + 1 + 1 + n.toNat := by omega
                    rw [f2, f3, ih]
                · simp only [h6, decide_false, Bool.false_eq_true, if_false]
                  by_cases h8 : l = -2
                  · simp only [h8, decide_true, if_true]
                    rw [e1]
                    have g1 : Go.iadd ((index + 1 : Nat) : Int) 2 = ((index + 1 + 2 : Nat) : Int) :=
                      iadd_nat (index + 1) 2 _ _ rfl rfl (by omega)
                    rw [slice_eq op _ _ (index + 1) (index + 1 + 2) rfl g1]
                    cases h9 : op.slice (index + 1) (index + 1 + 2) with
                    | error e => simp only [map_error, error_bind]
                    | ok x =>
                      simp only [map_ok, ok_bind]
                      rw [be16_eq]
                      cases h10 : be16 x with
                      | error e => simp only [map_error, error_bind]
                      | ok n =>
                        have hn := be16_lt x n h10
                        have hn' : (UInt16.ofNat n).toNat = n := by
                          rw [UInt16.toNat_ofNat']; omega
                        simp only [map_ok, ok_bind, hn']
                        have f1 : Go.iadd 3 (n : Int) = ((3 + n : Nat) : Int) := iadd_nat 3 n _ _ rfl rfl (by omega)
                        have f2 := iadd_nat index (3 + n) _ _ rfl f1 (by omega)
                        have f3 : index + (3 + n) = index + 1 + 2 + n := by omega
                        rw [f2, f3, ih]
                  · simp only [h8, decide_false, Bool.false_eq_true, if_false, pure_eq, map_ok, projNas]
                    rfl
    · have hc : ¬ ((index : Int) < (op.len : Int)) := by omega
      simp only [hc, h, decide_false, Bool.false_eq_true, if_false, pure_eq, map_ok, projNas]
      rfl


/-- **Tie** (C12, C02). For every fuel and EVERY slice (octets, length, capacity and the octets behind the length; no
    hypothesis: the walk runs over at most 65 535 octets, far from the end of the int range), the function translated from
    the text of `DecodePDUSessionNASPDU` (with the two package-level tables read from the same text) IS the hand model
    `decodeNas` in its repaired variant (an IEI the table does not know ends the walk): same traps, same exhaustion of
    the fuel, same address octets. -/
theorem DecodePDUSessionNASPDU_eq (fuel : Nat) (s : Sl) :
    (Gen.Pure.Extract.DecodePDUSessionNASPDU fuel (toGo s)).map projNas = decodeNas true fuel s := by
  simp only [Gen.Pure.Extract.DecodePDUSessionNASPDU, decodeNas]
  rw [sliceFrom_eq s 7 7 rfl]
  cases h1 : s.sliceFrom 7 with
  | error e => simp only [map_error, error_bind]
  | ok plain =>
    simp only [map_ok, ok_bind]
    rw [slice_eq plain 4 6 4 6 rfl rfl]
    cases h2 : plain.slice 4 6 with
    | error e => simp only [map_error, error_bind]
    | ok x =>
      simp only [map_ok, ok_bind]
      rw [be16_eq]
      cases h3 : be16 x with
      | error e => simp only [map_error, error_bind]
      | ok pcl =>
        have hp := be16_lt x pcl h3
        have h6 : (6 : UInt16).toNat = 6 := rfl
        have e1 : ((6 : UInt16) + UInt16.ofNat pcl).toNat = (6 + pcl) % 65536 := by
          rw [UInt16.toNat_add, UInt16.toNat_ofNat', h6]; omega
        simp only [map_ok, ok_bind]
        rw [slice_eq plain 6 _ 6 ((6 + pcl) % 65536) rfl (by rw [e1])]
        cases h4 : plain.slice 6 ((6 + pcl) % 65536) with
        | error e => simp only [map_error, error_bind]
        | ok pc =>
          simp only [map_ok, ok_bind]
          rw [slice_eq pc 5 7 5 7 rfl rfl]
          cases h5 : pc.slice 5 7 with
          | error e => simp only [map_error, error_bind]
          | ok y =>
            simp only [map_ok, ok_bind]
            rw [be16_eq]
            cases h6' : be16 y with
            | error e => simp only [map_error, error_bind]
            | ok q =>
              have hq := be16_lt y q h6'
              have h7 : (7 : UInt16).toNat = 7 := rfl
              have e2 : (((7 : UInt16) + UInt16.ofNat q) + 7).toNat = (5 + 2 + q + 7) % 65536 := by
                rw [UInt16.toNat_add, UInt16.toNat_add, UInt16.toNat_ofNat', h7]; omega
              simp only [map_ok, ok_bind]
              rw [sliceFrom_eq pc _ ((5 + 2 + q + 7) % 65536) (by rw [e2])]
              cases h8 : pc.sliceFrom ((5 + 2 + q + 7) % 65536) with
              | error e => simp only [map_error, error_bind]
              | ok op =>
                simp only [map_ok, ok_bind]
                have hpc : pc.len < 65536 := by
                  unfold Sl.slice at h4
                  split at h4
                  · cases h4
                    show (6 + pcl) % 65536 - 6 < 65536
                    omega
                  · cases h4
                have hop : op.len < 2 ^ 62 := by
                  unfold Sl.sliceFrom at h8
                  split at h8
                  · cases h8
                    show pc.len - _ < 2 ^ 62
                    omega
                  · cases h8
                have h := nas_loop op hop fuel 0 0 0
                change Except.map projNas (Gen.Pure.Extract.DecodePDUSessionNASPDU.loop1 (toGo op) (Go.Sl.length (toGo op)) fuel Go.Sl.nil 0 0 0) = _ at h
                rw [← h]
                cases Gen.Pure.Extract.DecodePDUSessionNASPDU.loop1 (toGo op) (Go.Sl.length (toGo op)) fuel Go.Sl.nil 0 0 0 <;> rfl

/-- … hence the model function the C12 theorems are about (`decodeNasPdu`: the variant the code in /repo is, with the fuel
    the termination theorems prove sufficient) is the translated code. -/
theorem decodeNasPdu_eq (s : Sl) :
    decodeNasPdu s = (Gen.Pure.Extract.DecodePDUSessionNASPDU (fuelFor s) (toGo s)).map projNas := by
  unfold decodeNasPdu stopOnUnknownIei
  rw [DecodePDUSessionNASPDU_eq]

theorem decodeTransferPdu_eq (s : Sl) (hs : s.len < 2 ^ 62) :
    decodeTransferPdu s = (Gen.Pure.Extract.DecodePDUSessionResourceSetupRequestTransfer (fuelFor s) (toGo s)).map projXfer := by
  unfold decodeTransferPdu
  rw [DecodePDUSessionResourceSetupRequestTransfer_eq _ _ hs]

/-- the hypothesis of the transfer tie is satisfiable by a slice with hidden capacity, and the tie then speaks about a
    real extraction (TEID 0x01020304, UPF 10.0.0.9) -/
example : (⟨[0, 0, 0, 0, 139, 0, 10, 3, 224, 10, 0, 0, 9, 1, 2, 3, 4, 77], 17⟩ : Sl).len < 2 ^ 62 := by decide
example : (match decodeTransferPdu ⟨[0, 0, 0, 0, 139, 0, 10, 3, 224, 10, 0, 0, 9, 1, 2, 3, 4, 77], 17⟩ with
    | .ok r => r == (16909060, [10, 0, 0, 9])
    | .error _ => false) = true := by
  decide +kernel

end Stgutg.Proofs.GenTie.Extract

