/-
  C14 (cost): the allocation table of the regenerated NGAP schema, decided by the kernel
  (weights: steps 0, alloc 1). Re-decided on every run; the literals are the current values of the schema.
-/
import Stgutg.Proofs.AperCostDefs
import Stgutg.Gen.NgapSchema

namespace Stgutg.Proofs.AperCost
open Stgutg Stgutg.Aper

set_option maxRecDepth 1000000 in
/-- entry of NGAPPDU and the maxima over all 1 431 struct types: slope 9 (SEQUENCE OF / open-type nesting),
    over-claim budget 262 143 elements (four nested lists of at most 65 536, 65 536, 65 535, 65 536 elements) -/
theorem ngap_alloc_summary :
    costSummary 0 1 Gen.Ngap.schema (.struct Gen.Ngap.pduId) Gen.Ngap.decoderParams =
      some (⟨0, 9, 262143, true⟩, 0, 9, 262143) := by
  decide +kernel

end Stgutg.Proofs.AperCost
