/-
  C04, composite round trip — SEQUENCE: OPTIONAL bitmap, the component loop (absent optionals, open-type
  reference values read from the values decoded so far), and the struct case of `parseField`.
-/
import Stgutg.Proofs.AperRTCompSlice
import Stgutg.Proofs.AperRTCompBits

namespace Stgutg.Proofs.AperRTComp
open Stgutg Stgutg.Aper Stgutg.Proofs.Bits Stgutg.Proofs.AperRT

theorem decSeqFields_cons (g : Ty → Params → D Val) (rfv : Ty → Val → Res Int) (F : List Field)
    (i oc ob : Nat) (fd : Field) (frest : List Field) (vals : List Val) :
    decSeqFields g rfv F i oc ob (fd :: frest) vals =
      (if decide (fd.params.optional ∧ oc > 0 ∧ ¬ (ob.testBit (oc - 1))) = true then
        decSeqFields g rfv F (i + 1) (if fd.params.optional ∧ oc > 0 then oc - 1 else oc) ob frest vals
      else
        match resolveRef rfv F vals i fd with
        | .error e => D.fail e
        | .ok fp => g fd.ty fp >>= fun v =>
            decSeqFields g rfv F (i + 1) (if fd.params.optional ∧ oc > 0 then oc - 1 else oc) ob frest (setAt vals i v)) := by
  rw [decSeqFields]
  rfl

def valsAt (FS Z : List Val) (i : Nat) : List Val := FS.take i ++ Z.drop i

theorem valsAt_skip (FS Z : List Val) (i : Nat) (v : Val) (hl : FS.length = Z.length)
    (h1 : FS[i]? = some v) (h2 : Z[i]? = some v) : valsAt FS Z i = valsAt FS Z (i + 1) := by
  unfold valsAt
  apply List.ext_getElem?
  intro k
  have hi : i < FS.length := by
    rcases Nat.lt_or_ge i FS.length with h | h
    · exact h
    · rw [List.getElem?_eq_none h] at h1; cases h1
  simp only [List.getElem?_append, List.length_take, List.getElem?_take, List.getElem?_drop]
  grind

theorem valsAt_set (FS Z : List Val) (i : Nat) (v : Val) (hl : FS.length = Z.length)
    (h1 : FS[i]? = some v) : setAt (valsAt FS Z i) i v = valsAt FS Z (i + 1) := by
  unfold valsAt setAt
  apply List.ext_getElem?
  intro k
  have hi : i < FS.length := by
    rcases Nat.lt_or_ge i FS.length with h | h
    · exact h
    · rw [List.getElem?_eq_none h] at h1; cases h1
  simp only [List.getElem?_set, List.getElem?_append, List.length_take, List.getElem?_take, List.getElem?_drop, List.length_append, List.length_drop]
  grind

theorem valsAt_lt (FS Z : List Val) (i k : Nat) (hk : k < i) (hi : i ≤ FS.length) : (valsAt FS Z i)[k]? = FS[k]? := by
  unfold valsAt
  simp only [List.getElem?_append, List.length_take, List.getElem?_take]
  grind

theorem valsAt_end (FS Z : List Val) (i : Nat) (hl : FS.length = Z.length) (hi : FS.length ≤ i) : valsAt FS Z i = FS := by
  unfold valsAt
  rw [List.take_of_length_le hi, List.drop_of_length_le (by omega), List.append_nil]

theorem refIndex_lt (fields : List Field) (name : String) (i k : Nat) (h : refIndex fields name i = some k) : k < i := by
  unfold refIndex at h
  split at h
  · rename_i k' hk
    simp only [Option.some.injEq] at h
    subst h
    rw [List.findIdx?_eq_some_iff_getElem] at hk
    obtain ⟨hlt, _⟩ := hk
    simp only [List.length_take] at hlt
    omega
  · cases h

theorem resolveRef_congr (rfv : Ty → Val → Res Int) (F : List Field) (vals fs : List Val) (i : Nat) (fd : Field)
    (h : ∀ k, k < i → vals[k]? = fs[k]?) : resolveRef rfv F vals i fd = resolveRef rfv F fs i fd := by
  unfold resolveRef
  split
  · cases hr : refIndex F fd.params.refField i with
    | none => rfl
    | some k =>
      dsimp only
      rw [h k (refIndex_lt _ _ _ _ hr)]
  · rfl

theorem testBit_bitsToNat (bm : Bits) : ∀ k, k < bm.length → bm[bm.length - 1 - k]? = some ((bitsToNat bm).testBit k) := by
  induction bm with
  | nil => intro k hk; simp at hk
  | cons x xs ih =>
    intro k hk
    rw [bitsToNat_cons]
    simp only [List.length_cons] at hk ⊢
    have hlt := bitsToNat_lt xs
    rw [Nat.mul_comm, Nat.testBit_two_pow_mul_add _ hlt]
    by_cases hkn : k < xs.length
    · simp only [hkn, if_true]
      rw [← ih k hkn]
      have e : xs.length + 1 - 1 - k = (xs.length - 1 - k) + 1 := by omega
      rw [e, List.getElem?_cons_succ]
    · have hk' : k = xs.length := by omega
      subst hk'
      simp only [Nat.lt_irrefl, if_false, Nat.sub_self, Nat.add_sub_cancel, List.getElem?_cons_zero]
      cases x <;> simp
theorem drop_cons_facts {α : Type} (l : List α) (i : Nat) (x : α) (rest : List α) (h : l.drop i = x :: rest) :
    l[i]? = some x ∧ l.drop (i + 1) = rest ∧ i < l.length := by
  have hi : i < l.length := by
    rcases Nat.lt_or_ge i l.length with h' | h'
    · exact h'
    · rw [List.drop_of_length_le h'] at h; cases h
  refine ⟨?_, ?_, hi⟩
  · have := List.getElem?_drop (xs := l) (i := i) (j := 0)
    rw [h] at this
    simpa using this.symm
  · have : l.drop (i + 1) = (l.drop i).drop 1 := by rw [List.drop_drop]
    rw [this, h]; rfl

theorem bm_tail_facts (x : Bool) (b : Bits) (optBits : Nat)
    (H : ∀ k, k < (x :: b).length → (x :: b)[(x :: b).length - 1 - k]? = some (optBits.testBit k)) :
    optBits.testBit b.length = x ∧ ∀ k, k < b.length → b[b.length - 1 - k]? = some (optBits.testBit k) := by
  constructor
  · have := H b.length (by simp)
    simp only [List.length_cons, Nat.add_sub_cancel, Nat.sub_self, List.getElem?_cons_zero, Option.some.injEq] at this
    exact this.symm
  · intro k hk
    have := H k (by simp; omega)
    simp only [List.length_cons, Nat.add_sub_cancel] at this
    have e : b.length - k = (b.length - 1 - k) + 1 := by omega
    rw [e, List.getElem?_cons_succ] at this
    exact this

/-- the field loop of a SEQUENCE: started at field `i` with the values decoded so far, the decoder reads
    back every remaining component and ends with the encoder's value list -/
theorem RT_seqFields (f : Nat → Ty → Params → Val → Res Bits) (g : Ty → Params → D Val) (rfv : Ty → Val → Res Int)
    (F : List Field) (FS Z : List Val) (optBits : Nat)
    (hlen : FS.length = F.length) (hzlen : Z.length = F.length)
    (Hf : ∀ j fd v fp pos a, F[j]? = some fd → FS[j]? = some v → resolveRef rfv F FS j fd = .ok fp →
      f pos fd.ty fp v = .ok a → RT a pos (g fd.ty fp) v)
    (Hz : ∀ (j : Nat) (fd : Aper.Field) (v : Val), F[j]? = some fd → FS[j]? = some v → fd.params.optional = true → isNil v = true → Z[j]? = some v) :
    ∀ (frest : List Field) (vrest : List Val) (i pos : Nat) (sbm body : Bits),
      F.drop i = frest → FS.drop i = vrest →
      optBitmap frest vrest = .ok sbm →
      (∀ k, k < sbm.length → sbm[sbm.length - 1 - k]? = some (optBits.testBit k)) →
      encSeqFields f rfv F FS i pos frest vrest = .ok body →
      RT body pos (decSeqFields g rfv F i sbm.length optBits frest (valsAt FS Z i)) FS := by
  intro frest
  induction frest with
  | nil =>
    intro vrest i pos sbm body hF hFS hbm H henc
    have hi : F.length ≤ i := by
      rcases Nat.lt_or_ge i F.length with h' | h'
      · have := List.length_drop (i := i) (l := F)
        rw [hF] at this; simp at this; omega
      · exact h'
    simp only [encSeqFields, Except.ok.injEq] at henc
    rw [← henc]
    unfold decSeqFields
    rw [valsAt_end FS Z i (by omega) (by omega)]
    exact RT_pure _ _
  | cons fd frest ih =>
    intro vrest i pos sbm body hF hFS hbm H henc
    cases vrest with
    | nil => simp [optBitmap, err] at hbm
    | cons v vrest =>
      obtain ⟨hFi, hFd, hiF⟩ := drop_cons_facts F i fd frest hF
      obtain ⟨hVi, hVd, hiV⟩ := drop_cons_facts FS i v vrest hFS
      rw [encSeqFields_cons] at henc
      rw [decSeqFields_cons]
      have hcongr : resolveRef rfv F (valsAt FS Z i) i fd = resolveRef rfv F FS i fd :=
        resolveRef_congr rfv F _ FS i fd (fun k hk => valsAt_lt FS Z i k hk (by omega))
      -- the coded (non-skipped) case, given the remaining bitmap `b` and the decoder's next count
      have coded : ∀ (b : Bits) (oc' : Nat), oc' = b.length → optBitmap frest vrest = .ok b →
          (∀ k, k < b.length → b[b.length - 1 - k]? = some (optBits.testBit k)) →
          (match resolveRef rfv F FS i fd with
            | .error e => .error e
            | .ok fp =>
              match f pos fd.ty fp v with
              | .error e => .error e
              | .ok a =>
                match encSeqFields f rfv F FS (i + 1) (pos + a.length) frest vrest with
                | .error e => .error e
                | .ok b => .ok (a ++ b)) = Except.ok body →
          RT body pos
            (match resolveRef rfv F (valsAt FS Z i) i fd with
              | .error e => D.fail e
              | .ok fp => g fd.ty fp >>= fun v' =>
                  decSeqFields g rfv F (i + 1) oc' optBits frest (setAt (valsAt FS Z i) i v')) FS := by
        intro b oc' hoc hb Hb henc'
        rw [hcongr]
        cases hr : resolveRef rfv F FS i fd with
        | error e => rw [hr] at henc'; simp at henc'
        | ok fp =>
          rw [hr] at henc'
          dsimp only at henc' ⊢
          cases ha : f pos fd.ty fp v with
          | error e => rw [ha] at henc'; simp at henc'
          | ok a =>
            rw [ha] at henc'
            dsimp only at henc'
            cases hb2 : encSeqFields f rfv F FS (i + 1) (pos + a.length) frest vrest with
            | error e => rw [hb2] at henc'; simp at henc'
            | ok b2 =>
              rw [hb2] at henc'
              simp only [Except.ok.injEq] at henc'
              rw [← henc']
              refine RT_bind (Hf i fd v fp pos a hFi hVi hr ha) ?_
              rw [valsAt_set FS Z i v (by omega) hVi, hoc]
              exact ih vrest (i + 1) (pos + a.length) b b2 hFd hVd hb Hb hb2
      unfold optBitmap at hbm
      cases ho : fd.params.optional with
      | true =>
        simp only [ho, if_true] at hbm
        split at hbm
        · simp [Aper.panic] at hbm
        cases hb : optBitmap frest vrest with
        | error e => rw [hb] at hbm; simp at hbm
        | ok b =>
          rw [hb] at hbm
          simp only [Except.ok.injEq] at hbm
          subst hbm
          obtain ⟨htb, Hb⟩ := bm_tail_facts _ b optBits H
          simp only [List.length_cons, Nat.add_sub_cancel, htb, ho, true_and, Nat.zero_lt_succ, if_true]
          cases hn : isNil v with
          | true =>
            simp only [hn, Bool.not_true, Bool.false_eq_true, not_false_eq_true, decide_true, if_true, ho, and_self] at henc ⊢
            rw [valsAt_skip FS Z i v (by omega) hVi (Hz i fd v hFi hVi ho hn)]
            exact ih vrest (i + 1) pos b body hFd hVd hb Hb henc
          | false =>
            simp only [hn, Bool.not_false, not_true_eq_false, decide_false, Bool.false_eq_true, if_false, and_false] at henc ⊢
            exact coded b b.length rfl hb Hb henc
      | false =>
        simp only [ho, Bool.false_eq_true, if_false] at hbm
        split at hbm
        · simp [err] at hbm
        · simp only [ho, Bool.false_eq_true, false_and, decide_false, if_false] at henc ⊢
          exact coded sbm sbm.length rfl hbm H henc

/-- the OPTIONAL bitmap is read back as a number (fewer than 64 optional components) -/
theorem RT_optBits (bm : Bits) (pos n : Nat) (hn : bm.length = n) (h64 : n < 64) :
    RT bm pos (if n > 0 then getBitsValue n else pure 0 : D Nat) (bitsToNat bm) := by
  by_cases h0 : n > 0
  · simp only [h0, if_true]
    unfold getBitsValue
    have hg := RT_getBits bm pos (by omega)
    rw [hn] at hg
    have := RT_map (fun b => bitsToNat b % 2 ^ 64) hg
    have hlt : bitsToNat bm < 2 ^ 64 :=
      Nat.lt_of_lt_of_le (bitsToNat_lt bm) (Nat.pow_le_pow_right (by decide) (by omega))
    rw [Nat.mod_eq_of_lt hlt] at this
    exact this
  · have : bm = [] := List.length_eq_zero_iff.mp (by omega)
    subst this
    simp only [h0, if_false]
    exact RT_pure _ _

/-- SEQUENCE body: what `encSeq` wrote is read back by `decStruct` -/
theorem RT_decStruct_seq (f : Nat → Ty → Params → Val → Res Bits) (g : Ty → Params → D Val) (rfv : Ty → Val → Res Int)
    (zero : Ty → Val) (sd : StructDef) (params : Params) (ve : Bool) (pos1 : Nat) (fs : List Val) (b : Bits)
    (hc : isChoice sd = false) (h64 : optCountOf sd < 64)
    (Hf : ∀ j fd v fp pos a, sd.fields[j]? = some fd → fs[j]? = some v → resolveRef rfv sd.fields fs j fd = .ok fp →
      f pos fd.ty fp v = .ok a → RT a pos (g fd.ty fp) v)
    (Hz : ∀ (j : Nat) (fd : Aper.Field) (v : Val), sd.fields[j]? = some fd → fs[j]? = some v →
      fd.params.optional = true → isNil v = true → zero fd.ty = v)
    (h : encSeq f rfv sd pos1 fs = .ok b) :
    RT b pos1 (decStruct g rfv zero sd params ve) (.struct fs) := by
  unfold encSeq at h
  split at h
  · simp [err] at h
  · rename_i hlen
    have hlen' : fs.length = sd.fields.length := by omega
    cases hbm : optBitmap sd.fields fs with
    | error e => rw [hbm] at h; simp at h
    | ok bm =>
      rw [hbm] at h
      dsimp only at h
      cases hbody : encSeqFields f rfv sd.fields fs 0 (pos1 + bm.length) sd.fields fs with
      | error e => rw [hbody] at h; simp at h
      | ok body =>
        rw [hbody] at h
        simp only [Except.ok.injEq] at h
        rw [← h]
        unfold decStruct
        dsimp only
        have hbl := optBitmap_length _ _ _ hbm
        refine RT_bind (RT_optBits bm pos1 _ hbl h64) ?_
        simp only [hc, Bool.false_eq_true, if_false]
        have hloop := RT_seqFields f g rfv sd.fields fs (sd.fields.map fun fd => zero fd.ty) (bitsToNat bm)
          hlen' (by simp) Hf
          (by
            intro j fd v hF hV ho hn
            rw [List.getElem?_map, hF]
            simp only [Option.map_some, Option.some.injEq]
            exact Hz j fd v hF hV ho hn)
          sd.fields fs 0 (pos1 + bm.length) bm body rfl rfl hbm (testBit_bitsToNat bm) hbody
        have hv0 : valsAt fs (sd.fields.map fun fd => zero fd.ty) 0 = sd.fields.map fun fd => zero fd.ty := by
          simp [valsAt]
        rw [hv0] at hloop
        rw [← hbl]
        exact RT_map Val.struct hloop

/-- the struct case of `parseField`: extension bit, then the body -/
theorem RT'_decField_struct (env : Env) (fuel : Nat) (id : Nat) (sd : StructDef) (p : Params) (b : Bits) (pos : Nat)
    (v : Val) (hsd : env[id]? = some sd) (hs : p.sizeExt = false)
    (h : RT b (pos + (if p.valueExt then [false] else ([] : Bits)).length)
      (decStruct (decField env fuel) (refFieldValue env fuel) (zeroVal env fuel) sd p false) v) :
    RT' ((if p.valueExt then [false] else []) ++ b) pos (decField env (fuel + 1) (.struct id) p) v := by
  intro tail ht hne
  rw [decField_struct _ _ _ _ _ _ (mkRd_len_ne hne) hsd]
  exact RT_bind (f := fun x => decStruct (decField env fuel) (refFieldValue env fuel) (zeroVal env fuel) sd p x.2)
    (RT_extBits_leaf pos p hs) h tail ht

end Stgutg.Proofs.AperRTComp
