/-
  C04 helper lemmas: the decoder model reads back what the encoder model wrote.
  `RT bits pos m a` : started at bit position `pos` on input `bits ++ tail` (any tail), the decoder
  computation `m` returns `a` and leaves exactly `tail`.
-/
import Stgutg.Model.AperDec
import Stgutg.Proofs.Bits

namespace Stgutg.Proofs.AperRT
open Stgutg Stgutg.Aper Stgutg.Proofs.Bits

def mkRd (l : Bits) (pos : Nat) : Rd := ⟨l, pos, l.length⟩

/-- the input is a whole number of octets: whatever follows `bits` completes the last octet -/
def RT {α : Type} (bits : Bits) (pos : Nat) (m : D α) (a : α) : Prop :=
  ∀ tail, (pos + bits.length + tail.length) % 8 = 0 →
    m (mkRd (bits ++ tail) pos) = .ok (a, mkRd tail (pos + bits.length))

theorem D_pure_apply {α : Type} (a : α) (r : Rd) : (pure a : D α) r = .ok (a, r) := rfl
theorem D_bind_apply {α β : Type} (m : D α) (f : α → D β) (r : Rd) :
    (m >>= f) r = match m r with | .ok (a, r') => f a r' | .error e => .error e := rfl

theorem RT_pure {α : Type} (pos : Nat) (a : α) : RT [] pos (pure a : D α) a := by
  intro tail _; simp [D_pure_apply]

theorem RT_bind {α β : Type} {b1 b2 : Bits} {pos : Nat} {m : D α} {f : α → D β} {a : α} {c : β}
    (h1 : RT b1 pos m a) (h2 : RT b2 (pos + b1.length) (f a) c) : RT (b1 ++ b2) pos (m >>= f) c := by
  intro tail ht
  have e1 : (pos + b1.length + (b2 ++ tail).length) % 8 = 0 := by
    rw [List.length_append] at ht ⊢; rw [← ht]; congr 1; omega
  have e2 : (pos + b1.length + b2.length + tail.length) % 8 = 0 := by
    rw [List.length_append] at ht; rw [← ht]; congr 1; omega
  rw [D_bind_apply, List.append_assoc, h1 (b2 ++ tail) e1]
  dsimp only
  rw [h2 tail e2, List.length_append, Nat.add_assoc]

/-- sequencing with a unit-valued step -/
theorem RT_seq {β : Type} {b1 b2 : Bits} {pos : Nat} {m : D Unit} {k : D β} {c : β}
    (h1 : RT b1 pos m ()) (h2 : RT b2 (pos + b1.length) k c) : RT (b1 ++ b2) pos (m >>= fun _ => k) c :=
  RT_bind h1 h2

theorem RT_congr_bits {α : Type} {b b' : Bits} {pos : Nat} {m : D α} {a : α} (h : b = b') (hr : RT b pos m a) :
    RT b' pos m a := h ▸ hr

theorem RT_getBits (b : Bits) (pos : Nat) (hne : b.length ≠ 0) : RT b pos (getBits b.length) b := by
  intro tail _
  unfold getBits mkRd
  simp only [hne, if_false, List.length_append]
  have : ¬ b.length > b.length + tail.length := by omega
  simp [this]

theorem RT_getBitsValue (w v : Nat) (pos : Nat) (hw : w ≠ 0) (hv : v < 2 ^ w) (hv64 : v < 2 ^ 64) :
    RT (natToBits w v) pos (getBitsValue w) v := by
  unfold getBitsValue
  have h := RT_getBits (natToBits w v) pos (by simpa using hw)
  rw [natToBits_length] at h
  have h2 := RT_bind (f := fun b => (pure (bitsToNat b % 2 ^ 64) : D Nat)) h (RT_pure (pos + (natToBits w v).length) (bitsToNat (natToBits w v) % 2 ^ 64))
  rw [List.append_nil, bitsToNat_natToBits_of_lt w v hv, Nat.mod_eq_of_lt hv64] at h2
  exact h2

theorem bitsToNat_replicate_false (k : Nat) : bitsToNat (List.replicate k false) = 0 := by
  induction k with
  | zero => rfl
  | succ k ih => rw [List.replicate_succ, bitsToNat_cons, ih]; simp

theorem RT_align (pos : Nat) : RT (alignBits pos) pos parseAlignBits () := by
  intro tail _
  unfold parseAlignBits alignBits padLen mkRd
  dsimp only
  by_cases h : pos % 8 > 0
  · simp only [h, if_true]
    have hk : (8 - pos % 8) % 8 = 8 - pos % 8 := Nat.mod_eq_of_lt (by omega)
    rw [hk]
    have hne : 8 - pos % 8 ≠ 0 := by omega
    unfold getBitsValue
    rw [D_bind_apply]
    unfold getBits
    simp only [hne, if_false, List.length_append, List.length_replicate]
    have : ¬ 8 - pos % 8 > 8 - pos % 8 + tail.length := by omega
    simp only [this, if_false]
    have ht : (List.replicate (8 - pos % 8) false ++ tail).take (8 - pos % 8) = List.replicate (8 - pos % 8) false := by
      have := take_append_length (List.replicate (8 - pos % 8) false) tail
      simp
    have hd : (List.replicate (8 - pos % 8) false ++ tail).drop (8 - pos % 8) = tail := by
      have := drop_append_length (List.replicate (8 - pos % 8) false) tail
      simpa using this
    simp only [D_pure_apply, ht, hd, bitsToNat_replicate_false]
    simp
  · have h0 : pos % 8 = 0 := by omega
    simp [h0]

theorem putBitsValue_ok (v n : Nat) (bits : Bits) (hn : n ≠ 0) (hn64 : n < 64)
    (h : putBitsValue v n = .ok bits) : bits = natToBits n v ∧ v < 2 ^ n := by
  unfold putBitsValue at h
  simp only [hn, if_false] at h
  split at h
  · simp [err] at h
  · rename_i hc
    simp only [Except.ok.injEq] at h
    exact ⟨h.symm, by omega⟩

theorem bitsForRange_pos (range : Int) : bitsForRange range ≠ 0 ∧ bitsForRange range < 64 := by
  unfold bitsForRange
  repeat (first | split | omega)

theorem pow_lt_64 (n v : Nat) (hn : n < 64) (hv : v < 2 ^ n) : v < 2 ^ 64 :=
  Nat.lt_of_lt_of_le hv (Nat.pow_le_pow_right (by decide) (by omega))

theorem RT_putBitsValue (pos v n : Nat) (bits : Bits) (hn : n ≠ 0) (hn64 : n < 64)
    (h : putBitsValue v n = .ok bits) : RT bits pos (getBitsValue n) v := by
  have ⟨hb, hv⟩ := putBitsValue_ok v n bits hn hn64 h
  rw [hb]
  exact RT_getBitsValue n v pos hn hv (pow_lt_64 n v hn64 hv)

theorem bind_ok_eq {α β : Type} (x : Res α) (f : α → Res β) (b : β) (h : (x >>= f) = .ok b) :
    ∃ a, x = .ok a ∧ f a = .ok b := by
  cases x with
  | error e => simp [bind, Except.bind] at h
  | ok a => exact ⟨a, rfl, by simpa [bind, Except.bind] using h⟩

theorem RT_constraintValue (pos : Nat) (range : Int) (v : Nat) (bits : Bits)
    (h : appendConstraintValue pos range v = .ok bits) : RT bits pos (parseConstraintValue range) v := by
  unfold appendConstraintValue at h
  unfold parseConstraintValue
  split at h
  · rename_i h255
    simp only [h255, if_true]
    split at h
    · simp [err] at h
    · rename_i hneg
      simp only [hneg, if_false]
      have ⟨h1, h2⟩ := bitsForRange_pos range
      exact RT_putBitsValue pos v _ bits h1 h2 h
  · rename_i h255
    simp only [h255, if_false]
    split at h
    · rename_i h256
      simp only [h256, if_true]
      obtain ⟨b, hb, hbits⟩ := bind_ok_eq _ _ _ h
      simp only [pure, Except.pure, Except.ok.injEq] at hbits
      rw [← hbits]
      exact RT_seq (RT_align pos) (RT_putBitsValue _ v 8 b (by decide) (by decide) hb)
    · rename_i h256
      simp only [h256, if_false]
      split at h
      · rename_i h64k
        simp only [h64k, if_true]
        obtain ⟨b, hb, hbits⟩ := bind_ok_eq _ _ _ h
        simp only [pure, Except.pure, Except.ok.injEq] at hbits
        rw [← hbits]
        exact RT_seq (RT_align pos) (RT_putBitsValue _ v 16 b (by decide) (by decide) hb)
      · simp [err] at h

theorem len7_facts : ∀ v : Fin 128, v.val &&& 128 = 0 ∧ v.val &&& 0x7f = v.val := by decide

theorem hi6_facts : ∀ hi : Fin 64, (128 + hi.val) &&& 128 ≠ 0 ∧ (128 + hi.val) &&& 64 = 0 ∧ (128 + hi.val) &&& 63 = hi.val := by
  decide

/-- two-octet length determinant: with x = v ||| 0x8000 (v < 16384), the first octet is 10xxxxxx and the 14 bits give v back -/
theorem len14_facts (v : Nat) (hv : v < 16384) :
    (v ||| 0x8000) < 65536 ∧ ((v ||| 0x8000) / 256) &&& 128 ≠ 0 ∧ ((v ||| 0x8000) / 256) &&& 64 = 0 ∧
    ((((v ||| 0x8000) / 256) &&& 63) <<< 8) ||| ((v ||| 0x8000) % 256) = v ∧
    (v ||| 0x8000) / 256 < 256 := by
  have hor : v ||| 0x8000 = 32768 + v := by
    have := Nat.two_pow_add_eq_or_of_lt (i := 15) (b := v) (by omega) 1
    rw [Nat.or_comm]
    simpa using this.symm
  rw [hor]
  have hdiv : (32768 + v) / 256 = 128 + v / 256 := by omega
  have hmod : (32768 + v) % 256 = v % 256 := by omega
  rw [hdiv, hmod]
  have hhi : v / 256 < 64 := by omega
  have ⟨f1, f2, f3⟩ := hi6_facts ⟨v / 256, hhi⟩
  simp only at f1 f2 f3
  refine ⟨by omega, f1, f2, ?_, by omega⟩
  rw [f3]
  have := Nat.shiftLeft_add_eq_or_of_lt (i := 8) (b := v % 256) (Nat.mod_lt _ (by decide)) (v / 256)
  rw [← this, Nat.shiftLeft_eq]
  have e : (2 : Nat) ^ 8 = 256 := by decide
  rw [e]
  omega

theorem RT_length (pos : Nat) (sr : Int) (v : Nat) (bits : Bits) (hv : v < 16384)
    (h : appendLength pos sr v = .ok bits) : RT bits pos (parseLength sr) (v, false) := by
  unfold appendLength at h
  unfold parseLength
  split at h
  · rename_i hc
    simp only [hc, if_true]
    have := RT_constraintValue pos sr v bits h
    have h2 := RT_bind (f := fun v => (pure (v, false) : D (Nat × Bool))) this (RT_pure _ (v, false))
    rw [List.append_nil] at h2
    exact h2
  · rename_i hc
    simp only [hc, if_false]
    split at h
    · rename_i h127
      obtain ⟨b, hb, hbits⟩ := bind_ok_eq _ _ _ h
      simp only [pure, Except.pure, Except.ok.injEq] at hbits
      rw [← hbits]
      refine RT_seq (RT_align pos) ?_
      have hg := RT_putBitsValue (pos + (alignBits pos).length) v 8 b (by decide) (by decide) hb
      have ⟨f1, f2⟩ := len7_facts ⟨v, by omega⟩
      have h2 := RT_bind (f := fun first => (if first &&& 128 = 0 then pure (first &&& 0x7f, false)
          else if first &&& 64 = 0 then do
            let second ← getBitsValue 8
            pure (((first &&& 63) <<< 8) ||| second, false)
          else
            let k := first &&& 63
            if k < 1 ∨ k > 4 then D.fail .error else pure (16384 * k, true) : D (Nat × Bool))) hg
        (c := (v, false)) (b2 := []) (by
          simp only at f1 f2
          simp only [f1, if_true, f2]
          exact RT_pure _ _)
      rw [List.append_nil] at h2
      exact h2
    · rename_i h127
      split at h
      · rename_i h16k
        obtain ⟨b, hb, hbits⟩ := bind_ok_eq _ _ _ h
        simp only [pure, Except.pure, Except.ok.injEq] at hbits
        rw [← hbits]
        refine RT_seq (RT_align pos) ?_
        have ⟨g1, g2, g3, g4, g5⟩ := len14_facts v hv
        have ⟨hbv, _⟩ := putBitsValue_ok (v ||| 0x8000) 16 b (by decide) (by decide) hb
        rw [hbv]
        have hsplit : natToBits 16 (v ||| 0x8000) = natToBits 8 ((v ||| 0x8000) / 2 ^ 8) ++ natToBits 8 (v ||| 0x8000) :=
          natToBits_add 8 8 (v ||| 0x8000)
        rw [hsplit]
        have hfirst := RT_getBitsValue 8 ((v ||| 0x8000) / 2 ^ 8) (pos + (alignBits pos).length) (by decide)
          (by simpa using g5) (by
            have : (v ||| 0x8000) / 2 ^ 8 < 256 := by simpa using g5
            omega)
        refine RT_bind hfirst ?_
        have e256 : (2 : Nat) ^ 8 = 256 := by decide
        simp only [e256, g2, if_false, g3, if_true]
        have hsec : natToBits 8 (v ||| 0x8000) = natToBits 8 ((v ||| 0x8000) % 256) := by
          have := natToBits_mod 8 8 (v ||| 0x8000) (Nat.le_refl _)
          rw [e256] at this; exact this.symm
        rw [hsec]
        have hlt : (v ||| 0x8000) % 256 < 256 := Nat.mod_lt _ (by decide)
        have hsecond := RT_getBitsValue 8 ((v ||| 0x8000) % 256)
          (pos + (alignBits pos).length + (natToBits 8 ((v ||| 32768) / 256)).length) (by decide)
          (by simpa using hlt) (by omega)
        have h3 := RT_bind (f := fun second => (pure (((((v ||| 0x8000) / 256) &&& 63) <<< 8) ||| second, false) : D (Nat × Bool)))
          hsecond (RT_pure _ _)
        rw [List.append_nil, g4] at h3
        exact h3
      · omega

theorem RT_getBit (pos : Nat) (b : Bool) : RT [b] pos (getBitsValue 1) (if b then 1 else 0) := by
  have h := RT_getBitsValue 1 (if b then 1 else 0) pos (by decide) (by cases b <;> decide) (by cases b <;> decide)
  have e : natToBits 1 (if b then 1 else 0) = [b] := by cases b <;> rfl
  rw [e] at h; exact h

/-- the extension bits: none when the parameters declare none -/
theorem RT_extBits_none (pos : Nat) (params : Params) (isSlice : Bool)
    (hs : params.sizeExt = false) (hv : (params.valueExt && !isSlice) = false) :
    RT [] pos (extBits params isSlice) (false, false) := by
  unfold extBits
  simp only [hs, hv, Bool.false_eq_true, if_false]
  exact RT_bind (b1 := []) (b2 := []) (RT_pure pos false) (RT_bind (b1 := []) (b2 := []) (RT_pure _ false) (RT_pure _ _))

/-- a size-extension bit only -/
theorem RT_extBits_size (pos : Nat) (params : Params) (isSlice : Bool) (b : Bool)
    (hs : params.sizeExt = true) (hv : (params.valueExt && !isSlice) = false) :
    RT [b] pos (extBits params isSlice) (b, false) := by
  unfold extBits
  simp only [hs, hv, Bool.false_eq_true, if_false, if_true]
  have h1 : RT [b] pos (do let x ← getBitsValue 1; pure (x != 0) : D Bool) b := by
    have := RT_bind (f := fun x => (pure (x != 0) : D Bool)) (RT_getBit pos b) (RT_pure _ ((if b then 1 else 0) != 0))
    rw [List.append_nil] at this
    cases b <;> simpa using this
  have := RT_bind (f := fun se => (do let ve ← (pure false : D Bool); pure (se, ve) : D (Bool × Bool))) h1
    (c := (b, false)) (b2 := []) (RT_bind (b1 := []) (b2 := []) (RT_pure _ false) (RT_pure _ _))
  rw [List.append_nil] at this
  exact this

/-- a value-extension bit only -/
theorem RT_extBits_value (pos : Nat) (params : Params) (isSlice : Bool) (b : Bool)
    (hs : params.sizeExt = false) (hv : (params.valueExt && !isSlice) = true) :
    RT [b] pos (extBits params isSlice) (false, b) := by
  unfold extBits
  simp only [hs, hv, Bool.false_eq_true, if_false, if_true]
  have h1 : RT [b] pos (do let x ← getBitsValue 1; pure (x != 0) : D Bool) b := by
    have := RT_bind (f := fun x => (pure (x != 0) : D Bool)) (RT_getBit pos b) (RT_pure _ ((if b then 1 else 0) != 0))
    rw [List.append_nil] at this
    cases b <;> simpa using this
  have := RT_bind (b1 := []) (f := fun se => (do let ve ← (do let x ← getBitsValue 1; pure (x != 0) : D Bool); pure (se, ve) : D (Bool × Bool)))
    (RT_pure pos false) (c := (false, b)) (b2 := [b])
    (by
      have := RT_bind (f := fun ve => (pure (false, ve) : D (Bool × Bool))) h1 (RT_pure _ (false, b))
      rw [List.append_nil] at this
      exact this)
  exact this

/-- the leaf branch of parseField -/
def leafDec (ty : Ty) (params : Params) : D Val :=
  extBits params false >>= fun x => decLeaf ty params x.1 x.2

theorem RT_extBits_leaf (pos : Nat) (params : Params) (hs : params.sizeExt = false) :
    RT (if params.valueExt then [false] else []) pos (extBits params false) (false, false) := by
  cases hv : params.valueExt with
  | false => simpa using RT_extBits_none pos params false hs (by simp [hv])
  | true => simpa using RT_extBits_value pos params false false hs (by simp [hv])

theorem RT_enum (pos n : Nat) (params : Params) (bits : Bits)
    (h : appendEnumerated pos n params.valueExt params.valueLB params.valueUB = .ok bits)
    (hs : params.sizeExt = false) (hlb : params.valueLB = some 0) :
    RT bits pos (leafDec .enum params) (.enum n) := by
  unfold appendEnumerated at h
  rw [hlb] at h
  cases hub : params.valueUB with
  | none => rw [hub] at h; simp [err] at h
  | some ub =>
    rw [hub] at h
    dsimp only at h
    split at h
    · simp [err] at h
    · rename_i hle
      split at h
      · simp [err] at h
      · rename_i hge
        unfold leafDec
        have hext := RT_extBits_leaf pos params hs
        split at h
        · rename_i hr
          cases hc : appendConstraintValue (pos + (if params.valueExt = true then [false] else []).length) (ub - 0 + 1) n with
          | error e => rw [hc] at h; simp at h
          | ok cb =>
            rw [hc] at h
            simp only [Except.ok.injEq] at h
            rw [← h]
            refine RT_bind hext ?_
            dsimp only
            unfold decLeaf parseEnumerated
            simp only [Bool.false_eq_true, if_false, hlb, hub, hr, if_true]
            have := RT_bind (f := fun k => (pure (Val.enum k) : D Val)) (RT_constraintValue _ _ _ _ hc) (RT_pure _ (Val.enum n))
            rw [List.append_nil] at this
            exact this
        · rename_i hr
          simp only [Except.ok.injEq] at h
          rw [← h]
          have hn : n = 0 := by omega
          subst hn
          have := RT_bind (f := fun x => decLeaf .enum params x.1 x.2) hext (c := .enum 0) (b2 := []) (by
            dsimp only
            unfold decLeaf parseEnumerated
            simp only [Bool.false_eq_true, if_false, hlb, hub, hr]
            exact RT_bind (b1 := []) (b2 := []) (RT_pure _ 0) (RT_pure _ _))
          rw [List.append_nil] at this
          exact this

/-! ### INTEGER -/

theorem octetCount_bound (f n : Nat) (h : n < 256 ^ (f + 1)) :
    n < 256 ^ (octetCount f (n >>> 8)) ∧ octetCount f (n >>> 8) ≤ f + 1 ∧ 1 ≤ octetCount f (n >>> 8) := by
  induction f generalizing n with
  | zero => simp [octetCount] at *; omega
  | succ f ih =>
    unfold octetCount
    split
    · rename_i h0
      have : n < 256 := by
        rw [Nat.shiftRight_eq_div_pow] at h0
        have : n / 2 ^ 8 = 0 := h0
        have e : (2 : Nat) ^ 8 = 256 := by decide
        rw [e] at this
        omega
      simp; omega
    · rename_i h0
      have hm : n >>> 8 < 256 ^ (f + 1) := by
        rw [Nat.shiftRight_eq_div_pow]
        have e : (2 : Nat) ^ 8 = 256 := by decide
        rw [e]
        have : 256 ^ (f + 1 + 1) = 256 ^ (f + 1) * 256 := Nat.pow_succ ..
        rw [this] at h
        exact Nat.div_lt_of_lt_mul (by rw [Nat.mul_comm]; exact h)
      have ⟨h1, h2, h3⟩ := ih (n >>> 8) hm
      refine ⟨?_, by omega, by omega⟩
      have e2 : 256 ^ (1 + octetCount f (n >>> 8 >>> 8)) = 256 * 256 ^ (octetCount f (n >>> 8 >>> 8)) := by
        rw [Nat.add_comm, Nat.pow_succ, Nat.mul_comm]
      rw [e2]
      have hdiv : n >>> 8 = n / 256 := by
        rw [Nat.shiftRight_eq_div_pow]
      generalize 256 ^ octetCount f (n >>> 8 >>> 8) = K at h1 ⊢
      rw [hdiv] at h1
      omega

theorem toInt64_small (n : Nat) (h : n < 2 ^ 63) : toInt64 n = n := by
  unfold toInt64
  have : n % 2 ^ 64 = n := Nat.mod_eq_of_lt (by omega)
  simp only [this]
  have h' : n < 9223372036854775808 := by have e : (2:Nat)^63 = 9223372036854775808 := by decide
                                          omega
  simp [h']

theorem wrapInt64_small (i : Int) (h0 : 0 ≤ i) (h : i < 2 ^ 63) : wrapInt64 i = i := by
  unfold wrapInt64
  have hm : i % (2 ^ 64 : Int) = i := Int.emod_eq_of_lt h0 (by omega)
  rw [hm]
  have : toInt64 i.toNat = i.toNat := toInt64_small i.toNat (by omega)
  rw [this]; omega

theorem octetCount_le (f n k : Nat) (hk : 1 ≤ k) (h : n < 256 ^ k) : octetCount f (n >>> 8) ≤ k := by
  induction f generalizing n k with
  | zero => simp [octetCount]; omega
  | succ f ih =>
    unfold octetCount
    split
    · omega
    · rename_i h0
      have hdiv : n >>> 8 = n / 256 := by rw [Nat.shiftRight_eq_div_pow]
      have hk2 : 2 ≤ k := by
        cases hk' : k with
        | zero => omega
        | succ k' =>
          cases k' with
          | zero =>
            subst hk'
            have : n < 256 := by simpa using h
            rw [hdiv] at h0
            omega
          | succ k'' => omega
      have : n >>> 8 < 256 ^ (k - 1) := by
        rw [hdiv]
        have e : 256 ^ k = 256 ^ (k - 1) * 256 := by
          have : k = (k - 1) + 1 := by omega
          rw [this, Nat.pow_succ]; simp
        rw [e] at h
        exact Nat.div_lt_of_lt_mul (by rw [Nat.mul_comm]; exact h)
      have := ih (n >>> 8) (k - 1) (by omega) this
      omega

theorem putBitsValue_ok64 (v n : Nat) (bits : Bits) (hn : n ≠ 0) (hn64 : n ≤ 64) (hv64 : v < 2 ^ 64)
    (h : putBitsValue v n = .ok bits) : bits = natToBits n v ∧ v < 2 ^ n := by
  by_cases hlt : n < 64
  · exact putBitsValue_ok v n bits hn hlt h
  · have hn' : n = 64 := by omega
    subst hn'
    unfold putBitsValue at h
    simp at h
    exact ⟨h.symm, hv64⟩

theorem RT_int (pos : Nat) (v : Int) (params : Params) (bits : Bits) (lb ub : Int)
    (hlb : params.valueLB = some lb) (hub : params.valueUB = some ub)
    (hv1 : lb ≤ v) (hv2 : v ≤ ub) (hlb0 : 0 ≤ lb) (hub63 : ub < 2 ^ 63)
    (hbig : ub - lb + 1 > 65536 → lb = 0)
    (hs : params.sizeExt = false)
    (h : appendInteger pos v params.valueExt params.valueLB params.valueUB = .ok bits) :
    RT bits pos (leafDec .int params) (.int v) := by
  unfold appendInteger at h
  rw [hlb, hub] at h
  have hnlt : ¬ v < lb := by omega
  simp only [hnlt, if_false, hv2, if_true] at h
  unfold leafDec
  have hext := RT_extBits_leaf pos params hs
  have hdec : ∀ (b2 : Bits) (pos2 : Nat), RT b2 pos2 (parseInteger false (some lb) (some ub)) v →
      RT b2 pos2 (decLeaf .int params false false) (.int v) := by
    intro b2 pos2 hp
    unfold decLeaf
    rw [hlb, hub]
    have := RT_bind (f := fun k => (pure (Val.int k) : D Val)) hp (RT_pure _ (Val.int v))
    rw [List.append_nil] at this
    exact this
  split at h
  · -- range = 1
    rename_i hr1
    simp only [Except.ok.injEq] at h
    rw [← h]
    have hveq : ub = v := by omega
    have := RT_bind (f := fun x => decLeaf .int params x.1 x.2) hext (c := .int v) (b2 := []) (by
      dsimp only
      apply hdec
      unfold parseInteger
      simp only [Bool.false_eq_true, if_false, hr1, if_true]
      rw [hveq]
      exact RT_pure _ v)
    rw [List.append_nil] at this
    exact this
  · rename_i hr1
    have hrpos : ¬ (ub - lb + 1 ≤ 0) := by omega
    simp only [hrpos, if_false] at h
    split at h
    · -- constrained whole number
      rename_i hr64
      cases hc : appendConstraintValue (pos + (if params.valueExt = true then [false] else []).length) (ub - lb + 1) (v - lb).toNat with
      | error e => rw [hc] at h; simp at h
      | ok cb =>
        rw [hc] at h
        simp only [Except.ok.injEq] at h
        rw [← h]
        refine RT_bind hext ?_
        dsimp only
        apply hdec
        unfold parseInteger
        simp only [Bool.false_eq_true, if_false, hr1, hrpos, hr64, if_true]
        have hcv := RT_constraintValue _ _ _ _ hc
        have := RT_bind (f := fun (raw : Nat) => (pure (wrapInt64 ((raw : Int) + lb)) : D Int)) hcv (RT_pure _ _)
        rw [List.append_nil] at this
        have hw : wrapInt64 (((v - lb).toNat : Int) + lb) = v := by
          have e : ((v - lb).toNat : Int) + lb = v := by omega
          rw [e]; exact wrapInt64_small v (by omega) (by omega)
        rw [hw] at this
        exact this
    · -- range above 64K: octet count − 1, align, minimal octets
      rename_i hr64
      have hl0 : lb = 0 := hbig (by omega)
      subst hl0
      have hv0 : ¬ v < 0 := by omega
      simp only [hv0, if_false] at h
      have hvn : v.toNat < 256 ^ (8 + 1) := by
        have : v.toNat < 2 ^ 63 := by omega
        have e : (256 : Nat) ^ (8 + 1) = 2 ^ 72 := by decide
        rw [e]
        exact Nat.lt_of_lt_of_le this (Nat.pow_le_pow_right (by decide) (by decide))
      have ⟨hb1, hb2, hb3⟩ := octetCount_bound 8 v.toNat hvn
      have hrl8 : octetCount 9 (v.toNat >>> 8) ≤ 8 := by
        apply octetCount_le 9 v.toNat 8 (by decide)
        have : v.toNat < 2 ^ 63 := by omega
        have e : (256 : Nat) ^ 8 = 2 ^ 64 := by decide
        rw [e]; omega
      have hb9 := octetCount_bound 9 v.toNat (by
        have : v.toNat < 2 ^ 63 := by omega
        have e : (256 : Nat) ^ (9 + 1) = 2 ^ 80 := by decide
        rw [e]
        exact Nat.lt_of_lt_of_le this (Nat.pow_le_pow_right (by decide) (by decide)))
      generalize hrl : octetCount 9 (v.toNat >>> 8) = rawLength at h hrl8 hb9
      obtain ⟨hvlt, _, hr1'⟩ := hb9
      have ⟨hw1, hw2⟩ := bitsForRange_pos ((rangeByteLen (ub - 0 + 1) : Nat) : Int)
      cases hp1 : putBitsValue (rawLength - 1) (bitsForRange (rangeByteLen (ub - 0 + 1))) with
      | error e => rw [hp1] at h; simp at h
      | ok lenBits =>
        rw [hp1] at h
        dsimp only at h
        cases hp2 : putBitsValue (v - 0).toNat (8 * rawLength) with
        | error e => rw [hp2] at h; simp at h
        | ok body =>
          rw [hp2] at h
          simp only [Except.ok.injEq] at h
          rw [← h]
          have hvv : (v - 0).toNat = v.toNat := by simp
          rw [hvv] at hp2
          have ⟨hbody, hvb⟩ := putBitsValue_ok64 v.toNat (8 * rawLength) body (by omega) (by omega) (by omega) hp2
          rw [List.append_assoc, List.append_assoc]
          refine RT_bind hext ?_
          dsimp only
          apply hdec
          unfold parseInteger
          simp only [Bool.false_eq_true, if_false, hr1, hrpos, hr64]
          have hlen := RT_putBitsValue (pos + (if params.valueExt = true then [false] else []).length)
            (rawLength - 1) _ lenBits hw1 hw2 hp1
          refine RT_bind hlen ?_
          have hrr : rawLength - 1 + 1 = rawLength := by omega
          rw [hrr]
          refine RT_seq (RT_align _) ?_
          have hcomm : rawLength * 8 = 8 * rawLength := Nat.mul_comm _ _
          rw [hcomm, hbody]
          have hraw := RT_getBitsValue (8 * rawLength) v.toNat
            (pos + (if params.valueExt = true then [false] else []).length + lenBits.length +
              (alignBits (pos + (if params.valueExt = true then [false] else []).length + lenBits.length)).length)
            (by omega) hvb (by omega)
          have := RT_bind (f := fun (raw : Nat) => (pure (wrapInt64 (toInt64 raw + 0)) : D Int)) hraw (RT_pure _ _)
          rw [List.append_nil] at this
          have hw : wrapInt64 (toInt64 v.toNat + 0) = v := by
            rw [toInt64_small v.toNat (by omega)]
            have e : ((v.toNat : Nat) : Int) + 0 = v := by omega
            rw [e]; exact wrapInt64_small v (by omega) (by omega)
          rw [hw] at this
          exact this

/-! ### strings -/

/-- below the fragmentation threshold the loop runs once: length determinant, alignment, content -/
theorem fragLoop_small (unit : Nat) (sr : Int) (lb fuel pos rawLength : Nat) (payload : Bits) (h : rawLength < 16384) :
    fragLoop unit sr lb (fuel + 1) pos rawLength payload =
      match appendLength pos sr rawLength with
      | .error e => .error e
      | .ok lenBits =>
        if rawLength + lb = 0 then .ok lenBits
        else .ok (lenBits ++ alignBits (pos + lenBits.length) ++ payload.take ((rawLength + lb) * unit)) := by
  unfold fragLoop
  have h1 : ¬ rawLength ≥ 65536 := by omega
  have h2 : ¬ rawLength ≥ 16384 := by omega
  simp only [h1, h2, if_false]
  cases appendLength pos sr rawLength with
  | error e => rfl
  | ok lenBits =>
    dsimp only
    split
    · rfl
    · simp [h2]

/-- the size preamble of the encoder and the bounds the decoder derives agree -/
theorem sizePreamble_spec (len : Nat) (ext : Bool) (lbP ubP : Option Int) (pre : Bits) (lb ub sr : Int)
    (hext : ext = true → lbP.isSome ∧ ubP.isSome) (hpair : ubP.isSome → lbP.isSome)
    (h : sizePreamble len ext lbP ubP = .ok (pre, lb, ub, sr)) :
    ∃ se : Bool, (pre = if ext then [se] else []) ∧ (ext = false → se = false) ∧
      (sizeBounds se lbP ubP).1 = lb ∧ (sizeBounds se lbP ubP).2.2 = sr ∧
      (sr = 1 → (sizeBounds se lbP ubP).2.1 = ub) := by
  unfold sizePreamble at h
  cases lbP with
  | none =>
    have : ext = false := by
      cases ext with
      | false => rfl
      | true => have := hext rfl; simp at this
    subst this
    have hub : ubP = none := by
      cases ubP with
      | none => rfl
      | some u => have := hpair rfl; simp at this
    subst hub
    simp only [Except.ok.injEq, Prod.mk.injEq] at h
    obtain ⟨h1, h2, h3, h4⟩ := h
    refine ⟨false, by simp [h1], fun _ => rfl, ?_, ?_, ?_⟩
    · simp [sizeBounds, h2]
    · simp [sizeBounds, h4]
    · intro hsr; omega
  | some l =>
    cases ubP with
    | none =>
      have : ext = false := by
        cases ext with
        | false => rfl
        | true => have := hext rfl; simp at this
      subst this
      simp only [Except.ok.injEq, Prod.mk.injEq] at h
      obtain ⟨h1, h2, h3, h4⟩ := h
      refine ⟨false, by simp [h1], fun _ => rfl, ?_, ?_, ?_⟩
      · simp [sizeBounds, h2]
      · simp [sizeBounds, h4]
      · intro hsr; omega
    | some u =>
      dsimp only at h
      split at h
      · rename_i hle
        split at h
        · simp [err] at h
        · simp only [Except.ok.injEq, Prod.mk.injEq] at h
          obtain ⟨h1, h2, h3, h4⟩ := h
          refine ⟨false, ?_, fun _ => rfl, ?_, ?_, ?_⟩
          · rw [← h1]
          · simp [sizeBounds, h2]
          · simp [sizeBounds, ← h4, h2]
          · intro _; simp [sizeBounds, h3]
      · rename_i hle
        split at h
        · simp [err] at h
        · rename_i hne
          have hext' : ext = true := by cases ext <;> simp_all
          simp only [Except.ok.injEq, Prod.mk.injEq] at h
          obtain ⟨h1, h2, h3, h4⟩ := h
          refine ⟨true, ?_, ?_, ?_, ?_, ?_⟩
          · rw [← h1, hext']; rfl
          · intro hf; rw [hext'] at hf; cases hf
          · simp [sizeBounds, h2]
          · simp [sizeBounds, h4]
          · intro hsr; omega

theorem RT_takeOctets (pos : Nat) (bs : Bytes) : RT (bytesToBits bs) pos (takeOctets bs.length) bs := by
  intro tail _
  unfold takeOctets mkRd
  have hl := bytesToBits_length bs
  simp only [List.length_append, hl]
  have : ¬ 8 * bs.length > 8 * bs.length + tail.length := by omega
  simp only [this, if_false]
  have ht : (bytesToBits bs ++ tail).take (8 * bs.length) = bytesToBits bs := by rw [← hl]; simp
  have hd : (bytesToBits bs ++ tail).drop (8 * bs.length) = tail := by rw [← hl]; simp
  rw [ht, hd, bitsToBytes_bytesToBits]
  simp

theorem RT_get {α : Type} (bits : Bits) (pos : Nat) (k : Rd → D α) (a : α)
    (h : ∀ r, RT bits pos (k r) a) : RT bits pos (D.get >>= k) a := by
  intro tail ht
  rw [D_bind_apply]
  exact h _ tail ht

/-- one pass of the OCTET STRING loop on an unfragmented string -/
theorem RT_octLoop (pos : Nat) (sr lb : Int) (bs : Bytes) (fuel : Nat) (lenBits : Bits)
    (hlb : 0 ≤ lb) (hge : lb ≤ bs.length) (hlen : bs.length - lb.toNat < 16384)
    (hL : appendLength pos sr (bs.length - lb.toNat) = .ok lenBits) :
    RT (if bs.length = 0 then lenBits else lenBits ++ alignBits (pos + lenBits.length) ++ bytesToBits bs) pos
      (parseOctetStringLoop sr lb (fuel + 1) []) bs := by
  unfold parseOctetStringLoop
  have hpl := RT_length pos sr (bs.length - lb.toNat) lenBits hlen hL
  have hraw : (((bs.length - lb.toNat : Nat) : Int) + lb).toNat = bs.length := by omega
  by_cases h0 : bs.length = 0
  · simp only [h0, if_true]
    have hb : bs = [] := List.length_eq_zero_iff.mp h0
    have := RT_bind (f := fun (x : Nat × Bool) =>
        (match x with
        | (len, rep) =>
          if ((len : Int) + lb).toNat = 0 then pure ([] : Bytes)
          else do
            parseAlignBits
            let b ← takeOctets ((len : Int) + lb).toNat
            if rep then parseOctetStringLoop sr lb fuel ([] ++ b) else pure ([] ++ b) : D Bytes))
      hpl (c := bs) (b2 := []) (by
        dsimp only
        rw [hraw, h0]
        simp only [if_true]
        rw [hb]
        exact RT_pure _ _)
    rw [List.append_nil] at this
    exact this
  · simp only [h0, if_false]
    rw [List.append_assoc]
    refine RT_bind hpl ?_
    dsimp only
    rw [hraw]
    simp only [h0, if_false]
    refine RT_seq (RT_align _) ?_
    have := RT_bind (f := fun (b : Bytes) => (if false = true then parseOctetStringLoop sr lb fuel ([] ++ b) else pure ([] ++ b) : D Bytes))
      (RT_takeOctets (pos + lenBits.length + (alignBits (pos + lenBits.length)).length) bs) (c := bs) (b2 := []) (by
        simp only [Bool.false_eq_true, if_false, List.nil_append]
        exact RT_pure _ _)
    rw [List.append_nil] at this
    exact this

/-- the size-extension bit written by the encoder is read back by `extBits` (no value-extension bit) -/
theorem RT_extBits_sized (pos : Nat) (params : Params) (isSlice : Bool) (se : Bool)
    (hv : (params.valueExt && !isSlice) = false) (hse : params.sizeExt = false → se = false) :
    RT (if params.sizeExt then [se] else []) pos (extBits params isSlice) (se, false) := by
  cases hs : params.sizeExt with
  | false =>
    have := hse hs; subst this
    simpa using RT_extBits_none pos params isSlice hs hv
  | true => simpa using RT_extBits_size pos params isSlice se hs hv

/-- what the parameters of a sized type must satisfy for the encoder and decoder to agree on the preamble -/
def SizedParamsOK (params : Params) : Prop :=
  (params.sizeExt = true → params.sizeLB.isSome ∧ params.sizeUB.isSome) ∧
  (params.sizeUB.isSome → params.sizeLB.isSome) ∧
  (∀ l, params.sizeLB = some l → 0 ≤ l) ∧
  (∀ u, params.sizeUB = some u → u - params.sizeLB.getD 0 + 1 = 1 → u ≥ 1)

/-- OCTET STRING / PrintableString body: `parseOctetString` reads back what `appendOctetString` wrote -/
theorem RT_octetString (pos : Nat) (bytes : Bytes) (params : Params) (bits : Bits)
    (hok : SizedParamsOK params) (hlen : bytes.length < 16384)
    (hv : params.valueExt = false)
    (h : appendOctetString pos bytes params.sizeExt params.sizeLB params.sizeUB = .ok bits) :
    RT bits pos (extBits params false >>= fun x => parseOctetString x.1 params.sizeLB params.sizeUB) bytes := by
  obtain ⟨hext, hpair, hlbnn, hfix⟩ := hok
  unfold appendOctetString at h
  cases hsp : sizePreamble bytes.length params.sizeExt params.sizeLB params.sizeUB with
  | error e => rw [hsp] at h; simp at h
  | ok t =>
    obtain ⟨pre, lb, ub, sr⟩ := t
    rw [hsp] at h
    dsimp only at h
    obtain ⟨se, hpre, hse, hb1, hb3, hb2⟩ := sizePreamble_spec _ _ _ _ pre lb ub sr hext hpair hsp
    have hx := RT_extBits_sized pos params false se (by simp [hv]) hse
    rw [← hpre] at hx
    have hlb0 : 0 ≤ lb := by
      rw [← hb1]
      unfold sizeBounds
      split
      · simp
      · cases hl : params.sizeLB with
        | none => cases params.sizeUB <;> simp
        | some l =>
          have := hlbnn l hl
          cases params.sizeUB with
          | none => simpa using this
          | some u => simp only [Option.getD_some]; split <;> omega
    split at h
    · -- fixed size
      rename_i hsr
      have hub := hb2 hsr
      split at h
      · simp [err] at h
      · rename_i hlenub
        have hlenub' : (bytes.length : Int) = ub := by omega
        split at h
        · rename_i hgt2
          simp only [Except.ok.injEq] at h
          rw [← h, List.append_assoc]
          refine RT_bind hx ?_
          dsimp only
          unfold parseOctetString
          generalize hsb : sizeBounds se params.sizeLB params.sizeUB = sb at hb1 hb2 hb3 hub
          obtain ⟨lb', ub', sr'⟩ := sb
          simp only at hb1 hb3 hub
          subst hb3 hub
          dsimp only
          have hubgt : ub' > 2 := by omega
          simp only [hsr, if_true, hubgt]
          refine RT_seq (RT_align _) ?_
          have e : ub'.toNat = bytes.length := by omega
          rw [e]
          exact RT_takeOctets _ bytes
        · rename_i hle2
          split at h
          · simp [Aper.panic] at h
          simp only [Except.ok.injEq] at h
          rw [← h]
          refine RT_bind hx ?_
          dsimp only
          unfold parseOctetString
          generalize hsb : sizeBounds se params.sizeLB params.sizeUB = sb at hb1 hb2 hb3 hub
          obtain ⟨lb', ub', sr'⟩ := sb
          simp only at hb1 hb3 hub
          subst hb3 hub
          dsimp only
          have hubgt : ¬ ub' > 2 := by omega
          simp only [hsr, if_true, hubgt, if_false]
          have e : 8 * ub'.toNat = (bytesToBits bytes).length := by rw [bytesToBits_length]; omega
          rw [e]
          have hne : (bytesToBits bytes).length ≠ 0 := by
            rw [bytesToBits_length]
            -- a fixed size is at least one octet
            have hu1 : ub' ≥ 1 := by
              cases hu : params.sizeUB with
              | none =>
                unfold sizeBounds at hsb
                rw [hu] at hsb
                split at hsb <;> simp at hsb <;> omega
              | some u =>
                have := hfix u hu
                unfold sizeBounds at hsb
                rw [hu] at hsb
                split at hsb
                · simp at hsb; omega
                · simp only [Prod.mk.injEq] at hsb
                  obtain ⟨s1, s2, s3⟩ := hsb
                  split at s3 <;> omega
            omega
          have := RT_bind (f := fun (b : Bits) => (pure (bitsToBytes b) : D Bytes)) (RT_getBits (bytesToBits bytes) (pos + pre.length) hne) (RT_pure _ _)
          rw [List.append_nil, bitsToBytes_bytesToBits] at this
          exact this
    · -- variable size (unfragmented)
      rename_i hsr
      split at h
      · split at h <;> simp [err, Aper.panic] at h
      · rename_i hge
        have hfl := fragLoop_small 8 sr lb.toNat (bytes.length / 16384 + 1) (pos + pre.length) (bytes.length - lb.toNat)
          (bytesToBits bytes) (by omega)
        rw [hfl] at h
        cases hL : appendLength (pos + pre.length) sr (bytes.length - lb.toNat) with
        | error e => rw [hL] at h; simp at h
        | ok lenBits =>
          rw [hL] at h
          dsimp only at h
          have hloop := RT_octLoop (pos + pre.length) sr lb bytes
          have hsum : bytes.length - lb.toNat + lb.toNat = bytes.length := by omega
          rw [hsum] at h
          have htake : (bytesToBits bytes).take (bytes.length * 8) = bytesToBits bytes := by
            rw [List.take_of_length_le]; rw [bytesToBits_length]; omega
          rw [htake] at h
          have hres : bits = pre ++ (if bytes.length = 0 then lenBits else lenBits ++ alignBits (pos + pre.length + lenBits.length) ++ bytesToBits bytes) := by
            by_cases h0 : bytes.length = 0
            · simp only [h0, if_true, Except.ok.injEq] at h
              simp [h0, ← h]
            · simp only [h0, if_false, Except.ok.injEq] at h
              simp [h0, ← h]
          rw [hres]
          refine RT_bind hx ?_
          dsimp only
          unfold parseOctetString
          generalize hsb : sizeBounds se params.sizeLB params.sizeUB = sb at hb1 hb2 hb3
          obtain ⟨lb', ub', sr'⟩ := sb
          simp only at hb1 hb3
          subst hb1 hb3
          dsimp only
          simp only [hsr, if_false]
          apply RT_get
          intro r
          exact hloop (r.len + 1) lenBits hlb0 (by omega) (by omega) hL

/-- at an octet boundary: the availability check of parseBitString passes and the bits are read -/
theorem RT_checkedBits {α : Type} (pos : Nat) (content : Bits) (k : Bits → D α) (a : α) (b2 : Bits)
    (hne : content.length ≠ 0) (hal : pos % 8 = 0)
    (hk : RT b2 (pos + content.length) (k content) a) :
    RT (content ++ b2) pos (D.get >>= fun r =>
      if 8 * ((content.length + 7) / 8) > r.len then D.fail .error else getBits content.length >>= k) a := by
  intro tail ht
  rw [D_bind_apply]
  have hget : D.get (mkRd (content ++ b2 ++ tail) pos) = .ok (mkRd (content ++ b2 ++ tail) pos, mkRd (content ++ b2 ++ tail) pos) := rfl
  rw [hget]
  dsimp only
  have hlen : (mkRd (content ++ b2 ++ tail) pos).len = content.length + b2.length + tail.length := by
    simp [mkRd, List.length_append]; omega
  have hchk : ¬ 8 * ((content.length + 7) / 8) > (mkRd (content ++ b2 ++ tail) pos).len := by
    rw [hlen]
    rw [List.length_append] at ht
    omega
  simp only [hchk, if_false]
  exact RT_bind (RT_getBits content pos hne) hk tail ht

/-- one pass of the BIT STRING loop on an unfragmented string -/
theorem RT_bitLoop (pos : Nat) (sr lb : Int) (content : Bits) (fuel : Nat) (lenBits : Bits)
    (hlb : 0 ≤ lb) (hge : lb ≤ content.length) (hlen : content.length - lb.toNat < 16384)
    (hL : appendLength pos sr (content.length - lb.toNat) = .ok lenBits) :
    RT (if content.length = 0 then lenBits else lenBits ++ alignBits (pos + lenBits.length) ++ content) pos
      (parseBitStringLoop sr lb (fuel + 1) [] 0) (bitsToBytes content, content.length) := by
  unfold parseBitStringLoop
  have hpl := RT_length pos sr (content.length - lb.toNat) lenBits hlen hL
  have hraw : (((content.length - lb.toNat : Nat) : Int) + lb).toNat = content.length := by omega
  by_cases h0 : content.length = 0
  · have hb : content = [] := List.length_eq_zero_iff.mp h0
    subst hb
    simp only [List.length_nil, if_true]
    have := RT_bind (f := fun (x : Nat × Bool) =>
        (if ((x.1 : Int) + lb).toNat = 0 then pure (([] : Bytes), 0)
          else do
            parseAlignBits
            let r ← D.get
            if 8 * ((((x.1 : Int) + lb).toNat + 7) / 8) > r.len then D.fail .error
            else do
              let b ← getBits ((x.1 : Int) + lb).toNat
              if x.2 = true then parseBitStringLoop sr lb fuel ([] ++ bitsToBytes b) (0 + ((x.1 : Int) + lb).toNat)
              else pure ([] ++ bitsToBytes b, 0 + ((x.1 : Int) + lb).toNat) : D (Bytes × Nat)))
      hpl (c := (bitsToBytes [], 0)) (b2 := []) (by
        dsimp only
        rw [hraw]
        simp only [List.length_nil, if_true]
        exact RT_pure _ _)
    rw [List.append_nil] at this
    exact this
  · simp only [h0, if_false]
    rw [List.append_assoc]
    refine RT_bind hpl ?_
    dsimp only
    rw [hraw]
    simp only [h0, if_false]
    refine RT_seq (RT_align _) ?_
    have hal : (pos + lenBits.length + (alignBits (pos + lenBits.length)).length) % 8 = 0 := by
      simp only [alignBits, padLen, List.length_replicate]; omega
    have := RT_checkedBits (pos + lenBits.length + (alignBits (pos + lenBits.length)).length) content
      (fun b => (if false = true then parseBitStringLoop sr lb fuel ([] ++ bitsToBytes b) (0 + content.length)
        else pure ([] ++ bitsToBytes b, 0 + content.length) : D (Bytes × Nat)))
      (bitsToBytes content, content.length) [] h0 hal (by
        simp only [Bool.false_eq_true, if_false, List.nil_append, Nat.zero_add]
        exact RT_pure _ _)
    rw [List.append_nil] at this
    exact this

theorem fixed_ub_ge_one (se : Bool) (params : Params) (lb' ub' sr' : Int)
    (hfix : ∀ u, params.sizeUB = some u → u - params.sizeLB.getD 0 + 1 = 1 → u ≥ 1)
    (hsb : sizeBounds se params.sizeLB params.sizeUB = (lb', ub', sr')) (hsr : sr' = 1) : ub' ≥ 1 := by
  cases hu : params.sizeUB with
  | none =>
    unfold sizeBounds at hsb
    rw [hu] at hsb
    split at hsb <;> simp at hsb <;> omega
  | some u =>
    have := hfix u hu
    unfold sizeBounds at hsb
    rw [hu] at hsb
    split at hsb
    · simp at hsb; omega
    · simp only [Prod.mk.injEq] at hsb
      obtain ⟨s1, s2, s3⟩ := hsb
      split at s3 <;> omega

/-- BIT STRING body: `parseBitString` reads back the bits `appendBitString` wrote (the value's octets are
    the zero-padded packing of those bits) -/
theorem RT_bitString (pos : Nat) (bytes : Bytes) (len : Nat) (params : Params) (bits : Bits)
    (hok : SizedParamsOK params) (hlen : len < 16384) (hv : params.valueExt = false)
    (h : appendBitString pos bytes len params.sizeExt params.sizeLB params.sizeUB = .ok bits) :
    RT bits pos (extBits params false >>= fun x => parseBitString x.1 params.sizeLB params.sizeUB)
      (bitsToBytes ((bytesToBits bytes).take len), len) := by
  obtain ⟨hext, hpair, hlbnn, hfix⟩ := hok
  unfold appendBitString at h
  split at h
  · simp [Aper.panic] at h
  · rename_i hbl
    have hclen : ((bytesToBits bytes).take len).length = len := by
      rw [List.length_take, bytesToBits_length]; omega
    generalize hcontent : (bytesToBits bytes).take len = content at h hclen ⊢
    cases hsp : sizePreamble len params.sizeExt params.sizeLB params.sizeUB with
    | error e => rw [hsp] at h; simp at h
    | ok t =>
      obtain ⟨pre, lb, ub, sr⟩ := t
      rw [hsp] at h
      dsimp only at h
      obtain ⟨se, hpre, hse, hb1, hb3, hb2⟩ := sizePreamble_spec _ _ _ _ pre lb ub sr hext hpair hsp
      have hx := RT_extBits_sized pos params false se (by simp [hv]) hse
      rw [← hpre] at hx
      have hlb0 : 0 ≤ lb := by
        rw [← hb1]
        unfold sizeBounds
        split
        · simp
        · cases hl : params.sizeLB with
          | none => cases params.sizeUB <;> simp
          | some l =>
          have := hlbnn l hl
          cases params.sizeUB with
          | none => simpa using this
          | some u => simp only [Option.getD_some]; split <;> omega
      generalize hsb : sizeBounds se params.sizeLB params.sizeUB = sb at hb1 hb2 hb3
      obtain ⟨lb', ub', sr'⟩ := sb
      simp only at hb1 hb3 hb2
      subst hb1 hb3
      split at h
      · -- fixed size
        rename_i hsr
        have hub := hb2 hsr
        subst hub
        have hub1 := fixed_ub_ge_one se params lb' ub' sr' hfix hsb hsr
        split at h
        · simp [err] at h
        · rename_i hlenub
          have hlenub' : (len : Int) = ub' := by omega
          have hn : ub'.toNat = content.length := by omega
          have hne : content.length ≠ 0 := by omega
          split at h
          · rename_i hgt2
            simp only [Except.ok.injEq] at h
            rw [← h, List.append_assoc]
            refine RT_bind hx ?_
            dsimp only
            unfold parseBitString
            rw [hsb]
            dsimp only
            have hs2 : (ub'.toNat + 7) / 8 > 2 := by omega
            simp only [hsr, if_true, hs2]
            refine RT_seq (RT_align _) ?_
            have hal : (pos + pre.length + (alignBits (pos + pre.length)).length) % 8 = 0 := by
              simp only [alignBits, padLen, List.length_replicate]; omega
            rw [hn]
            have := RT_checkedBits (pos + pre.length + (alignBits (pos + pre.length)).length) content
              (fun b => (pure (bitsToBytes b, content.length) : D (Bytes × Nat))) (bitsToBytes content, content.length) []
              hne hal (RT_pure _ _)
            rw [List.append_nil, hclen] at this
            rw [hclen]
            exact this
          · rename_i hle2
            split at h
            · simp [Aper.panic] at h
            simp only [Except.ok.injEq] at h
            rw [← h]
            refine RT_bind hx ?_
            dsimp only
            unfold parseBitString
            rw [hsb]
            dsimp only
            have hs2 : ¬ (ub'.toNat + 7) / 8 > 2 := by omega
            simp only [hsr, if_true, hs2, if_false]
            rw [hn]
            have := RT_bind (f := fun (b : Bits) => (pure (bitsToBytes b, content.length) : D (Bytes × Nat)))
              (RT_getBits content (pos + pre.length) hne) (RT_pure _ _)
            rw [List.append_nil, hclen] at this
            rw [hclen]
            exact this
      · -- variable size (unfragmented)
        rename_i hsr
        split at h
        · split at h <;> simp [err, Aper.panic] at h
        · rename_i hge
          have hfl := fragLoop_small 1 sr' lb'.toNat (len / 16384 + 1) (pos + pre.length) (len - lb'.toNat)
            content (by omega)
          rw [hfl] at h
          cases hL : appendLength (pos + pre.length) sr' (len - lb'.toNat) with
          | error e => rw [hL] at h; simp at h
          | ok lenBits =>
            rw [hL] at h
            dsimp only at h
            have hsum : len - lb'.toNat + lb'.toNat = len := by omega
            rw [hsum] at h
            have htake : content.take (len * 1) = content := by
              rw [List.take_of_length_le]; omega
            rw [htake] at h
            have hres : bits = pre ++ (if content.length = 0 then lenBits else lenBits ++ alignBits (pos + pre.length + lenBits.length) ++ content) := by
              rw [hclen]
              by_cases h0 : len = 0
              · simp only [h0, if_true, Except.ok.injEq] at h
                simp [h0, ← h]
              · simp only [h0, if_false, Except.ok.injEq] at h
                simp [h0, ← h]
            rw [hres]
            refine RT_bind hx ?_
            dsimp only
            unfold parseBitString
            rw [hsb]
            dsimp only
            simp only [hsr, if_false]
            apply RT_get
            intro r
            have hloop := RT_bitLoop (pos + pre.length) sr' lb' content (r.len + 1) lenBits hlb0 (by omega) (by omega)
              (by rw [hclen]; exact hL)
            rw [hclen] at hloop ⊢
            exact hloop

/-! ### leaf level of parseField -/

theorem RT_leaf_octs (pos : Nat) (bytes : Bytes) (params : Params) (bits : Bits)
    (hok : SizedParamsOK params) (hlen : bytes.length < 16384) (hv : params.valueExt = false)
    (h : appendOctetString pos bytes params.sizeExt params.sizeLB params.sizeUB = .ok bits) :
    RT bits pos (leafDec .octs params) (.octs bytes) := by
  have h1 := RT_octetString pos bytes params bits hok hlen hv h
  unfold leafDec decLeaf
  intro tail ht
  have := h1 tail ht
  rw [D_bind_apply] at this ⊢
  cases hx : extBits params false (mkRd (bits ++ tail) pos) with
  | error e => rw [hx] at this; simp at this
  | ok p =>
    obtain ⟨x, r1⟩ := p
    rw [hx] at this
    dsimp only at this ⊢
    rw [D_bind_apply, this]
    rfl

theorem RT_leaf_str (pos : Nat) (bytes : Bytes) (params : Params) (bits : Bits)
    (hok : SizedParamsOK params) (hlen : bytes.length < 16384) (hv : params.valueExt = false)
    (h : appendOctetString pos bytes params.sizeExt params.sizeLB params.sizeUB = .ok bits) :
    RT bits pos (leafDec .str params) (.str bytes) := by
  have h1 := RT_octetString pos bytes params bits hok hlen hv h
  unfold leafDec decLeaf
  intro tail ht
  have := h1 tail ht
  rw [D_bind_apply] at this ⊢
  cases hx : extBits params false (mkRd (bits ++ tail) pos) with
  | error e => rw [hx] at this; simp at this
  | ok p =>
    obtain ⟨x, r1⟩ := p
    rw [hx] at this
    dsimp only at this ⊢
    rw [D_bind_apply, this]
    rfl

theorem RT_leaf_bits (pos : Nat) (bytes : Bytes) (len : Nat) (params : Params) (bits : Bits)
    (hok : SizedParamsOK params) (hlen : len < 16384) (hv : params.valueExt = false)
    (hcanon : bitsToBytes ((bytesToBits bytes).take len) = bytes)
    (h : appendBitString pos bytes len params.sizeExt params.sizeLB params.sizeUB = .ok bits) :
    RT bits pos (leafDec .bits params) (.bits bytes len) := by
  have h1 := RT_bitString pos bytes len params bits hok hlen hv h
  rw [hcanon] at h1
  unfold leafDec decLeaf
  intro tail ht
  have := h1 tail ht
  rw [D_bind_apply] at this ⊢
  cases hx : extBits params false (mkRd (bits ++ tail) pos) with
  | error e => rw [hx] at this; simp at this
  | ok p =>
    obtain ⟨x, r1⟩ := p
    rw [hx] at this
    dsimp only at this ⊢
    rw [D_bind_apply, this]
    rfl

theorem RT_leaf_bool (pos : Nat) (b : Bool) (params : Params)
    (hs : params.sizeExt = false) (hv : params.valueExt = false) :
    RT [b] pos (leafDec .bool params) (.bool b) := by
  unfold leafDec
  have hx := RT_extBits_none pos params false hs (by simp [hv])
  have := RT_bind (f := fun x => decLeaf .bool params x.1 x.2) hx (c := .bool b) (b2 := [b]) (by
    dsimp only
    unfold decLeaf
    have := RT_bind (f := fun (x : Nat) => (pure (Val.bool (decide (x = 1))) : D Val)) (RT_getBit (pos + 0) b) (RT_pure _ _)
    rw [List.append_nil] at this
    cases b <;> simpa using this)
  simpa using this

end Stgutg.Proofs.AperRT
