/-
  C04 helper lemmas: the decoder model reads back what the encoder model wrote.
  `RT bits pos m a` : started at bit position `pos` on input `bits ++ tail` (any tail), the decoder
  computation `m` returns `a` and leaves exactly `tail`.
-/
import Stgutg.Model.AperDec
import Stgutg.Proofs.Bits

namespace Stgutg.Proofs.AperRT
open Stgutg Stgutg.Aper Stgutg.Proofs.Bits

def mkRd (l : Bits) (pos : Nat) : Rd := ⟨l, pos, l.length⟩

def RT {α : Type} (bits : Bits) (pos : Nat) (m : D α) (a : α) : Prop :=
  ∀ tail, m (mkRd (bits ++ tail) pos) = .ok (a, mkRd tail (pos + bits.length))

theorem D_pure_apply {α : Type} (a : α) (r : Rd) : (pure a : D α) r = .ok (a, r) := rfl
theorem D_bind_apply {α β : Type} (m : D α) (f : α → D β) (r : Rd) :
    (m >>= f) r = match m r with | .ok (a, r') => f a r' | .error e => .error e := rfl

theorem RT_pure {α : Type} (pos : Nat) (a : α) : RT [] pos (pure a : D α) a := by
  intro tail; simp [D_pure_apply]

theorem RT_bind {α β : Type} {b1 b2 : Bits} {pos : Nat} {m : D α} {f : α → D β} {a : α} {c : β}
    (h1 : RT b1 pos m a) (h2 : RT b2 (pos + b1.length) (f a) c) : RT (b1 ++ b2) pos (m >>= f) c := by
  intro tail
  rw [D_bind_apply, List.append_assoc, h1 (b2 ++ tail)]
  dsimp only
  rw [h2 tail, List.length_append, Nat.add_assoc]

/-- sequencing with a unit-valued step -/
theorem RT_seq {β : Type} {b1 b2 : Bits} {pos : Nat} {m : D Unit} {k : D β} {c : β}
    (h1 : RT b1 pos m ()) (h2 : RT b2 (pos + b1.length) k c) : RT (b1 ++ b2) pos (m >>= fun _ => k) c :=
  RT_bind h1 h2

theorem RT_congr_bits {α : Type} {b b' : Bits} {pos : Nat} {m : D α} {a : α} (h : b = b') (hr : RT b pos m a) :
    RT b' pos m a := h ▸ hr

theorem RT_getBits (b : Bits) (pos : Nat) (hne : b.length ≠ 0) : RT b pos (getBits b.length) b := by
  intro tail
  unfold getBits mkRd
  simp only [hne, if_false, List.length_append]
  have : ¬ b.length > b.length + tail.length := by omega
  simp [this]

theorem RT_getBitsValue (w v : Nat) (pos : Nat) (hw : w ≠ 0) (hv : v < 2 ^ w) (hv64 : v < 2 ^ 64) :
    RT (natToBits w v) pos (getBitsValue w) v := by
  unfold getBitsValue
  have h := RT_getBits (natToBits w v) pos (by simpa using hw)
  rw [natToBits_length] at h
  have h2 := RT_bind (f := fun b => (pure (bitsToNat b % 2 ^ 64) : D Nat)) h (RT_pure (pos + (natToBits w v).length) (bitsToNat (natToBits w v) % 2 ^ 64))
  rw [List.append_nil, bitsToNat_natToBits_of_lt w v hv, Nat.mod_eq_of_lt hv64] at h2
  exact h2

theorem bitsToNat_replicate_false (k : Nat) : bitsToNat (List.replicate k false) = 0 := by
  induction k with
  | zero => rfl
  | succ k ih => rw [List.replicate_succ, bitsToNat_cons, ih]; simp

theorem RT_align (pos : Nat) : RT (alignBits pos) pos parseAlignBits () := by
  intro tail
  unfold parseAlignBits alignBits padLen mkRd
  dsimp only
  by_cases h : pos % 8 > 0
  · simp only [h, if_true]
    have hk : (8 - pos % 8) % 8 = 8 - pos % 8 := Nat.mod_eq_of_lt (by omega)
    rw [hk]
    have hne : 8 - pos % 8 ≠ 0 := by omega
    unfold getBitsValue
    rw [D_bind_apply]
    unfold getBits
    simp only [hne, if_false, List.length_append, List.length_replicate]
    have : ¬ 8 - pos % 8 > 8 - pos % 8 + tail.length := by omega
    simp only [this, if_false]
    have ht : (List.replicate (8 - pos % 8) false ++ tail).take (8 - pos % 8) = List.replicate (8 - pos % 8) false := by
      have := take_append_length (List.replicate (8 - pos % 8) false) tail
      simp
    have hd : (List.replicate (8 - pos % 8) false ++ tail).drop (8 - pos % 8) = tail := by
      have := drop_append_length (List.replicate (8 - pos % 8) false) tail
      simpa using this
    simp only [D_pure_apply, ht, hd, bitsToNat_replicate_false]
    simp
  · have h0 : pos % 8 = 0 := by omega
    simp [h0]

theorem putBitsValue_ok (v n : Nat) (bits : Bits) (hn : n ≠ 0) (hn64 : n < 64)
    (h : putBitsValue v n = .ok bits) : bits = natToBits n v ∧ v < 2 ^ n := by
  unfold putBitsValue at h
  simp only [hn, if_false] at h
  split at h
  · simp [err] at h
  · rename_i hc
    simp only [Except.ok.injEq] at h
    exact ⟨h.symm, by omega⟩

theorem bitsForRange_pos (range : Int) : bitsForRange range ≠ 0 ∧ bitsForRange range < 64 := by
  unfold bitsForRange
  repeat (first | split | omega)

theorem pow_lt_64 (n v : Nat) (hn : n < 64) (hv : v < 2 ^ n) : v < 2 ^ 64 :=
  Nat.lt_of_lt_of_le hv (Nat.pow_le_pow_right (by decide) (by omega))

theorem RT_putBitsValue (pos v n : Nat) (bits : Bits) (hn : n ≠ 0) (hn64 : n < 64)
    (h : putBitsValue v n = .ok bits) : RT bits pos (getBitsValue n) v := by
  have ⟨hb, hv⟩ := putBitsValue_ok v n bits hn hn64 h
  rw [hb]
  exact RT_getBitsValue n v pos hn hv (pow_lt_64 n v hn64 hv)

theorem bind_ok_eq {α β : Type} (x : Res α) (f : α → Res β) (b : β) (h : (x >>= f) = .ok b) :
    ∃ a, x = .ok a ∧ f a = .ok b := by
  cases x with
  | error e => simp [bind, Except.bind] at h
  | ok a => exact ⟨a, rfl, by simpa [bind, Except.bind] using h⟩

theorem RT_constraintValue (pos : Nat) (range : Int) (v : Nat) (bits : Bits)
    (h : appendConstraintValue pos range v = .ok bits) : RT bits pos (parseConstraintValue range) v := by
  unfold appendConstraintValue at h
  unfold parseConstraintValue
  split at h
  · rename_i h255
    simp only [h255, if_true]
    split at h
    · simp [err] at h
    · rename_i hneg
      simp only [hneg, if_false]
      have ⟨h1, h2⟩ := bitsForRange_pos range
      exact RT_putBitsValue pos v _ bits h1 h2 h
  · rename_i h255
    simp only [h255, if_false]
    split at h
    · rename_i h256
      simp only [h256, if_true]
      obtain ⟨b, hb, hbits⟩ := bind_ok_eq _ _ _ h
      simp only [pure, Except.pure, Except.ok.injEq] at hbits
      rw [← hbits]
      exact RT_seq (RT_align pos) (RT_putBitsValue _ v 8 b (by decide) (by decide) hb)
    · rename_i h256
      simp only [h256, if_false]
      split at h
      · rename_i h64k
        simp only [h64k, if_true]
        obtain ⟨b, hb, hbits⟩ := bind_ok_eq _ _ _ h
        simp only [pure, Except.pure, Except.ok.injEq] at hbits
        rw [← hbits]
        exact RT_seq (RT_align pos) (RT_putBitsValue _ v 16 b (by decide) (by decide) hb)
      · simp [err] at h

theorem len7_facts : ∀ v : Fin 128, v.val &&& 128 = 0 ∧ v.val &&& 0x7f = v.val := by decide

theorem hi6_facts : ∀ hi : Fin 64, (128 + hi.val) &&& 128 ≠ 0 ∧ (128 + hi.val) &&& 64 = 0 ∧ (128 + hi.val) &&& 63 = hi.val := by
  decide

/-- two-octet length determinant: with x = v ||| 0x8000 (v < 16384), the first octet is 10xxxxxx and the 14 bits give v back -/
theorem len14_facts (v : Nat) (hv : v < 16384) :
    (v ||| 0x8000) < 65536 ∧ ((v ||| 0x8000) / 256) &&& 128 ≠ 0 ∧ ((v ||| 0x8000) / 256) &&& 64 = 0 ∧
    ((((v ||| 0x8000) / 256) &&& 63) <<< 8) ||| ((v ||| 0x8000) % 256) = v ∧
    (v ||| 0x8000) / 256 < 256 := by
  have hor : v ||| 0x8000 = 32768 + v := by
    have := Nat.two_pow_add_eq_or_of_lt (i := 15) (b := v) (by omega) 1
    rw [Nat.or_comm]
    simpa using this.symm
  rw [hor]
  have hdiv : (32768 + v) / 256 = 128 + v / 256 := by omega
  have hmod : (32768 + v) % 256 = v % 256 := by omega
  rw [hdiv, hmod]
  have hhi : v / 256 < 64 := by omega
  have ⟨f1, f2, f3⟩ := hi6_facts ⟨v / 256, hhi⟩
  simp only at f1 f2 f3
  refine ⟨by omega, f1, f2, ?_, by omega⟩
  rw [f3]
  have := Nat.shiftLeft_add_eq_or_of_lt (i := 8) (b := v % 256) (Nat.mod_lt _ (by decide)) (v / 256)
  rw [← this, Nat.shiftLeft_eq]
  have e : (2 : Nat) ^ 8 = 256 := by decide
  rw [e]
  omega

theorem RT_length (pos : Nat) (sr : Int) (v : Nat) (bits : Bits) (hv : v < 16384)
    (h : appendLength pos sr v = .ok bits) : RT bits pos (parseLength sr) (v, false) := by
  unfold appendLength at h
  unfold parseLength
  split at h
  · rename_i hc
    simp only [hc, if_true]
    have := RT_constraintValue pos sr v bits h
    have h2 := RT_bind (f := fun v => (pure (v, false) : D (Nat × Bool))) this (RT_pure _ (v, false))
    rw [List.append_nil] at h2
    exact h2
  · rename_i hc
    simp only [hc, if_false]
    split at h
    · rename_i h127
      obtain ⟨b, hb, hbits⟩ := bind_ok_eq _ _ _ h
      simp only [pure, Except.pure, Except.ok.injEq] at hbits
      rw [← hbits]
      refine RT_seq (RT_align pos) ?_
      have hg := RT_putBitsValue (pos + (alignBits pos).length) v 8 b (by decide) (by decide) hb
      have ⟨f1, f2⟩ := len7_facts ⟨v, by omega⟩
      have h2 := RT_bind (f := fun first => (if first &&& 128 = 0 then pure (first &&& 0x7f, false)
          else if first &&& 64 = 0 then do
            let second ← getBitsValue 8
            pure (((first &&& 63) <<< 8) ||| second, false)
          else
            let k := first &&& 63
            if k < 1 ∨ k > 4 then D.fail .error else pure (16384 * k, true) : D (Nat × Bool))) hg
        (c := (v, false)) (b2 := []) (by
          simp only at f1 f2
          simp only [f1, if_true, f2]
          exact RT_pure _ _)
      rw [List.append_nil] at h2
      exact h2
    · rename_i h127
      split at h
      · rename_i h16k
        obtain ⟨b, hb, hbits⟩ := bind_ok_eq _ _ _ h
        simp only [pure, Except.pure, Except.ok.injEq] at hbits
        rw [← hbits]
        refine RT_seq (RT_align pos) ?_
        have ⟨g1, g2, g3, g4, g5⟩ := len14_facts v hv
        have ⟨hbv, _⟩ := putBitsValue_ok (v ||| 0x8000) 16 b (by decide) (by decide) hb
        rw [hbv]
        have hsplit : natToBits 16 (v ||| 0x8000) = natToBits 8 ((v ||| 0x8000) / 2 ^ 8) ++ natToBits 8 (v ||| 0x8000) :=
          natToBits_add 8 8 (v ||| 0x8000)
        rw [hsplit]
        have hfirst := RT_getBitsValue 8 ((v ||| 0x8000) / 2 ^ 8) (pos + (alignBits pos).length) (by decide)
          (by simpa using g5) (by
            have : (v ||| 0x8000) / 2 ^ 8 < 256 := by simpa using g5
            omega)
        refine RT_bind hfirst ?_
        have e256 : (2 : Nat) ^ 8 = 256 := by decide
        simp only [e256, g2, if_false, g3, if_true]
        have hsec : natToBits 8 (v ||| 0x8000) = natToBits 8 ((v ||| 0x8000) % 256) := by
          have := natToBits_mod 8 8 (v ||| 0x8000) (Nat.le_refl _)
          rw [e256] at this; exact this.symm
        rw [hsec]
        have hlt : (v ||| 0x8000) % 256 < 256 := Nat.mod_lt _ (by decide)
        have hsecond := RT_getBitsValue 8 ((v ||| 0x8000) % 256)
          (pos + (alignBits pos).length + (natToBits 8 ((v ||| 32768) / 256)).length) (by decide)
          (by simpa using hlt) (by omega)
        have h3 := RT_bind (f := fun second => (pure (((((v ||| 0x8000) / 256) &&& 63) <<< 8) ||| second, false) : D (Nat × Bool)))
          hsecond (RT_pure _ _)
        rw [List.append_nil, g4] at h3
        exact h3
      · omega

theorem RT_getBit (pos : Nat) (b : Bool) : RT [b] pos (getBitsValue 1) (if b then 1 else 0) := by
  have h := RT_getBitsValue 1 (if b then 1 else 0) pos (by decide) (by cases b <;> decide) (by cases b <;> decide)
  have e : natToBits 1 (if b then 1 else 0) = [b] := by cases b <;> rfl
  rw [e] at h; exact h

/-- the extension bits: none when the parameters declare none -/
theorem RT_extBits_none (pos : Nat) (params : Params) (isSlice : Bool)
    (hs : params.sizeExt = false) (hv : (params.valueExt && !isSlice) = false) :
    RT [] pos (extBits params isSlice) (false, false) := by
  unfold extBits
  simp only [hs, hv, Bool.false_eq_true, if_false]
  exact RT_bind (b1 := []) (b2 := []) (RT_pure pos false) (RT_bind (b1 := []) (b2 := []) (RT_pure _ false) (RT_pure _ _))

/-- a size-extension bit only -/
theorem RT_extBits_size (pos : Nat) (params : Params) (isSlice : Bool) (b : Bool)
    (hs : params.sizeExt = true) (hv : (params.valueExt && !isSlice) = false) :
    RT [b] pos (extBits params isSlice) (b, false) := by
  unfold extBits
  simp only [hs, hv, Bool.false_eq_true, if_false, if_true]
  have h1 : RT [b] pos (do let x ← getBitsValue 1; pure (x != 0) : D Bool) b := by
    have := RT_bind (f := fun x => (pure (x != 0) : D Bool)) (RT_getBit pos b) (RT_pure _ ((if b then 1 else 0) != 0))
    rw [List.append_nil] at this
    cases b <;> simpa using this
  have := RT_bind (f := fun se => (do let ve ← (pure false : D Bool); pure (se, ve) : D (Bool × Bool))) h1
    (c := (b, false)) (b2 := []) (RT_bind (b1 := []) (b2 := []) (RT_pure _ false) (RT_pure _ _))
  rw [List.append_nil] at this
  exact this

/-- a value-extension bit only -/
theorem RT_extBits_value (pos : Nat) (params : Params) (isSlice : Bool) (b : Bool)
    (hs : params.sizeExt = false) (hv : (params.valueExt && !isSlice) = true) :
    RT [b] pos (extBits params isSlice) (false, b) := by
  unfold extBits
  simp only [hs, hv, Bool.false_eq_true, if_false, if_true]
  have h1 : RT [b] pos (do let x ← getBitsValue 1; pure (x != 0) : D Bool) b := by
    have := RT_bind (f := fun x => (pure (x != 0) : D Bool)) (RT_getBit pos b) (RT_pure _ ((if b then 1 else 0) != 0))
    rw [List.append_nil] at this
    cases b <;> simpa using this
  have := RT_bind (b1 := []) (f := fun se => (do let ve ← (do let x ← getBitsValue 1; pure (x != 0) : D Bool); pure (se, ve) : D (Bool × Bool)))
    (RT_pure pos false) (c := (false, b)) (b2 := [b])
    (by
      have := RT_bind (f := fun ve => (pure (false, ve) : D (Bool × Bool))) h1 (RT_pure _ (false, b))
      rw [List.append_nil] at this
      exact this)
  exact this

/-- the leaf branch of parseField -/
def leafDec (ty : Ty) (params : Params) : D Val :=
  extBits params false >>= fun x => decLeaf ty params x.1 x.2

theorem RT_extBits_leaf (pos : Nat) (params : Params) (hs : params.sizeExt = false) :
    RT (if params.valueExt then [false] else []) pos (extBits params false) (false, false) := by
  cases hv : params.valueExt with
  | false => simpa using RT_extBits_none pos params false hs (by simp [hv])
  | true => simpa using RT_extBits_value pos params false false hs (by simp [hv])

theorem RT_enum (pos n : Nat) (params : Params) (bits : Bits)
    (h : appendEnumerated pos n params.valueExt params.valueLB params.valueUB = .ok bits)
    (hs : params.sizeExt = false) (hlb : params.valueLB = some 0) :
    RT bits pos (leafDec .enum params) (.enum n) := by
  unfold appendEnumerated at h
  rw [hlb] at h
  cases hub : params.valueUB with
  | none => rw [hub] at h; simp [err] at h
  | some ub =>
    rw [hub] at h
    dsimp only at h
    split at h
    · simp [err] at h
    · rename_i hle
      split at h
      · simp [err] at h
      · rename_i hge
        unfold leafDec
        have hext := RT_extBits_leaf pos params hs
        split at h
        · rename_i hr
          cases hc : appendConstraintValue (pos + (if params.valueExt = true then [false] else []).length) (ub - 0 + 1) n with
          | error e => rw [hc] at h; simp at h
          | ok cb =>
            rw [hc] at h
            simp only [Except.ok.injEq] at h
            rw [← h]
            refine RT_bind hext ?_
            dsimp only
            unfold decLeaf parseEnumerated
            simp only [Bool.false_eq_true, if_false, hlb, hub, hr, if_true]
            have := RT_bind (f := fun k => (pure (Val.enum k) : D Val)) (RT_constraintValue _ _ _ _ hc) (RT_pure _ (Val.enum n))
            rw [List.append_nil] at this
            exact this
        · rename_i hr
          simp only [Except.ok.injEq] at h
          rw [← h]
          have hn : n = 0 := by omega
          subst hn
          have := RT_bind (f := fun x => decLeaf .enum params x.1 x.2) hext (c := .enum 0) (b2 := []) (by
            dsimp only
            unfold decLeaf parseEnumerated
            simp only [Bool.false_eq_true, if_false, hlb, hub, hr]
            exact RT_bind (b1 := []) (b2 := []) (RT_pure _ 0) (RT_pure _ _))
          rw [List.append_nil] at this
          exact this

end Stgutg.Proofs.AperRT
