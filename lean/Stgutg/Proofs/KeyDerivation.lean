/-
  Helper lemmas for C05 (core Lean only): the UeauCommon KDF vs. TS 33.220 B.2, the SUPI regexp on canonical
  SUPIs, the serving network name, the modelled wmnsk/milenage functions vs. TS 35.206 / TS 33.501 A.4.
-/
import Stgutg.Proofs.Milenage
import Stgutg.Model.KeyDerivation
import Stgutg.Spec.Ts33501A
namespace Stgutg.Proofs.KeyDerivation
open Stgutg Stgutg.Model.KeyDerivation Stgutg.Proofs.Milenage
open Stgutg.Spec.Ts35206 (BlockCipher)
open Stgutg.Spec (Ts33501A.kdf)

/-- the MAC has 256-bit outputs (HMAC-SHA-256) -/
def MacLen (h : Bytes → Bytes → Bytes) : Prop := ∀ key msg : Bytes, (h key msg).length = 32

theorem fc_kausf : hexDecode FC_FOR_KAUSF_DERIVATION = some [Spec.Ts33501A.fcKausf] := by decide
theorem fc_kseaf : hexDecode FC_FOR_KSEAF_DERIVATION = some [Spec.Ts33501A.fcKseaf] := by decide
theorem fc_kamf : hexDecode FC_FOR_KAMF_DERIVATION = some [Spec.Ts33501A.fcKamf] := by decide
theorem fc_alg : hexDecode FC_FOR_ALGORITHM_KEY_DERIVATION = some [Spec.Ts33501A.fcAlgKey] := by decide
theorem fc_resstar : hexDecode FC_FOR_RES_STAR_XRES_STAR_DERIVATION = some [Spec.Ts33501A.fcResStar] := by decide

theorem KDFLen_eq {p : Bytes} (h : p.length < 65536) : KDFLen p = Spec.Ts33501A.lenField p := by
  rw [KDFLen, Spec.Ts33501A.lenField, Nat.mod_eq_of_lt h]

theorem flatten_params (ps : List Bytes) (h : ∀ p ∈ ps, p.length < 65536) :
    (ps.flatMap fun p => [p, KDFLen p]).flatten = ps.flatMap fun p => p ++ Spec.Ts33501A.lenField p := by
  induction ps with
  | nil => rfl
  | cons p ps ih =>
    have hp := h p (by simp)
    have := ih (fun q hq => h q (by simp [hq]))
    simp only [List.flatMap_cons, List.flatten_cons, List.cons_append, List.nil_append, this, KDFLen_eq hp,
      List.append_assoc]

/-- GetKDFValue with L_i = KDFLen(P_i) is the TS 33.220 B.2 KDF -/
theorem getKDFValue_eq (P : Prims) (key fcS : Bytes) (c : UInt8) (ps : List Bytes)
    (hfc : hexDecode fcS = some [c]) (h : ∀ p ∈ ps, p.length < 65536) :
    GetKDFValue P key fcS (ps.flatMap fun p => [p, KDFLen p]) = Spec.Ts33501A.kdf P.hmac key c ps := by
  simp only [GetKDFValue, hfc, flatten_params ps h, Spec.Ts33501A.kdf, Spec.Ts33501A.kdfInput]
  rfl


/-! the SUPI regexp on a canonical IMSI SUPI -/
theorem takeWhile_all {l : Bytes} (h : l.all isDigit = true) : l.takeWhile isDigit = l := by
  induction l with
  | nil => rfl
  | cons a l ih =>
    simp only [List.all_cons, Bool.and_eq_true] at h
    simp [h.1, ih h.2]

theorem supiFind_imsi {d : Bytes} (hd : d.all isDigit = true) (h5 : 5 ≤ d.length) (h15 : d.length ≤ 15) :
    supiFind (str ['i', 'm', 's', 'i', '-'] ++ d) = some d := by
  have hm : supiMatchAt (str ['i', 'm', 's', 'i', '-'] ++ d) = some d := by
    have h1 : (str ['i', 'm', 's', 'i', '-'] ++ d).take 5 = str ['i', 'm', 's', 'i', '-'] := List.take_left' rfl
    have h2 : (str ['i', 'm', 's', 'i', '-'] ++ d).drop 5 = d := List.drop_left' rfl
    simp only [supiMatchAt, h1, h2, takeWhile_all hd, true_or, if_true, h5]
    rw [List.take_of_length_le h15]
  have he : str ['i', 'm', 's', 'i', '-'] ++ d = (105 : UInt8) :: ([109, 115, 105, 45] ++ d) := rfl
  rw [he] at hm ⊢
  rw [supiFind, hm]

/-! the serving network name -/
theorem snName_eq_spec {mnc mcc : Bytes} (hmnc : mnc.length = 2 ∨ mnc.length = 3) :
    snName mnc mcc = Spec.Ts33501A.snName mcc mnc := by
  rcases hmnc with h | h
  · simp [snName, Spec.Ts33501A.snName, h, str, Spec.Ts33501A.ascii]
  · simp [snName, Spec.Ts33501A.snName, h, str, Spec.Ts33501A.ascii]

theorem snName_length {mnc mcc : Bytes} (hmcc : mcc.length = 3) (hmnc : mnc.length = 2 ∨ mnc.length = 3) :
    (Spec.Ts33501A.snName mcc mnc).length = 32 := by
  rcases hmnc with h | h <;> simp [Spec.Ts33501A.snName, Spec.Ts33501A.ascii, h, hmcc]


theorem low128_32 {out : Bytes} (h : out.length = 32) : (out.drop 16).take 16 = Spec.Ts33501A.low128 out := by
  rw [Spec.Ts33501A.low128, h]
  exact List.take_of_length_le (by simp; omega)

/-- wmnsk F2345 with OPc configured = TS 35.206 f2, f3, f4, f5 -/
theorem mil_f2345_opc (P : Prims) (hE : BlockCipher P.aes) {k opc rand : Bytes} (op : Option Bytes)
    (hk : k.length = 16) (hopc : opc.length = 16) (hrand : rand.length = 16) (hop : ∀ o, op = some o → o.length = 16) :
    Mil.F2345 P { k := k, op := op, opc := some opc, rand := rand }
      = some { res := Spec.Ts35206.f2 P.aes k opc rand, ck := Spec.Ts35206.f3 P.aes k opc rand,
               ik := Spec.Ts35206.f4 P.aes k opc rand, ak := Spec.Ts35206.f5 P.aes k opc rand } := by
  have hro : (xorBytes rand opc).length = 16 := by rw [xorBytes_length]; omega
  have htemp : (P.aes k (xorBytes rand opc)).length = 16 := hE _ _ hk hro
  have hto : (xorBytes (P.aes k (xorBytes rand opc)) opc).length = 16 := by rw [xorBytes_length]; omega
  have hv : Mil.validateLength { k := k, op := op, opc := some opc, rand := rand } = true := by
    cases op with
    | none => simp [Mil.validateLength, hk, hopc, hrand]
    | some o => simp [Mil.validateLength, hk, hopc, hrand, hop o rfl]
  simp only [Mil.F2345, hv, not_true_eq_false, if_false,
    xor16_eq hrand hopc, xor16_eq htemp hopc, fN_block0 hto, fN_block8 hto, fN_block12 hto]
  simp [Spec.Ts35206.f2, Spec.Ts35206.f3, Spec.Ts35206.f4, Spec.Ts35206.f5, Spec.Ts35206.out2, Spec.Ts35206.out3,
    Spec.Ts35206.out4, Spec.Ts35206.outN, Spec.Ts35206.temp, Spec.Ts35206.r2, Spec.Ts35206.r3, Spec.Ts35206.r4,
    c2_eq, c3_eq, c4_eq]

/-- wmnsk F2345 with only OP configured = the same with the corresponding OPc = OP xor E_K(OP) configured -/
theorem mil_f2345_op (P : Prims) (hE : BlockCipher P.aes) {k op rand : Bytes}
    (hk : k.length = 16) (hop : op.length = 16) (hrand : rand.length = 16) :
    Mil.F2345 P { k := k, op := some op, opc := none, rand := rand }
      = Mil.F2345 P { k := k, op := none, opc := some (Spec.Ts35206.opc P.aes k op), rand := rand } := by
  have ho : (Spec.Ts35206.opc P.aes k op).length = 16 := by
    rw [Spec.Ts35206.opc, xorBytes_length, hE _ _ hk hop]; omega
  have hc : Mil.computeOPc P { k := k, op := some op, opc := none, rand := rand } = Spec.Ts35206.opc P.aes k op := by
    simp [Mil.computeOPc, Spec.Ts35206.opc, xorBytes_comm]
  simp only [Mil.F2345, Mil.validateLength, hk, hop, hrand, ho, hc]
  rfl

/-- wmnsk ComputeRESStar = TS 33.501 A.4 over the serving network name of (MCC, MNC) -/
theorem computeRESStar_eq (P : Prims) (hH : MacLen P.hmac) {rand mcc mnc : Bytes} (o : MilOut)
    (hrand : rand.length = 16) (hres : o.res.length = 8) (hck : o.ck.length = 16) (hik : o.ik.length = 16)
    (hmcc : mcc.length = 3) (hmnc : mnc.length = 2 ∨ mnc.length = 3) :
    computeRESStar P rand o mcc mnc
      = .ok (some (Spec.Ts33501A.resStar P.hmac o.ck o.ik (Spec.Ts33501A.snName mcc mnc) rand o.res)) := by
  have hsn := snName_length hmcc hmnc
  have hl : ∀ key msg, ¬ (P.hmac key msg).length < 16 := fun key msg => by rw [hH]; omega
  rcases hmnc with h | h
  · have hne : ¬ (mnc.length ≠ 2 ∧ mnc.length ≠ 3) := by omega
    have hsnn : str ['5', 'G', ':', 'm', 'n', 'c'] ++ (0x30 :: mnc) ++ str ['.', 'm', 'c', 'c'] ++ mcc ++
        str ['.', '3', 'g', 'p', 'p', 'n', 'e', 't', 'w', 'o', 'r', 'k', '.', 'o', 'r', 'g'] = Spec.Ts33501A.snName mcc mnc := by
      simp [Spec.Ts33501A.snName, h, str, Spec.Ts33501A.ascii]
    simp only [computeRESStar, hmcc, ne_eq, not_true_eq_false, if_false, h, false_and, if_true, hsnn, hsn, hl]
    simp [Spec.Ts33501A.resStar, Spec.Ts33501A.kdf, Spec.Ts33501A.kdfInput, Spec.Ts33501A.low128,
      Spec.Ts33501A.lenField, Spec.Ts33501A.fcResStar, hrand, hres, hck, hik, hsn, List.take_of_length_le]
  · have h2 : ¬ mnc.length = 2 := by omega
    simp only [computeRESStar, hmcc, ne_eq, not_true_eq_false, if_false, h, and_false, hl]
    simp [Spec.Ts33501A.resStar, Spec.Ts33501A.kdf, Spec.Ts33501A.kdfInput, Spec.Ts33501A.low128,
      Spec.Ts33501A.lenField, Spec.Ts33501A.fcResStar, hrand, hres, hck, hik, List.take_of_length_le,
      Spec.Ts33501A.snName, Spec.Ts33501A.ascii, str, h, hmcc]

end Stgutg.Proofs.KeyDerivation
