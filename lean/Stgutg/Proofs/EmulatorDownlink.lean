/-
  C01 helper: the emulator's reading of the specified downlink messages (Spec/AmfDownlink.lean).
  NGAP: each downlink value is the evaluation of a skeleton that passes the static analysis of C13 (Proofs/BuildersTm*.lean), so
  the specification encoder encodes it and the library decoder (model) returns it (C03 + C04).
-/
import Stgutg.Spec.AmfDownlink
import Stgutg.Proofs.BuildersPath
import Stgutg.Proofs.Emulator
import Stgutg.Model.NetExt

namespace Stgutg.Proofs.EmulatorDownlink
open Stgutg Stgutg.Aper Stgutg.Builders Stgutg.Model.Convert Stgutg.Model.Emulator
open Stgutg.Proofs.BuildersOk Stgutg.Proofs.Builders Stgutg.Proofs.BuildersTm Stgutg.Proofs.BuildersRange
open Stgutg.Proofs.BuildersRoles Stgutg.Proofs.BuildersPath

/-- an `okV` PDU value: the SPECIFICATION encodes it, and the emulator's decoder returns it from those octets -/
theorem ngap_roundtrip (v : Val)
    (h : okV Gen.Ngap.schema true Builders.fuel (.struct Gen.Ngap.pduId) Gen.Ngap.encoderParams v = true) :
    ∃ bs, Spec.AmfDl.ngap v = some bs ∧ ngapDecode bs = .ok v := by
  obtain ⟨bs, henc, hspec⟩ := okV_pdu_encodes true v h
  refine ⟨bs, ?_, okV_pdu_decodes v bs h henc⟩
  unfold Spec.AmfDl.ngap Spec.Amf.specSchema
  rw [Proofs.Emulator.patchSchema_eq, ← Proofs.Emulator.fuel_eq]
  exact hspec

/-! ### the skeletons of the three downlink message shapes -/

def tmDnt : Tm := initiating 4 Builders.ignore 22 [
  ieT 10 Builders.reject 9 1 (.struct [.hole (.arg 0)]),
  ieT 85 Builders.reject 9 2 (.struct [.hole (.arg 1)]),
  ieT 38 Builders.reject 9 5 (.struct [.hole (.argOcts 2)])]

def tDnt : Template :=
  { name := "DownlinkNASTransport", message := .UplinkNASTransport, roles := [.amf, .ran, .nas], dims := [],
    cases := [⟨[], .val tmDnt⟩] }

theorem dnt_eval (E : Ext) (plmn : Bytes) (amf ran : Int) (nas : Bytes) :
    Spec.AmfDl.downlinkNasTransport amf ran nas = eval E ⟨plmn, [.int amf, .int ran, .octs nas]⟩ .nil tmDnt := rfl

set_option maxRecDepth 1000000 in
theorem dnt_static : (skOK true tmDnt && (skObls tmDnt).all fun o => explicitOK tDnt o && (oblIndex o).isNone) = true := by
  decide +kernel

/-- a skeleton that passes the static analysis and leaves only explicit obligations (and those `extra` recognises, which are
    discharged separately), none about a list argument: the explicit ranges make its evaluation an `okV` PDU -/
theorem skeleton_okV' (E : Ext) (t : Template) (e : BEnv) (tm : Tm) (extra : Obl → Bool)
    (hst : (skOK true tm && (skObls tm).all fun o => (explicitOK t o || extra o) && (oblIndex o).isNone) = true)
    (hr : (∀ i, ¬ ∃ o ∈ skObls tm, oblIndex o = some i) → ArgsInRange true E t e tm)
    (hextra : ∀ o ∈ skObls tm, extra o = true → Obl.ok Gen.Ngap.schema true E e .nil o = true) :
    okV Gen.Ngap.schema true Builders.fuel (.struct Gen.Ngap.pduId) Gen.Ngap.encoderParams (eval E e .nil tm) = true := by
  simp only [Bool.and_eq_true, List.all_eq_true, Bool.or_eq_true] at hst
  have hno : ∀ i, ¬ ∃ o ∈ skObls tm, oblIndex o = some i := by
    rintro i ⟨o, ho, hi⟩
    have := (hst.2 o ho).2
    simp [hi] at this
  have hR := hr hno
  refine (tmOK_sound E e true Props.C03.ngap_schema_specOK Props.C03.ngap_schema_specOKc skDepth Builders.fuel _ _ tm .nil hst.1
    (fun o ho => ?_)).1
  rcases (hst.2 o ho).1 with h1 | h1
  · exact explicit_sound true E t e tm hR o ho h1
  · exact hextra o ho h1

theorem skeleton_okV (E : Ext) (t : Template) (e : BEnv) (tm : Tm)
    (hst : (skOK true tm && (skObls tm).all fun o => explicitOK t o && (oblIndex o).isNone) = true)
    (hr : (∀ i, ¬ ∃ o ∈ skObls tm, oblIndex o = some i) → ArgsInRange true E t e tm) :
    okV Gen.Ngap.schema true Builders.fuel (.struct Gen.Ngap.pduId) Gen.Ngap.encoderParams (eval E e .nil tm) = true :=
  skeleton_okV' E t e tm (fun _ => false) (by simpa using hst) hr (fun _ _ h => by cases h)

/-- **DOWNLINK NAS TRANSPORT**: for every AMF-UE-NGAP-ID below 2^40, RAN-UE-NGAP-ID below 2^32 and NAS-PDU the specification
    encodes the message and the emulator's decoder returns it -/
theorem dnt_roundtrip (amf ran : Int) (nas : Bytes) (ha0 : 0 ≤ amf) (ha1 : amf < 2 ^ 40) (hr0 : 0 ≤ ran) (hr1 : ran < 2 ^ 32) :
    ∃ bs, Spec.AmfDl.ngap (Spec.AmfDl.downlinkNasTransport amf ran nas) = some bs ∧
      ngapDecode bs = .ok (Spec.AmfDl.downlinkNasTransport amf ran nas) := by
  apply ngap_roundtrip
  rw [dnt_eval Model.NetExt.goExt [0, 0, 0] amf ran nas]
  apply skeleton_okV _ tDnt _ _ dnt_static
  intro hn
  refine ⟨rfl, ?_, ?_, ?_, ?_, ?_, ?_, ?_, fun i hi _ => absurd hi (hn i)⟩
  · intro i hi
    rcases i with _ | _ | _ | i <;> simp [roleAt, tDnt] at hi
    exact ⟨amf, rfl, ha0, ha1⟩
  · intro i hi
    rcases i with _ | _ | _ | i <;> simp [roleAt, tDnt] at hi
    exact ⟨ran, rfl, hr0, hr1⟩
  · intro i hi; rcases i with _ | _ | _ | i <;> simp [roleAt, tDnt] at hi
  · intro i hi; rcases i with _ | _ | _ | i <;> simp [roleAt, tDnt] at hi
  · intro i hi; rcases i with _ | _ | _ | i <;> simp [roleAt, tDnt] at hi
  · intro i j hi; rcases i with _ | _ | _ | i <;> simp [roleAt, tDnt] at hi
  · intro i j hi; rcases i with _ | _ | _ | i <;> simp [roleAt, tDnt] at hi

/-! ### NG SETUP RESPONSE -/

def guamiT : Tm := .struct [plmnT, .struct [.bits [0xca] 8], .struct [.bits [0xfe, 0x00] 10], .struct [.bits [0x00] 6], .nil]
def snssaiT : Tm := .struct [.struct [.octs [1]], .ptr (.struct [.octs [1, 2, 3]]), .nil]

def tmNgsr : Tm := successful 21 Builders.reject 7 [
  ieT 1 Builders.reject 5 1 (.struct [.str Spec.AmfDl.amfName]),
  ieT 96 Builders.reject 5 2 (.struct [.slice [.struct [guamiT, .nil, .nil]]]),
  ieT 86 Builders.ignore 5 3 (.struct [.int 255]),
  ieT 80 Builders.reject 5 4 (.struct [.slice [.struct [plmnT, .struct [.slice [.struct [snssaiT, .nil]]], .nil]]])]

def tNgsr : Template :=
  { name := "NGSetupResponse", message := .NGSetupResponse, roles := [], dims := [], cases := [⟨[], .val tmNgsr⟩] }

theorem ngsr_eval (E : Ext) (plmn : Bytes) : Spec.AmfDl.ngSetupResponse plmn = eval E ⟨plmn, []⟩ .nil tmNgsr := rfl

set_option maxRecDepth 1000000 in
theorem ngsr_static : (skOK true tmNgsr && (skObls tmNgsr).all fun o => explicitOK tNgsr o && (oblIndex o).isNone) = true := by
  decide +kernel

/-- **NG SETUP RESPONSE** with the announced 3-octet PLMN: encoded by the specification, decoded by the emulator -/
theorem ngsr_roundtrip (plmn : Bytes) (hp : plmn.length = 3) :
    ∃ bs, Spec.AmfDl.ngap (Spec.AmfDl.ngSetupResponse plmn) = some bs ∧
      ngapDecode bs = .ok (Spec.AmfDl.ngSetupResponse plmn) := by
  apply ngap_roundtrip
  rw [ngsr_eval Model.NetExt.goExt plmn]
  apply skeleton_okV _ tNgsr _ _ ngsr_static
  intro hn
  refine ⟨hp, ?_, ?_, ?_, ?_, ?_, ?_, ?_, fun i hi _ => absurd hi (hn i)⟩ <;>
    (intro i; simp [roleAt, tNgsr])

/-! ### INITIAL CONTEXT SETUP REQUEST -/

def tmIcsReq : Tm := initiating 14 Builders.reject 5 [
  ieT 10 Builders.reject 19 1 (.struct [.hole (.arg 0)]),
  ieT 85 Builders.reject 19 2 (.struct [.hole (.arg 1)]),
  ieT 28 Builders.reject 19 6 guamiT,
  ieT 0 Builders.reject 19 8 (.struct [.slice [.struct [snssaiT, .nil]]]),
  ieT 119 Builders.reject 19 9 (.struct [.struct [.bits [0, 0] 16], .struct [.bits [0x40, 0] 16], .struct [.bits [0, 0] 16],
    .struct [.bits [0, 0] 16], .nil]),
  ieT 94 Builders.reject 19 10 (.struct [.hole (.arg 3)]),
  ieT 38 Builders.ignore 19 16 (.struct [.hole (.argOcts 2)])]

def tIcsReq : Template :=
  { name := "InitialContextSetupRequest", message := .UplinkNASTransport, roles := [.amf, .ran, .nas, .val], dims := [],
    cases := [⟨[], .val tmIcsReq⟩] }

/-- the K_gNB obligation: a BIT STRING position that admits 256 bits -/
def isKgnb : Obl → Bool
  | .hole f ty p _ (.arg 3) => decide (0 < f) && ty == .bits && sizesOK 256 256 p
  | _ => false

theorem icsReq_eval (E : Ext) (plmn : Bytes) (amf ran : Int) (kgnb nas : Bytes) :
    Spec.AmfDl.initialContextSetupRequest amf ran plmn kgnb nas =
      eval E ⟨plmn, [.int amf, .int ran, .octs nas, .bits kgnb 256]⟩ .nil tmIcsReq := rfl

set_option maxRecDepth 1000000 in
theorem icsReq_static :
    (skOK true tmIcsReq && (skObls tmIcsReq).all fun o => (explicitOK tIcsReq o || isKgnb o) && (oblIndex o).isNone) = true := by
  decide +kernel

/-- **INITIAL CONTEXT SETUP REQUEST**: identifiers in range, 3-octet PLMN, a 32-octet K_gNB, any NAS-PDU -/
theorem icsReq_roundtrip (plmn : Bytes) (hp : plmn.length = 3) (amf ran : Int) (kgnb nas : Bytes)
    (ha0 : 0 ≤ amf) (ha1 : amf < 2 ^ 40) (hr0 : 0 ≤ ran) (hr1 : ran < 2 ^ 32) (hk : kgnb.length = 32) :
    ∃ bs, Spec.AmfDl.ngap (Spec.AmfDl.initialContextSetupRequest amf ran plmn kgnb nas) = some bs ∧
      ngapDecode bs = .ok (Spec.AmfDl.initialContextSetupRequest amf ran plmn kgnb nas) := by
  apply ngap_roundtrip
  rw [icsReq_eval Model.NetExt.goExt plmn amf ran kgnb nas]
  apply skeleton_okV' _ tIcsReq _ _ isKgnb icsReq_static
  · intro hn
    refine ⟨hp, ?_, ?_, ?_, ?_, ?_, ?_, ?_, fun i hi _ => absurd hi (hn i)⟩
    · intro i hi
      rcases i with _ | _ | _ | _ | i <;> simp [roleAt, tIcsReq] at hi
      exact ⟨amf, rfl, ha0, ha1⟩
    · intro i hi
      rcases i with _ | _ | _ | _ | i <;> simp [roleAt, tIcsReq] at hi
      exact ⟨ran, rfl, hr0, hr1⟩
    · intro i hi; rcases i with _ | _ | _ | _ | i <;> simp [roleAt, tIcsReq] at hi
    · intro i hi; rcases i with _ | _ | _ | _ | i <;> simp [roleAt, tIcsReq] at hi
    · intro i hi; rcases i with _ | _ | _ | _ | i <;> simp [roleAt, tIcsReq] at hi
    · intro i j hi; rcases i with _ | _ | _ | _ | i <;> simp [roleAt, tIcsReq] at hi
    · intro i j hi; rcases i with _ | _ | _ | _ | i <;> simp [roleAt, tIcsReq] at hi
  · intro o hmem ho
    clear hmem
    cases o with
    | hole f ty p opt h =>
      cases h <;> try (simp [isKgnb] at ho; done)
      rename_i i
      rcases i with _ | _ | _ | _ | i <;> try (simp [isKgnb] at ho; done)
      simp only [isKgnb, Bool.and_eq_true, decide_eq_true_eq, beq_iff_eq] at ho
      obtain ⟨⟨hf, rfl⟩, hs⟩ := ho
      simp only [Obl.ok, Bool.or_eq_true]
      right
      show okV _ _ _ _ _ (Val.bits kgnb 256) = true
      exact okV_bits _ _ _ hf _ _ _ (by rw [hk]) (fun _ => by have := canonical_full kgnb; rwa [hk] at this)
        (sizesOK_sound 256 256 _ p hs (by omega) (by omega))
    | _ => simp [isKgnb] at ho

end Stgutg.Proofs.EmulatorDownlink
