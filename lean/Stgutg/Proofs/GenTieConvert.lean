import Stgutg.Gen.PureConvert
import Stgutg.Model.Convert
import Stgutg.Proofs.GenTieBase
/-!
  Tie by translation (C17, and C11 for PlmnIDToNas): `Gen/PureConvert.lean` is regenerated from
  src/free5gclib/nas/nasConvert/{AmfId,PlmnId,Snssai}.go on every run by `gen pure-convert`.
  `hex.DecodeString` is a standard-library call: a parameter on both sides (`Go.Ext` / `Model.Convert.Ext`).
-/
namespace Stgutg.Proofs.GenTie.Convert
open Stgutg Stgutg.Gen Stgutg.Proofs.GenTie
open Stgutg.Model.Convert

/-- the translated functions' record of standard-library calls, from the hand model's (only `hexDecode` is called) -/
def extOf (M : Model.Convert.Ext) : Go.Ext :=
  { atoi := fun _ => (0, true), hexDecode := M.hexDecode, fmtD := fun _ => [], fmtD0Star := fun _ _ => [] }

/-- **Tie.** `AmfIdToNas`: same three values, same panics (fewer than three decoded octets). -/
theorem AmfIdToNas_eq (M : Model.Convert.Ext) (amfId : Bytes) :
    Pure.Convert.AmfIdToNas (extOf M) amfId = amfIdToNas M amfId := by
  unfold Pure.Convert.AmfIdToNas amfIdToNas
  simp only [extOf]
  match (M.hexDecode amfId).1 with
  | [] => simp [Go.idx]
  | [_] => simp [Go.idx]
  | [_, _] => simp [Go.idx]
  | b0 :: b1 :: b2 :: _ => simp [Go.idx]

theorem u8OfInt_eq (x : Int) : UInt8.ofInt x = u8OfInt x := by
  apply UInt8.toNat_inj.mp
  simp [u8OfInt, UInt8.ofInt]

/-- **Tie.** `SnssaiToNas` (total). -/
theorem SnssaiToNas_eq (M : Model.Convert.Ext) (sst : Int) (sd : Bytes) :
    Pure.Convert.SnssaiToNas (extOf M) { Sst := sst, Sd := sd } = snssaiToNas M sst sd := by
  unfold Pure.Convert.SnssaiToNas snssaiToNas
  simp only [extOf, u8OfInt_eq]
  cases sd with
  | nil => simp
  | cons a t =>
    cases (M.hexDecode (a :: t)).2 <;> simp

/-- one digit: `if tmp, err := strconv.Atoi(string(c)); err != nil {…} else { digit = tmp }` -/
theorem atoi_sel (keep : Nat) (c : UInt8) :
    (if (Go.atoiByte c).2 = true then (keep : Int) else (Go.atoiByte c).1) = ((atoiOr keep c : Nat) : Int) := by
  unfold Go.atoiByte atoiOr
  by_cases h : 48 ≤ c ∧ c ≤ 57
  · have : 48 ≤ c.toNat := by simpa using UInt8.le_iff_toNat_le.mp h.1
    simp [h]; omega
  · have : ¬ ((48 : UInt8) ≤ c && c ≤ 57) = true := by simpa using h
    simp [h, this]

theorem atoi_sel0 (c : UInt8) :
    (if (Go.atoiByte c).2 = true then (0 : Int) else (Go.atoiByte c).1) = ((atoiOr 0 c : Nat) : Int) := atoi_sel 0 c

theorem atoi_sel15 (c : UInt8) :
    (if (Go.atoiByte c).2 = true then (15 : Int) else (Go.atoiByte c).1) = ((atoiOr 15 c : Nat) : Int) := atoi_sel 15 c

theorem atoiOr_le (keep : Nat) (c : UInt8) (hk : keep ≤ 15) : atoiOr keep c ≤ 15 := by
  unfold atoiOr
  split
  · rename_i h
    simp at h
    have := UInt8.le_iff_toNat_le.mp h.2
    simp at this; omega
  · exact hk

set_option maxRecDepth 100000 in
/-- `uint8((hi << 4) | lo)` on Go ints is the hand model's `nib` for nibbles -/
theorem nib_eq : ∀ hi : Nat, hi < 16 → ∀ lo : Nat, lo < 16 →
    UInt8.ofInt (Go.ior (Go.ishlc (hi : Int) 4) (lo : Int)) = nib hi lo := by
  decide

theorem nib_eq15 (lo : Nat) (h2 : lo ≤ 15) :
    UInt8.ofInt (Go.ior (Go.ishlc (15 : Int) 4) (lo : Int)) = nib 15 lo :=
  nib_eq 15 (by omega) lo (by omega)

theorem nib_eq' (hi lo : Nat) (h1 : hi ≤ 15) (h2 : lo ≤ 15) :
    UInt8.ofInt (Go.ior (Go.ishlc (hi : Int) 4) (lo : Int)) = nib hi lo :=
  nib_eq hi (by omega) lo (by omega)


theorem Plmn_short_mcc0 (mnc : Bytes) : Pure.Convert.PlmnIDToNas { Mcc := [], Mnc := mnc } = .error .panic := rfl
theorem Plmn_short_mcc1 (c1 : UInt8) (mnc : Bytes) :
    Pure.Convert.PlmnIDToNas { Mcc := [c1], Mnc := mnc } = .error .panic := rfl
theorem Plmn_short_mcc2 (c1 c2 : UInt8) (mnc : Bytes) :
    Pure.Convert.PlmnIDToNas { Mcc := [c1, c2], Mnc := mnc } = .error .panic := rfl
theorem Plmn_short_mnc0 (c1 c2 c3 : UInt8) (t : Bytes) :
    Pure.Convert.PlmnIDToNas { Mcc := c1 :: c2 :: c3 :: t, Mnc := [] } = .error .panic := rfl
theorem Plmn_short_mnc1 (c1 c2 c3 n1 : UInt8) (t : Bytes) :
    Pure.Convert.PlmnIDToNas { Mcc := c1 :: c2 :: c3 :: t, Mnc := [n1] } = .error .panic := rfl

theorem Plmn_mnc2 (c1 c2 c3 n1 n2 : UInt8) (t : Bytes) :
    Pure.Convert.PlmnIDToNas { Mcc := c1 :: c2 :: c3 :: t, Mnc := [n1, n2] }
      = .ok [nib (atoiOr 0 c2) (atoiOr 0 c1), nib 15 (atoiOr 0 c3), nib (atoiOr 0 n2) (atoiOr 0 n1)] := by
  have b := fun k c => atoiOr_le k c
  unfold Pure.Convert.PlmnIDToNas
  simp [Go.idx, atoi_sel0, Go.len]
  exact ⟨nib_eq' _ _ (b 0 c2 (by omega)) (b 0 c1 (by omega)), nib_eq15 _ (b 0 c3 (by omega)),
    nib_eq' _ _ (b 0 n2 (by omega)) (b 0 n1 (by omega))⟩

theorem Plmn_mnc3 (c1 c2 c3 n1 n2 n3 : UInt8) (t : Bytes) :
    Pure.Convert.PlmnIDToNas { Mcc := c1 :: c2 :: c3 :: t, Mnc := [n1, n2, n3] }
      = .ok [nib (atoiOr 0 c2) (atoiOr 0 c1), nib (atoiOr 15 n3) (atoiOr 0 c3), nib (atoiOr 0 n2) (atoiOr 0 n1)] := by
  have b := fun k c => atoiOr_le k c
  unfold Pure.Convert.PlmnIDToNas
  simp [Go.idx, atoi_sel0, atoi_sel15, Go.len]
  exact ⟨nib_eq' _ _ (b 0 c2 (by omega)) (b 0 c1 (by omega)), nib_eq' _ _ (b 15 n3 (by omega)) (b 0 c3 (by omega)),
    nib_eq' _ _ (b 0 n2 (by omega)) (b 0 n1 (by omega))⟩

theorem Plmn_mnc4 (c1 c2 c3 n1 n2 n3 n4 : UInt8) (t r : Bytes) :
    Pure.Convert.PlmnIDToNas { Mcc := c1 :: c2 :: c3 :: t, Mnc := n1 :: n2 :: n3 :: n4 :: r }
      = .ok [nib (atoiOr 0 c2) (atoiOr 0 c1), nib 15 (atoiOr 0 c3), nib (atoiOr 0 n2) (atoiOr 0 n1)] := by
  have b := fun k c => atoiOr_le k c
  have hne : ¬ ((r.length : Int) + 1 + 1 + 1 + 1 = 3) := by omega
  unfold Pure.Convert.PlmnIDToNas
  simp [Go.idx, atoi_sel0, Go.len, hne]
  exact ⟨nib_eq' _ _ (b 0 c2 (by omega)) (b 0 c1 (by omega)), nib_eq15 _ (b 0 c3 (by omega)),
    nib_eq' _ _ (b 0 n2 (by omega)) (b 0 n1 (by omega))⟩

/-- **Tie.** `PlmnIDToNas`: same three octets, same panics (MCC shorter than 3, MNC shorter than 2). -/
theorem PlmnIDToNas_eq (mcc mnc : Bytes) :
    Pure.Convert.PlmnIDToNas { Mcc := mcc, Mnc := mnc } = plmnIDToNas mcc mnc := by
  match mcc, mnc with
  | [], _ => rw [Plmn_short_mcc0]; rfl
  | [_], _ => rw [Plmn_short_mcc1]; rfl
  | [_, _], _ => rw [Plmn_short_mcc2]; rfl
  | _ :: _ :: _ :: _, [] => rw [Plmn_short_mnc0]; rfl
  | _ :: _ :: _ :: _, [_] => rw [Plmn_short_mnc1]; rfl
  | _ :: _ :: _ :: _, [_, _] => rw [Plmn_mnc2]; rfl
  | _ :: _ :: _ :: _, [_, _, _] => rw [Plmn_mnc3]; rfl
  | _ :: _ :: _ :: _, _ :: _ :: _ :: _ :: _ => rw [Plmn_mnc4]; rfl

/-- non-trivial instances: PLMN 208/93 and 310/410 -/
example : Pure.Convert.PlmnIDToNas { Mcc := [50, 48, 56], Mnc := [57, 51] } = .ok [0x02, 0xf8, 0x39] := by rfl
example : Pure.Convert.PlmnIDToNas { Mcc := [51, 49, 48], Mnc := [52, 49, 48] } = .ok [0x13, 0x00, 0x14] := by rfl

end Stgutg.Proofs.GenTie.Convert
