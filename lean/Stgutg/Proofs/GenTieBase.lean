import Stgutg.Gen.PureRt
/-!
  Lemmas about the runtime of the `gen pure-*` translators (Gen/PureRt.lean) used by the tie theorems
  (Proofs/GenTie*.lean: generated definition = hand model).
-/
namespace Stgutg.Proofs.GenTie
open Stgutg Stgutg.Gen

@[simp] theorem ok_bind {α β : Type} (a : α) (f : α → Res β) : (Except.ok a >>= f) = f a := rfl
@[simp] theorem error_bind {α β : Type} (e : Err) (f : α → Res β) : ((Except.error e : Res α) >>= f) = .error e := rfl

theorem wrapInt_of_range {x : Int} (h1 : -2 ^ 63 ≤ x) (h2 : x < 2 ^ 63) : Go.wrapInt x = x := by
  unfold Go.wrapInt; omega

theorem iadd_of_range {a b : Int} (h1 : -2 ^ 63 ≤ a + b) (h2 : a + b < 2 ^ 63) : Go.iadd a b = a + b :=
  wrapInt_of_range h1 h2

theorem isub_of_range {a b : Int} (h1 : -2 ^ 63 ≤ a - b) (h2 : a - b < 2 ^ 63) : Go.isub a b = a - b :=
  wrapInt_of_range h1 h2

theorem idx_nat {α : Type} (l : List α) (n : Nat) (h : n < l.length) : Go.idx l (n : Int) = .ok l[n] := by
  simp [Go.idx, h]

theorem idx_nat_oob {α : Type} (l : List α) (n : Nat) (h : l.length ≤ n) : Go.idx l (n : Int) = .error .panic := by
  simp [Go.idx, h]

theorem set_last {α : Type} (b : List α) (z v : α) :
    Go.set (b ++ [z]) (b.length : Int) v = .ok (b ++ [v]) := by
  simp [Go.set]; omega

end Stgutg.Proofs.GenTie
