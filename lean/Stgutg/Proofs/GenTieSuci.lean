import Stgutg.Gen.PureSuci
import Stgutg.Model.Suci
import Stgutg.Proofs.GenTieBase
/-!
  Tie by translation (C11): `Gen/PureSuci.lean` is regenerated from src/stgutg/utils.go on every run by
  `gen pure-suci`; the theorems below prove that the translated `hexCharToByte` and `EncodeSuci` ARE the hand
  model `Model/Suci.lean` that the C11 theorems are about. A change to the Go text changes the generated
  definition, and these theorems stop checking.
-/
namespace Stgutg.Proofs.GenTie.Suci
open Stgutg Stgutg.Gen Stgutg.Proofs.GenTie
open Stgutg.Gen.Pure.Suci

/-- the translated `hexCharToByte` is the hand model, definitionally -/
theorem hexCharToByte_eq : Pure.Suci.hexCharToByte = Model.Suci.hexCharToByte := rfl

/-- the MSIN loop of the translated `EncodeSuci` appends `packMsin` of what is left of `msin` -/
theorem loop1_spec (msin : Bytes) (hlen : msin.length + 2 < 2 ^ 63) :
    ∀ (fuel n : Nat) (suci : MobileIdentity5GS), n ≤ msin.length + 1 → msin.length - n < fuel →
      suci.Buffer.length + (msin.length - n) + 2 < 2 ^ 63 →
      ∃ i', EncodeSuci.loop1 msin fuel (n : Int) suci
        = .ok (i', { suci with Buffer := suci.Buffer ++ Model.Suci.packMsin (msin.drop n) }) := by
  intro fuel
  induction fuel with
  | zero => intro n suci _ h; omega
  | succ fuel ih =>
    intro n suci hn hf hb
    unfold EncodeSuci.loop1
    by_cases hlt : n < msin.length
    · have hd : msin.drop n = msin[n] :: msin.drop (n + 1) := List.drop_eq_getElem_cons hlt
      have hj : Go.isub ((suci.Buffer.length : Int) + 1) 1 = (suci.Buffer.length : Int) := by
        rw [isub_of_range] <;> omega
      have hi1 : Go.iadd (n : Int) 1 = (n : Int) + 1 := by
        rw [iadd_of_range] <;> omega
      have hi2 : Go.iadd (n : Int) 2 = (n : Int) + 2 := by
        rw [iadd_of_range] <;> omega
      have h240 : ((15 : UInt8) <<< 4) = 240 := by decide
      by_cases hlast : n + 1 = msin.length
      · have hd1 : msin.drop (n + 1) = [] := by simp [hlast]
        have hd2 : msin.drop (n + 2) = [] := by simp; omega
        obtain ⟨i', hi'⟩ := ih (n + 2) { suci with Buffer := suci.Buffer ++ [(240 : UInt8) ||| Model.Suci.hexCharToByte msin[n]] }
          (by omega) (by omega) (by simp; omega)
        refine ⟨i', ?_⟩
        rw [show ((n + 2 : Nat) : Int) = (n : Int) + 2 by omega] at hi'
        simp only [List.append_assoc] at hi'
        have hl : (n : Int) + 1 = (msin.length : Int) := by omega
        simp [Go.len, hlt, hj, hi1, hi2, hl, idx_nat _ _ hlt, set_last, hd, hd1, hi', hd2, Model.Suci.packMsin, hexCharToByte_eq, h240]
      · have hlt1 : n + 1 < msin.length := by omega
        have hd1 : msin.drop (n + 1) = msin[n + 1] :: msin.drop (n + 2) := List.drop_eq_getElem_cons hlt1
        obtain ⟨i', hi'⟩ := ih (n + 2)
          { suci with Buffer := suci.Buffer ++ [Model.Suci.hexCharToByte msin[n + 1] <<< (4 : UInt8) ||| Model.Suci.hexCharToByte msin[n]] }
          (by omega) (by omega) (by simp; omega)
        refine ⟨i', ?_⟩
        rw [show ((n + 2 : Nat) : Int) = (n : Int) + 2 by omega] at hi'
        simp only [List.append_assoc] at hi'
        have hne : ¬ (n : Int) + 1 = (msin.length : Int) := by omega
        have hx := idx_nat _ _ hlt1
        push_cast at hx
        rw [hd, hd1, Model.Suci.packMsin]
        simp [Go.len, hlt, hj, hi1, hi2, hne, idx_nat _ _ hlt, hx, set_last, hi', Model.Suci.pack, hexCharToByte_eq]
    · have : msin.drop n = [] := by simp; omega
      simp [Go.len, hlt, this, Model.Suci.packMsin]

/-- **Tie.** The translated `EncodeSuci` returns exactly the hand model's buffer, `Len = uint16(len(Buffer))`,
    `Iei = 0` (the zero value: the composite literal does not set it), and panics exactly where the model does.
    The length hypothesis holds for every Go slice (`len` is an `int`). -/
theorem EncodeSuci_eq (imsi : Bytes) (mncLen : Int) (hlen : imsi.length + 10 < 2 ^ 63) :
    Pure.Suci.EncodeSuci imsi mncLen =
      (Model.Suci.encodeSuci imsi mncLen).map fun b =>
        { Iei := 0, Len := UInt16.ofInt (b.length : Int), Buffer := b } := by
  unfold Pure.Suci.EncodeSuci Model.Suci.encodeSuci
  match imsi with
  | [] => simp [Go.idx, Except.map]
  | [_] => simp [Go.idx, Except.map]
  | [_, _] => simp [Go.idx, Go.set, Except.map]
  | i0 :: i1 :: i2 :: t3 =>
    have h240 : ((15 : UInt8) <<< 4) = 240 := by decide
    by_cases hm : mncLen > 2
    · match t3 with
      | [] => simp [Go.idx, Go.set, hm, Except.map]
      | [_] => simp [Go.idx, Go.set, hm, Except.map]
      | [_, _] => simp [Go.idx, Go.set, hm, Except.map]
      | i3 :: i4 :: i5 :: msin =>
        obtain ⟨i', h⟩ := loop1_spec msin (by simp at hlen; omega) (msin.length + 1) 0
          { Iei := 0, Len := 0, Buffer := [1, Model.Suci.pack i1 i0, Model.Suci.pack i5 i2, Model.Suci.pack i4 i3, 0xf0, 0xff, 0, 0] }
          (by omega) (by omega) (by simp at hlen ⊢; omega)
        simp at h
        simp [Go.idx, Go.set, Go.sliceFrom, hm, Except.map, Go.len, hexCharToByte_eq, Model.Suci.pack] at h ⊢
        have h6 : (6 : Int) ≤ ↑msin.length + 1 + 1 + 1 + 1 + 1 + 1 := by omega
        simp [h6, h]
    · match t3 with
      | [] => simp [Go.idx, Go.set, hm, Except.map]
      | [_] => simp [Go.idx, Go.set, hm, Except.map]
      | i3 :: i4 :: msin =>
        obtain ⟨i', h⟩ := loop1_spec msin (by simp at hlen; omega) (msin.length + 1) 0
          { Iei := 0, Len := 0, Buffer := [1, Model.Suci.pack i1 i0, ((0xf : UInt8) <<< 4) ||| Model.Suci.hexCharToByte i2, Model.Suci.pack i4 i3, 0xf0, 0xff, 0, 0] }
          (by omega) (by omega) (by simp at hlen ⊢; omega)
        simp at h
        simp [Go.idx, Go.set, Go.sliceFrom, hm, Except.map, Go.len, hexCharToByte_eq, Model.Suci.pack] at h ⊢
        have h5 : (5 : Int) ≤ ↑msin.length + 1 + 1 + 1 + 1 + 1 := by omega
        simp [h240] at h ⊢
        simp [h5, h]

/-- the buffer alone: what `Model.Suci.encodeSuci` (and so every C11 theorem) speaks about -/
theorem EncodeSuci_buffer (imsi : Bytes) (mncLen : Int) (hlen : imsi.length + 10 < 2 ^ 63) :
    (Pure.Suci.EncodeSuci imsi mncLen).map (·.Buffer) = Model.Suci.encodeSuci imsi mncLen := by
  rw [EncodeSuci_eq imsi mncLen hlen]
  cases Model.Suci.encodeSuci imsi mncLen <;> rfl

/-- the hypotheses are satisfiable by a non-trivial value: IMSI 208930000000003, 2-digit MNC -/
example : (Pure.Suci.EncodeSuci [50, 48, 56, 57, 51, 48, 48, 48, 48, 48, 48, 48, 48, 48, 51] 2).map (·.Buffer)
    = .ok [0x01, 0x02, 0xf8, 0x39, 0xf0, 0xff, 0x00, 0x00, 0x00, 0x00, 0x00, 0x00, 0x30] := by rfl

end Stgutg.Proofs.GenTie.Suci
