/-
  C13 helper, part 5: from the static analysis to "the builder encodes for all in-range arguments".

  `skOK canon tm` / `skObls tm`: the analysis of Proofs/BuildersTm.lean run on a PDU skeleton (type NGAP-PDU under the
  parameters `ngap.Encoder` passes, the fuel of the encoder model).
  `InRange canon E t plmn args`: the arguments select a row of the template's decision table under which the builder
  returns a PDU, and satisfy every obligation of that row's skeleton.
  `selected_builds`: then the builder returns the evaluated skeleton, an `okV` PDU; `okV_pdu_encodes`: `ngap.Encoder` (model)
  returns octets for it and they are the X.691 encoding; `okV_pdu_decodes` (canon = true): the decoder model returns the PDU
  from those octets. (`Props.C13.C13_encodes` / `C13_decodes_back` put them together with the kernel-decided table.)
-/
import Stgutg.Proofs.BuildersTmSound
import Stgutg.Props.C03
import Stgutg.Props.C04

namespace Stgutg.Proofs.BuildersRange
open Stgutg Stgutg.Aper Stgutg.Builders Stgutg.Model.Convert
open Stgutg.Proofs.BuildersOk Stgutg.Proofs.Builders Stgutg.Proofs.BuildersTm

/-- depth bound of the skeleton traversal (skeletons are far shallower) -/
def skDepth : Nat := 64

/-- the static check of a PDU skeleton -/
def skOK (canon : Bool) (tm : Tm) : Bool :=
  tmOK Gen.Ngap.schema canon Builders.fuel skDepth Builders.fuel (.struct Gen.Ngap.pduId) Gen.Ngap.encoderParams tm

/-- what it leaves to the arguments -/
def skObls (tm : Tm) : List Obl :=
  obls Gen.Ngap.schema Builders.fuel skDepth Builders.fuel (.struct Gen.Ngap.pduId) Gen.Ngap.encoderParams tm

/-- the row of the decision table the arguments select (`build`) -/
def selected (E : Ext) (t : Template) (plmn : Bytes) (args : List Val) : Option Case :=
  t.cases.find? (fun c => c.cls == classes E t (effEnv t plmn args))

/-- the arguments are in range for the builder: they select a row that returns a PDU, and every hole of that row's skeleton
    is filled with a value of the type, and within the constraints, of its position -/
def InRange (canon : Bool) (E : Ext) (t : Template) (plmn : Bytes) (args : List Val) : Prop :=
  ∃ c tm, selected E t plmn args = some c ∧ c.out = .val tm ∧
    ∀ o ∈ skObls tm, Obl.ok Gen.Ngap.schema canon E (effEnv t plmn args) .nil o = true

theorem selected_mem (E : Ext) (t : Template) (plmn : Bytes) (args : List Val) (c : Case)
    (h : selected E t plmn args = some c) : c ∈ t.cases := List.mem_of_find?_eq_some h

/-- a PDU value that is `okV` is encoded by `ngap.Encoder` (model), with the octets X.691 prescribes -/
theorem okV_pdu_encodes (canon : Bool) (pdu : Val)
    (h : okV Gen.Ngap.schema canon Builders.fuel (.struct Gen.Ngap.pduId) Gen.Ngap.encoderParams pdu = true) :
    ∃ bs, encodePdu pdu = .ok bs ∧
      Spec.X691.encodePdu Gen.Ngap.schema Builders.fuel (.struct Gen.Ngap.pduId) Gen.Ngap.encoderParams pdu = some bs :=
  okV_marshal Gen.Ngap.schema canon Props.C03.ngap_schema_specOK Props.C03.ngap_schema_specOKc Builders.fuel _ _ pdu
    Props.C03.pdu_params_ok Props.C03.pdu_params_okc h

/-- … and the decoder model reads it back -/
theorem okV_pdu_decodes (pdu : Val) (bs : Bytes)
    (h : okV Gen.Ngap.schema true Builders.fuel (.struct Gen.Ngap.pduId) Gen.Ngap.encoderParams pdu = true)
    (henc : encodePdu pdu = .ok bs) :
    unmarshal Gen.Ngap.schema Builders.fuel (.struct Gen.Ngap.pduId) Gen.Ngap.decoderParams bs = .ok pdu :=
  Props.C04.C04_roundtrip_pdu Builders.fuel pdu bs (okV_conf Gen.Ngap.schema _ _ _ pdu h) henc

/-- the selected skeleton passes the static check and the arguments satisfy its obligations: `build` returns its evaluation,
    which is an `okV` PDU -/
theorem selected_builds (canon : Bool) (E : Ext) (t : Template) (plmn : Bytes) (args : List Val) (c : Case) (tm : Tm)
    (hsel : selected E t plmn args = some c) (hout : c.out = .val tm) (hsk : skOK canon tm = true)
    (hob : ∀ o ∈ skObls tm, Obl.ok Gen.Ngap.schema canon E (effEnv t plmn args) .nil o = true) :
    build E t plmn args = .ok (eval E (effEnv t plmn args) .nil tm) ∧
    okV Gen.Ngap.schema canon Builders.fuel (.struct Gen.Ngap.pduId) Gen.Ngap.encoderParams
      (eval E (effEnv t plmn args) .nil tm) = true := by
  obtain ⟨hv, henc⟩ := tmOK_sound E (effEnv t plmn args) canon Props.C03.ngap_schema_specOK Props.C03.ngap_schema_specOKc
    skDepth Builders.fuel _ _ tm .nil hsk hob
  refine ⟨?_, hv⟩
  unfold selected at hsel
  unfold build
  simp only [hsel, hout, henc]

end Stgutg.Proofs.BuildersRange
