/- Helper lemmas for C07: the code-shaped NEA/NIA models equal the 3GPP specifications. -/
import Stgutg.Model.NasAlg
import Stgutg.Spec.NasAlg
import Stgutg.Proofs.Snow3g

namespace Stgutg.Proofs.NasAlg
open Stgutg Stgutg.Model.NasAlg

/-! ### list lemmas -/

theorem zipWith_append_right {α β γ : Type} (f : α → β → γ) (l : List α) (a b : List β) :
    List.zipWith f l (a ++ b) = List.zipWith f (l.take a.length) a ++ List.zipWith f (l.drop a.length) b := by
  induction a generalizing l with
  | nil => simp
  | cons x a ih =>
    cases l with
    | nil => simp
    | cons y l => simp [ih]

theorem zipWith_take_right {α β γ : Type} (f : α → β → γ) (l : List α) (r : List β) :
    List.zipWith f l (r.take l.length) = List.zipWith f l r := by
  induction l generalizing r with
  | nil => simp
  | cons y l ih =>
    cases r with
    | nil => simp
    | cons x r => simp [ih]

theorem zipWith_congr_take {α β γ : Type} (f : α → β → γ) (l : List α) (a b : List β)
    (h : a.take l.length = b.take l.length) : List.zipWith f l a = List.zipWith f l b := by
  rw [← zipWith_take_right f l a, ← zipWith_take_right f l b, h]

theorem xorWords_eq (ws : List UInt32) (ibs : Bytes) :
    xorWords ws ibs = xorBytes ibs (ws.flatMap u32Bytes) := by
  induction ws generalizing ibs with
  | nil => simp [xorWords, xorBytes]
  | cons w ws ih =>
    simp only [xorWords, List.flatMap_cons, xorBytes, zipWith_append_right, u32Bytes_length]
    rw [ih]; rfl

theorem flatMap_u32Bytes_length (ws : List UInt32) : (ws.flatMap u32Bytes).length = 4 * ws.length := by
  induction ws with
  | nil => rfl
  | cons w ws ih => simp [List.flatMap_cons, ih]; omega

/-! ### the mask on the last keystream word never touches an octet that is used -/

theorem mask1 : (~~~(shl32 1 (32 - 8 * 1) - 1) : UInt32) = 0xFF000000 := by decide
theorem mask2 : (~~~(shl32 1 (32 - 8 * 2) - 1) : UInt32) = 0xFFFF0000 := by decide
theorem mask3 : (~~~(shl32 1 (32 - 8 * 3) - 1) : UInt32) = 0xFFFFFF00 := by decide

theorem lt8_cases (i : Nat) (h : i < 8) : i = 0 ∨ i = 1 ∨ i = 2 ∨ i = 3 ∨ i = 4 ∨ i = 5 ∨ i = 6 ∨ i = 7 := by omega

macro "byte_mask" : tactic => `(tactic| (
  apply UInt8.eq_of_toBitVec_eq
  simp only [UInt32.toBitVec_toUInt8, UInt32.toBitVec_shiftRight, UInt32.toBitVec_and]
  ext i hi
  simp
  intro _
  rcases lt8_cases i hi with h | h | h | h | h | h | h | h <;> subst h <;> decide))

theorem b0_m1 (w : UInt32) : ((w &&& 0xFF000000) >>> 24).toUInt8 = (w >>> 24).toUInt8 := by byte_mask
theorem b0_m2 (w : UInt32) : ((w &&& 0xFFFF0000) >>> 24).toUInt8 = (w >>> 24).toUInt8 := by byte_mask
theorem b1_m2 (w : UInt32) : ((w &&& 0xFFFF0000) >>> 16).toUInt8 = (w >>> 16).toUInt8 := by byte_mask
theorem b0_m3 (w : UInt32) : ((w &&& 0xFFFFFF00) >>> 24).toUInt8 = (w >>> 24).toUInt8 := by byte_mask
theorem b1_m3 (w : UInt32) : ((w &&& 0xFFFFFF00) >>> 16).toUInt8 = (w >>> 16).toUInt8 := by byte_mask
theorem b2_m3 (w : UInt32) : ((w &&& 0xFFFFFF00) >>> 8).toUInt8 = (w >>> 8).toUInt8 := by byte_mask

/-- with r = 8k bits (k = 1,2,3) kept, the first k octets of the last word are unchanged -/
theorem masked_take (w : UInt32) (k : Nat) (hk : k = 1 ∨ k = 2 ∨ k = 3) :
    (u32Bytes (w &&& ~~~(shl32 1 (32 - 8 * k) - 1))).take k = (u32Bytes w).take k := by
  rcases hk with h | h | h <;> subst h
  · simp only [mask1, u32Bytes, List.take, b0_m1]
  · simp only [mask2, u32Bytes, List.take, b0_m2, b1_m2]
  · simp only [mask3, u32Bytes, List.take, b0_m3, b1_m3, b2_m3]

theorem maskLast_xor (ibs : Bytes) (ks : List UInt32)
    (hl : ks.length = (8 * ibs.length + 31) / 32) :
    xorBytes ibs ((maskLast ((8 * ibs.length) % 32) ks).flatMap u32Bytes) = xorBytes ibs (ks.flatMap u32Bytes) := by
  unfold maskLast
  split
  · rfl
  · rename_i hr
    cases hlast : ks.getLast? with
    | none => rfl
    | some w =>
      have hks : ks = ks.dropLast ++ [w] := by
        have hne : ks ≠ [] := by intro h; simp [h] at hlast
        have h1 := List.dropLast_concat_getLast hne
        have h2 : ks.getLast hne = w := by
          have := List.getLast?_eq_some_getLast hne
          rw [hlast] at this; exact (Option.some.inj this).symm
        rw [h2] at h1; exact h1.symm
      simp only []
      apply zipWith_congr_take
      have hk : (ibs.length % 4 = 1 ∨ ibs.length % 4 = 2 ∨ ibs.length % 4 = 3) := by omega
      have hr8 : (8 * ibs.length) % 32 = 8 * (ibs.length % 4) := by omega
      have hdl : (ks.dropLast.flatMap u32Bytes).length = ibs.length - ibs.length % 4 := by
        rw [flatMap_u32Bytes_length, List.length_dropLast, hl]; omega
      have hsub : ibs.length - (ibs.length - ibs.length % 4) = ibs.length % 4 := by omega
      conv => rhs; rw [hks]
      simp only [List.flatMap_append, List.flatMap_cons, List.flatMap_nil, List.append_nil,
        List.take_append, hdl, hsub, hr8]
      rw [masked_take w _ hk]

/-! ### BEARER / DIRECTION packing: finite facts over 32 × 2 values -/

theorem fin_facts : ∀ (b : Fin 32) (d : Fin 2),
    ((UInt8.ofNat b.val).toUInt32 <<< 27) ||| ((UInt8.ofNat d.val).toUInt32 <<< 26)
        = Spec.NasAlg.bearerDirWord b.val d.val ∧
    (UInt8.ofNat b.val).toUInt32 <<< 27 = UInt32.ofNat (b.val * 2 ^ 27) ∧
    (UInt8.ofNat d.val).toUInt32 <<< 15 = UInt32.ofNat (d.val * 2 ^ 15) ∧
    (UInt8.ofNat d.val).toUInt32 <<< 31 = UInt32.ofNat (d.val * 2 ^ 31) ∧
    ((UInt8.ofNat b.val) <<< 3) ||| ((UInt8.ofNat d.val) <<< 2) = UInt8.ofNat (b.val * 8 + d.val * 4) := by
  decide

theorem bd_facts (b d : UInt8) (hb : b.toNat < 32) (hd : d.toNat < 2) :
    (b.toUInt32 <<< 27) ||| (d.toUInt32 <<< 26) = Spec.NasAlg.bearerDirWord b.toNat d.toNat ∧
    b.toUInt32 <<< 27 = UInt32.ofNat (b.toNat * 2 ^ 27) ∧
    d.toUInt32 <<< 15 = UInt32.ofNat (d.toNat * 2 ^ 15) ∧
    d.toUInt32 <<< 31 = UInt32.ofNat (d.toNat * 2 ^ 31) ∧
    (b <<< 3) ||| (d <<< 2) = UInt8.ofNat (b.toNat * 8 + d.toNat * 4) := by
  have h := fin_facts ⟨b.toNat, hb⟩ ⟨d.toNat, hd⟩
  simpa using h

/-! ### NEA1 -/

theorem nea1_eq (ck : Bytes) (count : UInt32) (bearer dir : UInt8) (msg : Bytes)
    (hb : bearer.toNat < 32) (hd : dir.toNat < 2) :
    nea1 ck count bearer.toUInt32 dir.toUInt32 msg
      = .ok (Spec.NasAlg.eea1 ck count bearer.toNat dir.toNat msg) := by
  obtain ⟨h1, _, _, _, _⟩ := bd_facts bearer dir hb hd
  simp only [nea1, keyWords, Spec.NasAlg.eea1, Spec.NasAlg.eea1Keystream, h1,
    Proofs.Snow3g.init_eq, Proofs.Snow3g.keystream_eq, xorWords_eq]
  congr 1
  rw [maskLast_xor msg _ (by simp [Proofs.Snow3g.keystream_length])]
  simp only [xorBytes]
  exact (zipWith_take_right _ msg _).symm

/-! ### NIA1 -/

theorem mulx64_eq (v c : UInt64) : mulx64 v c = Spec.NasAlg.MUL64x v c := rfl
theorem mulxPow64_eq (v : UInt64) (i : Nat) (c : UInt64) : mulxPow64 v i c = Spec.NasAlg.MUL64xPOW v i c := by
  induction i with
  | zero => rfl
  | succ n ih => simp [mulxPow64, Spec.NasAlg.MUL64xPOW, ih, mulx64_eq]
theorem mul64_eq (v p c : UInt64) : mul64 v p c = Spec.NasAlg.MUL64 v p c := by
  simp only [mul64, Spec.NasAlg.MUL64, mulxPow64_eq]

theorem evalBlocks_eq (p : UInt64) (fuel : Nat) (ev : UInt64) (msg : Bytes) :
    evalBlocks p fuel ev msg
      = (Spec.NasAlg.blocks64 fuel msg).foldl (fun e m => Spec.NasAlg.MUL64 (e ^^^ m) p 0x1b) ev := by
  induction fuel generalizing ev msg with
  | zero => rfl
  | succ n ih =>
    simp only [evalBlocks, Spec.NasAlg.blocks64]
    split
    · simp [mul64_eq]
    · simp [ih, mul64_eq]

theorem nia1_eq (ik : Bytes) (count : UInt32) (bearer dir : UInt8) (msg : Bytes)
    (hb : bearer.toNat < 32) (hd : dir.toNat < 2) (hm : msg ≠ []) :
    nia1 ik count bearer dir.toUInt32 msg
      = .ok (Spec.NasAlg.eia1 ik count bearer.toNat dir.toNat msg) := by
  obtain ⟨_, h2, h3, h4, _⟩ := bd_facts bearer dir hb hd
  have hne : msg.isEmpty = false := by cases msg <;> simp_all
  simp only [nia1, hne, keyWords, Spec.NasAlg.eia1, h2, h3, h4,
    Proofs.Snow3g.init_eq, Proofs.Snow3g.keystream_eq]
  generalize hks : Spec.Snow3g.keystream 5 _ = ks
  have hlen : ks.length = 5 := by rw [← hks]; exact Proofs.Snow3g.keystream_length 5 _
  match ks, hlen with
  | [z0, z1, z2, z3, z4], _ => simp [evalBlocks_eq, mul64_eq]

/-! ### NEA2 / NIA2 (parametric in the AES primitives) -/

theorem nea2_eq (P : Prims) (key : Bytes) (count : UInt32) (bearer dir : UInt8) (msg : Bytes)
    (hb : bearer.toNat < 32) (hd : dir.toNat < 2) :
    nea2 P key count bearer dir msg = .ok (Spec.NasAlg.eea2 P key count bearer.toNat dir.toNat msg) := by
  obtain ⟨_, _, _, _, h5⟩ := bd_facts bearer dir hb hd
  simp [nea2, Spec.NasAlg.eea2, counterPrefix, Spec.NasAlg.countBearerDir, h5, List.replicate]

theorem nia2_eq (P : Prims) (key : Bytes) (count : UInt32) (bearer dir : UInt8) (msg : Bytes)
    (hb : bearer.toNat < 32) (hd : dir.toNat < 2) :
    nia2 P key count bearer dir msg = .ok (Spec.NasAlg.eia2 P key count bearer.toNat dir.toNat msg) := by
  obtain ⟨_, _, _, _, h5⟩ := bd_facts bearer dir hb hd
  simp [nia2, Spec.NasAlg.eia2, counterPrefix, Spec.NasAlg.countBearerDir, h5]

end Stgutg.Proofs.NasAlg
