/-
  C04 — the composite round-trip theorem: over a schema that passes `rtOK`, for every type, parameters that fit the
  type (`paramsOK`) and every conforming value (`conf`), the decoder model reads back what the encoder model wrote —
  SEQUENCE (extension bit, OPTIONAL bitmap, absent optionals), CHOICE, SEQUENCE OF, pointers, open types, leaves.

  Hypotheses the proof forces (each one is a statement about the codec; see `Props/C04.lean` for the discussion):
  * `conf`   : INTEGER within lb..ub, or above ub (below 2^63) when the type is extensible; strings and BIT STRINGs of any length (fragmented from 16K on);
               BIT STRING octets canonical (unused bits zero, exactly ⌈n/8⌉ octets); a CHOICE value has `Present = p`, the
               other alternatives nil, and the selected alternative is one that never encodes to zero bits (`neTy`);
               an open-type content may have any length.
  * `rtOK`   : see `AperRTCompDefs.lean`.
-/
import Stgutg.Proofs.AperRTCompChoice
import Stgutg.Proofs.AperRTCompInt

namespace Stgutg.Proofs.AperRTComp
open Stgutg Stgutg.Aper Stgutg.Proofs.Bits Stgutg.Proofs.AperRT

theorem rtOK_get (env : Env) (hwf : rtOK env = true) (id : Nat) (sd : StructDef) (hsd : env[id]? = some sd) :
    structRT (exIds env) env.length sd = true := by
  unfold rtOK at hwf
  rw [List.all_eq_true] at hwf
  exact hwf sd (List.mem_of_getElem? hsd)

theorem stripSizeE_refValue (p : Params) (x : Option Int) :
    stripSizeE { p with refValue := x } = { stripSizeE p with refValue := x } := rfl

theorem paramsOKx_refValue (ex : List Nat) (bound : Nat) (x : Option Int) : ∀ (ty : Ty) (p : Params),
    paramsOKx ex bound ty { p with refValue := x } = paramsOKx ex bound ty p := by
  intro ty
  induction ty with
  | ptr t ih => intro p; simp only [paramsOKx]; exact ih p
  | slice t ih =>
    intro p
    simp only [paramsOKx]
    rw [stripSizeE_refValue, ih (stripSizeE p), neF_refValue]
    rfl
  | _ => intro p; rfl

theorem conf_refValue (env : Env) (x : Option Int) : ∀ (fuel : Nat) (ty : Ty) (p : Params) (v : Val),
    conf env fuel ty { p with refValue := x } v = conf env fuel ty p v := by
  intro fuel
  induction fuel with
  | zero => intro ty p v; rfl
  | succ fuel ih =>
    intro ty p v
    cases ty <;> cases v <;> try rfl
    · -- ptr
      simp only [conf]; exact ih _ _ _
    · -- slice
      simp only [conf]
      rw [stripSizeE_refValue]
      congr 1
      funext v
      exact ih _ _ _

theorem isNil_eq (v : Val) (h : isNil v = true) : v = .nil := by
  cases v <;> simp [isNil] at h ⊢

theorem nilExceptFrom_spec : ∀ (l : List Val) (j0 k : Nat), nilExceptFrom j0 k l = true →
    ∀ i v, l[i]? = some v → j0 + i ≠ k → v = .nil := by
  intro l
  induction l with
  | nil => intro j0 k _ i v h; simp at h
  | cons x xs ih =>
    intro j0 k hok i v hi hne
    simp only [nilExceptFrom, Bool.and_eq_true, Bool.or_eq_true, beq_iff_eq] at hok
    cases i with
    | zero =>
      simp only [List.getElem?_cons_zero, Option.some.injEq] at hi
      subst hi
      rcases hok.1 with h | h
      · omega
      · exact isNil_eq _ h
    | succ i =>
      simp only [List.getElem?_cons_succ] at hi
      exact ih (j0 + 1) k hok.2 i v hi (by omega)

theorem intOK_spec (p : Params) (h : intOK p = true) : ∃ lb ub, p.valueLB = some lb ∧ p.valueUB = some ub ∧
    0 ≤ lb ∧ ub < 2 ^ 63 ∧ (ub - lb + 1 > 65536 → lb = 0) ∧ p.sizeExt = false := by
  unfold intOK at h
  cases hl : p.valueLB with
  | none => rw [hl] at h; simp at h
  | some lb =>
    cases hu : p.valueUB with
    | none => rw [hl, hu] at h; simp at h
    | some ub =>
      rw [hl, hu] at h
      simp only [Bool.and_eq_true, decide_eq_true_eq, Bool.or_eq_true, Bool.not_eq_true'] at h
      obtain ⟨⟨⟨h1, h2⟩, h3⟩, h4⟩ := h
      exact ⟨lb, ub, rfl, rfl, h1, h2, by intro hb; rcases h3 with h3 | h3 <;> omega, h4⟩

theorem confFields_get (c : Ty → Params → Val → Bool) : ∀ (fields : List Field) (fs : List Val),
    confFields c fields fs = true → fs.length = fields.length ∧
    ∀ (j : Nat) (fd : Aper.Field) (v : Val), fields[j]? = some fd → fs[j]? = some v →
      (fd.params.optional = true ∧ isNil v = true) ∨ c fd.ty fd.params v = true := by
  intro fields
  induction fields with
  | nil =>
    intro fs h
    cases fs with
    | nil => exact ⟨rfl, by intro j fd v hj; simp at hj⟩
    | cons _ _ => simp [confFields] at h
  | cons fd0 frest ih =>
    intro fs h
    cases fs with
    | nil => simp [confFields] at h
    | cons v0 vrest =>
      simp only [confFields, Bool.and_eq_true, Bool.or_eq_true] at h
      obtain ⟨hlen, hrest⟩ := ih vrest h.2
      refine ⟨by simp [hlen], ?_⟩
      intro j fd v hj hv
      cases j with
      | zero =>
        simp only [List.getElem?_cons_zero, Option.some.injEq] at hj hv
        subst hj hv
        exact h.1
      | succ j =>
        simp only [List.getElem?_cons_succ] at hj hv
        exact hrest j fd v hj hv

theorem zeroVal_ptr (env : Env) (fuel : Nat) (t : Ty) : zeroVal env fuel (.ptr t) = .nil := by
  cases fuel <;> rfl

theorem isPtr_spec (ty : Ty) (h : isPtr ty = true) : ∃ t, ty = .ptr t := by
  cases ty <;> simp [isPtr] at h
  exact ⟨_, rfl⟩

/-- the shape of a conforming CHOICE value is what `decStruct` rebuilds -/
theorem choice_shape (zero : Ty → Val) (fields : List Field) (fs alts : List Val) (p : Int) (alt : Val)
    (hlen : fs.length = fields.length) (hfs : fs = .int p :: alts) (hp : 0 < p)
    (hnil : nilExceptFrom 1 p.toNat alts = true) (halt : fs[p.toNat]? = some alt)
    (hz : ∀ (k : Nat) (fd : Aper.Field), 0 < k → fields[k]? = some fd → zero fd.ty = .nil) :
    setAt (setAt (fields.map fun fd => zero fd.ty) 0 (.int p)) p.toNat alt = fs := by
  unfold setAt
  apply List.ext_getElem?
  intro k
  have hplt : p.toNat < fs.length := by
    rcases Nat.lt_or_ge p.toNat fs.length with h | h
    · exact h
    · rw [List.getElem?_eq_none h] at halt; cases halt
  have hp1 : 1 ≤ p.toNat := by omega
  by_cases hk : k = p.toNat
  · subst hk
    rw [List.getElem?_set_self (by simp; omega), halt]
  · rw [List.getElem?_set_ne (by omega)]
    by_cases hk0 : k = 0
    · subst hk0
      rw [List.getElem?_set_self (by simp; omega), hfs]
      rfl
    · rw [List.getElem?_set_ne (by omega), List.getElem?_map]
      by_cases hkl : k < fields.length
      · have hfk : fields[k]? = some fields[k] := List.getElem?_eq_getElem hkl
        rw [hfk]
        simp only [Option.map_some]
        rw [hz k _ (by omega) hfk]
        obtain ⟨w, hw⟩ : ∃ w, fs[k]? = some w := ⟨fs[k], List.getElem?_eq_getElem (by omega)⟩
        rw [hw]
        congr 1
        obtain ⟨k', hk'⟩ : ∃ k', k = k' + 1 := ⟨k - 1, by omega⟩
        have hak : alts[k']? = some w := by
          rw [hfs, hk', List.getElem?_cons_succ] at hw
          exact hw
        exact (nilExceptFrom_spec alts 1 p.toNat hnil k' _ hak (by omega)).symm
      · rw [List.getElem?_eq_none (by omega), List.getElem?_eq_none (by omega)]
        rfl


theorem leafTy_int : (Ty.int = .int ∨ Ty.int = .enum ∨ Ty.int = .bits ∨ Ty.int = .octs ∨ Ty.int = .str ∨ Ty.int = .bool) := Or.inl rfl

/-- **the composite round trip** -/
theorem RT_field (env : Env) (hwf : rtOK env = true) :
    ∀ (fuel pos : Nat) (ty : Ty) (params : Params) (v : Val) (bits : Bits),
      paramsOK env ty params = true → conf env fuel ty params v = true →
      encField env fuel pos ty params v = .ok bits → RT' bits pos (decField env fuel ty params) v := by
  intro fuel
  induction fuel with
  | zero => intro pos ty params v bits _ _ henc; simp [encField, hang] at henc
  | succ fuel ih =>
    intro pos ty params v bits hp hc henc
    -- the stronger form used for components: a component that never encodes to nothing is read back on any input
    have ihRT : ∀ (pos : Nat) (ty : Ty) (params : Params) (v : Val) (bits : Bits),
        paramsOK env ty params = true → neTy env ty params = true → conf env fuel ty params v = true →
        encField env fuel pos ty params v = .ok bits → RT bits pos (decField env fuel ty params) v := by
      intro pos ty params v bits hp hn hc henc
      exact (ih pos ty params v bits hp hc henc).toRT (neTy_sound env ty params hn fuel pos v bits henc)
    unfold paramsOK at hp
    cases ty with
    | int =>
      cases v <;> simp [encField, err] at henc
      rename_i n
      simp only [conf] at hc
      simp only [paramsOKx] at hp
      obtain ⟨lb, ub, hlb, hub, h0, h63, hbig, hs⟩ := intOK_spec params hp
      rw [hlb, hub] at hc
      simp only [Bool.and_eq_true, Bool.or_eq_true, decide_eq_true_eq] at hc
      refine RT'_decField_leaf env fuel .int params bits pos _ (Or.inl rfl) ?_
      by_cases hle : n ≤ ub
      · exact RT_int pos n params bits lb ub hlb hub hc.1 hle h0 h63 hbig hs henc
      · rcases hc.2 with h' | ⟨hve, hn63⟩
        · exact absurd h' hle
        · exact RT_int_ext pos n params bits lb ub hlb hub hve hc.1 (by omega) h0 hn63 hs henc
    | enum =>
      cases v <;> simp [encField, err] at henc
      rename_i n
      simp only [paramsOKx, enumOK, Bool.and_eq_true, Bool.not_eq_true'] at hp
      have hl0 : params.valueLB = some 0 := by
        cases hl : params.valueLB with
        | none => rw [hl] at henc; simp [appendEnumerated, err] at henc
        | some lb =>
          have := hp.2
          rw [hl] at this
          simp only [decide_eq_true_eq] at this
          rw [this]
      exact RT'_decField_leaf env fuel .enum params bits pos _ (Or.inr (Or.inl rfl))
        (RT_enum pos n params bits henc hp.1 hl0)
    | bits =>
      cases v <;> simp [encField, err] at henc
      rename_i bytes len
      simp only [conf, decide_eq_true_eq] at hc
      simp only [paramsOKx] at hp
      obtain ⟨hok, hve⟩ := sizedOK_spec params hp
      exact RT'_decField_leaf env fuel .bits params bits pos _ (Or.inr (Or.inr (Or.inl rfl)))
        (RT_leaf_bits_any pos bytes len params bits hok (sizedOK_frag params hp) hve hc henc)
    | octs =>
      cases v <;> simp [encField, err] at henc
      rename_i b
      simp only [paramsOKx] at hp
      obtain ⟨hok, hve⟩ := sizedOK_spec params hp
      exact RT'_decField_leaf env fuel .octs params bits pos _ (Or.inr (Or.inr (Or.inr (Or.inl rfl))))
        (RT_leaf_octs_any pos b params bits hok (sizedOK_frag params hp) hve henc)
    | str =>
      cases v <;> simp [encField, err] at henc
      rename_i b
      simp only [paramsOKx] at hp
      obtain ⟨hok, hve⟩ := sizedOK_spec params hp
      exact RT'_decField_leaf env fuel .str params bits pos _ (Or.inr (Or.inr (Or.inr (Or.inr (Or.inl rfl)))))
        (RT_leaf_str_any pos b params bits hok (sizedOK_frag params hp) hve henc)
    | bool =>
      cases v <;> simp [encField, err] at henc
      rename_i b
      simp only [paramsOKx, Bool.and_eq_true, Bool.not_eq_true'] at hp
      rw [← henc]
      exact RT'_decField_leaf env fuel .bool params [b] pos _ (Or.inr (Or.inr (Or.inr (Or.inr (Or.inr rfl)))))
        (RT_leaf_bool pos b params hp.1 hp.2)
    | oid => cases v <;> simp [encField, err] at henc
    | ptr t =>
      cases v <;> simp [encField, err] at henc
      rename_i v'
      simp only [conf] at hc
      simp only [paramsOKx] at hp
      exact RT'_decField_ptr env fuel t params bits pos v' (ih pos t params v' bits hp hc henc)
    | slice t =>
      cases v <;> simp [encField, err] at henc
      rename_i vs
      simp only [conf, List.all_eq_true] at hc
      simp only [paramsOKx, Bool.and_eq_true] at hp
      obtain ⟨⟨hsl, hpt⟩, hnt⟩ := hp
      refine RT'_decField_slice env fuel t params bits pos vs hsl ?_ henc
      intro v hv pos' bits' henc'
      exact ihRT pos' t (stripSizeE params) v bits' hpt hnt (hc v hv) henc'
    | struct id =>
      cases v <;> simp [encField, err] at henc
      rename_i fs
      simp only [paramsOKx, Bool.not_eq_true'] at hp
      cases hsd : env[id]? with
      | none => rw [hsd] at henc; simp at henc
      | some sd =>
        rw [hsd] at henc
        dsimp only at henc
        simp only [conf, hsd] at hc
        have hst := rtOK_get env hwf id sd hsd
        unfold structRT at hst
        split at henc
        · simp at henc
        · rename_i b hb
          simp only [Except.ok.injEq] at henc
          rw [← henc]
          refine RT'_decField_struct env fuel id sd params b pos (.struct fs) hsd hp ?_
          cases hch : isChoice sd with
          | false =>
            simp only [hch, Bool.not_false, if_true, Bool.false_eq_true, if_false] at hb hc hst
            simp only [Bool.and_eq_true, List.all_eq_true, Bool.or_eq_true, Bool.not_eq_true', decide_eq_true_eq] at hst
            obtain ⟨hfields, h64⟩ := hst
            obtain ⟨hlen, hcf⟩ := confFields_get (conf env fuel) sd.fields fs hc
            refine RT_decStruct_seq (encField env fuel) (decField env fuel) (refFieldValue env fuel) (zeroVal env fuel)
              sd params false _ fs b hch h64 ?_ ?_ hb
            · intro j fd v fp pos' a hF hV hr ha
              obtain ⟨⟨hoptp, hpk⟩, hne⟩ := hfields fd (List.mem_of_getElem? hF)
              have hfp := resolveRef_shape _ _ _ _ _ _ hr
              have hpk' : paramsOK env fd.ty fp = true := by
                unfold paramsOK
                rcases hfp with e | ⟨x, e⟩
                · rw [e]; exact hpk
                · rw [e, paramsOKx_refValue]; exact hpk
              have hne' : neTy env fd.ty fp = true := by
                unfold neTy
                rcases hfp with e | ⟨x, e⟩
                · rw [e]; exact hne
                · rw [e, neF_refValue]; exact hne
              have hcv : conf env fuel fd.ty fp v = true := by
                rcases hcf j fd v hF hV with ⟨ho, hn⟩ | hcv
                · -- an absent optional is never passed to the encoder
                  exfalso
                  have hv := isNil_eq v hn
                  rcases hoptp with ho' | hptr
                  · rw [ho] at ho'; cases ho'
                  · obtain ⟨t, ht⟩ := isPtr_spec _ hptr
                    rw [ht, hv] at ha
                    cases fuel with
                    | zero => simp [encField, hang] at ha
                    | succ fuel' => simp [encField, err] at ha
                · rcases hfp with e | ⟨x, e⟩
                  · rw [e]; exact hcv
                  · rw [e, conf_refValue]; exact hcv
              exact ihRT pos' fd.ty fp v a hpk' hne' hcv ha
            · intro j fd v hF hV ho hn
              obtain ⟨⟨hoptp, _⟩, _⟩ := hfields fd (List.mem_of_getElem? hF)
              rcases hoptp with ho' | hptr
              · rw [ho] at ho'; cases ho'
              · obtain ⟨t, ht⟩ := isPtr_spec _ hptr
                rw [ht, zeroVal_ptr, isNil_eq v hn]
          | true =>
            simp only [hch, Bool.not_true, Bool.false_eq_true, if_false, if_true] at hb hc hst
            simp only [Bool.and_eq_true, List.all_eq_true, Bool.not_eq_true'] at hst
            obtain ⟨⟨hnoopt, halts⟩, haok⟩ := hst
            have hopt0 : optCountOf sd = 0 := by
              unfold optCountOf
              rw [List.length_eq_zero_iff, List.filter_eq_nil_iff]
              intro f hf
              rw [hnoopt f hf]; simp
            -- facts of a conforming CHOICE value
            unfold confChoice at hc
            simp only [Bool.and_eq_true, decide_eq_true_eq] at hc
            obtain ⟨hlen, hc2⟩ := hc
            cases fs with
            | nil => simp at hc2
            | cons v0 alts =>
              cases v0 with
              | int p => ?_
              | _ => simp at hc2
              simp only [Bool.and_eq_true] at hc2
              obtain ⟨hnil, hc3⟩ := hc2
              have haltptr : ∀ (k : Nat) (fd : Aper.Field), 0 < k → sd.fields[k]? = some fd →
                  isPtr fd.ty = true ∧ paramsOKx (exIds env) env.length fd.ty fd.params = true := by
                intro k fd hk hfd
                have hm : fd ∈ sd.fields.drop 1 := by
                  apply List.mem_of_getElem? (i := k - 1)
                  rw [List.getElem?_drop]
                  have : 1 + (k - 1) = k := by omega
                  rw [this]; exact hfd
                exact halts fd hm
              refine RT_decStruct_choice (encField env fuel) (decField env fuel) (refFieldValue env fuel) (zeroVal env fuel)
                sd params _ (.int p :: alts) b hch hopt0 haok ?_ ?_ hb
              · intro p' fd alt pos' a hp0 hppos hF hV ha
                have hpp : p' = p := by
                  simp only [List.getElem?_cons_zero, Option.some.injEq, Val.int.injEq] at hp0
                  exact hp0.symm
                subst hpp
                rw [hF, hV] at hc3
                simp only [Bool.and_eq_true] at hc3
                obtain ⟨hcv, hne⟩ := hc3
                have hane := neTy_sound env fd.ty fd.params hne fuel pos' alt a ha
                exact ⟨hane, ih pos' fd.ty fd.params alt a (haltptr _ fd (by omega) hF).2 hcv ha⟩
              · intro p' alt hp0 hpos hV
                have hpp : p' = p := by
                  simp only [List.getElem?_cons_zero, Option.some.injEq, Val.int.injEq] at hp0
                  exact hp0.symm
                subst hpp
                refine choice_shape (zeroVal env fuel) sd.fields (.int p' :: alts) alts p' alt hlen rfl hpos hnil hV ?_
                intro k fd hk hfd
                obtain ⟨t, ht⟩ := isPtr_spec _ (haltptr k fd hk hfd).1
                rw [ht, zeroVal_ptr]


theorem bytesToBits_zero : bytesToBits [0] = List.replicate 8 false := by decide

/-- `UnmarshalWithParams (MarshalWithParams v) = v`: the packed octets (zero padded; one zero octet for an empty
    encoding) are decoded to the value, whatever is left in the last octet being ignored -/
theorem marshal_unmarshal (env : Env) (hwf : rtOK env = true) (fuel : Nat) (ty : Ty) (params : Params) (v : Val)
    (bs : Bytes) (hp : paramsOK env ty params = true) (hc : conf env fuel ty params v = true)
    (h : marshal env fuel ty params v = .ok bs) : unmarshal env fuel ty params bs = .ok v := by
  unfold marshal at h
  cases henc : encField env fuel 0 ty params v with
  | error e => rw [henc] at h; simp at h
  | ok bits =>
    rw [henc] at h
    dsimp only at h
    have hrt := RT_field env hwf fuel 0 ty params v bits hp hc henc
    unfold unmarshal
    cases hbe : bits with
    | nil =>
      rw [hbe] at h hrt
      simp only [List.isEmpty_nil, if_true, Except.ok.injEq] at h
      rw [← h]
      have hrd : Rd.ofBytes [0] = mkRd ([] ++ List.replicate 8 false) 0 := by
        unfold Rd.ofBytes mkRd
        rw [bytesToBits_zero]; rfl
      rw [hrd, hrt (List.replicate 8 false) (by simp) (by simp)]
    | cons x xs =>
      have hne : bits.isEmpty = false := by rw [hbe]; rfl
      simp only [hne, Bool.false_eq_true, if_false, Except.ok.injEq] at h
      rw [← h]
      have hrd : Rd.ofBytes (bitsToBytes bits) = mkRd (bits ++ alignBits bits.length) 0 := by
        unfold Rd.ofBytes mkRd
        rw [← bytesToBits_length, bytesToBits_bitsToBytes]
        rfl
      rw [hrd, hrt (alignBits bits.length) (by
        rw [alignBits_length]; unfold padLen; omega) (by rw [hbe]; simp)]

end Stgutg.Proofs.AperRTComp
