import Stgutg.Proofs.GenTieMilenageBase
import Stgutg.Proofs.GenTieMilenageLoopB
/-!
  Tie by translation (C15): `Gen/PureMilenage.lean` is regenerated from src/free5gclib/milenage/milenage.go on every run by
  `gen pure-milenage` (the buffer grammar, harness/cmd/gen/pure_milenage.go). The theorems here and `os_memcmp_eq` in
  Proofs/GenTieMilenageBase.lean prove that the translated functions ARE the hand model `Model/Milenage.lean` that the C15
  theorems are about: for every argument length, output buffers nil or of the documented sizes (whatever they hold), every
  key, and every block cipher that returns 16 octets (`AesLen`). The library record is instantiated by `libOf`.
  Tied: os_memcmp, milenageF1, F1, milenageF2345, F2345, GenerateOPC, MilenageGenerate, Milenage_check, Milenage_auts — every
  function of the group (for the last three: output buffers fresh and of the documented sizes, as the hand model has them).
-/
namespace Stgutg.Proofs.GenTie.Milenage
open Stgutg Stgutg.Gen Stgutg.Proofs.GenTie
open Stgutg.Model.Milenage
open Stgutg.Proofs.Milenage (len16 xorBytes_length take_full)

/-! ### milenageF1 -/

/-- how an outcome of the hand model `milenageF1` (what is written to mac_a, mac_s) reads on the translated function:
    (err != nil, mac_a afterwards, mac_s afterwards); `ma`, `ms` = the caller's buffers (none = nil) -/
def f1Res (ma ms : Option Bytes) : Res (Bytes × Bytes) → Res (Bool × Option Bytes × Option Bytes)
  | .ok (a, s) => .ok (false, ma.map (fun _ => a), ms.map (fun _ => s))
  | .error .error => .ok (true, ma, ms)
  | .error e => .error e

set_option maxHeartbeats 1000000 in
/-- **Tie.** the translated `milenageF1` against the hand model: for all input lengths; `ma`, `ms` = the buffers mac_a, mac_s
    (nil, or 8 octets holding anything): a present buffer receives the model's value, a NewCipher error leaves both untouched -/
theorem milenageF1_eq (P : Prims) (hE : AesLen P) (opc k rand sqn amf : Bytes) (ma ms : Option Bytes)
    (hma : ∀ b, ma = some b → b.length = 8) (hms : ∀ b, ms = some b → b.length = 8) :
    Pure.Milenage.milenageF1 (libOf P) opc k rand sqn amf ma ms =
      f1Res ma ms (Model.Milenage.milenageF1 P opc k rand sqn amf) := by
  unfold Pure.Milenage.milenageF1 Model.Milenage.milenageF1
  dsimp only
  simp only [f17]
  rw [loopA16 rand opc (List.replicate 16 (0 : UInt8)) (by simp)]
  by_cases h : 16 ≤ rand.length ∧ 16 ≤ opc.length
  case neg =>
    have h' : rand.length < 16 ∨ opc.length < 16 := by omega
    rw [if_neg h, if_pos h', error_bind]
    rfl
  have h' : ¬ (rand.length < 16 ∨ opc.length < 16) := by omega
  rw [if_pos h, if_neg h', ok_bind]
  try dsimp only
  have hX : (xor16 rand opc).length = 16 := xor16_len h.1 h.2
  generalize xor16 rand opc = X at hX ⊢
  by_cases hv : k.length = 16 ∨ k.length = 24 ∨ k.length = 32
  case neg =>
    rw [lib_new_bad P hv, nc_bad hv, ok_bind]
    dsimp only
    rw [if_pos rfl, optOut_optBytes, optOut_optBytes]
    rfl
  rw [lib_new_ok P hv, nc_ok hv, ok_bind]
  dsimp only
  rw [if_neg Bool.false_ne_true]
  rw [lib_bs, ok_bind]
  try dsimp only
  rw [make16, ok_bind]
  try dsimp only
  rw [lib_enc P k (List.replicate 16 (0 : UInt8)) X hX (by simp), ok_bind]
  try dsimp only
  have hT : (P.aes k X).length = 16 := hE k X hv hX
  generalize P.aes k X = T at hT ⊢
  rw [slice_0_6]
  by_cases h6 : 6 ≤ sqn.length
  case neg =>
    have h6' : sqn.length < 6 := by omega
    rw [if_neg h6, if_pos h6', error_bind]
    rfl
  have h6' : ¬ sqn.length < 6 := by omega
  have hS : (sqn.take 6).length = 6 := by rw [List.length_take]; omega
  rw [if_pos h6, if_neg h6', ok_bind]
  try dsimp only
  rw [tmp2_1 _ hS, ok_bind]
  try dsimp only
  rw [slice_0_2]
  by_cases h2 : 2 ≤ amf.length
  case neg =>
    have h2' : amf.length < 2 := by omega
    rw [if_neg h2, if_pos h2', error_bind]
    rfl
  have h2' : ¬ amf.length < 2 := by omega
  have hA : (amf.take 2).length = 2 := by rw [List.length_take]; omega
  rw [if_pos h2, if_neg h2', ok_bind]
  try dsimp only
  rw [tmp2_2 _ _ hS hA, ok_bind]
  try dsimp only
  rw [tmp2_3 _ _ hS hA, ok_bind]
  try dsimp only
  rw [tmp2_4 _ _ hS hA, ok_bind]
  try dsimp only
  have hW : (sqn.take 6 ++ amf.take 2 ++ (sqn.take 6 ++ amf.take 2)).length = 16 := by
    simp only [List.length_append]; omega
  generalize sqn.take 6 ++ amf.take 2 ++ (sqn.take 6 ++ amf.take 2) = W at hW ⊢
  rw [loopB8 W opc (List.replicate 16 (0 : UInt8)) hW h.2 (by simp), ok_bind]
  try dsimp only
  have hV : (scatter 8 (xor16 W opc)).length = 16 := scatter_length _ _
  generalize scatter 8 (xor16 W opc) = V at hV ⊢
  rw [loopC16x T V (by omega) hV, ok_bind]
  try dsimp only
  rw [take16 hT]
  have hY : (xorBytes V T).length = 16 := by rw [xorBytes_length]; omega
  generalize xorBytes V T = Y at hY ⊢
  rw [ok_bind]
  try dsimp only
  rw [make16, ok_bind]
  try dsimp only
  rw [lib_enc P k (List.replicate 16 (0 : UInt8)) Y hY (by simp), ok_bind]
  try dsimp only
  have hO : (P.aes k Y).length = 16 := hE k Y hv hY
  generalize P.aes k Y = O at hO ⊢
  rw [loopC16x opc O h.2 hO, ok_bind]
  try dsimp only
  have hR : (xorBytes O (opc.take 16)).length = 16 := by rw [xorBytes_length, List.length_take]; omega
  generalize xorBytes O (opc.take 16) = R at hR ⊢
  have c8 : 8 ≤ R.length := by omega
  have c16 : 16 ≤ R.length := by omega
  have l8 : (R.take 8).length = 8 := by rw [List.length_take]; omega
  have l8' : (R.drop 8).length = 8 := by rw [List.length_drop]; omega
  have e8 : (R.drop 8).take 8 = R.drop 8 := List.take_of_length_le (by rw [List.length_drop]; omega)
  rw [slice_0_8, if_pos c8, ok_bind]
  try dsimp only
  rw [out_buf ma (R.take 8) 8 hma l8]
  try dsimp only
  rw [slice_8_16, if_pos c16, ok_bind]
  try dsimp only
  rw [e8, out_buf ms (R.drop 8) 8 hms l8']
  try dsimp only
  rw [optOut_map, optOut_map]
  rfl

/-- **Tie.** the exported wrapper `F1` -/
theorem F1_eq (P : Prims) (hE : AesLen P) (opc k rand sqn amf : Bytes) (ma ms : Option Bytes)
    (hma : ∀ b, ma = some b → b.length = 8) (hms : ∀ b, ms = some b → b.length = 8) :
    Pure.Milenage.F1 (libOf P) opc k rand sqn amf ma ms =
      f1Res ma ms (Model.Milenage.F1 P opc k rand sqn amf) := by
  unfold Pure.Milenage.F1 Model.Milenage.F1
  dsimp only
  simp only [optOut_optBytes]
  rw [milenageF1_eq P hE opc k rand sqn amf ma ms hma hms]
  cases hm : Model.Milenage.milenageF1 P opc k rand sqn amf with
  | error e => cases e <;> simp [f1Res, optOut_optBytes]
  | ok r =>
    obtain ⟨a, s⟩ := r
    cases ma <;> cases ms <;> rfl

/-! ### GenerateOPC -/

/-- **Tie.** the translated `GenerateOPC`: (opc, err != nil); on an error the slice returned is nil (no octets) -/
theorem GenerateOPC_eq (P : Prims) (hE : AesLen P) (k op : Bytes) :
    Pure.Milenage.GenerateOPC (libOf P) k op =
      (match Model.Milenage.GenerateOPC P k op with
      | .ok v => .ok (v, false)
      | .error .error => .ok ([], true)
      | .error e => .error e) := by
  unfold Pure.Milenage.GenerateOPC Model.Milenage.GenerateOPC
  dsimp only
  simp only [f17]
  by_cases hv : k.length = 16 ∨ k.length = 24 ∨ k.length = 32
  case neg =>
    simp [lib_new_bad P hv, nc_bad hv]
  simp only [lib_new_ok P hv, nc_ok hv, ok_bind, Bool.false_eq_true, if_false, lib_bs, make16]
  by_cases h16 : op.length < 16
  · simp [h16, lib_enc_short P k _ op h16]
  have c16 : 16 ≤ op.length := by omega
  have e : (libOf P).encrypt (some k) (List.replicate 16 (0 : UInt8)) op = .ok (P.aes k (op.take 16)) := by
    have h : ¬ (op.length < 16 ∨ (List.replicate 16 (0 : UInt8)).length < 16) := by simp; omega
    show (if op.length < 16 ∨ (List.replicate 16 (0 : UInt8)).length < 16 then Except.error Err.panic
      else Except.ok (P.aes k (op.take 16) ++ (List.replicate 16 (0 : UInt8)).drop 16)) = _
    rw [if_neg h]; simp
  have hO : (P.aes k (op.take 16)).length = 16 := hE k _ hv (by rw [List.length_take]; omega)
  simp only [e, ok_bind, h16, if_false]
  generalize P.aes k (op.take 16) = O at hO ⊢
  simp only [loopC16x op O c16 hO, ok_bind]


/-! ### milenageF2345 -/

theorem opt_isSome (r : Option Bytes) (v : Bytes) : opt r.isSome v = r.map (fun _ => v) := by cases r <;> rfl

/-- the f3 / f4 branch of milenageF2345 (`if ck != nil { … }`): what it leaves in tmp1 and in the buffer -/
theorem branch_f34 (P : Prims) (hE : AesLen P) (k : Bytes) (hv : k.length = 16 ∨ k.length = 24 ∨ k.length = 32)
    (T opc tmp1 : Bytes) (hT : T.length = 16) (hop : 16 ≤ opc.length) (h1 : tmp1.length = 16)
    (o : Option Bytes) (ho : ∀ b, o = some b → b.length = 16) (c : UInt8) (s : Nat) (sI : Int)
    (hB : ∀ out : Bytes, out.length = 16 →
      Go.forLt (fun i out => Go.idx T i >>= fun x => Go.idx opc i >>= fun y =>
        Go.set out (Go.imodc (Go.iadd i sI) (16 : Int)) (x ^^^ y) >>= fun t => .ok t) (16 : Int) 17 (0 : Int) out
      = .ok (scatter s (xor16 T opc)))
    {β : Type} (f : Bytes × Bytes → Res β) :
    ((if (!o.isNone) then
        Go.forLt (fun i out => Go.idx T i >>= fun x => Go.idx opc i >>= fun y =>
          Go.set out (Go.imodc (Go.iadd i sI) (16 : Int)) (x ^^^ y) >>= fun t => .ok t) (16 : Int) 17 (0 : Int) tmp1 >>= fun t35 =>
        Go.idx t35 (15 : Int) >>= fun t36 =>
        Go.set t35 (15 : Int) (t36 ^^^ c) >>= fun t37 =>
        (libOf P).encrypt (some k) (Go.optBytes o) t37 >>= fun t38 =>
        Go.forLt (fun i out => Go.idx opc i >>= fun x => Go.idx out i >>= fun y => Go.set out i (y ^^^ x) >>= fun t => .ok t)
          (16 : Int) 17 (0 : Int) t38 >>= fun t43 =>
        .ok (t37, t43)
      else .ok (tmp1, Go.optBytes o)) >>= f)
    = f (if o.isNone then tmp1 else xorLast (scatter s (xor16 T opc)) c,
         Go.optBytes (o.map fun _ => xorBytes (P.aes k (xorLast (scatter s (xor16 T opc)) c)) (opc.take 16))) := by
  cases o with
  | none => rfl
  | some b =>
    have hb : b.length = 16 := ho b rfl
    have hZ : (scatter s (xor16 T opc)).length = 16 := scatter_length _ _
    have hZ' : (xorLast (scatter s (xor16 T opc)) c).length = 16 := by rw [xorLast_length]; exact hZ
    have hQ := hE k _ hv hZ'
    simp [hB tmp1 h1, xorLast_step _ c hZ, Go.optBytes, lib_enc P k b _ hZ' hb, loopC16x opc _ hop hQ]

/-- the f5* branch (`if akstar != nil { … }`) -/
theorem branch_f5s (P : Prims) (hE : AesLen P) (k : Bytes) (hv : k.length = 16 ∨ k.length = 24 ∨ k.length = 32)
    (T opc tmp1 : Bytes) (hT : T.length = 16) (hop : 16 ≤ opc.length) (h1 : tmp1.length = 16)
    (o : Option Bytes) (ho : ∀ b, o = some b → b.length = 6)
    {β : Type} (f : Bytes × Bytes → Res β) :
    ((if (!o.isNone) then
        Go.forLt (fun i out => Go.idx T i >>= fun x => Go.idx opc i >>= fun y =>
          Go.set out (Go.imodc (Go.iadd i (4 : Int)) (16 : Int)) (x ^^^ y) >>= fun t => .ok t) (16 : Int) 17 (0 : Int) tmp1 >>= fun t63 =>
        Go.idx t63 (15 : Int) >>= fun t64 =>
        Go.set t63 (15 : Int) (t64 ^^^ (8 : UInt8)) >>= fun t65 =>
        (libOf P).encrypt (some k) t65 t65 >>= fun t66 =>
        Go.forLt (fun i out => Go.idx t66 i >>= fun x => Go.idx opc i >>= fun y => Go.set out i (x ^^^ y) >>= fun t => .ok t)
          (6 : Int) 7 (0 : Int) (Go.optBytes o) >>= fun t71 =>
        .ok (t66, t71)
      else .ok (tmp1, Go.optBytes o)) >>= f)
    = f (if o.isNone then tmp1 else P.aes k (xorLast (scatter 4 (xor16 T opc)) 8),
         Go.optBytes (o.map fun _ =>
           xorBytes ((P.aes k (xorLast (scatter 4 (xor16 T opc)) 8)).take 6) (opc.take 6))) := by
  cases o with
  | none => rfl
  | some b =>
    have hb : b.length = 6 := ho b rfl
    have hZ : (scatter 4 (xor16 T opc)).length = 16 := scatter_length _ _
    have hZ' : (xorLast (scatter 4 (xor16 T opc)) 8).length = 16 := by rw [xorLast_length]; exact hZ
    have hQ := hE k _ hv hZ'
    simp [loopB4 T opc tmp1 hT hop h1, xorLast_step _ (8 : UInt8) hZ, Go.optBytes, lib_enc P k _ _ hZ' hZ',
      loopA6x (P.aes k (xorLast (scatter 4 (xor16 T opc)) 8)) opc b (by omega) (by omega) hb]

set_option maxHeartbeats 2000000 in
/-- **Tie.** the translated `milenageF2345` against the hand model: for all input lengths; each buffer nil or of its
    documented size (holding anything); a NewCipher error leaves all buffers untouched -/
theorem milenageF2345_eq (P : Prims) (hE : AesLen P) (opc k rand : Bytes) (r c i a s : Option Bytes)
    (hr : ∀ b, r = some b → b.length = 8) (hc : ∀ b, c = some b → b.length = 16) (hi : ∀ b, i = some b → b.length = 16)
    (ha : ∀ b, a = some b → b.length = 6) (hs : ∀ b, s = some b → b.length = 6) :
    Pure.Milenage.milenageF2345 (libOf P) opc k rand r c i a s =
      (match Model.Milenage.milenageF2345 P opc k rand r.isSome c.isSome i.isSome a.isSome s.isSome with
      | .ok o => .ok (false, o.res, o.ck, o.ik, o.ak, o.akstar)
      | .error .error => .ok (true, r, c, i, a, s)
      | .error e => .error e) := by
  unfold Pure.Milenage.milenageF2345 Model.Milenage.milenageF2345
  dsimp only
  simp only [f17, f7]
  rw [loopA16 rand opc (List.replicate 16 (0 : UInt8)) (by simp)]
  by_cases h : 16 ≤ rand.length ∧ 16 ≤ opc.length
  case neg =>
    have h' : rand.length < 16 ∨ opc.length < 16 := by omega
    simp only [h, h', if_false, if_true, error_bind]
    try rfl
  have h' : ¬ (rand.length < 16 ∨ opc.length < 16) := by omega
  simp only [h, h', and_self, if_true, if_false, ok_bind]
  have hX : (xor16 rand opc).length = 16 := xor16_len h.1 h.2
  generalize xor16 rand opc = X at hX ⊢
  by_cases hv : k.length = 16 ∨ k.length = 24 ∨ k.length = 32
  case neg =>
    rw [lib_new_bad P hv, nc_bad hv]
    simp only [ok_bind, if_true, optOut_optBytes]
    try rfl
  simp only [lib_new_ok P hv, nc_ok hv, ok_bind, Bool.false_eq_true, if_false, lib_bs, make16,
    lib_enc P k (List.replicate 16 (0 : UInt8)) X hX (by simp)]
  have hT : (P.aes k X).length = 16 := hE k X hv hX
  generalize P.aes k X = T at hT ⊢
  simp only [loopA16x T opc X (by omega) h.2 hX, ok_bind]
  have hU : (xor16 T opc).length = 16 := xor16_len (by omega) h.2
  simp only [xorLast_step (xor16 T opc) (1 : UInt8) hU]
  have hU1 : (xorLast (xor16 T opc) 1).length = 16 := by rw [xorLast_length]; exact hU
  simp only [lib_bs, make16, ok_bind, lib_enc P k (List.replicate 16 (0 : UInt8)) _ hU1 (by simp)]
  have hE3 : (P.aes k (xorLast (xor16 T opc) 1)).length = 16 := hE k _ hv hU1
  simp only [loopC16x opc _ h.2 hE3, ok_bind]
  have hR : (xorBytes (P.aes k (xorLast (xor16 T opc) 1)) (opc.take 16)).length = 16 := by
    rw [xorBytes_length, List.length_take]; omega
  generalize xorBytes (P.aes k (xorLast (xor16 T opc) 1)) (opc.take 16) = R at hR ⊢
  have c6 : 6 ≤ R.length := by omega
  have c16 : 16 ≤ R.length := by omega
  have l6 : (R.take 6).length = 6 := by rw [List.length_take]; omega
  have l8' : (R.drop 8).length = 8 := by rw [List.length_drop]; omega
  have e8 : (R.drop 8).take 8 = R.drop 8 := List.take_of_length_le (by rw [List.length_drop]; omega)
  simp only [slice_0_6, slice_8_16, c6, c16, if_true, ok_bind, e8]
  simp only [out_buf r (R.drop 8) 8 hr l8', out_buf a (R.take 6) 6 ha l6]
  simp only [branch_f34 P hE k hv T opc (xorLast (xor16 T opc) 1) hT h.2 hU1 c hc (2 : UInt8) 12 (12 : Int)
    (fun out ho => loopB12 T opc out hT h.2 ho)]
  have hM1 : (if c.isNone then xorLast (xor16 T opc) 1 else xorLast (scatter 12 (xor16 T opc)) 2).length = 16 := by
    split
    · exact hU1
    · rw [xorLast_length]; exact scatter_length _ _
  generalize (if c.isNone then xorLast (xor16 T opc) 1 else xorLast (scatter 12 (xor16 T opc)) 2) = M1 at hM1 ⊢
  simp only [branch_f34 P hE k hv T opc M1 hT h.2 hM1 i hi (4 : UInt8) 8 (8 : Int)
    (fun out ho => loopB8 T opc out hT h.2 ho)]
  have hM2 : (if i.isNone then M1 else xorLast (scatter 8 (xor16 T opc)) 4).length = 16 := by
    split
    · exact hM1
    · rw [xorLast_length]; exact scatter_length _ _
  generalize (if i.isNone then M1 else xorLast (scatter 8 (xor16 T opc)) 4) = M2 at hM2 ⊢
  simp only [branch_f5s P hE k hv T opc M2 hT h.2 hM2 s hs]
  simp only [optOut_map, opt_isSome]
  try rfl

theorem f2345_shape {P : Prims} {opc k rand : Bytes} {w1 w2 w3 w4 w5 : Bool} {o : F2345Out}
    (h : Model.Milenage.milenageF2345 P opc k rand w1 w2 w3 w4 w5 = .ok o) :
    o.res.isSome = w1 ∧ o.ck.isSome = w2 ∧ o.ik.isSome = w3 ∧ o.ak.isSome = w4 ∧ o.akstar.isSome = w5 := by
  unfold Model.Milenage.milenageF2345 at h
  split at h
  · cases h
  · split at h
    · cases h
    · cases h
      cases w1 <;> cases w2 <;> cases w3 <;> cases w4 <;> cases w5 <;> simp [opt]

theorem optOut_shape (r x : Option Bytes) (h : x.isSome = r.isSome) : Go.optOut r.isNone (Go.optBytes x) = x := by
  cases r <;> cases x <;> simp_all [Go.optOut, Go.optBytes]

/-- **Tie.** the exported wrapper `F2345` -/
theorem F2345_eq (P : Prims) (hE : AesLen P) (opc k rand : Bytes) (r c i a s : Option Bytes)
    (hr : ∀ b, r = some b → b.length = 8) (hc : ∀ b, c = some b → b.length = 16) (hi : ∀ b, i = some b → b.length = 16)
    (ha : ∀ b, a = some b → b.length = 6) (hs : ∀ b, s = some b → b.length = 6) :
    Pure.Milenage.F2345 (libOf P) opc k rand r c i a s =
      (match Model.Milenage.F2345 P opc k rand r.isSome c.isSome i.isSome a.isSome s.isSome with
      | .ok o => .ok (false, o.res, o.ck, o.ik, o.ak, o.akstar)
      | .error .error => .ok (true, r, c, i, a, s)
      | .error e => .error e) := by
  unfold Pure.Milenage.F2345 Model.Milenage.F2345
  dsimp only
  simp only [optOut_optBytes]
  rw [milenageF2345_eq P hE opc k rand r c i a s hr hc hi ha hs]
  cases hm : Model.Milenage.milenageF2345 P opc k rand r.isSome c.isSome i.isSome a.isSome s.isSome with
  | error e => cases e <;> simp [optOut_optBytes]
  | ok o =>
    obtain ⟨h1, h2, h3, h4, h5⟩ := f2345_shape hm
    simp [optOut_shape r _ h1, optOut_shape c _ h2, optOut_shape i _ h3, optOut_shape a _ h4, optOut_shape s _ h5]

/-! ### Milenage_auts -/

theorem optBytes_some (v : Bytes) : Go.optBytes (some v) = v := rfl

/-- when the hand model's `milenageF2345` returns with the AK* buffer present, AK* has 6 octets -/
theorem f2345_akstar_len (P : Prims) (hE : AesLen P) {opc k rand : Bytes} {w1 w2 w3 w4 : Bool} {o : F2345Out}
    (h : Model.Milenage.milenageF2345 P opc k rand w1 w2 w3 w4 true = .ok o) :
    ∃ v, o.akstar = some v ∧ v.length = 6 := by
  unfold Model.Milenage.milenageF2345 at h
  split at h
  · cases h
  · rename_i hl
    have hopc : 16 ≤ opc.length := by omega
    have hrand : 16 ≤ rand.length := by omega
    by_cases hv : k.length = 16 ∨ k.length = 24 ∨ k.length = 32
    · rw [nc_ok hv] at h
      cases h
      refine ⟨_, rfl, ?_⟩
      have h1 : (P.aes k (xor16 rand opc)).length = 16 := hE _ _ hv (xor16_len hrand hopc)
      have h2 : (xorLast (scatter 4 (xor16 (P.aes k (xor16 rand opc)) opc)) 8).length = 16 := by
        rw [xorLast_length]; exact scatter_length _ _
      have h3 := hE k _ hv h2
      rw [xorBytes_length, List.length_take, List.length_take]
      omega
    · rw [nc_bad hv] at h
      cases h

set_option maxHeartbeats 1000000 in
/-- **Tie.** the translated `Milenage_auts` (SQN buffer: 6 fresh octets) is the hand model: (return code, SQN buffer afterwards) -/
theorem Milenage_auts_eq (P : Prims) (hE : AesLen P) (opc k rand auts : Bytes) :
    Pure.Milenage.Milenage_auts (libOf P) opc k rand auts (zeros 6) = Model.Milenage.Milenage_auts P opc k rand auts := by
  unfold Pure.Milenage.Milenage_auts Model.Milenage.Milenage_auts
  dsimp only
  simp only [f7]
  rw [milenageF2345_eq P hE opc k rand none none none none (some (List.replicate 6 (0 : UInt8)))
    (by intro b h; cases h) (by intro b h; cases h) (by intro b h; cases h) (by intro b h; cases h)
    (by intro b h; cases h; rfl)]
  simp only [Option.isSome]
  cases hm : Model.Milenage.milenageF2345 P opc k rand false false false false true with
  | error e => cases e <;> rfl
  | ok o =>
    obtain ⟨v, hv, hvl⟩ := f2345_akstar_len P hE hm
    simp only [ok_bind, Bool.false_eq_true, if_false, hv, optBytes_some, Option.getD_some]
    rw [loopA6 auts v (zeros 6) (by simp [zeros])]
    by_cases h6 : 6 ≤ auts.length
    case neg =>
      have h6' : auts.length < 6 := by omega
      have : ¬ (6 ≤ auts.length ∧ 6 ≤ v.length) := by omega
      rw [if_neg this, if_pos h6', error_bind]
    have h6' : ¬ auts.length < 6 := by omega
    have hc : 6 ≤ auts.length ∧ 6 ≤ v.length := by omega
    have hvt : v.take 6 = v := List.take_of_length_le (by omega)
    rw [if_pos hc, if_neg h6', ok_bind, hvt]
    try dsimp only
    rw [milenageF1_eq P hE opc k rand (xorBytes (auts.take 6) v) [0, 0] none (some (List.replicate 8 (0 : UInt8)))
      (by intro b h; cases h) (by intro b h; cases h; rfl)]
    cases hf : Model.Milenage.milenageF1 P opc k rand (xorBytes (auts.take 6) v) [0, 0] with
    | error e => cases e <;> rfl
    | ok r =>
      obtain ⟨a, s⟩ := r
      simp only [f1Res, ok_bind, Option.map, optBytes_some, Bool.false_eq_true, if_false, slice_6_14]
      by_cases h14 : 14 ≤ auts.length
      · have h14' : ¬ auts.length < 14 := by omega
        simp [h14, h14', libOf]
      · have h14' : auts.length < 14 := by omega
        simp [h14, h14']

/-! ### Milenage_check -/

theorem deref_some {α : Type} (v : α) : Go.deref (some v) = .ok v := rfl

theorem xorFrom6g (a b out : Bytes) (ha : 6 ≤ a.length) (hb : 6 ≤ b.length) (ho : 6 ≤ out.length) :
    xorFrom a b 6 0 out = .ok (xorBytes (a.take 6) (b.take 6) ++ out.drop 6) := by
  obtain ⟨a0, a1, a2, a3, a4, a5, ra, rfl⟩ := ex6 a ha
  obtain ⟨b0, b1, b2, b3, b4, b5, rb, rfl⟩ := ex6 b hb
  obtain ⟨o0, o1, o2, o3, o4, o5, ro, rfl⟩ := ex6 out ho
  rfl

theorem loopA6g (a b out : Bytes) (ho : 6 ≤ out.length) :
    Go.forLt (fun i out => Go.idx a i >>= fun x => Go.idx b i >>= fun y => Go.set out i (x ^^^ y) >>= fun t => .ok t)
        (6 : Int) 7 (0 : Int) out
      = if 6 ≤ a.length ∧ 6 ≤ b.length then .ok (xorBytes (a.take 6) (b.take 6) ++ out.drop 6) else .error .panic := by
  have h : Go.forLt (fun i out => Go.idx a i >>= fun x => Go.idx b i >>= fun y => Go.set out i (x ^^^ y) >>= fun t => .ok t)
        (6 : Int) 7 (0 : Int) out = xorFrom a b 6 0 out := loopA_rec a b 6 (by decide) 6 0 out rfl
  rw [h]
  by_cases c : 6 ≤ a.length ∧ 6 ≤ b.length
  · rw [if_pos c, xorFrom6g a b out c.1 c.2 ho]
  · rw [if_neg c, xorFrom_short a b 6 0 out (Nat.zero_le _) (Nat.zero_le _) (by omega)]

/-- what a successful run of the hand model's `milenageF2345` says about its inputs and about AK -/
theorem f2345_ok_facts (P : Prims) (hE : AesLen P) {opc k rand : Bytes} {w1 w2 w3 w5 : Bool} {o : F2345Out}
    (h : Model.Milenage.milenageF2345 P opc k rand w1 w2 w3 true w5 = .ok o) :
    16 ≤ rand.length ∧ 16 ≤ opc.length ∧ (k.length = 16 ∨ k.length = 24 ∨ k.length = 32) ∧
      ∃ v, o.ak = some v ∧ v.length = 6 := by
  unfold Model.Milenage.milenageF2345 at h
  split at h
  · cases h
  · rename_i hl
    have hopc : 16 ≤ opc.length := by omega
    have hrand : 16 ≤ rand.length := by omega
    by_cases hv : k.length = 16 ∨ k.length = 24 ∨ k.length = 32
    · rw [nc_ok hv] at h
      cases h
      refine ⟨hrand, hopc, hv, _, rfl, ?_⟩
      have h1 : (P.aes k (xor16 rand opc)).length = 16 := hE _ _ hv (xor16_len hrand hopc)
      have h2 : (xorLast (xor16 (P.aes k (xor16 rand opc)) opc) 1).length = 16 := by
        rw [xorLast_length]; exact xor16_len (by omega) hopc
      have h3 := hE k _ hv h2
      rw [List.length_take, xorBytes_length, List.length_take]
      omega
    · rw [nc_bad hv] at h
      cases h

theorem optBytes_getD (x : Option Bytes) : Go.optBytes x = x.getD [] := by cases x <;> rfl


/-- how the hand model's outcome of `Milenage_check` reads on the translated function: (return code, IK, CK, RES buffers,
    *res_len, AUTS buffer) -/
def checkRes (c : CheckOut) : Int × Option Bytes × Option Bytes × Option Bytes × Option UInt64 × Bytes :=
  (c.ret, some c.ik, some c.ck, some c.res, some (UInt64.ofNat c.resLen), c.auts)

set_option maxHeartbeats 2000000 in
/-- **Tie.** the translated `Milenage_check` (IK, CK, RES, AUTS buffers: fresh zeroed buffers of 16, 16, 8, 14 octets; res_len
    pointing at any value) is the hand model, for all input lengths -/
theorem Milenage_check_eq (P : Prims) (hE : AesLen P) (opc k sqn rand autn : Bytes) (n : UInt64) :
    Pure.Milenage.Milenage_check (libOf P) opc k sqn rand autn (some (zeros 16)) (some (zeros 16)) (some (zeros 8)) (some n) (zeros 14)
      = (Model.Milenage.Milenage_check P opc k sqn rand autn n.toNat).map checkRes := by
  unfold Pure.Milenage.Milenage_check Model.Milenage.Milenage_check
  dsimp only
  simp only [f7, optOut_optBytes]
  rw [milenageF2345_eq P hE opc k rand (some (zeros 8)) (some (zeros 16)) (some (zeros 16)) (some (List.replicate 6 (0 : UInt8))) none
    (by intro b h; cases h; rfl) (by intro b h; cases h; rfl) (by intro b h; cases h; rfl) (by intro b h; cases h; rfl)
    (by intro b h; cases h)]
  simp only [Option.isSome]
  cases hm : Model.Milenage.milenageF2345 P opc k rand true true true true false with
  | error e => cases e <;> simp [Except.map, checkRes, Go.optOut, Go.optBytes, UInt64.ofNat_toNat]
  | ok o =>
    obtain ⟨hrand, hopc, hv, va, hak, hal⟩ := f2345_ok_facts P hE hm
    obtain ⟨s1, s2, s3, _, _⟩ := f2345_shape hm
    obtain ⟨vr, hr⟩ := Option.isSome_iff_exists.mp s1
    obtain ⟨vc, hc⟩ := Option.isSome_iff_exists.mp s2
    obtain ⟨vi, hi⟩ := Option.isSome_iff_exists.mp s3
    simp only [ok_bind, Bool.false_eq_true, if_false, hr, hc, hi, hak, optBytes_some, Option.getD_some, deref_some,
      Option.isNone, Go.optOut]
    rw [loopA6 autn va (List.replicate 6 (0 : UInt8)) (by simp)]
    by_cases h6 : 6 ≤ autn.length
    case neg =>
      have h6' : autn.length < 6 := by omega
      have : ¬ (6 ≤ autn.length ∧ 6 ≤ va.length) := by omega
      rw [if_neg this, if_pos h6', error_bind]
      rfl
    have h6' : ¬ autn.length < 6 := by omega
    have hc6 : 6 ≤ autn.length ∧ 6 ≤ va.length := by omega
    have hvt : va.take 6 = va := List.take_of_length_le (by omega)
    rw [if_pos hc6, if_neg h6', ok_bind, hvt]
    try dsimp only
    have hrx : (xorBytes (autn.take 6) va).length = 6 := by rw [xorBytes_length, List.length_take]; omega
    generalize xorBytes (autn.take 6) va = RX at hrx ⊢
    rw [os_memcmp_eq RX sqn 6 (by decide)]
    simp only [show (6 : Int).toNat = 6 from rfl]
    cases hc1 : Model.Milenage.os_memcmp RX sqn 6 with
    | error e => rfl
    | ok c1 =>
      simp only [ok_bind]
      by_cases hle : c1 ≤ 0
      · simp only [hle, decide_true, if_true]
        rw [milenageF2345_eq P hE opc k rand none none none none (some va)
          (by intro b h; cases h) (by intro b h; cases h) (by intro b h; cases h) (by intro b h; cases h)
          (by intro b h; cases h; exact hal)]
        simp only [Option.isSome]
        cases hm2 : Model.Milenage.milenageF2345 P opc k rand false false false false true with
        | error e => cases e <;> simp [Except.map, checkRes]
        | ok o2 =>
          obtain ⟨v2, hv2, hv2l⟩ := f2345_akstar_len P hE hm2
          simp only [ok_bind, Bool.false_eq_true, if_false, hv2, optBytes_some, Option.getD_some]
          rw [loopA6g sqn v2 (zeros 14) (by simp [zeros])]
          by_cases hs6 : 6 ≤ sqn.length
          case neg =>
            have hs6' : sqn.length < 6 := by omega
            have : ¬ (6 ≤ sqn.length ∧ 6 ≤ v2.length) := by omega
            rw [if_neg this, if_pos hs6', error_bind]
            rfl
          have hs6' : ¬ sqn.length < 6 := by omega
          have hcs : 6 ≤ sqn.length ∧ 6 ≤ v2.length := by omega
          have hv2t : v2.take 6 = v2 := List.take_of_length_le (by omega)
          rw [if_pos hcs, if_neg hs6', ok_bind, hv2t]
          try dsimp only
          have hah : (xorBytes (sqn.take 6) v2).length = 6 := by rw [xorBytes_length, List.length_take]; omega
          generalize xorBytes (sqn.take 6) v2 = AH at hah ⊢
          have hd : (AH ++ (zeros 14).drop 6).drop 6 = zeros 8 := by
            rw [List.drop_left' hah]; rfl
          have ht : (AH ++ (zeros 14).drop 6).take 6 = AH := List.take_left' hah
          have hl : 6 ≤ (AH ++ (zeros 14).drop 6).length := by simp [hah]
          rw [sliceFrom_6, if_pos hl, ok_bind, hd]
          try dsimp only
          rw [milenageF1_eq P hE opc k rand sqn [0, 0] none (some (zeros 8))
            (by intro b h; cases h) (by intro b h; cases h; rfl)]
          cases hf : Model.Milenage.milenageF1 P opc k rand sqn [0, 0] with
          | error e => cases e <;> simp [f1Res, Except.map, checkRes, Go.spliceFrom, Go.optBytes, ht]
          | ok r =>
            obtain ⟨a, s⟩ := r
            simp [f1Res, Except.map, checkRes, Go.spliceFrom, Go.optBytes, ht]
      · simp only [hle, decide_false, Bool.false_eq_true, if_false]
        rw [sliceFrom_6, if_pos h6, ok_bind]
        try dsimp only
        by_cases h8 : 8 ≤ autn.length
        case neg =>
          have h8' : autn.length < 8 := by omega
          have hp : Model.Milenage.milenageF1 P opc k rand RX (autn.drop 6) = .error .panic := by
            have h1 : ¬ (rand.length < 16 ∨ opc.length < 16) := by omega
            have h2 : ¬ RX.length < 6 := by omega
            simp [Model.Milenage.milenageF1, h1, nc_ok hv, h2]
            omega
          rw [milenageF1_eq P hE opc k rand RX (autn.drop 6) (some (List.replicate 8 (0 : UInt8))) none
            (by intro b h; cases h; rfl) (by intro b h; cases h), hp, if_pos h8']
          rfl
        have h8' : ¬ autn.length < 8 := by omega
        rw [if_neg h8', milenageF1_eq P hE opc k rand RX (autn.drop 6) (some (List.replicate 8 (0 : UInt8))) none
            (by intro b h; cases h; rfl) (by intro b h; cases h)]
        cases hf : Model.Milenage.milenageF1 P opc k rand RX (autn.drop 6) with
        | error e => cases e <;> simp [f1Res, Except.map, checkRes]
        | ok r =>
          obtain ⟨a, s⟩ := r
          simp only [f1Res, ok_bind, Option.map, optBytes_some, Bool.false_eq_true, if_false]
          rw [sliceFrom_8, if_pos h8, ok_bind]
          try dsimp only
          rw [os_memcmp_eq a (autn.drop 8) 8 (by decide)]
          simp only [show (8 : Int).toNat = 8 from rfl]
          cases hc2 : Model.Milenage.os_memcmp a (autn.drop 8) 8 with
          | error e => rfl
          | ok c2 =>
            by_cases hz : c2 = 0
            · simp [hz, Except.map, checkRes]
            · simp [hz, Except.map, checkRes]


/-! ### MilenageGenerate -/

theorem len8 {α : Type} {l : List α} (h : l.length = 8) : ∃ a0 a1 a2 a3 a4 a5 a6 a7, l = [a0, a1, a2, a3, a4, a5, a6, a7] := by
  match l, h with
  | [a0, a1, a2, a3, a4, a5, a6, a7], _ => exact ⟨a0, a1, a2, a3, a4, a5, a6, a7, rfl⟩

theorem ex2 {α : Type} (l : List α) (h : 2 ≤ l.length) : ∃ x0 x1 r, l = x0 :: x1 :: r := by
  rcases l with _ | ⟨x0, l⟩
  · simp at h
  rcases l with _ | ⟨x1, l⟩
  · simp at h
  exact ⟨x0, x1, l, rfl⟩

set_option maxHeartbeats 1000000 in
theorem unroll6 {σ : Type} (body : Int → σ → Res σ) (s : σ) :
    Go.forLt body (6 : Int) 7 (0 : Int) s =
      (body 0 s >>= fun s => body 1 s >>= fun s => body 2 s >>= fun s => body 3 s >>= fun s => body 4 s >>= fun s =>
        body 5 s >>= fun s => .ok s) := by rfl

theorem stepD0 (s0 s1 s2 s3 s4 s5 : UInt8) (rs : Bytes) (k0 k1 k2 k3 k4 k5 f0 f1 m0 m1 m2 m3 m4 m5 m6 m7 : UInt8)
    (a0 a1 a2 a3 a4 a5 a6 a7 a8 a9 a10 a11 a12 a13 a14 a15 : UInt8) :
    (Go.idx (s0 :: s1 :: s2 :: s3 :: s4 :: s5 :: rs) (0 : Int) >>= fun x => Go.idx [k0, k1, k2, k3, k4, k5] (0 : Int) >>= fun y =>
      Go.set [a0, a1, a2, a3, a4, a5, a6, a7, a8, a9, a10, a11, a12, a13, a14, a15] (0 : Int) (x ^^^ y) >>= fun t11 =>
      Go.copyAt t11 (6 : Int) [f0, f1] >>= fun t13 =>
      Go.slice [m0, m1, m2, m3, m4, m5, m6, m7] (0 : Int) (8 : Int) >>= fun t14 => Go.copyAt t13 (8 : Int) t14 >>= fun t15 => .ok t15)
    = .ok [s0 ^^^ k0, a1, a2, a3, a4, a5, f0, f1, m0, m1, m2, m3, m4, m5, m6, m7] := rfl

theorem stepD1 (s0 s1 s2 s3 s4 s5 : UInt8) (rs : Bytes) (k0 k1 k2 k3 k4 k5 f0 f1 m0 m1 m2 m3 m4 m5 m6 m7 : UInt8)
    (a0 a1 a2 a3 a4 a5 a6 a7 a8 a9 a10 a11 a12 a13 a14 a15 : UInt8) :
    (Go.idx (s0 :: s1 :: s2 :: s3 :: s4 :: s5 :: rs) (1 : Int) >>= fun x => Go.idx [k0, k1, k2, k3, k4, k5] (1 : Int) >>= fun y =>
      Go.set [a0, a1, a2, a3, a4, a5, a6, a7, a8, a9, a10, a11, a12, a13, a14, a15] (1 : Int) (x ^^^ y) >>= fun t11 =>
      Go.copyAt t11 (6 : Int) [f0, f1] >>= fun t13 =>
      Go.slice [m0, m1, m2, m3, m4, m5, m6, m7] (0 : Int) (8 : Int) >>= fun t14 => Go.copyAt t13 (8 : Int) t14 >>= fun t15 => .ok t15)
    = .ok [a0, s1 ^^^ k1, a2, a3, a4, a5, f0, f1, m0, m1, m2, m3, m4, m5, m6, m7] := rfl

theorem stepD2 (s0 s1 s2 s3 s4 s5 : UInt8) (rs : Bytes) (k0 k1 k2 k3 k4 k5 f0 f1 m0 m1 m2 m3 m4 m5 m6 m7 : UInt8)
    (a0 a1 a2 a3 a4 a5 a6 a7 a8 a9 a10 a11 a12 a13 a14 a15 : UInt8) :
    (Go.idx (s0 :: s1 :: s2 :: s3 :: s4 :: s5 :: rs) (2 : Int) >>= fun x => Go.idx [k0, k1, k2, k3, k4, k5] (2 : Int) >>= fun y =>
      Go.set [a0, a1, a2, a3, a4, a5, a6, a7, a8, a9, a10, a11, a12, a13, a14, a15] (2 : Int) (x ^^^ y) >>= fun t11 =>
      Go.copyAt t11 (6 : Int) [f0, f1] >>= fun t13 =>
      Go.slice [m0, m1, m2, m3, m4, m5, m6, m7] (0 : Int) (8 : Int) >>= fun t14 => Go.copyAt t13 (8 : Int) t14 >>= fun t15 => .ok t15)
    = .ok [a0, a1, s2 ^^^ k2, a3, a4, a5, f0, f1, m0, m1, m2, m3, m4, m5, m6, m7] := rfl

theorem stepD3 (s0 s1 s2 s3 s4 s5 : UInt8) (rs : Bytes) (k0 k1 k2 k3 k4 k5 f0 f1 m0 m1 m2 m3 m4 m5 m6 m7 : UInt8)
    (a0 a1 a2 a3 a4 a5 a6 a7 a8 a9 a10 a11 a12 a13 a14 a15 : UInt8) :
    (Go.idx (s0 :: s1 :: s2 :: s3 :: s4 :: s5 :: rs) (3 : Int) >>= fun x => Go.idx [k0, k1, k2, k3, k4, k5] (3 : Int) >>= fun y =>
      Go.set [a0, a1, a2, a3, a4, a5, a6, a7, a8, a9, a10, a11, a12, a13, a14, a15] (3 : Int) (x ^^^ y) >>= fun t11 =>
      Go.copyAt t11 (6 : Int) [f0, f1] >>= fun t13 =>
      Go.slice [m0, m1, m2, m3, m4, m5, m6, m7] (0 : Int) (8 : Int) >>= fun t14 => Go.copyAt t13 (8 : Int) t14 >>= fun t15 => .ok t15)
    = .ok [a0, a1, a2, s3 ^^^ k3, a4, a5, f0, f1, m0, m1, m2, m3, m4, m5, m6, m7] := rfl

theorem stepD4 (s0 s1 s2 s3 s4 s5 : UInt8) (rs : Bytes) (k0 k1 k2 k3 k4 k5 f0 f1 m0 m1 m2 m3 m4 m5 m6 m7 : UInt8)
    (a0 a1 a2 a3 a4 a5 a6 a7 a8 a9 a10 a11 a12 a13 a14 a15 : UInt8) :
    (Go.idx (s0 :: s1 :: s2 :: s3 :: s4 :: s5 :: rs) (4 : Int) >>= fun x => Go.idx [k0, k1, k2, k3, k4, k5] (4 : Int) >>= fun y =>
      Go.set [a0, a1, a2, a3, a4, a5, a6, a7, a8, a9, a10, a11, a12, a13, a14, a15] (4 : Int) (x ^^^ y) >>= fun t11 =>
      Go.copyAt t11 (6 : Int) [f0, f1] >>= fun t13 =>
      Go.slice [m0, m1, m2, m3, m4, m5, m6, m7] (0 : Int) (8 : Int) >>= fun t14 => Go.copyAt t13 (8 : Int) t14 >>= fun t15 => .ok t15)
    = .ok [a0, a1, a2, a3, s4 ^^^ k4, a5, f0, f1, m0, m1, m2, m3, m4, m5, m6, m7] := rfl

theorem stepD5 (s0 s1 s2 s3 s4 s5 : UInt8) (rs : Bytes) (k0 k1 k2 k3 k4 k5 f0 f1 m0 m1 m2 m3 m4 m5 m6 m7 : UInt8)
    (a0 a1 a2 a3 a4 a5 a6 a7 a8 a9 a10 a11 a12 a13 a14 a15 : UInt8) :
    (Go.idx (s0 :: s1 :: s2 :: s3 :: s4 :: s5 :: rs) (5 : Int) >>= fun x => Go.idx [k0, k1, k2, k3, k4, k5] (5 : Int) >>= fun y =>
      Go.set [a0, a1, a2, a3, a4, a5, a6, a7, a8, a9, a10, a11, a12, a13, a14, a15] (5 : Int) (x ^^^ y) >>= fun t11 =>
      Go.copyAt t11 (6 : Int) [f0, f1] >>= fun t13 =>
      Go.slice [m0, m1, m2, m3, m4, m5, m6, m7] (0 : Int) (8 : Int) >>= fun t14 => Go.copyAt t13 (8 : Int) t14 >>= fun t15 => .ok t15)
    = .ok [a0, a1, a2, a3, a4, s5 ^^^ k5, f0, f1, m0, m1, m2, m3, m4, m5, m6, m7] := rfl

/-- the AUTN loop of MilenageGenerate: `autn[i] = sqn[i] ^ ak[i]; copy(autn[6:], amf[0:2]); copy(autn[8:], mac_a[0:8])`, six times -/
theorem loopD (sqn ak amf macA autn : Bytes) (hs : 6 ≤ sqn.length) (hk : ak.length = 6) (ha : 2 ≤ amf.length)
    (hm : macA.length = 8) (hau : autn.length = 16) :
    Go.forLt (fun i autn => Go.idx sqn i >>= fun x => Go.idx ak i >>= fun y => Go.set autn i (x ^^^ y) >>= fun t11 =>
        Go.slice amf (0 : Int) (2 : Int) >>= fun t12 => Go.copyAt t11 (6 : Int) t12 >>= fun t13 =>
        Go.slice macA (0 : Int) (8 : Int) >>= fun t14 => Go.copyAt t13 (8 : Int) t14 >>= fun t15 => .ok t15)
        (6 : Int) 7 (0 : Int) autn
      = .ok (xorBytes (sqn.take 6) ak ++ amf.take 2 ++ macA) := by
  have hA : (amf.take 2).length = 2 := by rw [List.length_take]; omega
  simp only [slice_0_2, ha, if_true, ok_bind]
  generalize amf.take 2 = A at hA ⊢
  obtain ⟨f0, f1, rfl⟩ := len2 hA
  obtain ⟨s0, s1, s2, s3, s4, s5, rs, rfl⟩ := ex6 sqn hs
  obtain ⟨k0, k1, k2, k3, k4, k5, rfl⟩ := len6 hk
  obtain ⟨m0, m1, m2, m3, m4, m5, m6, m7, rfl⟩ := len8 hm
  obtain ⟨o0, o1, o2, o3, o4, o5, o6, o7, o8, o9, o10, o11, o12, o13, o14, o15, rfl⟩ := len16 hau
  rw [unroll6]
  simp only [stepD0, stepD1, stepD2, stepD3, stepD4, stepD5, ok_bind]
  rfl

/-- what a successful run of the hand model's `milenageF1` says about its inputs and its outputs -/
theorem f1_ok_facts (P : Prims) (hE : AesLen P) {opc k rand sqn amf a s : Bytes}
    (h : Model.Milenage.milenageF1 P opc k rand sqn amf = .ok (a, s)) :
    6 ≤ sqn.length ∧ 2 ≤ amf.length ∧ a.length = 8 := by
  unfold Model.Milenage.milenageF1 at h
  split at h
  · cases h
  · rename_i hl
    have hopc : 16 ≤ opc.length := by omega
    have hrand : 16 ≤ rand.length := by omega
    by_cases hv : k.length = 16 ∨ k.length = 24 ∨ k.length = 32
    · rw [nc_ok hv] at h
      dsimp only at h
      split at h
      · cases h
      · split at h
        · cases h
        · rename_i h6 h2
          cases h
          refine ⟨by omega, by omega, ?_⟩
          have h1 : (P.aes k (xor16 rand opc)).length = 16 := hE _ _ hv (xor16_len hrand hopc)
          have h3 : (xorBytes (scatter 8 (xor16 (sqn.take 6 ++ amf.take 2 ++ (sqn.take 6 ++ amf.take 2)) opc))
              (P.aes k (xor16 rand opc))).length = 16 := by
            rw [xorBytes_length, scatter_length, h1]; rfl
          have h4 := hE k _ hv h3
          rw [List.length_take, xorBytes_length, List.length_take]
          omega
    · rw [nc_bad hv] at h
      cases h


/-- how the hand model's outcome of `MilenageGenerate` reads on the translated function: (AUTN, IK, CK, AK, RES buffers, *res_len) -/
def genRes (g : GenOut) : Bytes × Option Bytes × Option Bytes × Option Bytes × Option Bytes × Option UInt64 :=
  (g.autn, some g.ik, some g.ck, some g.ak, some g.res, some (UInt64.ofNat g.resLen))

set_option maxHeartbeats 2000000 in
/-- **Tie.** the translated `MilenageGenerate` (AUTN, IK, CK, AK, RES buffers: fresh zeroed buffers of 16, 16, 16, 6, 8 octets;
    res_len pointing at any value) is the hand model, for all input lengths -/
theorem MilenageGenerate_eq (P : Prims) (hE : AesLen P) (opc amf k sqn rand : Bytes) (n : UInt64) :
    Pure.Milenage.MilenageGenerate (libOf P) opc amf k sqn rand (zeros 16) (some (zeros 16)) (some (zeros 16)) (some (zeros 6))
        (some (zeros 8)) (some n)
      = (Model.Milenage.MilenageGenerate P opc amf k sqn rand n.toNat).map genRes := by
  unfold Pure.Milenage.MilenageGenerate Model.Milenage.MilenageGenerate
  dsimp only
  simp only [f7, optOut_optBytes, deref_some, ok_bind]
  by_cases hn : n < 8
  · have hn' : n.toNat < 8 := by
      have := UInt64.lt_iff_toNat_lt.mp hn
      simpa using this
    simp only [hn, hn', decide_true, if_true]
    rfl
  have hn' : ¬ n.toNat < 8 := by
    intro h
    apply hn
    apply UInt64.lt_iff_toNat_lt.mpr
    simpa using h
  simp only [hn, hn', decide_false, Bool.false_eq_true, if_false]
  rw [milenageF1_eq P hE opc k rand sqn amf (some (List.replicate 8 (0 : UInt8))) none
    (by intro b h; cases h; rfl) (by intro b h; cases h)]
  cases hf : Model.Milenage.milenageF1 P opc k rand sqn amf with
  | error e => cases e <;> rfl
  | ok r =>
    obtain ⟨a, s⟩ := r
    obtain ⟨hs6, ha2, hal⟩ := f1_ok_facts P hE hf
    simp only [f1Res, ok_bind, Option.map, optBytes_some, Bool.false_eq_true, if_false]
    rw [milenageF2345_eq P hE opc k rand (some (zeros 8)) (some (zeros 16)) (some (zeros 16)) (some (zeros 6)) none
      (by intro b h; cases h; rfl) (by intro b h; cases h; rfl) (by intro b h; cases h; rfl) (by intro b h; cases h; rfl)
      (by intro b h; cases h)]
    simp only [Option.isSome]
    cases hm : Model.Milenage.milenageF2345 P opc k rand true true true true false with
    | error e => cases e <;> rfl
    | ok o =>
      obtain ⟨_, _, _, va, hak, hakl⟩ := f2345_ok_facts P hE hm
      obtain ⟨s1, s2, s3, _, _⟩ := f2345_shape hm
      obtain ⟨vr, hr⟩ := Option.isSome_iff_exists.mp s1
      obtain ⟨vc, hc⟩ := Option.isSome_iff_exists.mp s2
      obtain ⟨vi, hi⟩ := Option.isSome_iff_exists.mp s3
      simp only [ok_bind, Bool.false_eq_true, if_false, hr, hc, hi, hak, optBytes_some, Option.getD_some,
        Option.isNone, Go.optOut]
      rw [loopD sqn va amf a (zeros 16) hs6 hakl ha2 hal (by simp [zeros])]
      rfl


/-! ### the hypotheses are satisfiable -/

/-- a cipher parameter that satisfies `AesLen` (the identity on blocks) -/
def P0 : Prims := { aes := fun _ x => x, ctr := fun _ _ m => m, cmac := fun _ m => m, hmac := fun _ m => m }

example : AesLen P0 := fun _ _ _ hx => hx

/-- a present buffer of the documented size satisfies the buffer hypothesis (here: MAC-A, 8 octets holding 0xff) -/
example : ∀ b, (some (List.replicate 8 (0xff : UInt8)) : Option Bytes) = some b → b.length = 8 := by
  intro b h; cases h; rfl

/-- a nil buffer satisfies it vacuously -/
example : ∀ b, (none : Option Bytes) = some b → b.length = 8 := by intro b h; cases h

/-- the ties instantiated at such values -/
example (opc k rand sqn amf : Bytes) :=
  milenageF1_eq P0 (fun _ _ _ hx => hx) opc k rand sqn amf (some (List.replicate 8 0xff)) none
    (by intro b h; cases h; rfl) (by intro b h; cases h)

end Stgutg.Proofs.GenTie.Milenage
