/-
  C20 counter-model (finding F13): two SNOW 3G based calls (NEA1 / NIA1 shape: `InitSnow3g`, then
  `GenerateKeystream`) that share ONE generator state — what `snow3g.go` did with its package-level
  `lfsr` / `fsm` — at Init / Generate granularity.  Under the schedule

        thread 0: Init(key A)            Generate
        thread 1:            Init(key B)          Generate

  thread 0 receives the keystream of key B: a wrong result, and a conflicting access pair.
  Uses the C07 model of the generator (`Stgutg.Model.Snow3g`, state passed explicitly).
-/
import Stgutg.Model.Interleave
import Stgutg.Model.Snow3g
import Stgutg.Proofs.Interleave

namespace Stgutg.Proofs.SnowRace
open Stgutg.Model Stgutg.Model.Interleave

abbrev Val := Snow3g.State
abbrev Local := List UInt32

/-- location 0: the package-level generator state (`snow3g.lfsr` + `snow3g.fsm`) -/
def genLoc : Loc := 0

structure KeyIv where
  k0 : UInt32
  k1 : UInt32
  k2 : UInt32
  k3 : UInt32
  iv0 : UInt32
  iv1 : UInt32
  iv2 : UInt32
  iv3 : UInt32

def KeyIv.init (q : KeyIv) : Snow3g.State := Snow3g.initSnow3g q.k0 q.k1 q.k2 q.k3 q.iv0 q.iv1 q.iv2 q.iv3

/-- `snow3g.InitSnow3g(k, iv)`: overwrites the shared state -/
def initStep (q : KeyIv) : Step Val Local :=
  { reads := [], writes := [genLoc], act := fun _ loc => ([(genLoc, q.init)], loc) }

/-- `snow3g.GenerateKeystream(n, ks)`: reads and advances the shared state, the keystream goes to the caller -/
def genStep (n : Nat) : Step Val Local :=
  { reads := [genLoc], writes := [genLoc],
    act := fun σ _ => ([(genLoc, (Snow3g.generateKeystream n (σ genLoc)).2)], (Snow3g.generateKeystream n (σ genLoc)).1) }

/-- one NEA1-shaped call -/
def call (q : KeyIv) (n : Nat) : List (Step Val Local) := [initStep q, genStep n]

def keyA : KeyIv := ⟨1, 2, 3, 4, 5, 6, 7, 8⟩
def keyB : KeyIv := ⟨9, 2, 3, 4, 5, 6, 7, 8⟩

def threads : List (List (Step Val Local)) := [call keyA 1, call keyB 1]

def zeroState : Snow3g.State := ⟨0, 0, 0, 0, 0, 0, 0, 0, 0, 0, 0, 0, 0, 0, 0, 0, 0, 0, 0⟩
def c0 : Config Val Local := { store := fun _ => zeroState, locals := fun _ => [] }

/-- the witness schedule -/
def witness : Trace Val Local :=
  [(0, initStep keyA), (1, initStep keyB), (0, genStep 1), (1, genStep 1)]

theorem respects_init (q : KeyIv) : Respects (initStep q) :=
  ⟨fun _ _ _ _ => rfl, fun _ _ w hw => by simp [initStep] at hw; simp [hw, initStep]⟩

theorem respects_gen (n : Nat) : Respects (genStep n) := by
  refine ⟨fun σ σ' _ h => ?_, fun _ _ w hw => by simp [genStep] at hw; simp [hw, genStep]⟩
  have : σ genLoc = σ' genLoc := h genLoc (by simp [genStep])
  simp [genStep, this]

/-- every step respects its declared footprint: the ONLY hypothesis of the noninterference theorem that
    fails for this system is the disjointness of the footprints -/
theorem threads_respect : PoolRespects (pool threads) := by
  intro i s hs
  obtain ⟨t, ht, hst⟩ := Proofs.Interleave.mem_pool hs
  simp only [threads, List.mem_cons, List.mem_nil_iff, or_false] at ht
  rcases ht with rfl | rfl <;>
  · simp only [call, List.mem_cons, List.mem_nil_iff, or_false] at hst
    rcases hst with rfl | rfl
    · exact respects_init _
    · exact respects_gen _

theorem witness_is_schedule : Interleaving (pool threads) witness := by
  refine Interleaving.pick (i := 0) (rest := [genStep 1]) rfl ?_
  refine Interleaving.pick (i := 1) (rest := [genStep 1]) rfl ?_
  refine Interleaving.pick (i := 0) (rest := []) rfl ?_
  refine Interleaving.pick (i := 1) (rest := []) rfl ?_
  refine Interleaving.done ?_
  intro i
  match i with
  | 0 => rfl
  | 1 => rfl
  | k + 2 => simp [upd, pool, threads]

/-- what thread 0 receives under the witness schedule: the keystream of thread 1's key -/
theorem witness_local0 : (exec c0 witness).locals 0 = (Snow3g.generateKeystream 1 keyB.init).1 := rfl

/-- what thread 0 receives when the calls run one at a time -/
theorem sequential_local0 : (exec c0 (sequential threads)).locals 0 = (Snow3g.generateKeystream 1 keyA.init).1 := rfl

theorem keystreams_differ :
    (Snow3g.generateKeystream 1 keyB.init).1 ≠ (Snow3g.generateKeystream 1 keyA.init).1 := by decide +kernel

/-- a schedule under which a call returns a wrong keystream -/
theorem witness_wrong_keystream :
    (exec c0 witness).locals 0 ≠ (exec c0 (sequential threads)).locals 0 := by
  rw [witness_local0, sequential_local0]
  exact keystreams_differ

/-- … and which contains a conflicting access pair -/
theorem witness_race : ¬ RaceFree witness := by
  intro h
  have h01 := (List.pairwise_cons.mp h).1 (1, initStep keyB) (by simp) (by decide)
  exact (h01.1 genLoc (by simp [initStep])).2 (by simp [initStep])

theorem threads_not_disjoint : ¬ PoolDisjoint (pool threads) :=
  fun hD => witness_race (Proofs.Interleave.raceFree hD witness_is_schedule)

end Stgutg.Proofs.SnowRace
