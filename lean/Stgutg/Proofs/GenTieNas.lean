import Stgutg.Gen.PureNasProt
import Stgutg.Model.NasProtect
import Stgutg.Proofs.GenTieBase
import Stgutg.Proofs.GenTieCount
/-!
  Tie by translation (C06, C10): `Gen/PureNasProt.lean` is regenerated on every run by `gen pure-nasprot` from the
  source text of
      src/tglib/security.go   NASEncode, NASDecode
      src/tglib/packet.go     EncodeNasPduWithSecurity
      src/tglib/decode.go     GetNasPdu
      src/free5gclib/nas/nas.go   NewMessage, GetSecurityHeaderType
  (the methods of `security.Count` come from `Gen/PureCount.lean`). The theorems below prove, for every UE
  context and every argument, that the generated definitions are the hand models of `Model/NasProtect.lean`.

  How the two sides are related
  * `*RanUeContext`: the generated carrier `RanUeContext` (the fields the functions select) has exactly the fields of the
    hand model's `UeSec` (`toSec` / `ofSec`, inverse to each other by `rfl`). The generated functions return the object
    behind `ue` together with the outcome — also with an error and with a panic — as the hand models do.
  * library calls: the generated functions take a record `Lib`. `libOf` builds it from the hand model's own
    parameters: `security.NASEncrypt` / `security.NASMacCalculate` are `Model.NasAlg.nasEncrypt` / `nasMac` over `Prims`
    (a model `.error .error` is the Go error return, `goErr`), `PlainNasDecode` panics on no octets
    (`Model.NasProtect.handToPlainDecode`, its first statement reads octet 0) and is otherwise an ARBITRARY function
    `pdec`, `PlainNasEncode` is an ARBITRARY function `penc`, `reflect.DeepEqual` an ARBITRARY `deq`; `junk` = what
    `NASEncrypt` leaves in the payload when it returns an error (ARBITRARY; nobody reads it).
  * results: the hand model of `NASEncode` returns octets / error / panic, the Go function (octets, err): `encView` drops
    the octets that accompany an error. The hand models of `NASDecode` / `GetNasPdu` return the octets handed to
    `PlainNasDecode`; the Go functions return the decoded message: `decResult` / `getResult` apply the plain decoder
    to the model's octets.
-/
namespace Stgutg.Proofs.GenTie.Nas
open Stgutg Stgutg.Gen
open Stgutg.Gen.Pure.NasProt Stgutg.Gen.Pure.Count
open Stgutg.Model.NasProtect (UeSec UlOp)

/-- the generated carrier of `tglib.RanUeContext` (trimmed to the fields this group selects) has exactly the
    fields of the hand model's `UeSec` -/
def toSec (u : RanUeContext) : UeSec :=
  { ulCount := u.ULCount.count, dlCount := u.DLCount.count, cipheringAlg := u.CipheringAlg,
    integrityAlg := u.IntegrityAlg, knasEnc := u.KnasEnc, knasInt := u.KnasInt }

def ofSec (u : UeSec) : RanUeContext :=
  { ULCount := ⟨u.ulCount⟩, DLCount := ⟨u.dlCount⟩, CipheringAlg := u.cipheringAlg,
    IntegrityAlg := u.integrityAlg, KnasEnc := u.knasEnc, KnasInt := u.knasInt }

theorem toSec_ofSec (u : UeSec) : toSec (ofSec u) = u := rfl
theorem ofSec_toSec (u : RanUeContext) : ofSec (toSec u) = u := rfl

/-- a Go `(value, err)` pair from a model outcome: `.error .error` is the error the Go function returns (beside a
    value nobody may use, `dflt`), a panic stays a panic -/
def goErr {α : Type} (dflt : α) : Res α → Res (α × Bool)
  | .ok a => .ok (a, false)
  | .error .error => .ok (dflt, true)
  | .error e => .error e

/-- the library record built from the hand model's own parameters -/
def libOf (P : Prims) (penc : Message → Res (Bytes × Bool)) (pdec : Message → Bytes → Res (Message × Bool))
    (deq : Bytes → Bytes → Bool) (junk : Bytes → Bytes) : Lib where
  plainNasEncode := penc
  plainNasDecode := fun m b =>
    match Model.NasProtect.handToPlainDecode b with
    | .ok b => pdec m b
    | .error e => .error e
  nasEncrypt := fun a k c b d p => goErr (junk p) (Model.NasAlg.nasEncrypt P a k c b d p)
  nasMac := fun a k c b d p => goErr [] (Model.NasAlg.nasMac P a k c b d p)
  deepEqualBytes := deq

/-- what the hand model says about a `NASEncode` outcome: state, and octets / error / panic -/
def encView (x : Option RanUeContext × Res (Bytes × Bool)) : Option UeSec × Res Bytes :=
  (x.1.map toSec,
   match x.2 with
   | .ok (b, false) => .ok b
   | .ok (_, true) => .error .error
   | .error e => .error e)

@[simp] theorem Set_eq' (c : Count) (o : UInt16) (s : UInt8) : Count.Set c o s = ⟨Model.NasProtect.Count.set c.count o s⟩ := rfl
@[simp] theorem Get_eq' (c : Count) : Count.Get c = (⟨(Model.NasProtect.Count.get c.count).1⟩, (Model.NasProtect.Count.get c.count).2) := rfl
@[simp] theorem AddOne_eq' (c : Count) : Count.AddOne c = ⟨Model.NasProtect.Count.addOne c.count⟩ := rfl
@[simp] theorem SQN_eq' (c : Count) : Count.SQN c = Model.NasProtect.Count.sqn c.count := rfl
@[simp] theorem SetSQN_eq' (c : Count) (s : UInt8) : Count.SetSQN c s = ⟨Model.NasProtect.Count.setSQN c.count s⟩ := rfl
@[simp] theorem Overflow_eq' (c : Count) : Count.Overflow c = Model.NasProtect.Count.overflow c.count := rfl
@[simp] theorem SetOverflow_eq' (c : Count) (o : UInt16) : Count.SetOverflow c o = ⟨Model.NasProtect.Count.setOverflow c.count o⟩ := rfl

theorem mask_idem (c : UInt32) : Model.NasProtect.Count.maskTo24Bits (Model.NasProtect.Count.maskTo24Bits c) = Model.NasProtect.Count.maskTo24Bits c := by
  unfold Model.NasProtect.Count.maskTo24Bits
  rw [UInt32.and_assoc, UInt32.and_self]

theorem bindS_goErr {σ α β : Type} (s : σ) (d : α) (r : Res α) (f : α × Bool → σ × Res β) :
    Go.bindS s (goErr d r) f =
      match r with
      | .ok a => f (a, false)
      | .error .error => f (d, true)
      | .error .panic => (s, .error .panic)
      | .error .hang => (s, .error .hang) := by
  cases r with
  | ok a => rfl
  | error e => cases e <;> rfl

/-- **Tie (C06).** `NASEncode(ue, msg, securityContextAvailable, newSecurityContext)`, `ue` and `msg` non-nil, with
    the plain octets the hand model is given (`hp`: `msg.PlainNasEncode()` returns them without error — the case the
    hand model describes; `NASEncode_noctx` / `NASEncode_plain_fails` say what the code does otherwise). -/
theorem NASEncode_eq (P : Prims) (penc pdec deq junk) (ue : RanUeContext) (msg : Message) (plain : Bytes)
    (a n : Bool) (hp : penc msg = .ok (plain, false)) :
    encView (NASEncode (libOf P penc pdec deq junk) (some ue) (some msg) a n) =
      (let r := Model.NasProtect.nasEncode P (toSec ue)
          { plain := plain, epd := msg.SecurityHeader.ProtocolDiscriminator, sht := msg.SecurityHeader.SecurityHeaderType,
            ctxAvail := a, newCtx := n }
       (some r.1, r.2)) := by
  unfold NASEncode Model.NasProtect.nasEncode Model.NasProtect.nasEncodeCore
  simp only [libOf, hp, bindS_goErr]
  cases a <;> cases n <;>
    simp [encView, toSec, Go.bindS, Model.NasProtect.Count.get, Model.NasProtect.isCipheredType, mask_idem,
      Model.NasProtect.bearer3GPP, Model.NasProtect.directionUplink] <;>
    (by_cases hc : (msg.SecurityHeader.SecurityHeaderType = 2 ∨ msg.SecurityHeader.SecurityHeaderType = 4)) <;>
    simp [hc] <;> (repeat' split) <;> simp_all

/-- `new(nas.Message)` -/
def zeroMsg : Message := { SecurityHeader := ⟨0, 0, 0, 0⟩, rest_ := Go.Rest.zero }

/-- what `NASDecode` returns given the hand model's outcome (the octets handed to `PlainNasDecode`, an error, a
    panic) and the plain decoder: a message that decodes comes back with the decoder's error flag; an error of
    `NASEncrypt` / `NASMacCalculate` comes back as `nil, err` -/
def decResult (pdec : Message → Bytes → Res (Message × Bool)) : Res Bytes → Res (Option Message × Bool)
  | .ok b => match pdec zeroMsg b with
    | .ok (m, e) => .ok (some m, e)
    | .error e => .error e
  | .error .error => .ok (none, true)
  | .error .panic => .error .panic
  | .error .hang => .error .hang

theorem bindS_goErr' {σ α β : Type} (s : σ) (d : α) (r : Res α) (f : α × Bool → σ × Res β) :
    (match goErr d r with
      | .ok a => f a
      | .error e => (s, .error e)) =
      match r with
      | .ok a => f (a, false)
      | .error .error => f (d, true)
      | .error .panic => (s, .error .panic)
      | .error .hang => (s, .error .hang) := by
  cases r with
  | ok a => rfl
  | error e => cases e <;> rfl

theorem decode_tail {σ : Type} (P : Prims) (penc pdec deq junk) (s : σ) (p : Bytes) :
    (Go.bindS s (Go.deref (some zeroMsg)) fun t1 =>
      Go.bindS s ((libOf P penc pdec deq junk).plainNasDecode t1 p) fun t2 =>
        (s, (Except.ok (some t2.1, t2.2) : Res (Option Message × Bool)))) =
      (s, decResult pdec (Model.NasProtect.handToPlainDecode p)) := by
  simp only [Go.deref, Go.bindS, libOf, Model.NasProtect.handToPlainDecode]
  by_cases he : p.isEmpty
  · simp [he, decResult]
  · simp only [he, decResult, Bool.false_eq_true, if_false]
    cases hD : pdec zeroMsg p with
    | error e => rfl
    | ok v => rfl

/-- **Tie (C10).** `NASDecode(ue, securityHeaderType, payload)`, `ue` and `payload` non-nil: for every UE context,
    header type and octets, generated = hand model (state and outcome). -/
theorem NASDecode_eq (P : Prims) (penc pdec deq junk) (ue : RanUeContext) (sht : UInt8) (payload : Bytes) :
    NASDecode (libOf P penc pdec deq junk) (some ue) sht (some payload) =
      (let r := Model.NasProtect.nasDecode P (toSec ue) sht payload
       (some (ofSec r.1), decResult pdec r.2)) := by
  unfold NASDecode Model.NasProtect.nasDecode Model.NasProtect.nasDecodeCore
  have hz : ({ SecurityHeader := { ProtocolDiscriminator := 0, SecurityHeaderType := 0, MessageAuthenticationCode := 0, SequenceNumber := 0 }, rest_ := Go.Rest.zero } : Message) = zeroMsg := rfl
  obtain ⟨⟨ul⟩, ⟨dl⟩, ca, ia, ke, ki⟩ := ue
  by_cases h0 : sht = 0
  · simp [h0, hz, decode_tail, toSec, ofSec]
  · by_cases hi : ia = 0
    · subst hi
      simp only [hz, decode_tail]
      simp only [h0, libOf, bindS_goErr]
      rcases payload with _ | ⟨a, _ | ⟨b, _ | ⟨c, rest⟩⟩⟩
      · simp [h0, toSec, ofSec, Go.bindS, Go.sliceFrom, decResult]
      · simp [h0, toSec, ofSec, Go.bindS, Go.sliceFrom, decResult]
      · simp [h0, toSec, ofSec, Go.bindS, Go.sliceFrom, decResult]
      · have h1 : (3 : Int) ≤ ↑rest.length + 1 + 1 + 1 := by omega
        have h2 : ¬ (rest.length + 1 + 1 + 1 < 3) := by omega
        simp [h0, h1, h2, toSec, ofSec, Go.bindS, Go.sliceFrom, Model.NasProtect.Count.get, Model.NasProtect.bearer3GPP,
          Model.NasProtect.directionDownlink, decResult]
        split <;> simp_all
    · simp only [hz, decode_tail]
      simp only [h0, hi, libOf, bindS_goErr]
      rcases payload with _ | ⟨a, _ | ⟨b, _ | ⟨c, _ | ⟨d, _ | ⟨e, _ | ⟨f, _ | ⟨seq, rest⟩⟩⟩⟩⟩⟩⟩
      iterate 7
        by_cases hn : (sht = 3 ∨ sht = 4) <;>
          simp [h0, hi, hn, toSec, ofSec, Go.bindS, Go.slice, Go.idx, decResult, Model.NasProtect.isNewContextType]
      have h1 : (6 : Int) ≤ ↑rest.length + 1 + 1 + 1 + 1 + 1 + 1 + 1 := by omega
      have h3 : (1 : Int) ≤ ↑rest.length + 1 := by omega
      by_cases hn : (sht = 3 ∨ sht = 4) <;>
      by_cases hc : (sht = 2 ∨ sht = 4) <;>
      by_cases hs : seq < Model.NasProtect.Count.sqn (if sht = 3 ∨ sht = 4 then Model.NasProtect.Count.set dl 0 0 else dl) <;>
      simp only [hn, if_true, if_false] at hs <;>
      simp [h0, hi, hn, hc, hs, h1, h3, Model.NasProtect.isCipheredType, toSec, ofSec, Go.bindS, Go.slice, Go.idx, Go.sliceFrom, decResult, Model.NasProtect.isNewContextType,
          Model.NasProtect.Count.get, Model.NasProtect.bearer3GPP, Model.NasProtect.directionDownlink, mask_idem]
      all_goals (split <;> (try split) <;> simp_all)

@[simp] theorem bindS_ok {σ α β : Type} (s : σ) (a : α) (f : α → σ × Res β) : Go.bindS s (.ok a) f = f a := rfl
@[simp] theorem bindS_error {σ α β : Type} (s : σ) (e : Err) (f : α → σ × Res β) :
    Go.bindS s (.error e : Res α) f = (s, .error e) := rfl

theorem bindS_eta {σ α β : Type} (x : σ × Res (α × β)) :
    (Go.bindS x.1 x.2 fun t => (x.1, (Except.ok (t.1, t.2) : Res (α × β)))) = x := by
  obtain ⟨s, r⟩ := x
  cases r with
  | ok v => rfl
  | error e => rfl

/-- `m.SecurityHeader = nas.SecurityHeader{ProtocolDiscriminator: Epd5GSMobilityManagementMessage, SecurityHeaderType: sht}` -/
def withHeader (m : Message) (sht : UInt8) : Message :=
  { m with SecurityHeader := { ProtocolDiscriminator := 0x7e, SecurityHeaderType := sht, MessageAuthenticationCode := 0, SequenceNumber := 0 } }

/-- **Tie (C06).** `EncodeNasPduWithSecurity(ue, pdu, sht, ctxAvail, newCtx)` with a `pdu` the plain decoder accepts
    (`hd`) and whose message, header set, encodes to `plain` (`hp`) — the hand model's reading of its `plain`. -/
theorem EncodeNasPduWithSecurity_eq (P : Prims) (penc pdec deq junk) (ue : RanUeContext) (pdu plain : Bytes) (m : Message)
    (sht : UInt8) (a n : Bool) (hne : pdu ≠ []) (hd : pdec zeroMsg pdu = .ok (m, false))
    (hp : penc (withHeader m sht) = .ok (plain, false)) :
    encView (EncodeNasPduWithSecurity (libOf P penc pdec deq junk) (some ue) pdu sht a n) =
      (let r := Model.NasProtect.encodeNasPduWithSecurity P (toSec ue) plain sht a n
       (some r.1, r.2)) := by
  have h := NASEncode_eq P penc pdec deq junk ue (withHeader m sht) plain a n hp
  unfold EncodeNasPduWithSecurity Model.NasProtect.encodeNasPduWithSecurity
  have hH : Model.NasProtect.handToPlainDecode pdu = .ok pdu := by
    cases pdu with
    | nil => exact absurd rfl hne
    | cons x xs => rfl
  have hL : (libOf P penc pdec deq junk).plainNasDecode zeroMsg pdu = .ok (m, false) := by
    simp only [libOf, hH, hd]
  have hz : ({ SecurityHeader := { ProtocolDiscriminator := 0, SecurityHeaderType := 0, MessageAuthenticationCode := 0, SequenceNumber := 0 }, rest_ := Go.Rest.zero } : Message) = zeroMsg := rfl
  simp only [NewMessage, hz, bindS_ok, Go.deref, hL]
  simp only [Bool.false_eq_true, if_false, bindS_eta]
  exact h

/-- a PDU the plain decoder refuses (or an empty one: a panic) never reaches `NASEncode`; the UE context is untouched -/
theorem EncodeNasPduWithSecurity_refused (P : Prims) (penc pdec deq junk) (ue : RanUeContext) (pdu : Bytes) (m : Message)
    (sht : UInt8) (a n : Bool) (hne : pdu ≠ []) (hd : pdec zeroMsg pdu = .ok (m, true)) :
    EncodeNasPduWithSecurity (libOf P penc pdec deq junk) (some ue) pdu sht a n = (some ue, .ok ([], true)) := by
  unfold EncodeNasPduWithSecurity
  have hH : Model.NasProtect.handToPlainDecode pdu = .ok pdu := by
    cases pdu with
    | nil => exact absurd rfl hne
    | cons x xs => rfl
  have hL : (libOf P penc pdec deq junk).plainNasDecode zeroMsg pdu = .ok (m, true) := by
    simp only [libOf, hH, hd]
  have hz : ({ SecurityHeader := { ProtocolDiscriminator := 0, SecurityHeaderType := 0, MessageAuthenticationCode := 0, SequenceNumber := 0 }, rest_ := Go.Rest.zero } : Message) = zeroMsg := rfl
  simp only [NewMessage, hz, bindS_ok, Go.deref, hL]
  rfl

/-- the hand model's view of `msg.ProtocolIEs.List`: `some v` for an IE whose id is `ProtocolIEIDNASPDU` (38) with value
    `v`, `none` for any other IE -/
def iesOf (l : List DownlinkNASTransportIEs) : List (Option Bytes) :=
  l.map fun ie => if ie.Id.Value = 38 then ie.Value.NASPDU.map (·.Value) else none

/-- every IE whose id says NAS-PDU carries one (what the APER decoder produces; the hand model has no other case) -/
def IesWf (l : List DownlinkNASTransportIEs) : Prop :=
  ∀ ie ∈ l, ie.Id.Value = 38 → ie.Value.NASPDU ≠ none

/-- what `GetNasPdu` returns given the hand model's outcome and the plain decoder -/
def getResult (pdec : Message → Bytes → Res (Message × Bool)) : Res (Option Bytes) → Res (Option Message)
  | .ok (some b) => match pdec zeroMsg b with
    | .ok (m, false) => .ok (some m)
    | .ok (_, true) => .ok none
    | .error e => .error e
  | .ok none => .ok none
  | .error e => .error e

theorem GetNasPdu_loop_eq (P : Prims) (penc pdec deq junk) (l : List DownlinkNASTransportIEs) (hwf : IesWf l)
    (ue : RanUeContext) :
    (Go.bindT (GetNasPdu.loop1 (libOf P penc pdec deq junk) l (some ue)) fun t =>
      match t with
      | .ret k r => (k, (Except.ok r : Res (Option Message)))
      | .next k => (k, .ok none)) =
      (let r := Model.NasProtect.getNasPdu P (toSec ue) (iesOf l)
       (some (ofSec r.1), getResult pdec r.2)) := by
  induction l with
  | nil => simp [GetNasPdu.loop1, Go.bindT, iesOf, Model.NasProtect.getNasPdu, Model.NasProtect.getNasPduWith, getResult, ofSec, toSec]
  | cons ie rest ih =>
    have hwf' : IesWf rest := fun x hx => hwf x (List.mem_cons_of_mem _ hx)
    unfold GetNasPdu.loop1
    by_cases hid : ie.Id.Value = 38
    · have hn := hwf ie (List.mem_cons_self) hid
      obtain ⟨pdu, hpdu⟩ := Option.ne_none_iff_exists'.mp hn
      obtain ⟨v⟩ := pdu
      simp only [hid, decide_true, if_true, hpdu, Go.deref, bindS_ok, GetSecurityHeaderType]
      have hi : iesOf (ie :: rest) = some v :: iesOf rest := by simp [iesOf, hid, hpdu]
      rw [hi]
      simp only [Model.NasProtect.getNasPdu, Model.NasProtect.getNasPduWith]
      rcases v with _ | ⟨a, _ | ⟨sht, tl⟩⟩
      · simp [Go.idx, Go.bindT, getResult, ofSec, toSec]
      · simp [Go.idx, Go.bindT, getResult, ofSec, toSec]
      · simp only [Go.idx, Int.reduceLE, Int.reduceToNat, if_true, List.getElem?_cons_succ, List.getElem?_cons_zero, ok_bind, bindS_ok]
        rw [NASDecode_eq]
        generalize Model.NasProtect.nasDecode P (toSec ue) sht (a :: sht :: tl) = r
        obtain ⟨u, r⟩ := r
        cases r with
        | error e => cases e <;> simp [decResult, Model.NasProtect.nilOnError, getResult, Go.bindT]
        | ok b =>
          simp only [decResult, Model.NasProtect.nilOnError, getResult]
          cases hD : pdec zeroMsg b with
          | error e => simp [Go.bindT]
          | ok v =>
            obtain ⟨m, e⟩ := v
            cases e <;> simp [Go.bindT]
    · simp only [hid, decide_false, Bool.false_eq_true, if_false]
      rw [ih hwf']
      simp [iesOf, hid, Model.NasProtect.getNasPdu, Model.NasProtect.getNasPduWith]

/-- **Tie (C10).** `GetNasPdu(ue, msg)`, `ue` and `msg` non-nil: generated = hand model on the model's view of the IE list. -/
theorem GetNasPdu_eq (P : Prims) (penc pdec deq junk) (ue : RanUeContext) (msg : DownlinkNASTransport)
    (hwf : IesWf msg.ProtocolIEs.List) :
    GetNasPdu (libOf P penc pdec deq junk) (some ue) (some msg) =
      (let r := Model.NasProtect.getNasPdu P (toSec ue) (iesOf msg.ProtocolIEs.List)
       (some (ofSec r.1), getResult pdec r.2)) := by
  unfold GetNasPdu
  simp only [Go.deref, bindS_ok]
  exact GetNasPdu_loop_eq P penc pdec deq junk msg.ProtocolIEs.List hwf ue

/-- `msg == nil`: the first thing `GetNasPdu` does is read `msg.ProtocolIEs` -/
theorem GetNasPdu_nil_msg (L : Lib) (ue : Option RanUeContext) : GetNasPdu L ue none = (ue, .error .panic) := rfl

/-- `ue == nil` -/
theorem NASEncode_nil_ue (L : Lib) (msg : Option Message) (a n : Bool) : NASEncode L none msg a n = (none, .ok ([], true)) := rfl
/-- `msg == nil` -/
theorem NASEncode_nil_msg (L : Lib) (ue : RanUeContext) (a n : Bool) : NASEncode L (some ue) none a n = (some ue, .ok ([], true)) := rfl
/-- `ue == nil` -/
theorem NASDecode_nil_ue (L : Lib) (sht : UInt8) (p : Option Bytes) : NASDecode L none sht p = (none, .ok (none, true)) := rfl

/-- **Tie (C10), with the nil test on the payload.** -/
theorem NASDecode_nilable_eq (P : Prims) (penc pdec deq junk) (ue : RanUeContext) (sht : UInt8) (payload : Option Bytes) :
    NASDecode (libOf P penc pdec deq junk) (some ue) sht payload =
      (let r := Model.NasProtect.nasDecodeNilable P (toSec ue) sht payload
       (some (ofSec r.1), decResult pdec r.2)) := by
  cases payload with
  | none => rfl
  | some p => exact NASDecode_eq P penc pdec deq junk ue sht p

/-- without a security context `NASEncode` is `msg.PlainNasEncode()`, whatever that returns -/
theorem NASEncode_noctx (P : Prims) (penc pdec deq junk) (ue : RanUeContext) (msg : Message) (n : Bool) :
    NASEncode (libOf P penc pdec deq junk) (some ue) (some msg) false n = (some ue, penc msg) := by
  unfold NASEncode
  simp only [libOf]
  cases penc msg with
  | ok v => rfl
  | error e => rfl

/-- the UE context after `if newSecurityContext { ue.ULCount.Set(0, 0); ue.DLCount.Set(0, 0) }` -/
def resetIf (n : Bool) (ue : RanUeContext) : RanUeContext :=
  if n then { ue with ULCount := ⟨Model.NasProtect.Count.set ue.ULCount.count 0 0⟩,
                      DLCount := ⟨Model.NasProtect.Count.set ue.DLCount.count 0 0⟩ } else ue

/-- with a security context, a plain encoder that returns an error (or panics) ends `NASEncode` there: the counters
    have been reset if a new context was announced, nothing else happened (the hand model takes the plain
    octets as given and has no such case) -/
theorem NASEncode_plain_fails (P : Prims) (penc pdec deq junk) (ue : RanUeContext) (msg : Message) (n : Bool)
    (hp : ∀ p, penc msg ≠ .ok (p, false)) :
    NASEncode (libOf P penc pdec deq junk) (some ue) (some msg) true n = (some (resetIf n ue), penc msg) := by
  unfold NASEncode
  simp only [libOf]
  cases h : penc msg with
  | error e => cases n <;> rfl
  | ok v =>
    obtain ⟨p, e⟩ := v
    cases e with
    | false => exact absurd h (hp p)
    | true => cases n <;> rfl

theorem NewMessage_eq : NewMessage = .ok (some zeroMsg) := rfl
theorem GetSecurityHeaderType_eq (b : Bytes) : GetSecurityHeaderType b = Go.idx b 1 := by
  unfold GetSecurityHeaderType
  cases Go.idx b 1 <;> rfl

/-! ### the hypotheses are satisfiable by non-trivial values -/

/-- `NASEncode_eq`, `EncodeNasPduWithSecurity_eq`: a plain codec, a message and a PDU with `hne`, `hd`, `hp` -/
example : ∃ (penc : Message → Res (Bytes × Bool)) (pdec : Message → Bytes → Res (Message × Bool)) (pdu plain : Bytes) (m : Message),
    pdu ≠ [] ∧ pdec zeroMsg pdu = .ok (m, false) ∧ penc (withHeader m 2) = .ok (plain, false) ∧ plain ≠ [] ∧ m ≠ zeroMsg :=
  ⟨fun m => .ok ([0x7e, 0, 0x5e, (m.rest_.code % 256).toUInt8], false), fun m b => .ok ({ m with rest_ := ⟨b.length⟩ }, false),
    [0x7e, 0, 0x5e], [0x7e, 0, 0x5e, 3], { zeroMsg with rest_ := ⟨3⟩ }, by decide, rfl, rfl, by decide, by decide⟩

/-- `GetNasPdu_eq`: an IE list with a NAS-PDU behind another IE satisfies `IesWf` -/
example : IesWf [⟨⟨10⟩, ⟨none⟩⟩, ⟨⟨38⟩, ⟨some ⟨[0x7e, 2, 1, 2, 3, 4, 5, 0x7e, 0, 0x44]⟩⟩⟩] := by
  intro ie h
  simp only [List.mem_cons, List.mem_nil_iff, or_false] at h
  rcases h with rfl | rfl <;> simp

/-- and `iesOf` reads it as the hand model's list -/
example : iesOf [⟨⟨10⟩, ⟨none⟩⟩, ⟨⟨38⟩, ⟨some ⟨[0x7e, 2, 1]⟩⟩⟩] = [none, some [0x7e, 2, 1]] := by decide

end Stgutg.Proofs.GenTie.Nas
