import Stgutg.Gen.PureKdf
import Stgutg.Model.KeyDerivation
import Stgutg.Proofs.GenTieBase
/-!
  Tie by translation (C05): `Gen/PureKdf.lean` is regenerated from src/free5gclib/UeauCommon/UeauCommon.go `KDFLen`
  on every run by `gen pure-kdf`.
-/
namespace Stgutg.Proofs.GenTie.Kdf
open Stgutg Stgutg.Gen Stgutg.Proofs.GenTie

/-- **Tie.** The translated `KDFLen` never panics and returns the hand model's two octets
    (`make([]byte, 2)` always has room for `PutUint16`). -/
theorem KDFLen_eq (input : Bytes) : Pure.Kdf.KDFLen input = .ok (Model.KeyDerivation.KDFLen input) := by
  simp only [Pure.Kdf.KDFLen, Model.KeyDerivation.KDFLen, Go.putU16BE, Go.len, List.replicate, ok_bind, natBE]
  congr 1
  have h : ∀ n : Nat, UInt16.ofInt (n : Int) = UInt16.ofNat n := by
    intro n; apply UInt16.toNat_inj.mp; simp [UInt16.ofInt, Int.toNat_emod]
  rw [h]
  simp [List.range, List.range.loop]
  constructor
  · apply UInt8.toNat_inj.mp; simp; omega
  · apply UInt8.toNat_inj.mp; simp

end Stgutg.Proofs.GenTie.Kdf
