/-
  C03 helper lemmas, part 3: completeness. For schemas that pass `specOKc` in addition to `specOK`, the encoder model
  does not refuse a regular value the specification encodes (`…_total` lemmas per clause, `encode_complete`), hence
  `encode_iff` / `marshal_iff`: same domain, same bits.
-/
import Stgutg.Proofs.AperSpecComp

namespace Stgutg.Proofs.AperSpec
open Stgutg Stgutg.Aper Stgutg.Proofs.Bits
open Stgutg.Spec.X691 (bitsFor octetsFor pad constrainedWholeNumber lengthDeterminant lengthAndItems twosComplement octetsForSigned
  integer enumerated sizeConstraint bitString octetString)

/-! ## Completeness: the model encodes whatever the specification encodes -/

theorem le_pow_bitsFor : ∀ m : Fin 18, 3 ≤ m.val → m.val ≤ 2 ^ bitsFor m.val ∧ bitsFor m.val ≠ 0 ∧ bitsFor m.val < 64 := by
  decide +kernel

theorem octetsFor_char (n : Nat) (hn : n < 256 ^ 9) :
    1 ≤ octetsFor n ∧ octetsFor n ≤ 9 ∧ n < 256 ^ octetsFor n ∧ (octetsFor n = 1 ∨ 256 ^ (octetsFor n - 1) ≤ n) := by
  rw [octetsFor_eq n hn]
  have hdiv : n >>> 8 = n / 256 := by rw [Nat.shiftRight_eq_div_pow]
  rw [hdiv]
  have hx8 : n / 256 < 256 ^ 8 := by
    have : (256 : Nat) ^ 9 = 256 ^ 8 * 256 := Nat.pow_succ ..
    rw [this] at hn
    exact Nat.div_lt_of_lt_mul (by rw [Nat.mul_comm]; exact hn)
  have hx9 : n / 256 < 256 ^ 9 := Nat.lt_of_lt_of_le hx8 (Nat.pow_le_pow_right (by decide) (by decide))
  obtain ⟨h1, _, h3, h4⟩ := octetCount_char 9 (n / 256) hx9
  have h9 := octetCount_le' 9 (n / 256) 8 hx9 hx8
  generalize octetCount 9 (n / 256) = c at h1 h3 h4 h9
  obtain ⟨c', rfl⟩ : ∃ c', c = c' + 1 := ⟨c - 1, by omega⟩
  simp only [Nat.add_sub_cancel] at h3 ⊢
  refine ⟨by omega, by omega, ?_, ?_⟩
  · rw [Nat.pow_succ]
    generalize 256 ^ c' = K at h3 ⊢
    omega
  · rcases h4 with h4 | h4
    · left; exact h4
    · right
      cases c' with
      | zero => simp at h3 h4; omega
      | succ c'' =>
        have e : c'' + 1 + 1 - 2 = c'' := by omega
        rw [e] at h4
        rw [Nat.pow_succ]
        generalize 256 ^ c'' = K at h4 ⊢
        omega

theorem octetsFor_mono (n m : Nat) (hnm : n ≤ m) (hm : m < 256 ^ 9) : octetsFor n ≤ octetsFor m := by
  obtain ⟨a1, a2, a3, a4⟩ := octetsFor_char n (by omega)
  obtain ⟨b1, b2, b3, b4⟩ := octetsFor_char m hm
  false_or_by_contra
  rename_i hc
  rcases a4 with a4 | a4
  · omega
  · have : octetsFor m ≤ octetsFor n - 1 := by omega
    have := Nat.pow_le_pow_right (n := 256) (by decide) this
    omega

/-- in its domain `intTail` never fails (range above 64K from 0) -/
theorem intTail_big_total (pos : Nat) (v : Int) (pre : Bits) (range : Int) (h64 : 65536 < range) (hr : range ≤ 2 ^ 63)
    (hl : 0 ≤ v) (hu : v < range) : ∃ b, intTail pos v pre 0 range = .ok b := by
  unfold intTail
  have h1 : ¬ range = 1 := by omega
  have h0 : ¬ range ≤ 0 := by omega
  have h6 : ¬ range ≤ 65536 := by omega
  have hv0 : ¬ v < 0 := by omega
  simp only [h1, h0, h6, hv0, if_false, Int.sub_zero]
  have e72 : (256 : Nat) ^ 9 = 2 ^ 72 := by decide
  have hn9 : v.toNat < 256 ^ 9 := by omega
  have hr9 : range.toNat - 1 < 256 ^ 9 := by omega
  have hmax : rangeByteLen range = octetsFor (range.toNat - 1) := by
    unfold rangeByteLen
    have e : (range - 1).toNat = range.toNat - 1 := by omega
    rw [e, octetsFor_eq _ hr9]
    have hdiv : (range.toNat - 1) >>> 8 = (range.toNat - 1) / 256 := by rw [Nat.shiftRight_eq_div_pow]
    have hx : (range.toNat - 1) >>> 8 < 256 ^ 9 := by rw [hdiv]; omega
    exact octetCount_fuel 16 9 _ (Nat.lt_of_lt_of_le hx (Nat.pow_le_pow_right (by decide) (by decide))) hx
  obtain ⟨m1, m2, m3, m4⟩ := octetsFor_char (range.toNat - 1) hr9
  have hmax3 : 3 ≤ octetsFor (range.toNat - 1) := by
    false_or_by_contra
    rename_i hc
    have : octetsFor (range.toNat - 1) ≤ 2 := by omega
    have := Nat.pow_le_pow_right (n := 256) (by decide) this
    omega
  have hw : bitsForRange (rangeByteLen range) = bitsFor (octetsFor (range.toNat - 1)) := by
    rw [hmax]
    exact (bitsFor_small ⟨octetsFor (range.toNat - 1), by omega⟩ hmax3).symm
  rw [← octetsFor_eq _ hn9, hw]
  obtain ⟨k1, k2, k3, k4⟩ := octetsFor_char v.toNat hn9
  have hmono := octetsFor_mono v.toNat (range.toNat - 1) (by omega) hr9
  obtain ⟨p1, p2, p3⟩ := le_pow_bitsFor ⟨octetsFor (range.toNat - 1), by omega⟩ hmax3
  simp only at p1 p2 p3
  rw [putBits_some _ _ p2 (by omega)]
  dsimp only
  have hbody : v.toNat < 2 ^ (8 * octetsFor v.toNat) := by rw [← pow256]; exact k3
  rw [putBits_some _ _ (by omega) hbody]
  exact ⟨_, rfl⟩

/-- 13 INTEGER: the model encodes every value the specification encodes -/
theorem integer_total (pos : Nat) (v : Int) (ext : Bool) (lbP ubP : Option Int) (b : Bits)
    (hok : intOK' lbP ubP = true) (hlu : ∀ l u, lbP = some l → ubP = some u → l ≤ u)
    (h1 : -(2 ^ 63) ≤ v) (h2 : v < 2 ^ 63)
    (h : integer pos v ext lbP ubP = some b) : ∃ b', appendInteger pos v ext lbP ubP = .ok b' := by
  rw [appendInteger_eq]
  have hv := absU_int64 v h1 h2
  cases lbP with
  | none =>
    cases ubP with
    | some u => simp [intOK'] at hok
    | none =>
      dsimp only
      rw [intTail_unc _ _ _ _ hv]
      exact ⟨_, rfl⟩
  | some l =>
    cases ubP with
    | none => simp [intOK'] at hok
    | some u =>
      unfold integer at h
      simp only at h
      dsimp only
      by_cases hin : l ≤ v ∧ v ≤ u
      · have hvl : ¬ v < l := by omega
        simp only [hvl, if_false, hin.2, if_true]
        by_cases hr1 : u - l + 1 = 1
        · unfold intTail
          simp only [hr1, if_true]
          exact ⟨_, rfl⟩
        · by_cases hr64 : u - l + 1 ≤ 65536
          · unfold intTail
            have h0 : ¬ u - l + 1 ≤ 0 := by omega
            simp only [hr1, h0, hr64, if_true, if_false]
            obtain ⟨c, hc, _⟩ := constrained_eq (pos + (if ext = true then [false] else [] : Bits).length) (u - l + 1) (v - l).toNat
              (by omega) hr64 (by omega)
            rw [hc]
            exact ⟨_, rfl⟩
          · simp only [intOK', decide_eq_true_eq, Bool.or_eq_true, Bool.and_eq_true, beq_iff_eq] at hok
            have hl0 : l = 0 := by omega
            subst hl0
            exact intTail_big_total pos v _ _ (by omega) (by omega) (by omega) (by omega)
      · simp only [hin, if_false] at h
        by_cases hx : ext = true ∧ v > u
        · have := hlu l u rfl rfl
          have hvl : ¬ v < l := by omega
          have hvu : ¬ v ≤ u := by omega
          simp only [hvl, hvu, if_false, hx.1, Bool.not_true, Bool.false_eq_true]
          rw [intTail_unc _ _ _ _ hv]
          exact ⟨_, rfl⟩
        · simp [hx] at h

/-- 14 ENUMERATED: completeness (at most 65536 root enumerations) -/
theorem enumerated_total (pos n : Nat) (ext : Bool) (lbP ubP : Option Int) (b : Bits)
    (hub : ∀ u, ubP = some u → u < 65536)
    (h : enumerated pos n ext lbP ubP = some b) : ∃ b', appendEnumerated pos n ext lbP ubP = .ok b' := by
  unfold enumerated at h
  unfold appendEnumerated
  split at h
  · rename_i ub
    have := hub ub rfl
    dsimp only
    split at h
    · rename_i hle
      have c1 : ¬ ((n : Int) > ub) := by omega
      have c2 : ¬ ((n : Int) < 0) := by omega
      simp only [c1, c2, if_false]
      by_cases hr : ub - 0 + 1 > 1
      · simp only [hr, if_true]
        obtain ⟨c, hc, _⟩ := constrained_eq (pos + (if ext = true then [false] else [] : Bits).length) (ub - 0 + 1) n
          (by omega) (by omega) (by omega)
        rw [hc]
        exact ⟨_, rfl⟩
      · simp only [hr, if_false]
        exact ⟨_, rfl⟩
    · simp at h
  · simp at h

theorem choice_index_total (pos p nAlt : Nat) (ext : Bool) (ub : Int)
    (hub : ub + 1 = (nAlt : Int)) (h2 : 2 ≤ nAlt) (h64 : nAlt ≤ 65536) (hp1 : 1 ≤ p) (hp : p ≤ nAlt) :
    ∃ b, appendChoiceIndex pos p ext (some ub) = .ok b := by
  unfold appendChoiceIndex
  dsimp only
  have h0 : ¬ ub < 0 := by omega
  have h1 : ¬ (ext = true ∧ ((p - 1 : Nat) : Int) > ub) := by omega
  simp only [h0, h1, if_false]
  obtain ⟨c, hc, _⟩ := constrained_eq pos (ub + 1) (p - 1) (by omega) (by omega) (by omega)
  exact ⟨c, hc⟩

/-- in its domain the length determinant is always written -/
theorem appendLength_total (pos : Nat) (sr : Int) (n : Nat)
    (h : ((sr ≤ 0 ∨ 65536 < sr) ∧ n < 16384) ∨ (2 ≤ sr ∧ sr ≤ 65536 ∧ (n : Int) < sr)) :
    ∃ l, appendLength pos sr n = .ok l := by
  rcases h with ⟨h1, h2⟩ | ⟨h1, h2, h3⟩
  · rw [length_unc pos sr n h2 h1]; exact ⟨_, rfl⟩
  · unfold appendLength
    have : sr ≤ 65536 ∧ sr > 0 := by omega
    simp only [this, and_self, if_true]
    obtain ⟨c, hc, _⟩ := constrained_eq pos sr n h1 h2 h3
    exact ⟨c, hc⟩

/-- where the specification accepts the size, the model's preamble succeeds; its outputs are in the domain of the rest -/
theorem sizePreamble_total (len : Nat) (ext : Bool) (lbP ubP : Option Int) (x : Bits × Nat × Option Nat)
    (hok : strOK' lbP ubP = true)
    (h : sizeConstraint len ext lbP ubP = some x) :
    ∃ pre lb ub sr, sizePreamble len ext lbP ubP = .ok (pre, lb, ub, sr) ∧ 0 ≤ lb ∧
      ((sr = 1 ∧ (len : Int) = ub ∧ 0 < ub) ∨
       (sr ≠ 1 ∧ lb ≤ len ∧ ((sr = -1 ∧ lb = 0) ∨
          (2 ≤ sr ∧ sr ≤ 65536 ∧ ((len - lb.toNat : Nat) : Int) < sr ∧ len - lb.toNat < 16384)))) := by
  unfold sizeConstraint at h
  unfold sizePreamble
  cases lbP with
  | none => exact ⟨[], 0, -1, -1, rfl, by decide, Or.inr ⟨by decide, by omega, Or.inl ⟨rfl, rfl⟩⟩⟩
  | some l =>
    cases ubP with
    | none =>
      simp only [strOK', beq_iff_eq] at hok
      subst hok
      exact ⟨[], 0, -1, -1, rfl, by decide, Or.inr ⟨by decide, by omega, Or.inl ⟨rfl, rfl⟩⟩⟩
    | some u =>
      simp only [strOK', Bool.and_eq_true, Bool.or_eq_true, decide_eq_true_eq] at hok
      obtain ⟨⟨⟨_hu0, hl0⟩, hlu⟩, hspan⟩ := hok
      dsimp only at h ⊢
      have hbad : ¬ (l < 0 ∨ u < l) := by omega
      simp only [hbad, if_false] at h
      by_cases hin : (len : Int) ≥ l ∧ (len : Int) ≤ u
      · have c1 : (len : Int) ≤ u := hin.2
        have c2 : ¬ (u > 65535 ∧ (len : Int) < l) := by omega
        simp only [c1, c2, if_true, if_false]
        refine ⟨_, _, _, _, rfl, ?_, ?_⟩
        · split <;> omega
        · by_cases hbig : u > 65535
          · simp only [hbig, if_true]
            exact Or.inr ⟨by decide, by omega, Or.inl ⟨trivial, trivial⟩⟩
          · simp only [hbig, if_false]
            by_cases hsr : u - l + 1 = 1
            · exact Or.inl ⟨hsr, by omega, by omega⟩
            · exact Or.inr ⟨hsr, by omega, Or.inr ⟨by omega, by omega, by omega, by omega⟩⟩
      · simp only [hin, if_false] at h
        by_cases hx : ext = true ∧ (len : Int) > u
        · have c1 : ¬ (len : Int) ≤ u := by omega
          simp only [c1, if_false, hx.1, Bool.not_true, Bool.false_eq_true]
          exact ⟨[true], 0, u, -1, rfl, by decide, Or.inr ⟨by decide, by omega, Or.inl ⟨rfl, rfl⟩⟩⟩
        · simp [hx] at h

/-- 17 OCTET STRING: completeness, every length -/
theorem octet_string_total (pos : Nat) (bytes : Bytes) (ext : Bool) (lbP ubP : Option Int) (b : Bits)
    (hok : strOK' lbP ubP = true)
    (h : octetString pos bytes ext lbP ubP = some b) : ∃ b', appendOctetString pos bytes ext lbP ubP = .ok b' := by
  unfold octetString at h
  cases hsc : sizeConstraint bytes.length ext lbP ubP with
  | none => rw [hsc] at h; simp at h
  | some x =>
    obtain ⟨pre, lb, ub, sr, hsp, hlb0, hcase⟩ := sizePreamble_total _ _ _ _ x hok hsc
    unfold appendOctetString
    rw [hsp]
    dsimp only
    rcases hcase with ⟨hsr, hub, hpos⟩ | ⟨hsr, hge, hdom⟩
    · have : ¬ (bytes.length : Int) ≠ ub := by omega
      have hne : ¬ (bytes.length = 0 ∧ (pos + pre.length) % 8 ≠ 0) := by omega
      simp only [hsr, if_true, this, hne, if_false]
      split <;> exact ⟨_, rfl⟩
    · have : ¬ (bytes.length : Int) < lb := by omega
      simp only [hsr, if_false, this]
      rcases hdom with ⟨hsr1, hlb⟩ | ⟨d1, d2, d3, d4⟩
      · subst hsr1 hlb
        simp only [Int.toNat_zero, Nat.sub_zero]
        rw [fragLoop_unc 8 (by decide) (bytes.length / 16384 + 1) _ bytes.length (bytesToBits bytes)
          (by rw [bytesToBits_length]; omega) (Nat.le_refl _)]
        exact ⟨_, rfl⟩
      · rw [fragLoop_small 8 sr lb.toNat _ _ _ _ d4]
        obtain ⟨l, hl⟩ := appendLength_total (pos + pre.length) sr (bytes.length - lb.toNat) (Or.inr ⟨d1, d2, d3⟩)
        rw [hl]
        dsimp only
        by_cases h0 : bytes.length - lb.toNat + lb.toNat = 0
        · simp only [h0, if_true]; exact ⟨_, rfl⟩
        · simp only [h0, if_false]; exact ⟨_, rfl⟩

/-- 16 BIT STRING: completeness, every length (the value's octets hold exactly the bits) -/
theorem bit_string_total (pos : Nat) (bytes : Bytes) (len : Nat) (ext : Bool) (lbP ubP : Option Int) (b : Bits)
    (hok : strOK' lbP ubP = true) (hbytes : bytes.length = (len + 7) / 8)
    (h : bitString pos ((bytesToBits bytes).take len) ext lbP ubP = some b) :
    ∃ b', appendBitString pos bytes len ext lbP ubP = .ok b' := by
  have hclen : ((bytesToBits bytes).take len).length = len := by
    rw [List.length_take, bytesToBits_length]; omega
  unfold bitString at h
  rw [hclen] at h
  cases hsc : sizeConstraint len ext lbP ubP with
  | none => rw [hsc] at h; simp at h
  | some x =>
    obtain ⟨pre, lb, ub, sr, hsp, hlb0, hcase⟩ := sizePreamble_total _ _ _ _ x hok hsc
    unfold appendBitString
    have hnp : ¬ bytes.length < (len + 7) / 8 := by omega
    simp only [hnp, if_false]
    rw [hsp]
    dsimp only
    rcases hcase with ⟨hsr, hub, hpos⟩ | ⟨hsr, hge, hdom⟩
    · have : ¬ (len : Int) ≠ ub := by omega
      have hne : ¬ (len = 0 ∧ (pos + pre.length) % 8 ≠ 0) := by omega
      simp only [hsr, if_true, this, hne, if_false]
      split <;> exact ⟨_, rfl⟩
    · have : ¬ (len : Int) < lb := by omega
      simp only [hsr, if_false, this]
      rcases hdom with ⟨hsr1, hlb⟩ | ⟨d1, d2, d3, d4⟩
      · subst hsr1 hlb
        simp only [Int.toNat_zero, Nat.sub_zero]
        rw [fragLoop_unc 1 (by decide) (len / 16384 + 1) _ len ((bytesToBits bytes).take len)
          (by rw [hclen]; omega) (Nat.le_refl _)]
        exact ⟨_, rfl⟩
      · rw [fragLoop_small 1 sr lb.toNat _ _ _ _ d4]
        obtain ⟨l, hl⟩ := appendLength_total (pos + pre.length) sr (len - lb.toNat) (Or.inr ⟨d1, d2, d3⟩)
        rw [hl]
        dsimp only
        by_cases h0 : len - lb.toNat + lb.toNat = 0
        · simp only [h0, if_true]; exact ⟨_, rfl⟩
        · simp only [h0, if_false]; exact ⟨_, rfl⟩

/-! ### what completeness asks of the schema in addition to `specOK` -/

/-- * INTEGER bounds are ordered (with `ub < lb` and an extension marker the library refuses values below `lb`
      that X.691 would code as extension values);
    * at most 65536 root enumerations / CHOICE alternatives (the library's constrained form ends there). -/
def tyParamsOKc : Ty → Params → Bool
  | .int, p => (match p.valueLB, p.valueUB with | some l, some u => decide (l ≤ u) | _, _ => true)
  | .enum, p => (match p.valueUB with | some u => decide (u < 65536) | none => true)
  | .ptr t, p => tyParamsOKc t p
  | .slice t, p => tyParamsOKc t (stripSizeE p)
  | .struct _, p => p.openType || (match p.valueUB with | some u => decide (u < 65536) | none => true)
  | _, _ => true

/-- the component that governs an open type precedes it (`getReferenceFieldValue` only looks at earlier fields) -/
def refsPrecede (fields : List Field) : Bool :=
  fields.zipIdx.all (fun (fd, i) => !fd.params.openType || (fields.take i).any (fun g => g.name == fd.params.refField))

/-- an OPTIONAL component has a Go type that can be nil (the library asks `IsNil` of it, a trap on any other kind) -/
def optsNillable (fields : List Field) : Bool := fields.all (fun fd => !fd.params.optional || nillable fd.ty)

def specOKc (env : Env) : Bool :=
  env.all (fun sd => refsPrecede sd.fields && optsNillable sd.fields && sd.fields.all (fun fd => tyParamsOKc fd.ty fd.params))

theorem tyParamsOKc_refValue (x : Option Int) : ∀ (ty : Ty) (p : Params),
    tyParamsOKc ty { p with refValue := x } = tyParamsOKc ty p := by
  intro ty
  induction ty with
  | ptr t ih => intro p; simp only [tyParamsOKc]; exact ih p
  | slice t ih =>
    intro p
    simp only [tyParamsOKc]
    have := ih (stripSizeE p)
    simp only [stripSizeE] at this ⊢
    rw [this]
  | _ => intro p; rfl

/-- the governing value: completeness -/
theorem governor_total (env : Env) : ∀ (fuel : Nat) (ty : Ty) (v : Val) (x : Int),
    Spec.X691.governor env fuel ty v = some x → refFieldValue env fuel ty v = .ok x := by
  intro fuel
  induction fuel with
  | zero => intro ty v x h; simp [Spec.X691.governor] at h
  | succ fuel ih =>
    intro ty v x h
    cases ty <;> cases v <;> try (simp [Spec.X691.governor] at h; done)
    · simp only [Spec.X691.governor, Option.some.injEq] at h; subst h; rfl
    · rename_i id fs
      simp only [Spec.X691.governor] at h
      simp only [refFieldValue]
      cases hsd : env[id]? with
      | none => rw [hsd] at h; simp at h
      | some sd =>
        rw [hsd] at h
        dsimp only at h ⊢
        cases hf : sd.fields with
        | nil =>
          have hch : Spec.X691.isChoice sd = false := by unfold Spec.X691.isChoice; rw [hf]
          rw [hch, hf] at h
          simp at h
        | cons f0 frest =>
          dsimp only
          have hch : Spec.X691.isChoice sd = (f0.name == "Present") := by
            unfold Spec.X691.isChoice; rw [hf]
          rw [hch] at h
          by_cases hp : (f0.name == "Present") = true
          · simp only [hp, if_true] at h ⊢
            split at h
            · rename_i p tl
              split at h
              · simp at h
              · rename_i hp0
                simp only [hp0, if_false]
                split at h
                · rename_i f v' hf' hv'
                  rw [hf] at hf'
                  have hlt : ¬ p.toNat ≥ (f0 :: frest).length := by
                    intro hge
                    rw [List.getElem?_eq_none hge] at hf'
                    simp at hf'
                  simp only [hlt, if_false]
                  rw [hf', hv']
                  exact ih _ _ _ h
                · simp at h
            · simp at h
          · simp only [hp, if_false, Bool.false_eq_true] at h ⊢
            rw [hf] at h
            split at h
            · rename_i g0 grest w0 wrest hg
              simp only [List.cons.injEq] at hg
              obtain ⟨rfl, rfl⟩ := hg
              exact ih _ _ _ h
            · simp at h

theorem findIdx?_take_of_any {α : Type} (p : α → Bool) : ∀ (l : List α) (i : Nat),
    (l.take i).any p = true → (l.take i).findIdx? p = l.findIdx? p := by
  intro l
  induction l with
  | nil => intro i h; simp at h
  | cons a l ih =>
    intro i h
    cases i with
    | zero => simp at h
    | succ i =>
      rw [List.take_succ_cons] at h ⊢
      rw [List.findIdx?_cons, List.findIdx?_cons]
      by_cases hp : p a = true
      · simp [hp]
      · simp only [hp, if_false, Bool.false_eq_true]
        rw [List.any_cons] at h
        simp only [hp, Bool.false_or] at h
        rw [ih i h]

theorem resolveRef_total (rfv : Ty → Val → Res Int) (gov : Ty → Val → Option Int)
    (hgov : ∀ ty v x, gov ty v = some x → rfv ty v = .ok x)
    (allFields : List Field) (allVals : List Val) (i : Nat) (fd : Field) (fp : Params)
    (hpre : fd.params.openType = true → (allFields.take i).any (fun g => g.name == fd.params.refField) = true)
    (h : specParams gov allFields allVals fd = some fp) :
    resolveRef rfv allFields allVals i fd = .ok fp := by
  unfold specParams at h
  unfold resolveRef
  by_cases ho : fd.params.openType = true
  · simp only [ho, if_true] at h ⊢
    unfold refIndex
    rw [findIdx?_take_of_any _ _ _ (hpre ho)]
    cases hk : allFields.findIdx? (fun g => g.name == fd.params.refField) with
    | none => rw [hk] at h; simp at h
    | some k =>
      rw [hk] at h
      dsimp only at h ⊢
      split at h
      · rename_i rf rv hrf hrv
        rw [hrf, hrv]
        dsimp only
        cases hg : gov rf.ty rv with
        | none => rw [hg] at h; simp at h
        | some x =>
          rw [hg] at h
          simp only [Option.map_some, Option.some.injEq] at h
          rw [hgov _ _ _ hg]
          simp [h]
      · simp at h
  · simp only [ho, if_false, Bool.false_eq_true, Option.some.injEq] at h ⊢
    rw [h]

theorem isNil_of_not_present (v : Val) (h : presentB v = false) : isNil v = true := by
  cases v <;> first | rfl | (simp [presentB] at h)

/-- 19.2/19.3 completeness: where the mandatory components are present the model writes the bitmap -/
theorem optBitmap_total : ∀ (fields : List Field) (fs : List Val), fs.length = fields.length →
    fields.all (fun fd => !fd.params.optional || nillable fd.ty) = true →
    (List.zip fields fs).all (fun (fd, v) => fd.params.optional || (match v with | .nil => false | _ => true)) = true →
    optBitmap fields fs = .ok ((List.zip fields fs).filterMap (fun (fd, v) =>
      if fd.params.optional then some (match v with | .nil => false | _ => true) else none)) := by
  intro fields
  induction fields with
  | nil =>
    intro fs hl _ _
    cases fs with
    | nil => rfl
    | cons v vs => simp at hl
  | cons fd frest ih =>
    intro fs hl hnil hall
    cases fs with
    | nil => simp at hl
    | cons v vs =>
      simp only [List.length_cons, Nat.add_right_cancel_iff] at hl
      simp only [List.zip_cons_cons, List.all_cons, Bool.and_eq_true] at hall
      obtain ⟨h1, h2⟩ := hall
      simp only [List.all_cons, Bool.and_eq_true] at hnil
      obtain ⟨hn1, hn2⟩ := hnil
      simp only [optBitmap, List.zip_cons_cons, List.filterMap_cons]
      rw [ih vs hl hn2 h2]
      by_cases ho : fd.params.optional = true
      · have hnl : nillable fd.ty = true := by simpa [ho] using hn1
        simp only [ho, if_true, hnl, Bool.not_true, Bool.false_eq_true, if_false]
        rw [notNil_eq]
        rfl
      · simp only [ho, if_false, Bool.false_eq_true]
        have hpres : presentB v = true := by
          simp only [ho, Bool.false_or] at h1
          exact h1
        have hn : ¬ isNil v = true := by
          intro hn
          cases v <;> simp [isNil] at hn
          simp [presentB] at hpres
        simp only [hn]
        rfl

/-- 20 completeness: the elements -/
theorem elements_total (f : Nat → Val → Res Bits) (enc : Nat → Val → Option Bits) :
    ∀ (vs : List Val) (pos : Nat) (b : Bits),
      (∀ v ∈ vs, ∀ pos b, enc pos v = some b → f pos v = .ok b) →
      Spec.X691.elements enc pos vs = some b → encElems f pos vs = .ok b := by
  intro vs
  induction vs with
  | nil => intro pos b _ h; simp only [Spec.X691.elements, Option.some.injEq] at h; simp [encElems, h]
  | cons v vs ih =>
    intro pos b H h
    simp only [Spec.X691.elements] at h
    simp only [encElems]
    cases ha : enc pos v with
    | none => rw [ha] at h; simp at h
    | some a =>
      rw [ha] at h
      dsimp only at h
      rw [H v List.mem_cons_self pos a ha]
      dsimp only
      cases hb : Spec.X691.elements enc (pos + a.length) vs with
      | none => rw [hb] at h; simp at h
      | some b' =>
        rw [hb] at h
        simp only [Option.some.injEq] at h
        rw [ih (pos + a.length) b' (fun v hv => H v (List.mem_cons_of_mem _ hv)) hb]
        simp [h]

/-- 19.5 completeness: the components of a SEQUENCE -/
theorem components_total (env : Env) (fuel : Nat)
    (f : Nat → Ty → Params → Val → Res Bits) (enc : Nat → Ty → Params → Val → Option Bits)
    (rfv : Ty → Val → Res Int) (gov : Ty → Val → Option Int)
    (hgov : ∀ ty v x, gov ty v = some x → rfv ty v = .ok x)
    (H : ∀ pos ty p v b, tyParamsOK env ty p = true → tyParamsOKc ty p = true →
      regular env fuel ty p.openType v = true → enc pos ty p v = some b → f pos ty p v = .ok b)
    (allFields : List Field) (allVals : List Val) :
    ∀ (fields : List Field) (vals : List Val) (i pos : Nat) (b : Bits),
      (∀ fd ∈ fields, tyParamsOK env fd.ty fd.params = true ∧ tyParamsOKc fd.ty fd.params = true) →
      regularFields env fuel fields vals = true →
      (∀ j fd, fields[j]? = some fd → fd.params.openType = true →
        (allFields.take (i + j)).any (fun g => g.name == fd.params.refField) = true) →
      Spec.X691.components enc gov allFields allVals pos fields vals = some b →
      encSeqFields f rfv allFields allVals i pos fields vals = .ok b := by
  intro fields
  induction fields with
  | nil =>
    intro vals i pos b _ _ _ h
    cases vals with
    | nil => simp only [Spec.X691.components, Option.some.injEq] at h; simp [encSeqFields, h]
    | cons v vs => simp [Spec.X691.components] at h
  | cons fd frest ih =>
    intro vals i pos b hok hreg hpre h
    cases vals with
    | nil => simp [Spec.X691.components] at h
    | cons v vrest =>
      simp only [regularFields, List.zip_cons_cons, List.all_cons, Bool.and_eq_true] at hreg
      obtain ⟨hreg1, hreg2⟩ := hreg
      have hpre' : ∀ j fd', frest[j]? = some fd' → fd'.params.openType = true →
          (allFields.take (i + 1 + j)).any (fun g => g.name == fd'.params.refField) = true := by
        intro j fd' hj ho
        have := hpre (j + 1) fd' (by simpa using hj) ho
        have e : i + (j + 1) = i + 1 + j := by omega
        rw [e] at this; exact this
      simp only [encSeqFields]
      by_cases hskip : fd.params.optional = true ∧ isNil v = true
      · simp only [hskip, and_self, if_true]
        have hv : v = .nil := by
          cases v <;> simp [isNil] at hskip
          rfl
        subst hv
        simp only [Spec.X691.components] at h
        rw [hskip.1] at h
        exact ih vrest (i + 1) pos b (fun fd' hfd => hok fd' (List.mem_cons_of_mem _ hfd)) hreg2 hpre' h
      · simp only [hskip, if_false]
        have hreg1' : regular env fuel fd.ty fd.params.openType v = true := by
          rcases Bool.or_eq_true _ _ |>.mp hreg1 with h1 | h1
          · exfalso
            simp only [Bool.and_eq_true] at h1
            apply hskip
            refine ⟨h1.1, ?_⟩
            cases v <;> simp_all [isNilV, isNil]
          · exact h1
        rw [components_cons _ _ _ _ _ _ _ _ _ hskip] at h
        cases hsp : specParams gov allFields allVals fd with
        | none => rw [hsp] at h; simp at h
        | some fp =>
          rw [hsp] at h
          dsimp only at h
          have hres := resolveRef_total rfv gov hgov allFields allVals i fd fp
            (fun ho => by have := hpre 0 fd (by simp) ho; simpa using this) hsp
          rw [hres]
          dsimp only
          have hfp := resolveRef_params _ _ _ _ _ _ hres
          obtain ⟨hok1, hok2⟩ := hok fd List.mem_cons_self
          have hfpok : tyParamsOK env fd.ty fp = true ∧ tyParamsOKc fd.ty fp = true := by
            rcases hfp with rfl | ⟨x, rfl⟩
            · exact ⟨hok1, hok2⟩
            · rw [tyParamsOK_refValue, tyParamsOKc_refValue]; exact ⟨hok1, hok2⟩
          have hfpot : fp.openType = fd.params.openType := by
            rcases hfp with rfl | ⟨x, rfl⟩ <;> rfl
          cases ha : enc pos fd.ty fp v with
          | none => rw [ha] at h; simp at h
          | some a =>
            rw [ha] at h
            dsimp only at h
            rw [H pos fd.ty fp v a hfpok.1 hfpok.2 (by rw [hfpot]; exact hreg1') ha]
            dsimp only
            cases hb : Spec.X691.components enc gov allFields allVals (pos + a.length) frest vrest with
            | none => rw [hb] at h; simp at h
            | some b' =>
              rw [hb] at h
              simp only [Option.some.injEq] at h
              rw [ih vrest (i + 1) (pos + a.length) b' (fun fd' hfd => hok fd' (List.mem_cons_of_mem _ hfd)) hreg2 hpre' hb]
              simp [h]

theorem lengthDeterminant_unc_lt (pos n lb : Nat) (ub : Option Nat) (c : Bits) (hub : ∀ u, ub = some u → 65536 ≤ u)
    (h : lengthDeterminant pos n lb ub = some c) : n < 16384 := by
  unfold lengthDeterminant at h
  cases ub with
  | none =>
    dsimp only at h
    split at h
    · omega
    · split at h
      · assumption
      · simp at h
  | some u =>
    have := hub u rfl
    have hu : ¬ u < 65536 := by omega
    simp only [hu, if_false] at h
    split at h
    · omega
    · split at h
      · assumption
      · simp at h

theorem sliceCount_unc_total (pos1 n : Nat) (lb ub : Int) (hn : n < 16384) (hl : ¬ (n : Int) < lb) :
    ∃ cb, sliceCountBits pos1 n lb ub (-1) = .ok cb := by
  unfold sliceCountBits
  have c2 : ¬ ((-1 : Int) = 1) := by decide
  have c3 : ¬ ((-1 : Int) > 0) := by decide
  have c4 : ¬ n ≥ 16384 := by omega
  simp only [hl, c2, c3, c4, if_false]
  rw [length_unc pos1 (-1) n hn (by omega)]
  exact ⟨_, rfl⟩

/-- 20.5/20.6 completeness: extension bit and count of a SEQUENCE OF -/
theorem sliceHeader_total (params : Params) (n pos : Nat) (pre : Bits) (lbS : Nat) (ubS : Option Nat) (c : Bits)
    (hok : sliceOK params = true)
    (hsc : sizeConstraint n params.sizeExt params.sizeLB params.sizeUB = some (pre, lbS, ubS))
    (hcnt : (if ubS = some lbS ∧ lbS < 65536 then some [] else lengthDeterminant (pos + pre.length) n lbS ubS) = some c) :
    ∃ lb ub sr cb, sliceHeader params n = .ok (pre, lb, ub, sr) ∧ sliceCountBits (pos + pre.length) n lb ub sr = .ok cb := by
  unfold sizeConstraint at hsc
  unfold sliceHeader
  unfold sliceOK at hok
  cases hlb : params.sizeLB with
  | none =>
    rw [hlb] at hsc hok
    cases hub : params.sizeUB with
    | some u => rw [hub] at hok; simp at hok
    | none =>
      simp only [Option.some.injEq, Prod.mk.injEq] at hsc
      obtain ⟨rfl, rfl, rfl⟩ := hsc
      simp only [reduceCtorEq, false_and, if_false] at hcnt
      have hn := lengthDeterminant_unc_lt _ _ _ _ _ (by simp) hcnt
      obtain ⟨cb, hcb⟩ := sliceCount_unc_total (pos + ([] : Bits).length) n 0 (-1) hn (by omega)
      exact ⟨0, -1, -1, cb, rfl, hcb⟩
  | some l =>
    rw [hlb] at hsc hok
    cases hub : params.sizeUB with
    | none =>
      rw [hub] at hsc hok
      simp only [Bool.and_eq_true, decide_eq_true_eq] at hok
      obtain ⟨hl0, hl64⟩ := hok
      dsimp only at hsc
      split at hsc
      · simp at hsc
      · rename_i hnl
        simp only [Option.some.injEq, Prod.mk.injEq] at hsc
        obtain ⟨rfl, rfl, rfl⟩ := hsc
        simp only [reduceCtorEq, false_and, if_false] at hcnt
        have hn := lengthDeterminant_unc_lt _ _ _ _ _ (by simp) hcnt
        obtain ⟨cb, hcb⟩ := sliceCount_unc_total (pos + ([] : Bits).length) n l (-1) hn (by omega)
        simp only [hl64, if_true]
        exact ⟨l, -1, -1, cb, rfl, hcb⟩
    | some u =>
      rw [hub] at hsc hok
      simp only [Bool.and_eq_true, Bool.or_eq_true, decide_eq_true_eq, Bool.not_eq_true'] at hok
      obtain ⟨⟨⟨hl0, hlu⟩, hl64⟩, hu64⟩ := hok
      simp only [hl64, if_true]
      dsimp only at hsc
      have g0 : ¬ (l < 0 ∨ u < l) := by omega
      simp only [g0, if_false] at hsc
      by_cases hin : (n : Int) ≥ l ∧ (n : Int) ≤ u
      · simp only [hin, and_self, if_true, Option.some.injEq, Prod.mk.injEq] at hsc
        obtain ⟨rfl, rfl, rfl⟩ := hsc
        have hnu : ¬ (n : Int) > u := by omega
        by_cases hu : u < 65536
        · simp only [hu, if_true, hnu, if_false]
          have hhdr : (if params.sizeExt = true then (Except.ok ([false], l, u, u - l + 1) : Res (Bits × Int × Int × Int))
              else Except.ok ([], l, u, u - l + 1)) = .ok (if params.sizeExt = true then [false] else [], l, u, u - l + 1) := by
            cases params.sizeExt <;> rfl
          rw [hhdr]
          refine ⟨l, u, u - l + 1, ?_⟩
          unfold sliceCountBits
          have c1 : ¬ (n : Int) < l := by omega
          simp only [c1, if_false]
          by_cases hsr : u - l + 1 = 1
          · have : ¬ (n : Int) ≠ u := by omega
            simp only [hsr, if_true, this, if_false]
            exact ⟨_, trivial, rfl⟩
          · have hp : u - l + 1 > 0 := by omega
            simp only [hsr, if_false, hp, if_true]
            obtain ⟨cb, hcb, _⟩ := constrained_eq (pos + (if params.sizeExt = true then [false] else [] : Bits).length)
              (u - l + 1) ((n : Int) - l).toNat (by omega) (by omega) (by omega)
            exact ⟨cb, trivial, hcb⟩
        · have hne : params.sizeExt = false := by
            rcases hu64 with h | h
            · omega
            · exact h
          simp only [hu, if_false]
          rw [hne] at hcnt ⊢
          have hnf : ¬ (some u.toNat = some l.toNat ∧ l.toNat < 65536) := by
            intro ⟨h1, _⟩
            simp only [Option.some.injEq] at h1
            omega
          simp only [hnf, if_false] at hcnt
          have hn := lengthDeterminant_unc_lt _ _ _ _ _
            (by intro u' hu'; simp only [Option.some.injEq] at hu'; omega) hcnt
          obtain ⟨cb, hcb⟩ := sliceCount_unc_total (pos + ([] : Bits).length) n l (-1) hn (by omega)
          exact ⟨l, -1, -1, cb, rfl, hcb⟩
      · simp only [hin, if_false] at hsc
        by_cases hx : params.sizeExt = true ∧ (n : Int) > u
        · simp only [hx, and_self, if_true, Option.some.injEq, Prod.mk.injEq] at hsc
          obtain ⟨rfl, rfl, rfl⟩ := hsc
          simp only [reduceCtorEq, false_and, if_false] at hcnt
          have hn := lengthDeterminant_unc_lt _ _ _ _ _ (by simp) hcnt
          have hu : u < 65536 := by omega
          simp only [hu, if_true, hx.1, hx.2]
          obtain ⟨cb, hcb⟩ := sliceCount_unc_total (pos + ([true] : Bits).length) n l u hn (by omega)
          exact ⟨l, u, -1, cb, rfl, hcb⟩
        · simp [hx] at hsc

/-- 11.2 completeness: the content is always wrapped -/
theorem openType_total (pos1 : Nat) (inner : Bits) : ∃ b, encOpenType pos1 inner = .ok b := by
  unfold encOpenType
  dsimp only
  have hpl : (inner ++ alignBits inner.length).length = 8 * ((inner.length + 7) / 8) := by
    rw [List.length_append]; exact padded_length _
  rw [fragLoop_unc 8 (by decide) ((inner.length + 7) / 8 / 16384 + 1) pos1 ((inner.length + 7) / 8)
    (inner ++ alignBits inner.length) (by rw [hpl]; omega) (Nat.le_refl _)]
  exact ⟨_, rfl⟩

theorem refsPrecede_get (fields : List Field) (h : refsPrecede fields = true) (j : Nat) (fd : Field)
    (hj : fields[j]? = some fd) (ho : fd.params.openType = true) :
    (fields.take j).any (fun g => g.name == fd.params.refField) = true := by
  unfold refsPrecede at h
  rw [List.all_eq_true] at h
  have hm : (fd, j) ∈ fields.zipIdx := by
    rw [List.mk_mem_zipIdx_iff_getElem?]; exact hj
  have := h (fd, j) hm
  simpa [ho] using this

/-- 19 SEQUENCE body: completeness -/
theorem specSeq_total (env : Env) (fuel : Nat)
    (f : Nat → Ty → Params → Val → Res Bits) (enc : Nat → Ty → Params → Val → Option Bits)
    (rfv : Ty → Val → Res Int) (gov : Ty → Val → Option Int)
    (hgov : ∀ ty v x, gov ty v = some x → rfv ty v = .ok x)
    (H : ∀ pos ty p v b, tyParamsOK env ty p = true → tyParamsOKc ty p = true →
      regular env fuel ty p.openType v = true → enc pos ty p v = some b → f pos ty p v = .ok b)
    (sd : StructDef) (pre : Bits) (pos1 : Nat) (fs : List Val) (out : Bits)
    (hok : ∀ fd ∈ sd.fields, tyParamsOK env fd.ty fd.params = true ∧ tyParamsOKc fd.ty fd.params = true)
    (hpre : refsPrecede sd.fields = true)
    (hnil : sd.fields.all (fun fd => !fd.params.optional || nillable fd.ty) = true)
    (hreg : regularFields env fuel sd.fields fs = true)
    (h : specSeq enc gov sd pre pos1 fs = some out) : ∃ body, encSeq f rfv sd pos1 fs = .ok body := by
  unfold specSeq at h
  split at h
  · simp at h
  · rename_i hl
    have hl' : fs.length = sd.fields.length := by omega
    split at h
    · simp at h
    · rename_i hall
      have hall' := Classical.not_not.mp hall
      dsimp only at h
      have hbm0 := optBitmap_total sd.fields fs hl' hnil hall'
      generalize hbmv : (List.filterMap (fun (x : Field × Val) =>
        match x with
        | (fd, v) => if fd.params.optional then some (match v with | .nil => false | _ => true) else none)
        (sd.fields.zip fs)) = bm at hbm0
      obtain ⟨_, h2⟩ := optBitmap_fwd sd.fields fs bm hl' hbm0
      rw [h2] at h
      unfold encSeq
      have c1 : ¬ fs.length ≠ sd.fields.length := by omega
      simp only [c1, if_false]
      rw [hbm0]
      dsimp only
      split at h
      · simp at h
      · rename_i body hcomp
        have := components_total env fuel f enc rfv gov hgov H sd.fields fs sd.fields fs 0 _ body hok hreg
          (fun j fd hj ho => by
            have := refsPrecede_get sd.fields hpre j fd hj ho
            simpa using this) hcomp
        rw [this]
        exact ⟨_, rfl⟩

/-- what completeness asks of a CHOICE type used with `params` -/
def choiceOKc (p : Params) : Bool :=
  p.openType || (match p.valueUB with | some u => decide (u < 65536) | none => true)

/-- 23 CHOICE and 11.2 open type: completeness -/
theorem specChoice_total (env : Env) (fuel : Nat)
    (H : ∀ pos ty p v b, tyParamsOK env ty p = true → tyParamsOKc ty p = true →
      regular env fuel ty p.openType v = true →
      Spec.X691.encode env fuel pos ty p v = some b → encField env fuel pos ty p v = .ok b)
    (sd : StructDef) (params : Params) (pre : Bits) (pos1 : Nat) (fs : List Val) (out : Bits)
    (hfields : ∀ fd ∈ sd.fields, tyParamsOK env fd.ty fd.params = true ∧ tyParamsOKc fd.ty fd.params = true)
    (hok : choiceOK env sd params = true) (hokc : choiceOKc params = true)
    (hreg : regChoice env fuel sd fs = true)
    (h : specChoice (Spec.X691.encode env fuel) sd params pre pos1 fs = some out) :
    ∃ body, encChoice (encField env fuel) sd params pos1 fs = .ok body := by
  unfold specChoice at h
  split at h
  · rename_i p alts
    dsimp only at h
    split at h
    · simp at h
    · rename_i hp
      split at h
      · simp at h
      · split at h
        · rename_i fd alt hfd halt
          simp only [regChoice, hfd, halt, Bool.and_eq_true] at hreg
          obtain ⟨_, hregalt⟩ := hreg
          have hfdmem : fd ∈ sd.fields := List.mem_of_getElem? hfd
          obtain ⟨hfdok, hfdokc⟩ := hfields fd hfdmem
          have hlen : p.toNat < sd.fields.length := by
            have := List.getElem?_eq_some_iff.mp hfd
            exact this.1
          unfold encChoice
          have c1 : ¬ p ≤ 0 := by omega
          have c2 : ¬ p.toNat ≥ sd.fields.length := by omega
          simp only [c1, c2, if_false, hfd, halt]
          by_cases hot : params.openType = true
          · simp only [hot, if_true] at h ⊢
            split at h
            · simp at h
            · rename_i hrv
              have hrv1 : fd.params.refValue.isNone = false ∧ fd.params.refValue = params.refValue := by
                constructor
                · cases hc : fd.params.refValue.isNone
                  · rfl
                  · exact absurd (Or.inl hc) hrv
                · false_or_by_contra
                  rename_i hc
                  exact hrv (Or.inr hc)
              cases hpr : params.refValue with
              | none =>
                rw [hpr] at hrv1
                rw [hrv1.2] at hrv1
                simp at hrv1
              | some rv =>
                dsimp only
                have c3 : ¬ (fd.params.refValue ≠ some rv) := by rw [hrv1.2, hpr]; simp
                simp only [c3, if_false]
                split at h
                · simp at h
                · rename_i inner hin
                  have hin' := H 0 fd.ty fd.params alt inner hfdok hfdokc hregalt hin
                  rw [hin']
                  dsimp only
                  exact openType_total pos1 inner
          · simp only [hot, if_false, Bool.false_eq_true] at h ⊢
            simp only [choiceOK, hot, if_false, Bool.false_eq_true] at hok
            simp only [choiceOKc, hot, Bool.false_or] at hokc
            split at h
            · rename_i ub hub
              rw [hub] at hok hokc
              simp only [Bool.and_eq_true, beq_iff_eq, decide_eq_true_eq] at hok hokc
              obtain ⟨hub1, hlen3⟩ := hok
              split at h
              · simp at h
              · split at h
                · simp at h
                · rename_i ib hib
                  obtain ⟨ib', hib'⟩ := choice_index_total pos1 p.toNat (sd.fields.length - 1) params.valueExt ub hub1
                    (by omega) (by omega) (by omega) (by omega)
                  have := choice_index_fwd pos1 p.toNat (sd.fields.length - 1) params.valueExt ub ib' hub1
                    (by omega) (by omega) (by omega) hib'
                  rw [hib] at this
                  simp only [Option.some.injEq] at this
                  subst this
                  rw [hub, hib']
                  dsimp only
                  split at h
                  · simp at h
                  · rename_i ab hab
                    rw [H _ fd.ty fd.params alt ab hfdok hfdokc hregalt hab]
                    exact ⟨_, rfl⟩
            · simp at h
        · simp at h
  · simp at h

theorem specOKc_field (env : Env) (hwf : specOKc env = true) (id : Nat) (sd : StructDef) (hsd : env[id]? = some sd) :
    refsPrecede sd.fields = true ∧ optsNillable sd.fields = true ∧ ∀ fd ∈ sd.fields, tyParamsOKc fd.ty fd.params = true := by
  unfold specOKc at hwf
  rw [List.all_eq_true] at hwf
  have := hwf sd (List.mem_of_getElem? hsd)
  rw [Bool.and_eq_true, Bool.and_eq_true, List.all_eq_true] at this
  exact ⟨this.1.1, this.1.2, this.2⟩

/-- **Completeness**: the encoder model encodes (with the same bits) every regular value the specification encodes -/
theorem encode_complete (env : Env) (hwf : specOK env = true) (hwfc : specOKc env = true) :
    ∀ (fuel pos : Nat) (ty : Ty) (params : Params) (v : Val) (bits : Bits),
      tyParamsOK env ty params = true → tyParamsOKc ty params = true →
      regular env fuel ty params.openType v = true →
      Spec.X691.encode env fuel pos ty params v = some bits → encField env fuel pos ty params v = .ok bits := by
  intro fuel
  induction fuel with
  | zero => intro pos ty params v bits _ _ _ h; simp [Spec.X691.encode] at h
  | succ fuel ih =>
    intro pos ty params v bits hok hokc hreg h
    -- it is enough to show that the model does not fail: the bits are then the specification's (`encode_eq_spec`)
    suffices hex : ∃ b', encField env (fuel + 1) pos ty params v = .ok b' by
      obtain ⟨b', hb'⟩ := hex
      have := encode_eq_spec env hwf (fuel + 1) pos ty params v b' hok hreg hb'
      rw [h] at this
      simp only [Option.some.injEq] at this
      rw [hb', this]
    cases ty <;> cases v <;> try (simp [Spec.X691.encode] at h; done)
    · -- INTEGER
      rename_i n
      simp only [Spec.X691.encode] at h
      simp only [encField]
      simp only [regular, Bool.and_eq_true, decide_eq_true_eq] at hreg
      refine integer_total pos n _ _ _ bits hok ?_ hreg.1 hreg.2 h
      intro l u hl hu
      simp only [tyParamsOKc, hl, hu, decide_eq_true_eq] at hokc
      exact hokc
    · -- ENUMERATED
      rename_i n
      simp only [Spec.X691.encode] at h
      simp only [encField]
      refine enumerated_total pos n _ _ _ bits ?_ h
      intro u hu
      simp only [tyParamsOKc, hu, decide_eq_true_eq] at hokc
      exact hokc
    · -- BIT STRING
      rename_i bytes len
      simp only [Spec.X691.encode] at h
      simp only [encField]
      simp only [regular, decide_eq_true_eq] at hreg
      have : ¬ bytes.length ≠ (len + 7) / 8 := by omega
      simp only [this, if_false] at h
      exact bit_string_total pos bytes len _ _ _ bits hok hreg h
    · -- OCTET STRING
      rename_i b
      simp only [Spec.X691.encode] at h
      simp only [encField]
      exact octet_string_total pos b _ _ _ bits hok h
    · -- PrintableString
      rename_i b
      simp only [Spec.X691.encode] at h
      simp only [encField]
      exact octet_string_total pos b _ _ _ bits hok h
    · -- BOOLEAN
      simp only [encField]
      exact ⟨_, rfl⟩
    · -- SEQUENCE / CHOICE / open type
      rename_i id fs
      simp only [encField]
      cases hsd : env[id]? with
      | none => simp [Spec.X691.encode, hsd] at h
      | some sd =>
        dsimp only
        rw [encode_struct env fuel pos id params fs sd hsd] at h
        rw [regular_struct env fuel id _ fs sd hsd] at hreg
        simp only [tyParamsOK] at hok
        rw [structOK_eq env id params sd hsd] at hok
        have hfields := specOK_field env hwf id sd hsd
        obtain ⟨hprec, hnilf, hfieldsc⟩ := specOKc_field env hwfc id sd hsd
        have hboth : ∀ fd ∈ sd.fields, tyParamsOK env fd.ty fd.params = true ∧ tyParamsOKc fd.ty fd.params = true :=
          fun fd hfd => ⟨hfields fd hfd, hfieldsc fd hfd⟩
        by_cases hch : isChoice sd = true
        · simp only [hch, if_true, Bool.not_true, Bool.false_eq_true, if_false] at h hreg hok ⊢
          obtain ⟨body, hb⟩ := specChoice_total env fuel ih sd params _ _ fs bits hboth hok
            (by simpa [tyParamsOKc, choiceOKc] using hokc) hreg h
          rw [hb]
          exact ⟨_, rfl⟩
        · simp only [hch, if_false, Bool.not_false, if_true, Bool.false_eq_true] at h hreg hok ⊢
          obtain ⟨body, hb⟩ := specSeq_total env fuel (encField env fuel) (Spec.X691.encode env fuel) (refFieldValue env fuel)
            (Spec.X691.governor env fuel) (governor_total env fuel) ih sd _ _ fs bits hboth hprec hnilf hreg h
          rw [hb]
          exact ⟨_, rfl⟩
    · -- pointer
      rename_i t v'
      simp only [Spec.X691.encode] at h
      simp only [encField]
      simp only [tyParamsOK] at hok
      simp only [tyParamsOKc] at hokc
      simp only [regular] at hreg
      exact ⟨bits, ih pos t params v' bits hok hokc hreg h⟩
    · -- SEQUENCE OF
      rename_i t vs
      rw [encode_slice] at h
      simp only [encField]
      simp only [tyParamsOK, Bool.and_eq_true] at hok
      simp only [tyParamsOKc] at hokc
      simp only [regular, List.all_eq_true] at hreg
      cases hsc : sizeConstraint vs.length params.sizeExt params.sizeLB params.sizeUB with
      | none => rw [hsc] at h; simp at h
      | some x =>
        obtain ⟨pre, lbS, ubS⟩ := x
        rw [hsc] at h
        dsimp only at h
        cases hcnt : (if ubS = some lbS ∧ lbS < 65536 then some [] else lengthDeterminant (pos + pre.length) vs.length lbS ubS : Option Bits) with
        | none => rw [hcnt] at h; simp at h
        | some c =>
          rw [hcnt] at h
          dsimp only at h
          cases hel : Spec.X691.elements (fun p e => Spec.X691.encode env fuel p t (stripSizeE params) e)
              (pos + pre.length + c.length) vs with
          | none => rw [hel] at h; simp at h
          | some es =>
            obtain ⟨lb, ub, sr, cb, hh, hc⟩ := sliceHeader_total params vs.length pos pre lbS ubS c hok.1 hsc hcnt
            obtain ⟨lbS', ubS', hsc', hcnt'⟩ := sliceHeader_fwd params vs.length (pos + pre.length) pre lb ub sr cb hok.1 hh hc
            rw [hsc] at hsc'
            simp only [Option.some.injEq, Prod.mk.injEq, true_and] at hsc'
            obtain ⟨rfl, rfl⟩ := hsc'
            rw [hcnt] at hcnt'
            simp only [Option.some.injEq] at hcnt'
            subst hcnt'
            unfold encSlice
            rw [hh]
            dsimp only
            rw [hc]
            dsimp only
            have := elements_total (fun p v => encField env fuel p t (stripSizeE params) v)
              (fun p e => Spec.X691.encode env fuel p t (stripSizeE params) e) vs (pos + pre.length + c.length) es
              (fun v hv pos' b' hb' => ih pos' t (stripSizeE params) v b' hok.2 hokc (hreg v hv) hb') hel
            rw [this]
            exact ⟨_, rfl⟩

/-- the model and the specification agree exactly: same domain, same bits -/
theorem encode_iff (env : Env) (hwf : specOK env = true) (hwfc : specOKc env = true) (fuel pos : Nat) (ty : Ty)
    (params : Params) (v : Val) (bits : Bits)
    (hp : tyParamsOK env ty params = true) (hpc : tyParamsOKc ty params = true)
    (hr : regular env fuel ty params.openType v = true) :
    encField env fuel pos ty params v = .ok bits ↔ Spec.X691.encode env fuel pos ty params v = some bits :=
  ⟨encode_eq_spec env hwf fuel pos ty params v bits hp hr,
   encode_complete env hwf hwfc fuel pos ty params v bits hp hpc hr⟩

/-- the same at the level of `aper.MarshalWithParams` / a complete encoding (11.1) -/
theorem marshal_iff (env : Env) (hwf : specOK env = true) (hwfc : specOKc env = true) (fuel : Nat) (ty : Ty)
    (params : Params) (v : Val) (bs : Bytes)
    (hp : tyParamsOK env ty params = true) (hpc : tyParamsOKc ty params = true)
    (hr : regular env fuel ty params.openType v = true) :
    marshal env fuel ty params v = .ok bs ↔ Spec.X691.encodePdu env fuel ty params v = some bs := by
  constructor
  · exact marshal_eq_spec env hwf fuel ty params v bs hp hr
  · intro h
    unfold Spec.X691.encodePdu at h
    unfold marshal
    cases he : Spec.X691.encode env fuel 0 ty params v with
    | none => rw [he] at h; simp at h
    | some bits =>
      rw [he] at h
      dsimp only at h
      rw [encode_complete env hwf hwfc fuel 0 ty params v bits hp hpc hr he]
      dsimp only
      split at h <;> rename_i hc
      · simp only [Option.some.injEq] at h; simp [hc, h]
      · simp only [Option.some.injEq] at h; simp [hc, h]

end Stgutg.Proofs.AperSpec
