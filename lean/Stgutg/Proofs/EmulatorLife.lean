/-
  C02 helper: symbolic execution of the emulator model's procedures after registration (Model/Emulator.lean: `establishPDU`,
  `serviceRequest`, `releasePDU`, `deregisterUE`) — which uplink messages they write, given what they read and what their
  library calls return.
-/
import Stgutg.Proofs.EmulatorRun

namespace Stgutg.Proofs.EmulatorLife
open Stgutg Stgutg.Model.Emulator Stgutg.Builders Stgutg.Proofs.Emulator Stgutg.Proofs.EmulatorRun

/-- `PlainNasDecode` then `PlainNasEncode` reproduce these octets (what `EncodeNasPduWithSecurity` does first; C08) -/
def Reenc (pdu : Bytes) : Prop := ∃ pm, Nas.plainDecode nasCodec pdu = .ok pm ∧ Nas.plainEncode nasCodec pm = .ok pdu

theorem protect_reenc (P : Prims) (ue : Ue) (pdu : Bytes) (h : Reenc pdu) (o : Bytes)
    (ho : (Model.NasProtect.encodeNasPduWithSecurity P ue.sec pdu 2 true false).2 = .ok o) (w : World) :
    protect P ue pdu 2 false w =
      (w, .ok ({ ue with sec := (Model.NasProtect.encodeNasPduWithSecurity P ue.sec pdu 2 true false).1 }, o)) := by
  obtain ⟨pm, hd, he⟩ := h
  exact protect_ok P ue pdu 2 false pm hd he o ho w

private theorem pb {α β : Type} (a : α) (f : α → M β) (w : World) : (pure a >>= f) w = f a w := rfl

theorem lift_bind_apply {α β : Type} (x : Except Stop α) (f : α → M β) (w0 : World) :
    (((fun w => (w, x)) : M α) >>= f) w0 = match x with
      | .ok a => f a w0
      | .error e => (w0, .error e) := by cases x <;> rfl

/-- decidable form of `Reenc` for a constructor's result -/
def reencOK (r : Res Bytes) : Bool :=
  match r with
  | .ok p => (match Nas.plainDecode nasCodec p with
    | .ok pm => Nas.plainEncode nasCodec pm == .ok p
    | .error _ => false)
  | .error _ => false

theorem reencOK_elim (r : Res Bytes) (h : reencOK r = true) (p : Bytes) (hp : r = .ok p) : Reenc p := by
  subst hp
  unfold reencOK at h
  simp only at h
  cases hd : Nas.plainDecode nasCodec p with
  | error e => rw [hd] at h; cases h
  | ok pm => rw [hd] at h; exact ⟨pm, hd, by simpa using h⟩

set_option maxRecDepth 1000000 in
/-- table fact (C08 on constants): the SERVICE REQUEST of `ServiceRequest` survives `PlainNasDecode` / `PlainNasEncode` -/
theorem reenc_serviceRequest :
    reencOK (Nas.Ctor.encodeWith Gen.Nas.layout_ServiceRequest (Nas.Ctor.serviceRequest 1)) = true := by decide +kernel

set_option maxRecDepth 1000000 in
/-- table fact: so does the UL NAS TRANSPORT with the PDU SESSION RELEASE REQUEST, for every assignable PDU session identity -/
theorem reenc_releaseRequest : ∀ psi < 16,
    reencOK (Nas.Ctor.encodeWith Gen.Nas.layout_ULNASTransport (Nas.Ctor.ulReleaseRequest (UInt8.ofNat psi))) = true := by
  decide +kernel

/-- **`EstablishPDU`** writes the UL NAS TRANSPORT with the establishment request and the PDU SESSION RESOURCE SETUP
    RESPONSE, reads one downlink message, reports what it extracted from it, and leaves the security state one COUNT on -/
theorem establishPDU_run (P : Prims) (E : Model.Convert.Ext) (cfg : Cfg) (ue : Ue) (w : World) (n : Int) (e : Bool)
    (sn : Nas.Ctor.Snssai) (pdu o b1 b2 d : Bytes) (rest : List Bytes) (msg : Aper.Val) (rep : Report)
    (hsupi : supiInt ue.ctx.supi = some (n, e)) (hsn : snssaiOf E cfg = some sn)
    (henc : Nas.Ctor.encodeWith Gen.Nas.layout_ULNASTransport
      (Nas.Ctor.ulEstablishment (psi8 (pduIdOf n)) 1 internet (some sn)) = .ok pdu)
    (hre : Reenc pdu) (ho : (Model.NasProtect.encodeNasPduWithSecurity P ue.sec pdu 2 true false).2 = .ok o)
    (hrun1 : Wrapper.run E .GetUplinkNASTransport w.plmn [.int ue.amfUeNgapId, .int ue.ctx.ranUeNgapId, .octs o] = .ok (.ok b1))
    (hdls : w.dls = d :: rest) (hdec : ngapDecode (d.take 2048) = .ok msg) (hrep : extractReport msg = .ok rep)
    (hrun2 : Wrapper.run E .GetPDUSessionResourceSetupResponse w.plmn
      [.int ue.amfUeNgapId, .int ue.ctx.ranUeNgapId, .int (pduIdOf n), .str cfg.gnbGtp] = .ok (.ok b2)) :
    establishPDU P E cfg ue w =
      ({ w with dls := rest, ulsRev := b2 :: b1 :: w.ulsRev, reportsRev := rep :: w.reportsRev },
        .ok (Model.NasProtect.encodeNasPduWithSecurity P ue.sec pdu 2 true false).1) := by
  unfold establishPDU
  simp only [bind_apply, hsupi, hsn, pure_apply, ctor_ok _ _ _ henc]
  rw [protect_reenc P ue pdu hre o ho]
  simp only
  rw [wrapperChecked_ok E _ _ w b1 hrun1]
  simp only [write_apply, Model.Emulator.read, hdls, hdec, checked, pure_apply]
  rw [lift_bind_apply, hrep]
  simp only [bind_apply]
  rw [wrapperChecked_ok E _ _ { dls := rest, ulsRev := b1 :: w.ulsRev, plmn := w.plmn, reportsRev := w.reportsRev } b2 hrun2]
  rfl

/-- **`ServiceRequest`** writes the INITIAL UE MESSAGE with the protected SERVICE REQUEST and the INITIAL CONTEXT SETUP
    RESPONSE, and reads one downlink message -/
theorem serviceRequest_run (P : Prims) (E : Model.Convert.Ext) (cfg : Cfg) (ue : Ue) (w : World) (n : Int) (e : Bool)
    (pdu o b1 b2 d : Bytes) (rest : List Bytes) (msg : Aper.Val)
    (hsupi : supiInt ue.ctx.supi = some (n, e))
    (henc : Nas.Ctor.encodeWith Gen.Nas.layout_ServiceRequest (Nas.Ctor.serviceRequest 1) = .ok pdu)
    (hre : Reenc pdu) (ho : (Model.NasProtect.encodeNasPduWithSecurity P ue.sec pdu 2 true false).2 = .ok o)
    (hrun1 : Wrapper.run E .GetInitialUEMessage w.plmn [.int ue.ctx.ranUeNgapId, .octs o, .str []] = .ok (.ok b1))
    (hdls : w.dls = d :: rest) (hdec : ngapDecode (d.take 2048) = .ok msg)
    (hrun2 : Wrapper.run E .GetInitialContextSetupResponseForServiceRequest w.plmn
      [.int ue.amfUeNgapId, .int ue.ctx.ranUeNgapId, .int (pduIdOf n), .str cfg.gnbGtp] = .ok (.ok b2)) :
    serviceRequest P E cfg ue w =
      ({ w with dls := rest, ulsRev := b2 :: b1 :: w.ulsRev },
        .ok (Model.NasProtect.encodeNasPduWithSecurity P ue.sec pdu 2 true false).1) := by
  unfold serviceRequest
  simp only [bind_apply, hsupi, pure_apply, ctor_ok _ _ _ henc]
  rw [protect_reenc P ue pdu hre o ho]
  simp only
  rw [wrapperChecked_ok E _ _ w b1 hrun1]
  simp only [write_apply, Model.Emulator.read, hdls, hdec, checked, pure_apply]
  rw [wrapperUnchecked_ok E _ _ { dls := rest, ulsRev := b1 :: w.ulsRev, plmn := w.plmn, reportsRev := w.reportsRev } b2 hrun2]

/-- **`ReleasePDU`** writes the release request, the PDU SESSION RESOURCE RELEASE RESPONSE and the release complete, reading
    nothing; the security state moves two COUNTs on -/
theorem releasePDU_run (P : Prims) (E : Model.Convert.Ext) (cfg : Cfg) (ue : Ue) (w : World) (n : Int)
    (sn : Nas.Ctor.Snssai) (p1 o1 b1 b2 p3 o3 b3 : Bytes)
    (hsupi : supiInt ue.ctx.supi = some (n, false)) (hsn : snssaiOf E cfg = some sn)
    (henc1 : Nas.Ctor.encodeWith Gen.Nas.layout_ULNASTransport (Nas.Ctor.ulReleaseRequest (psi8 (pduIdOf n))) = .ok p1)
    (hre1 : Reenc p1) (ho1 : (Model.NasProtect.encodeNasPduWithSecurity P ue.sec p1 2 true false).2 = .ok o1)
    (hrun1 : Wrapper.run E .GetUplinkNASTransport w.plmn [.int ue.amfUeNgapId, .int ue.ctx.ranUeNgapId, .octs o1] = .ok (.ok b1))
    (hrun2 : Wrapper.run E .GetPDUSessionResourceReleaseResponse w.plmn
      [.int ue.amfUeNgapId, .int ue.ctx.ranUeNgapId, .int (pduIdOf n)] = .ok (.ok b2))
    (henc3 : Nas.Ctor.encodeWith Gen.Nas.layout_ULNASTransport
      (Nas.Ctor.ulReleaseComplete (psi8 (pduIdOf n)) 1 internet (some sn)) = .ok p3)
    (hre3 : Reenc p3)
    (ho3 : (Model.NasProtect.encodeNasPduWithSecurity P (Model.NasProtect.encodeNasPduWithSecurity P ue.sec p1 2 true false).1
      p3 2 true false).2 = .ok o3)
    (hrun3 : Wrapper.run E .GetUplinkNASTransport w.plmn [.int ue.amfUeNgapId, .int ue.ctx.ranUeNgapId, .octs o3] = .ok (.ok b3)) :
    releasePDU P E cfg ue w =
      ({ w with ulsRev := b3 :: b2 :: b1 :: w.ulsRev },
        .ok (Model.NasProtect.encodeNasPduWithSecurity P (Model.NasProtect.encodeNasPduWithSecurity P ue.sec p1 2 true false).1
          p3 2 true false).1) := by
  unfold releasePDU
  simp only [bind_apply, hsupi, pure_apply, ctor_ok _ _ _ henc1]
  rw [protect_reenc P ue p1 hre1 o1 ho1]
  simp only
  rw [wrapperChecked_ok E _ _ w b1 hrun1]
  simp only [write_apply]
  rw [wrapperChecked_ok E _ _ { dls := w.dls, ulsRev := b1 :: w.ulsRev, plmn := w.plmn, reportsRev := w.reportsRev } b2 hrun2]
  simp only [write_apply, hsn, bind_apply, pure_apply, ctor_ok _ _ _ henc3]
  rw [protect_reenc P { ue with sec := (Model.NasProtect.encodeNasPduWithSecurity P ue.sec p1 2 true false).1 } p3 hre3 o3 ho3]
  simp only
  rw [wrapperChecked_ok E _ _ { dls := w.dls, ulsRev := b2 :: b1 :: w.ulsRev, plmn := w.plmn, reportsRev := w.reportsRev } b3 hrun3]

/-- **`DeregisterUE`** writes the protected DEREGISTRATION REQUEST and the UE CONTEXT RELEASE COMPLETE, reading two downlink
    messages in between -/
theorem deregisterUE_run (P : Prims) (E : Model.Convert.Ext) (cfg : Cfg) (ue : Ue) (w : World)
    (suci pdu o b1 b2 d d' : Bytes) (rest : List Bytes) (m1 m2 : Aper.Val)
    (hsuci : Model.Suci.encodeSuci (Model.Suci.trimImsiPrefix ue.ctx.supi) cfg.mnc.length = .ok suci)
    (henc : Nas.Ctor.encodeWith Gen.Nas.layout_DeregistrationRequestUEOriginatingDeregistration
      (Nas.Ctor.deregistrationRequest 1 0 4 (suciVal suci)) = .ok pdu)
    (hre : Reenc pdu) (ho : (Model.NasProtect.encodeNasPduWithSecurity P ue.sec pdu 2 true false).2 = .ok o)
    (hrun1 : Wrapper.run E .GetUplinkNASTransport w.plmn [.int ue.amfUeNgapId, .int ue.ctx.ranUeNgapId, .octs o] = .ok (.ok b1))
    (hdls : w.dls = d :: d' :: rest) (hdec1 : ngapDecode (d.take 2048) = .ok m1) (hdec2 : ngapDecode (d'.take 2048) = .ok m2)
    (hrun2 : Wrapper.run E .GetUEContextReleaseComplete w.plmn [.int ue.amfUeNgapId, .int ue.ctx.ranUeNgapId, .nil] = .ok (.ok b2)) :
    deregisterUE P E cfg ue w =
      ({ w with dls := rest, ulsRev := b2 :: b1 :: w.ulsRev },
        .ok (Model.NasProtect.encodeNasPduWithSecurity P ue.sec pdu 2 true false).1) := by
  unfold deregisterUE
  simp only [bind_apply, hsuci, orTrap, pure_apply, ctor_ok _ _ _ henc]
  rw [protect_reenc P ue pdu hre o ho]
  simp only
  rw [wrapperChecked_ok E _ _ w b1 hrun1]
  simp only [write_apply, Model.Emulator.read, hdls, hdec1, hdec2, checked, pure_apply]
  rw [wrapperChecked_ok E _ _ { dls := rest, ulsRev := b1 :: w.ulsRev, plmn := w.plmn, reportsRev := w.reportsRev } b2 hrun2]

/-- the UE context `main` keeps in `ueList` after `RegisterUE` -/
abbrev ueWith (ue : Ue) (amf : Int) (kamf : Bytes) (sec : Model.NasProtect.UeSec) : Ue :=
  { ctx := ue.ctx, amfUeNgapId := amf, sec := sec, kamf := kamf }

/-- what the four procedures after registration read from the peer and what their library calls return, for one UE whose
    context holds `amf` and security state `sec0` after registration -/
structure LifeReads (P : Prims) (E : Model.Convert.Ext) (cfg : Cfg) (ue0 : Ue) (plmn : Bytes) (amf : Int)
    (sec0 : Model.NasProtect.UeSec) (dE dS dD1 dD2 : Bytes) (pE oE e1 e2 pS oS s1 s2 p1 o1 r1 r2 p3 o3 r3 suci pD oD x1 x2 : Bytes)
    (rep : Report) where
  n : Int
  hsupi : supiInt ue0.ctx.supi = some (n, false)
  sn : Nas.Ctor.Snssai
  hsn : snssaiOf E cfg = some sn
  -- EstablishPDU
  hencE : Nas.Ctor.encodeWith Gen.Nas.layout_ULNASTransport (Nas.Ctor.ulEstablishment (psi8 (pduIdOf n)) 1 internet (some sn)) = .ok pE
  hreE : Reenc pE
  hoE : (Model.NasProtect.encodeNasPduWithSecurity P sec0 pE 2 true false).2 = .ok oE
  hrunE1 : Wrapper.run E .GetUplinkNASTransport plmn [.int amf, .int ue0.ctx.ranUeNgapId, .octs oE] = .ok (.ok e1)
  msgE : Aper.Val
  hdecE : ngapDecode (dE.take 2048) = .ok msgE
  hrep : extractReport msgE = .ok rep
  hrunE2 : Wrapper.run E .GetPDUSessionResourceSetupResponse plmn
    [.int amf, .int ue0.ctx.ranUeNgapId, .int (pduIdOf n), .str cfg.gnbGtp] = .ok (.ok e2)
  -- ServiceRequest
  hencS : Nas.Ctor.encodeWith Gen.Nas.layout_ServiceRequest (Nas.Ctor.serviceRequest 1) = .ok pS
  hreS : Reenc pS
  hoS : (Model.NasProtect.encodeNasPduWithSecurity P (Model.NasProtect.encodeNasPduWithSecurity P sec0 pE 2 true false).1
    pS 2 true false).2 = .ok oS
  hrunS1 : Wrapper.run E .GetInitialUEMessage plmn [.int ue0.ctx.ranUeNgapId, .octs oS, .str []] = .ok (.ok s1)
  msgS : Aper.Val
  hdecS : ngapDecode (dS.take 2048) = .ok msgS
  hrunS2 : Wrapper.run E .GetInitialContextSetupResponseForServiceRequest plmn
    [.int amf, .int ue0.ctx.ranUeNgapId, .int (pduIdOf n), .str cfg.gnbGtp] = .ok (.ok s2)
  -- ReleasePDU
  henc1 : Nas.Ctor.encodeWith Gen.Nas.layout_ULNASTransport (Nas.Ctor.ulReleaseRequest (psi8 (pduIdOf n))) = .ok p1
  hre1 : Reenc p1
  ho1 : (Model.NasProtect.encodeNasPduWithSecurity P (Model.NasProtect.encodeNasPduWithSecurity P
    (Model.NasProtect.encodeNasPduWithSecurity P sec0 pE 2 true false).1 pS 2 true false).1 p1 2 true false).2 = .ok o1
  hrunR1 : Wrapper.run E .GetUplinkNASTransport plmn [.int amf, .int ue0.ctx.ranUeNgapId, .octs o1] = .ok (.ok r1)
  hrunR2 : Wrapper.run E .GetPDUSessionResourceReleaseResponse plmn
    [.int amf, .int ue0.ctx.ranUeNgapId, .int (pduIdOf n)] = .ok (.ok r2)
  henc3 : Nas.Ctor.encodeWith Gen.Nas.layout_ULNASTransport
    (Nas.Ctor.ulReleaseComplete (psi8 (pduIdOf n)) 1 internet (some sn)) = .ok p3
  hre3 : Reenc p3
  ho3 : (Model.NasProtect.encodeNasPduWithSecurity P (Model.NasProtect.encodeNasPduWithSecurity P
    (Model.NasProtect.encodeNasPduWithSecurity P (Model.NasProtect.encodeNasPduWithSecurity P sec0 pE 2 true false).1
      pS 2 true false).1 p1 2 true false).1 p3 2 true false).2 = .ok o3
  hrunR3 : Wrapper.run E .GetUplinkNASTransport plmn [.int amf, .int ue0.ctx.ranUeNgapId, .octs o3] = .ok (.ok r3)
  -- DeregisterUE
  hsuci : Model.Suci.encodeSuci (Model.Suci.trimImsiPrefix ue0.ctx.supi) cfg.mnc.length = .ok suci
  hencD : Nas.Ctor.encodeWith Gen.Nas.layout_DeregistrationRequestUEOriginatingDeregistration
    (Nas.Ctor.deregistrationRequest 1 0 4 (suciVal suci)) = .ok pD
  hreD : Reenc pD
  hoD : (Model.NasProtect.encodeNasPduWithSecurity P (Model.NasProtect.encodeNasPduWithSecurity P
    (Model.NasProtect.encodeNasPduWithSecurity P (Model.NasProtect.encodeNasPduWithSecurity P
      (Model.NasProtect.encodeNasPduWithSecurity P sec0 pE 2 true false).1 pS 2 true false).1 p1 2 true false).1
        p3 2 true false).1 pD 2 true false).2 = .ok oD
  hrunD1 : Wrapper.run E .GetUplinkNASTransport plmn [.int amf, .int ue0.ctx.ranUeNgapId, .octs oD] = .ok (.ok x1)
  m1 : Aper.Val
  m2 : Aper.Val
  hdecD1 : ngapDecode (dD1.take 2048) = .ok m1
  hdecD2 : ngapDecode (dD2.take 2048) = .ok m2
  hrunD2 : Wrapper.run E .GetUEContextReleaseComplete plmn [.int amf, .int ue0.ctx.ranUeNgapId, .nil] = .ok (.ok x2)

theorem forUes_one (f : Ue → M Model.NasProtect.UeSec) (ue : Ue) (w w' : World) (sec : Model.NasProtect.UeSec)
    (h : f ue w = (w', .ok sec)) : forUes f 1 0 [ue] w = (w', .ok [{ ue with sec := sec }]) := by
  simp only [forUes, List.getElem?_cons_zero, bind_apply, h, pure_apply]
  rfl

/-- **test mode with one UE and every count 1**: NG Setup, registration, PDU session establishment, service request, release,
    de-registration — fifteen uplink messages, nine downlink messages read, one report, completed -/
theorem emulate_life_run (P : Prims) (E : Model.Convert.Ext) (cfg : Cfg) (d1 d2 d3 d4 d5 dE dS dD1 dD2 : Bytes)
    (hreg : cfg.reg = 1) (hpdu : cfg.pdu = 1) (hsvc : cfg.svc = 1) (hrel : cfg.rel = 1) (hdereg : cfg.dereg = 1)
    (m b1 : Bytes) (v1 : Aper.Val) (hplmn : Model.Suci.ngSetupPlmn cfg.imsi cfg.mnc.length = .ok m)
    (hrun1 : Wrapper.run E .GetNGSetupRequest [] [.octs cfg.gnbId, .octs m, .int cfg.bitlength, .str cfg.name] = .ok (.ok b1))
    (hdec1 : ngapDecode (d1.take 2048) = .ok v1)
    (suci nas2 b2 nas3 b3 rr smc o1 b4 b5 rc o2 b6 : Bytes) (amf : Int) (keys : Model.KeyDerivation.UeKeys) (ue1 : Ue)
    (R : RegReads P E cfg (createUE cfg 0) m d2 d3 d4 d5 suci nas2 b2 nas3 b3 rr smc o1 b4 b5 rc o2 b6 amf keys ue1)
    (pE oE e1 e2 pS oS s1 s2 p1 o1' r1 r2 p3 o3 r3 suci' pD oD x1 x2 : Bytes) (rep : Report)
    (L : LifeReads P E cfg (createUE cfg 0) m amf
      (Model.NasProtect.encodeNasPduWithSecurity P (Model.NasProtect.encodeNasPduWithSecurity P
        (secAfterKeys ue1 keys) smc 4 true true).1 rc 2 true false).1
      dE dS dD1 dD2 pE oE e1 e2 pS oS s1 s2 p1 o1' r1 r2 p3 o3 r3 suci' pD oD x1 x2 rep) :
    (emulate P E cfg [d1, d2, d3, d4, d5, dE, dS, dD1, dD2]).uls =
      [b1, b2, b3, b4, b5, b6, e1, e2, s1, s2, r1, r2, r3, x1, x2] ∧
    (emulate P E cfg [d1, d2, d3, d4, d5, dE, dS, dD1, dD2]).reports = [rep] ∧
    (emulate P E cfg [d1, d2, d3, d4, d5, dE, dS, dD1, dD2]).outcome = .completed := by
  have hnum := Props.C02.genNumbers_eq (countsOf cfg)
  have hregs : (genRegistrations (countsOf cfg)).toNat = 1 := by rw [hnum.2]; simp [countsOf, hreg]
  have hest : (genNumbers (countsOf cfg)).establish.toNat = 1 := by
    rw [hnum.1]; simp [numbers, countsOf, hreg, hpdu, Model.FailStop.goMin]
  have hsv : (genNumbers (countsOf cfg)).service.toNat = 1 := by
    rw [hnum.1]; simp [numbers, countsOf, hreg, hpdu, hsvc, Model.FailStop.goMin]
  have hrl : (genNumbers (countsOf cfg)).release.toNat = 1 := by
    rw [hnum.1]; simp [numbers, countsOf, hreg, hpdu, hrel, Model.FailStop.goMin]
  have hder : (genNumbers (countsOf cfg)).deregister.toNat = 1 := by
    rw [hnum.1]; simp [numbers, countsOf, hreg, hdereg, Model.FailStop.goMin]
  have hsetup := manageNGSetup_run E cfg { dls := [d1, d2, d3, d4, d5, dE, dS, dD1, dD2] } m b1 d1 [d2, d3, d4, d5, dE, dS, dD1, dD2]
    v1 hplmn hrun1 rfl hdec1
  have hregrun := registerUE_run_result P E cfg (createUE cfg 0)
    { dls := [d2, d3, d4, d5, dE, dS, dD1, dD2], ulsRev := [b1], plmn := m } d2 d3 d4 d5 [dE, dS, dD1, dD2] rfl
    suci nas2 b2 nas3 b3 rr smc o1 b4 b5 rc o2 b6 amf keys ue1 R
  have hloop : registerLoop P E cfg 1 0 [] { dls := [d2, d3, d4, d5, dE, dS, dD1, dD2], ulsRev := [b1], plmn := m } =
      ({ dls := [dE, dS, dD1, dD2], ulsRev := [b6, b5, b4, b3, b2, b1], plmn := m },
        .ok [ueWith (createUE cfg 0) amf keys.kamf
          (Model.NasProtect.encodeNasPduWithSecurity P (Model.NasProtect.encodeNasPduWithSecurity P
            (secAfterKeys ue1 keys) smc 4 true true).1 rc 2 true false).1]) := by
    simp only [registerLoop, bind_apply]
    have h0 : registerUE P E cfg (createUE cfg ((0 : Nat) : Int)) { dls := [d2, d3, d4, d5, dE, dS, dD1, dD2], ulsRev := [b1], plmn := m } = _ :=
      hregrun
    rw [h0]
    rfl
  have hE := establishPDU_run P E cfg (ueWith (createUE cfg 0) amf keys.kamf _)
    { dls := [dE, dS, dD1, dD2], ulsRev := [b6, b5, b4, b3, b2, b1], plmn := m } L.n false L.sn pE oE e1 e2 dE [dS, dD1, dD2]
    L.msgE rep L.hsupi L.hsn L.hencE L.hreE L.hoE L.hrunE1 rfl L.hdecE L.hrep L.hrunE2
  have hS := serviceRequest_run P E cfg (ueWith (createUE cfg 0) amf keys.kamf _)
    { dls := [dS, dD1, dD2], ulsRev := [e2, e1, b6, b5, b4, b3, b2, b1], plmn := m, reportsRev := [rep] } L.n false pS oS s1 s2 dS
    [dD1, dD2] L.msgS L.hsupi L.hencS L.hreS L.hoS L.hrunS1 rfl L.hdecS L.hrunS2
  have hR := releasePDU_run P E cfg (ueWith (createUE cfg 0) amf keys.kamf _)
    { dls := [dD1, dD2], ulsRev := [s2, s1, e2, e1, b6, b5, b4, b3, b2, b1], plmn := m, reportsRev := [rep] } L.n L.sn
    p1 o1' r1 r2 p3 o3 r3 L.hsupi L.hsn L.henc1 L.hre1 L.ho1 L.hrunR1 L.hrunR2 L.henc3 L.hre3 L.ho3 L.hrunR3
  have hD := deregisterUE_run P E cfg (ueWith (createUE cfg 0) amf keys.kamf _)
    { dls := [dD1, dD2], ulsRev := [r3, r2, r1, s2, s1, e2, e1, b6, b5, b4, b3, b2, b1], plmn := m, reportsRev := [rep] }
    suci' pD oD x1 x2 dD1 dD2 [] L.m1 L.m2 L.hsuci L.hencD L.hreD L.hoD L.hrunD1 rfl L.hdecD1 L.hdecD2 L.hrunD2
  have hrunall : testMode P E cfg { dls := [d1, d2, d3, d4, d5, dE, dS, dD1, dD2] } =
      ({ dls := [], ulsRev := [x2, x1, r3, r2, r1, s2, s1, e2, e1, b6, b5, b4, b3, b2, b1], plmn := m, reportsRev := [rep] },
        .ok ()) := by
    unfold testMode
    simp only [bind_apply, hsetup, hregs, hest, hsv, hrl, hder, hloop]
    rw [forUes_one _ _ _ _ _ hE]
    simp only
    rw [forUes_one _ _ _ _ _ hS]
    simp only
    rw [forUes_one _ _ _ _ _ hR]
    simp only
    rw [forUes_one _ _ _ _ _ hD]
    rfl
  unfold emulate
  rw [hrunall]
  exact ⟨rfl, rfl, rfl⟩

end Stgutg.Proofs.EmulatorLife
