/-
  Helper lemmas for C15 (core Lean only): octet strings vs. bit strings, rotation by whole octets,
  xor on octet strings, big-endian order = lexicographic order, `os_memcmp`.
-/
import Stgutg.Model.Milenage
import Stgutg.Spec.Ts35206
namespace Stgutg.Proofs.Milenage
open Stgutg Stgutg.Spec.Ts35206 Stgutg.Model.Milenage

theorem len16 {α} {l : List α} (h : l.length = 16) :
    ∃ a0 a1 a2 a3 a4 a5 a6 a7 a8 a9 a10 a11 a12 a13 a14 a15,
      l = [a0, a1, a2, a3, a4, a5, a6, a7, a8, a9, a10, a11, a12, a13, a14, a15] := by
  match l, h with
  | [a0, a1, a2, a3, a4, a5, a6, a7, a8, a9, a10, a11, a12, a13, a14, a15], _ =>
    exact ⟨a0, a1, a2, a3, a4, a5, a6, a7, a8, a9, a10, a11, a12, a13, a14, a15, rfl⟩

theorem byteBits_eq (a : UInt8) : byteBits a =
    [a.toNat.testBit 7, a.toNat.testBit 6, a.toNat.testBit 5, a.toNat.testBit 4,
     a.toNat.testBit 3, a.toNat.testBit 2, a.toNat.testBit 1, a.toNat.testBit 0] := rfl

theorem byteBits_length (a : UInt8) : (byteBits a).length = 8 := rfl

theorem fold_testBit : ∀ n : Fin 256,
    ([n.val.testBit 7, n.val.testBit 6, n.val.testBit 5, n.val.testBit 4,
      n.val.testBit 3, n.val.testBit 2, n.val.testBit 1, n.val.testBit 0].foldl
        (fun a b => 2 * a + b.toNat) 0) = n.val := by decide +kernel

theorem bitsToByte_byteBits (a : UInt8) : bitsToByte (byteBits a) = a := by
  rw [byteBits_eq, bitsToByte]
  have := fold_testBit ⟨a.toNat, a.toNat_lt⟩
  simp only at this
  rw [this]
  exact UInt8.ofNat_toNat

theorem unbits_byteBits_append (a : UInt8) (r : List Bool) : unbits (byteBits a ++ r) = a :: unbits r := by
  have h := bitsToByte_byteBits a
  rw [byteBits_eq] at h ⊢
  simp only [List.cons_append, List.nil_append, unbits, h]

theorem bits_cons (a : UInt8) (x : Bytes) : bits (a :: x) = byteBits a ++ bits x := by
  simp [bits]

theorem bits_append (x y : Bytes) : bits (x ++ y) = bits x ++ bits y := by
  simp [bits]

theorem unbits_bits (x : Bytes) : unbits (bits x) = x := by
  induction x with
  | nil => rfl
  | cons a x ih => rw [bits_cons, unbits_byteBits_append, ih]

theorem bits_drop (q : Nat) (x : Bytes) : (bits x).drop (8 * q) = bits (x.drop q) := by
  induction q generalizing x with
  | zero => simp
  | succ q ih =>
    cases x with
    | nil => simp [bits]
    | cons a x =>
      rw [bits_cons, List.drop_succ_cons, ← ih x]
      have : 8 * (q + 1) = (byteBits a).length + 8 * q := by rw [byteBits_length]; omega
      rw [this, List.drop_length_add_append]

theorem bits_take (q : Nat) (x : Bytes) : (bits x).take (8 * q) = bits (x.take q) := by
  induction q generalizing x with
  | zero => simp [bits]
  | succ q ih =>
    cases x with
    | nil => simp [bits]
    | cons a x =>
      rw [bits_cons, List.take_succ_cons, bits_cons, ← ih x]
      have : 8 * (q + 1) = (byteBits a).length + 8 * q := by rw [byteBits_length]; omega
      rw [this, List.take_length_add_append]

/-- rotation by a whole number of octets is rotation of the octet string -/
theorem rot_octets (x : Bytes) (q : Nat) : rot x (8 * q) = x.drop q ++ x.take q := by
  rw [rot, bits_drop, bits_take, ← bits_append, unbits_bits]

theorem c2_eq : c2 = [0, 0, 0, 0, 0, 0, 0, 0, 0, 0, 0, 0, 0, 0, 0, 1] := by decide +kernel
theorem c3_eq : c3 = [0, 0, 0, 0, 0, 0, 0, 0, 0, 0, 0, 0, 0, 0, 0, 2] := by decide +kernel
theorem c4_eq : c4 = [0, 0, 0, 0, 0, 0, 0, 0, 0, 0, 0, 0, 0, 0, 0, 4] := by decide +kernel
theorem c5_eq : c5 = [0, 0, 0, 0, 0, 0, 0, 0, 0, 0, 0, 0, 0, 0, 0, 8] := by decide +kernel

theorem scatter8 {x : Bytes} (h : x.length = 16) : scatter 8 x = x.drop 8 ++ x.take 8 := by
  obtain ⟨a0, a1, a2, a3, a4, a5, a6, a7, a8, a9, a10, a11, a12, a13, a14, a15, rfl⟩ := len16 h
  rfl
theorem scatter12 {x : Bytes} (h : x.length = 16) : scatter 12 x = x.drop 4 ++ x.take 4 := by
  obtain ⟨a0, a1, a2, a3, a4, a5, a6, a7, a8, a9, a10, a11, a12, a13, a14, a15, rfl⟩ := len16 h
  rfl
theorem scatter4 {x : Bytes} (h : x.length = 16) : scatter 4 x = x.drop 12 ++ x.take 12 := by
  obtain ⟨a0, a1, a2, a3, a4, a5, a6, a7, a8, a9, a10, a11, a12, a13, a14, a15, rfl⟩ := len16 h
  rfl

theorem xorLast_eq {x : Bytes} (h : x.length = 16) (c : UInt8) :
    xorBytes x [0, 0, 0, 0, 0, 0, 0, 0, 0, 0, 0, 0, 0, 0, 0, c] = xorLast x c := by
  obtain ⟨a0, a1, a2, a3, a4, a5, a6, a7, a8, a9, a10, a11, a12, a13, a14, a15, rfl⟩ := len16 h
  simp [xorBytes, xorLast]

theorem xorBytes_length (a b : Bytes) : (xorBytes a b).length = min a.length b.length := by
  simp [xorBytes]

theorem xorBytes_comm (a b : Bytes) : xorBytes a b = xorBytes b a := by
  induction a generalizing b with
  | nil => cases b <;> simp [xorBytes]
  | cons x a ih =>
    cases b with
    | nil => simp [xorBytes]
    | cons y b =>
      have := ih b
      simp only [xorBytes] at this ⊢
      rw [List.zipWith_cons_cons, List.zipWith_cons_cons, this, UInt8.xor_comm]

theorem xorBytes_zeros {a : Bytes} {n : Nat} (h : a.length ≤ n) : xorBytes a (List.replicate n 0) = a := by
  induction a generalizing n with
  | nil => simp [xorBytes]
  | cons x a ih =>
    cases n with
    | zero => simp at h
    | succ n =>
      have := ih (n := n) (by simpa using h)
      simp only [xorBytes] at this ⊢
      rw [List.replicate_succ, List.zipWith_cons_cons, this, UInt8.xor_zero]

/-- (a ⊻ b) ⊻ b = a when b is at least as long as a -/
theorem xorBytes_cancel {a b : Bytes} (h : a.length ≤ b.length) : xorBytes (xorBytes a b) b = a := by
  induction a generalizing b with
  | nil => simp [xorBytes]
  | cons x a ih =>
    cases b with
    | nil => simp at h
    | cons y b =>
      have := ih (b := b) (by simpa using h)
      simp only [xorBytes] at this ⊢
      rw [List.zipWith_cons_cons, List.zipWith_cons_cons, this, UInt8.xor_assoc, UInt8.xor_self, UInt8.xor_zero]

theorem xorBytes_take (a b : Bytes) (n : Nat) : (xorBytes a b).take n = xorBytes (a.take n) (b.take n) := by
  simp [xorBytes, List.take_zipWith]

theorem xorBytes_drop (a b : Bytes) (n : Nat) : (xorBytes a b).drop n = xorBytes (a.drop n) (b.drop n) := by
  simp [xorBytes, List.drop_zipWith]

theorem xor16_eq {a b : Bytes} (ha : a.length = 16) (hb : b.length = 16) : xor16 a b = xorBytes a b := by
  rw [xor16, List.take_of_length_le (by omega), List.take_of_length_le (by omega)]

/-- three-way lexicographic comparison of octet strings (what C `memcmp` computes, as a sign) -/
def lexCmp : Bytes → Bytes → Int
  | x :: a, y :: b => if x < y then -1 else if x > y then 1 else lexCmp a b
  | _, _ => 0

theorem osMemcmpFrom_eq (a b : Bytes) (n i : Nat) (ha : a.length = i + n) (hb : b.length = i + n) :
    osMemcmpFrom a b n i = .ok (lexCmp (a.drop i) (b.drop i)) := by
  induction n generalizing i with
  | zero =>
    have h1 : a.drop i = [] := List.drop_eq_nil_of_le (by omega)
    simp [osMemcmpFrom, h1, lexCmp]
  | succ n ih =>
    have hia : i < a.length := by omega
    have hib : i < b.length := by omega
    rw [osMemcmpFrom, List.getElem?_eq_getElem hia, List.getElem?_eq_getElem hib]
    rw [List.drop_eq_getElem_cons hia, List.drop_eq_getElem_cons hib]
    simp only [lexCmp]
    rw [ih (i + 1) (by omega) (by omega)]
    split
    · rfl
    · split <;> rfl

theorem os_memcmp_eq {a b : Bytes} {n : Nat} (ha : a.length = n) (hb : b.length = n) :
    os_memcmp a b n = .ok (lexCmp a b) := by
  have := osMemcmpFrom_eq a b n 0 (by omega) (by omega)
  simpa [os_memcmp] using this

theorem beNat_foldl (acc : Nat) (l : Bytes) :
    l.foldl (fun a b => a * 256 + b.toNat) acc = acc * 256 ^ l.length + beNat l := by
  induction l generalizing acc with
  | nil => simp [beNat]
  | cons x l ih =>
    simp only [List.foldl_cons, beNat, List.length_cons]
    rw [ih, ih (0 * 256 + x.toNat)]
    rw [Nat.pow_succ, Nat.add_mul]
    simp [Nat.mul_assoc, Nat.mul_comm, Nat.add_assoc]

theorem beNat_cons (x : UInt8) (l : Bytes) : beNat (x :: l) = x.toNat * 256 ^ l.length + beNat l := by
  simp only [beNat, List.foldl_cons]
  rw [beNat_foldl]; simp [beNat]

theorem beNat_lt (l : Bytes) : beNat l < 256 ^ l.length := by
  induction l with
  | nil => simp [beNat]
  | cons x l ih =>
    rw [beNat_cons, List.length_cons, Nat.pow_succ]
    have hx : x.toNat < 256 := x.toNat_lt
    have : (x.toNat + 1) * 256 ^ l.length ≤ 256 * 256 ^ l.length := Nat.mul_le_mul_right _ (by omega)
    rw [Nat.add_mul] at this
    omega

theorem lexCmp_le_zero {a b : Bytes} (h : a.length = b.length) : lexCmp a b ≤ 0 ↔ beNat a ≤ beNat b := by
  induction a generalizing b with
  | nil => cases b <;> simp [lexCmp, beNat]
  | cons x a ih =>
    cases b with
    | nil => simp at h
    | cons y b =>
      have hl : a.length = b.length := by simpa using h
      rw [lexCmp, beNat_cons, beNat_cons, ← hl]
      have hA := beNat_lt a
      have hB := beNat_lt b
      rw [← hl] at hB
      by_cases h1 : x < y
      · simp only [h1, if_true]
        have h1' : x.toNat + 1 ≤ y.toNat := UInt8.lt_iff_toNat_lt.mp h1
        have := Nat.mul_le_mul_right (256 ^ a.length) h1'
        rw [Nat.add_mul] at this
        constructor
        · intro _; omega
        · intro _; omega
      · by_cases h2 : x > y
        · simp only [h1, h2, if_true, if_false]
          have h2' : y.toNat + 1 ≤ x.toNat := UInt8.lt_iff_toNat_lt.mp h2
          have := Nat.mul_le_mul_right (256 ^ a.length) h2'
          rw [Nat.add_mul] at this
          constructor
          · intro hc; omega
          · intro hc; omega
        · simp only [h1, h2, if_false]
          have hxy : x.toNat = y.toNat := by
            have a1 : ¬ x.toNat < y.toNat := fun c => h1 (UInt8.lt_iff_toNat_lt.mpr c)
            have a2 : ¬ y.toNat < x.toNat := fun c => h2 (UInt8.lt_iff_toNat_lt.mpr c)
            omega
          rw [ih hl, hxy]
          omega

theorem lexCmp_eq_zero {a b : Bytes} (h : a.length = b.length) : lexCmp a b = 0 ↔ a = b := by
  induction a generalizing b with
  | nil => cases b <;> simp_all [lexCmp]
  | cons x a ih =>
    cases b with
    | nil => simp at h
    | cons y b =>
      have hl : a.length = b.length := by simpa using h
      rw [lexCmp]
      by_cases h1 : x < y
      · simp only [h1, if_true]
        have : x ≠ y := fun e => by subst e; exact absurd h1 (UInt8.lt_irrefl x)
        simp [this]
      · by_cases h2 : x > y
        · simp only [h1, h2, if_true, if_false]
          have : x ≠ y := fun e => by subst e; exact absurd h2 (UInt8.lt_irrefl x)
          simp [this]
        · simp only [h1, h2, if_false]
          have hxy : x = y := by
            apply UInt8.toNat_inj.mp
            have a1 : ¬ x.toNat < y.toNat := fun c => h1 (UInt8.lt_iff_toNat_lt.mpr c)
            have a2 : ¬ y.toNat < x.toNat := fun c => h2 (UInt8.lt_iff_toNat_lt.mpr c)
            omega
          rw [ih hl, hxy]; simp

theorem newCipher16 {k : Bytes} (hk : k.length = 16) : newCipher k = .ok () := by simp [newCipher, hk]

theorem take_full {α} {l : List α} {n : Nat} (h : l.length = n) : l.take n = l := List.take_of_length_le (by omega)

/-- the F1 input block: index loop + xor = TEMP ⊻ rot(X, r1) ⊻ c1 -/
theorem f1_block {T X : Bytes} (hT : T.length = 16) (hX : X.length = 16) :
    xorBytes (scatter 8 X) T = T ⊻ rot X r1 ⊻ c1 := by
  have hr : (X.drop 8 ++ X.take 8).length = 16 := by simp; omega
  have hx : (T ⊻ (X.drop 8 ++ X.take 8)).length ≤ 16 := by rw [xorBytes_length]; omega
  rw [scatter8 hX, r1, c1, show (64 : Nat) = 8 * 8 from rfl, rot_octets, xorBytes_zeros hx, xorBytes_comm]

/-- the F2..F5* input blocks: index loop + `t[15] ^= c` = rot(X, 8q) ⊻ (0^120 ‖ c) -/
theorem fN_block8 {X : Bytes} (hX : X.length = 16) (c : UInt8) :
    xorLast (scatter 8 X) c = rot X 64 ⊻ [0, 0, 0, 0, 0, 0, 0, 0, 0, 0, 0, 0, 0, 0, 0, c] := by
  have hr : (X.drop 8 ++ X.take 8).length = 16 := by simp; omega
  rw [scatter8 hX, show (64 : Nat) = 8 * 8 from rfl, rot_octets, xorLast_eq hr]
theorem fN_block12 {X : Bytes} (hX : X.length = 16) (c : UInt8) :
    xorLast (scatter 12 X) c = rot X 32 ⊻ [0, 0, 0, 0, 0, 0, 0, 0, 0, 0, 0, 0, 0, 0, 0, c] := by
  have hr : (X.drop 4 ++ X.take 4).length = 16 := by simp; omega
  rw [scatter12 hX, show (32 : Nat) = 8 * 4 from rfl, rot_octets, xorLast_eq hr]
theorem fN_block4 {X : Bytes} (hX : X.length = 16) (c : UInt8) :
    xorLast (scatter 4 X) c = rot X 96 ⊻ [0, 0, 0, 0, 0, 0, 0, 0, 0, 0, 0, 0, 0, 0, 0, c] := by
  have hr : (X.drop 12 ++ X.take 12).length = 16 := by simp; omega
  rw [scatter4 hX, show (96 : Nat) = 8 * 12 from rfl, rot_octets, xorLast_eq hr]
theorem fN_block0 {X : Bytes} (hX : X.length = 16) (c : UInt8) :
    xorLast X c = rot X 0 ⊻ [0, 0, 0, 0, 0, 0, 0, 0, 0, 0, 0, 0, 0, 0, 0, c] := by
  rw [show (0 : Nat) = 8 * 0 from rfl, rot_octets, xorLast_eq (by simpa using hX)]
  simp

theorem milenageF1_spec (P : Prims) (hE : BlockCipher P.aes) (opc k rand sqn amf : Bytes)
    (hopc : opc.length = 16) (hk : k.length = 16) (hrand : rand.length = 16)
    (hsqn : sqn.length = 6) (hamf : 2 ≤ amf.length) :
    milenageF1 P opc k rand sqn amf
      = .ok (f1 P.aes k opc rand sqn (amf.take 2), f1star P.aes k opc rand sqn (amf.take 2)) := by
  have hro : (xorBytes rand opc).length = 16 := by rw [xorBytes_length]; omega
  have htemp : (P.aes k (xorBytes rand opc)).length = 16 := hE _ _ hk hro
  have hin : (sqn ++ amf.take 2 ++ (sqn ++ amf.take 2)).length = 16 := by simp; omega
  have hio : (xorBytes (sqn ++ amf.take 2 ++ (sqn ++ amf.take 2)) opc).length = 16 := by rw [xorBytes_length]; omega
  have h1 : ¬ amf.length < 2 := by omega
  simp only [milenageF1, newCipher16 hk, hrand, hopc, hsqn, h1, take_full hsqn, take_full hopc,
    xor16_eq hrand hopc, xor16_eq hin hopc, f1_block htemp hio]
  simp [f1, f1star, out1, temp, in1]

/-! lengths of the specification's outputs -/
section lengths
variable {E : Cipher} (hE : BlockCipher E) {k opc rand : Bytes}
  (hk : k.length = 16) (hopc : opc.length = 16) (hrand : rand.length = 16)
include hE hk hopc hrand

theorem temp_length : (temp E k opc rand).length = 16 :=
  hE _ _ hk (by rw [xorBytes_length]; omega)

theorem outN_length (q : Nat) (c : Bytes) (hc : c.length = 16) : (outN E k opc rand (8 * q) c).length = 16 := by
  have hto : (temp E k opc rand ⊻ opc).length = 16 := by rw [xorBytes_length, temp_length hE hk hopc hrand]; omega
  have hr : (rot (temp E k opc rand ⊻ opc) (8 * q) ⊻ c).length = 16 := by
    rw [rot_octets, xorBytes_length]; simp; omega
  rw [outN, xorBytes_length, hE _ _ hk hr]; omega

theorem f2_length : (f2 E k opc rand).length = 8 := by
  have := outN_length hE hk hopc hrand 0 c2 (by rw [c2_eq]; rfl)
  simp only [f2, out2, r2, List.length_drop]; simp only [Nat.mul_zero] at this; omega
theorem f5_length : (f5 E k opc rand).length = 6 := by
  have := outN_length hE hk hopc hrand 0 c2 (by rw [c2_eq]; rfl)
  simp only [f5, out2, r2, List.length_take]; simp only [Nat.mul_zero] at this; omega
theorem f3_length : (f3 E k opc rand).length = 16 := by
  have := outN_length hE hk hopc hrand 4 c3 (by rw [c3_eq]; rfl)
  simpa [f3, out3, r3] using this
theorem f4_length : (f4 E k opc rand).length = 16 := by
  have := outN_length hE hk hopc hrand 8 c4 (by rw [c4_eq]; rfl)
  simpa [f4, out4, r4] using this
theorem f5star_length : (f5star E k opc rand).length = 6 := by
  have := outN_length hE hk hopc hrand 12 c5 (by rw [c5_eq]; rfl)
  simp only [f5star, out5, r5, List.length_take]; simp only [show 8 * 12 = 96 from rfl] at this; omega

theorem out1_length {sqn amf : Bytes} (hsqn : sqn.length = 6) (hamf : amf.length = 2) :
    (out1 E k opc rand sqn amf).length = 16 := by
  have hin : (in1 sqn amf ⊻ opc).length = 16 := by rw [xorBytes_length]; simp [in1]; omega
  have hx : (temp E k opc rand ⊻ rot (in1 sqn amf ⊻ opc) r1 ⊻ c1).length = 16 := by
    rw [r1, show (64 : Nat) = 8 * 8 from rfl, rot_octets, xorBytes_length, xorBytes_length,
      temp_length hE hk hopc hrand]
    simp [c1]; omega
  rw [out1, xorBytes_length, hE _ _ hk hx]; omega

theorem f1_length {sqn amf : Bytes} (hsqn : sqn.length = 6) (hamf : amf.length = 2) :
    (f1 E k opc rand sqn amf).length = 8 := by
  have := out1_length hE hk hopc hrand hsqn hamf
  simp only [f1, List.length_take]; omega
theorem f1star_length {sqn amf : Bytes} (hsqn : sqn.length = 6) (hamf : amf.length = 2) :
    (f1star E k opc rand sqn amf).length = 8 := by
  have := out1_length hE hk hopc hrand hsqn hamf
  simp only [f1star, List.length_drop]; omega
end lengths


/-! the AUTN of TS 33.102 6.3.2 conceals its SQN and carries a verifying MAC -/
section autn
variable {E : Cipher} (hE : BlockCipher E) {k opc rand sqnNet amf : Bytes}
  (hk : k.length = 16) (hopc : opc.length = 16) (hrand : rand.length = 16)
  (hnet : sqnNet.length = 6) (hamf : amf.length = 2)
include hE hk hopc hrand hnet

theorem autnSqn_autn : autnSqn E k opc rand (autn E k opc rand sqnNet amf) = sqnNet := by
  have h5 := f5_length hE hk hopc hrand
  have hx : (xorBytes sqnNet (f5 E k opc rand)).length = 6 := by rw [xorBytes_length]; omega
  unfold autnSqn autn
  rw [List.append_assoc, List.take_left' hx]
  exact xorBytes_cancel (by omega)

include hamf

theorem autn_length : (autn E k opc rand sqnNet amf).length = 16 := by
  have h5 := f5_length hE hk hopc hrand
  have h1 := f1_length hE hk hopc hrand hnet hamf
  simp [autn, xorBytes_length, h5, h1, hnet, hamf]

theorem macOk_autn : macOk E k opc rand (autn E k opc rand sqnNet amf) := by
  have h5 := f5_length hE hk hopc hrand
  have hx : (xorBytes sqnNet (f5 E k opc rand)).length = 6 := by rw [xorBytes_length]; omega
  unfold macOk
  rw [autnSqn_autn hE hk hopc hrand hnet]
  unfold autn
  have hxa : (xorBytes sqnNet (f5 E k opc rand) ++ amf).length = 8 := by simp [hx, hamf]
  rw [List.drop_left' hxa, List.append_assoc, List.drop_left' hx, List.take_left' hamf]
end autn

end Stgutg.Proofs.Milenage
