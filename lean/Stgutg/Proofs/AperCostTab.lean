/-
  C14 (cost): soundness of the cost table — every entry bounds the cost of decoding its struct type, for every fuel,
  every parameter string and every reader state; hence the bound for `UnmarshalWithParams` on every byte string.
-/
import Stgutg.Proofs.AperCostSeq

namespace Stgutg.Proofs.AperCost
open Stgutg Stgutg.Aper

theorem DC_bind_ok {α β : Type} (m : DC α) (f : α → DC β) (r : Rd) (b : β) (r' : Rd)
    (h : ((m >>= f) r).1 = .ok (b, r')) : ∃ a r1, (m r).1 = .ok (a, r1) ∧ (f a r1).1 = .ok (b, r') := by
  rw [DC_bind_apply] at h
  rcases hm : m r with ⟨res, c⟩
  rw [hm] at h
  cases res with
  | error e => cases h
  | ok x => obtain ⟨a, r1⟩ := x; exact ⟨a, r1, rfl, h⟩

theorem MonoC_bind {α β : Type} {m : DC α} {f : α → DC β} (hm : MonoC m) (hf : ∀ a, MonoC (f a)) : MonoC (m >>= f) := by
  intro r b r' h
  obtain ⟨a, r1, h1, h2⟩ := DC_bind_ok m f r b r' h
  have := hm r a r1 h1
  have := hf a r1 b r' h2
  omega

theorem MonoC_fail {α : Type} (e : Err) : MonoC (DC.fail e : DC α) := Bnd_toMono (Bnd_fail 0 0 e)

/-! ### strictness of the struct case -/

theorem StrictD_getChoiceIndex (ve : Bool) (ub : Option Int) : StrictD (getChoiceIndex ve ub) := by
  unfold getChoiceIndex
  split
  · exact StrictD_fail _
  · split
    · exact StrictD_fail _
    · split
      · exact StrictD_fail _
      · exact StrictD_bind_l (StrictD_parseConstraintValue _) (fun _ => MonoD_pure _)

/-- a CHOICE index that was read consumed a bit; a failed read leaves `present = 0` -/
theorem catchIdx_spec (ve : Bool) (ub : Option Int) (r : Rd) (present : Nat) (r' : Rd)
    (h : D.catchErr (getChoiceIndex ve ub) (fun r => (0, r)) r = .ok (present, r')) :
    present = 0 ∨ r'.len < r.len := by
  unfold D.catchErr at h
  cases hg : getChoiceIndex ve ub r with
  | ok x =>
    rw [hg] at h
    dsimp only at h
    obtain ⟨p, r1⟩ := x
    simp only [Except.ok.injEq, Prod.mk.injEq] at h
    right
    have := StrictD_getChoiceIndex ve ub r p r1 hg
    rw [← h.2]; exact this
  | error e =>
    rw [hg] at h
    cases e with
    | error =>
      dsimp only at h
      simp only [Except.ok.injEq, Prod.mk.injEq] at h
      left; exact h.1.symm
    | panic => cases h
    | hang => cases h

/-- the struct body consumes a bit when there is an OPTIONAL bitmap, a CHOICE index, or a strict first component -/
theorem Strict_decStruct (f : Ty → Params → DC Val) (rfv : Ty → Val → Res Int) (zero : Ty → Val)
    (sd : StructDef) (params : Params) (ve : Bool)
    (hmono : ∀ fd ∈ sd.fields, MonoC (f fd.ty fd.params))
    (hrest : ∀ ob, MonoC (structRestC f rfv zero sd params ve ob))
    (hseq : ∀ (rest : List Field), (∀ fd ∈ rest, fd ∈ sd.fields) → ∀ (i oc ob : Nat) (vals : List Val),
      MonoC (decSeqFieldsC f rfv sd.fields i oc ob rest vals))
    (hd : (isChoice sd = true ∧ params.openType = false) ∨ sd.fields.any (fun f => f.params.optional) = true ∨
      (isChoice sd = false ∧ ∃ f0 rest, sd.fields = f0 :: rest ∧ f0.params.optional = false ∧
        ∀ fp, (fp = f0.params ∨ ∃ x, fp = { f0.params with refValue := some x }) → Strict (f f0.ty fp))) :
    Strict (decStructC f rfv zero sd params ve) := by
  rw [decStructC_eq]
  by_cases hopt : (sd.fields.filter (·.params.optional)).length > 0
  · simp only [hopt, if_true]
    exact Strict_bind_l (Strict_lift (StrictD_getBitsValue _)) hrest
  · refine Strict_bind_r (MonoC_lift (MonoD_optRead _)) (fun ob => ?_)
    rcases hd with ⟨hc, hot⟩ | hany | ⟨hc, f0, rest, hf, hopt0, hstrict⟩
    · -- CHOICE index
      unfold structRestC
      simp only [hc, if_true, hot, Bool.false_eq_true, if_false]
      intro r a r' h
      obtain ⟨present, r1, h1, h2⟩ := DC_bind_ok _ _ r a r' h
      have hspec := catchIdx_spec ve params.valueUB r present r1 h1
      by_cases hp0 : present = 0
      · simp only [hp0, if_true] at h2; simp [DC.fail] at h2
      · simp only [hp0, if_false] at h2
        have hlt : r1.len < r.len := by rcases hspec with h' | h'; exact absurd h' hp0; exact h'
        split at h2
        · simp [DC.fail] at h2
        · cases hfd : sd.fields[present]? with
          | none => rw [hfd] at h2; simp [DC.fail] at h2
          | some fd =>
            rw [hfd] at h2
            dsimp only at h2
            have hm := MonoC_bind (hmono fd (List.mem_of_getElem? hfd)) (fun v => MonoC_pure
              (Val.struct (setAt (setAt (sd.fields.map fun fd => zero fd.ty) 0 (.int present)) present v))) r1 a r' h2
            omega
    · exfalso
      apply hopt
      simp only [List.any_eq_true] at hany
      obtain ⟨x, hx, hxo⟩ := hany
      exact List.length_pos_of_mem (List.mem_filter.mpr ⟨hx, hxo⟩)
    · -- first component
      unfold structRestC
      simp only [hc, Bool.false_eq_true, if_false]
      refine Strict_bind_l ?_ (fun _ => MonoC_pure _)
      have hfl : sd.fields = f0 :: rest := hf
      conv => arg 1; arg 7; rw [hfl]
      unfold decSeqFieldsC
      simp only [hopt0, Bool.false_eq_true, false_and, decide_false, if_false]
      cases hr : resolveRef rfv sd.fields (sd.fields.map fun fd => zero fd.ty) 0 f0 with
      | error e => exact Strict_fail _
      | ok fp =>
        dsimp only
        refine Strict_bind_l (hstrict fp (resolveRef_shape _ _ _ _ _ _ hr)) (fun v => hseq rest ?_ _ _ _ _)
        intro fd hfd
        rw [hfl]; exact List.mem_cons_of_mem _ hfd

/-! ### `parseField` by kind -/

theorem decFieldC_zero (env : Env) (ty : Ty) (p : Params) : decFieldC env 0 ty p = DC.fail .hang := rfl

theorem decFieldC_ptr (env : Env) (fuel : Nat) (t : Ty) (p : Params) :
    decFieldC env (fuel + 1) (.ptr t) p =
      DC.tickThen fun r0 => if r0.len = 0 then (.error .error, Cost.zero) else
        (decFieldC env fuel t p >>= fun v => (pure (.ptr v) : DC Val)) r0 := by
  rfl

theorem decFieldC_slice (env : Env) (fuel : Nat) (t : Ty) (p : Params) :
    decFieldC env (fuel + 1) (.slice t) p =
      DC.tickThen fun r0 => if r0.len = 0 then (.error .error, Cost.zero) else
        sliceBodyC (decFieldC env fuel t (stripSizeE p)) p r0 := by
  rfl

def structBodyC (env : Env) (fuel : Nat) (sd : StructDef) (p : Params) : DC Val :=
  DC.lift (extBits p false) >>= fun x =>
    decStructC (decFieldC env fuel) (refFieldValue env fuel) (zeroVal env fuel) sd p x.2

theorem decFieldC_struct (env : Env) (fuel id : Nat) (sd : StructDef) (p : Params) (hsd : env[id]? = some sd) :
    decFieldC env (fuel + 1) (.struct id) p =
      DC.tickThen fun r0 => if r0.len = 0 then (.error .error, Cost.zero) else structBodyC env fuel sd p r0 := by
  unfold decFieldC
  simp only [hsd]
  rfl

theorem decFieldC_struct_none (env : Env) (fuel id : Nat) (p : Params) (hsd : env[id]? = none) :
    decFieldC env (fuel + 1) (.struct id) p =
      DC.tickThen fun r0 => if r0.len = 0 then (.error .error, Cost.zero) else (DC.fail .error : DC Val) r0 := by
  unfold decFieldC
  simp only [hsd]
  rfl

theorem decFieldC_leaf (env : Env) (fuel : Nat) (ty : Ty) (p : Params)
    (hl : ty = .int ∨ ty = .enum ∨ ty = .bits ∨ ty = .octs ∨ ty = .str ∨ ty = .bool ∨ ty = .oid) :
    decFieldC env (fuel + 1) ty p =
      DC.tickThen fun r0 => if r0.len = 0 then (.error .error, Cost.zero) else leafBodyC ty p r0 := by
  rcases hl with h | h | h | h | h | h | h <;> subst h <;> rfl


/-! ### the table -/

/-- what an entry of the table says about its struct type -/
def SInv (env : Env) (ws wa : Nat) (j : Nat) (e : CEntry) : Prop :=
  ∀ (fuel : Nat) (p : Params),
    Bnd ws wa (ws + e.q) (if p.openType then e.p + wa else e.p) e.s (decFieldC env fuel (.struct j) p) ∧
    ((p.valueExt || (!p.openType && e.d)) = true → Strict (decFieldC env fuel (.struct j) p))

def TabInv (env : Env) (ws wa : Nat) (tab : List (Nat × CEntry)) : Prop :=
  ∀ j e, lookupE j tab = some e → SInv env ws wa j e

theorem tyCost_refValue (ws wa : Nat) (tab : List (Nat × CEntry)) (x : Option Int) : ∀ (ty : Ty) (p : Params),
    tyCost ws wa tab ty { p with refValue := x } = tyCost ws wa tab ty p := by
  intro ty
  induction ty with
  | ptr t ih => intro p; simp only [tyCost]; rw [ih p]
  | slice t ih =>
    intro p
    simp only [tyCost]
    have : stripSizeE { p with refValue := x } = { stripSizeE p with refValue := x } := rfl
    rw [this, ih (stripSizeE p)]
    rfl
  | _ => intro p; rfl

theorem Bnd_zero {α : Type} (ws wa q p s : Nat) : Bnd ws wa q p s (DC.fail .hang : DC α) :=
  Bnd_mono (Nat.zero_le _) (Nat.zero_le _) (Nat.zero_le _) (Bnd_fail ws wa _)

/-- soundness of `tyCost` relative to a sound table -/
theorem tyCost_sound (env : Env) (ws wa : Nat) (tab : List (Nat × CEntry)) (hinv : TabInv env ws wa tab) :
    ∀ (ty : Ty) (p : Params) (e : CEntry), tyCost ws wa tab ty p = some e → ∀ fuel,
      Bnd ws wa e.q e.p e.s (decFieldC env fuel ty p) ∧ (e.d = true → Strict (decFieldC env fuel ty p)) := by
  have leaf : ∀ (ty : Ty) (p : Params) (e : CEntry),
      (ty = .int ∨ ty = .enum ∨ ty = .bits ∨ ty = .octs ∨ ty = .str ∨ ty = .bool ∨ ty = .oid) →
      tyCost ws wa tab ty p = some e → e.q = ws → e.p = wa → ∀ fuel,
      Bnd ws wa e.q e.p e.s (decFieldC env fuel ty p) ∧ (e.d = true → Strict (decFieldC env fuel ty p)) := by
    intro ty p e hl he hq hp fuel
    cases fuel with
    | zero => exact ⟨Bnd_zero _ _ _ _ _, fun _ => Strict_fail _⟩
    | succ fuel =>
      rw [decFieldC_leaf env fuel ty p hl]
      refine ⟨?_, fun hd => Strict_entry (leaf_strict ws wa tab ty p e hl he hd)⟩
      have := Bnd_entry (ws := ws) (Bnd_leafBody ws wa ty p)
      rw [hq, hp]
      exact Bnd_mono (by omega) (Nat.le_refl _) (Nat.zero_le _) this
  intro ty
  induction ty with
  | int => intro p e he; exact leaf .int p e (by simp) he (by simp only [tyCost, Option.some.injEq] at he; rw [← he]) (by simp only [tyCost, Option.some.injEq] at he; rw [← he])
  | enum => intro p e he; exact leaf .enum p e (by simp) he (by simp only [tyCost, Option.some.injEq] at he; rw [← he]) (by simp only [tyCost, Option.some.injEq] at he; rw [← he])
  | bits => intro p e he; exact leaf .bits p e (by simp) he (by simp only [tyCost, Option.some.injEq] at he; rw [← he]) (by simp only [tyCost, Option.some.injEq] at he; rw [← he])
  | octs => intro p e he; exact leaf .octs p e (by simp) he (by simp only [tyCost, Option.some.injEq] at he; rw [← he]) (by simp only [tyCost, Option.some.injEq] at he; rw [← he])
  | str => intro p e he; exact leaf .str p e (by simp) he (by simp only [tyCost, Option.some.injEq] at he; rw [← he]) (by simp only [tyCost, Option.some.injEq] at he; rw [← he])
  | bool => intro p e he; exact leaf .bool p e (by simp) he (by simp only [tyCost, Option.some.injEq] at he; rw [← he]) (by simp only [tyCost, Option.some.injEq] at he; rw [← he])
  | oid => intro p e he; exact leaf .oid p e (by simp) he (by simp only [tyCost, Option.some.injEq] at he; rw [← he]) (by simp only [tyCost, Option.some.injEq] at he; rw [← he])
  | ptr t ih =>
    intro p e he fuel
    simp only [tyCost] at he
    cases ht : tyCost ws wa tab t p with
    | none => rw [ht] at he; cases he
    | some et =>
      rw [ht] at he
      simp only [Option.some.injEq] at he
      rw [← he]
      dsimp only
      cases fuel with
      | zero => exact ⟨Bnd_zero _ _ _ _ _, fun _ => Strict_fail _⟩
      | succ fuel =>
        obtain ⟨hb, hs⟩ := ih p et ht fuel
        rw [decFieldC_ptr]
        exact ⟨Bnd_entry (Bnd_map Val.ptr hb), fun hd => Strict_entry (Strict_map Val.ptr (hs hd))⟩
  | slice t ih =>
    intro p e he fuel
    simp only [tyCost] at he
    cases ht : tyCost ws wa tab t (stripSizeE p) with
    | none => rw [ht] at he; cases he
    | some et =>
      rw [ht] at he
      dsimp only at he
      cases hd : et.d with
      | false => rw [hd] at he; simp at he
      | true =>
        rw [hd] at he
        simp only [if_true, Option.some.injEq] at he
        rw [← he]
        dsimp only
        cases fuel with
        | zero => exact ⟨Bnd_zero _ _ _ _ _, fun _ => Strict_fail _⟩
        | succ fuel =>
          obtain ⟨hb, hs⟩ := ih (stripSizeE p) et ht fuel
          rw [decFieldC_slice]
          refine ⟨Bnd_entry (Bnd_sliceBody ws wa et.q et.p et.s _ p hb (hs hd)), fun hse => ?_⟩
          exact Strict_entry (Strict_sliceBody _ p (Bnd_toMono hb) hse)
  | struct j =>
    intro p e he fuel
    simp only [tyCost] at he
    cases hl : lookupE j tab with
    | none => rw [hl] at he; cases he
    | some ej =>
      rw [hl] at he
      simp only [Option.some.injEq] at he
      rw [← he]
      dsimp only
      exact hinv j ej hl fuel p

/-- facts about the field entries that `fieldsCost` combined -/
theorem fieldsCost_spec (ws wa : Nat) (tab : List (Nat × CEntry)) (choice : Bool) : ∀ (fields : List Field) (q p s : Nat),
    fieldsCost ws wa tab choice fields = some (q, p, s) →
    (∀ fd ∈ fields, ∃ ef, tyCost ws wa tab fd.ty fd.params = some ef ∧ ef.p ≤ p ∧ ef.s ≤ s ∧ (choice = true → ef.q ≤ q)) ∧
    (choice = false → (fields.map fun fd => ((tyCost ws wa tab fd.ty fd.params).map (·.q)).getD 0).sum = q) := by
  intro fields
  induction fields with
  | nil =>
    intro q p s h
    simp only [fieldsCost, Option.some.injEq, Prod.mk.injEq] at h
    exact ⟨(by intro fd hfd; cases hfd), (by intro _; simp [h.1])⟩
  | cons f rest ih =>
    intro q p s h
    unfold fieldsCost at h
    cases hf : tyCost ws wa tab f.ty f.params with
    | none => rw [hf] at h; simp at h
    | some e =>
      cases hr : fieldsCost ws wa tab choice rest with
      | none => rw [hf, hr] at h; simp at h
      | some t =>
        obtain ⟨q', p', s'⟩ := t
        rw [hf, hr] at h
        simp only [Option.some.injEq, Prod.mk.injEq] at h
        obtain ⟨hq, hp, hs⟩ := h
        obtain ⟨ih1, ih2⟩ := ih q' p' s' hr
        refine ⟨?_, ?_⟩
        · intro fd hfd
          rcases List.mem_cons.mp hfd with h1 | h1
          · subst h1
            refine ⟨e, hf, by omega, by omega, ?_⟩
            intro hc; rw [hc] at hq; simp only [if_true] at hq; omega
          · obtain ⟨ef, he1, he2, he3, he4⟩ := ih1 fd h1
            refine ⟨ef, he1, by omega, by omega, ?_⟩
            intro hc
            have := he4 hc
            rw [hc] at hq; simp only [if_true] at hq; omega
        · intro hc
          rw [List.map_cons, List.sum_cons, ih2 hc, hf]
          rw [hc] at hq
          simpa using hq

/-- one struct type: from a sound table for the earlier types to the entry of this one -/
theorem struct_sound (env : Env) (ws wa : Nat) (tab : List (Nat × CEntry)) (hinv : TabInv env ws wa tab)
    (id : Nat) (sd : StructDef) (hsd : env[id]? = some sd) (e : CEntry) (he : structCost ws wa tab sd = some e) :
    SInv env ws wa id e := by
  intro fuel p
  cases fuel with
  | zero => exact ⟨Bnd_zero _ _ _ _ _, fun _ => Strict_fail _⟩
  | succ fuel =>
    rw [decFieldC_struct env fuel id sd p hsd]
    unfold structCost at he
    cases hfc : fieldsCost ws wa tab (isChoice sd) sd.fields with
    | none => rw [hfc] at he; cases he
    | some t =>
      obtain ⟨q, pp, s⟩ := t
      rw [hfc] at he
      simp only [Option.some.injEq] at he
      obtain ⟨hspec1, hspec2⟩ := fieldsCost_spec ws wa tab (isChoice sd) sd.fields q pp s hfc
      -- the bound and strictness of every component, under the parameters the loop passes
      have hcomp : ∀ fd ∈ sd.fields, ∀ fp, (fp = fd.params ∨ ∃ x, fp = { fd.params with refValue := some x }) →
          ∃ ef, tyCost ws wa tab fd.ty fd.params = some ef ∧
            Bnd ws wa ef.q pp s (decFieldC env fuel fd.ty fp) ∧ (ef.d = true → Strict (decFieldC env fuel fd.ty fp)) := by
        intro fd hfd fp hfp
        obtain ⟨ef, h1, h2, h3, _⟩ := hspec1 fd hfd
        have h1' : tyCost ws wa tab fd.ty fp = some ef := by
          rcases hfp with e' | ⟨x, e'⟩
          · rw [e']; exact h1
          · rw [e', tyCost_refValue]; exact h1
        obtain ⟨hb, hs⟩ := tyCost_sound env ws wa tab hinv fd.ty fp ef h1' fuel
        exact ⟨ef, h1, Bnd_mono (Nat.le_refl _) h2 h3 hb, hs⟩
      let qf : Field → Nat := fun fd => ((tyCost ws wa tab fd.ty fd.params).map (·.q)).getD 0
      have hf : ∀ fd ∈ sd.fields, ∀ fp, (fp = fd.params ∨ ∃ x, fp = { fd.params with refValue := some x }) →
          Bnd ws wa (qf fd) pp s (decFieldC env fuel fd.ty fp) := by
        intro fd hfd fp hfp
        obtain ⟨ef, h1, hb, _⟩ := hcomp fd hfd fp hfp
        have : qf fd = ef.q := by simp [qf, h1]
        rw [this]; exact hb
      have hQ : if isChoice sd then ∀ fd ∈ sd.fields, qf fd ≤ q else (sd.fields.map qf).sum ≤ q := by
        cases hc : isChoice sd with
        | true =>
          simp only [if_true]
          intro fd hfd
          obtain ⟨ef, h1, _, _, h4⟩ := hspec1 fd hfd
          have : qf fd = ef.q := by simp [qf, h1]
          rw [this]; exact h4 hc
        | false =>
          simp only [Bool.false_eq_true, if_false]
          exact Nat.le_of_eq (hspec2 hc)
      have hbody : ∀ ve, Bnd ws wa q (if p.openType then pp + wa else pp) s
          (decStructC (decFieldC env fuel) (refFieldValue env fuel) (zeroVal env fuel) sd p ve) :=
        fun ve => Bnd_decStruct ws wa q pp s _ _ _ sd p ve qf hf hQ
      have hrestB : ∀ ve ob, Bnd ws wa q (if p.openType then pp + wa else pp) s
          (structRestC (decFieldC env fuel) (refFieldValue env fuel) (zeroVal env fuel) sd p ve ob) :=
        fun ve ob => Bnd_structRest ws wa q pp s _ _ _ sd p ve ob qf hf hQ
      rw [← he]
      dsimp only
      refine ⟨?_, ?_⟩
      · refine Bnd_entry ?_
        unfold structBodyC
        exact Bnd_bind0 (Bnd_lift ws wa _ (MonoD_extBits _ _)) (fun x => hbody x.2)
      · intro hd
        refine Strict_entry ?_
        unfold structBodyC
        simp only [Bool.or_eq_true, Bool.and_eq_true, Bool.not_eq_true'] at hd
        rcases hd with hve | ⟨hot, hdd⟩
        · refine Strict_bind_l (Strict_lift (StrictD_extBits p false (Or.inr (by simp [hve])))) (fun x => Bnd_toMono (hbody x.2))
        · refine Strict_bind_r (MonoC_lift (MonoD_extBits _ _)) (fun x => ?_)
          refine Strict_decStruct _ _ _ sd p x.2 (fun fd hfd => Bnd_toMono (hf fd hfd fd.params (Or.inl rfl)))
            (fun ob => Bnd_toMono (hrestB x.2 ob)) (fun rest hsub i oc ob vals => ?_) ?_
          · exact Bnd_toMono (Bnd_seqFields ws wa pp s _ _ sd.fields qf rest
              (fun fd h fp sh => hf fd (hsub fd h) fp sh) i oc ob vals)
          · by_cases hc : isChoice sd = true
            · exact Or.inl ⟨hc, hot⟩
            · have hc' : isChoice sd = false := by simpa using hc
              by_cases hany : sd.fields.any (fun f => f.params.optional) = true
              · exact Or.inr (Or.inl hany)
              · have hfirst : (match sd.fields with
                    | f0 :: _ => (match tyCost ws wa tab f0.ty f0.params with | some e => e.d | none => false)
                    | [] => false) = true := by
                  rcases hdd with (h1 | h1) | h1
                  · exact absurd h1 hc
                  · exact absurd h1 hany
                  · exact h1
                refine Or.inr (Or.inr ⟨hc', ?_⟩)
                cases hfl : sd.fields with
                | nil => rw [hfl] at hfirst; simp at hfirst
                | cons f0 rest =>
                  rw [hfl] at hfirst hany
                  dsimp only at hfirst
                  refine ⟨f0, rest, rfl, ?_, ?_⟩
                  · simp only [List.any_cons, Bool.or_eq_true, not_or] at hany
                    simpa using hany.1
                  · intro fp hfp
                    obtain ⟨ef, h1, _, hs⟩ := hcomp f0 (by rw [hfl]; exact List.mem_cons_self) fp hfp
                    rw [h1] at hfirst
                    exact hs hfirst

/-- the one-pass computation of the table is sound -/
theorem costTabFrom_sound (env : Env) (ws wa : Nat) : ∀ (rest : List StructDef) (id : Nat) (acc tab : List (Nat × CEntry)),
    (∀ k sd, rest[k]? = some sd → env[id + k]? = some sd) → TabInv env ws wa acc →
    costTabFrom ws wa id rest acc = some tab → TabInv env ws wa tab := by
  intro rest
  induction rest with
  | nil =>
    intro id acc tab _ hinv h
    simp only [costTabFrom, Option.some.injEq] at h
    rw [← h]; exact hinv
  | cons sd rest ih =>
    intro id acc tab hget hinv h
    have hsd : env[id]? = some sd := by simpa using hget 0 sd (by simp)
    have hget' : ∀ k sd', rest[k]? = some sd' → env[id + 1 + k]? = some sd' := by
      intro k sd' hk
      have := hget (k + 1) sd' (by simpa using hk)
      rw [show id + 1 + k = id + (k + 1) by omega]; exact this
    unfold costTabFrom at h
    cases hs : structCost ws wa acc sd with
    | none => rw [hs] at h; cases h
    | some e =>
      rw [hs] at h
      dsimp only at h
      refine ih (id + 1) ((id, e) :: acc) tab hget' ?_ h
      intro j ej hl
      unfold lookupE at hl
      by_cases hj : (id == j) = true
      · simp only [hj, if_true, Option.some.injEq] at hl
        have : id = j := by simpa using hj
        subst this
        rw [← hl]
        exact struct_sound env ws wa acc hinv id sd hsd e hs
      · simp only [hj, if_false] at hl
        exact hinv j ej hl

theorem costTab_sound (env : Env) (ws wa : Nat) (tab : List (Nat × CEntry)) (h : costTab ws wa env = some tab) :
    TabInv env ws wa tab := by
  unfold costTab at h
  refine costTabFrom_sound env ws wa env 0 [] tab ?_ ?_ h
  · intro k sd hk; simpa using hk
  · intro j e hl; simp [lookupE] at hl

/-- **the cost bound**: over a schema whose table is accepted, decoding ANY byte string as a value of a covered type
    costs at most `q + p·(8·|bs|) + s`, whatever the fuel -/
theorem unmarshalCost_bound (env : Env) (ws wa : Nat) (ty : Ty) (p : Params) (e : CEntry)
    (h : topCost ws wa env ty p = some e) (fuel : Nat) (bs : Bytes) :
    cst ws wa (unmarshalCost env fuel ty p bs).2 ≤ e.q + e.p * (8 * bs.length) + e.s := by
  unfold topCost at h
  cases ht : costTab ws wa env with
  | none => rw [ht] at h; cases h
  | some tab =>
    rw [ht] at h
    dsimp only at h
    have hb := (tyCost_sound env ws wa tab (costTab_sound env ws wa tab ht) ty p e h fuel).1 (Rd.ofBytes bs)
    have hlen : (Rd.ofBytes bs).len = 8 * bs.length := rfl
    rw [hlen] at hb
    unfold unmarshalCost
    rcases hd : decFieldC env fuel ty p (Rd.ofBytes bs) with ⟨res, c⟩
    rw [hd] at hb
    cases res with
    | error err => exact hb.2
    | ok x => obtain ⟨v, r⟩ := x; exact hb.2


/-! ### every struct type of the schema on its own (transfer containers) -/

theorem lookup_le_max : ∀ (tab : List (Nat × CEntry)) (j : Nat) (e : CEntry), lookupE j tab = some e →
    e.q ≤ (tabMax tab).1 ∧ e.p ≤ (tabMax tab).2.1 ∧ e.s ≤ (tabMax tab).2.2 := by
  intro tab
  induction tab with
  | nil => intro j e h; simp [lookupE] at h
  | cons x rest ih =>
    intro j e h
    obtain ⟨k, ek⟩ := x
    unfold lookupE at h
    unfold tabMax
    dsimp only
    by_cases hk : (k == j) = true
    · simp only [hk, if_true, Option.some.injEq] at h
      rw [← h]
      exact ⟨Nat.le_max_left _ _, Nat.le_max_left _ _, Nat.le_max_left _ _⟩
    · simp only [hk, if_false] at h
      obtain ⟨h1, h2, h3⟩ := ih j e h
      exact ⟨Nat.le_trans h1 (Nat.le_max_right _ _), Nat.le_trans h2 (Nat.le_max_right _ _),
        Nat.le_trans h3 (Nat.le_max_right _ _)⟩

theorem costTabFrom_ids (ws wa : Nat) : ∀ (rest : List StructDef) (id : Nat) (acc tab : List (Nat × CEntry)),
    costTabFrom ws wa id rest acc = some tab → (∀ j, j < id → (lookupE j acc).isSome = true) →
    ∀ j, j < id + rest.length → (lookupE j tab).isSome = true := by
  intro rest
  induction rest with
  | nil =>
    intro id acc tab h hacc j hj
    simp only [costTabFrom, Option.some.injEq] at h
    rw [← h]; exact hacc j (by simpa using hj)
  | cons sd rest ih =>
    intro id acc tab h hacc j hj
    unfold costTabFrom at h
    cases hs : structCost ws wa acc sd with
    | none => rw [hs] at h; cases h
    | some e =>
      rw [hs] at h
      dsimp only at h
      refine ih (id + 1) ((id, e) :: acc) tab h ?_ j (by simp only [List.length_cons] at hj; omega)
      intro j' hj'
      unfold lookupE
      by_cases hk : (id == j') = true
      · simp [hk]
      · simp only [hk, if_false]
        have : id ≠ j' := by simpa using hk
        exact hacc j' (by omega)

/-- decoding ANY byte string as ANY struct type of the schema (not as an open type) stays below the maxima of the table -/
theorem unmarshalCost_bound_any (env : Env) (ws wa : Nat) (tab : List (Nat × CEntry)) (ht : costTab ws wa env = some tab)
    (id : Nat) (p : Params) (hot : p.openType = false) (fuel : Nat) (bs : Bytes) :
    cst ws wa (unmarshalCost env fuel (.struct id) p bs).2 ≤
      (ws + (tabMax tab).1) + (tabMax tab).2.1 * (8 * bs.length) + (tabMax tab).2.2 := by
  have hbnd : Bnd ws wa (ws + (tabMax tab).1) (tabMax tab).2.1 (tabMax tab).2.2 (decFieldC env fuel (.struct id) p) := by
    by_cases hid : id < env.length
    · have hsome := costTabFrom_ids ws wa env 0 [] tab ht (by intro j hj; omega) id (by omega)
      cases hl : lookupE id tab with
      | none => rw [hl] at hsome; cases hsome
      | some e =>
        obtain ⟨h1, h2, h3⟩ := lookup_le_max tab id e hl
        have := (costTab_sound env ws wa tab ht id e hl fuel p).1
        rw [hot] at this
        simp only [Bool.false_eq_true, if_false] at this
        exact Bnd_mono (by omega) h2 h3 this
    · have hnone : env[id]? = none := List.getElem?_eq_none (by omega)
      cases fuel with
      | zero => exact Bnd_zero _ _ _ _ _
      | succ fuel =>
        rw [decFieldC_struct_none env fuel id p hnone]
        exact Bnd_mono (by omega) (Nat.zero_le _) (Nat.zero_le _) (Bnd_entry (ws := ws) (Bnd_fail ws wa _))
  have hb := hbnd (Rd.ofBytes bs)
  have hlen : (Rd.ofBytes bs).len = 8 * bs.length := rfl
  rw [hlen] at hb
  unfold unmarshalCost
  rcases hd : decFieldC env fuel (.struct id) p (Rd.ofBytes bs) with ⟨res, c⟩
  rw [hd] at hb
  cases res with
  | error err => exact hb.2
  | ok x => obtain ⟨v, r⟩ := x; exact hb.2

/-- both bounds from one evaluated summary of the table -/
theorem costSummary_spec (env : Env) (ws wa : Nat) (ty : Ty) (p : Params) (e : CEntry) (Q P S : Nat)
    (h : costSummary ws wa env ty p = some (e, Q, P, S)) :
    topCost ws wa env ty p = some e ∧ ∃ tab, costTab ws wa env = some tab ∧ tabMax tab = (Q, P, S) := by
  unfold costSummary at h
  unfold topCost
  cases ht : costTab ws wa env with
  | none => rw [ht] at h; cases h
  | some tab =>
    rw [ht] at h
    dsimp only at h ⊢
    cases hty : tyCost ws wa tab ty p with
    | none => rw [hty] at h; cases h
    | some e' =>
      rw [hty] at h
      simp only [Option.some.injEq, Prod.mk.injEq] at h
      exact ⟨by rw [h.1], tab, rfl, h.2⟩

end Stgutg.Proofs.AperCost
