/-
  C13 helper, part 1: ONE decidable predicate on values, `okV env canon fuel ty params v` — "v is a value of type `ty` inside every
  PER-visible constraint of `params`, in the regular Go representation" — that implies the three predicates the APER theorems
  ask for:
    * `okV_regular` : `Proofs.AperSpec.regular`           (C03: encoder model ⇔ X.691)
    * `okV_conf`    : `Proofs.AperRTComp.conf`            (C04: decoder inverts encoder)
    * `okV_spec`    : `Spec.X691.encode … = some bits`    (Proofs/BuildersOkSpec.lean: the specification encodes the value)
  so that with `encode_complete` the encoder model accepts every `okV` value (`okV_marshal`), and the decoder model returns it.
  `okV` is written from `Spec.X691.encode` (which sizes / ranges / alternatives the Recommendation can encode), plus the two
  representation conditions of `regular` (int64, ⌈n/8⌉ octets) and the canonical-BIT-STRING / never-empty-alternative
  conditions of `conf`.
-/
import Stgutg.Proofs.AperSpecTotal
import Stgutg.Proofs.AperRTComp

namespace Stgutg.Proofs.BuildersOk
open Stgutg Stgutg.Aper
open Stgutg.Proofs.AperSpec (regular isNilV)
open Stgutg.Proofs.AperRTComp (conf neTy nilExceptFrom confFields confChoice)

/-- the size `n` is allowed by `SIZE(lb..ub[, ...])` (root, or beyond the root of an extensible constraint) -/
def sizeOKn (n : Nat) (p : Params) : Bool := (Spec.X691.sizeConstraint n p.sizeExt p.sizeLB p.sizeUB).isSome

/-- the parameters a SEQUENCE component is coded with: an open type takes its reference value from the component named
    `refField` (the inline computation of `Spec.X691.components`) -/
def resolveP (gov : Ty → Val → Option Int) (allFields : List Field) (allVals : List Val) (fd : Field) : Option Params :=
  if fd.params.openType then
    match allFields.findIdx? (fun g => g.name == fd.params.refField) with
    | none => none
    | some k =>
      match allFields[k]?, allVals[k]? with
      | some rf, some rv => (gov rf.ty rv).map fun x => { fd.params with refValue := some x }
      | _, _ => none
  else some fd.params

/-- one component of a SEQUENCE: an OPTIONAL one may be absent, every other one is a value of its type -/
def okField (ok : Ty → Params → Val → Bool) (gov : Ty → Val → Option Int) (allFields : List Field) (allVals : List Val)
    (fd : Field) (v : Val) : Bool :=
  (fd.params.optional && isNil v) ||
    match resolveP gov allFields allVals fd with
    | none => false
    | some p => ok fd.ty p v

/-- the components of a SEQUENCE -/
def okFields (ok : Ty → Params → Val → Bool) (gov : Ty → Val → Option Int) (allFields : List Field) (allVals : List Val) :
    List Field → List Val → Bool
  | [], [] => true
  | fd :: frest, v :: vrest =>
    okField ok gov allFields allVals fd v && okFields ok gov allFields allVals frest vrest
  | _, _ => false

/-- CHOICE / open type: `Present = p` selects an existing alternative, every other alternative is nil, the selected one is a
    value of its type and never encodes to nothing; an open type's alternative is the one its governing identifier names,
    a plain CHOICE carries `valueUB = #alternatives − 1` -/
def okChoice (ok : Ty → Params → Val → Bool) (ne : Ty → Params → Bool) (sd : StructDef) (params : Params) (fs : List Val) : Bool :=
  decide (fs.length = sd.fields.length) &&
  match fs with
  | .int p :: alts =>
    decide (1 ≤ p) && decide (p.toNat ≤ sd.fields.length - 1) && nilExceptFrom 1 p.toNat alts &&
    match sd.fields[p.toNat]?, fs[p.toNat]? with
    | some fd, some alt =>
      ne fd.ty fd.params && ok fd.ty fd.params alt &&
      (if params.openType then fd.params.refValue.isSome && fd.params.refValue == params.refValue
       else match params.valueUB with
         | some ub => ub + 1 == ((sd.fields.length - 1 : Nat) : Int)
         | none => false)
    | _, _ => false
  | _ => false

/-- `v` is a value of type `ty` within the constraints `params`. An INTEGER lies in its root range or, for an extensible
    type, above it; `canon`: the unused bits of a BIT STRING's last octet are clear (what the decoder returns; needed for
    the round trip only — the encoder masks them) -/
def okV (env : Env) (canon : Bool) : Nat → Ty → Params → Val → Bool
  | 0, _, _, _ => false
  | fuel + 1, ty, params, v =>
    match ty, v with
    | .ptr t, .ptr v' => okV env canon fuel t params v'
    | .int, .int n =>
      (match params.valueLB, params.valueUB with
       | some lb, some ub => decide (lb ≤ n) && (decide (n ≤ ub) || params.valueExt)
       | _, _ => false) && decide (-(2 ^ 63) ≤ n) && decide (n < 2 ^ 63)
    | .enum, .enum n =>
      (match params.valueLB, params.valueUB with
       | some lb, some ub => decide (lb = 0) && decide ((n : Int) ≤ ub)
       | _, _ => false)
    | .bool, .bool _ => true
    | .bits, .bits bytes len =>
      decide (bytes.length = (len + 7) / 8) && (!canon || decide (bitsToBytes ((bytesToBits bytes).take len) = bytes)) && sizeOKn len params
    | .octs, .octs b => sizeOKn b.length params
    | .str, .str b => sizeOKn b.length params
    | .slice t, .slice vs =>
      sizeOKn vs.length params && decide (vs.length < 16384) && vs.all (fun v => okV env canon fuel t (stripSizeE params) v)
    | .struct id, .struct fs =>
      (match env[id]? with
       | none => false
       | some sd =>
         if isChoice sd then okChoice (okV env canon fuel) (neTy env) sd params fs
         else decide (fs.length = sd.fields.length) &&
           okFields (okV env canon fuel) (Spec.X691.governor env fuel) sd.fields fs sd.fields fs)
    | _, _ => false

theorem okV_nil (env : Env) (canon : Bool) (fuel : Nat) (ty : Ty) (p : Params) : okV env canon fuel ty p .nil = false := by
  cases fuel with
  | zero => rfl
  | succ f => cases ty <;> rfl

theorem resolveP_cases (gov : Ty → Val → Option Int) (allFields : List Field) (allVals : List Val) (fd : Field) (p : Params)
    (h : resolveP gov allFields allVals fd = some p) : p = fd.params ∨ ∃ x, p = { fd.params with refValue := some x } := by
  unfold resolveP at h
  split at h
  · split at h
    · simp at h
    · split at h
      · rename_i rf rv _ _
        cases hg : gov rf.ty rv with
        | none => rw [hg] at h; simp at h
        | some x => rw [hg] at h; simp only [Option.map_some, Option.some.injEq] at h; exact .inr ⟨x, h.symm⟩
      · simp at h
  · simp at h; exact .inl h.symm

/-! ### okV ⇒ regular -/

theorem nilExceptFrom_zipIdx : ∀ (alts : List Val) (j k : Nat), nilExceptFrom (j + 1) k alts = true →
    (alts.zipIdx j).all (fun (a, i) => decide (i + 1 = k) || (match a with | .nil => true | _ => false)) = true := by
  intro alts
  induction alts with
  | nil => intro j k _; rfl
  | cons a rest ih =>
    intro j k h
    simp only [nilExceptFrom, Bool.and_eq_true, Bool.or_eq_true, beq_iff_eq] at h
    simp only [List.zipIdx_cons, List.all_cons, Bool.and_eq_true, Bool.or_eq_true, decide_eq_true_eq]
    refine ⟨?_, ih (j + 1) k h.2⟩
    rcases h.1 with h1 | h1
    · exact .inl h1
    · right; cases a <;> simp [isNil] at h1 ⊢

theorem okFields_zip (ok : Ty → Params → Val → Bool) (gov : Ty → Val → Option Int) (aF : List Field) (aV : List Val) :
    ∀ (fields : List Field) (fs : List Val), okFields ok gov aF aV fields fs = true →
      ∀ x ∈ List.zip fields fs, (x.1.params.optional = true ∧ isNil x.2 = true) ∨
        ∃ p, resolveP gov aF aV x.1 = some p ∧ ok x.1.ty p x.2 = true := by
  intro fields
  induction fields with
  | nil => intro fs _ x hx; simp at hx
  | cons fd frest ih =>
    intro fs h x hx
    cases fs with
    | nil => simp at hx
    | cons v vrest =>
      simp only [okFields, okField, Bool.and_eq_true, Bool.or_eq_true] at h
      simp only [List.zip_cons_cons, List.mem_cons] at hx
      rcases hx with rfl | hx
      · rcases h.1 with h1 | h1
        · exact .inl h1
        · right
          cases hr : resolveP gov aF aV fd with
          | none => simp [hr] at h1
          | some p => simp only [hr] at h1; exact ⟨p, rfl, h1⟩
      · exact ih vrest h.2 x hx

theorem isNilV_eq (v : Val) : isNilV v = isNil v := by cases v <;> rfl

theorem okV_regular (env : Env) (canon : Bool) : ∀ (fuel : Nat) (ty : Ty) (p : Params) (v : Val) (ot : Bool),
    okV env canon fuel ty p v = true → regular env fuel ty ot v = true := by
  intro fuel
  induction fuel with
  | zero => intro ty p v ot h; simp [okV] at h
  | succ fuel ih =>
    intro ty p v ot h
    cases ty <;> cases v <;> try (simp [okV] at h; done)
    all_goals try (simp only [regular]; done)
    · -- int
      simp only [okV, Bool.and_eq_true, decide_eq_true_eq] at h
      simp only [regular, Bool.and_eq_true, decide_eq_true_eq]
      exact ⟨h.1.2, h.2⟩
    · -- bits
      simp only [okV, Bool.and_eq_true, decide_eq_true_eq] at h
      simp only [regular, decide_eq_true_eq]
      exact h.1.1
    · -- struct
      rename_i id fs
      simp only [okV] at h
      simp only [regular]
      cases hsd : env[id]? with
      | none => simp [hsd] at h
      | some sd =>
        simp only [hsd] at h ⊢
        by_cases hch : isChoice sd = true
        · simp only [hch, if_true] at h ⊢
          unfold okChoice at h
          simp only [Bool.and_eq_true, decide_eq_true_eq] at h
          obtain ⟨hlen, h⟩ := h
          cases fs with
          | nil => simp at h
          | cons f0 alts =>
            cases f0 <;> try (simp at h; done)
            rename_i pv
            simp only [Bool.and_eq_true, decide_eq_true_eq] at h
            obtain ⟨⟨⟨hp1, hp2⟩, hnil⟩, h⟩ := h
            simp only [Bool.and_eq_true]
            refine ⟨nilExceptFrom_zipIdx alts 0 pv.toNat hnil, ?_⟩
            cases hfd : sd.fields[pv.toNat]? with
            | none => simp
            | some fd =>
              cases halt : (Val.int pv :: alts)[pv.toNat]? with
              | none => simp
              | some alt =>
                simp only [hfd, halt, Bool.and_eq_true] at h ⊢
                exact ih _ _ _ _ h.1.2
        · simp only [hch, if_false, Bool.false_eq_true] at h ⊢
          simp only [Bool.and_eq_true, decide_eq_true_eq] at h
          rw [List.all_eq_true]
          intro x hx
          rcases okFields_zip _ _ _ _ _ _ h.2 x hx with h1 | ⟨q, _, h1⟩
          · simp [h1.1, isNilV_eq, h1.2]
          · simp [ih _ _ _ _ h1]
    · -- ptr
      simp only [okV] at h
      simp only [regular]
      exact ih _ _ _ _ h
    · -- slice
      simp only [okV, Bool.and_eq_true, List.all_eq_true] at h
      simp only [regular, List.all_eq_true]
      intro x hx
      exact ih _ _ _ _ (h.2 x hx)

/-! ### okV ⇒ conf -/

theorem okFields_conf (ok c : Ty → Params → Val → Bool) (gov : Ty → Val → Option Int) (aF : List Field) (aV : List Val)
    (H : ∀ (fd : Field) (v : Val) (p : Params), resolveP gov aF aV fd = some p → ok fd.ty p v = true → c fd.ty fd.params v = true) :
    ∀ (fields : List Field) (fs : List Val), okFields ok gov aF aV fields fs = true → confFields c fields fs = true := by
  intro fields
  induction fields with
  | nil => intro fs h; cases fs <;> simp [okFields] at h ⊢; rfl
  | cons fd frest ih =>
    intro fs h
    cases fs with
    | nil => simp [okFields] at h
    | cons v vrest =>
      simp only [okFields, okField, Bool.and_eq_true, Bool.or_eq_true] at h
      simp only [confFields, Bool.and_eq_true, Bool.or_eq_true]
      refine ⟨?_, ih vrest h.2⟩
      rcases h.1 with h1 | h1
      · exact .inl h1
      · right
        cases hr : resolveP gov aF aV fd with
        | none => simp [hr] at h1
        | some p => simp only [hr] at h1; exact H fd v p hr h1

theorem okV_conf (env : Env) : ∀ (fuel : Nat) (ty : Ty) (p : Params) (v : Val),
    okV env true fuel ty p v = true → conf env fuel ty p v = true := by
  intro fuel
  induction fuel with
  | zero => intro ty p v h; simp [okV] at h
  | succ fuel ih =>
    intro ty p v h
    cases ty <;> cases v <;> try (simp [okV] at h; done)
    all_goals try (simp only [conf]; done)
    · -- int
      simp only [okV, Bool.and_eq_true, decide_eq_true_eq] at h
      simp only [conf]
      cases hl : p.valueLB with
      | none => simp [hl] at h
      | some lb =>
        cases hu : p.valueUB with
        | none => simp [hl, hu] at h
        | some ub =>
          simp only [hl, hu, Bool.and_eq_true, Bool.or_eq_true, decide_eq_true_eq] at h
          simp only [Bool.and_eq_true, Bool.or_eq_true, decide_eq_true_eq]
          refine ⟨h.1.1.1, ?_⟩
          rcases h.1.1.2 with h2 | h2
          · exact .inl h2
          · exact .inr ⟨h2, h.2⟩
    · -- bits
      simp only [okV, Bool.and_eq_true, decide_eq_true_eq] at h
      simp only [conf, decide_eq_true_eq]
      simpa using h.1.2
    · -- struct
      rename_i id fs
      simp only [okV] at h
      simp only [conf]
      cases hsd : env[id]? with
      | none => simp [hsd] at h
      | some sd =>
        simp only [hsd] at h ⊢
        by_cases hch : isChoice sd = true
        · simp only [hch, if_true, Bool.not_true, Bool.false_eq_true, if_false] at h ⊢
          unfold okChoice at h
          unfold confChoice
          simp only [Bool.and_eq_true, decide_eq_true_eq] at h ⊢
          obtain ⟨hlen, h⟩ := h
          refine ⟨hlen, ?_⟩
          cases fs with
          | nil => simp at h
          | cons f0 alts =>
            cases f0 <;> try (simp at h; done)
            rename_i pv
            simp only [Bool.and_eq_true, decide_eq_true_eq] at h
            obtain ⟨⟨⟨hp1, hp2⟩, hnil⟩, h⟩ := h
            simp only [Bool.and_eq_true]
            refine ⟨hnil, ?_⟩
            cases hfd : sd.fields[pv.toNat]? with
            | none => simp [hfd] at h
            | some fd =>
              cases halt : (Val.int pv :: alts)[pv.toNat]? with
              | none => simp [hfd, halt] at h
              | some alt =>
                simp only [hfd, halt, Bool.and_eq_true] at h ⊢
                exact ⟨ih _ _ _ h.1.2, h.1.1⟩
        · simp only [hch, if_false, Bool.false_eq_true, Bool.not_false, if_true] at h ⊢
          simp only [Bool.and_eq_true, decide_eq_true_eq] at h
          refine okFields_conf _ _ _ _ _ ?_ _ _ h.2
          intro fd v q hq hok
          have := ih _ _ _ hok
          rcases resolveP_cases _ _ _ _ _ hq with rfl | ⟨x, rfl⟩
          · exact this
          · rw [Proofs.AperRTComp.conf_refValue] at this; exact this
    · -- ptr
      simp only [okV] at h
      simp only [conf]
      exact ih _ _ _ h
    · -- slice
      simp only [okV, Bool.and_eq_true, List.all_eq_true] at h
      simp only [conf, List.all_eq_true]
      intro x hx
      exact ih _ _ _ (h.2 x hx)

end Stgutg.Proofs.BuildersOk
