/-
  Helper lemmas for C06 / C10: the NAS protection model (Model/NasProtect.lean) against the specification
  (Spec/NasSecurity.lean), one step at a time; the algorithm layer comes from C07.
-/
import Stgutg.Model.NasProtect
import Stgutg.Spec.NasSecurity
import Stgutg.Proofs.Count
import Stgutg.Props.C07

set_option linter.unusedSimpArgs false

namespace Stgutg.Proofs.NasProtect
open Stgutg Stgutg.Model.NasProtect Stgutg.Model.NasAlg
open Stgutg.Spec (NasSecurity.SecCtx)
open Stgutg.Spec.NasSecurity

/-- the specification-side view of the UE's security context -/
def ctxOf (ue : UeSec) : SecCtx :=
  { ia := ue.integrityAlg.toNat, ea := ue.cipheringAlg.toNat, kNasInt := ue.knasInt, kNasEnc := ue.knasEnc }

/-- the algorithm pairs the property quantifies over: {NIA1, NIA2} × {NEA0, NEA1, NEA2} -/
def Supported (ue : UeSec) : Prop :=
  (ue.integrityAlg = 1 ∨ ue.integrityAlg = 2) ∧ (ue.cipheringAlg = 0 ∨ ue.cipheringAlg = 1 ∨ ue.cipheringAlg = 2)

/-- what the theorems need from the external primitives: CTR is a keystream cipher, the CMAC tag has ≥ 4 octets -/
structure PrimsOk (P : Prims) : Prop where
  ctr_stream : ∃ stream : Bytes → Bytes → Nat → Bytes,
    (∀ k iv n, (stream k iv n).length = n) ∧ ∀ k iv m, P.ctr k iv m = xorBytes m (stream k iv m.length)
  cmac_len : ∀ k m, 4 ≤ (P.cmac k m).length

/-- a toy instance of the primitives used by the witnesses and satisfiability examples of C06/C10: CTR xors every octet with octet 4 of the
    counter block (BEARER ‖ DIRECTION), the CMAC tag is constant -/
def toyPrims : Prims :=
  { aes := fun _ b => b,
    ctr := fun _ iv m => xorBytes m (List.replicate m.length (iv.getD 4 0 ||| 0x80)),
    cmac := fun _ _ => [0xa0, 0xa1, 0xa2, 0xa3],
    hmac := fun _ _ => [] }

theorem toyPrims_ok : PrimsOk toyPrims :=
  ⟨⟨fun _ iv n => List.replicate n (iv.getD 4 0 ||| 0x80), fun _ _ _ => by simp, fun _ _ _ => rfl⟩,
   fun _ _ => by simp [toyPrims]⟩

theorem mac_tie (P : Prims) (ia : UInt8) (k : Bytes) (c : UInt32) (d : UInt8) (msg : Bytes)
    (hia : ia = 1 ∨ ia = 2) (hd : d.toNat < 2) (hm : msg ≠ []) :
    ∃ m, nasMac P ia k c bearer3GPP d msg = .ok m ∧ Spec.NasAlg.nia P ia.toNat k c 1 d.toNat msg = some m := by
  rcases hia with rfl | rfl
  · exact ⟨_, Props.C07.nia1 P k c 1 d msg (by decide) hd hm, rfl⟩
  · exact ⟨_, Props.C07.nia2 P k c 1 d msg (by decide) hd, rfl⟩

theorem enc_tie (P : Prims) (ea : UInt8) (k : Bytes) (c : UInt32) (d : UInt8) (msg : Bytes)
    (hea : ea = 0 ∨ ea = 1 ∨ ea = 2) (hd : d.toNat < 2) :
    ∃ b, nasEncrypt P ea k c bearer3GPP d msg = .ok b ∧ Spec.NasAlg.nea P ea.toNat k c 1 d.toNat msg = some b := by
  rcases hea with rfl | rfl | rfl
  · exact ⟨_, Props.C07.nea0_id P k c 1 d msg (by decide) hd, rfl⟩
  · exact ⟨_, Props.C07.nea1 P k c 1 d msg (by decide) hd, rfl⟩
  · exact ⟨_, Props.C07.nea2 P k c 1 d msg (by decide) hd, rfl⟩

/-- the 32-bit COUNT the code passes (`Count.Get()`) is 0x00 ‖ NAS COUNT of the specification -/
theorem get_eq_count32 (w : UInt32) : (Count.get w).2 = count32 (w.toNat % 2 ^ 24) := by
  apply UInt32.toNat_inj.mp
  rw [Count.toNat_get_value, count32, countMod, UInt32.toNat_ofNat']
  omega

theorem get_get (w : UInt32) : (Count.get (Count.get w).2).2 = (Count.get w).2 := by
  apply UInt32.toNat_inj.mp
  rw [Count.toNat_get_value, Count.toNat_get_value]; omega

theorem get_fst (w : UInt32) : (Count.get w).1 = (Count.get w).2 := rfl

/-- the UE state after the optional new-context reset at the start of `NASEncode` -/
def afterReset (ue : UeSec) (newCtx : Bool) : UeSec :=
  if newCtx then { ue with ulCount := Count.set ue.ulCount 0 0, dlCount := Count.set ue.dlCount 0 0 } else ue

/-- `NASEncode` in one equation, given the results of the two library calls -/
theorem nasEncodeCore_ok (cipherP : UInt8 → Bool) (P : Prims) (ue : UeSec) (op : UlOp) (hctx : op.ctxAvail = true) (body mac : Bytes)
    (henc : (if cipherP op.sht then
              nasEncrypt P ue.cipheringAlg ue.knasEnc (Count.get (afterReset ue op.newCtx).ulCount).2 bearer3GPP directionUplink op.plain
             else .ok op.plain) = .ok body)
    (hmac : nasMac P ue.integrityAlg ue.knasInt (Count.get (afterReset ue op.newCtx).ulCount).2 bearer3GPP directionUplink
              (Count.sqn (afterReset ue op.newCtx).ulCount :: body) = .ok mac) :
    nasEncodeCore cipherP P ue op =
      ({ afterReset ue op.newCtx with ulCount := Count.addOne (Count.get (afterReset ue op.newCtx).ulCount).1 },
       .ok ([op.epd, op.sht] ++ mac ++ (Count.sqn (afterReset ue op.newCtx).ulCount :: body))) := by
  unfold nasEncodeCore
  cases hn : op.newCtx <;> simp [hn, afterReset] at henc hmac <;>
    simp [hctx, afterReset, get_fst, get_get, henc, hmac]


/-- the NAS COUNT value of a stored word -/
def cval (w : UInt32) : Nat := w.toNat % 2 ^ 24

theorem cval_lt (w : UInt32) : cval w < 2 ^ 24 := by unfold cval; omega

theorem cval_set_zero (w : UInt32) : cval (Count.set w 0 0) = 0 := Count.toNat_set_zero w

theorem cval_afterReset_ul (ue : UeSec) (n : Bool) :
    cval (afterReset ue n).ulCount = if n then 0 else cval ue.ulCount := by
  cases n <;> simp [afterReset, cval_set_zero]

theorem cval_afterReset_dl (ue : UeSec) (n : Bool) :
    cval (afterReset ue n).dlCount = if n then 0 else cval ue.dlCount := by
  cases n <;> simp [afterReset, cval_set_zero]

theorem cval_addOne_get (w : UInt32) : cval (Count.addOne (Count.get w).1) = (cval w + 1) % 2 ^ 24 := by
  unfold cval
  rw [Count.toNat_addOne, Count.toNat_get_stored]; omega

theorem toNat_addOne_get (w : UInt32) : (Count.addOne (Count.get w).1).toNat = (cval w + 1) % 2 ^ 24 := by
  unfold cval
  rw [Count.toNat_addOne, Count.toNat_get_stored]

theorem sqn_eq (w : UInt32) : Count.sqn w = UInt8.ofNat (sqnOf (cval w)) := by
  apply UInt8.toNat_inj.mp
  rw [Count.toNat_sqn, UInt8.toNat_ofNat', sqnOf, cval]; omega

theorem get_eq (w : UInt32) : (Count.get w).2 = count32 (cval w) := get_eq_count32 w

theorem isCipheredType_eq (s : UInt8) : isCipheredType s = ciphered s.toNat := by
  unfold isCipheredType ciphered
  have h (k : UInt8) : (s == k) = (s.toNat == k.toNat) := by
    rw [Bool.eq_iff_iff]; simp [← UInt8.toNat_inj]
  rw [h 2, h 4]; rfl

theorem isNewContextType_eq (s : UInt8) : isNewContextType s = newContext s.toNat := by
  unfold isNewContextType newContext
  have h (k : UInt8) : (s == k) = (s.toNat == k.toNat) := by
    rw [Bool.eq_iff_iff]; simp [← UInt8.toNat_inj]
  rw [h 3, h 4]; rfl

/-- One protected uplink message, in the words of the property: with `c` the NAS COUNT in force
    (0 if a new context is taken into use), the octets are EPD ‖ type ‖ MAC ‖ SQN ‖ body where
    body = NEA(plain) under the ciphered header types and plain otherwise, MAC = NIA over SQN ‖ body,
    both with COUNT c, BEARER 1, DIRECTION uplink; the UL counter moves to c + 1 mod 2^24. -/
theorem ul_step (P : Prims) (ue : UeSec) (op : UlOp) (hs : Supported ue) (hctx : op.ctxAvail = true) :
    ∃ body mac,
      bodyAsSent P (ctxOf ue) uplink (if op.newCtx then 0 else cval ue.ulCount) op.sht.toNat op.plain = some body ∧
      macOf P (ctxOf ue) uplink (if op.newCtx then 0 else cval ue.ulCount) body = some mac ∧
      nasEncode P ue op =
        ({ afterReset ue op.newCtx with ulCount := Count.addOne (Count.get (afterReset ue op.newCtx).ulCount).1 },
         .ok ([op.epd, op.sht] ++ mac ++ [UInt8.ofNat (sqnOf (if op.newCtx then 0 else cval ue.ulCount))] ++ body)) := by
  have hc := cval_afterReset_ul ue op.newCtx
  -- ciphering
  have henc : ∃ body, (if isCipheredType op.sht then
        nasEncrypt P ue.cipheringAlg ue.knasEnc (Count.get (afterReset ue op.newCtx).ulCount).2 bearer3GPP directionUplink op.plain
      else .ok op.plain) = .ok body ∧
      bodyAsSent P (ctxOf ue) uplink (if op.newCtx then 0 else cval ue.ulCount) op.sht.toNat op.plain = some body := by
    unfold bodyAsSent
    rw [← isCipheredType_eq]
    cases hcp : isCipheredType op.sht
    · exact ⟨op.plain, by simp, by simp⟩
    · obtain ⟨b, hb1, hb2⟩ := enc_tie P ue.cipheringAlg ue.knasEnc (Count.get (afterReset ue op.newCtx).ulCount).2
        directionUplink op.plain hs.2 (by decide)
      refine ⟨b, by simpa using hb1, ?_⟩
      rw [get_eq, hc] at hb2
      simpa [ctxOf, bearer3gpp, uplink, directionUplink] using hb2
  obtain ⟨body, henc1, henc2⟩ := henc
  obtain ⟨mac, hm1, hm2⟩ := mac_tie P ue.integrityAlg ue.knasInt (Count.get (afterReset ue op.newCtx).ulCount).2
    directionUplink (Count.sqn (afterReset ue op.newCtx).ulCount :: body) hs.1 (by decide) (by simp)
  refine ⟨body, mac, henc2, ?_, ?_⟩
  · rw [get_eq, sqn_eq, hc] at hm2
    simpa [macOf, ctxOf, bearer3gpp, uplink, directionUplink] using hm2
  · rw [nasEncode, nasEncodeCore_ok isCipheredType P ue op hctx body mac henc1 hm1, sqn_eq, hc]
    simp


/-! ### the conformant receiver inverts the conformant sender (specification level) -/

theorem xorBytes_length (a b : Bytes) (h : b.length = a.length) : (xorBytes a b).length = a.length := by
  simp [xorBytes, List.length_zipWith, h]

/-- every supported 128-NEA is an involution (keystream ciphers) -/
theorem nea_involutive (P : Prims) (hP : PrimsOk P) (ea : Nat) (k : Bytes) (c : UInt32) (b d : Nat) (plain body : Bytes)
    (hea : ea = 0 ∨ ea = 1 ∨ ea = 2) (h : Spec.NasAlg.nea P ea k c b d plain = some body) :
    Spec.NasAlg.nea P ea k c b d body = some plain := by
  rcases hea with rfl | rfl | rfl
  · simp [Spec.NasAlg.nea] at h ⊢; exact h.symm
  · simp only [Spec.NasAlg.nea, Option.some.injEq] at h ⊢
    subst h
    have hc := (Props.C07.eea1_covers_every_octet k c b d plain).1
    unfold Spec.NasAlg.eea1
    rw [xorBytes_length _ _ hc]
    exact Props.C07.xor_involutive plain _ hc
  · simp only [Spec.NasAlg.nea, Option.some.injEq] at h ⊢
    subst h
    obtain ⟨stream, hlen, hctr⟩ := hP.ctr_stream
    unfold Spec.NasAlg.eea2
    rw [hctr, hctr, xorBytes_length _ _ (hlen _ _ _)]
    exact Props.C07.xor_involutive plain _ (hlen _ _ _)

theorem len5 {α : Type} (l : List α) (h : l.length = 5) : ∃ a b c d e, l = [a, b, c, d, e] := by
  match l, h with
  | [a, b, c, d, e], _ => exact ⟨a, b, c, d, e, rfl⟩

theorem eia1_length (k : Bytes) (c : UInt32) (b d : Nat) (msg : Bytes) : (Spec.NasAlg.eia1 k c b d msg).length = 4 := by
  unfold Spec.NasAlg.eia1
  simp only
  generalize hks : Spec.Snow3g.keystream 5 _ = ks
  have hl : ks.length = 5 := by rw [← hks]; exact Proofs.Snow3g.keystream_length 5 _
  obtain ⟨z1, z2, z3, z4, z5, rfl⟩ := len5 ks hl
  simp [Spec.NasAlg.wordBytes]

/-- a 128-NIA MAC has four octets -/
theorem nia_length (P : Prims) (hP : PrimsOk P) (ia : Nat) (k : Bytes) (c : UInt32) (b d : Nat) (msg mac : Bytes)
    (h : Spec.NasAlg.nia P ia k c b d msg = some mac) : ∃ m0 m1 m2 m3, mac = [m0, m1, m2, m3] := by
  have hl : mac.length = 4 := by
    unfold Spec.NasAlg.nia at h
    split at h
    · simp only [Option.some.injEq] at h; subst h; exact eia1_length ..
    · simp only [Option.some.injEq] at h; subst h
      have := hP.cmac_len k (Spec.NasAlg.countBearerDir c b d ++ msg)
      simp [Spec.NasAlg.eia2, List.length_take]; omega
    · simp at h
  match mac, hl with
  | [m0, m1, m2, m3], _ => exact ⟨m0, m1, m2, m3, rfl⟩


theorem protectedType_cases (sht : Nat) (h : protectedType sht = true) : sht = 1 ∨ sht = 2 ∨ sht = 3 ∨ sht = 4 := by
  have : ((sht = 1 ∨ sht = 2) ∨ sht = 3) ∨ sht = 4 := by simpa [protectedType] using h
  omega

/-- **receiver-recovers-plaintext**: whatever `protect` emits, `receive` with the same context and NAS COUNT
    accepts (sequence number and MAC check out) and returns exactly the plain message. -/
theorem receive_protect (P : Prims) (hP : PrimsOk P) (ctx : SecCtx) (hea : ctx.ea = 0 ∨ ctx.ea = 1 ∨ ctx.ea = 2)
    (dir c : Nat) (epd : UInt8) (sht : Nat) (plain out : Bytes)
    (h : protect P ctx dir c epd sht plain = some out) : receive P ctx dir c out = some plain := by
  unfold protect at h
  cases hpt : protectedType sht
  · simp [hpt] at h
  simp only [hpt, Bool.not_true, Bool.false_eq_true, if_false] at h
  cases hb : bodyAsSent P ctx dir c sht plain with
  | none => simp [hb] at h
  | some body =>
    simp only [hb] at h
    cases hm : macOf P ctx dir c body with
    | none => simp [hm] at h
    | some mac =>
      simp only [hm, Option.some.injEq] at h
      obtain ⟨m0, m1, m2, m3, rfl⟩ := nia_length P hP _ _ _ _ _ _ _ hm
      subst h
      have hsq : (UInt8.ofNat (sqnOf c)).toNat = sqnOf c := by
        rw [UInt8.toNat_ofNat']; unfold sqnOf; omega
      have hdec : (if ciphered sht then Spec.NasAlg.nea P ctx.ea ctx.kNasEnc (count32 c) bearer3gpp dir body else some body)
          = some plain := by
        unfold bodyAsSent at hb
        cases hc : ciphered sht
        · simp [hc] at hb ⊢; exact hb.symm
        · simp only [hc, if_true] at hb ⊢
          exact nea_involutive P hP _ _ _ _ _ _ _ hea hb
      rcases protectedType_cases sht hpt with rfl | rfl | rfl | rfl <;>
        simp [receive, protectedType, hsq, hm] <;> simpa using hdec


/-! ### downlink: the UE's COUNT estimate and recovery -/

/-- the estimate of `NASDecode` (`SQN() > sqn → overflow+1; SetSQN(sqn)`, then `Get()`) is the sender's NAS COUNT
    whenever that COUNT is at most 255 ahead (mod 2^24) of the UE's stored value — for every stored word. -/
theorem estimate_correct (w : UInt32) (c : Nat) (hc : c < 2 ^ 24) (hd : (c + 2 ^ 24 - cval w) % 2 ^ 24 < 256) :
    (Count.get (Count.setSQN
        (if Count.sqn w > UInt8.ofNat (sqnOf c) then Count.setOverflow w (Count.overflow w + 1) else w)
        (UInt8.ofNat (sqnOf c)))).2 = UInt32.ofNat c := by
  apply UInt32.toNat_inj.mp
  have hx : w.toNat < 2 ^ 32 := w.toNat_lt
  have hs : (UInt8.ofNat (sqnOf c)).toNat = c % 256 := by
    rw [UInt8.toNat_ofNat']; unfold sqnOf; omega
  rw [Count.toNat_get_value, Count.toNat_setSQN, hs, UInt32.toNat_ofNat']
  unfold cval at hd
  by_cases hgt : Count.sqn w > UInt8.ofNat (sqnOf c)
  · have hgt' : c % 256 < w.toNat % 256 := by
      have := UInt8.lt_iff_toNat_lt.mp hgt
      rwa [hs, Count.toNat_sqn] at this
    have ho : (Count.overflow w + 1).toNat = (w.toNat / 256 % 65536 + 1) % 65536 := by
      rw [UInt16.toNat_add, Count.toNat_overflow]; rfl
    rw [if_pos hgt, Count.toNat_setOverflow, ho]
    omega
  · have hgt' : ¬ c % 256 < w.toNat % 256 := by
      intro h; apply hgt; apply UInt8.lt_iff_toNat_lt.mpr
      rwa [hs, Count.toNat_sqn]
    rw [if_neg hgt]
    omega


/-- `if SQN() > sqn { SetOverflow(Overflow()+1) }; SetSQN(sqn)` -/
def estim (w : UInt32) (s : UInt8) : UInt32 :=
  Count.setSQN (if Count.sqn w > s then Count.setOverflow w (Count.overflow w + 1) else w) s

/-- `NASDecode` on a protected message with at least seven octets, NIA ≠ 0, in one equation, given the results of
    the two library calls. -/
theorem nasDecodeCore_ok (decipherP : UInt8 → Bool) (dir : UInt8) (P : Prims) (ue : UeSec) (sht : UInt8)
    (h0 h1 h2 h3 h4 h5 sqn : UInt8) (body mac p : Bytes)
    (hsht : (sht == 0) = false) (hia : (ue.integrityAlg == 0) = false)
    (hmac : nasMac P ue.integrityAlg ue.knasInt
        (Count.get (estim (if isNewContextType sht then Count.set ue.dlCount 0 0 else ue.dlCount) sqn)).2
        bearer3GPP directionDownlink (sqn :: body) = .ok mac)
    (hdec : (if decipherP sht then
        nasEncrypt P ue.cipheringAlg ue.knasEnc
          (Count.get (estim (if isNewContextType sht then Count.set ue.dlCount 0 0 else ue.dlCount) sqn)).2
          bearer3GPP dir body else .ok body) = .ok p) :
    nasDecodeCore decipherP dir P ue sht (h0 :: h1 :: h2 :: h3 :: h4 :: h5 :: sqn :: body) =
      ({ ue with dlCount := (Count.get (estim (if isNewContextType sht then Count.set ue.dlCount 0 0 else ue.dlCount) sqn)).2 },
       handToPlainDecode p) := by
  unfold nasDecodeCore estim at *
  cases hn : isNewContextType sht <;> simp only [hn] at hmac hdec ⊢
  · by_cases hgt : Count.sqn ue.dlCount > sqn
    · simp [hgt] at hmac hdec
      cases hdp : decipherP sht
      · simp [hdp] at hdec; subst hdec; simp [hsht, hia, hgt, get_fst, get_get, hmac, hdp]
      · simp [hdp] at hdec; simp [hsht, hia, hgt, get_fst, get_get, hmac, hdec, hdp]
    · simp [hgt] at hmac hdec
      cases hdp : decipherP sht
      · simp [hdp] at hdec; subst hdec; simp [hsht, hia, hgt, get_fst, get_get, hmac, hdp]
      · simp [hdp] at hdec; simp [hsht, hia, hgt, get_fst, get_get, hmac, hdec, hdp]
  · by_cases hgt : Count.sqn (Count.set ue.dlCount 0 0) > sqn
    · simp [hgt] at hmac hdec
      cases hdp : decipherP sht
      · simp [hdp] at hdec; subst hdec; simp [hsht, hia, hgt, get_fst, get_get, hmac, hdp]
      · simp [hdp] at hdec; simp [hsht, hia, hgt, get_fst, get_get, hmac, hdec, hdp]
    · simp [hgt] at hmac hdec
      cases hdp : decipherP sht
      · simp [hdp] at hdec; subst hdec; simp [hsht, hia, hgt, get_fst, get_get, hmac, hdp]
      · simp [hdp] at hdec; simp [hsht, hia, hgt, get_fst, get_get, hmac, hdec, hdp]


theorem supported_ia_ne_zero (ue : UeSec) (hs : Supported ue) : (ue.integrityAlg == 0) = false := by
  rcases hs.1 with h | h <;> rw [h] <;> rfl

theorem supported_ea (ue : UeSec) (hs : Supported ue) : (ctxOf ue).ea = 0 ∨ (ctxOf ue).ea = 1 ∨ (ctxOf ue).ea = 2 := by
  rcases hs.2 with h | h | h <;> simp [ctxOf, h]

theorem handToPlainDecode_ne (plain : Bytes) (hne : plain ≠ []) : handToPlainDecode plain = .ok plain := by
  unfold handToPlainDecode
  cases plain with
  | nil => exact absurd rfl hne
  | cons a l => rfl

theorem ofNat_sht_toNat (sht : Nat) (h : sht ≤ 4) : (UInt8.ofNat sht).toNat = sht := by
  rw [UInt8.toNat_ofNat']; omega

/-- One protected downlink message of the conformant sender (`protect … downlink c`), delivered to `NASDecode`
    while the sender's COUNT `c` is at most 255 ahead of the UE's estimate (0 after a new-context header):
    the plain message is handed to the plain decoder and the UE's DL COUNT becomes exactly `c`. -/
theorem dl_step (P : Prims) (hP : PrimsOk P) (ue : UeSec) (hs : Supported ue) (sht c : Nat) (epd : UInt8)
    (plain out : Bytes) (hne : plain ≠ []) (hc : c < 2 ^ 24)
    (hd : (c + 2 ^ 24 - (if newContext sht then 0 else cval ue.dlCount)) % 2 ^ 24 < 256)
    (h : protect P (ctxOf ue) downlink c epd sht plain = some out) :
    nasDecode P ue (UInt8.ofNat sht) out = ({ ue with dlCount := UInt32.ofNat c }, .ok plain) := by
  unfold protect at h
  cases hpt : protectedType sht
  · simp [hpt] at h
  simp only [hpt, Bool.not_true, Bool.false_eq_true, if_false] at h
  have hsht4 : sht ≤ 4 := by rcases protectedType_cases sht hpt with h | h | h | h <;> omega
  have hshtn : (UInt8.ofNat sht).toNat = sht := ofNat_sht_toNat sht hsht4
  cases hb : bodyAsSent P (ctxOf ue) downlink c sht plain with
  | none => simp [hb] at h
  | some body =>
    simp only [hb] at h
    cases hm : macOf P (ctxOf ue) downlink c body with
    | none => simp [hm] at h
    | some mac =>
      simp only [hm, Option.some.injEq] at h
      obtain ⟨m0, m1, m2, m3, rfl⟩ := nia_length P hP _ _ _ _ _ _ _ hm
      subst h
      have hnc : isNewContextType (UInt8.ofNat sht) = newContext sht := by rw [isNewContextType_eq, hshtn]
      have hcp : isCipheredType (UInt8.ofNat sht) = ciphered sht := by rw [isCipheredType_eq, hshtn]
      -- the estimate
      have hest : (Count.get (estim (if isNewContextType (UInt8.ofNat sht) then Count.set ue.dlCount 0 0 else ue.dlCount)
          (UInt8.ofNat (sqnOf c)))).2 = UInt32.ofNat c := by
        apply estimate_correct _ c hc
        rw [hnc]
        cases hn : newContext sht <;> simp [hn, cval_set_zero] at hd ⊢ <;> exact hd
      -- the MAC computation succeeds (its value is only printed)
      obtain ⟨mac', hmac', -⟩ := mac_tie P ue.integrityAlg ue.knasInt (UInt32.ofNat c) directionDownlink
        (UInt8.ofNat (sqnOf c) :: body) hs.1 (by decide) (by simp)
      -- deciphering restores the plain message
      have hcount : count32 c = UInt32.ofNat c := by unfold count32 countMod; rw [Nat.mod_eq_of_lt hc]
      have hdec : (if isCipheredType (UInt8.ofNat sht) then
            nasEncrypt P ue.cipheringAlg ue.knasEnc (UInt32.ofNat c) bearer3GPP directionDownlink body
          else .ok body) = .ok plain := by
        rw [hcp]
        unfold bodyAsSent at hb
        cases hcp' : ciphered sht
        · simp [hcp'] at hb ⊢; exact hb.symm
        · simp only [hcp', if_true] at hb ⊢
          have hinv := nea_involutive P hP _ _ _ _ _ _ _ (supported_ea ue hs) hb
          obtain ⟨b, hb1, hb2⟩ := enc_tie P ue.cipheringAlg ue.knasEnc (UInt32.ofNat c) directionDownlink body hs.2 (by decide)
          rw [hcount] at hinv
          have : some b = some plain := by
            rw [← hb2, ← hinv]; rfl
          rw [hb1, Option.some.inj this]
      have hsht0 : (UInt8.ofNat sht == 0) = false := by
        rw [Bool.eq_false_iff]; intro h0
        have : (UInt8.ofNat sht).toNat = 0 := by rw [eq_of_beq h0]; rfl
        rcases protectedType_cases sht hpt with h | h | h | h <;> omega
      have := nasDecodeCore_ok isCipheredType directionDownlink P ue (UInt8.ofNat sht) epd (UInt8.ofNat sht) m0 m1 m2 m3
        (UInt8.ofNat (sqnOf c)) body mac' plain hsht0 (supported_ia_ne_zero ue hs)
        (by rw [hest]; exact hmac') (by rw [hest]; exact hdec)
      rw [hest, handToPlainDecode_ne plain hne] at this
      simpa [nasDecode] using this

/-! ### uplink histories -/

/-- the specification's view of one `NASEncode` call -/
def toSend (op : UlOp) : UlSend :=
  { ctxAvail := op.ctxAvail, newCtx := op.newCtx, epd := op.epd, sht := op.sht.toNat, plain := op.plain }

/-- header types 1..4 whenever the message is protected (the property's domain) -/
def UlInScope (op : UlOp) : Prop := op.ctxAvail = true → protectedType op.sht.toNat = true

theorem plain_passthrough (P : Prims) (ue : UeSec) (op : UlOp) (h : op.ctxAvail = false) :
    nasEncode P ue op = (ue, .ok op.plain) := by
  simp [nasEncode, nasEncodeCore, h]

/-- one `NASEncode` call against the conformant UE of the specification, everything the history induction needs -/
theorem ul_step_full (P : Prims) (ue : UeSec) (op : UlOp) (hs : Supported ue) (hsc : UlInScope op) :
    ∃ out,
      (ueProtect P (ctxOf ue) ⟨cval ue.ulCount⟩ op.ctxAvail op.newCtx op.epd op.sht.toNat op.plain).2.2 = some out ∧
      (nasEncode P ue op).2 = .ok out ∧
      cval (nasEncode P ue op).1.ulCount =
        (ueProtect P (ctxOf ue) ⟨cval ue.ulCount⟩ op.ctxAvail op.newCtx op.epd op.sht.toNat op.plain).1.count ∧
      cval (nasEncode P ue op).1.dlCount = (if op.ctxAvail && op.newCtx then 0 else cval ue.dlCount) ∧
      ctxOf (nasEncode P ue op).1 = ctxOf ue ∧ Supported (nasEncode P ue op).1 := by
  cases hctx : op.ctxAvail
  · rw [plain_passthrough P ue op hctx]
    exact ⟨op.plain, by simp [ueProtect], rfl, by simp [ueProtect], by simp, rfl, hs⟩
  · obtain ⟨body, mac, hb, hm, he⟩ := ul_step P ue op hs hctx
    have hpt := hsc hctx
    refine ⟨_, ?_, by rw [he], ?_, ?_, ?_, ?_⟩
    · simp [ueProtect, protect, hpt, hb, hm]
    · rw [he]; simp only [ueProtect, Bool.not_true, Bool.false_eq_true, if_false]
      rw [cval_addOne_get, cval_afterReset_ul, countMod]
    · rw [he]; simp only [Bool.true_and]
      exact cval_afterReset_dl ue op.newCtx
    · rw [he]; cases op.newCtx <;> simp [afterReset, ctxOf]
    · rw [he]; cases op.newCtx <;> simpa [afterReset, Supported] using hs


/-- **uplink histories**: over any sequence of calls on one UE context the model emits, message for message,
    what the conformant UE of the specification emits from the same NAS COUNT, every call succeeds, and the
    counters stay in step. -/
theorem ul_history (P : Prims) (ue : UeSec) (ops : List UlOp) (hs : Supported ue) (hsc : ∀ op ∈ ops, UlInScope op) :
    (runEncode P ue ops).2.map Except.toOption
        = (ueRun P (ctxOf ue) ⟨cval ue.ulCount⟩ (ops.map toSend)).2.map (·.2) ∧
    (∀ r ∈ (runEncode P ue ops).2, ∃ b, r = .ok b) ∧
    cval (runEncode P ue ops).1.ulCount = (ueRun P (ctxOf ue) ⟨cval ue.ulCount⟩ (ops.map toSend)).1.count ∧
    ctxOf (runEncode P ue ops).1 = ctxOf ue ∧ Supported (runEncode P ue ops).1 := by
  induction ops generalizing ue with
  | nil => simp [runEncode, ueRun, hs]
  | cons op ops ih =>
    obtain ⟨out, h1, h2, h3, -, h5, h6⟩ := ul_step_full P ue op hs (hsc op (by simp))
    obtain ⟨i1, i2, i3, i4, i5⟩ := ih (nasEncode P ue op).1 h6 (fun o ho => hsc o (by simp [ho]))
    rw [h5, h3] at i1 i3
    simp only [runEncode, ueRun, List.map_cons, toSend] at i1 i3 ⊢
    refine ⟨?_, ?_, i3, by rw [i4, h5], i5⟩
    · rw [h2, i1]; simp [Except.toOption, toSend] at h1 ⊢; exact h1.symm
    · intro r hr
      rcases List.mem_cons.mp hr with rfl | hr
      · exact ⟨out, h2⟩
      · exact i2 r hr


/-! ### COUNT in closed form -/

/-- number of protected sends in a history -/
def protectedSends (ops : List UlOp) : Nat := (ops.filter (·.ctxAvail)).length

/-- no step of the history takes a new security context into use -/
def NoNewContext (ops : List UlOp) : Prop := ∀ op ∈ ops, ¬ (op.ctxAvail = true ∧ op.newCtx = true)

theorem runEncode_append (P : Prims) (ue : UeSec) (a b : List UlOp) :
    runEncode P ue (a ++ b) =
      ((runEncode P (runEncode P ue a).1 b).1, (runEncode P ue a).2 ++ (runEncode P (runEncode P ue a).1 b).2) := by
  induction a generalizing ue with
  | nil => simp [runEncode]
  | cons x xs ih => simp [runEncode, ih]

/-- without a new context in between, the UL NAS COUNT has advanced by the number of protected sends, modulo 2^24 -/
theorem count_after (P : Prims) (ue : UeSec) (ops : List UlOp) (hs : Supported ue)
    (hsc : ∀ op ∈ ops, UlInScope op) (hnn : NoNewContext ops) :
    cval (runEncode P ue ops).1.ulCount = (cval ue.ulCount + protectedSends ops) % 2 ^ 24 ∧
    ctxOf (runEncode P ue ops).1 = ctxOf ue ∧ Supported (runEncode P ue ops).1 := by
  induction ops generalizing ue with
  | nil => simp [runEncode, protectedSends, hs, Nat.mod_eq_of_lt (cval_lt _)]
  | cons op ops ih =>
    obtain ⟨out, -, -, h3, -, h5, h6⟩ := ul_step_full P ue op hs (hsc op (by simp))
    obtain ⟨i1, i2, i3⟩ := ih (nasEncode P ue op).1 h6 (fun o ho => hsc o (by simp [ho]))
      (fun o ho => hnn o (by simp [ho]))
    simp only [runEncode]
    refine ⟨?_, by rw [i2, h5], i3⟩
    rw [i1, h3]
    have hno := hnn op (by simp)
    cases hc : op.ctxAvail
    · simp [ueProtect, protectedSends, hc]
    · have hn : op.newCtx = false := by
        cases hn : op.newCtx
        · rfl
        · exact absurd ⟨hc, hn⟩ hno
      simp [ueProtect, protectedSends, hc, hn, countMod]
      omega

/-- the last message of `ops ++ [o]` (no new context anywhere, `o` protected) carries
    COUNT = start + number of protected sends before it, modulo 2^24 -/
theorem count_from (P : Prims) (ue : UeSec) (ops : List UlOp) (o : UlOp) (hs : Supported ue)
    (hsc : ∀ op ∈ ops, UlInScope op) (hnn : NoNewContext ops)
    (hso : UlInScope o) (hoc : o.ctxAvail = true) (hon : o.newCtx = false) :
    ∃ out, (runEncode P ue (ops ++ [o])).2.getLast? = some (.ok out) ∧
      protect P (ctxOf ue) uplink ((cval ue.ulCount + protectedSends ops) % 2 ^ 24) o.epd o.sht.toNat o.plain = some out := by
  obtain ⟨h1, h2, h3⟩ := count_after P ue ops hs hsc hnn
  obtain ⟨out, k1, k2, -⟩ := ul_step_full P (runEncode P ue ops).1 o h3 hso
  refine ⟨out, ?_, ?_⟩
  · rw [runEncode_append]; simp [runEncode, k2]
  · rw [h2, h1] at k1
    simpa [ueProtect, hoc, hon] using k1


theorem getLast?_append_cons_of {α : Type} (a : List α) (r : α) (rest : List α) (x : α)
    (h : rest.getLast? = some x) : (a ++ r :: rest).getLast? = some x := by
  cases rest with
  | nil => simp at h
  | cons y ys =>
    rw [List.getLast?_append, List.getLast?_cons_cons, h]; rfl

/-- **the n-th message since the context was taken into use carries COUNT n − 1 (mod 2^24)**:
    after any prefix, `o₀` takes a new context into use (it is message 1, COUNT 0 — see `ul_step`), `mid` follows
    without a new context, then `o` is message n = protectedSends mid + 2 and is protected under COUNT n − 1. -/
theorem count_nth (P : Prims) (ue : UeSec) (pre mid : List UlOp) (o₀ o : UlOp) (hs : Supported ue)
    (hpre : ∀ op ∈ pre, UlInScope op) (hmid : ∀ op ∈ mid, UlInScope op) (hs₀ : UlInScope o₀) (hso : UlInScope o)
    (h₀ : o₀.ctxAvail = true ∧ o₀.newCtx = true) (hnn : NoNewContext mid)
    (hoc : o.ctxAvail = true) (hon : o.newCtx = false) :
    ∃ out, (runEncode P ue (pre ++ o₀ :: (mid ++ [o]))).2.getLast? = some (.ok out) ∧
      protect P (ctxOf ue) uplink ((protectedSends mid + 1) % 2 ^ 24) o.epd o.sht.toNat o.plain = some out := by
  obtain ⟨-, -, -, p4, p5⟩ := ul_history P ue pre hs hpre
  obtain ⟨out₀, -, -, q3, -, q5, q6⟩ := ul_step_full P (runEncode P ue pre).1 o₀ p5 hs₀
  have hc1 : cval (nasEncode P (runEncode P ue pre).1 o₀).1.ulCount = 1 := by
    rw [q3]; simp [ueProtect, h₀.1, h₀.2, countMod]
  obtain ⟨out, r1, r2⟩ := count_from P (nasEncode P (runEncode P ue pre).1 o₀).1 mid o q6 hmid hnn hso hoc hon
  refine ⟨out, ?_, ?_⟩
  · rw [runEncode_append]
    simp only [runEncode]
    exact getLast?_append_cons_of _ _ _ _ r1
  · rw [q5, p4, hc1, Nat.add_comm] at r2
    exact r2


/-! ### downlink histories -/

/-- UE and AMF are in step: the AMF's stored DL NAS COUNT (the value of its next message) is the UE's estimate
    (nothing protected was delivered under this context yet) or one more (the UE holds the last delivered COUNT) -/
def InStep (ue : UeSec) (s : Sender) : Prop :=
  s.count < 2 ^ 24 ∧ (s.count = cval ue.dlCount ∨ s.count = (cval ue.dlCount + 1) % 2 ^ 24)

/-- the property's domain for one delivered downlink message: header type 0..4, fewer than 255 undelivered
    messages before it (the COUNT advances by < 256 between deliveries), a non-empty plain message -/
def DlInScope (m : DlSend) : Prop := m.sht ≤ 4 ∧ m.lost < 255 ∧ m.plain ≠ []

theorem protect_some (P : Prims) (ue : UeSec) (hs : Supported ue) (dir c : Nat) (epd : UInt8) (sht : Nat) (plain : Bytes)
    (hpt : protectedType sht = true) : ∃ out, protect P (ctxOf ue) dir c epd sht plain = some out := by
  have hb : ∃ body, bodyAsSent P (ctxOf ue) dir c sht plain = some body := by
    unfold bodyAsSent
    cases ciphered sht
    · exact ⟨plain, by simp⟩
    · rcases hs.2 with h | h | h <;> simp [ctxOf, h, Spec.NasAlg.nea]
  obtain ⟨body, hb⟩ := hb
  have hm : ∃ mac, macOf P (ctxOf ue) dir c body = some mac := by
    unfold macOf
    rcases hs.1 with h | h <;> simp [ctxOf, h, Spec.NasAlg.nia]
  obtain ⟨mac, hm⟩ := hm
  exact ⟨[epd, UInt8.ofNat sht] ++ mac ++ [UInt8.ofNat (sqnOf c)] ++ body, by simp [protect, hpt, hb, hm]⟩

theorem cval_ofNat (c : Nat) (hc : c < 2 ^ 24) : cval (UInt32.ofNat c) = c := by
  unfold cval; rw [UInt32.toNat_ofNat']; omega

/-- one delivered downlink message of the conformant AMF against `NASDecode`, everything the induction needs -/
theorem dl_step_full (P : Prims) (hP : PrimsOk P) (ue : UeSec) (s : Sender) (m : DlSend)
    (hs : Supported ue) (hin : InStep ue s) (hsc : DlInScope m) :
    ∃ out,
      (amfProtect P (ctxOf ue) s m.lost m.epd m.sht m.plain).2.2 = some out ∧
      nasDecode P ue (UInt8.ofNat m.sht) out =
        ((match (amfProtect P (ctxOf ue) s m.lost m.epd m.sht m.plain).2.1 with
          | some c => { ue with dlCount := UInt32.ofNat c }
          | none => ue), .ok m.plain) ∧
      (∀ c, (amfProtect P (ctxOf ue) s m.lost m.epd m.sht m.plain).2.1 = some c → c < 2 ^ 24) ∧
      InStep (nasDecode P ue (UInt8.ofNat m.sht) out).1 (amfProtect P (ctxOf ue) s m.lost m.epd m.sht m.plain).1 := by
  obtain ⟨hsht, hlost, hne⟩ := hsc
  by_cases h0 : m.sht = 0
  · refine ⟨m.plain, by simp [amfProtect, h0], ?_, by simp [amfProtect, h0], ?_⟩
    · simp [amfProtect, h0, nasDecode, nasDecodeCore, handToPlainDecode_ne m.plain hne]
    · simpa [amfProtect, h0, nasDecode, nasDecodeCore] using hin
  · have hpt : protectedType m.sht = true := by
      have : m.sht = 1 ∨ m.sht = 2 ∨ m.sht = 3 ∨ m.sht = 4 := by omega
      rcases this with h | h | h | h <;> simp [protectedType, h]
    have hb0 : (m.sht == 0) = false := by simpa using h0
    have hd := cval_lt ue.dlCount
    obtain ⟨hlt, hstep⟩ := hin
    have hc : ((if newContext m.sht then 0 else s.count) + m.lost) % countMod < 2 ^ 24 := by
      unfold countMod; omega
    have hdelta : (((if newContext m.sht then 0 else s.count) + m.lost) % countMod + 2 ^ 24
        - (if newContext m.sht then 0 else cval ue.dlCount)) % 2 ^ 24 < 256 := by
      unfold countMod
      cases newContext m.sht
      · simp only [Bool.false_eq_true, if_false]
        rcases hstep with h | h <;> rw [h] <;> omega
      · simp only [if_true]; omega
    obtain ⟨out, hout⟩ := protect_some P ue hs downlink
      (((if newContext m.sht then 0 else s.count) + m.lost) % countMod) m.epd m.sht m.plain hpt
    have hdec := dl_step P hP ue hs m.sht _ m.epd m.plain out hne hc hdelta hout
    refine ⟨out, by simp [amfProtect, hb0, hout], ?_, ?_, ?_⟩
    · rw [hdec]; simp [amfProtect, hb0]
    · intro c hcq
      simp [amfProtect, hb0] at hcq
      rw [← hcq]; exact hc
    · rw [hdec]
      simp only [amfProtect, hb0, Bool.false_eq_true, if_false]
      refine ⟨by show _ % countMod < 2 ^ 24; unfold countMod; omega, Or.inr ?_⟩
      rw [cval_ofNat _ hc]; rfl

/-- over any history, the k-th output is accepted by the conformant receiver holding the same context and the
    NAS COUNT the conformant sender used for it, and yields the submitted plain message -/
theorem ul_history_received (P : Prims) (hP : PrimsOk P) (ue : UeSec) (ops : List UlOp) (hs : Supported ue)
    (hsc : ∀ op ∈ ops, UlInScope op) (k : Nat) (op : UlOp) (hk : ops[k]? = some op) (hctx : op.ctxAvail = true) :
    ∃ c out, (runEncode P ue ops).2[k]? = some (.ok out) ∧
      (ueRun P (ctxOf ue) ⟨cval ue.ulCount⟩ (ops.map toSend)).2[k]? = some (some c, some out) ∧
      receive P (ctxOf ue) uplink c out = some op.plain := by
  induction ops generalizing ue k with
  | nil => simp at hk
  | cons o os ih =>
    obtain ⟨out, h1, h2, h3, -, h5, h6⟩ := ul_step_full P ue o hs (hsc o (by simp))
    cases k with
    | zero =>
      simp only [List.getElem?_cons_zero, Option.some.injEq] at hk
      subst hk
      have hp : protect P (ctxOf ue) uplink (if o.newCtx then 0 else cval ue.ulCount) o.epd o.sht.toNat o.plain = some out := by
        simpa [ueProtect, hctx] using h1
      refine ⟨_, out, by simp [runEncode, h2], ?_, receive_protect P hP _ (supported_ea ue hs) _ _ _ _ _ _ hp⟩
      simp [ueRun, toSend, ueProtect, hctx, hp]
    | succ k =>
      simp only [List.getElem?_cons_succ] at hk
      obtain ⟨c, out', i1, i2, i3⟩ := ih (nasEncode P ue o).1 h6 (fun x hx => hsc x (by simp [hx])) k hk
      rw [h5] at i2 i3
      rw [h3] at i2
      exact ⟨c, out', by simpa [runEncode] using i1, by simpa [ueRun, toSend] using i2, i3⟩


/-- what C10 promises for a history of delivered downlink messages, message by message: the conformant AMF's
    octets, given to `NASDecode` on the UE context as it stands, come back as the plain message, the UE's DL NAS
    COUNT is then exactly the COUNT the AMF used (untouched by a plain message), and so on from the new states. -/
def Recovered (dec : Prims → UeSec → UInt8 → Bytes → UeSec × Res Bytes) (P : Prims) : UeSec → Sender → List DlSend → Prop
  | _, _, [] => True
  | ue, s, m :: ms =>
    ∃ out, (amfProtect P (ctxOf ue) s m.lost m.epd m.sht m.plain).2.2 = some out ∧
      (dec P ue (UInt8.ofNat m.sht) out).2 = .ok m.plain ∧
      (∀ c, (amfProtect P (ctxOf ue) s m.lost m.epd m.sht m.plain).2.1 = some c →
          (dec P ue (UInt8.ofNat m.sht) out).1 = { ue with dlCount := UInt32.ofNat c }) ∧
      ((amfProtect P (ctxOf ue) s m.lost m.epd m.sht m.plain).2.1 = none → (dec P ue (UInt8.ofNat m.sht) out).1 = ue) ∧
      Recovered dec P (dec P ue (UInt8.ofNat m.sht) out).1 (amfProtect P (ctxOf ue) s m.lost m.epd m.sht m.plain).1 ms

theorem dl_history (P : Prims) (hP : PrimsOk P) (ue : UeSec) (s : Sender) (msgs : List DlSend)
    (hs : Supported ue) (hin : InStep ue s) (hsc : ∀ m ∈ msgs, DlInScope m) : Recovered nasDecode P ue s msgs := by
  induction msgs generalizing ue s with
  | nil => trivial
  | cons m ms ih =>
    obtain ⟨out, h1, h2, -, h4⟩ := dl_step_full P hP ue s m hs hin (hsc m (by simp))
    refine ⟨out, h1, by rw [h2], ?_, ?_, ?_⟩
    · intro c hc; rw [h2]; simp [hc]
    · intro hn; rw [h2]; simp [hn]
    · apply ih _ _ _ h4 (fun x hx => hsc x (by simp [hx]))
      rw [h2]
      cases (amfProtect P (ctxOf ue) s m.lost m.epd m.sht m.plain).2.1 <;> simpa [Supported] using hs
  
/-- `GetNasPdu` finds the NAS-PDU IE behind any number of other IEs and hands it to `NASDecode` with the header
    type read from octet 2 -/
theorem getNasPdu_skip (P : Prims) (ue : UeSec) (n : Nat) (e sht : UInt8) (rest : Bytes) (tail : List (Option Bytes)) :
    getNasPdu P ue (List.replicate n none ++ some (e :: sht :: rest) :: tail) =
      nilOnError (nasDecode P ue sht (e :: sht :: rest)) := by
  induction n with
  | zero => simp [getNasPdu, getNasPduWith]
  | succ n ih =>
    simp only [List.replicate_succ, List.cons_append]
    unfold getNasPdu at ih ⊢
    unfold getNasPduWith
    exact ih

end Stgutg.Proofs.NasProtect
