/-
  Helper lemmas for C06 / C10: the NAS protection model (Model/NasProtect.lean) against the specification
  (Spec/NasSecurity.lean), one step at a time; the algorithm layer comes from C07.
-/
import Stgutg.Model.NasProtect
import Stgutg.Spec.NasSecurity
import Stgutg.Proofs.Count
import Stgutg.Props.C07

set_option linter.unusedSimpArgs false

namespace Stgutg.Proofs.NasProtect
open Stgutg Stgutg.Model.NasProtect Stgutg.Model.NasAlg
open Stgutg.Spec (NasSecurity.SecCtx)
open Stgutg.Spec.NasSecurity

/-- the specification-side view of the UE's security context -/
def ctxOf (ue : UeSec) : SecCtx :=
  { ia := ue.integrityAlg.toNat, ea := ue.cipheringAlg.toNat, kNasInt := ue.knasInt, kNasEnc := ue.knasEnc }

/-- the algorithm pairs the property quantifies over: {NIA1, NIA2} × {NEA0, NEA1, NEA2} -/
def Supported (ue : UeSec) : Prop :=
  (ue.integrityAlg = 1 ∨ ue.integrityAlg = 2) ∧ (ue.cipheringAlg = 0 ∨ ue.cipheringAlg = 1 ∨ ue.cipheringAlg = 2)

/-- what the theorems need from the external primitives: CTR is a keystream cipher, the CMAC tag has ≥ 4 octets -/
structure PrimsOk (P : Prims) : Prop where
  ctr_stream : ∃ stream : Bytes → Bytes → Nat → Bytes,
    (∀ k iv n, (stream k iv n).length = n) ∧ ∀ k iv m, P.ctr k iv m = xorBytes m (stream k iv m.length)
  cmac_len : ∀ k m, 4 ≤ (P.cmac k m).length

theorem mac_tie (P : Prims) (ia : UInt8) (k : Bytes) (c : UInt32) (d : UInt8) (msg : Bytes)
    (hia : ia = 1 ∨ ia = 2) (hd : d.toNat < 2) (hm : msg ≠ []) :
    ∃ m, nasMac P ia k c bearer3GPP d msg = .ok m ∧ Spec.NasAlg.nia P ia.toNat k c 1 d.toNat msg = some m := by
  rcases hia with rfl | rfl
  · exact ⟨_, Props.C07.nia1 P k c 1 d msg (by decide) hd hm, rfl⟩
  · exact ⟨_, Props.C07.nia2 P k c 1 d msg (by decide) hd, rfl⟩

theorem enc_tie (P : Prims) (ea : UInt8) (k : Bytes) (c : UInt32) (d : UInt8) (msg : Bytes)
    (hea : ea = 0 ∨ ea = 1 ∨ ea = 2) (hd : d.toNat < 2) :
    ∃ b, nasEncrypt P ea k c bearer3GPP d msg = .ok b ∧ Spec.NasAlg.nea P ea.toNat k c 1 d.toNat msg = some b := by
  rcases hea with rfl | rfl | rfl
  · exact ⟨_, Props.C07.nea0_id P k c 1 d msg (by decide) hd, rfl⟩
  · exact ⟨_, Props.C07.nea1 P k c 1 d msg (by decide) hd, rfl⟩
  · exact ⟨_, Props.C07.nea2 P k c 1 d msg (by decide) hd, rfl⟩

/-- the 32-bit COUNT the code passes (`Count.Get()`) is 0x00 ‖ NAS COUNT of the specification -/
theorem get_eq_count32 (w : UInt32) : (Count.get w).2 = count32 (w.toNat % 2 ^ 24) := by
  apply UInt32.toNat_inj.mp
  rw [Count.toNat_get_value, count32, countMod, UInt32.toNat_ofNat']
  omega

theorem get_get (w : UInt32) : (Count.get (Count.get w).2).2 = (Count.get w).2 := by
  apply UInt32.toNat_inj.mp
  rw [Count.toNat_get_value, Count.toNat_get_value]; omega

theorem get_fst (w : UInt32) : (Count.get w).1 = (Count.get w).2 := rfl

/-- the UE state after the optional new-context reset at the start of `NASEncode` -/
def afterReset (ue : UeSec) (newCtx : Bool) : UeSec :=
  if newCtx then { ue with ulCount := Count.set ue.ulCount 0 0, dlCount := Count.set ue.dlCount 0 0 } else ue

/-- `NASEncode` in one equation, given the results of the two library calls -/
theorem nasEncodeCore_ok (cipherP : UInt8 → Bool) (P : Prims) (ue : UeSec) (op : UlOp) (hctx : op.ctxAvail = true) (body mac : Bytes)
    (henc : (if cipherP op.sht then
              nasEncrypt P ue.cipheringAlg ue.knasEnc (Count.get (afterReset ue op.newCtx).ulCount).2 bearer3GPP directionUplink op.plain
             else .ok op.plain) = .ok body)
    (hmac : nasMac P ue.integrityAlg ue.knasInt (Count.get (afterReset ue op.newCtx).ulCount).2 bearer3GPP directionUplink
              (Count.sqn (afterReset ue op.newCtx).ulCount :: body) = .ok mac) :
    nasEncodeCore cipherP P ue op =
      ({ afterReset ue op.newCtx with ulCount := Count.addOne (Count.get (afterReset ue op.newCtx).ulCount).1 },
       .ok ([op.epd, op.sht] ++ mac ++ (Count.sqn (afterReset ue op.newCtx).ulCount :: body))) := by
  unfold nasEncodeCore
  cases hn : op.newCtx <;> simp [hn, afterReset] at henc hmac <;>
    simp [hctx, afterReset, get_fst, get_get, henc, hmac]


/-- the NAS COUNT value of a stored word -/
def cval (w : UInt32) : Nat := w.toNat % 2 ^ 24

theorem cval_lt (w : UInt32) : cval w < 2 ^ 24 := by unfold cval; omega

theorem cval_set_zero (w : UInt32) : cval (Count.set w 0 0) = 0 := Count.toNat_set_zero w

theorem cval_afterReset_ul (ue : UeSec) (n : Bool) :
    cval (afterReset ue n).ulCount = if n then 0 else cval ue.ulCount := by
  cases n <;> simp [afterReset, cval_set_zero]

theorem cval_afterReset_dl (ue : UeSec) (n : Bool) :
    cval (afterReset ue n).dlCount = if n then 0 else cval ue.dlCount := by
  cases n <;> simp [afterReset, cval_set_zero]

theorem cval_addOne_get (w : UInt32) : cval (Count.addOne (Count.get w).1) = (cval w + 1) % 2 ^ 24 := by
  unfold cval
  rw [Count.toNat_addOne, Count.toNat_get_stored]; omega

theorem toNat_addOne_get (w : UInt32) : (Count.addOne (Count.get w).1).toNat = (cval w + 1) % 2 ^ 24 := by
  unfold cval
  rw [Count.toNat_addOne, Count.toNat_get_stored]

theorem sqn_eq (w : UInt32) : Count.sqn w = UInt8.ofNat (sqnOf (cval w)) := by
  apply UInt8.toNat_inj.mp
  rw [Count.toNat_sqn, UInt8.toNat_ofNat', sqnOf, cval]; omega

theorem get_eq (w : UInt32) : (Count.get w).2 = count32 (cval w) := get_eq_count32 w

theorem isCipheredType_eq (s : UInt8) : isCipheredType s = ciphered s.toNat := by
  unfold isCipheredType ciphered
  have h (k : UInt8) : (s == k) = (s.toNat == k.toNat) := by
    rw [Bool.eq_iff_iff]; simp [← UInt8.toNat_inj]
  rw [h 2, h 4]; rfl

theorem isNewContextType_eq (s : UInt8) : isNewContextType s = newContext s.toNat := by
  unfold isNewContextType newContext
  have h (k : UInt8) : (s == k) = (s.toNat == k.toNat) := by
    rw [Bool.eq_iff_iff]; simp [← UInt8.toNat_inj]
  rw [h 3, h 4]; rfl

/-- One protected uplink message, in the words of the property: with `c` the NAS COUNT in force
    (0 if a new context is taken into use), the octets are EPD ‖ type ‖ MAC ‖ SQN ‖ body where
    body = NEA(plain) under the ciphered header types and plain otherwise, MAC = NIA over SQN ‖ body,
    both with COUNT c, BEARER 1, DIRECTION uplink; the UL counter moves to c + 1 mod 2^24. -/
theorem ul_step (P : Prims) (ue : UeSec) (op : UlOp) (hs : Supported ue) (hctx : op.ctxAvail = true) :
    ∃ body mac,
      bodyAsSent P (ctxOf ue) uplink (if op.newCtx then 0 else cval ue.ulCount) op.sht.toNat op.plain = some body ∧
      macOf P (ctxOf ue) uplink (if op.newCtx then 0 else cval ue.ulCount) body = some mac ∧
      nasEncode P ue op =
        ({ afterReset ue op.newCtx with ulCount := Count.addOne (Count.get (afterReset ue op.newCtx).ulCount).1 },
         .ok ([op.epd, op.sht] ++ mac ++ [UInt8.ofNat (sqnOf (if op.newCtx then 0 else cval ue.ulCount))] ++ body)) := by
  have hc := cval_afterReset_ul ue op.newCtx
  -- ciphering
  have henc : ∃ body, (if isCipheredType op.sht then
        nasEncrypt P ue.cipheringAlg ue.knasEnc (Count.get (afterReset ue op.newCtx).ulCount).2 bearer3GPP directionUplink op.plain
      else .ok op.plain) = .ok body ∧
      bodyAsSent P (ctxOf ue) uplink (if op.newCtx then 0 else cval ue.ulCount) op.sht.toNat op.plain = some body := by
    unfold bodyAsSent
    rw [← isCipheredType_eq]
    cases hcp : isCipheredType op.sht
    · exact ⟨op.plain, by simp, by simp⟩
    · obtain ⟨b, hb1, hb2⟩ := enc_tie P ue.cipheringAlg ue.knasEnc (Count.get (afterReset ue op.newCtx).ulCount).2
        directionUplink op.plain hs.2 (by decide)
      refine ⟨b, by simpa using hb1, ?_⟩
      rw [get_eq, hc] at hb2
      simpa [ctxOf, bearer3gpp, uplink, directionUplink] using hb2
  obtain ⟨body, henc1, henc2⟩ := henc
  obtain ⟨mac, hm1, hm2⟩ := mac_tie P ue.integrityAlg ue.knasInt (Count.get (afterReset ue op.newCtx).ulCount).2
    directionUplink (Count.sqn (afterReset ue op.newCtx).ulCount :: body) hs.1 (by decide) (by simp)
  refine ⟨body, mac, henc2, ?_, ?_⟩
  · rw [get_eq, sqn_eq, hc] at hm2
    simpa [macOf, ctxOf, bearer3gpp, uplink, directionUplink] using hm2
  · rw [nasEncode, nasEncodeCore_ok isCipheredType P ue op hctx body mac henc1 hm1, sqn_eq, hc]
    simp


/-! ### the conformant receiver inverts the conformant sender (specification level) -/

theorem xorBytes_length (a b : Bytes) (h : b.length = a.length) : (xorBytes a b).length = a.length := by
  simp [xorBytes, List.length_zipWith, h]

/-- every supported 128-NEA is an involution (keystream ciphers) -/
theorem nea_involutive (P : Prims) (hP : PrimsOk P) (ea : Nat) (k : Bytes) (c : UInt32) (b d : Nat) (plain body : Bytes)
    (hea : ea = 0 ∨ ea = 1 ∨ ea = 2) (h : Spec.NasAlg.nea P ea k c b d plain = some body) :
    Spec.NasAlg.nea P ea k c b d body = some plain := by
  rcases hea with rfl | rfl | rfl
  · simp [Spec.NasAlg.nea] at h ⊢; exact h.symm
  · simp only [Spec.NasAlg.nea, Option.some.injEq] at h ⊢
    subst h
    have hc := (Props.C07.eea1_covers_every_octet k c b d plain).1
    unfold Spec.NasAlg.eea1
    rw [xorBytes_length _ _ hc]
    exact Props.C07.xor_involutive plain _ hc
  · simp only [Spec.NasAlg.nea, Option.some.injEq] at h ⊢
    subst h
    obtain ⟨stream, hlen, hctr⟩ := hP.ctr_stream
    unfold Spec.NasAlg.eea2
    rw [hctr, hctr, xorBytes_length _ _ (hlen _ _ _)]
    exact Props.C07.xor_involutive plain _ (hlen _ _ _)

theorem len5 {α : Type} (l : List α) (h : l.length = 5) : ∃ a b c d e, l = [a, b, c, d, e] := by
  match l, h with
  | [a, b, c, d, e], _ => exact ⟨a, b, c, d, e, rfl⟩

theorem eia1_length (k : Bytes) (c : UInt32) (b d : Nat) (msg : Bytes) : (Spec.NasAlg.eia1 k c b d msg).length = 4 := by
  unfold Spec.NasAlg.eia1
  simp only
  generalize hks : Spec.Snow3g.keystream 5 _ = ks
  have hl : ks.length = 5 := by rw [← hks]; exact Proofs.Snow3g.keystream_length 5 _
  obtain ⟨z1, z2, z3, z4, z5, rfl⟩ := len5 ks hl
  simp [Spec.NasAlg.wordBytes]

/-- a 128-NIA MAC has four octets -/
theorem nia_length (P : Prims) (hP : PrimsOk P) (ia : Nat) (k : Bytes) (c : UInt32) (b d : Nat) (msg mac : Bytes)
    (h : Spec.NasAlg.nia P ia k c b d msg = some mac) : ∃ m0 m1 m2 m3, mac = [m0, m1, m2, m3] := by
  have hl : mac.length = 4 := by
    unfold Spec.NasAlg.nia at h
    split at h
    · simp only [Option.some.injEq] at h; subst h; exact eia1_length ..
    · simp only [Option.some.injEq] at h; subst h
      have := hP.cmac_len k (Spec.NasAlg.countBearerDir c b d ++ msg)
      simp [Spec.NasAlg.eia2, List.length_take]; omega
    · simp at h
  match mac, hl with
  | [m0, m1, m2, m3], _ => exact ⟨m0, m1, m2, m3, rfl⟩


theorem protectedType_cases (sht : Nat) (h : protectedType sht = true) : sht = 1 ∨ sht = 2 ∨ sht = 3 ∨ sht = 4 := by
  have : ((sht = 1 ∨ sht = 2) ∨ sht = 3) ∨ sht = 4 := by simpa [protectedType] using h
  omega

/-- **receiver-recovers-plaintext**: whatever `protect` emits, `receive` with the same context and NAS COUNT
    accepts (sequence number and MAC check out) and returns exactly the plain message. -/
theorem receive_protect (P : Prims) (hP : PrimsOk P) (ctx : SecCtx) (hea : ctx.ea = 0 ∨ ctx.ea = 1 ∨ ctx.ea = 2)
    (dir c : Nat) (epd : UInt8) (sht : Nat) (plain out : Bytes)
    (h : protect P ctx dir c epd sht plain = some out) : receive P ctx dir c out = some plain := by
  unfold protect at h
  cases hpt : protectedType sht
  · simp [hpt] at h
  simp only [hpt, Bool.not_true, Bool.false_eq_true, if_false] at h
  cases hb : bodyAsSent P ctx dir c sht plain with
  | none => simp [hb] at h
  | some body =>
    simp only [hb] at h
    cases hm : macOf P ctx dir c body with
    | none => simp [hm] at h
    | some mac =>
      simp only [hm, Option.some.injEq] at h
      obtain ⟨m0, m1, m2, m3, rfl⟩ := nia_length P hP _ _ _ _ _ _ _ hm
      subst h
      have hsq : (UInt8.ofNat (sqnOf c)).toNat = sqnOf c := by
        rw [UInt8.toNat_ofNat']; unfold sqnOf; omega
      have hdec : (if ciphered sht then Spec.NasAlg.nea P ctx.ea ctx.kNasEnc (count32 c) bearer3gpp dir body else some body)
          = some plain := by
        unfold bodyAsSent at hb
        cases hc : ciphered sht
        · simp [hc] at hb ⊢; exact hb.symm
        · simp only [hc, if_true] at hb ⊢
          exact nea_involutive P hP _ _ _ _ _ _ _ hea hb
      rcases protectedType_cases sht hpt with rfl | rfl | rfl | rfl <;>
        simp [receive, protectedType, hsq, hm] <;> simpa using hdec


/-! ### downlink: the UE's COUNT estimate and recovery -/

/-- the estimate of `NASDecode` (`SQN() > sqn → overflow+1; SetSQN(sqn)`, then `Get()`) is the sender's NAS COUNT
    whenever that COUNT is at most 255 ahead (mod 2^24) of the UE's stored value — for every stored word. -/
theorem estimate_correct (w : UInt32) (c : Nat) (hc : c < 2 ^ 24) (hd : (c + 2 ^ 24 - cval w) % 2 ^ 24 < 256) :
    (Count.get (Count.setSQN
        (if Count.sqn w > UInt8.ofNat (sqnOf c) then Count.setOverflow w (Count.overflow w + 1) else w)
        (UInt8.ofNat (sqnOf c)))).2 = UInt32.ofNat c := by
  apply UInt32.toNat_inj.mp
  have hx : w.toNat < 2 ^ 32 := w.toNat_lt
  have hs : (UInt8.ofNat (sqnOf c)).toNat = c % 256 := by
    rw [UInt8.toNat_ofNat']; unfold sqnOf; omega
  rw [Count.toNat_get_value, Count.toNat_setSQN, hs, UInt32.toNat_ofNat']
  unfold cval at hd
  by_cases hgt : Count.sqn w > UInt8.ofNat (sqnOf c)
  · have hgt' : c % 256 < w.toNat % 256 := by
      have := UInt8.lt_iff_toNat_lt.mp hgt
      rwa [hs, Count.toNat_sqn] at this
    have ho : (Count.overflow w + 1).toNat = (w.toNat / 256 % 65536 + 1) % 65536 := by
      rw [UInt16.toNat_add, Count.toNat_overflow]; rfl
    rw [if_pos hgt, Count.toNat_setOverflow, ho]
    omega
  · have hgt' : ¬ c % 256 < w.toNat % 256 := by
      intro h; apply hgt; apply UInt8.lt_iff_toNat_lt.mpr
      rwa [hs, Count.toNat_sqn]
    rw [if_neg hgt]
    omega


/-- `if SQN() > sqn { SetOverflow(Overflow()+1) }; SetSQN(sqn)` -/
def estim (w : UInt32) (s : UInt8) : UInt32 :=
  Count.setSQN (if Count.sqn w > s then Count.setOverflow w (Count.overflow w + 1) else w) s

/-- `NASDecode` on a protected message with at least seven octets, NIA ≠ 0, in one equation, given the results of
    the two library calls. -/
theorem nasDecodeCore_ok (decipherP : UInt8 → Bool) (dir : UInt8) (P : Prims) (ue : UeSec) (sht : UInt8)
    (h0 h1 h2 h3 h4 h5 sqn : UInt8) (body mac p : Bytes)
    (hsht : (sht == 0) = false) (hia : (ue.integrityAlg == 0) = false)
    (hmac : nasMac P ue.integrityAlg ue.knasInt
        (Count.get (estim (if isNewContextType sht then Count.set ue.dlCount 0 0 else ue.dlCount) sqn)).2
        bearer3GPP directionDownlink (sqn :: body) = .ok mac)
    (hdec : (if decipherP sht then
        nasEncrypt P ue.cipheringAlg ue.knasEnc
          (Count.get (estim (if isNewContextType sht then Count.set ue.dlCount 0 0 else ue.dlCount) sqn)).2
          bearer3GPP dir body else .ok body) = .ok p) :
    nasDecodeCore decipherP dir P ue sht (h0 :: h1 :: h2 :: h3 :: h4 :: h5 :: sqn :: body) =
      ({ ue with dlCount := (Count.get (estim (if isNewContextType sht then Count.set ue.dlCount 0 0 else ue.dlCount) sqn)).2 },
       handToPlainDecode p) := by
  unfold nasDecodeCore estim at *
  cases hn : isNewContextType sht <;> simp only [hn] at hmac hdec ⊢
  · by_cases hgt : Count.sqn ue.dlCount > sqn
    · simp [hgt] at hmac hdec
      cases hdp : decipherP sht
      · simp [hdp] at hdec; subst hdec; simp [hsht, hia, hgt, get_fst, get_get, hmac, hdp]
      · simp [hdp] at hdec; simp [hsht, hia, hgt, get_fst, get_get, hmac, hdec, hdp]
    · simp [hgt] at hmac hdec
      cases hdp : decipherP sht
      · simp [hdp] at hdec; subst hdec; simp [hsht, hia, hgt, get_fst, get_get, hmac, hdp]
      · simp [hdp] at hdec; simp [hsht, hia, hgt, get_fst, get_get, hmac, hdec, hdp]
  · by_cases hgt : Count.sqn (Count.set ue.dlCount 0 0) > sqn
    · simp [hgt] at hmac hdec
      cases hdp : decipherP sht
      · simp [hdp] at hdec; subst hdec; simp [hsht, hia, hgt, get_fst, get_get, hmac, hdp]
      · simp [hdp] at hdec; simp [hsht, hia, hgt, get_fst, get_get, hmac, hdec, hdp]
    · simp [hgt] at hmac hdec
      cases hdp : decipherP sht
      · simp [hdp] at hdec; subst hdec; simp [hsht, hia, hgt, get_fst, get_get, hmac, hdp]
      · simp [hdp] at hdec; simp [hsht, hia, hgt, get_fst, get_get, hmac, hdec, hdp]


theorem supported_ia_ne_zero (ue : UeSec) (hs : Supported ue) : (ue.integrityAlg == 0) = false := by
  rcases hs.1 with h | h <;> rw [h] <;> rfl

theorem supported_ea (ue : UeSec) (hs : Supported ue) : (ctxOf ue).ea = 0 ∨ (ctxOf ue).ea = 1 ∨ (ctxOf ue).ea = 2 := by
  rcases hs.2 with h | h | h <;> simp [ctxOf, h]

theorem handToPlainDecode_ne (plain : Bytes) (hne : plain ≠ []) : handToPlainDecode plain = .ok plain := by
  unfold handToPlainDecode
  cases plain with
  | nil => exact absurd rfl hne
  | cons a l => rfl

theorem ofNat_sht_toNat (sht : Nat) (h : sht ≤ 4) : (UInt8.ofNat sht).toNat = sht := by
  rw [UInt8.toNat_ofNat']; omega

/-- One protected downlink message of the conformant sender (`protect … downlink c`), delivered to `NASDecode`
    while the sender's COUNT `c` is at most 255 ahead of the UE's estimate (0 after a new-context header):
    the plain message is handed to the plain decoder and the UE's DL COUNT becomes exactly `c`. -/
theorem dl_step (P : Prims) (hP : PrimsOk P) (ue : UeSec) (hs : Supported ue) (sht c : Nat) (epd : UInt8)
    (plain out : Bytes) (hne : plain ≠ []) (hc : c < 2 ^ 24)
    (hd : (c + 2 ^ 24 - (if newContext sht then 0 else cval ue.dlCount)) % 2 ^ 24 < 256)
    (h : protect P (ctxOf ue) downlink c epd sht plain = some out) :
    nasDecode P ue (UInt8.ofNat sht) out = ({ ue with dlCount := UInt32.ofNat c }, .ok plain) := by
  unfold protect at h
  cases hpt : protectedType sht
  · simp [hpt] at h
  simp only [hpt, Bool.not_true, Bool.false_eq_true, if_false] at h
  have hsht4 : sht ≤ 4 := by rcases protectedType_cases sht hpt with h | h | h | h <;> omega
  have hshtn : (UInt8.ofNat sht).toNat = sht := ofNat_sht_toNat sht hsht4
  cases hb : bodyAsSent P (ctxOf ue) downlink c sht plain with
  | none => simp [hb] at h
  | some body =>
    simp only [hb] at h
    cases hm : macOf P (ctxOf ue) downlink c body with
    | none => simp [hm] at h
    | some mac =>
      simp only [hm, Option.some.injEq] at h
      obtain ⟨m0, m1, m2, m3, rfl⟩ := nia_length P hP _ _ _ _ _ _ _ hm
      subst h
      have hnc : isNewContextType (UInt8.ofNat sht) = newContext sht := by rw [isNewContextType_eq, hshtn]
      have hcp : isCipheredType (UInt8.ofNat sht) = ciphered sht := by rw [isCipheredType_eq, hshtn]
      -- the estimate
      have hest : (Count.get (estim (if isNewContextType (UInt8.ofNat sht) then Count.set ue.dlCount 0 0 else ue.dlCount)
          (UInt8.ofNat (sqnOf c)))).2 = UInt32.ofNat c := by
        apply estimate_correct _ c hc
        rw [hnc]
        cases hn : newContext sht <;> simp [hn, cval_set_zero] at hd ⊢ <;> exact hd
      -- the MAC computation succeeds (its value is only printed)
      obtain ⟨mac', hmac', -⟩ := mac_tie P ue.integrityAlg ue.knasInt (UInt32.ofNat c) directionDownlink
        (UInt8.ofNat (sqnOf c) :: body) hs.1 (by decide) (by simp)
      -- deciphering restores the plain message
      have hcount : count32 c = UInt32.ofNat c := by unfold count32 countMod; rw [Nat.mod_eq_of_lt hc]
      have hdec : (if isCipheredType (UInt8.ofNat sht) then
            nasEncrypt P ue.cipheringAlg ue.knasEnc (UInt32.ofNat c) bearer3GPP directionDownlink body
          else .ok body) = .ok plain := by
        rw [hcp]
        unfold bodyAsSent at hb
        cases hcp' : ciphered sht
        · simp [hcp'] at hb ⊢; exact hb.symm
        · simp only [hcp', if_true] at hb ⊢
          have hinv := nea_involutive P hP _ _ _ _ _ _ _ (supported_ea ue hs) hb
          obtain ⟨b, hb1, hb2⟩ := enc_tie P ue.cipheringAlg ue.knasEnc (UInt32.ofNat c) directionDownlink body hs.2 (by decide)
          rw [hcount] at hinv
          have : some b = some plain := by
            rw [← hb2, ← hinv]; rfl
          rw [hb1, Option.some.inj this]
      have hsht0 : (UInt8.ofNat sht == 0) = false := by
        rw [Bool.eq_false_iff]; intro h0
        have : (UInt8.ofNat sht).toNat = 0 := by rw [eq_of_beq h0]; rfl
        rcases protectedType_cases sht hpt with h | h | h | h <;> omega
      have := nasDecodeCore_ok isCipheredType directionDownlink P ue (UInt8.ofNat sht) epd (UInt8.ofNat sht) m0 m1 m2 m3
        (UInt8.ofNat (sqnOf c)) body mac' plain hsht0 (supported_ia_ne_zero ue hs)
        (by rw [hest]; exact hmac') (by rw [hest]; exact hdec)
      rw [hest, handToPlainDecode_ne plain hne] at this
      simpa [nasDecode] using this

end Stgutg.Proofs.NasProtect
