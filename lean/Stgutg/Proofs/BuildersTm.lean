/-
  C13 helper, part 3: a static analysis of builder skeletons against the NGAP schema.

  `tmOK env canon F g f ty p tm` (decidable, closed data: evaluated by the kernel over the whole builder table in Props/C13.lean)
  checks everything of a skeleton `tm` that does not depend on the arguments: literal leaves inside their constraints
  (`okV`), SEQUENCE shapes, absent components only where OPTIONAL, CHOICE / open-type alternatives (index, the other
  alternatives nil, the alternative named by the governing identifier — identifiers are literals in every skeleton), list
  sizes, nested `aper.MarshalWithParams(…, "valueExt")` containers checked under their own type.
  `obls env F g f ty p tm` lists what is left: for every hole the type and constraints of its position (`Obl.hole`), for a
  list built by ranging over an argument its size constraint (`Obl.len`) and the obligations of the per-item template for
  every element (`Obl.each`).
  `tmOK_sound`: skeleton check + obligations on the arguments ⇒ the evaluated skeleton is `okV` (hence regular, conforming,
  encoded by specification and model: Proofs/BuildersOk*.lean) and every nested encoding succeeds (`encOutcome = none`).
-/
import Stgutg.Proofs.Builders
import Stgutg.Proofs.BuildersOkSpec

namespace Stgutg.Proofs.BuildersTm
open Stgutg Stgutg.Aper Stgutg.Builders Stgutg.Model.Convert
open Stgutg.Proofs.BuildersOk Stgutg.Proofs.Builders
open Stgutg.Proofs.AperRTComp (neTy nilExceptFrom)
open Stgutg.Spec.X691 (governor)

/-- what the arguments of a call must satisfy for one position of a skeleton -/
inductive Obl where
  /-- the hole evaluates to a value of type `ty` within `p` (validated within `fuel` levels); `opt`: or to a nil pointer -/
  | hole (fuel : Nat) (ty : Ty) (p : Params) (opt : Bool) (h : Hole)
  /-- the list argument `i` has a size allowed by `p` (and below 16384: the count is a single length field) -/
  | len (i : Nat) (p : Params)
  /-- `o` holds for every element of the list argument `i` as loop variable -/
  | each (i : Nat) (o : Obl)
  deriving Repr, Inhabited

/-- the elements `for _, x := range arg` visits (`eval` of `mapInts`: anything but a slice ranges over nothing) -/
def listOf : Val → List Val
  | .slice xs => xs
  | _ => []

/-- an obligation holds of the arguments `e` (and the loop variable `cur`) -/
def Obl.ok (env : Env) (canon : Bool) (E : Ext) (e : BEnv) : Val → Obl → Bool
  | cur, .hole f ty p opt h => (opt && isNil (evalHole E e cur h)) || okV env canon f ty p (evalHole E e cur h)
  | _, .len i p => sizeOKn (listOf (e.arg i)).length p && decide ((listOf (e.arg i)).length < 16384)
  | _, .each i o => (listOf (e.arg i)).all fun x => Obl.ok env canon E e x o

/-- the value of a literal governing component (`ProtocolIE-ID{Value}`, `ProcedureCode{Value}`, or a bare INTEGER) -/
def refVal : Tm → Option Val
  | .int v => some (.int v)
  | .struct [.int v] => some (.struct [.int v])
  | _ => none

/-- `BuildersOk.resolveP` on a skeleton: the governing component must be a literal -/
def tmResolveP (env : Env) (f : Nat) (allFields : List Field) (allTms : List Tm) (fd : Field) : Option Params :=
  if fd.params.openType then
    match allFields.findIdx? (fun g => g.name == fd.params.refField) with
    | none => none
    | some k =>
      match allFields[k]?, allTms[k]? with
      | some rf, some rt =>
        match refVal rt with
        | some rv => (governor env f rf.ty rv).map fun x => { fd.params with refValue := some x }
        | none => none
      | _, _ => none
  else some fd.params

/-- one component of a SEQUENCE skeleton: a literal nil only where OPTIONAL; a hole is left to the obligations -/
def tmField (env : Env) (ok : Ty → Params → Tm → Bool) (f : Nat) (aF : List Field) (aT : List Tm) (fd : Field) (t : Tm) : Bool :=
  match t with
  | .nil => fd.params.optional
  | .hole _ => (tmResolveP env f aF aT fd).isSome
  | _ =>
    match tmResolveP env f aF aT fd with
    | none => false
    | some q => ok fd.ty q t

def oblField (env : Env) (ob : Ty → Params → Tm → List Obl) (f : Nat) (aF : List Field) (aT : List Tm) (fd : Field) (t : Tm) :
    List Obl :=
  match t with
  | .nil => []
  | .hole h =>
    match tmResolveP env f aF aT fd with
    | some q => [.hole f fd.ty q fd.params.optional h]
    | none => []
  | _ =>
    match tmResolveP env f aF aT fd with
    | none => []
    | some q => ob fd.ty q t

def tmFields (env : Env) (ok : Ty → Params → Tm → Bool) (f : Nat) (aF : List Field) (aT : List Tm) :
    List Field → List Tm → Bool
  | [], [] => true
  | fd :: frest, t :: trest =>
    tmField env ok f aF aT fd t && tmFields env ok f aF aT frest trest
  | _, _ => false

def oblFields (env : Env) (ob : Ty → Params → Tm → List Obl) (f : Nat) (aF : List Field) (aT : List Tm) :
    List Field → List Tm → List Obl
  | fd :: frest, t :: trest =>
    oblField env ob f aF aT fd t ++ oblFields env ob f aF aT frest trest
  | _, _ => []

def isNilT : Tm → Bool
  | .nil => true
  | _ => false

/-- every alternative is a literal nil except the one at index `k` (indices counted from `j`) -/
def tmNilExcept : Nat → Nat → List Tm → Bool
  | _, _, [] => true
  | j, k, t :: ts => (j == k || isNilT t) && tmNilExcept (j + 1) k ts

/-- CHOICE / open-type skeleton (`BuildersOk.okChoice` with a literal `Present`) -/
def tmChoice (ok : Ty → Params → Tm → Bool) (ne : Ty → Params → Bool) (sd : StructDef) (params : Params) (fs : List Tm) : Bool :=
  decide (fs.length = sd.fields.length) &&
  match fs with
  | .int pv :: alts =>
    decide (1 ≤ pv) && decide (pv.toNat ≤ sd.fields.length - 1) && tmNilExcept 1 pv.toNat alts &&
    match sd.fields[pv.toNat]?, fs[pv.toNat]? with
    | some fd, some alt =>
      ne fd.ty fd.params && ok fd.ty fd.params alt &&
      (if params.openType then fd.params.refValue.isSome && fd.params.refValue == params.refValue
       else match params.valueUB with
         | some ub => ub + 1 == ((sd.fields.length - 1 : Nat) : Int)
         | none => false)
    | _, _ => false
  | _ => false

def oblChoice (ob : Ty → Params → Tm → List Obl) (sd : StructDef) (fs : List Tm) : List Obl :=
  match fs with
  | .int pv :: _ =>
    match sd.fields[pv.toNat]?, fs[pv.toNat]? with
    | some fd, some alt => ob fd.ty fd.params alt
    | _, _ => []
  | _ => []

/-- a nested container's OCTET STRING must be free of a size constraint (its length is whatever the encoding has) -/
def sizeFree (p : Params) : Bool := p.sizeLB.isNone

/-- the static check. `g` bounds the depth of the skeleton, `f` is the fuel of `okV` at this position, `F` the fuel a
    nested `aper.MarshalWithParams` starts with. -/
def tmOK (env : Env) (canon : Bool) (F : Nat) : Nat → Nat → Ty → Params → Tm → Bool
  | 0, _, _, _, _ => false
  | _ + 1, 0, _, _, _ => false
  | g + 1, f + 1, ty, p, tm =>
    match tm with
    | .hole _ => true
    | .nil => false
    | .int v => okV env canon (f + 1) ty p (.int v)
    | .enum v => okV env canon (f + 1) ty p (.enum v)
    | .bits b n => okV env canon (f + 1) ty p (.bits b n)
    | .octs b => okV env canon (f + 1) ty p (.octs b)
    | .str b => okV env canon (f + 1) ty p (.str b)
    | .bool b => okV env canon (f + 1) ty p (.bool b)
    | .ptr t =>
      (match ty with
       | .ptr ty' => tmOK env canon F g f ty' p t
       | _ => false)
    | .slice l =>
      (match ty with
       | .slice t => sizeOKn l.length p && decide (l.length < 16384) && l.all (fun x => tmOK env canon F g f t (stripSizeE p) x)
       | _ => false)
    | .mapInts _ item =>
      (match ty with
       | .slice t => tmOK env canon F g f t (stripSizeE p) item
       | _ => false)
    | .enc sty inner =>
      (match ty with
       | .octs => sizeFree p && tmOK env canon F g F (.struct sty) transferParams inner
       | _ => false)
    | .struct fs =>
      (match ty with
       | .struct id =>
         (match env[id]? with
          | none => false
          | some sd =>
            if isChoice sd then tmChoice (tmOK env canon F g f) (neTy env) sd p fs
            else decide (fs.length = sd.fields.length) && tmFields env (tmOK env canon F g f) f sd.fields fs sd.fields fs)
       | _ => false)

/-- the obligations the static check leaves to the arguments -/
def obls (env : Env) (F : Nat) : Nat → Nat → Ty → Params → Tm → List Obl
  | 0, _, _, _, _ => []
  | _ + 1, 0, _, _, _ => []
  | g + 1, f + 1, ty, p, tm =>
    match tm with
    | .hole h => [.hole (f + 1) ty p false h]
    | .ptr t =>
      (match ty with
       | .ptr ty' => obls env F g f ty' p t
       | _ => [])
    | .slice l =>
      (match ty with
       | .slice t => l.flatMap (fun x => obls env F g f t (stripSizeE p) x)
       | _ => [])
    | .mapInts i item =>
      (match ty with
       | .slice t => .len i p :: (obls env F g f t (stripSizeE p) item).map (.each i)
       | _ => [])
    | .enc sty inner =>
      (match ty with
       | .octs => obls env F g F (.struct sty) transferParams inner
       | _ => [])
    | .struct fs =>
      (match ty with
       | .struct id =>
         (match env[id]? with
          | none => []
          | some sd =>
            if isChoice sd then oblChoice (obls env F g f) sd fs
            else oblFields env (obls env F g f) f sd.fields fs sd.fields fs)
       | _ => [])
    | _ => []

end Stgutg.Proofs.BuildersTm
