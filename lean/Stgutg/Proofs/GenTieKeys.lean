import Stgutg.Gen.PureKeys
import Stgutg.Model.KeyDerivation
import Stgutg.Proofs.GenTieBase
import Stgutg.Proofs.GenTieKdf
/-!
  Tie by translation (C05): `Gen/PureKeys.lean` is regenerated on every run by `gen pure-keys` from the source text of
  src/tglib/ranUe.go `(*RanUeContext).DerivateKamf` and `(*RanUeContext).DerivateAlgKey` (`UeauCommon.KDFLen` comes from
  `Gen/PureKdf.lean`). The theorems prove generated = hand model (`Model/KeyDerivation.lean`) for every UE context and
  every argument, with the library record `libOf` built from the hand model: `GetKDFValue` over `Prims`, the SUPI
  regular expression as the model's `supiFind`.

  Not reached by the translator: `DeriveRESstarAndSetKey` (its types come from github.com/wmnsk/milenage and
  free5gclib/openapi/models pointers; the loader does not read third-party modules) — it keeps its pin (`gen procs`) and the
  differential domain of C05.
-/
namespace Stgutg.Proofs.GenTie.Keys
open Stgutg Stgutg.Gen
open Stgutg.Gen.Pure.Keys Stgutg.Gen.Pure.Kdf
open Stgutg.Model.KeyDerivation (supiFind)

/-- the regular expression of `DerivateKamf`, as octets -/
def supiPattern : Bytes := Model.KeyDerivation.str "(?:imsi|supi)-([0-9]{5,15})".toList

/-- the library record built from the hand model: `GetKDFValue` is `Model.KeyDerivation.GetKDFValue` over `Prims`;
    `regexp.Compile` answers with an expression that remembers its source text; `FindStringSubmatch` on the SUPI pattern
    is the hand model's `supiFind` (group 0 = `g0`, ARBITRARY: nobody reads it) and ARBITRARY (`other`) on any other
    pattern, so that a change of the pattern in the Go text breaks the tie; `fatal.Fatalf` is ARBITRARY (`fatal`). -/
def libOf (P : Prims) (re0 : Regexp) (g0 : Bytes → Bytes) (other : Regexp → Bytes → Res (List Bytes)) (fatal : Res Unit) : Lib where
  getKDFValue := fun key fc params => .ok (Model.KeyDerivation.GetKDFValue P key fc params)
  regexpCompile := fun pat => .ok (some { re0 with expr := pat }, false)
  findStringSubmatch := fun re s =>
    if re.expr = supiPattern then
      match supiFind s with
      | none => .ok []
      | some d => .ok [g0 s, d]
    else other re s
  fatalf := fatal

/-- **Tie (C05).** `ue.DerivateKamf(key, snName, SQN, AK)`: for every UE context and all arguments, generated = hand
    model (the UE context with `Kamf` replaced; a SUPI the expression does not match: panic at `groups[1]`). -/
theorem DerivateKamf_eq (P : Prims) (re0 g0 other fatal) (ue : RanUeContext) (key snName sqn ak : Bytes) :
    RanUeContext.DerivateKamf (libOf P re0 g0 other fatal) ue key snName sqn ak =
      (Model.KeyDerivation.DerivateKamf P ue.Supi key snName sqn).map fun k => { ue with Kamf := k } := by
  unfold RanUeContext.DerivateKamf Model.KeyDerivation.DerivateKamf Model.KeyDerivation.derivateKamfChain
  have hp : ([40, 63, 58, 105, 109, 115, 105, 124, 115, 117, 112, 105, 41, 45, 40, 91, 48, 45, 57, 93, 123, 53, 44, 49, 53, 125, 41] : Bytes) = supiPattern := by decide
  have h1 : Model.KeyDerivation.FC_FOR_KAUSF_DERIVATION = [54, 65] := by decide
  have h2 : Model.KeyDerivation.FC_FOR_KSEAF_DERIVATION = [54, 67] := by decide
  have h3 : Model.KeyDerivation.FC_FOR_KAMF_DERIVATION = [54, 68] := by decide
  simp only [Kdf.KDFLen_eq, ok_bind, libOf, hp, h1, h2, h3, Go.deref, Bool.false_eq_true, if_false, if_true]
  cases supiFind ue.Supi with
  | none => simp [Go.idx, Except.map]
  | some d => simp [Go.idx, Except.map]

theorem slice_16_32 (l : Bytes) :
    Go.slice l 16 32 = if l.length < 32 then .error .panic else .ok ((l.drop 16).take 16) := by
  unfold Go.slice
  by_cases h : l.length < 32
  · have : ¬ ((0 : Int) ≤ 16 ∧ (16 : Int) ≤ 32 ∧ (32 : Int) ≤ (l.length : Int)) := by omega
    rw [if_neg this, if_pos h]
  · have : ((0 : Int) ≤ 16 ∧ (16 : Int) ≤ 32 ∧ (32 : Int) ≤ (l.length : Int)) := by omega
    rw [if_pos this, if_neg h]
    rfl

theorem copy_full {α : Type} (dst src : List α) (h : dst.length = src.length) : Go.copy dst src = src := by
  unfold Go.copy
  rw [h, List.take_length, ← h, List.drop_length, List.append_nil]

/-- **Tie (C05).** `ue.DerivateAlgKey()`: for every UE context whose two key arrays have their 16 octets (they are
    `[16]uint8`), generated = hand model. -/
theorem DerivateAlgKey_eq (P : Prims) (re0 g0 other fatal) (ue : RanUeContext)
    (he : ue.KnasEnc.length = 16) (hi : ue.KnasInt.length = 16) :
    RanUeContext.DerivateAlgKey (libOf P re0 g0 other fatal) ue =
      (Model.KeyDerivation.DerivateAlgKey P ue.Kamf ue.CipheringAlg ue.IntegrityAlg).map fun k =>
        { ue with KnasEnc := k.1, KnasInt := k.2 } := by
  unfold RanUeContext.DerivateAlgKey Model.KeyDerivation.DerivateAlgKey
  have h1 : Model.KeyDerivation.FC_FOR_ALGORITHM_KEY_DERIVATION = [54, 57] := by decide
  simp only [Kdf.KDFLen_eq, ok_bind, libOf, h1, Model.KeyDerivation.NNASEncAlg, Model.KeyDerivation.NNASIntAlg, slice_16_32]
  generalize Model.KeyDerivation.GetKDFValue P ue.Kamf [54, 57] [[1], Model.KeyDerivation.KDFLen [1], [ue.CipheringAlg], Model.KeyDerivation.KDFLen [ue.CipheringAlg]] = kenc
  generalize Model.KeyDerivation.GetKDFValue P ue.Kamf [54, 57] [[2], Model.KeyDerivation.KDFLen [2], [ue.IntegrityAlg], Model.KeyDerivation.KDFLen [ue.IntegrityAlg]] = kint
  by_cases hk : kenc.length < 32
  · simp [hk, Except.map]
  · by_cases hj : kint.length < 32
    · simp [hk, hj, Except.map]
    · have l1 : ue.KnasEnc.length = ((kenc.drop 16).take 16).length := by simp; omega
      have l2 : ue.KnasInt.length = ((kint.drop 16).take 16).length := by simp; omega
      simp [hk, hj, Except.map, copy_full _ _ l1, copy_full _ _ l2]

/-- the hypotheses of `DerivateAlgKey_eq` hold of a UE context as `NewRanUeContext` makes it (two arrays of 16 octets) -/
example : ∃ ue : RanUeContext, ue.KnasEnc.length = 16 ∧ ue.KnasInt.length = 16 ∧ ue.Kamf ≠ [] ∧ ue.CipheringAlg ≠ ue.IntegrityAlg :=
  ⟨{ Supi := Model.KeyDerivation.str "imsi-208930000000001".toList, CipheringAlg := 0, IntegrityAlg := 2,
     KnasEnc := List.replicate 16 0, KnasInt := List.replicate 16 0, Kamf := [1, 2, 3] }, by decide, by decide, by decide, by decide⟩

end Stgutg.Proofs.GenTie.Keys
