/-
  C14 (cost): the cases of `parseField` — entry, leaves, SEQUENCE OF, SEQUENCE, CHOICE, open types.
-/
import Stgutg.Proofs.AperCostSlice

namespace Stgutg.Proofs.AperCost
open Stgutg Stgutg.Aper

/-! ### entry of `parseField` -/

theorem Bnd_entry {α : Type} {ws wa q p s : Nat} {body : DC α} (h : Bnd ws wa q p s body) :
    Bnd ws wa (ws + q) p s (DC.tickThen fun r0 => if r0.len = 0 then (.error .error, Cost.zero) else body r0) := by
  intro r
  unfold DC.tickThen
  dsimp only
  have hc : ∀ c : Cost, cst ws wa ((⟨0, 1⟩ : Cost).add c) = ws + cst ws wa c := by
    intro c; simp [cst, Cost.add, Nat.mul_add]; omega
  rw [hc]
  by_cases h0 : r.len = 0
  · simp only [h0, if_true, cst_zero]
    exact ⟨(by intro a r' h'; cases h'), by omega⟩
  · simp only [h0, if_false]
    obtain ⟨h1, h2⟩ := h r
    refine ⟨?_, by omega⟩
    intro a r' hr
    obtain ⟨c, hc1, hc2⟩ := h1 a r' hr
    exact ⟨c, hc1, by omega⟩

theorem Strict_entry {α : Type} {body : DC α} (h : Strict body) :
    Strict (DC.tickThen fun r0 => if r0.len = 0 then (.error .error, Cost.zero) else body r0) := by
  intro r a r' hr
  unfold DC.tickThen at hr
  dsimp only at hr
  by_cases h0 : r.len = 0
  · simp only [h0, if_true] at hr; cases hr
  · simp only [h0, if_false] at hr
    exact h r a r' hr

/-! ### leaves -/

theorem MonoD_extBits (p : Params) (b : Bool) : MonoD (extBits p b) := MonoD_of_DOK (AperTotal.DOK_extBits p b)

def leafBodyC (ty : Ty) (params : Params) : DC Val :=
  DC.lift (extBits params false) >>= fun x => decLeafC ty params x.1 x.2

theorem Bnd_leafBody (ws wa : Nat) (ty : Ty) (params : Params) : Bnd ws wa 0 wa 0 (leafBodyC ty params) :=
  Bnd_bind0 (Bnd_lift ws wa _ (MonoD_extBits _ _)) (fun x => Bnd_decLeafC ws wa ty params x.1 x.2)

theorem extBits_none (p : Params) (isSlice : Bool) (hs : p.sizeExt = false) (hv : (p.valueExt && !isSlice) = false) :
    extBits p isSlice = (pure (false, false) : D (Bool × Bool)) := by
  unfold extBits
  simp only [hs, hv, Bool.false_eq_true, if_false]
  rfl

/-- a leaf that reads an extension bit consumes a bit -/
theorem Strict_leafBody_ext (ty : Ty) (params : Params) (h : params.valueExt = true ∨ params.sizeExt = true) :
    Strict (leafBodyC ty params) := by
  refine Strict_bind_l (Strict_lift (StrictD_extBits params false ?_)) (fun x => Bnd_toMono (Bnd_decLeafC 0 0 ty params x.1 x.2))
  rcases h with h | h
  · right; simp [h]
  · left; exact h

/-- a leaf without extension bits is as strict as its parser -/
theorem Strict_leafBody_plain (ty : Ty) (params : Params) (hs : params.sizeExt = false) (hv : params.valueExt = false)
    (h : Strict (decLeafC ty params false false)) : Strict (leafBodyC ty params) := by
  unfold leafBodyC
  rw [extBits_none params false hs (by simp [hv])]
  intro r a r' hr
  exact h r a r' hr

theorem Strict_map {α β : Type} {m : DC α} (g : α → β) (h : Strict m) :
    Strict (m >>= fun x => (pure (g x) : DC β)) := Strict_bind_l h (fun _ => MonoC_pure _)

theorem or3_cases {a b c : Bool} (h : (a || b || c) = true) : (a = true ∨ b = true) ∨ (a = false ∧ b = false ∧ c = true) := by
  cases a <;> cases b <;> cases c <;> simp at h ⊢

/-- the static flag `d` of a leaf is sound -/
theorem leaf_strict (ws wa : Nat) (tab : List (Nat × CEntry)) (ty : Ty) (params : Params) (e : CEntry)
    (hl : ty = .int ∨ ty = .enum ∨ ty = .bits ∨ ty = .octs ∨ ty = .str ∨ ty = .bool ∨ ty = .oid)
    (he : tyCost ws wa tab ty params = some e) (hd : e.d = true) : Strict (leafBodyC ty params) := by
  rcases hl with h | h | h | h | h | h | h <;> subst h <;> simp only [tyCost, Option.some.injEq] at he <;>
    rw [← he] at hd <;> dsimp only at hd
  · -- int
    rcases or3_cases hd with hx | ⟨hv, hs, h3⟩
    · exact Strict_leafBody_ext _ _ hx
    · refine Strict_leafBody_plain _ _ hs hv ?_
      unfold decLeafC
      refine Strict_map Val.int (Strict_lift (StrictD_parseInteger _ _ _ ?_))
      intro lb ub hlb hub
      rw [hlb, hub] at h3
      simpa using h3
  · -- enum
    rcases or3_cases hd with hx | ⟨hv, hs, h3⟩
    · exact Strict_leafBody_ext _ _ hx
    · refine Strict_leafBody_plain _ _ hs hv ?_
      unfold decLeafC
      refine Strict_map Val.enum (Strict_lift (StrictD_parseEnumerated _ _ _ ?_))
      intro lb ub hlb hub
      rw [hlb, hub] at h3
      simpa using h3
  · -- bits
    rcases or3_cases hd with hx | ⟨hv, hs, h3⟩
    · exact Strict_leafBody_ext _ _ hx
    · refine Strict_leafBody_plain _ _ hs hv ?_
      unfold decLeafC
      cases hlb : params.sizeLB with
      | none => rw [hlb] at h3; simp at h3
      | some lb =>
        cases hub : params.sizeUB with
        | none => rw [hlb, hub] at h3; simp at h3
        | some ub =>
          rw [hlb, hub] at h3
          simp only [Bool.and_eq_true, decide_eq_true_eq] at h3
          obtain ⟨h1, h2⟩ := h3
          subst h1
          exact Strict_map (fun (x : Bytes × Nat) => Val.bits x.1 x.2) (Strict_parseBitStringC_fixed lb h2)
  · -- octs
    rcases or3_cases hd with hx | ⟨hv, hs, h3⟩
    · exact Strict_leafBody_ext _ _ hx
    · refine Strict_leafBody_plain _ _ hs hv ?_
      unfold decLeafC
      cases hlb : params.sizeLB with
      | none => rw [hlb] at h3; simp at h3
      | some lb =>
        cases hub : params.sizeUB with
        | none => rw [hlb, hub] at h3; simp at h3
        | some ub =>
          rw [hlb, hub] at h3
          simp only [Bool.and_eq_true, decide_eq_true_eq] at h3
          obtain ⟨h1, h2⟩ := h3
          subst h1
          exact Strict_map Val.octs (Strict_parseOctetStringC_fixed lb h2)
  · -- str
    rcases or3_cases hd with hx | ⟨hv, hs, h3⟩
    · exact Strict_leafBody_ext _ _ hx
    · refine Strict_leafBody_plain _ _ hs hv ?_
      unfold decLeafC
      cases hlb : params.sizeLB with
      | none => rw [hlb] at h3; simp at h3
      | some lb =>
        cases hub : params.sizeUB with
        | none => rw [hlb, hub] at h3; simp at h3
        | some ub =>
          rw [hlb, hub] at h3
          simp only [Bool.and_eq_true, decide_eq_true_eq] at h3
          obtain ⟨h1, h2⟩ := h3
          subst h1
          exact Strict_map Val.str (Strict_parseOctetStringC_fixed lb h2)
  · -- bool
    refine Strict_bind_r (MonoC_lift (MonoD_extBits _ _)) (fun x => ?_)
    unfold decLeafC
    exact Strict_map (fun b => Val.bool (decide (b = 1))) (Strict_lift (StrictD_getBitsValue 1))
  · -- oid: always an error
    refine Strict_bind_r (MonoC_lift (MonoD_extBits _ _)) (fun x => ?_)
    unfold decLeafC
    exact Strict_fail _

/-! ### SEQUENCE OF -/

def sliceBodyC (f : DC Val) (params : Params) : DC Val :=
  DC.lift (extBits params true) >>= fun x => DC.lift (sliceCount params x.1) >>= fun n =>
    DC.chargeAlloc n >>= fun _ => decElemsC f n >>= fun vs => (pure (.slice vs) : DC Val)

/-- `Bnd` at one reader state -/
def BndAt {α : Type} (ws wa q p s : Nat) (m : DC α) (r : Rd) : Prop :=
  (∀ a r', (m r).1 = .ok (a, r') → ∃ c, r.len = r'.len + c ∧ cst ws wa (m r).2 ≤ q + p * c) ∧
    cst ws wa (m r).2 ≤ q + p * r.len + s

/-- a free step of the plain decoder followed by a continuation that is bounded on the results of that step -/
theorem Bnd_lift_bind {α β : Type} {ws wa q p s : Nat} (m : D α) (hm : MonoD m) (f : α → DC β)
    (hf : ∀ r a r', m r = .ok (a, r') → BndAt ws wa q p s (f a) r') : Bnd ws wa q p s (DC.lift m >>= f) := by
  intro r
  rw [DC_bind_apply]
  have hl : DC.lift m r = (m r, Cost.zero) := rfl
  rw [hl]
  cases hmr : m r with
  | error e =>
    dsimp only
    exact ⟨(by intro a r' h; cases h), by simp [cst_zero]⟩
  | ok x =>
    obtain ⟨a, r1⟩ := x
    have hmono := hm r a r1 hmr
    obtain ⟨g1, g2⟩ := hf r a r1 hmr
    dsimp only
    simp only [cst_add, cst_zero, Nat.zero_add]
    refine ⟨?_, ?_⟩
    · intro b r' h
      obtain ⟨c, hc, hb⟩ := g1 b r' h
      refine ⟨c + (r.len - r1.len), by omega, ?_⟩
      rw [Nat.mul_add]; omega
    · have : p * r1.len ≤ p * r.len := Nat.mul_le_mul_left p hmono
      omega

/-- `MakeSlice(n)` then the elements -/
theorem Bnd_sliceElems (ws wa q p s M : Nat) (f : DC Val) (hf : Bnd ws wa q p s f) (hs : Strict f) (n : Nat)
    (hn : n ≤ M) :
    Bnd ws wa q (q + p + wa) (s + wa * M)
      (DC.chargeAlloc n >>= fun _ => decElemsC f n >>= fun vs => (pure (.slice vs) : DC Val)) := by
  intro r
  rw [DC_bind_apply]
  have hca : DC.chargeAlloc n r = (.ok ((), r), ⟨n, 0⟩) := rfl
  rw [hca]
  dsimp only
  rw [DC_bind_apply]
  obtain ⟨g1, g2⟩ := elems_bound ws wa q p s f hf hs n r
  rcases her : decElemsC f n r with ⟨res, c⟩
  rw [her] at g1 g2
  have hwn : wa * n ≤ wa * M := Nat.mul_le_mul_left wa hn
  have hcn : cst ws wa (⟨n, 0⟩ : Cost) = wa * n := by simp [cst]
  cases res with
  | error e =>
    dsimp only at g2 ⊢
    refine ⟨(by intro a r' h; cases h), ?_⟩
    simp only [cst_add, hcn]
    have h1 : (q + p) * r.len ≤ (q + p + wa) * r.len := Nat.mul_le_mul_right _ (by omega)
    omega
  | ok z =>
    obtain ⟨vs, r3⟩ := z
    dsimp only at g1 g2 ⊢
    obtain ⟨c3, hc3, hnc, hb3⟩ := g1 vs r3 rfl
    rw [DC_pure_apply]
    dsimp only
    simp only [cst_add, cst_zero, hcn, Nat.add_zero]
    have hwc : wa * n ≤ wa * c3 := Nat.mul_le_mul_left wa hnc
    have hsum : wa * n + cst ws wa c ≤ (q + p + wa) * c3 := by
      rw [Nat.add_mul]; omega
    refine ⟨?_, ?_⟩
    · intro a r' h
      simp only [Except.ok.injEq, Prod.mk.injEq] at h
      exact ⟨c3, by rw [← h.2]; exact hc3, by omega⟩
    · have h1 : (q + p + wa) * c3 ≤ (q + p + wa) * r.len := Nat.mul_le_mul_left _ (by omega)
      omega

theorem Bnd_sliceBody (ws wa q p s : Nat) (f : DC Val) (params : Params) (hf : Bnd ws wa q p s f) (hs : Strict f) :
    Bnd ws wa q (q + p + wa) (s + wa * sliceMax params) (sliceBodyC f params) := by
  unfold sliceBodyC
  refine Bnd_lift_bind _ (MonoD_extBits _ _) _ (fun r x r1 _ => ?_)
  refine Bnd_lift_bind _ (MonoD_of_DOK (AperTotal.DOK_sliceCount params x.1)) _ (fun r' n r2 hn => ?_) r1
  exact Bnd_sliceElems ws wa q p s _ f hf hs n (sliceCount_le params x.1 r' n r2 hn) r2

theorem Strict_sliceBody (f : DC Val) (params : Params) (hf : MonoC f) (hse : params.sizeExt = true) :
    Strict (sliceBodyC f params) := by
  unfold sliceBodyC
  refine Strict_bind_l (Strict_lift (StrictD_extBits params true (Or.inl hse))) (fun x => ?_)
  have hel : ∀ n, MonoC (decElemsC f n) := by
    intro n
    induction n with
    | zero => exact MonoC_pure _
    | succ n ih =>
      unfold decElemsC
      intro r a r' h
      rw [DC_bind_apply] at h
      rcases hfr : f r with ⟨res, c⟩
      rw [hfr] at h
      cases res with
      | error e => cases h
      | ok y =>
        obtain ⟨v, r1⟩ := y
        dsimp only at h
        have h1 := hf r v r1 (by rw [hfr])
        rw [DC_bind_apply] at h
        rcases her : decElemsC f n r1 with ⟨res2, c2⟩
        rw [her] at h
        cases res2 with
        | error e => cases h
        | ok z =>
          obtain ⟨vs, r2⟩ := z
          dsimp only at h
          rw [DC_pure_apply] at h
          simp only [Except.ok.injEq, Prod.mk.injEq] at h
          have h2 := ih r1 vs r2 (by rw [her])
          rw [← h.2]; omega
  intro r a r' h
  rw [DC_bind_apply] at h
  unfold DC.lift at h
  cases hn : sliceCount params x.1 r with
  | error e => rw [hn] at h; cases h
  | ok y =>
    obtain ⟨n, r1⟩ := y
    rw [hn] at h
    have hm := MonoD_of_DOK (AperTotal.DOK_sliceCount params x.1) r n r1 hn
    dsimp only at h
    rw [DC_bind_apply] at h
    unfold DC.chargeAlloc at h
    dsimp only at h
    rw [DC_bind_apply] at h
    rcases her : decElemsC f n r1 with ⟨res, c⟩
    rw [her] at h
    cases res with
    | error e => cases h
    | ok z =>
      obtain ⟨vs, r2⟩ := z
      dsimp only at h
      rw [DC_pure_apply] at h
      simp only [Except.ok.injEq, Prod.mk.injEq] at h
      have := hel n r1 vs r2 (by rw [her])
      rw [← h.2]; omega

end Stgutg.Proofs.AperCost
