import Stgutg.Gen.PureSecAlg
import Stgutg.Model.Snow3g
/-!
  Tie by translation (C07): `Gen/PureSecAlg.lean` is regenerated from src/free5gclib/nas/security/snow3g/snow3g.go on every run
  by `gen pure-secalg` (harness/cmd/gen/pure_secalg*.go, the word-machine grammar). This file proves, function by function and for
  ALL arguments, that the generated definitions are the hand model `Model/Snow3g.lean` that the C07 theorems are about:
  `mulx`, `mulxPow` (the recursion on fuel never runs out), `s1`, `s2` (the two package-level tables, read from the same source,
  are the regenerated `Gen.Snow3g.sr/sq`; no look-up is out of range), `mulAlpha`, `divAlpha`, `lfsrInitialisationMode`,
  `lfsrKeystreamMode`, `clockFsm`, `InitSnow3g`, `GenerateKeystream` (every count and every output slice: the words written, the
  rest of the slice untouched, a panic when the slice is too short, nothing written for a count ≤ 0).

  The Go state `State{lfsr Lfsr{s [16]uint32}, fsm Fsm{r [3]uint32}}` is carried by the translator as lists; `toGen` maps the
  hand model's 19 words to it and `toGen_surj` shows that every value of the Go type (lists of 16 and 3 words) is reached.
-/
namespace Stgutg.Proofs.GenTie.SecAlg
open Stgutg Stgutg.Gen Stgutg.Gen.Pure.SecAlg

theorem okb {α β : Type} (a : α) (f : α → Res β) : ((Except.ok a : Res α) >>= f) = f a := rfl

theorem mulx_eq (v c : UInt8) : mulx v c = Model.Snow3g.mulx v c := by
  unfold mulx Model.Snow3g.mulx
  by_cases h : v &&& 128 = 0 <;> simp [h]

theorem mulxPow_rec (fuel : Nat) : ∀ (v i c : UInt8), i.toNat < fuel →
    mulxPow.rec_ fuel v i c = .ok (Model.Snow3g.mulxPow v i.toNat c) := by
  induction fuel with
  | zero => intro v i c h; omega
  | succ n ih =>
    intro v i c h
    unfold mulxPow.rec_
    by_cases hi : i = 0
    · subst hi; simp [Model.Snow3g.mulxPow]
    · have hne : i.toNat ≠ 0 := by
        intro h0; apply hi; exact UInt8.toNat_inj.mp (by simpa using h0)
      have hsub : (i - 1).toNat = i.toNat - 1 := by
        have : (1 : UInt8) ≤ i := by
          rw [UInt8.le_iff_toNat_le]; simp; omega
        rw [UInt8.toNat_sub_of_le _ _ this]; simp
      simp only [hi, decide_false, Bool.false_eq_true, if_false]
      rw [ih v (i - 1) c (by omega), okb, hsub, mulx_eq]
      obtain ⟨m, hm⟩ := Nat.exists_eq_succ_of_ne_zero hne
      rw [hm]; simp [Model.Snow3g.mulxPow]

theorem mulxPow_eq (v i c : UInt8) : mulxPow v i c = .ok (Model.Snow3g.mulxPow v i.toNat c) :=
  mulxPow_rec _ v i c (by omega)


theorem sr_eq : sr = Gen.Snow3g.sr.map UInt8.ofNat := by decide +kernel
theorem sq_eq : sq = Gen.Snow3g.sq.map UInt8.ofNat := by decide +kernel
theorem sr_len : Gen.Snow3g.sr.length = 256 := by decide +kernel
theorem sq_len : Gen.Snow3g.sq.length = 256 := by decide +kernel

theorem idx_map_ofNat (tbl : List Nat) (x : UInt32) (h : x.toNat < tbl.length) :
    Go.idx (tbl.map UInt8.ofNat) (x.toNat : Int) = .ok (Model.Snow3g.look tbl x) := by
  unfold Go.idx Model.Snow3g.look
  simp [h, List.getD_eq_getElem?_getD]

theorem and255_lt (x : UInt32) : (x &&& 255).toNat < 256 := by
  rw [UInt32.toNat_and]
  exact Nat.lt_of_le_of_lt Nat.and_le_right (by decide)

theorem idx_sr (x : UInt32) : Go.idx sr ((x &&& 255).toNat : Int) = .ok (Model.Snow3g.look Gen.Snow3g.sr (x &&& 255)) := by
  rw [sr_eq]; exact idx_map_ofNat _ _ (by rw [sr_len]; exact and255_lt x)
theorem idx_sq (x : UInt32) : Go.idx sq ((x &&& 255).toNat : Int) = .ok (Model.Snow3g.look Gen.Snow3g.sq (x &&& 255)) := by
  rw [sq_eq]; exact idx_map_ofNat _ _ (by rw [sq_len]; exact and255_lt x)

theorem s1_eq (w : UInt32) : s1 w = .ok (Model.Snow3g.s1 w) := by
  unfold s1 Model.Snow3g.s1 Model.Snow3g.sbox Model.Snow3g.pack4
  simp only [idx_sr, okb, mulx_eq]

theorem s2_eq (w : UInt32) : s2 w = .ok (Model.Snow3g.s2 w) := by
  unfold s2 Model.Snow3g.s2 Model.Snow3g.sbox Model.Snow3g.pack4
  simp only [idx_sq, okb, mulx_eq]

theorem mulAlpha_eq (c : UInt8) : mulAlpha c = .ok (Model.Snow3g.mulAlpha c) := by
  unfold mulAlpha
  simp only [mulxPow_eq, okb]
  rfl

theorem divAlpha_eq (c : UInt8) : divAlpha c = .ok (Model.Snow3g.divAlpha c) := by
  unfold divAlpha
  simp only [mulxPow_eq, okb]
  rfl


/-- the Go value `State{lfsr: Lfsr{s [16]uint32}, fsm: Fsm{r [3]uint32}}` that the hand model's 19 words stand for -/
def toGen (st : Model.Snow3g.State) : State :=
  { lfsr := { s := [st.s0, st.s1, st.s2, st.s3, st.s4, st.s5, st.s6, st.s7, st.s8, st.s9, st.s10, st.s11, st.s12,
                    st.s13, st.s14, st.s15] },
    fsm := { r := [st.r0, st.r1, st.r2] } }

/-- every value of the Go type (arrays of 16 and 3 words) is `toGen` of a model state -/
theorem toGen_surj (g : State) (h16 : g.lfsr.s.length = 16) (h3 : g.fsm.r.length = 3) : ∃ st, toGen st = g := by
  obtain ⟨⟨s⟩, ⟨r⟩⟩ := g
  simp only at h16 h3
  match s, h16, r, h3 with
  | [a0, a1, a2, a3, a4, a5, a6, a7, a8, a9, a10, a11, a12, a13, a14, a15], _, [b0, b1, b2], _ =>
    exact ⟨⟨a0, a1, a2, a3, a4, a5, a6, a7, a8, a9, a10, a11, a12, a13, a14, a15, b0, b1, b2⟩, rfl⟩

/-- the hypotheses of `toGen_surj` are satisfiable -/
example : ∃ g : State, g.lfsr.s.length = 16 ∧ g.fsm.r.length = 3 :=
  ⟨{ lfsr := { s := List.replicate 16 7 }, fsm := { r := [1, 2, 3] } }, by decide⟩

theorem clockFsm_eq (st : Model.Snow3g.State) :
    State.clockFsm (toGen st) st.s15 st.s5 = .ok (toGen (Model.Snow3g.clockFsm st).2, (Model.Snow3g.clockFsm st).1) := by
  unfold State.clockFsm toGen
  simp [Go.idx, Go.set, okb, s1_eq, s2_eq, Model.Snow3g.clockFsm]


theorem u8_and255 (x : UInt8) : x &&& 255 = x := by
  apply UInt8.toNat_inj.mp
  rw [UInt8.toNat_and]
  show x.toNat &&& (2^8 - 1) = x.toNat
  rw [Nat.and_two_pow_sub_one_eq_mod]
  exact Nat.mod_eq_of_lt x.toNat_lt

theorem lfsrKeystreamMode_eq (st : Model.Snow3g.State) :
    State.lfsrKeystreamMode (toGen st) = .ok (toGen (Model.Snow3g.lfsrKeystreamMode st)) := by
  unfold State.lfsrKeystreamMode toGen
  simp [Go.idx, Go.set, okb, u8_and255, mulAlpha_eq, divAlpha_eq, State.lfsrKeystreamMode.loop1, Go.iadd, Go.wrapInt,
    Model.Snow3g.lfsrKeystreamMode, Model.Snow3g.shiftIn, Model.Snow3g.feedback]

theorem lfsrInitialisationMode_eq (st : Model.Snow3g.State) (f : UInt32) :
    State.lfsrInitialisationMode (toGen st) f = .ok (toGen (Model.Snow3g.lfsrInitialisationMode st f)) := by
  unfold State.lfsrInitialisationMode toGen
  simp [Go.idx, Go.set, okb, u8_and255, mulAlpha_eq, divAlpha_eq, State.lfsrInitialisationMode.loop1, Go.iadd, Go.wrapInt,
    Model.Snow3g.lfsrInitialisationMode, Model.Snow3g.shiftIn, Model.Snow3g.feedback]


theorem toGen_s (st : Model.Snow3g.State) : (toGen st).lfsr.s = [st.s0, st.s1, st.s2, st.s3, st.s4, st.s5, st.s6, st.s7, st.s8, st.s9, st.s10, st.s11, st.s12,
                    st.s13, st.s14, st.s15] := rfl

theorem idx15 (st : Model.Snow3g.State) : Go.idx (toGen st).lfsr.s 15 = .ok st.s15 := rfl
theorem idx5 (st : Model.Snow3g.State) : Go.idx (toGen st).lfsr.s 5 = .ok st.s5 := rfl
theorem idx0 (st : Model.Snow3g.State) : Go.idx (toGen st).lfsr.s 0 = .ok st.s0 := rfl

/-- one round of the initialisation loop -/
theorem initLoop_eq (fuel : Nat) : ∀ (i : Int) (st : Model.Snow3g.State), 0 ≤ i → i ≤ 32 → (32 - i).toNat < fuel →
    InitSnow3g.loop2 fuel i (toGen st) = .ok (toGen (Model.Snow3g.iter Model.Snow3g.initRound (32 - i).toNat st)) := by
  induction fuel with
  | zero => intro i st _ _ h; omega
  | succ n ih =>
    intro i st h0 h32 hf
    unfold InitSnow3g.loop2
    by_cases hi : i < 32
    · simp only [hi, decide_true, if_true, idx15, idx5, okb, clockFsm_eq, lfsrInitialisationMode_eq]
      have hw : Go.iadd i 1 = i + 1 := by unfold Go.iadd Go.wrapInt; omega
      rw [hw, ih (i + 1) _ (by omega) (by omega) (by omega)]
      have : (32 - i).toNat = (32 - (i + 1)).toNat + 1 := by omega
      rw [this]
      rfl
    · have : i = 32 := by omega
      subst this
      simp [Model.Snow3g.iter]


/-- the state the sixteen assignments and the `fsm.r` loop of `InitSnow3g` build -/
def init0 (k0 k1 k2 k3 iv0 iv1 iv2 iv3 : UInt32) : Model.Snow3g.State :=
  let ff : UInt32 := 0xffffffff
  { s0 := k0 ^^^ ff, s1 := k1 ^^^ ff, s2 := k2 ^^^ ff, s3 := k3 ^^^ ff,
    s4 := k0, s5 := k1, s6 := k2, s7 := k3,
    s8 := k0 ^^^ ff, s9 := k1 ^^^ ff ^^^ iv3, s10 := k2 ^^^ ff ^^^ iv2, s11 := k3 ^^^ ff,
    s12 := k0 ^^^ iv1, s13 := k1, s14 := k2, s15 := k3 ^^^ iv0,
    r0 := 0, r1 := 0, r2 := 0 }

theorem set16_0 (a0 a1 a2 a3 a4 a5 a6 a7 a8 a9 a10 a11 a12 a13 a14 a15 v : UInt32) : Go.set [a0, a1, a2, a3, a4, a5, a6, a7, a8, a9, a10, a11, a12, a13, a14, a15] 0 v = .ok [v, a1, a2, a3, a4, a5, a6, a7, a8, a9, a10, a11, a12, a13, a14, a15] := rfl
theorem set16_1 (a0 a1 a2 a3 a4 a5 a6 a7 a8 a9 a10 a11 a12 a13 a14 a15 v : UInt32) : Go.set [a0, a1, a2, a3, a4, a5, a6, a7, a8, a9, a10, a11, a12, a13, a14, a15] 1 v = .ok [a0, v, a2, a3, a4, a5, a6, a7, a8, a9, a10, a11, a12, a13, a14, a15] := rfl
theorem set16_2 (a0 a1 a2 a3 a4 a5 a6 a7 a8 a9 a10 a11 a12 a13 a14 a15 v : UInt32) : Go.set [a0, a1, a2, a3, a4, a5, a6, a7, a8, a9, a10, a11, a12, a13, a14, a15] 2 v = .ok [a0, a1, v, a3, a4, a5, a6, a7, a8, a9, a10, a11, a12, a13, a14, a15] := rfl
theorem set16_3 (a0 a1 a2 a3 a4 a5 a6 a7 a8 a9 a10 a11 a12 a13 a14 a15 v : UInt32) : Go.set [a0, a1, a2, a3, a4, a5, a6, a7, a8, a9, a10, a11, a12, a13, a14, a15] 3 v = .ok [a0, a1, a2, v, a4, a5, a6, a7, a8, a9, a10, a11, a12, a13, a14, a15] := rfl
theorem set16_4 (a0 a1 a2 a3 a4 a5 a6 a7 a8 a9 a10 a11 a12 a13 a14 a15 v : UInt32) : Go.set [a0, a1, a2, a3, a4, a5, a6, a7, a8, a9, a10, a11, a12, a13, a14, a15] 4 v = .ok [a0, a1, a2, a3, v, a5, a6, a7, a8, a9, a10, a11, a12, a13, a14, a15] := rfl
theorem set16_5 (a0 a1 a2 a3 a4 a5 a6 a7 a8 a9 a10 a11 a12 a13 a14 a15 v : UInt32) : Go.set [a0, a1, a2, a3, a4, a5, a6, a7, a8, a9, a10, a11, a12, a13, a14, a15] 5 v = .ok [a0, a1, a2, a3, a4, v, a6, a7, a8, a9, a10, a11, a12, a13, a14, a15] := rfl
theorem set16_6 (a0 a1 a2 a3 a4 a5 a6 a7 a8 a9 a10 a11 a12 a13 a14 a15 v : UInt32) : Go.set [a0, a1, a2, a3, a4, a5, a6, a7, a8, a9, a10, a11, a12, a13, a14, a15] 6 v = .ok [a0, a1, a2, a3, a4, a5, v, a7, a8, a9, a10, a11, a12, a13, a14, a15] := rfl
theorem set16_7 (a0 a1 a2 a3 a4 a5 a6 a7 a8 a9 a10 a11 a12 a13 a14 a15 v : UInt32) : Go.set [a0, a1, a2, a3, a4, a5, a6, a7, a8, a9, a10, a11, a12, a13, a14, a15] 7 v = .ok [a0, a1, a2, a3, a4, a5, a6, v, a8, a9, a10, a11, a12, a13, a14, a15] := rfl
theorem set16_8 (a0 a1 a2 a3 a4 a5 a6 a7 a8 a9 a10 a11 a12 a13 a14 a15 v : UInt32) : Go.set [a0, a1, a2, a3, a4, a5, a6, a7, a8, a9, a10, a11, a12, a13, a14, a15] 8 v = .ok [a0, a1, a2, a3, a4, a5, a6, a7, v, a9, a10, a11, a12, a13, a14, a15] := rfl
theorem set16_9 (a0 a1 a2 a3 a4 a5 a6 a7 a8 a9 a10 a11 a12 a13 a14 a15 v : UInt32) : Go.set [a0, a1, a2, a3, a4, a5, a6, a7, a8, a9, a10, a11, a12, a13, a14, a15] 9 v = .ok [a0, a1, a2, a3, a4, a5, a6, a7, a8, v, a10, a11, a12, a13, a14, a15] := rfl
theorem set16_10 (a0 a1 a2 a3 a4 a5 a6 a7 a8 a9 a10 a11 a12 a13 a14 a15 v : UInt32) : Go.set [a0, a1, a2, a3, a4, a5, a6, a7, a8, a9, a10, a11, a12, a13, a14, a15] 10 v = .ok [a0, a1, a2, a3, a4, a5, a6, a7, a8, a9, v, a11, a12, a13, a14, a15] := rfl
theorem set16_11 (a0 a1 a2 a3 a4 a5 a6 a7 a8 a9 a10 a11 a12 a13 a14 a15 v : UInt32) : Go.set [a0, a1, a2, a3, a4, a5, a6, a7, a8, a9, a10, a11, a12, a13, a14, a15] 11 v = .ok [a0, a1, a2, a3, a4, a5, a6, a7, a8, a9, a10, v, a12, a13, a14, a15] := rfl
theorem set16_12 (a0 a1 a2 a3 a4 a5 a6 a7 a8 a9 a10 a11 a12 a13 a14 a15 v : UInt32) : Go.set [a0, a1, a2, a3, a4, a5, a6, a7, a8, a9, a10, a11, a12, a13, a14, a15] 12 v = .ok [a0, a1, a2, a3, a4, a5, a6, a7, a8, a9, a10, a11, v, a13, a14, a15] := rfl
theorem set16_13 (a0 a1 a2 a3 a4 a5 a6 a7 a8 a9 a10 a11 a12 a13 a14 a15 v : UInt32) : Go.set [a0, a1, a2, a3, a4, a5, a6, a7, a8, a9, a10, a11, a12, a13, a14, a15] 13 v = .ok [a0, a1, a2, a3, a4, a5, a6, a7, a8, a9, a10, a11, a12, v, a14, a15] := rfl
theorem set16_14 (a0 a1 a2 a3 a4 a5 a6 a7 a8 a9 a10 a11 a12 a13 a14 a15 v : UInt32) : Go.set [a0, a1, a2, a3, a4, a5, a6, a7, a8, a9, a10, a11, a12, a13, a14, a15] 14 v = .ok [a0, a1, a2, a3, a4, a5, a6, a7, a8, a9, a10, a11, a12, a13, v, a15] := rfl
theorem set16_15 (a0 a1 a2 a3 a4 a5 a6 a7 a8 a9 a10 a11 a12 a13 a14 a15 v : UInt32) : Go.set [a0, a1, a2, a3, a4, a5, a6, a7, a8, a9, a10, a11, a12, a13, a14, a15] 15 v = .ok [a0, a1, a2, a3, a4, a5, a6, a7, a8, a9, a10, a11, a12, a13, a14, v] := rfl
theorem idx4_0 (a0 a1 a2 a3 : UInt32) : Go.idx [a0, a1, a2, a3] 0 = .ok a0 := rfl
theorem idx4_1 (a0 a1 a2 a3 : UInt32) : Go.idx [a0, a1, a2, a3] 1 = .ok a1 := rfl
theorem idx4_2 (a0 a1 a2 a3 : UInt32) : Go.idx [a0, a1, a2, a3] 2 = .ok a2 := rfl
theorem idx4_3 (a0 a1 a2 a3 : UInt32) : Go.idx [a0, a1, a2, a3] 3 = .ok a3 := rfl
theorem set3_0 (b0 b1 b2 v : UInt32) : Go.set [b0, b1, b2] 0 v = .ok [v, b1, b2] := rfl
theorem set3_1 (b0 b1 b2 v : UInt32) : Go.set [b0, b1, b2] 1 v = .ok [b0, v, b2] := rfl
theorem set3_2 (b0 b1 b2 v : UInt32) : Go.set [b0, b1, b2] 2 v = .ok [b0, b1, v] := rfl
theorem rep16 : List.replicate 16 (0 : UInt32) = [0, 0, 0, 0, 0, 0, 0, 0, 0, 0, 0, 0, 0, 0, 0, 0] := rfl
theorem rep3 : List.replicate 3 (0 : UInt32) = [0, 0, 0] := rfl

theorem iadd_small (i : Int) (h0 : 0 ≤ i) (h : i < 2 ^ 62) : Go.iadd i 1 = i + 1 := by unfold Go.iadd Go.wrapInt; omega

theorem init_prefix (k0 k1 k2 k3 iv0 iv1 iv2 iv3 : UInt32) :
    InitSnow3g [k0, k1, k2, k3] [iv0, iv1, iv2, iv3]
      = (InitSnow3g.loop2 33 0 (toGen (init0 k0 k1 k2 k3 iv0 iv1 iv2 iv3)) >>= fun t => .ok t) := by
  unfold InitSnow3g
  simp only [set16_0, set16_1, set16_2, set16_3, set16_4, set16_5, set16_6, set16_7, set16_8, set16_9, set16_10, set16_11, set16_12, set16_13, set16_14, set16_15, idx4_0, idx4_1, idx4_2, idx4_3, rep16, rep3, okb]
  have h1 : Go.iadd 0 1 = 1 := by decide
  have h2 : Go.iadd 1 1 = 2 := by decide
  have h3 : Go.iadd 2 1 = 3 := by decide
  simp only [InitSnow3g.loop1, set3_0, set3_1, set3_2, okb, h1, h2, h3]
  simp [toGen, init0, okb]

theorem InitSnow3g_eq (k0 k1 k2 k3 iv0 iv1 iv2 iv3 : UInt32) :
    InitSnow3g [k0, k1, k2, k3] [iv0, iv1, iv2, iv3]
      = .ok (toGen (Model.Snow3g.initSnow3g k0 k1 k2 k3 iv0 iv1 iv2 iv3)) := by
  rw [init_prefix, initLoop_eq 33 0 _ (by omega) (by omega) (by decide)]
  rfl


theorem genLoop_eq (m : Nat) (hm : m < 2 ^ 62) (fuel : Nat) : ∀ (j : Nat) (st : Model.Snow3g.State) (ks : List UInt32),
    j ≤ m → m ≤ ks.length → m - j < fuel →
    State.GenerateKeystream.loop1 (m : Int) fuel (j : Int) (toGen st) ks
      = .ok (toGen (Model.Snow3g.genWords (m - j) st).2,
             ks.take j ++ (Model.Snow3g.genWords (m - j) st).1 ++ ks.drop m) := by
  induction fuel with
  | zero => intro j st ks _ _ h; omega
  | succ n ih =>
    intro j st ks hj hl hf
    unfold State.GenerateKeystream.loop1
    by_cases hlt : j < m
    · have hc : ((j : Int) < (m : Int)) := by omega
      have hset : Go.set ks (j : Int) ((Model.Snow3g.clockFsm st).1 ^^^ (Model.Snow3g.clockFsm st).2.s0)
          = .ok (ks.set j ((Model.Snow3g.clockFsm st).1 ^^^ (Model.Snow3g.clockFsm st).2.s0)) := by
        unfold Go.set
        have : (0 : Int) ≤ j ∧ (j : Int) < ks.length := by omega
        simp [this]
      simp only [hc, decide_true, if_true, idx15, idx5, idx0, okb, clockFsm_eq, lfsrKeystreamMode_eq, hset]
      have hw : Go.iadd (j : Int) 1 = ((j + 1 : Nat) : Int) := by unfold Go.iadd Go.wrapInt; omega
      rw [hw, ih (j + 1) _ _ (by omega) (by simpa using hl) (by omega)]
      have hk : m - j = (m - (j + 1)) + 1 := by omega
      rw [hk]
      simp only [Model.Snow3g.genWords]
      have h1 : List.take (j + 1) (ks.set j ((Model.Snow3g.clockFsm st).fst ^^^ (Model.Snow3g.clockFsm st).snd.s0))
          = List.take j ks ++ [(Model.Snow3g.clockFsm st).fst ^^^ (Model.Snow3g.clockFsm st).snd.s0] := by
        rw [List.take_add_one]
        have hjl : j < ks.length := by omega
        simp [List.take_set, hjl]
        exact List.set_eq_of_length_le (by simp; omega)
      have h2 : List.drop m (ks.set j ((Model.Snow3g.clockFsm st).fst ^^^ (Model.Snow3g.clockFsm st).snd.s0)) = List.drop m ks :=
        List.drop_set_of_lt (by omega)
      rw [h1, h2]
      simp
    · have : j = m := by omega
      subst this
      simp [Model.Snow3g.genWords]


theorem GenerateKeystream_eq (st : Model.Snow3g.State) (m : Nat) (ks : List UInt32) (hm : m ≤ ks.length)
    (hl : ks.length < 2 ^ 62) :
    State.GenerateKeystream (toGen st) (m : Int) ks
      = .ok (toGen (Model.Snow3g.generateKeystream m st).2, (Model.Snow3g.generateKeystream m st).1 ++ ks.drop m) := by
  have hf : m - 0 < (Go.isub (m : Int) 0).toNat + 1 := by unfold Go.isub Go.wrapInt; omega
  have h := genLoop_eq m (by omega) ((Go.isub (m : Int) 0).toNat + 1) 0
    (Model.Snow3g.lfsrKeystreamMode (Model.Snow3g.clockFsm st).2) ks (by omega) hm hf
  unfold State.GenerateKeystream
  rw [idx15, okb, idx5, okb, clockFsm_eq, okb]
  show (State.lfsrKeystreamMode (toGen (Model.Snow3g.clockFsm st).snd) >>= fun t4 =>
        State.GenerateKeystream.loop1 (m : Int) ((Go.isub (m : Int) 0).toNat + 1) 0 t4 ks >>= fun t11 =>
        Except.ok (t11.fst, t11.snd)) = _
  rw [lfsrKeystreamMode_eq, okb]
  simp only [Int.natCast_zero, Nat.sub_zero, List.take_zero, List.nil_append] at h
  rw [h, okb]
  rfl

/-- the hypotheses of `GenerateKeystream_eq` are satisfiable (3 words into a slice of 4) -/
example : (3 : Nat) ≤ ([9, 9, 9, 9] : List UInt32).length ∧ ([9, 9, 9, 9] : List UInt32).length < 2 ^ 62 := by decide

/-- a count that is not positive: the discarded clock only, `ks` untouched -/
theorem GenerateKeystream_nonpos (st : Model.Snow3g.State) (n : Int) (ks : List UInt32) (hn : n ≤ 0) :
    State.GenerateKeystream (toGen st) n ks
      = .ok (toGen (Model.Snow3g.generateKeystream 0 st).2, ks) := by
  unfold State.GenerateKeystream
  rw [idx15, okb, idx5, okb, clockFsm_eq, okb]
  show (State.lfsrKeystreamMode (toGen (Model.Snow3g.clockFsm st).snd) >>= fun t4 =>
        State.GenerateKeystream.loop1 n ((Go.isub n 0).toNat + 1) 0 t4 ks >>= fun t11 =>
        Except.ok (t11.fst, t11.snd)) = _
  rw [lfsrKeystreamMode_eq, okb]
  unfold State.GenerateKeystream.loop1
  have : ¬ ((0 : Int) < n) := by omega
  simp only [this, decide_false, Bool.false_eq_true, if_false, okb]
  rfl

/-- the panic half: a slice shorter than the count -/
theorem genLoop_short (m : Int) (fuel : Nat) : ∀ (j : Nat) (st : Model.Snow3g.State) (ks : List UInt32),
    j ≤ ks.length → (ks.length : Int) < m → ks.length < 2 ^ 62 → ks.length - j < fuel →
    State.GenerateKeystream.loop1 m fuel (j : Int) (toGen st) ks = .error .panic := by
  induction fuel with
  | zero => intro j st ks _ _ _ h; omega
  | succ n ih =>
    intro j st ks hj hl h62 hf
    unfold State.GenerateKeystream.loop1
    have hc : ((j : Int) < m) := by omega
    by_cases hlt : j < ks.length
    · have hset : Go.set ks (j : Int) ((Model.Snow3g.clockFsm st).1 ^^^ (Model.Snow3g.clockFsm st).2.s0)
          = .ok (ks.set j ((Model.Snow3g.clockFsm st).1 ^^^ (Model.Snow3g.clockFsm st).2.s0)) := by
        unfold Go.set
        have : (0 : Int) ≤ j ∧ (j : Int) < ks.length := by omega
        simp [this]
      simp only [hc, decide_true, if_true, idx15, idx5, idx0, okb, clockFsm_eq, lfsrKeystreamMode_eq, hset]
      have hw : Go.iadd (j : Int) 1 = ((j + 1 : Nat) : Int) := by unfold Go.iadd Go.wrapInt; omega
      rw [hw, ih (j + 1) _ _ (by simp; omega) (by simpa using hl) (by simpa using h62) (by simp; omega)]
    · have hset : Go.set ks (j : Int) ((Model.Snow3g.clockFsm st).1 ^^^ (Model.Snow3g.clockFsm st).2.s0)
          = .error .panic := by
        unfold Go.set
        have : ¬ ((0 : Int) ≤ j ∧ (j : Int) < ks.length) := by omega
        rw [if_neg this]
      simp only [hc, decide_true, if_true, idx15, idx5, idx0, okb, clockFsm_eq, hset]
      rfl

/-- the hypotheses of `GenerateKeystream_short` are satisfiable (5 words into a slice of 4) -/
example : (([9, 9, 9, 9] : List UInt32).length : Int) < 5 ∧ ([9, 9, 9, 9] : List UInt32).length < 2 ^ 62 ∧ (5 : Int) < 2 ^ 63 := by
  decide

theorem GenerateKeystream_short (st : Model.Snow3g.State) (n : Int) (ks : List UInt32) (hn : (ks.length : Int) < n)
    (hl : ks.length < 2 ^ 62) (h63 : n < 2 ^ 63) :
    State.GenerateKeystream (toGen st) n ks = .error .panic := by
  unfold State.GenerateKeystream
  rw [idx15, okb, idx5, okb, clockFsm_eq, okb]
  show (State.lfsrKeystreamMode (toGen (Model.Snow3g.clockFsm st).snd) >>= fun t4 =>
        State.GenerateKeystream.loop1 n ((Go.isub n 0).toNat + 1) 0 t4 ks >>= fun t11 =>
        Except.ok (t11.fst, t11.snd)) = _
  rw [lfsrKeystreamMode_eq, okb]
  have h := genLoop_short n ((Go.isub n 0).toNat + 1) 0 (Model.Snow3g.lfsrKeystreamMode (Model.Snow3g.clockFsm st).snd) ks
    (by omega) hn hl (by unfold Go.isub Go.wrapInt; omega)
  simp only [Int.natCast_zero] at h
  rw [h]
  rfl

end Stgutg.Proofs.GenTie.SecAlg
