/-
  C13 helper, part 7: refusal on skeletons. `tmReach env h lb ub … tm`: the encoder's path through the evaluated skeleton
  reaches the hole `h` at an INTEGER position constrained to `lb..ub` without extension marker. `tmReach_sound`: when the
  hole is filled with an integer outside `lb..ub` the evaluated skeleton is `badV`, so `ngap.Encoder` (model) refuses it.
-/
import Stgutg.Proofs.Builders
import Stgutg.Proofs.BuildersRefuse

namespace Stgutg.Proofs.BuildersRefuse
open Stgutg Stgutg.Aper Stgutg.Builders Stgutg.Model.Convert Stgutg.Proofs.Builders

def reachFields (r : Ty → Params → Tm → Bool) : List Field → List Tm → Bool
  | fd :: frest, t :: trest => r fd.ty fd.params t || reachFields r frest trest
  | _, _ => false

def tmReach (env : Env) (h : Hole) (lb ub : Int) : Nat → Nat → Ty → Params → Tm → Bool
  | 0, _, _, _, _ => false
  | _ + 1, 0, _, _, _ => false
  | g + 1, f + 1, ty, p, tm =>
    match tm with
    | .hole h' => h' == h && ty == .int && p.valueLB == some lb && p.valueUB == some ub && !p.valueExt
    | .ptr t =>
      (match ty with
       | .ptr ty' => tmReach env h lb ub g f ty' p t
       | _ => false)
    | .slice l =>
      (match ty with
       | .slice t => l.any (fun x => tmReach env h lb ub g f t (stripSizeE p) x)
       | _ => false)
    | .struct fs =>
      (match ty with
       | .struct id =>
         (match env[id]? with
          | none => false
          | some sd =>
            if isChoice sd then
              (match fs with
               | .int pv :: _ =>
                 (match sd.fields[pv.toNat]?, fs[pv.toNat]? with
                  | some fd, some alt => tmReach env h lb ub g f fd.ty fd.params alt
                  | _, _ => false)
               | _ => false)
            else reachFields (tmReach env h lb ub g f) sd.fields fs)
       | _ => false)
    | _ => false

theorem badV_nil (env : Env) (fuel : Nat) (ty : Ty) (p : Params) : badV env fuel ty p .nil = false := by
  cases fuel with
  | zero => rfl
  | succ f => cases ty <;> rfl

theorem isNil_of (v : Val) (h : isNil v = true) : v = .nil := by
  cases v <;> simp [isNil] at h ⊢

variable (E : Ext) (e : BEnv)

theorem reachFields_sound (cur : Val) (r : Ty → Params → Tm → Bool) (bad : Ty → Params → Val → Bool)
    (hnil : ∀ ty p, bad ty p .nil = false)
    (H : ∀ ty p t, r ty p t = true → bad ty p (eval E e cur t) = true) :
    ∀ (fields : List Field) (ts : List Tm), reachFields r fields ts = true →
      badFields bad fields (ts.map (eval E e cur)) = true := by
  intro fields
  induction fields with
  | nil => intro ts h; simp [reachFields] at h
  | cons fd frest ih =>
    intro ts h
    cases ts with
    | nil => simp [reachFields] at h
    | cons t trest =>
      simp only [reachFields, Bool.or_eq_true] at h
      simp only [List.map_cons, badFields, Bool.or_eq_true, Bool.and_eq_true, Bool.not_eq_true']
      rcases h with h | h
      · left
        have hb := H _ _ _ h
        refine ⟨?_, hb⟩
        cases hn : isNil (eval E e cur t) with
        | false => simp
        | true => rw [isNil_of _ hn, hnil] at hb; cases hb
      · exact .inr (ih trest h)

/-- **the out-of-range identifier makes the PDU un-encodable** -/
theorem tmReach_sound (env : Env) (h : Hole) (lb ub n : Int) (hout : n < lb ∨ ub < n) :
    ∀ (g f : Nat) (ty : Ty) (p : Params) (tm : Tm) (cur : Val), evalHole E e cur h = .int n →
      tmReach env h lb ub g f ty p tm = true → badV env f ty p (eval E e cur tm) = true := by
  intro g
  induction g with
  | zero => intro f ty p tm cur _ hr; simp [tmReach] at hr
  | succ g ih =>
    intro f ty p tm cur hev hr
    cases f with
    | zero => simp [tmReach] at hr
    | succ f =>
      cases tm <;> try (simp [tmReach] at hr; done)
      · -- ptr
        rename_i t
        cases ty <;> try (simp [tmReach] at hr; done)
        simp only [tmReach] at hr
        simp only [eval, badV]
        exact ih f _ p t cur hev hr
      · -- struct
        rename_i fs
        cases ty <;> try (simp [tmReach] at hr; done)
        rename_i id
        simp only [tmReach] at hr
        simp only [eval, evalL_eq, badV]
        cases hsd : env[id]? with
        | none => simp [hsd] at hr
        | some sd =>
          simp only [hsd] at hr ⊢
          by_cases hch : isChoice sd = true
          · simp only [hch, if_true] at hr ⊢
            cases fs with
            | nil => simp at hr
            | cons f0 rest =>
              cases f0 <;> try (simp at hr; done)
              rename_i pv
              simp only at hr
              cases hfd : sd.fields[pv.toNat]? with
              | none => simp [hfd] at hr
              | some fd =>
                cases halt : (Tm.int pv :: rest)[pv.toNat]? with
                | none => simp [hfd, halt] at hr
                | some alt =>
                  simp only [hfd, halt] at hr
                  have hb := ih f fd.ty fd.params alt cur hev hr
                  have hev' : eval E e cur (.int pv) = .int pv := by simp [eval]
                  have hget : (Val.int pv :: rest.map (eval E e cur))[pv.toNat]? = some (eval E e cur alt) := by
                    have := congrArg (Option.map (eval E e cur)) halt
                    rw [← List.getElem?_map] at this
                    simpa [hev'] using this
                  simp only [List.map_cons, hev', hfd, hget]
                  exact hb
          · simp only [hch, if_false, Bool.false_eq_true] at hr ⊢
            exact reachFields_sound E e cur _ _ (fun ty q => badV_nil env f ty q) (fun ty q t ht => ih f ty q t cur hev ht) _ _ hr
      · -- slice
        rename_i l
        cases ty <;> try (simp [tmReach] at hr; done)
        rename_i t
        simp only [tmReach, List.any_eq_true] at hr
        obtain ⟨x, hx, hrx⟩ := hr
        simp only [eval, evalL_eq, badV, List.any_eq_true, List.mem_map]
        exact ⟨eval E e cur x, ⟨x, hx, rfl⟩, ih f t _ x cur hev hrx⟩
      · -- hole
        rename_i h'
        simp only [tmReach, Bool.and_eq_true, beq_iff_eq, Bool.not_eq_true'] at hr
        obtain ⟨⟨⟨⟨rfl, hty⟩, hl⟩, hu⟩, hext⟩ := hr
        subst hty
        simp only [eval, hev, badV, hl, hu, hext, Bool.not_false, Bool.and_true, Bool.or_eq_true, decide_eq_true_eq]
        exact hout

/-! ### an out-of-range element of a list argument -/

/-- the encoder's path reaches a list built by ranging over argument `i` (`mapInts`) whose per-item template reaches the loop
    variable at an INTEGER constrained to `lb..ub` without extension marker -/
def tmReachList (env : Env) (i : Nat) (lb ub : Int) : Nat → Nat → Ty → Params → Tm → Bool
  | 0, _, _, _, _ => false
  | _ + 1, 0, _, _, _ => false
  | g + 1, f + 1, ty, p, tm =>
    match tm with
    | .mapInts i' item =>
      (match ty with
       | .slice t => i' == i && tmReach env .elem lb ub g f t (stripSizeE p) item
       | _ => false)
    | .ptr t =>
      (match ty with
       | .ptr ty' => tmReachList env i lb ub g f ty' p t
       | _ => false)
    | .slice l =>
      (match ty with
       | .slice t => l.any (fun x => tmReachList env i lb ub g f t (stripSizeE p) x)
       | _ => false)
    | .struct fs =>
      (match ty with
       | .struct id =>
         (match env[id]? with
          | none => false
          | some sd =>
            if isChoice sd then
              (match fs with
               | .int pv :: _ =>
                 (match sd.fields[pv.toNat]?, fs[pv.toNat]? with
                  | some fd, some alt => tmReachList env i lb ub g f fd.ty fd.params alt
                  | _, _ => false)
               | _ => false)
            else reachFields (tmReachList env i lb ub g f) sd.fields fs)
       | _ => false)
    | _ => false

/-- **an out-of-range element of the list makes the PDU un-encodable** -/
theorem tmReachList_sound (env : Env) (i : Nat) (lb ub n : Int) (hout : n < lb ∨ ub < n) (xs : List Val)
    (hx : e.arg i = .slice xs) (hmem : Val.int n ∈ xs) :
    ∀ (g f : Nat) (ty : Ty) (p : Params) (tm : Tm) (cur : Val),
      tmReachList env i lb ub g f ty p tm = true → badV env f ty p (eval E e cur tm) = true := by
  intro g
  induction g with
  | zero => intro f ty p tm cur hr; simp [tmReachList] at hr
  | succ g ih =>
    intro f ty p tm cur hr
    cases f with
    | zero => simp [tmReachList] at hr
    | succ f =>
      cases tm <;> try (simp [tmReachList] at hr; done)
      · -- ptr
        rename_i t
        cases ty <;> try (simp [tmReachList] at hr; done)
        simp only [tmReachList] at hr
        simp only [eval, badV]
        exact ih f _ p t cur hr
      · -- struct
        rename_i fs
        cases ty <;> try (simp [tmReachList] at hr; done)
        rename_i id
        simp only [tmReachList] at hr
        simp only [eval, evalL_eq, badV]
        cases hsd : env[id]? with
        | none => simp [hsd] at hr
        | some sd =>
          simp only [hsd] at hr ⊢
          by_cases hch : isChoice sd = true
          · simp only [hch, if_true] at hr ⊢
            cases fs with
            | nil => simp at hr
            | cons f0 rest =>
              cases f0 <;> try (simp at hr; done)
              rename_i pv
              simp only at hr
              cases hfd : sd.fields[pv.toNat]? with
              | none => simp [hfd] at hr
              | some fd =>
                cases halt : (Tm.int pv :: rest)[pv.toNat]? with
                | none => simp [hfd, halt] at hr
                | some alt =>
                  simp only [hfd, halt] at hr
                  have hb := ih f fd.ty fd.params alt cur hr
                  have hev' : eval E e cur (.int pv) = .int pv := by simp [eval]
                  have hget : (Val.int pv :: rest.map (eval E e cur))[pv.toNat]? = some (eval E e cur alt) := by
                    have := congrArg (Option.map (eval E e cur)) halt
                    rw [← List.getElem?_map] at this
                    simpa [hev'] using this
                  simp only [List.map_cons, hev', hfd, hget]
                  exact hb
          · simp only [hch, if_false, Bool.false_eq_true] at hr ⊢
            exact reachFields_sound E e cur _ _ (fun ty q => badV_nil env f ty q) (fun ty q t ht => ih f ty q t cur ht) _ _ hr
      · -- slice
        rename_i l
        cases ty <;> try (simp [tmReachList] at hr; done)
        rename_i t
        simp only [tmReachList, List.any_eq_true] at hr
        obtain ⟨x, hx', hrx⟩ := hr
        simp only [eval, evalL_eq, badV, List.any_eq_true, List.mem_map]
        exact ⟨eval E e cur x, ⟨x, hx', rfl⟩, ih f t _ x cur hrx⟩
      · -- mapInts
        rename_i i' item
        cases ty <;> try (simp [tmReachList] at hr; done)
        rename_i t
        simp only [tmReachList, Bool.and_eq_true, beq_iff_eq] at hr
        obtain ⟨rfl, hritem⟩ := hr
        simp only [eval, hx, badV, List.any_eq_true, List.mem_map]
        refine ⟨eval E e (.int n) item, ⟨.int n, hmem, rfl⟩, ?_⟩
        exact tmReach_sound E e env .elem lb ub n hout g f t _ item (.int n) (by simp [evalHole]) hritem

end Stgutg.Proofs.BuildersRefuse
