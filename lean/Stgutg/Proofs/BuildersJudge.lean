/-
  C01 helper: the NGAP layer of the reference AMF's `step` (Spec/Amf.lean) on the PDUs of the registration path.
  What the judge reads from a built PDU — message, mandatory IEs, AMF-UE-NGAP-ID, RAN-UE-NGAP-ID, NAS-PDU, the PLMN of the
  Global RAN Node ID — is what the builder was given (static facts about the four skeletons + the carrier lemmas of C13).
-/
import Stgutg.Proofs.BuildersPath
import Stgutg.Proofs.Emulator
import Stgutg.Spec.Amf

namespace Stgutg.Proofs.BuildersJudge
open Stgutg Stgutg.Aper Stgutg.Builders Stgutg.Model.Convert Stgutg.Spec.NgapView
open Stgutg.Proofs.Builders Stgutg.Proofs.BuildersPath Stgutg.Proofs.BuildersRange Stgutg.Proofs.BuildersTm

/-- no mandatory IE of the message's table is missing (TS 38.413 10.3), from the C13 `mandatory` fact -/
theorem missingMandatory_none (m : Spec.Ts38413.Msg) (v : Val) (ms : List (Nat × Nat)) (hms : Spec.Ts38413.mandatory m = some ms)
    (hs : List (Int × Nat)) (hh : headers v = some (hs.map some)) (hall : ∀ x ∈ ms, ((x.1 : Int), x.2) ∈ hs) :
    Spec.Amf.missingMandatory m v = none := by
  unfold Spec.Amf.missingMandatory
  rw [hms, hh]
  simp only [Option.map_eq_none_iff, List.find?_eq_none]
  intro x hx
  obtain ⟨id, crit⟩ := x
  have := hall (id, crit) hx
  simp only [Bool.not_eq_true']
  intro hf
  have ht : ((hs.map some).any fun h => h == some ((id : Int), crit)) = true :=
    List.any_eq_true.mpr ⟨_, List.mem_map.mpr ⟨_, this, rfl⟩, by simp⟩
  rw [ht] at hf
  cases hf

/-- the IE with id `id` occurs exactly once and its value is the one-component SEQUENCE wrapping the hole `h` -/
def carriesExact (tm : Tm) (id : Int) (h : Hole) : Bool :=
  match Tm.headers tm, Tm.iesById tm id with
  | some _, some [ie] =>
    match Tm.ieValue ie with
    | some (.struct [.hole h']) => h' == h
    | _ => false
  | _, _ => false

theorem carriesExact_sound (E : Ext) (e : BEnv) (cur : Val) (tm : Tm) (id : Int) (h : Hole)
    (hc : carriesExact tm id h = true) :
    ieValuesById (eval E e cur tm) id = some [some (.struct [evalHole E e cur h])] := by
  unfold carriesExact at hc
  split at hc
  · rename_i hs ie hh hi
    split at hc
    · rename_i h' hv
      have : h' = h := by simpa using hc
      subst this
      have := ieValuesById_eval E e cur tm id hs hh [ie] hi [.struct [.hole h']] (by simp [hv])
      simpa [eval, evalL] using this
    · simp at hc
  · simp at hc

theorem ieInt_of_exact (pdu : Val) (id : Nat) (n : Int) (h : ieValuesById pdu (id : Int) = some [some (.struct [.int n])]) :
    Spec.Amf.ieInt pdu id = some n := by
  unfold Spec.Amf.ieInt; rw [h]

theorem ieOcts_of_exact (pdu : Val) (id : Nat) (b : Bytes) (h : ieValuesById pdu (id : Int) = some [some (.struct [.octs b])]) :
    Spec.Amf.ieOcts pdu id = some b := by
  unfold Spec.Amf.ieOcts; rw [h]

/-- the skeleton of the first row of a template's decision table -/
def skOf (t : Template) : Tm :=
  match t.cases with
  | ⟨_, .val tm⟩ :: _ => tm
  | _ => .nil

open Spec.Ts38413 in
/-- table facts about the four skeletons (no schema involved) -/
theorem path_carriers :
    (carriesExact (skOf tUplinkNasTransport) ieAMFUENGAPID (.arg 0) &&
     carriesExact (skOf tUplinkNasTransport) ieRANUENGAPID (.arg 1) &&
     carriesExact (skOf tUplinkNasTransport) ieNASPDU (.argOcts 2) &&
     carriesExact (skOf tInitialContextSetupResponseForRegistraionTest) ieAMFUENGAPID (.arg 0) &&
     carriesExact (skOf tInitialContextSetupResponseForRegistraionTest) ieRANUENGAPID (.arg 1) &&
     carriesExact skInitialUE ieRANUENGAPID (.arg 0) && carriesExact skInitialUE ieNASPDU (.argOcts 1) &&
     carriesHole (skOf tGetNGSetupRequest) ieGlobalRANNodeID [1, 0, 0, 0] .plmn) = true := by decide +kernel

/-- the obligations of the row the arguments select, from `InRange` -/
theorem inRange_row (canon : Bool) (E : Ext) (t : Template) (plmn : Bytes) (args : List Val)
    (h : InRange canon E t plmn args) (c : Case) (tm : Tm) (hsel : selected E t plmn args = some c) (hout : c.out = .val tm) :
    ∀ o ∈ skObls tm, Obl.ok Gen.Ngap.schema canon E (effEnv t plmn args) .nil o = true := by
  obtain ⟨c', tm', hsel', hout', hob⟩ := h
  rw [hsel] at hsel'
  cases hsel'
  rw [hout] at hout'
  cases hout'
  exact hob

/-- **what the reference AMF decodes is the evaluated skeleton**: for the row the in-range arguments select, the builder
    returns the evaluation of that row's skeleton, `ngap.Encoder` returns octets, and the reference AMF decodes them to it -/
theorem skeleton_seen (E : Ext) (t : Template) (ht : t ∈ allTable) (plmn : Bytes) (args : List Val)
    (h : InRange true E t plmn args) (c : Case) (tm : Tm) (hsel : selected E t plmn args = some c) (hout : c.out = .val tm)
    (hnc : Props.C13.NonCanonicalConst t = false) :
    ∃ b, build E t plmn args = .ok (eval E (effEnv t plmn args) .nil tm) ∧
      encodePdu (eval E (effEnv t plmn args) .nil tm) = .ok b ∧
      Spec.Amf.decodeNgap b = some (eval E (effEnv t plmn args) .nil tm) := by
  have hob := inRange_row true E t plmn args h c tm hsel hout
  have hsk : skOK true tm = true := by
    rcases (Props.C13.skeleton_facts t ht c (selected_mem E t plmn args c hsel) tm hout).1.2 with h2 | h2
    · exact h2
    · rw [hnc] at h2; cases h2
  obtain ⟨hb, hv⟩ := selected_builds true E t plmn args c tm hsel hout hsk hob
  obtain ⟨b, h1, _⟩ := okV_pdu_encodes true _ hv
  refine ⟨b, hb, h1, ?_⟩
  apply Proofs.Emulator.amf_sees_built_pdu _ b ?_ ?_ h1
  · rw [← Proofs.Emulator.fuel_eq]; exact Proofs.BuildersOk.okV_conf _ _ _ _ _ hv
  · rw [← Proofs.Emulator.fuel_eq]; exact Proofs.BuildersOk.okV_regular _ _ _ _ _ _ _ hv

/-! ### the judge's `step`, NGAP layer -/

open Spec.Ts38413 in
theorem msgOf_of (pdu : Val) (m : Spec.Ts38413.Msg) (h1 : pduPresent pdu = some ((msgClass m).index + 1))
    (h2 : pduProc pdu = some (procCode m : Int))
    (hfind : Spec.Amf.uplinkMsgs.find? (fun m' => (msgClass m').index + 1 == (msgClass m).index + 1 &&
      (procCode m' : Int) == (procCode m : Int)) = some m) : Spec.Amf.msgOf pdu = some m := by
  unfold Spec.Amf.msgOf
  rw [h1, h2]
  exact hfind

open Spec.Ts38413 in
/-- UPLINK NAS TRANSPORT from a known UE with the assigned identifiers: the judge raises no NGAP clause and hands the
    NAS-PDU to the plain / protected NAS handler -/
theorem step_uplinkNasTransport (P : Prims) (cfg : Spec.Amf.Cfg) (chs : List Spec.Amf.Choice) (s : Spec.Amf.St) (k : Nat)
    (b : Bytes) (pdu : Val) (amf ran : Int) (nas : Bytes) (hd : Spec.Amf.decodeNgap b = some pdu)
    (h1 : pduPresent pdu = some ((msgClass .UplinkNASTransport).index + 1))
    (h2 : pduProc pdu = some (procCode .UplinkNASTransport : Int))
    (hmiss : Spec.Amf.missingMandatory .UplinkNASTransport pdu = none)
    (hamf : Spec.Amf.ieInt pdu ieAMFUENGAPID = some amf) (hran : Spec.Amf.ieInt pdu ieRANUENGAPID = some ran)
    (hnas : Spec.Amf.ieOcts pdu ieNASPDU = some nas)
    (u : Spec.Amf.UeSt) (hu : s.ues.find? (·.ran == ran) = some u) (hua : (u.ch.amfUeNgapId : Int) = amf) :
    Spec.Amf.step P cfg chs s k b =
      if Spec.Amf.byteAt nas 1 % 16 == 0 then Spec.Amf.onPlainUplink s k u nas
      else Spec.Amf.onProtectedUplink P cfg s k u false nas := by
  have hmsg := msgOf_of pdu .UplinkNASTransport h1 h2 (by decide)
  have hur : u.ran = ran := by
    have := List.find?_some hu
    simpa using this
  unfold Spec.Amf.step
  rw [hd]
  simp only [hmsg, hmiss]
  have hby : Spec.Amf.ueByRan s pdu = some u := by
    unfold Spec.Amf.ueByRan; rw [hran]; exact hu
  rw [hby]
  simp only
  have hck : Spec.Amf.checkIds s k pdu u = s := by
    unfold Spec.Amf.checkIds
    rw [hamf, hran, hua, hur]
    simp
  rw [hck, hnas]

open Spec.Ts38413 in
/-- INITIAL CONTEXT SETUP RESPONSE answering the registration's INITIAL CONTEXT SETUP REQUEST: no clause; the UE is
    registered once Registration Complete has been seen too -/
theorem step_initialContextSetupResponse (P : Prims) (cfg : Spec.Amf.Cfg) (chs : List Spec.Amf.Choice) (s : Spec.Amf.St)
    (k : Nat) (b : Bytes) (pdu : Val) (amf ran : Int) (hd : Spec.Amf.decodeNgap b = some pdu)
    (h1 : pduPresent pdu = some ((msgClass .InitialContextSetupResponse).index + 1))
    (h2 : pduProc pdu = some (procCode .InitialContextSetupResponse : Int))
    (hmiss : Spec.Amf.missingMandatory .InitialContextSetupResponse pdu = none)
    (hamf : Spec.Amf.ieInt pdu ieAMFUENGAPID = some amf) (hran : Spec.Amf.ieInt pdu ieRANUENGAPID = some ran)
    (u : Spec.Amf.UeSt) (hu : s.ues.find? (·.ran == ran) = some u) (hua : (u.ch.amfUeNgapId : Int) = amf)
    (hsvc : u.svcPending = false) (c : Bool) (hreg : u.reg = .ctxSetup false c) :
    Spec.Amf.step P cfg chs s k b = s.setUe { u with reg := if c then .registered else .ctxSetup true c } := by
  have hmsg := msgOf_of pdu .InitialContextSetupResponse h1 h2 (by decide)
  have hur : u.ran = ran := by
    have := List.find?_some hu
    simpa using this
  unfold Spec.Amf.step
  rw [hd]
  simp only [hmsg, hmiss]
  have hby : Spec.Amf.ueByRan s pdu = some u := by
    unfold Spec.Amf.ueByRan; rw [hran]; exact hu
  rw [hby]
  simp only
  have hck : Spec.Amf.checkIds s k pdu u = s := by
    unfold Spec.Amf.checkIds
    rw [hamf, hran, hua, hur]
    simp
  rw [hck]
  simp [hsvc, hreg]

open Spec.Ts38413 in
/-- NG SETUP REQUEST announcing the configured PLMN, first on the association: no clause, NG Setup done -/
theorem step_ngSetupRequest (P : Prims) (cfg : Spec.Amf.Cfg) (chs : List Spec.Amf.Choice) (s : Spec.Amf.St)
    (k : Nat) (b : Bytes) (pdu : Val) (m : Bytes) (hd : Spec.Amf.decodeNgap b = some pdu)
    (h1 : pduPresent pdu = some ((msgClass .NGSetupRequest).index + 1))
    (h2 : pduProc pdu = some (procCode .NGSetupRequest : Int))
    (hmiss : Spec.Amf.missingMandatory .NGSetupRequest pdu = none)
    (hplmn : Spec.Amf.ngSetupPlmn pdu = some m) (hcfg : Spec.Amf.plmnOf cfg = some m) (hfirst : s.ngSetup = false) :
    Spec.Amf.step P cfg chs s k b = { s with ngSetup := true } := by
  have hmsg := msgOf_of pdu .NGSetupRequest h1 h2 (by decide)
  unfold Spec.Amf.step
  rw [hd]
  simp only [hmsg, hmiss]
  simp [hfirst, hplmn, hcfg]

open Spec.Ts38413 in
/-- INITIAL UE MESSAGE after NG Setup: no NGAP clause; a plain Registration Request goes to `onRegistrationRequest` -/
theorem step_initialUEMessage (P : Prims) (cfg : Spec.Amf.Cfg) (chs : List Spec.Amf.Choice) (s : Spec.Amf.St)
    (k : Nat) (b : Bytes) (pdu : Val) (nas : Bytes) (hd : Spec.Amf.decodeNgap b = some pdu)
    (h1 : pduPresent pdu = some ((msgClass .InitialUEMessage).index + 1))
    (h2 : pduProc pdu = some (procCode .InitialUEMessage : Int))
    (hmiss : Spec.Amf.missingMandatory .InitialUEMessage pdu = none)
    (hnas : Spec.Amf.ieOcts pdu ieNASPDU = some nas) (hsetup : s.ngSetup = true)
    (hplain : Spec.Amf.byteAt nas 1 % 16 = 0) (hty : Spec.Amf.byteAt nas 2 = 0x41) :
    Spec.Amf.step P cfg chs s k b = Spec.Amf.onRegistrationRequest P cfg chs s k pdu nas := by
  have hmsg := msgOf_of pdu .InitialUEMessage h1 h2 (by decide)
  unfold Spec.Amf.step
  rw [hd]
  simp only [hmsg, hmiss]
  simp [hsetup, hnas, hplain, hty]

/-! ### the four messages on the wire: what the judge reads from them -/

open Spec.Ts38413 in
/-- the facts the judge's NGAP layer needs of a PDU that is the evaluation of a skeleton of `t` -/
theorem shaped_facts (E : Ext) (t : Template) (ht : t ∈ allTable) (plmn : Bytes) (args : List Val) (pdu : Val)
    (hsh : Shaped E t plmn args pdu) (ms : List (Nat × Nat)) (hms : mandatory t.message = some ms) :
    pduPresent pdu = some ((msgClass t.message).index + 1) ∧ pduProc pdu = some (procCode t.message : Int) ∧
    Spec.Amf.missingMandatory t.message pdu = none := by
  obtain ⟨h1, h2⟩ := Props.C13.C13_class E t ht plmn args pdu hsh
  obtain ⟨hs, hh, hall⟩ := Props.C13.C13_mandatory E t ht ms hms plmn args pdu hsh
  exact ⟨h1, h2, missingMandatory_none t.message pdu ms hms hs hh hall⟩

open Spec.Ts38413 in
/-- UPLINK NAS TRANSPORT on the wire -/
theorem uplinkNasTransport_wire (E : Ext) (plmn : Bytes) (hplmn : plmn.length = 3) (amf ran : Int) (nas : Bytes)
    (ha0 : 0 ≤ amf) (ha1 : amf < 2 ^ 40) (hr0 : 0 ≤ ran) (hr1 : ran < 2 ^ 32) :
    ∃ pdu b, Wrapper.run E .GetUplinkNASTransport plmn [.int amf, .int ran, .octs nas] = .ok (.ok b) ∧
      Spec.Amf.decodeNgap b = some pdu ∧
      pduPresent pdu = some ((msgClass .UplinkNASTransport).index + 1) ∧
      pduProc pdu = some (procCode .UplinkNASTransport : Int) ∧
      Spec.Amf.missingMandatory .UplinkNASTransport pdu = none ∧
      Spec.Amf.ieInt pdu ieAMFUENGAPID = some amf ∧ Spec.Amf.ieInt pdu ieRANUENGAPID = some ran ∧
      Spec.Amf.ieOcts pdu ieNASPDU = some nas := by
  have ht : tUplinkNasTransport ∈ allTable := mem_hand (by simp [handTable])
  have hc := path_carriers
  simp only [Bool.and_eq_true] at hc
  obtain ⟨b, hb, he, hd⟩ := skeleton_seen E _ ht plmn _ (inRange_uplinkNasTransport E plmn hplmn amf ran nas ha0 ha1 hr0 hr1)
    ⟨[], .val (skOf tUplinkNasTransport)⟩ (skOf tUplinkNasTransport) rfl rfl rfl
  have hsh : Shaped E tUplinkNasTransport plmn [.int amf, .int ran, .octs nas]
      (eval E (effEnv tUplinkNasTransport plmn [.int amf, .int ran, .octs nas]) .nil (skOf tUplinkNasTransport)) :=
    ⟨_, by simp [skeletons, skOf, tUplinkNasTransport], rfl⟩
  obtain ⟨f1, f2, f3⟩ := shaped_facts E _ ht plmn _ _ hsh _ rfl
  refine ⟨_, b, ?_, hd, f1, f2, f3, ?_, ?_, ?_⟩
  · have hw : Wrapper.pdu E .GetUplinkNASTransport plmn [.int amf, .int ran, .octs nas] = .ok _ := hb
    unfold Wrapper.run; rw [hw]; simp only [he]
  · exact ieInt_of_exact _ _ amf (carriesExact_sound E _ .nil _ _ _ hc.1.1.1.1.1.1.1)
  · exact ieInt_of_exact _ _ ran (carriesExact_sound E _ .nil _ _ _ hc.1.1.1.1.1.1.2)
  · exact ieOcts_of_exact _ _ nas (carriesExact_sound E _ .nil _ _ _ hc.1.1.1.1.1.2)

open Spec.Ts38413 in
/-- INITIAL CONTEXT SETUP RESPONSE on the wire -/
theorem initialContextSetupResponse_wire (E : Ext) (plmn : Bytes) (hplmn : plmn.length = 3) (amf ran : Int)
    (ha0 : 0 ≤ amf) (ha1 : amf < 2 ^ 40) (hr0 : 0 ≤ ran) (hr1 : ran < 2 ^ 32) :
    ∃ pdu b, Wrapper.run E .GetInitialContextSetupResponse plmn [.int amf, .int ran] = .ok (.ok b) ∧
      Spec.Amf.decodeNgap b = some pdu ∧
      pduPresent pdu = some ((msgClass .InitialContextSetupResponse).index + 1) ∧
      pduProc pdu = some (procCode .InitialContextSetupResponse : Int) ∧
      Spec.Amf.missingMandatory .InitialContextSetupResponse pdu = none ∧
      Spec.Amf.ieInt pdu ieAMFUENGAPID = some amf ∧ Spec.Amf.ieInt pdu ieRANUENGAPID = some ran := by
  have ht : tInitialContextSetupResponseForRegistraionTest ∈ allTable := mem_hand (by simp [handTable])
  have hc := path_carriers
  simp only [Bool.and_eq_true] at hc
  obtain ⟨b, hb, he, hd⟩ := skeleton_seen E _ ht plmn _ (inRange_initialContextSetupResponse E plmn hplmn amf ran ha0 ha1 hr0 hr1)
    ⟨[], .val (skOf tInitialContextSetupResponseForRegistraionTest)⟩ (skOf tInitialContextSetupResponseForRegistraionTest)
    rfl rfl rfl
  have hsh : Shaped E tInitialContextSetupResponseForRegistraionTest plmn [.int amf, .int ran]
      (eval E (effEnv tInitialContextSetupResponseForRegistraionTest plmn [.int amf, .int ran]) .nil
        (skOf tInitialContextSetupResponseForRegistraionTest)) :=
    ⟨_, by simp [skeletons, skOf, tInitialContextSetupResponseForRegistraionTest], rfl⟩
  obtain ⟨f1, f2, f3⟩ := shaped_facts E _ ht plmn _ _ hsh _ rfl
  refine ⟨_, b, ?_, hd, f1, f2, f3, ?_, ?_⟩
  · have hw : Wrapper.pdu E .GetInitialContextSetupResponse plmn [.int amf, .int ran] = .ok _ := hb
    unfold Wrapper.run; rw [hw]; simp only [he]
  · exact ieInt_of_exact _ _ amf (carriesExact_sound E _ .nil _ _ _ hc.1.1.1.1.2)
  · exact ieInt_of_exact _ _ ran (carriesExact_sound E _ .nil _ _ _ hc.1.1.1.2)

open Spec.Ts38413 in
/-- INITIAL UE MESSAGE (no 5G-S-TMSI) on the wire -/
theorem initialUEMessage_wire (E : Ext) (plmn : Bytes) (hplmn : plmn.length = 3) (ran : Int) (nas : Bytes)
    (hr0 : 0 ≤ ran) (hr1 : ran < 2 ^ 32) :
    ∃ pdu b, Wrapper.run E .GetInitialUEMessage plmn [.int ran, .octs nas, .str []] = .ok (.ok b) ∧
      Spec.Amf.decodeNgap b = some pdu ∧
      pduPresent pdu = some ((msgClass .InitialUEMessage).index + 1) ∧
      pduProc pdu = some (procCode .InitialUEMessage : Int) ∧
      Spec.Amf.missingMandatory .InitialUEMessage pdu = none ∧
      Spec.Amf.ieInt pdu ieRANUENGAPID = some ran ∧ Spec.Amf.ieOcts pdu ieNASPDU = some nas := by
  have ht : tInitialUEMessage ∈ allTable := mem_hand (by simp [handTable])
  have hc := path_carriers
  simp only [Bool.and_eq_true] at hc
  obtain ⟨b, hb, he, hd⟩ := skeleton_seen E _ ht plmn _ (inRange_initialUEMessage E plmn hplmn ran nas hr0 hr1)
    ⟨[1], .val skInitialUE⟩ skInitialUE rfl rfl rfl
  have hsh : Shaped E tInitialUEMessage plmn [.int ran, .octs nas, .str []]
      (eval E (effEnv tInitialUEMessage plmn [.int ran, .octs nas, .str []]) .nil skInitialUE) :=
    ⟨_, by simp [skeletons, skInitialUE, tInitialUEMessage], rfl⟩
  obtain ⟨f1, f2, f3⟩ := shaped_facts E _ ht plmn _ _ hsh _ rfl
  refine ⟨_, b, ?_, hd, f1, f2, f3, ?_, ?_⟩
  · have hw : Wrapper.pdu E .GetInitialUEMessage plmn [.int ran, .octs nas, .str []] = .ok _ := hb
    unfold Wrapper.run; rw [hw]; simp only [he]
  · exact ieInt_of_exact _ _ ran (carriesExact_sound E _ .nil _ _ _ hc.1.1.2)
  · exact ieOcts_of_exact _ _ nas (carriesExact_sound E _ .nil _ _ _ hc.1.2)

open Spec.Ts38413 Stgutg.Proofs.BuildersRoles in
/-- NG SETUP REQUEST on the wire: the PLMN the judge reads from the Global RAN Node ID is the announced one -/
theorem ngSetupRequest_wire (E : Ext) (plmn g m name : Bytes) (bl : Int)
    (hm : m.length = 3) (h22 : 22 ≤ bl) (h32 : bl ≤ 32) (hg : g.length = (bl.toNat + 7) / 8)
    (hcn : Canonical g bl.toNat) (hname : 1 ≤ name.length) :
    ∃ pdu b, Wrapper.run E .GetNGSetupRequest plmn [.octs g, .octs m, .int bl, .str name] = .ok (.ok b) ∧
      Spec.Amf.decodeNgap b = some pdu ∧
      pduPresent pdu = some ((msgClass .NGSetupRequest).index + 1) ∧
      pduProc pdu = some (procCode .NGSetupRequest : Int) ∧
      Spec.Amf.missingMandatory .NGSetupRequest pdu = none ∧
      Spec.Amf.ngSetupPlmn pdu = some m := by
  have ht : tGetNGSetupRequest ∈ allTable := List.mem_append_right _ (by simp)
  have hc := path_carriers
  simp only [Bool.and_eq_true] at hc
  obtain ⟨b, hb, he, hd⟩ := skeleton_seen E _ ht plmn _ (inRange_ngSetupRequest E plmn g m name bl hm h22 h32 hg hcn hname)
    ⟨[], .val (skOf tGetNGSetupRequest)⟩ (skOf tGetNGSetupRequest) rfl rfl rfl
  have hsh : Shaped E tGetNGSetupRequest plmn [.octs g, .octs m, .int bl, .str name]
      (eval E (effEnv tGetNGSetupRequest plmn [.octs g, .octs m, .int bl, .str name]) .nil (skOf tGetNGSetupRequest)) :=
    ⟨_, by simp [skeletons, skOf, tGetNGSetupRequest], rfl⟩
  obtain ⟨f1, f2, f3⟩ := shaped_facts E _ ht plmn _ _ hsh _ rfl
  refine ⟨_, b, ?_, hd, f1, f2, f3, ?_⟩
  · unfold Wrapper.run
    rw [ngsetup_wrapper_eq, hb]; simp only [he]
  · obtain ⟨v, hv1, hv2⟩ := carriesHole_sound E (effEnv tGetNGSetupRequest plmn [.octs g, .octs m, .int bl, .str name]) .nil
      _ _ _ _ hc.2
    unfold Spec.Amf.ngSetupPlmn
    rw [hv1]
    simp only [hv2]
    rfl

/-! ### the first three octets of a parsed 5GMM message -/

open Spec.Ts24501 in
/-- a message whose imperative part starts with three one-octet elements (extended protocol discriminator, security header
    type + spare, message type — every plain 5GMM message) and parses to `m`: its first three octets are `m`'s first values -/
theorem parse_header (w : Wire) (bs : Bytes) (m : SMsg) (rest : List MWire) (hw : w.mand = .v 1 :: .v 1 :: .v 1 :: rest)
    (h : parse w bs = some m) (a b c : UInt8) (tl : List Bytes) (hm : m.mand = [a] :: [b] :: [c] :: tl) :
    Spec.Amf.byteAt bs 0 = a.toNat ∧ Spec.Amf.byteAt bs 1 = b.toNat ∧ Spec.Amf.byteAt bs 2 = c.toNat := by
  unfold parse at h
  rw [hw] at h
  cases bs with
  | nil => simp [parseMand, takeN] at h
  | cons x0 r0 =>
    cases r0 with
    | nil => simp [parseMand, takeN] at h
    | cons x1 r1 =>
      cases r1 with
      | nil => simp [parseMand, takeN] at h
      | cons x2 r2 =>
        simp only [parseMand, takeN, List.length_cons, Nat.le_add_left, if_true, List.take_succ_cons, List.take_zero,
          List.drop_succ_cons, List.drop_zero] at h
        cases hp : parseMand rest r2 with
        | none => simp [hp] at h
        | some x =>
          obtain ⟨vs, r⟩ := x
          simp only [hp, Option.map_some] at h
          cases ho : parseOpts w.opt r.length r with
          | none => simp [ho] at h
          | some os =>
            simp only [ho, Option.map_some, Option.some.injEq] at h
            subst h
            simp only [List.cons.injEq] at hm
            obtain ⟨h0, h1, h2, _⟩ := hm
            simp only [List.cons.injEq, and_true] at h0 h1 h2
            subst h0 h1 h2
            simp [Spec.Amf.byteAt]

open Spec.Ts24501 in
/-- `parse_header` for a wire given by its first three elements -/
theorem parse_header' (w : Wire) (bs : Bytes) (m : SMsg) (hw : w.mand.take 3 = [.v 1, .v 1, .v 1])
    (h : parse w bs = some m) (a b c : UInt8) (tl : List Bytes) (hm : m.mand = [a] :: [b] :: [c] :: tl) :
    Spec.Amf.byteAt bs 0 = a.toNat ∧ Spec.Amf.byteAt bs 1 = b.toNat ∧ Spec.Amf.byteAt bs 2 = c.toNat := by
  have : w.mand = .v 1 :: .v 1 :: .v 1 :: w.mand.drop 3 := by
    conv_lhs => rw [← List.take_append_drop 3 w.mand, hw]
    rfl
  exact parse_header w bs m _ this h a b c tl hm

end Stgutg.Proofs.BuildersJudge
