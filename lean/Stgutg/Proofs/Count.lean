/-
  Bit-vector algebra of `security.Count` (Model/NasProtect.lean `Count.*`): every operation on the stored
  32-bit word expressed in arithmetic on its value, for ALL 2^32 words (no enumeration).
-/
import Stgutg.Model.NasProtect
namespace Stgutg.Proofs.Count
open Stgutg.Model.NasProtect

theorem and_shl (x m k : Nat) : x &&& (m <<< k) = ((x >>> k) &&& m) <<< k := by
  apply Nat.eq_of_testBit_eq; intro j
  simp only [Nat.testBit_and, Nat.testBit_shiftLeft, Nat.testBit_shiftRight]
  by_cases h : k ≤ j
  · have : k + (j - k) = j := by omega
    simp [h, this]
  · simp [h]

theorem and_mask24 (x : Nat) : x &&& 16777215 = x % 2 ^ 24 := Nat.and_two_pow_sub_one_eq_mod x 24
theorem and_mask8 (x : Nat) : x &&& 255 = x % 2 ^ 8 := Nat.and_two_pow_sub_one_eq_mod x 8

/-- `x & 0xffffff00` for a 32-bit word -/
theorem and_hi24 (x : Nat) (h : x < 2 ^ 32) : x &&& 4294967040 = x / 256 * 256 := by
  have : (4294967040 : Nat) = 16777215 <<< 8 := by decide
  rw [this, and_shl, and_mask24, Nat.shiftRight_eq_div_pow, Nat.shiftLeft_eq]
  have : x / 2 ^ 8 < 2 ^ 24 := by omega
  rw [Nat.mod_eq_of_lt this]

/-- `x & 0x00ffff00` -/
theorem and_mid16 (x : Nat) : x &&& 16776960 = x / 256 % 65536 * 256 := by
  have : (16776960 : Nat) = 65535 <<< 8 := by decide
  rw [this, and_shl, Nat.shiftRight_eq_div_pow, Nat.shiftLeft_eq]
  have := Nat.and_two_pow_sub_one_eq_mod (x / 2 ^ 8) 16
  simp at this ⊢
  rw [this]

theorem toNat_maskTo24 (w : UInt32) : (Count.maskTo24Bits w).toNat = w.toNat % 2 ^ 24 := by
  simp only [Count.maskTo24Bits, UInt32.toNat_and]
  exact and_mask24 _


theorem toNat_get_value (w : UInt32) : (Count.get w).2.toNat = w.toNat % 2 ^ 24 := toNat_maskTo24 w
theorem toNat_get_stored (w : UInt32) : (Count.get w).1.toNat = w.toNat % 2 ^ 24 := toNat_maskTo24 w

theorem toNat_addOne (w : UInt32) : (Count.addOne w).toNat = (w.toNat + 1) % 2 ^ 24 := by
  rw [Count.addOne, toNat_maskTo24, UInt32.toNat_add]
  simp

theorem toNat_sqn (w : UInt32) : (Count.sqn w).toNat = w.toNat % 256 := by
  simp only [Count.sqn, UInt32.toNat_toUInt8, UInt32.toNat_and]
  rw [show (255 : UInt32).toNat = 255 from rfl, and_mask8]
  omega

theorem toNat_overflow (w : UInt32) : (Count.overflow w).toNat = w.toNat / 256 % 65536 := by
  simp only [Count.overflow, UInt32.toNat_toUInt16, UInt32.toNat_shiftRight, UInt32.toNat_and]
  rw [show (16776960 : UInt32).toNat = 16776960 from rfl, show (8 : UInt32).toNat % 32 = 8 from rfl, and_mid16,
    Nat.shiftRight_eq_div_pow]
  omega

theorem toNat_setSQN (w : UInt32) (s : UInt8) : (Count.setSQN w s).toNat = w.toNat / 256 * 256 + s.toNat := by
  simp only [Count.setSQN, UInt32.toNat_or, UInt32.toNat_and, UInt8.toNat_toUInt32]
  rw [show (4294967040 : UInt32).toNat = 4294967040 from rfl, and_hi24 _ w.toNat_lt]
  have hs : s.toNat < 2 ^ 8 := s.toNat_lt
  have := Nat.shiftLeft_add_eq_or_of_lt hs (w.toNat / 256)
  rw [Nat.shiftLeft_eq] at this
  simpa using this.symm

/-- `x & 0xff0000ff` for a 32-bit word -/
theorem and_hi8_lo8 (x : Nat) (h : x < 2 ^ 32) : x &&& 4278190335 = x / 2 ^ 24 * 2 ^ 24 + x % 256 := by
  have h1 : (4278190335 : Nat) = (255 <<< 24) ||| 255 := by decide
  rw [h1, Nat.and_or_distrib_left, and_shl, and_mask8, and_mask8, Nat.shiftRight_eq_div_pow]
  have h2 : x / 2 ^ 24 < 2 ^ 8 := by omega
  rw [Nat.mod_eq_of_lt h2]
  have h3 : x % 2 ^ 8 < 2 ^ 24 := by omega
  rw [← Nat.shiftLeft_add_eq_or_of_lt h3, Nat.shiftLeft_eq]

theorem toNat_setOverflow (w : UInt32) (o : UInt16) :
    (Count.setOverflow w o).toNat = w.toNat / 2 ^ 24 * 2 ^ 24 + o.toNat * 256 + w.toNat % 256 := by
  simp only [Count.setOverflow, UInt32.toNat_or, UInt32.toNat_and, UInt32.toNat_shiftLeft, UInt16.toNat_toUInt32]
  rw [show (4278190335 : UInt32).toNat = 4278190335 from rfl, show (8 : UInt32).toNat % 32 = 8 from rfl,
    and_hi8_lo8 _ w.toNat_lt]
  have ho : o.toNat < 2 ^ 16 := o.toNat_lt
  have h1 : o.toNat <<< 8 % 2 ^ 32 = o.toNat <<< 8 := by
    rw [Nat.shiftLeft_eq]; apply Nat.mod_eq_of_lt; omega
  rw [h1]
  have hlo : w.toNat % 256 < 2 ^ 8 := by omega
  have h2 : o.toNat <<< 8 + w.toNat % 256 < 2 ^ 24 := by rw [Nat.shiftLeft_eq]; omega
  have e1 := Nat.shiftLeft_add_eq_or_of_lt h2 (w.toNat / 2 ^ 24)
  have e2 := Nat.shiftLeft_add_eq_or_of_lt hlo o.toNat
  have e3 : w.toNat / 2 ^ 24 * 2 ^ 24 + w.toNat % 256 = (w.toNat / 2 ^ 24) <<< 24 ||| w.toNat % 256 := by
    rw [← Nat.shiftLeft_add_eq_or_of_lt (by omega), Nat.shiftLeft_eq]
  rw [e3, Nat.or_assoc, Nat.or_comm (w.toNat % 256), ← e2, ← e1, Nat.shiftLeft_eq, Nat.shiftLeft_eq]
  omega

theorem toNat_set (w : UInt32) (o : UInt16) (s : UInt8) :
    (Count.set w o s).toNat = w.toNat / 2 ^ 24 * 2 ^ 24 + o.toNat * 256 + s.toNat := by
  rw [Count.set, toNat_setSQN, toNat_setOverflow]
  have ho : o.toNat < 2 ^ 16 := o.toNat_lt
  omega

theorem toNat_set_zero (w : UInt32) : (Count.set w 0 0).toNat % 2 ^ 24 = 0 := by
  rw [toNat_set]; simp

end Stgutg.Proofs.Count
