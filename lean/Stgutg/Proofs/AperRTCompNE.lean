/-
  C04, composite round trip — "never empty": soundness of `neF` / `exIds` (every successful encoding of a
  component that passes the static test has at least one bit).
-/
import Stgutg.Proofs.AperRTCompDefs

namespace Stgutg.Proofs.AperRTComp
open Stgutg Stgutg.Aper Stgutg.Proofs.Bits Stgutg.Proofs.AperRT

/-- every successful encoding of `(ty, p)` has at least one bit -/
def NEt (env : Env) (ty : Ty) (p : Params) : Prop :=
  ∀ fuel pos v bits, encField env fuel pos ty p v = .ok bits → bits ≠ []

theorem ne_of_length_pos {l : Bits} (h : 0 < l.length) : l ≠ [] := by
  intro e; rw [e] at h; simp at h

theorem putBitsValue_ne (v n : Nat) (b : Bits) (hn : n ≠ 0) (h : putBitsValue v n = .ok b) : b ≠ [] := by
  unfold putBitsValue at h
  simp only [hn, if_false] at h
  split at h
  · simp [err] at h
  · simp only [Except.ok.injEq] at h
    rw [← h]
    apply ne_of_length_pos
    rw [natToBits_length]; omega

theorem appendConstraintValue_ne (pos : Nat) (range : Int) (v : Nat) (b : Bits)
    (h : appendConstraintValue pos range v = .ok b) : b ≠ [] := by
  unfold appendConstraintValue at h
  split at h
  · split at h
    · simp [err] at h
    · exact putBitsValue_ne _ _ _ (bitsForRange_pos range).1 h
  · split at h
    · obtain ⟨b', hb, hbits⟩ := bind_ok_eq _ _ _ h
      simp only [pure, Except.pure, Except.ok.injEq] at hbits
      rw [← hbits]
      have := putBitsValue_ne _ _ _ (by decide) hb
      simp [this]
    · split at h
      · obtain ⟨b', hb, hbits⟩ := bind_ok_eq _ _ _ h
        simp only [pure, Except.pure, Except.ok.injEq] at hbits
        rw [← hbits]
        have := putBitsValue_ne _ _ _ (by decide) hb
        simp [this]
      · simp [err] at h

theorem appendLength_ne (pos : Nat) (sr : Int) (v : Nat) (b : Bits)
    (h : appendLength pos sr v = .ok b) : b ≠ [] := by
  unfold appendLength at h
  split at h
  · exact appendConstraintValue_ne _ _ _ _ h
  · split at h
    · obtain ⟨b', hb, hbits⟩ := bind_ok_eq _ _ _ h
      simp only [pure, Except.pure, Except.ok.injEq] at hbits
      rw [← hbits]
      have := putBitsValue_ne _ _ _ (by decide) hb
      simp [this]
    · split at h
      · obtain ⟨b', hb, hbits⟩ := bind_ok_eq _ _ _ h
        simp only [pure, Except.pure, Except.ok.injEq] at hbits
        rw [← hbits]
        have := putBitsValue_ne _ _ _ (by decide) hb
        simp [this]
      · obtain ⟨b', hb, hbits⟩ := bind_ok_eq _ _ _ h
        simp only [pure, Except.pure, Except.ok.injEq] at hbits
        rw [← hbits]
        have := putBitsValue_ne _ _ _ (by decide) hb
        simp [this]

theorem fragLoop_ne (unit : Nat) (sr : Int) (lb fuel pos raw : Nat) (payload b : Bits)
    (h : fragLoop unit sr lb (fuel + 1) pos raw payload = .ok b) : b ≠ [] := by
  unfold fragLoop at h
  dsimp only at h
  generalize (if raw ≥ 65536 then 65536 else if raw ≥ 16384 then raw &&& 0xc000 else raw) = part at h
  cases hL : appendLength pos sr part with
  | error e => rw [hL] at h; simp at h
  | ok lenBits =>
    rw [hL] at h
    dsimp only at h
    have hne := appendLength_ne _ _ _ _ hL
    by_cases h0 : part + lb = 0
    · simp only [h0, if_true, Except.ok.injEq] at h; rw [← h]; exact hne
    · simp only [h0, if_false] at h
      by_cases hr : raw - part > 0 ∨ part ≥ 16384
      · simp only [hr, if_true] at h
        split at h
        · simp at h
        · simp only [Except.ok.injEq] at h; rw [← h]; simp [hne]
      · simp only [hr, if_false, Except.ok.injEq] at h; rw [← h]; simp [hne]

theorem sizedOK_spec (p : Params) (h : sizedOK p = true) : SizedParamsOK p ∧ p.valueExt = false := by
  unfold sizedOK at h
  simp only [Bool.and_eq_true, Bool.or_eq_true, Bool.not_eq_true'] at h
  obtain ⟨⟨⟨⟨⟨h1, h2⟩, h3⟩, h4⟩, h5⟩, _⟩ := h
  refine ⟨⟨?_, ?_, ?_, ?_⟩, h5⟩
  · intro hs
    rcases h1 with h1 | h1
    · rw [hs] at h1; cases h1
    · exact h1
  · intro hu
    rcases h2 with h2 | h2
    · rw [hu] at h2; cases h2
    · exact h2
  · intro l hl
    rw [hl] at h3
    simpa using h3
  · exact AperTotal.sizeOK_spec p h4

theorem sizedOK_frag (p : Params) (h : sizedOK p = true) : FragParamsOK p := by
  unfold sizedOK at h
  simp only [Bool.and_eq_true] at h
  have hf := h.2
  unfold fragOK at hf
  simp only [Bool.and_eq_true, Bool.or_eq_true, beq_iff_eq] at hf
  obtain ⟨hA, hB⟩ := hf
  refine ⟨?_, ?_⟩
  · intro hu
    rcases hA with (hA | hA) | hA
    · rw [hu] at hA; cases hA
    · exact Or.inl hA
    · exact Or.inr hA
  · intro u hu hle
    rw [hu] at hB
    simp only [Bool.or_eq_true, decide_eq_true_eq] at hB
    omega

/-- a fixed size (sizeRange 1) means `ub ≥ 1` octets / bits -/
theorem sized_fixed_ub (len : Nat) (params : Params) (pre : Bits) (lb ub sr : Int) (hok : SizedParamsOK params)
    (hsp : sizePreamble len params.sizeExt params.sizeLB params.sizeUB = .ok (pre, lb, ub, sr)) (hsr : sr = 1) :
    ub ≥ 1 := by
  obtain ⟨hext, hpair, hlbnn, hfix⟩ := hok
  obtain ⟨se, hpre, hse, hb1, hb3, hb2⟩ := sizePreamble_spec _ _ _ _ pre lb ub sr hext hpair hsp
  generalize hsb : sizeBounds se params.sizeLB params.sizeUB = sb at hb1 hb2 hb3
  obtain ⟨lb', ub', sr'⟩ := sb
  simp only at hb1 hb3 hb2
  subst hb3
  have := hb2 hsr
  subst this
  exact fixed_ub_ge_one se params lb' ub' sr' hfix hsb hsr

theorem appendOctetString_ne (pos : Nat) (bytes : Bytes) (params : Params) (bits : Bits)
    (hok : SizedParamsOK params)
    (h : appendOctetString pos bytes params.sizeExt params.sizeLB params.sizeUB = .ok bits) : bits ≠ [] := by
  unfold appendOctetString at h
  cases hsp : sizePreamble bytes.length params.sizeExt params.sizeLB params.sizeUB with
  | error e => rw [hsp] at h; simp at h
  | ok t =>
    obtain ⟨pre, lb, ub, sr⟩ := t
    rw [hsp] at h
    dsimp only at h
    split at h
    · rename_i hsr
      have hub := sized_fixed_ub _ params pre lb ub sr hok hsp hsr
      split at h
      · simp [err] at h
      · rename_i hlen
        have hc : 0 < (bytesToBits bytes).length := by rw [bytesToBits_length]; omega
        have hcne := ne_of_length_pos hc
        split at h
        · simp only [Except.ok.injEq] at h; rw [← h]; simp [hcne]
        · split at h
          · simp [Aper.panic] at h
          · simp only [Except.ok.injEq] at h; rw [← h]; simp [hcne]
    · split at h
      · split at h <;> simp [err, Aper.panic] at h
      · cases hf : fragLoop 8 sr lb.toNat (bytes.length / 16384 + 2) (pos + pre.length) (bytes.length - lb.toNat) (bytesToBits bytes) with
        | error e => rw [hf] at h; simp at h
        | ok b =>
          rw [hf] at h
          simp only [Except.ok.injEq] at h
          rw [← h]
          have := fragLoop_ne 8 sr lb.toNat (bytes.length / 16384 + 1) _ _ _ _ hf
          simp [this]

theorem appendBitString_ne (pos : Nat) (bytes : Bytes) (len : Nat) (params : Params) (bits : Bits)
    (hok : SizedParamsOK params)
    (h : appendBitString pos bytes len params.sizeExt params.sizeLB params.sizeUB = .ok bits) : bits ≠ [] := by
  unfold appendBitString at h
  split at h
  · simp [Aper.panic] at h
  · rename_i hbl
    have hclen : ((bytesToBits bytes).take len).length = len := by
      rw [List.length_take, bytesToBits_length]; omega
    cases hsp : sizePreamble len params.sizeExt params.sizeLB params.sizeUB with
    | error e => rw [hsp] at h; simp at h
    | ok t =>
      obtain ⟨pre, lb, ub, sr⟩ := t
      rw [hsp] at h
      dsimp only at h
      split at h
      · rename_i hsr
        have hub := sized_fixed_ub _ params pre lb ub sr hok hsp hsr
        split at h
        · simp [err] at h
        · rename_i hlen
          have hc : 0 < ((bytesToBits bytes).take len).length := by rw [hclen]; omega
          have hcne := ne_of_length_pos hc
          split at h
          · simp only [Except.ok.injEq] at h; rw [← h]; simp [hcne]
          · split at h
            · simp [Aper.panic] at h
            · simp only [Except.ok.injEq] at h; rw [← h]; simp [hcne]
      · split at h
        · split at h <;> simp [err, Aper.panic] at h
        · cases hf : fragLoop 1 sr lb.toNat (len / 16384 + 2) (pos + pre.length) (len - lb.toNat) ((bytesToBits bytes).take len) with
          | error e => rw [hf] at h; simp at h
          | ok b =>
            rw [hf] at h
            simp only [Except.ok.injEq] at h
            rw [← h]
            have := fragLoop_ne 1 sr lb.toNat (len / 16384 + 1) _ _ _ _ hf
            simp [this]

theorem appendInteger_ne (pos : Nat) (v : Int) (ext : Bool) (lb ub : Int) (bits : Bits)
    (hne : ext = true ∨ lb ≠ ub)
    (h : appendInteger pos v ext (some lb) (some ub) = .ok bits) : bits ≠ [] := by
  unfold appendInteger at h
  dsimp only at h
  by_cases hlt : v < lb
  · simp [hlt, err] at h
  · simp only [hlt, if_false] at h
    by_cases hle : v ≤ ub
    · simp only [hle, if_true] at h
      split at h
      · -- range = 1
        rename_i hr1
        rcases hne with hext | hneq
        · simp only [Except.ok.injEq] at h; rw [← h, hext]; simp
        · omega
      · rename_i hr1
        have hrpos : ¬ (ub - lb + 1 ≤ 0) := by omega
        simp only [hrpos, if_false] at h
        split at h
        · cases hc : appendConstraintValue (pos + (if ext = true then [false] else []).length) (ub - lb + 1) (v - lb).toNat with
          | error e => rw [hc] at h; simp at h
          | ok cb =>
            rw [hc] at h
            simp only [Except.ok.injEq] at h
            rw [← h]
            have := appendConstraintValue_ne _ _ _ _ hc
            simp [this]
        · split at h
          · simp at h
          · rename_i lenBits hp1
            have hlne := putBitsValue_ne _ _ _ (bitsForRange_pos _).1 hp1
            split at h
            · simp at h
            · simp only [Except.ok.injEq] at h
              rw [← h]
              simp [hlne]
    · simp only [hle, if_false] at h
      cases ext with
      | false => simp [err] at h
      | true =>
        simp only [Bool.not_true, Bool.false_eq_true, if_false] at h
        have h1 : ¬ ((-1 : Int) = 1) := by decide
        simp only [h1, if_false] at h
        have h2 : ((-1 : Int) ≤ 0) := by decide
        simp only [h2, if_true] at h
        split at h
        · simp at h
        · simp only [Except.ok.injEq] at h
          rw [← h]
          simp

theorem appendEnumerated_ne (pos n : Nat) (ext : Bool) (lbP ubP : Option Int) (bits : Bits)
    (hne : ∀ lb ub, lbP = some lb → ubP = some ub → ext = true ∨ lb ≠ ub)
    (h : appendEnumerated pos n ext lbP ubP = .ok bits) : bits ≠ [] := by
  unfold appendEnumerated at h
  split at h
  · rename_i lb ub
    split at h
    · simp [err] at h
    · split at h
      · simp [err] at h
      · dsimp only at h
        split at h
        · cases hc : appendConstraintValue (pos + (if ext = true then [false] else []).length) (ub - lb + 1) n with
          | error e => rw [hc] at h; simp at h
          | ok cb =>
            rw [hc] at h
            simp only [Except.ok.injEq] at h
            rw [← h]
            have := appendConstraintValue_ne _ _ _ _ hc
            simp [this]
        · rcases hne lb ub rfl rfl with hext | hneq
          · simp only [Except.ok.injEq] at h; rw [← h, hext]; simp
          · omega
  · simp [err] at h

theorem sliceCountBits_ne (pos1 n : Nat) (lb ub sr : Int) (cb : Bits) (hsr : sr ≠ 1)
    (h : sliceCountBits pos1 n lb ub sr = .ok cb) : cb ≠ [] := by
  unfold sliceCountBits at h
  split at h
  · simp [err] at h
  · split at h
    · exact appendConstraintValue_ne _ _ _ _ h
    · split at h
      · simp [err] at h
      · exact appendLength_ne _ _ _ _ h

/-- the three shapes of the SEQUENCE OF header -/
theorem sliceHeader_spec (p : Params) (n : Nat) (pre : Bits) (lb ub sr : Int)
    (h : sliceHeader p n = .ok (pre, lb, ub, sr)) :
    lb = sliceLB p ∧
    ((∃ u, p.sizeUB = some u ∧ u < 65536 ∧ p.sizeExt = true ∧ (n : Int) > u ∧ pre = [true] ∧ sr = -1) ∨
     (∃ u, p.sizeUB = some u ∧ u < 65536 ∧ (n : Int) ≤ u ∧ pre = (if p.sizeExt then [false] else []) ∧
        ub = u ∧ sr = u - sliceLB p + 1) ∨
     ((∀ u, p.sizeUB = some u → ¬ u < 65536) ∧ pre = [] ∧ sr = -1)) := by
  have hlb : sliceHeader p n =
      (match p.sizeUB with
      | some u =>
        if u < 65536 then
          if p.sizeExt then
            if (n : Int) > u then .ok ([true], sliceLB p, u, -1) else .ok ([false], sliceLB p, u, u - sliceLB p + 1)
          else if (n : Int) > u then err
          else .ok ([], sliceLB p, u, u - sliceLB p + 1)
        else .ok ([], sliceLB p, -1, -1)
      | none => .ok ([], sliceLB p, -1, -1)) := by
    unfold sliceHeader sliceLB
    cases p.sizeLB <;> rfl
  rw [hlb] at h
  cases hu : p.sizeUB with
  | none =>
    rw [hu] at h
    simp only [Except.ok.injEq, Prod.mk.injEq] at h
    obtain ⟨h1, h2, h3, h4⟩ := h
    exact ⟨h2.symm, Or.inr (Or.inr ⟨(by intro u hu'; cases hu'), h1.symm, h4.symm⟩)⟩
  | some u =>
    rw [hu] at h
    dsimp only at h
    by_cases hu64 : u < 65536
    · simp only [hu64, if_true] at h
      cases hse : p.sizeExt with
      | true =>
        rw [hse] at h
        simp only [if_true] at h
        split at h
        · rename_i hgt
          simp only [Except.ok.injEq, Prod.mk.injEq] at h
          obtain ⟨h1, h2, h3, h4⟩ := h
          exact ⟨h2.symm, Or.inl ⟨u, rfl, hu64, rfl, hgt, h1.symm, h4.symm⟩⟩
        · rename_i hgt
          simp only [Except.ok.injEq, Prod.mk.injEq] at h
          obtain ⟨h1, h2, h3, h4⟩ := h
          exact ⟨h2.symm, Or.inr (Or.inl ⟨u, rfl, hu64, by omega, by simp [← h1], h3.symm, h4.symm⟩)⟩
      | false =>
        rw [hse] at h
        simp only [Bool.false_eq_true, if_false] at h
        split at h
        · simp [err] at h
        · rename_i hgt
          simp only [Except.ok.injEq, Prod.mk.injEq] at h
          obtain ⟨h1, h2, h3, h4⟩ := h
          exact ⟨h2.symm, Or.inr (Or.inl ⟨u, rfl, hu64, by omega, by simp [← h1], h3.symm, h4.symm⟩)⟩
    · simp only [hu64, if_false, Except.ok.injEq, Prod.mk.injEq] at h
      obtain ⟨h1, h2, h3, h4⟩ := h
      refine ⟨h2.symm, Or.inr (Or.inr ⟨?_, h1.symm, h4.symm⟩)⟩
      intro u' hu'
      simp only [Option.some.injEq] at hu'
      rw [← hu']; exact hu64

theorem encSlice_ne {ex : List Nat} {bound : Nat} {t : Ty} (f : Nat → Val → Res Bits) (params : Params) (pos : Nat)
    (vs : List Val) (bits : Bits)
    (hne : neF ex bound (.slice t) params = true)
    (h : encSlice f params pos vs = .ok bits) : bits ≠ [] := by
  unfold encSlice at h
  cases hh : sliceHeader params vs.length with
  | error e => rw [hh] at h; simp at h
  | ok x =>
    obtain ⟨pre, lb, ub, sr⟩ := x
    rw [hh] at h
    dsimp only at h
    cases hc : sliceCountBits (pos + pre.length) vs.length lb ub sr with
    | error e => rw [hc] at h; simp at h
    | ok cb =>
      rw [hc] at h
      dsimp only at h
      cases he : encElems f (pos + pre.length + cb.length) vs with
      | error e => rw [he] at h; simp at h
      | ok eb =>
        rw [he] at h
        simp only [Except.ok.injEq] at h
        rw [← h]
        -- either the header wrote an extension bit or the count is not a fixed one
        have key : pre ≠ [] ∨ sr ≠ 1 := by
          obtain ⟨_, hcase⟩ := sliceHeader_spec _ _ _ _ _ _ hh
          rcases hcase with ⟨u, hu, hu64, hse, hgt, hpre, hsr⟩ | ⟨u, hu, hu64, hle, hpre, hub, hsr⟩ | ⟨_, hpre, hsr⟩
          · left; rw [hpre]; simp
          · unfold neF at hne
            rw [hu] at hne
            simp only [hu64, if_true, Bool.or_eq_true, decide_eq_true_eq] at hne
            rcases hne with hse | hneq
            · left; rw [hpre, hse]; simp
            · right; omega
          · right; omega
        rcases key with hp | hs
        · simp [hp]
        · have := sliceCountBits_ne _ _ _ _ _ _ hs hc
          simp [this]

theorem appendChoiceIndex_ne (pos present : Nat) (ext : Bool) (ubP : Option Int) (ib : Bits)
    (h : appendChoiceIndex pos present ext ubP = .ok ib) : ib ≠ [] := by
  unfold appendChoiceIndex at h
  split at h
  · simp [err] at h
  · split at h
    · simp [err] at h
    · split at h
      · simp [err] at h
      · exact appendConstraintValue_ne _ _ _ _ h

theorem encOpenType_ne (pos1 : Nat) (inner bits : Bits) (h : encOpenType pos1 inner = .ok bits) : bits ≠ [] := by
  unfold encOpenType at h
  exact fragLoop_ne 8 (-1) 0 ((inner.length + 7) / 8 / 16384 + 1) _ _ _ _ h

theorem encChoice_ne (f : Nat → Ty → Params → Val → Res Bits) (sd : StructDef) (params : Params)
    (pos1 : Nat) (fs : List Val) (bits : Bits) (h : encChoice f sd params pos1 fs = .ok bits) : bits ≠ [] := by
  unfold encChoice at h
  split at h
  · rename_i p rest
    split at h
    · simp [err] at h
    · split at h
      · simp [err] at h
      · split at h
        · rename_i fd alt hfd halt
          split at h
          · split at h
            · simp [err] at h
            · split at h
              · simp [err] at h
              · split at h
                · simp at h
                · exact encOpenType_ne _ _ _ h
          · split at h
            · simp at h
            · rename_i ib hib
              have hne := appendChoiceIndex_ne _ _ _ _ _ hib
              split at h
              · simp at h
              · simp only [Except.ok.injEq] at h
                rw [← h]; simp [hne]
        · simp [err] at h
  · simp [err] at h

/-! ### soundness of the static test -/

/-- the struct ids below `bound` that are not listed in `ex` never encode to nothing -/
def NEinv (env : Env) (ex : List Nat) (bound : Nat) : Prop :=
  ∀ j, j < bound → ex.contains j = false → ∀ p, NEt env (.struct j) p

theorem neF_refValue (ex : List Nat) (bound : Nat) (x : Option Int) : ∀ (ty : Ty) (p : Params),
    neF ex bound ty { p with refValue := x } = neF ex bound ty p := by
  intro ty
  induction ty with
  | ptr t ih => intro p; simp only [neF]; exact ih p
  | _ => intro p; rfl

theorem optBitmap_length : ∀ (fields : List Field) (fs : List Val) (bm : Bits), optBitmap fields fs = .ok bm →
    bm.length = (fields.filter (fun f => f.params.optional)).length := by
  intro fields
  induction fields with
  | nil => intro fs bm h; simp [optBitmap] at h; simp [← h]
  | cons fd rest ih =>
    intro fs bm h
    cases fs with
    | nil => simp [optBitmap, err] at h
    | cons v vs =>
      unfold optBitmap at h
      cases ho : fd.params.optional with
      | true =>
        simp only [ho, if_true] at h
        split at h
        · simp [Aper.panic] at h
        cases hb : optBitmap rest vs with
        | error e => rw [hb] at h; simp at h
        | ok b =>
          rw [hb] at h
          simp only [Except.ok.injEq] at h
          rw [← h]
          simp [ho, ih vs b hb]
      | false =>
        simp only [ho, Bool.false_eq_true, if_false] at h
        split at h
        · simp [err] at h
        · simp [ho, ih vs bm h]

theorem neF_sound (env : Env) (ex : List Nat) (bound : Nat) (hinv : NEinv env ex bound) :
    ∀ (ty : Ty) (p : Params), neF ex bound ty p = true → NEt env ty p := by
  intro ty
  induction ty with
  | ptr t ih =>
    intro p hne fuel pos v bits h
    cases fuel with
    | zero => simp [encField, hang] at h
    | succ fuel =>
      cases v <;> simp [encField, err] at h
      exact ih p (by simpa [neF] using hne) fuel pos _ bits h
  | int =>
    intro p hne fuel pos v bits h
    cases fuel with
    | zero => simp [encField, hang] at h
    | succ fuel =>
      cases v <;> simp [encField, err] at h
      unfold neF at hne
      cases hl : p.valueLB with
      | none => rw [hl] at hne; simp at hne
      | some lb =>
        cases hu : p.valueUB with
        | none => rw [hl, hu] at hne; simp at hne
        | some ub =>
          rw [hl, hu] at hne h
          simp only [Bool.or_eq_true, decide_eq_true_eq] at hne
          exact appendInteger_ne _ _ _ _ _ _ hne h
  | enum =>
    intro p hne fuel pos v bits h
    cases fuel with
    | zero => simp [encField, hang] at h
    | succ fuel =>
      cases v <;> simp [encField, err] at h
      refine appendEnumerated_ne _ _ _ _ _ _ ?_ h
      intro lb ub hl hu
      unfold neF at hne
      rw [hl, hu] at hne
      simpa using hne
  | bool =>
    intro p hne fuel pos v bits h
    cases fuel with
    | zero => simp [encField, hang] at h
    | succ fuel =>
      cases v <;> simp [encField, err] at h
      rw [← h]; simp
  | oid =>
    intro p hne fuel pos v bits h
    cases fuel with
    | zero => simp [encField, hang] at h
    | succ fuel => cases v <;> simp [encField, err] at h
  | bits =>
    intro p hne fuel pos v bits h
    cases fuel with
    | zero => simp [encField, hang] at h
    | succ fuel =>
      cases v <;> simp [encField, err] at h
      exact appendBitString_ne _ _ _ _ _ (sizedOK_spec p (by simpa [neF] using hne)).1 h
  | octs =>
    intro p hne fuel pos v bits h
    cases fuel with
    | zero => simp [encField, hang] at h
    | succ fuel =>
      cases v <;> simp [encField, err] at h
      exact appendOctetString_ne _ _ _ _ (sizedOK_spec p (by simpa [neF] using hne)).1 h
  | str =>
    intro p hne fuel pos v bits h
    cases fuel with
    | zero => simp [encField, hang] at h
    | succ fuel =>
      cases v <;> simp [encField, err] at h
      exact appendOctetString_ne _ _ _ _ (sizedOK_spec p (by simpa [neF] using hne)).1 h
  | slice t _ =>
    intro p hne fuel pos v bits h
    cases fuel with
    | zero => simp [encField, hang] at h
    | succ fuel =>
      cases v <;> simp [encField, err] at h
      exact encSlice_ne _ _ _ _ _ hne h
  | struct j =>
    intro p hne fuel pos v bits h
    unfold neF at hne
    simp only [Bool.or_eq_true, Bool.and_eq_true, decide_eq_true_eq, Bool.not_eq_true'] at hne
    rcases hne with hve | ⟨hj, hex⟩
    · cases fuel with
      | zero => simp [encField, hang] at h
      | succ fuel =>
        cases v <;> simp [encField, err] at h
        split at h
        · simp at h
        · split at h
          · simp at h
          · simp only [Except.ok.injEq] at h
            rw [← h, hve]; simp
    · exact hinv j hj hex p fuel pos v bits h

theorem resolveRef_shape (rfv : Ty → Val → Res Int) (allFields : List Field) (allVals : List Val) (i : Nat)
    (fd : Field) (fp : Params) (h : resolveRef rfv allFields allVals i fd = .ok fp) :
    fp = fd.params ∨ ∃ x, fp = { fd.params with refValue := some x } := by
  unfold resolveRef at h
  split at h
  · split at h
    · simp [err] at h
    · split at h
      · split at h
        · simp at h
        · simp only [Except.ok.injEq] at h
          exact Or.inr ⟨_, h.symm⟩
      · simp [err] at h
  · simp only [Except.ok.injEq] at h
    exact Or.inl h.symm

theorem encSeqFields_cons (f : Nat → Ty → Params → Val → Res Bits) (rfv : Ty → Val → Res Int)
    (allFields : List Field) (allVals : List Val) (i pos : Nat) (fd : Field) (frest : List Field) (v : Val) (vrest : List Val) :
    encSeqFields f rfv allFields allVals i pos (fd :: frest) (v :: vrest) =
      (if fd.params.optional ∧ isNil v then encSeqFields f rfv allFields allVals (i + 1) pos frest vrest
       else
        match resolveRef rfv allFields allVals i fd with
        | .error e => .error e
        | .ok fp =>
          match f pos fd.ty fp v with
          | .error e => .error e
          | .ok a =>
            match encSeqFields f rfv allFields allVals (i + 1) (pos + a.length) frest vrest with
            | .error e => .error e
            | .ok b => .ok (a ++ b)) := by
  rw [encSeqFields]
  rfl

/-- a SEQUENCE body is not empty when there is an OPTIONAL bitmap or the first component is never empty -/
theorem encSeq_ne (env : Env) (f : Nat → Ty → Params → Val → Res Bits) (rfv : Ty → Val → Res Int)
    (sd : StructDef) (pos1 : Nat) (fs : List Val) (b : Bits)
    (hsel : sd.fields.any (fun f => f.params.optional) = true ∨
      ∃ f0 rest, sd.fields = f0 :: rest ∧ f0.params.optional = false ∧
        ∀ fp pos v a, (fp = f0.params ∨ ∃ x, fp = { f0.params with refValue := some x }) →
          f pos f0.ty fp v = .ok a → a ≠ [])
    (h : encSeq f rfv sd pos1 fs = .ok b) : b ≠ [] := by
  unfold encSeq at h
  split at h
  · simp [err] at h
  · cases hbm : optBitmap sd.fields fs with
    | error e => rw [hbm] at h; simp at h
    | ok bm =>
      rw [hbm] at h
      dsimp only at h
      cases hbody : encSeqFields f rfv sd.fields fs 0 (pos1 + bm.length) sd.fields fs with
      | error e => rw [hbody] at h; simp at h
      | ok body =>
        rw [hbody] at h
        simp only [Except.ok.injEq] at h
        rw [← h]
        rcases hsel with hany | ⟨f0, rest, hf, hopt, hf0⟩
        · have hl := optBitmap_length _ _ _ hbm
          have hpos : 0 < (sd.fields.filter (fun f => f.params.optional)).length := by
            simp only [List.any_eq_true] at hany
            obtain ⟨x, hx, hxo⟩ := hany
            exact List.length_pos_of_mem (List.mem_filter.mpr ⟨hx, hxo⟩)
          have : bm ≠ [] := ne_of_length_pos (by omega)
          simp [this]
        · -- the first component is coded
          cases fs with
          | nil => rw [hf] at hbody; simp [encSeqFields, err] at hbody
          | cons v vrest =>
            rw [hf, encSeqFields_cons] at hbody
            simp only [hopt, Bool.false_eq_true, false_and, if_false] at hbody
            cases hr : resolveRef rfv (f0 :: rest) (v :: vrest) 0 f0 with
            | error e => rw [hr] at hbody; simp at hbody
            | ok fp =>
              rw [hr] at hbody
              dsimp only at hbody
              cases ha : f (pos1 + bm.length) f0.ty fp v with
              | error e => rw [ha] at hbody; simp at hbody
              | ok a =>
                rw [ha] at hbody
                dsimp only at hbody
                have hane := hf0 fp _ v a (resolveRef_shape _ _ _ _ _ _ hr) ha
                split at hbody
                · simp at hbody
                · simp only [Except.ok.injEq] at hbody
                  rw [← hbody]
                  simp [hane]

/-- a struct type that passes `selfNE` never encodes to nothing (with or without an extension bit) -/
theorem struct_ne (env : Env) (ex : List Nat) (id : Nat) (sd : StructDef) (hsd : env[id]? = some sd)
    (hself : selfNE ex id sd = true) (hinv : NEinv env ex id) : ∀ p, NEt env (.struct id) p := by
  intro p fuel pos v bits h
  cases fuel with
  | zero => simp [encField, hang] at h
  | succ fuel =>
    cases v <;> simp [encField, err] at h
    rename_i fs
    rw [hsd] at h
    dsimp only at h
    unfold selfNE at hself
    by_cases hc : isChoice sd = true
    · simp only [hc, Bool.not_true, Bool.false_eq_true, if_false] at h
      split at h
      · simp at h
      · rename_i b hb
        simp only [Except.ok.injEq] at h
        rw [← h]
        have := encChoice_ne _ _ _ _ _ _ hb
        simp [this]
    · have hc' : isChoice sd = false := by simpa using hc
      simp only [hc', Bool.not_false, if_true] at h
      simp only [hc', Bool.false_or, Bool.or_eq_true] at hself
      split at h
      · simp at h
      · rename_i b hb
        simp only [Except.ok.injEq] at h
        rw [← h]
        have hbne : b ≠ [] := by
          refine encSeq_ne env _ _ sd _ fs b ?_ hb
          by_cases hany : sd.fields.any (fun f => f.params.optional) = true
          · exact Or.inl hany
          · right
            rcases hself with hself | hself
            · exact absurd hself hany
            · cases hf : sd.fields with
              | nil => rw [hf] at hself; simp at hself
              | cons f0 rest =>
                rw [hf] at hself hany
                dsimp only at hself
                refine ⟨f0, rest, rfl, ?_, ?_⟩
                · simp only [List.any_cons, Bool.or_eq_true, not_or] at hany
                  simpa using hany.1
                · intro fp pos' v' a hfp ha
                  have hne' : neF ex id f0.ty fp = true := by
                    rcases hfp with hfp | ⟨x, hfp⟩
                    · rw [hfp]; exact hself
                    · rw [hfp, neF_refValue]; exact hself
                  exact neF_sound env ex id hinv f0.ty fp hne' fuel pos' v' a ha
        simp [hbne]

/-- the one-pass computation of `exIds` is sound -/
theorem exIdsFrom_sound (env : Env) : ∀ (rest : List StructDef) (id : Nat) (acc : List Nat),
    (∀ k sd, rest[k]? = some sd → env[id + k]? = some sd) → id + rest.length = env.length →
    NEinv env acc id → NEinv env (exIdsFrom id rest acc) env.length := by
  intro rest
  induction rest with
  | nil =>
    intro id acc _ hlen hinv
    simp only [List.length_nil, Nat.add_zero] at hlen
    rw [← hlen]
    exact hinv
  | cons sd rest ih =>
    intro id acc hget hlen hinv
    have hsd : env[id]? = some sd := by simpa using hget 0 sd (by simp)
    have hget' : ∀ k sd', rest[k]? = some sd' → env[id + 1 + k]? = some sd' := by
      intro k sd' hk
      have := hget (k + 1) sd' (by simpa using hk)
      rw [show id + 1 + k = id + (k + 1) by omega]; exact this
    have hlen' : id + 1 + rest.length = env.length := by simp only [List.length_cons] at hlen; omega
    unfold exIdsFrom
    by_cases hself : selfNE acc id sd = true
    · simp only [hself, if_true]
      refine ih (id + 1) acc hget' hlen' ?_
      intro j hj hex
      by_cases hji : j = id
      · subst hji; exact struct_ne env acc j sd hsd hself hinv
      · exact hinv j (by omega) hex
    · simp only [hself, if_false]
      refine ih (id + 1) (id :: acc) hget' hlen' ?_
      intro j hj hex
      simp only [List.contains_cons, Bool.or_eq_false_iff, beq_eq_false_iff_ne, ne_eq] at hex
      exact hinv j (by omega) hex.2

theorem exIds_sound (env : Env) : NEinv env (exIds env) env.length := by
  unfold exIds
  refine exIdsFrom_sound env env 0 [] ?_ (by simp) ?_
  · intro k sd h; simpa using h
  · intro j hj; omega

/-- **soundness of the static test**: a component that passes `neTy` never encodes to zero bits -/
theorem neTy_sound (env : Env) (ty : Ty) (p : Params) (h : neTy env ty p = true) : NEt env ty p :=
  neF_sound env (exIds env) env.length (exIds_sound env) ty p h

theorem neTy_refValue (env : Env) (ty : Ty) (p : Params) (x : Option Int) :
    neTy env ty { p with refValue := x } = neTy env ty p := neF_refValue _ _ x ty p

end Stgutg.Proofs.AperRTComp
