/-
  C02 helper: the five loops of test mode for N UEs, emulator and judge together — the emulator's side of one iteration
  (`EstablishPDU`, `ServiceRequest`, `ReleasePDU` make exactly the calls `procUls` describes), the de-registration loop, and the
  registration loop with the list `main` keeps and every UE's security state in step with the judge's record.
-/
import Stgutg.Proofs.EmulatorLifeN

namespace Stgutg.Proofs.EmulatorLifeN
open Stgutg Stgutg.Model.Emulator Stgutg.Proofs.Emulator Stgutg.Builders
open Stgutg.Model.NasProtect Stgutg.Proofs.NasProtect Stgutg.Spec.NasSecurity
open Stgutg.Proofs.EmulatorLife Stgutg.Proofs.EmulatorRun Stgutg.Props.C02 Stgutg.Props.C01 Stgutg.Proofs.EmulatorLifeReenc

/-- UE `j` in `ueList` after registration: created from the IMSI, with the AMF-UE-NGAP-ID of the AMF's choice and K_AMF -/
def mkUe (cfg : Cfg) (chf : Nat → Spec.Amf.Choice) (kamff : Nat → Bytes) (j : Nat) (sec : UeSec) : Ue :=
  ueWith (createUE cfg j) ((chf j).amfUeNgapId : Int) (kamff j) sec

theorem mkUe_sec (cfg : Cfg) (chf : Nat → Spec.Amf.Choice) (kamff : Nat → Bytes) (j : Nat) (sec sec' : UeSec) :
    { mkUe cfg chf kamff j sec with sec := sec' } = mkUe cfg chf kamff j sec' := rfl

section
variable (P : Prims) (E : Model.Convert.Ext) {cfg : Cfg} {m : Bytes} {chf : Nat → Spec.Amf.Choice} {N : Nat}
  (h : PopOK cfg E N m chf) (s1 s2 s3 : UInt8) (hsd : E.hexDecode cfg.sd = ([s1, s2, s3], false)) (kamff : Nat → Bytes)
include h hsd

omit h in
theorem snssai_facts : snssaiOf E cfg = some ⟨UInt8.ofNat (cfg.sst % 256).toNat, [s1, s2, s3]⟩ ∧
    (∀ x, some ((cfg.sst % 256).toNat, s1, s2, s3) = some x → x.1 < 256) ∧
    (internet.length ≤ 99 ∧ ∀ c ∈ internet, c ≠ 0x2E) := by
  refine ⟨by simp [snssaiOf, hsd], fun x hx => ?_, by decide, by decide⟩
  cases hx; show (cfg.sst % 256).toNat < 256; omega

/-- **`EstablishPDU` for UE `i`** makes the calls `procUls … .establish` describes, reads one downlink message and reports what it
    extracts from it -/
theorem est_emul (de : Nat → Bytes) (msgf : Nat → Aper.Val) (repf : Nat → Report) (nEnd : Nat) (hN : nEnd ≤ N)
    (hdec : ∀ i, i < nEnd → ngapDecode ((de i).take 2048) = .ok (msgf i))
    (hrep : ∀ i, i < nEnd → extractReport (msgf i) = .ok (repf i))
    (i : Nat) (sec : UeSec) (wd : World) (uls : List Bytes) (sec' : UeSec) (rest : List Bytes) (hi : i < nEnd)
    (hplmn : wd.plmn = m) (hdls : wd.dls = [de i] ++ rest)
    (hp : procUls P E (argsOf cfg m chf s1 s2 s3 i) .establish sec uls sec') :
    establishPDU P E cfg (mkUe cfg chf kamff i sec) wd =
      ({ wd with dls := rest, ulsRev := uls.reverse ++ wd.ulsRev, reportsRev := [repf i].reverse ++ wd.reportsRev }, .ok sec') := by
  obtain ⟨plain, o, b1, b2, e1, e2, e3, e4, rfl, rfl⟩ := hp
  obtain ⟨hsupi, hp8, hpc, hp1, hp15⟩ := psiOf_facts h i (by omega)
  obtain ⟨hsn, hs, hint⟩ := snssai_facts E s1 s2 s3 hsd
  simp only [argsOf, Args.snVal, Option.map_some] at e1 e3 e4
  have hre : Reenc plain := reenc_ulEstablishment (psiOf cfg i) 1 internet (some ((cfg.sst % 256).toNat, s1, s2, s3))
    (Nat.lt_of_le_of_lt hp15 (by decide)) (by decide) hint hs plain e1
  rw [← hplmn] at e3 e4
  rw [ranOf_eq] at e3 e4
  exact establishPDU_run P E cfg (mkUe cfg chf kamff i sec) wd _ false _ plain o b1 b2 (de i) rest (msgf i) (repf i) hsupi hsn
    (by rw [hp8]; exact e1) hre e2 e3 hdls (hdec i hi) (hrep i hi) (by rw [← hpc]; exact e4)

omit hsd in
/-- **`ServiceRequest` for UE `i`** -/
theorem svc_emul (ds : Nat → Bytes) (msgf : Nat → Aper.Val) (nEnd : Nat) (hN : nEnd ≤ N)
    (hdec : ∀ i, i < nEnd → ngapDecode ((ds i).take 2048) = .ok (msgf i))
    (i : Nat) (sec : UeSec) (wd : World) (uls : List Bytes) (sec' : UeSec) (rest : List Bytes) (hi : i < nEnd)
    (hplmn : wd.plmn = m) (hdls : wd.dls = [ds i] ++ rest)
    (hp : procUls P E (argsOf cfg m chf s1 s2 s3 i) .service sec uls sec') :
    serviceRequest P E cfg (mkUe cfg chf kamff i sec) wd =
      ({ wd with dls := rest, ulsRev := uls.reverse ++ wd.ulsRev, reportsRev := ([] : List Report).reverse ++ wd.reportsRev }, .ok sec') := by
  obtain ⟨plain, o, b1, b2, e1, e2, e3, e4, rfl, rfl⟩ := hp
  obtain ⟨hsupi, hp8, hpc, hp1, hp15⟩ := psiOf_facts h i (by omega)
  simp only [argsOf] at e3 e4
  rw [← hplmn] at e3 e4
  rw [ranOf_eq] at e3 e4
  exact serviceRequest_run P E cfg (mkUe cfg chf kamff i sec) wd _ false plain o b1 b2 (ds i) rest (msgf i) hsupi e1
    (reencOK_elim _ reenc_serviceRequest plain e1) e2 e3 hdls (hdec i hi) (by rw [← hpc]; exact e4)

/-- **`ReleasePDU` for UE `i`** (reads nothing) -/
theorem rel_emul (nEnd : Nat) (hN : nEnd ≤ N)
    (i : Nat) (sec : UeSec) (wd : World) (uls : List Bytes) (sec' : UeSec) (rest : List Bytes) (hi : i < nEnd)
    (hplmn : wd.plmn = m) (hdls : wd.dls = ([] : List Bytes) ++ rest)
    (hp : procUls P E (argsOf cfg m chf s1 s2 s3 i) .release sec uls sec') :
    releasePDU P E cfg (mkUe cfg chf kamff i sec) wd =
      ({ wd with dls := rest, ulsRev := uls.reverse ++ wd.ulsRev, reportsRev := ([] : List Report).reverse ++ wd.reportsRev }, .ok sec') := by
  obtain ⟨p1, o1, b1, b2, p3, o3, b3, g1, g2, g3, g4, g5, g6, g7, rfl, rfl⟩ := hp
  obtain ⟨hsupi, hp8, hpc, hp1, hp15⟩ := psiOf_facts h i (by omega)
  obtain ⟨hsn, hs, hint⟩ := snssai_facts E s1 s2 s3 hsd
  simp only [argsOf, Args.snVal, Option.map_some] at g1 g3 g4 g5 g7
  have hre3 : Reenc p3 := reenc_ulReleaseComplete (psiOf cfg i) 1 internet (some ((cfg.sst % 256).toNat, s1, s2, s3))
    (Nat.lt_of_le_of_lt hp15 (by decide)) (by decide) hint hs p3 g5
  have hre1 : Reenc p1 := reencOK_elim _ (reenc_releaseRequest _ (Nat.lt_of_le_of_lt hp15 (by decide))) p1 g1
  rw [← hplmn] at g3 g4 g7
  rw [ranOf_eq] at g3 g4 g7
  have := releasePDU_run P E cfg (mkUe cfg chf kamff i sec) wd _ _ p1 o1 b1 b2 p3 o3 b3 hsupi hsn (by rw [hp8]; exact g1) hre1 g2 g3
    (by rw [← hpc]; exact g4) (by rw [hp8]; exact g5) hre3 g6 g7
  rw [this]
  simp only [List.nil_append] at hdls
  cases wd
  simp only at hdls
  subst hdls
  rfl

end

/-! ### the de-registration loop -/

/-- the invariant of the de-registration loop at index `i`: UEs `0 … i − 1` are de-registered -/
def DeregInv (P : Prims) (scfg : Spec.Amf.Cfg) (chs : List Spec.Amf.Choice) (cfg : Cfg) (chf : Nat → Spec.Amf.Choice) (N : Nat) (m : Bytes)
    (nEnd : Nat) (dd : Nat → Bytes × Bytes) (B : Nat) (E0 : List Nat) (V0 R0 D0 : Nat) (RP0 : List Report) (tail : List Bytes)
    (i : Nat) (wd : World) (secf : Nat → UeSec) (x : Spec.Amf.St × (Nat → Spec.Amf.UeSt) × (Nat → Nat)) : Prop :=
  wd.plmn = m ∧ wd.dls = (List.range' i (nEnd - i)).flatMap (fun j => [(dd j).1, (dd j).2]) ++ tail ∧ Judged P scfg chs wd x.1 ∧
  Glob cfg chf N i x.1 x.2.1 secf x.2.2 ∧ (∀ j, i ≤ j → j < N → x.2.2 j ≤ B) ∧
  x.1.established = E0 ∧ x.1.services = V0 ∧ x.1.releases = R0 ∧ x.1.deregs = D0 + i ∧ wd.reportsRev = RP0

/-- **the loop over `DeregisterUE`** for UEs `0 … nEnd − 1`, emulator and judge together: two downlink messages read and two uplink
    messages written per UE, no clause, every de-registration counted -/
theorem dereg_loop (P : Prims) (hP : PrimsOk P) (scfg : Spec.Amf.Cfg) (chs : List Spec.Amf.Choice) {cfg : Cfg}
    {E : Model.Convert.Ext} {m : Bytes} {chf : Nat → Spec.Amf.Choice} {N : Nat} (h : PopOK cfg E N m chf) (kamff : Nat → Bytes)
    (nEnd : Nat) (hN : nEnd ≤ N) (dd : Nat → Bytes × Bytes) (m1 m2 : Nat → Aper.Val)
    (hdec1 : ∀ i, i < nEnd → ngapDecode ((dd i).1.take 2048) = .ok (m1 i))
    (hdec2 : ∀ i, i < nEnd → ngapDecode ((dd i).2.take 2048) = .ok (m2 i))
    (hsuci : ∀ i, i < nEnd → ∃ suci, Model.Suci.encodeSuci (Model.Suci.trimImsiPrefix (createUE cfg i).ctx.supi) cfg.mnc.length = .ok suci ∧
      suci.length < 65536 ∧ Spec.Amf.suciIs scfg i suci = true)
    (B : Nat) (hB : B + 2 < 2 ^ 24)
    (tail : List Bytes) (wd : World) (secf : Nat → UeSec) (s : Spec.Amf.St) (uf : Nat → Spec.Amf.UeSt) (cf : Nat → Nat)
    (hplmn : wd.plmn = m) (hdls : wd.dls = (List.range nEnd).flatMap (fun j => [(dd j).1, (dd j).2]) ++ tail)
    (hJ : Judged P scfg chs wd s) (G : Glob cfg chf N 0 s uf secf cf) (hcf : ∀ j, j < N → cf j ≤ B) :
    ∃ wd' secf' s', forUes (deregisterUE P E cfg) nEnd 0 (ueList N (mkUe cfg chf kamff) secf) wd =
        (wd', .ok (ueList N (mkUe cfg chf kamff) secf')) ∧
      wd'.dls = tail ∧ Judged P scfg chs wd' s' ∧ s'.fails = [] ∧
      s'.established = s.established ∧ s'.services = s.services ∧ s'.releases = s.releases ∧ s'.deregs = s.deregs + nEnd ∧
      wd'.reportsRev = wd.reportsRev := by
  have key := forUes_inv N (mkUe cfg chf kamff) (mkUe_sec cfg chf kamff) (deregisterUE P E cfg)
    (DeregInv P scfg chs cfg chf N m nEnd dd B s.established s.services s.releases s.deregs wd.reportsRev tail)
    nEnd hN ?step nEnd 0 wd secf (s, uf, cf) (Nat.zero_add _) ?init
  case init =>
    exact ⟨hplmn, by simpa [List.range_eq_range'] using hdls, hJ, G, fun j _ hj => hcf j hj, rfl, rfl, rfl, rfl, rfl⟩
  case step =>
    rintro i wd secf ⟨s, uf, cf⟩ hi ⟨hplmn, hdls, hJ, G, hcf, hE, hV, hR, hD, hRP⟩
    simp only at hJ G hcf hE hV hR hD
    have hiN : i < N := by omega
    obtain ⟨suci, hs1, hs2, hs3⟩ := hsuci i hi
    have hk := G.known h 0 0 0 i (Nat.le_refl i) hiN
    obtain ⟨hr0, hr1⟩ : 0 ≤ ranOf cfg i ∧ ranOf cfg i < 2 ^ 32 := by
      rw [ranOf_eq]; exact Proofs.EmulatorLifeArgs.ran_range cfg h.hd i (h.j62 i hiN)
    obtain ⟨hch, hl, hreg, _⟩ := G.per i (Nat.le_refl i) hiN
    have hci := hcf i (Nat.le_refl i) hiN
    have hamf : (uf i).ch.amfUeNgapId = (chf i).amfUeNgapId := by rw [hch]
    obtain ⟨plain, o, b1, b2, g1, g2, g3, g4, hrun⟩ := C02_deregister_block P hP true scfg chs s wd.ulsRev.length E m h.hm (ranOf cfg i)
      hr0 hr1 G.clean (uf i) (G.find h i hiN) (by rw [hamf]; exact h.hamf i hiN) (secf i) (cf i) hl hreg (by omega)
      (suciVal suci) (by show suci.length % 65536 = suci.length; omega) hs2
      (by rw [(G.idj i hiN).1]; exact hs3)
    rw [hamf] at g3 g4
    rw [range'_head i nEnd hi, List.flatMap_cons, List.append_assoc] at hdls
    rw [← hplmn, ranOf_eq] at g3 g4
    have hf := deregisterUE_run P E cfg (mkUe cfg chf kamff i (secf i)) wd suci plain o b1 b2 (dd i).1 (dd i).2 _ (m1 i) (m2 i)
      hs1 g1 (reenc_deregistrationRequest 1 0 4 (suciVal suci) (by decide) (by decide) (by decide) (by decide)
        (by show suci.length % 65536 = suci.length; omega) hs2 plain g1) g2 g3 hdls (hdec1 i hi) (hdec2 i hi) g4
    let u' : Spec.Amf.UeSt := { uf i with last := some (cf i + 1), used := (cf i + 1) :: (uf i).used, reg := .deregistered }
    let s' : Spec.Amf.St := { s.setUe u' with deregs := s.deregs + 1 }
    refine ⟨_, _, (s', upd uf i u', upd cf i (cf i)), hf, hplmn, rfl, ?_, ?_, ?_, hE, hV, hR, ?_, hRP⟩
    · exact hJ.write [b1, b2] rfl hrun
    · exact G.update i (i + 1) (Nat.le_succ i) s' u' _ (cf i) G.clean G.setup rfl (G.idj i hiN).1 (G.idj i hiN).2
        (fun hle => absurd hle (Nat.not_succ_le_self i))
    · intro j hij hj
      show upd cf i (cf i) j ≤ B
      rw [upd_other _ _ _ _ (by omega)]
      exact hcf j (by omega) hj
    · show s.deregs + 1 = _
      rw [hD]; omega
  obtain ⟨wd', secf', ⟨s', uf', cf'⟩, hloop, _, hdls', hJ', G', _, hE', hV', hR', hD', hRP'⟩ := key
  simp only [Nat.sub_self, List.range'_zero, List.flatMap_nil, List.nil_append] at hdls'
  exact ⟨wd', secf', s', hloop, hdls', hJ', G'.clean, hE', hV', hR', hD', hRP'⟩

/-! ### the registration loop, with what `main` keeps in `ueList` -/

/-- the judge's record of UE `j` when its registration is complete -/
def u0 (cfg : Cfg) (chf : Nat → Spec.Amf.Choice) (akaf : Nat → Spec.Ts33501A.Aka) (j : Nat) : Spec.Amf.UeSt :=
  regUe j (createUE cfg j).ctx.ranUeNgapId (chf j) (akaf j) .registered (some 1) [1, 0]

theorem usOf_eq (cfg : Cfg) (chf : Nat → Spec.Amf.Choice) (akaf : Nat → Spec.Ts33501A.Aka) (i : Nat) :
    usOf cfg chf akaf i = (List.range i).map (u0 cfg chf akaf) := rfl

open Stgutg.Proofs.BuildersRoles Stgutg.Proofs.UeIdentity Stgutg.Proofs.KeyDerivation in
/-- **one iteration of the registration loop** (`C01_register_one`, for the C02 judge, with the result `main` stores): `RegisterUE`
    for UE `j` returns the AMF-UE-NGAP-ID of the choice, K_AMF and a security state in step with the judge's record (last
    accepted COUNT 1) -/
theorem register_one (P : Prims) (hP : PrimsOk P) (hH : MacLen P.hmac) (cfg : Cfg) (scfg : Spec.Amf.Cfg)
    (chs : List Spec.Amf.Choice) (E : Model.Convert.Ext) (N : Nat) (hN : Spec.Amf.subscribers scfg = N)
    (himsi : scfg.imsi = cfg.imsi) (hd : DecimalImsi cfg.imsi) {w : Nat} (hw : w = 2 ∨ w = 3) (hmncl : cfg.mnc.length = w)
    (hmcc : scfg.mcc = cfg.imsi.take 3) (hmnc : scfg.mnc = (cfg.imsi.drop 3).take w) (hlen : 3 + w < cfg.imsi.length)
    (hfit : MsinFits cfg.imsi (3 + w) N) (m : Bytes) (hm : m.length = 3)
    (j : Nat) (hj : j < N) (us : List Spec.Amf.UeSt)
    (hnew : ∀ x ∈ us, x.ran ≠ (createUE cfg j).ctx.ranUeNgapId ∧ x.j ≠ j)
    (ch : Spec.Amf.Choice) (aka : Spec.Ts33501A.Aka) (hch : chs[j]? = some ch) (hvec : Spec.Amf.vector P scfg j ch = some aka)
    (hamf : ch.amfUeNgapId < 2 ^ 40)
    (d2 d3 d4 d5 : Bytes) (keys : Model.KeyDerivation.UeKeys)
    (D : DlReads P cfg (createUE cfg j) d2 d3 d4 d5 ch.amfUeNgapId keys (createUE cfg j))
    (hkeys : keys.resStar = aka.resStar ∧ keys.knasEnc = aka.knasEnc ∧ keys.knasInt = aka.knasInt)
    (k : Nat) (wd : World) (rest : List Bytes) (hdls : wd.dls = d2 :: d3 :: d4 :: d5 :: rest) (hplmn : wd.plmn = m) :
    ∃ sec1 b2 b3 b4 b5 b6,
      registerUE P E cfg (createUE cfg j) wd =
        ({ wd with dls := rest, ulsRev := b6 :: b5 :: b4 :: b3 :: b2 :: wd.ulsRev },
          .ok { amfUeNgapId := ch.amfUeNgapId, kamf := keys.kamf, sec := sec1 }) ∧
      Live sec1 (regUe j (createUE cfg j).ctx.ranUeNgapId ch aka .registered (some 1) [1, 0]) 1 ∧
      ∀ tail, Spec.Amf.run P true scfg chs (regSt us) k (b2 :: b3 :: b4 :: b5 :: b6 :: tail) =
        Spec.Amf.run P true scfg chs
          (regSt (us ++ [regUe j (createUE cfg j).ctx.ranUeNgapId ch aka .registered (some 1) [1, 0]])) (k + 5) tail := by
  have h18 := hd.short
  have hjlt : j < 2 ^ 62 := by
    have := hfit.2
    have h10 : 10 ^ (cfg.imsi.length - (3 + w)) ≤ 10 ^ 18 := Nat.pow_le_pow_right (by omega) (by omega)
    have : N ≤ 10 ^ 18 := by omega
    have : (10 : Nat) ^ 18 < 2 ^ 62 := by decide
    omega
  obtain ⟨hr0, hr1⟩ := Proofs.EmulatorLifeArgs.ran_range cfg hd j hjlt
  have hd' : DecimalImsi scfg.imsi := by rw [himsi]; exact hd
  obtain ⟨suci, hsuci, hslen, hsub⟩ := C01_subscriber_identified scfg hd' hw (by rw [himsi]; exact hmcc) (by rw [himsi]; exact hmnc)
    (by rw [himsi]; exact hlen) (by rw [himsi, hN]; exact hfit) (j := j) (by rw [hN]; exact hj) cfg.k cfg.opc cfg.op
  have hsuci' : Model.Suci.encodeSuci (Model.Suci.trimImsiPrefix (createUE cfg j).ctx.supi) cfg.mnc.length = .ok suci := by
    rw [hmncl]
    have : (createUE cfg j).ctx = Model.UeIdentity.createUE scfg.imsi ((j : Nat) : Int) cfg.k cfg.opc cfg.op := by
      rw [himsi]; rfl
    rw [this]
    exact hsuci
  rw [himsi] at hslen
  have hmi : (suciVal suci).iei = 0 ∧ (suciVal suci).len = (suciVal suci).data.length ∧ (suciVal suci).data.length < 65536 :=
    ⟨rfl, by show suci.length % 65536 = suci.length; omega, by show suci.length < 65536; omega⟩
  have hcapS := C01_security_capability cfg j
  have hrr : ∀ rr, Nas.Ctor.encodeWith Gen.Nas.layout_RegistrationRequest
      (Nas.Ctor.registrationRequest 1 (suciVal suci) none (some (secCapVal (createUE cfg j))) (some cap5GMMVal) none none) = .ok rr →
      rr.length < 65536 := fun rr hrr =>
    registrationRequest_short (suciVal suci) (secCapVal (createUE cfg j)) hmi (secCapVal_shape cfg j)
      (by show suci.length ≤ 26; omega) rr hrr
  have hin : InStep (secAfterKeys (createUE cfg j) keys) (regUe j (createUE cfg j).ctx.ranUeNgapId ch aka .authSent none []) := by
    refine ⟨?_, ?_⟩
    · simp [Proofs.NasProtect.ctxOf, Spec.Amf.ctxOf, regUe, hkeys.2.1, hkeys.2.2, Spec.Amf.selectedIa, Spec.Amf.selectedEa]
      exact ⟨rfl, rfl⟩
    · exact ⟨.inr rfl, .inl rfl⟩
  obtain ⟨nas2, b2, nas3, b3, rr, smc, o1, b4, b5, rc, o2, b6, e2, e3, e4, e5, e6, e7, e8, e9, e10, e11, e12, e13, hrun⟩ :=
    C01_registration_block P hP true scfg chs E m hm us j k (createUE cfg j).ctx.ranUeNgapId hr0 hr1 hnew
      (suciVal suci) (secCapVal (createUE cfg j)) hmi (secCapVal_shape cfg j) hcapS.1 hcapS.2 ch aka hsub hch hvec hamf
      (vector_resStar_length P hH scfg j ch aka hvec) (secAfterKeys (createUE cfg j) keys) hin hrr
  obtain ⟨pm4, hpd4, hpe4⟩ := Proofs.EmulatorReencode.reenc_smc rr smc (hrr rr e6) e7
  obtain ⟨pm6, hpd6, hpe6⟩ := Proofs.EmulatorReencode.reenc_rc rc e11
  have R : RegReads P E cfg (createUE cfg j) wd.plmn d2 d3 d4 d5 suci nas2 b2 nas3 b3 rr smc o1 b4 b5 rc o2 b6 ch.amfUeNgapId keys
      (createUE cfg j) :=
    { hsuci := hsuci', henc2 := e2, hrun2 := by rw [hplmn]; exact e3, v2 := D.v2, dnt := D.dnt, hdec2 := D.hdec2, hdnt := D.hdnt,
      pm := D.pm, hgn := D.hgn, autn := D.autn, rand := D.rand, hauth := D.hauth, hkeys := D.hkeys, hamf := D.hamf,
      henc3 := by rw [hkeys.1]; exact e4, hrun3 := by rw [hplmn]; exact e5, v3 := D.v3, hdec3 := D.hdec3,
      hencrr := e6, hencsmc := e7, pm4 := pm4, hpd4 := hpd4, hpe4 := hpe4, ho1 := e8,
      hrun4 := by rw [hplmn]; exact e9, v4 := D.v4, hdec4 := D.hdec4, hrun5 := by rw [hplmn]; exact e10,
      hencrc := e11, pm6 := pm6, hpd6 := hpd6, hpe6 := hpe6, ho2 := e12, hrun6 := by rw [hplmn]; exact e13, hdec5 := D.hdec5 }
  have hreg := registerUE_run_result P E cfg (createUE cfg j) wd d2 d3 d4 d5 rest hdls
    suci nas2 b2 nas3 b3 rr smc o1 b4 b5 rc o2 b6 ch.amfUeNgapId keys (createUE cfg j) R
  exact ⟨_, b2, b3, b4, b5, b6, hreg, registration_live P hP _ _ _ hin smc rc rfl rfl rfl, hrun⟩

open Stgutg.Proofs.UeIdentity Stgutg.Proofs.KeyDerivation in
/-- **the registration loop** for UEs `i … i + n − 1` (`C01_register_loop`, for the C02 judge): the list `main` appends is UE `j` with
    the AMF-UE-NGAP-ID of the choice, K_AMF and a security state in step with the judge's record of `j` -/
theorem register_loop (P : Prims) (hP : PrimsOk P) (hH : MacLen P.hmac) (cfg : Cfg) (scfg : Spec.Amf.Cfg)
    (chs : List Spec.Amf.Choice) (E : Model.Convert.Ext) (N : Nat) (hN : Spec.Amf.subscribers scfg = N) (hN4 : N ≤ 10000)
    (himsi : scfg.imsi = cfg.imsi) (hd : DecimalImsi cfg.imsi) {w : Nat} (hw : w = 2 ∨ w = 3) (hmncl : cfg.mnc.length = w)
    (hmcc : scfg.mcc = cfg.imsi.take 3) (hmnc : scfg.mnc = (cfg.imsi.drop 3).take w) (hlen : 3 + w < cfg.imsi.length)
    (hfit : MsinFits cfg.imsi (3 + w) N) (m : Bytes) (hm : m.length = 3)
    (chf : Nat → Spec.Amf.Choice) (akaf : Nat → Spec.Ts33501A.Aka) (dn : Nat → Bytes × Bytes × Bytes × Bytes)
    (keysf : Nat → Model.KeyDerivation.UeKeys)
    (hch : ∀ j, j < N → chs[j]? = some (chf j)) (hvec : ∀ j, j < N → Spec.Amf.vector P scfg j (chf j) = some (akaf j))
    (hamf : ∀ j, j < N → (chf j).amfUeNgapId < 2 ^ 40)
    (hD : ∀ j, j < N → DlReads P cfg (createUE cfg j) (dn j).1 (dn j).2.1 (dn j).2.2.1 (dn j).2.2.2 (chf j).amfUeNgapId (keysf j)
      (createUE cfg j))
    (hkeys : ∀ j, j < N → (keysf j).resStar = (akaf j).resStar ∧ (keysf j).knasEnc = (akaf j).knasEnc ∧
      (keysf j).knasInt = (akaf j).knasInt) :
    ∀ (n i : Nat) (ues : List Ue) (wd : World) (tailDls : List Bytes), i + n ≤ N →
      wd.dls = dlsOf dn i n ++ tailDls → wd.plmn = m → Judged P scfg chs wd (regSt (usOf cfg chf akaf i)) →
      ∃ (wd' : World) (secf' : Nat → UeSec), registerLoop P E cfg n i ues wd =
          (wd', .ok (ues ++ (List.range' i n).map fun j => mkUe cfg chf (fun j => (keysf j).kamf) j (secf' j))) ∧
        wd'.dls = tailDls ∧ wd'.plmn = m ∧ wd'.reportsRev = wd.reportsRev ∧
        Judged P scfg chs wd' (regSt (usOf cfg chf akaf (i + n))) ∧
        ∀ j, i ≤ j → j < i + n → Live (secf' j) (u0 cfg chf akaf j) 1 := by
  intro n
  induction n with
  | zero =>
    intro i ues wd tailDls _ hdls hplmn hJ
    exact ⟨wd, fun _ => (createUE cfg 0).sec, by simp [registerLoop, pure_apply], by simpa [dlsOf] using hdls, hplmn, rfl, hJ,
      fun j h1 h2 => by omega⟩
  | succ n ih =>
    intro i ues wd tailDls hle hdls hplmn hJ
    have hi : i < N := by omega
    have hnew : ∀ x ∈ usOf cfg chf akaf i, x.ran ≠ (createUE cfg i).ctx.ranUeNgapId ∧ x.j ≠ i := by
      intro x hx
      simp only [usOf, List.mem_map, List.mem_range] at hx
      obtain ⟨j', hj', rfl⟩ := hx
      refine ⟨?_, by simp [regUe]; omega⟩
      exact (Props.C16.C16_ran_id_distinct hd hN4 (by omega : j' < N) hi (by omega) cfg.k cfg.opc cfg.op cfg.k cfg.opc cfg.op).1
    have hdls' : wd.dls = (dn i).1 :: (dn i).2.1 :: (dn i).2.2.1 :: (dn i).2.2.2 :: (dlsOf dn (i + 1) n ++ tailDls) := by
      rw [hdls]; simp [dlsOf, List.range'_succ]
    obtain ⟨sec1, b2, b3, b4, b5, b6, hreg, hlive, hrun⟩ := register_one P hP hH cfg scfg chs E N hN himsi hd hw hmncl hmcc hmnc hlen hfit
      m hm i hi (usOf cfg chf akaf i) hnew (chf i) (akaf i) (hch i hi) (hvec i hi) (hamf i hi)
      (dn i).1 (dn i).2.1 (dn i).2.2.1 (dn i).2.2.2 (keysf i) (hD i hi) (hkeys i hi) wd.ulsRev.length wd _ hdls' hplmn
    have hus : usOf cfg chf akaf (i + 1) = usOf cfg chf akaf i ++
        [regUe i (createUE cfg i).ctx.ranUeNgapId (chf i) (akaf i) .registered (some 1) [1, 0]] := by
      simp [usOf, List.range_succ]
    have hJ1 : Judged P scfg chs
        { wd with dls := dlsOf dn (i + 1) n ++ tailDls, ulsRev := b6 :: b5 :: b4 :: b3 :: b2 :: wd.ulsRev }
        (regSt (usOf cfg chf akaf (i + 1))) := by
      rw [hus]
      exact hJ.write [b2, b3, b4, b5, b6] rfl hrun
    obtain ⟨wd', secf'', hloop, h1, h2, h3, h4, h5⟩ := ih (i + 1)
      (ues ++ [mkUe cfg chf (fun j => (keysf j).kamf) i sec1])
      { wd with dls := dlsOf dn (i + 1) n ++ tailDls, ulsRev := b6 :: b5 :: b4 :: b3 :: b2 :: wd.ulsRev } tailDls
      (by omega) rfl hplmn hJ1
    refine ⟨wd', upd secf'' i sec1, ?_, h1, h2, h3, ?_, ?_⟩
    · simp only [registerLoop, Proofs.Emulator.bind_apply, hreg]
      rw [List.range'_succ, List.map_cons, upd_same]
      have hmap : (List.range' (i + 1) n).map (fun j => mkUe cfg chf (fun j => (keysf j).kamf) j (upd secf'' i sec1 j)) =
          (List.range' (i + 1) n).map (fun j => mkUe cfg chf (fun j => (keysf j).kamf) j (secf'' j)) := by
        apply List.map_congr_left
        intro j hj
        have : i + 1 ≤ j := (List.mem_range'_1.mp hj).1
        rw [upd_other _ _ _ _ (by omega)]
      rw [hmap]
      have : ues ++ mkUe cfg chf (fun j => (keysf j).kamf) i sec1 ::
          (List.range' (i + 1) n).map (fun j => mkUe cfg chf (fun j => (keysf j).kamf) j (secf'' j)) =
          (ues ++ [mkUe cfg chf (fun j => (keysf j).kamf) i sec1]) ++
          (List.range' (i + 1) n).map (fun j => mkUe cfg chf (fun j => (keysf j).kamf) j (secf'' j)) := by simp
      rw [this]
      exact hloop
    · have e1 : i + 1 + n = i + (n + 1) := by omega
      rw [← e1]; exact h4
    · intro j hij hjn
      by_cases hji : j = i
      · subst hji; rw [upd_same]; exact hlive
      · rw [upd_other _ _ _ _ hji]; exact h5 j (by omega) (by omega)

end Stgutg.Proofs.EmulatorLifeN
