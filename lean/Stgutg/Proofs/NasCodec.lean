/-
  Helper lemmas for Props/C08 and Props/C09: the generic round trip of the NAS codec model.
  Core Lean only.
-/
import Stgutg.Model.NasWF
namespace Stgutg.Nas
open Stgutg

theorem toNat_ofNat_lt {c : Nat} (h : c < 256) : (UInt8.ofNat c).toNat = c := by
  simp [UInt8.toNat_ofNat']; omega

theorem readN_append {n : Nat} {a rest : Bytes} (h : a.length = n) :
    readN n (a ++ rest) = (some a, rest) := by
  subst h; simp [readN]

theorem lenBytes_length {w n : Nat} (h : lenWOK w = true) : (lenBytes w n).length = w := by
  simp [lenWOK] at h; rcases h with h | h <;> subst h <;> rfl

theorem lenOf_lenBytes {w n : Nat} (h : lenFits w n = true) : lenOfBytes (lenBytes w n) = n := by
  simp [lenFits] at h
  rcases h with ⟨h, hn⟩ | ⟨h, hn⟩ <;> subst h
  · simp [lenBytes, lenOfBytes, toNat_ofNat_lt hn]
  · simp [lenBytes, lenOfBytes, UInt8.toNat_ofNat']; omega

theorem allZero_eq {l : Bytes} (h : allZero l = true) : l = List.replicate l.length 0 := by
  induction l with
  | nil => rfl
  | cons a t ih =>
    simp [allZero] at h ⊢
    simp [List.replicate_succ, h.1]
    apply ih; simp [allZero]; exact h.2

theorem rop_lenSet_ok (s : Shape) (b : UInt8) (v : Val) (rest : Bytes) (n : Nat)
    (hw : lenWOK s.lenW = true) (hn : lenFits s.lenW n = true) :
    rop s b v (lenBytes s.lenW n ++ rest) .lenSet =
      .ok ({ v with len := n, data := if s.body = .buf then List.replicate n 0 else v.data }, rest) := by
  simp [rop, readN_append (lenBytes_length hw), lenOf_lenBytes hn]

theorem rop_octet_ok (s : Shape) (b : UInt8) (v : Val) (a rest : Bytes) (h : a.length = s.body.size) :
    rop s b v (a ++ rest) .octet = .ok ({ v with data := a }, rest) := by
  simp [rop, readN_append h]

theorem rop_bufPtr_ok (s : Shape) (b : UInt8) (v : Val) (a rest : Bytes) (h : a.length = v.data.length) :
    rop s b v (a ++ rest) .bufPtr = .ok ({ v with data := a }, rest) := by
  simp [rop, readN_append h]

theorem rop_bufLen_ok (s : Shape) (b : UInt8) (v : Val) (a rest : Bytes) (h : a.length = v.len)
    (h2 : v.len ≤ v.data.length) :
    rop s b v (a ++ rest) .bufLen = .ok ({ v with data := a ++ v.data.drop v.len }, rest) := by
  simp [rop, readN_append h, h2]

theorem rop_octetLen_ok (s : Shape) (b : UInt8) (v : Val) (a rest : Bytes) (h : a.length = v.len)
    (h2 : v.len ≤ v.data.length) :
    rop s b v (a ++ rest) .octetLen = .ok ({ v with data := a ++ v.data.drop v.len }, rest) := by
  simp [rop, readN_append h, h2]

theorem tmpIei_full {c : Nat} (h : c < 128) : tmpIei (UInt8.ofNat c) = c := by
  have : (UInt8.ofNat c).toNat = c := toNat_ofNat_lt (by omega)
  simp [tmpIei, this]; omega

theorem tmpIei_half {b : UInt8} {c : Nat} (h : b.toNat / 16 = c) (h8 : 8 ≤ c) : tmpIei b = c := by
  unfold tmpIei; split <;> omega

theorem newVal_len (s : Shape) (b : UInt8) : (newVal s b).len = 0 := by
  unfold newVal Shape.zero; split <;> (try split) <;> (try split) <;> rfl

theorem newVal_iei_noField (s : Shape) (b : UInt8) (h : s.hasIei = false) : (newVal s b).iei = 0 := by
  unfold newVal Shape.zero; simp [h]; split <;> (try split) <;> rfl

theorem newVal_field (s : Shape) (b : UInt8) (h : s.hasIei = true) (h2 : s.newSetsIei = true) :
    newVal s b = { iei := b.toNat, len := 0, data := List.replicate s.body.size 0 } := by
  simp [newVal, Shape.zero, h, h2]

/-- one optional IE: what the encode block writes starts with an octet the decoder maps to the case
    constant, and the case's statements read the value back from the rest -/
theorem optIE_roundtrip (s : Shape) (e : List WOp) (d : List ROp) (c : Nat) (v : Val)
    (hk : optKindOK s e d = true) (hr : ieiRangeOK e c = true) (hv : optValOK s c v e = true) :
    ∃ b body, encIE s v e = .ok (b :: body) ∧ tmpIei b = c ∧
      ∀ rest, decOps s b d s.zero (body ++ rest) = .ok (v, rest) := by
  unfold optKindOK at hk
  split at hk
  · -- half octet
    simp at hk
    obtain ⟨⟨hb, hi⟩, hl⟩ := hk
    simp [optValOK] at hv
    obtain ⟨⟨hvi, hvl⟩, hd⟩ := hv
    split at hd
    · rename_i b hb'
      simp at hd
      simp [ieiRangeOK] at hr
      refine ⟨b, [], ?_, tmpIei_half hd hr.1, ?_⟩
      · simp [encIE, wop, hb']
      · intro rest
        simp [decOps, rop]
        cases v; simp_all [newVal_len, newVal_iei_noField]
    · simp at hd
  · -- Iei + Octet (TV)
    simp at hk
    obtain ⟨⟨hi, hn⟩, hb⟩ := hk
    simp [optValOK] at hv
    obtain ⟨⟨hvi, hvl⟩, hd⟩ := hv
    simp [ieiRangeOK] at hr
    refine ⟨UInt8.ofNat c, v.data, ?_, tmpIei_full hr, ?_⟩
    · simp [encIE, wop, hvi]
    · intro rest
      simp [decOps, rop, newVal_field s _ hi hn, readN_append hd, toNat_ofNat_lt (show c < 256 by omega)]
      cases v; simp_all
  · -- Iei + Len + Octet
    simp at hk
    obtain ⟨⟨⟨hi, hn⟩, hb⟩, hw⟩ := hk
    simp [optValOK] at hv
    obtain ⟨⟨hvi, hvl⟩, hd⟩ := hv
    simp [ieiRangeOK] at hr
    refine ⟨UInt8.ofNat c, lenBytes s.lenW v.len ++ v.data, ?_, tmpIei_full hr, ?_⟩
    · simp [encIE, wop, hvi]
    · intro rest
      have hne : s.body ≠ .buf := by intro h; simp [h, Body.isOctets] at hb
      simp only [decOps, rop.eq_1, newVal_field s _ hi hn, List.append_assoc, rop_lenSet_ok s _ _ _ _ hw hvl]
      simp [rop, readN_append hd, toNat_ofNat_lt (show c < 256 by omega)]
      cases v; simp_all
  · -- Iei + Len + Buffer (TLV / TLV-E)
    simp at hk
    obtain ⟨⟨⟨hi, hn⟩, hb⟩, hw⟩ := hk
    simp [optValOK] at hv
    obtain ⟨⟨hvi, hvl⟩, hf⟩ := hv
    simp [ieiRangeOK] at hr
    refine ⟨UInt8.ofNat c, lenBytes s.lenW v.len ++ v.data, ?_, tmpIei_full hr, ?_⟩
    · simp [encIE, wop, hvi]
    · intro rest
      simp only [decOps, rop.eq_1, newVal_field s _ hi hn, List.append_assoc, rop_lenSet_ok s _ _ _ _ hw hf]
      simp [rop, hb, readN_append hvl.symm, toNat_ofNat_lt (show c < 256 by omega)]
      cases v; simp_all
  · -- Iei + Len + Octet[:Len]
    simp at hk
    obtain ⟨⟨⟨hi, hn⟩, hw⟩, hb⟩ := hk
    simp [optValOK] at hv
    obtain ⟨⟨⟨⟨hvi, hf⟩, hd⟩, hle⟩, hz⟩ := hv
    simp [ieiRangeOK] at hr
    have hle' : v.len ≤ v.data.length := by omega
    refine ⟨UInt8.ofNat c, lenBytes s.lenW v.len ++ v.data.take v.len, ?_, tmpIei_full hr, ?_⟩
    · simp [encIE, wop, hvi, hle']
    · intro rest
      have hne : s.body ≠ .buf := by intro h; simp [h] at hb
      have htl : (v.data.take v.len).length = v.len := by simp; omega
      simp only [decOps, rop.eq_1, newVal_field s _ hi hn, List.append_assoc, rop_lenSet_ok s _ _ _ _ hw hf]
      simp [rop, hne, readN_append htl, toNat_ofNat_lt (show c < 256 by omega), hle]
      have hz' := allZero_eq hz
      simp at hz'
      cases v; simp_all
      rw [← hz', List.take_append_drop]
  · simp at hk

/-- one mandatory field -/
theorem mandIE_roundtrip (s : Shape) (e : List WOp) (d : List ROp) (v : Val)
    (hk : mandKindOK s e d = true) (hv : mandValOK s v e = true) :
    ∃ bs, encIE s v e = .ok bs ∧ ∀ b rest, decOps s b d s.zero (bs ++ rest) = .ok (v, rest) := by
  unfold mandKindOK at hk
  split at hk
  · -- Octet
    simp [mandValOK] at hv
    obtain ⟨⟨hvi, hvl⟩, hd⟩ := hv
    refine ⟨v.data, by simp [encIE, wop], ?_⟩
    intro b rest
    simp [decOps, rop, readN_append hd, Shape.zero]
    cases v; simp_all
  · -- Len + Buffer (LV / LV-E)
    simp at hk
    obtain ⟨hb, hw⟩ := hk
    simp [mandValOK] at hv
    obtain ⟨⟨hvi, hvl⟩, hf⟩ := hv
    refine ⟨lenBytes s.lenW v.len ++ v.data, by simp [encIE, wop], ?_⟩
    intro b rest
    simp only [decOps, List.append_assoc, rop_lenSet_ok s _ _ _ _ hw hf]
    simp [rop, hb, readN_append hvl.symm, Shape.zero]
    cases v; simp_all
  · -- Len + whole Octet array
    simp at hk
    obtain ⟨hb, hw⟩ := hk
    simp [mandValOK] at hv
    obtain ⟨⟨hvi, hf⟩, hd⟩ := hv
    refine ⟨lenBytes s.lenW v.len ++ v.data, by simp [encIE, wop], ?_⟩
    intro b rest
    simp only [decOps, List.append_assoc, rop_lenSet_ok s _ _ _ _ hw hf]
    simp [rop, readN_append hd, Shape.zero]
    cases v; simp_all
  · -- empty struct
    simp at hk
    simp [mandValOK] at hv
    obtain ⟨⟨hvi, hvl⟩, hd⟩ := hv
    refine ⟨[], by simp [encIE, wop], ?_⟩
    intro b rest
    simp [decOps, rop, Shape.zero, hk, Body.size]
    cases v; simp_all
  · simp at hk

/-! ### assignments -/

theorem assign_length (m0 : Msg) (tr : List (Nat × Val)) : (assign m0 tr).length = m0.length := by
  induction tr generalizing m0 with
  | nil => rfl
  | cons p tr ih => simp [assign, List.foldl_cons] at ih ⊢; rw [ih]; simp

/-- assignments that only ever store the target's own values, and that reach every position where the
    start state differs from the target, produce the target — whatever their order or multiplicity -/
theorem assign_eq (m : Msg) : ∀ (tr : List (Nat × Val)) (m0 : Msg), m0.length = m.length →
    (∀ p ∈ tr, m[p.1]? = some (some p.2)) →
    (∀ i, i < m.length → m0[i]? = m[i]? ∨ i ∈ tr.map (·.1)) →
    assign m0 tr = m := by
  intro tr
  induction tr with
  | nil =>
    intro m0 hl _ hc
    show m0 = m
    apply List.ext_getElem? ; intro i
    by_cases hi : i < m.length
    · rcases hc i hi with h | h
      · exact h
      · simp at h
    · rw [List.getElem?_eq_none (by omega), List.getElem?_eq_none (by omega)]
  | cons p tr ih =>
    intro m0 hl hs hc
    have hp := hs p (by simp)
    have hpl : p.1 < m.length := by
      rcases Nat.lt_or_ge p.1 m.length with h | h
      · exact h
      · rw [List.getElem?_eq_none h] at hp; cases hp
    show assign (m0.set p.1 (some p.2)) tr = m
    apply ih
    · simp [hl]
    · intro q hq; exact hs q (by simp [hq])
    · intro i hi
      by_cases hip : i = p.1
      · left; subst hip; rw [List.getElem?_set_self (by omega)]; exact hp.symm
      · rcases hc i hi with h | h
        · left; rw [List.getElem?_set_ne (by omega)]; exact h
        · right; simp at h ⊢
          rcases h with h | h
          · exact absurd h hip
          · exact h

/-! ### the unconditional part -/

theorem mand_roundtrip (fields : List Field) (m : Msg) :
    ∀ (ge : List (Nat × List WOp)) (gd : List (Nat × List ROp)) (i : Nat),
    mandWF fields i ge gd = true → mandValsOK fields m ge = true →
    ∃ bs tr, encGroups fields m false ge = .ok bs ∧
      (∀ rest, decMand fields gd (bs ++ rest) = .ok (tr, rest)) ∧
      tr.map (·.1) = List.range' i ge.length ∧ (∀ p ∈ tr, m[p.1]? = some (some p.2)) := by
  intro ge
  induction ge with
  | nil =>
    intro gd i hw _
    cases gd with
    | nil => exact ⟨[], [], rfl, fun _ => rfl, rfl, by simp⟩
    | cons _ _ => simp [mandWF] at hw
  | cons g ge ih =>
    intro gd i hw hv
    obtain ⟨a, e⟩ := g
    cases gd with
    | nil => simp [mandWF] at hw
    | cons g' gd =>
      obtain ⟨b, d⟩ := g'
      simp only [mandWF, Bool.and_eq_true, beq_iff_eq] at hw
      obtain ⟨⟨⟨ha, hb⟩, hf⟩, hrest⟩ := hw
      have ha := ha.symm; subst ha; have hb := hb.symm; subst hb
      simp only [mandValsOK, Bool.and_eq_true] at hv
      obtain ⟨hv1, hv2⟩ := hv
      cases hfa : fields[i]? with
      | none => simp [hfa] at hf
      | some f =>
        simp only [hfa, Bool.and_eq_true] at hf
        cases hma : m[i]? with
        | none => simp [hfa, hma] at hv1
        | some o =>
          cases o with
          | none => simp [hfa, hma] at hv1
          | some v =>
            simp only [hfa, hma] at hv1
            obtain ⟨bs, henc, hdec⟩ := mandIE_roundtrip f.shape e d v hf.2 hv1
            obtain ⟨bs', tr', henc', hdec', hidx, hcons⟩ := ih gd (i + 1) hrest hv2
            refine ⟨bs ++ bs', (i, v) :: tr', ?_, ?_, ?_, ?_⟩
            · simp [encGroups, hfa, hma, henc, henc']
            · intro rest
              simp [decMand, hfa, List.append_assoc, hdec 0 (bs' ++ rest), hdec' rest]
            · simp [hidx, List.range'_succ]
            · intro p hp
              simp at hp
              rcases hp with hp | hp
              · subst hp; exact hma
              · exact hcons p hp

/-! ### the optional part -/

/-- `piece` is the encoding of the (well-formed) optional IE in field `i` of `m` -/
def PieceOf (L : Layout) (m : Msg) (i : Nat) (piece : Bytes) : Prop :=
  ∃ c ∈ L.cases, ∃ f e v, L.fields[i]? = some f ∧ c.slot = i ∧ m[i]? = some (some v) ∧
    optKindOK f.shape e c.ops = true ∧ ieiRangeOK e c.iei = true ∧ optValOK f.shape c.iei v e = true ∧
    encIE f.shape v e = .ok piece

theorem opt_lookup (fields : List Field) (m : Msg) :
    ∀ (ge : List (Nat × List WOp)) (cs : List DecCase) (i : Nat),
    optWF fields i ge cs = true → optValsOK fields m ge cs = true →
    ∀ g ∈ ge, ∀ v, m[g.1]? = some (some v) →
      ∃ c ∈ cs, ∃ f, fields[g.1]? = some f ∧ c.slot = g.1 ∧ optKindOK f.shape g.2 c.ops = true ∧
        ieiRangeOK g.2 c.iei = true ∧ optValOK f.shape c.iei v g.2 = true := by
  intro ge
  induction ge with
  | nil => intro cs i _ _ g hg; simp at hg
  | cons g0 ge ih =>
    intro cs i hw hv g hg v hm
    obtain ⟨a, e⟩ := g0
    cases cs with
    | nil => simp [optWF] at hw
    | cons c cs =>
      simp only [optWF, Bool.and_eq_true, beq_iff_eq] at hw
      obtain ⟨⟨⟨ha, hc⟩, hf⟩, hrest⟩ := hw
      simp only [optValsOK, Bool.and_eq_true] at hv
      obtain ⟨hv1, hv2⟩ := hv
      simp at hg
      rcases hg with hg | hg
      · subst hg
        have ha := ha.symm; subst ha
        cases hfa : fields[i]? with
        | none => simp [hfa] at hf
        | some f =>
          simp only [hfa, Bool.and_eq_true] at hf
          simp only [hfa, hm] at hv1
          exact ⟨c, by simp, f, rfl, hc, hf.1.2, hf.2, hv1⟩
      · obtain ⟨c', hc', rest⟩ := ih cs (i + 1) hrest hv2 g hg v hm
        exact ⟨c', by simp [hc'], rest⟩

theorem find_case : ∀ (cs : List DecCase) (c : DecCase), nodupNat (cs.map (·.iei)) = true → c ∈ cs →
    cs.find? (fun x => x.iei == c.iei) = some c := by
  intro cs
  induction cs with
  | nil => intro c _ h; simp at h
  | cons a cs ih =>
    intro c hn hc
    simp only [List.map_cons, nodupNat, Bool.and_eq_true, Bool.not_eq_true'] at hn
    simp at hc
    rcases hc with hc | hc
    · subst hc; simp [List.find?]
    · have hne : (a.iei == c.iei) = false := by
        cases h : (a.iei == c.iei) with
        | false => rfl
        | true =>
          simp at h
          simp at hn
          exact absurd h.symm (hn.1 c hc)
      simp [List.find?, hne]
      exact ih c hn.2 hc

/-- the decode loop reads any sequence of well-formed IE encodings back, in the order given -/
theorem decLoop_pieces (L : Layout) (m : Msg) (hnd : nodupNat (L.cases.map (·.iei)) = true) :
    ∀ (ps : List (Nat × Bytes)), (∀ p ∈ ps, PieceOf L m p.1 p.2) →
    ∀ fuel, (ps.map (·.2)).flatten.length ≤ fuel →
    ∃ tr, decLoop L fuel (ps.map (·.2)).flatten = .ok tr ∧ tr.map (·.1) = ps.map (·.1) ∧
      ∀ q ∈ tr, m[q.1]? = some (some q.2) := by
  intro ps
  induction ps with
  | nil => intro _ fuel _; exact ⟨[], by simp [decLoop], rfl, by simp⟩
  | cons p ps ih =>
    intro hp fuel hfuel
    obtain ⟨i, piece⟩ := p
    obtain ⟨c, hc, f, e, v, hf, hslot, hm, hk, hr, hv, henc⟩ := hp (i, piece) (by simp)
    obtain ⟨b, body, henc', htmp, hdec⟩ := optIE_roundtrip f.shape e c.ops c.iei v hk hr hv
    rw [henc] at henc'
    cases henc'
    simp only [List.map_cons, List.flatten_cons, List.cons_append] at hfuel ⊢
    cases fuel with
    | zero => simp at hfuel
    | succ fuel =>
      simp at hfuel
      obtain ⟨tr, hloop, hidx, hcons⟩ := ih (fun q hq => hp q (by simp [hq])) fuel (by simp; omega)
      refine ⟨(i, v) :: tr, ?_, by simp [hidx], ?_⟩
      · simp only [decLoop, htmp, find_case L.cases c hnd hc, hslot, hf, hdec, hloop]
      · intro q hq
        simp at hq
        rcases hq with hq | hq
        · subst hq; exact hm
        · exact hcons q hq

theorem encGroups_opt (fields : List Field) (m : Msg) :
    ∀ (ge : List (Nat × List WOp)) (cs : List DecCase) (i : Nat),
    optWF fields i ge cs = true → optValsOK fields m ge cs = true →
    encGroups fields m true ge = .ok ((optPieces fields m ge).map (·.2)).flatten ∧
    (∀ p ∈ optPieces fields m ge, ∃ e f v, (p.1, e) ∈ ge ∧ fields[p.1]? = some f ∧
        m[p.1]? = some (some v) ∧ encIE f.shape v e = .ok p.2) ∧
    (∀ g ∈ ge, ∀ v, m[g.1]? = some (some v) → g.1 ∈ (optPieces fields m ge).map (·.1)) := by
  intro ge
  induction ge with
  | nil => intro cs i _ _; simp [encGroups, optPieces]
  | cons g0 ge ih =>
    intro cs i hw hv
    obtain ⟨a, e⟩ := g0
    cases cs with
    | nil => simp [optWF] at hw
    | cons c cs =>
      have hlk := opt_lookup fields m ((a, e) :: ge) (c :: cs) i hw hv (a, e) (by simp)
      simp only [optWF, Bool.and_eq_true, beq_iff_eq] at hw
      obtain ⟨⟨⟨ha, hc⟩, hf⟩, hrest⟩ := hw
      simp only [optValsOK, Bool.and_eq_true] at hv
      obtain ⟨hv1, hv2⟩ := hv
      obtain ⟨ih1, ih2, ih3⟩ := ih cs (i + 1) hrest hv2
      cases hfa : fields[a]? with
      | none => simp [hfa] at hv1
      | some f =>
        cases hma : m[a]? with
        | none => simp [hfa, hma] at hv1
        | some o =>
          cases o with
          | none =>
            refine ⟨by simp [encGroups, optPieces, hfa, hma, ih1], ?_, ?_⟩
            · intro p hp
              simp only [optPieces, hfa, hma] at hp
              obtain ⟨e', f', v', h1, h2⟩ := ih2 p hp
              exact ⟨e', f', v', by simp [h1], h2⟩
            · intro g hg v hm
              simp only [optPieces, hfa, hma]
              simp at hg
              rcases hg with hg | hg
              · subst hg; simp [hma] at hm
              · exact ih3 g hg v hm
          | some v =>
            obtain ⟨c', _, f', hf', _, hk, hr, hvv⟩ := hlk v hma
            simp only [hfa] at hf'
            cases hf'
            obtain ⟨b, body, henc, _, _⟩ := optIE_roundtrip f.shape e c'.ops c'.iei v hk hr hvv
            refine ⟨by simp [encGroups, optPieces, hfa, hma, henc, ih1], ?_, ?_⟩
            · intro p hp
              simp only [optPieces, hfa, hma, henc] at hp
              simp at hp
              rcases hp with hp | hp
              · subst hp; exact ⟨e, f, v, by simp, hfa, hma, henc⟩
              · obtain ⟨e', f', v', h1, h2⟩ := ih2 p hp
                exact ⟨e', f', v', by simp [h1], h2⟩
            · intro g hg v' hm
              simp only [optPieces, hfa, hma, henc]
              simp at hg
              rcases hg with hg | hg
              · subst hg; simp
              · simp; right; simpa using ih3 g hg v' hm

/-- index facts of the positional well-formedness -/
theorem optWF_fields (fields : List Field) :
    ∀ (ge : List (Nat × List WOp)) (cs : List DecCase) (i : Nat), optWF fields i ge cs = true →
    i + ge.length = fields.length ∧
    ∀ j, i ≤ j → j < fields.length → (∃ f, fields[j]? = some f ∧ f.ptr = true) ∧ j ∈ ge.map (·.1) := by
  intro ge
  induction ge with
  | nil =>
    intro cs i hw
    cases cs with
    | nil => simp [optWF] at hw; subst hw; exact ⟨by simp, fun j h1 h2 => by omega⟩
    | cons _ _ => simp [optWF] at hw
  | cons g0 ge ih =>
    intro cs i hw
    obtain ⟨a, e⟩ := g0
    cases cs with
    | nil => simp [optWF] at hw
    | cons c cs =>
      simp only [optWF, Bool.and_eq_true, beq_iff_eq] at hw
      obtain ⟨⟨⟨ha, _⟩, hf⟩, hrest⟩ := hw
      obtain ⟨h1, h2⟩ := ih cs (i + 1) hrest
      refine ⟨by simp; omega, ?_⟩
      intro j hj hjl
      by_cases hji : j = i
      · subst hji
        cases hfa : fields[j]? with
        | none => simp [hfa] at hf
        | some f =>
          simp only [hfa, Bool.and_eq_true] at hf
          exact ⟨⟨f, rfl, hf.1.1⟩, by simp [ha]⟩
      · obtain ⟨h3, h4⟩ := h2 j (by omega) hjl
        exact ⟨h3, by simp; right; simpa using h4⟩

theorem initMsg_getElem? (L : Layout) (i : Nat) :
    (initMsg L)[i]? = (L.fields[i]?).map fun f => if f.ptr then none else some f.shape.zero := by
  simp [initMsg, List.getElem?_map]

/-- the mandatory part followed by ANY sequence of the message's own IE encodings that contains each of
    them at least once decodes to the message -/
theorem decode_pieces (L : Layout) (m : Msg) (hL : LayoutWF L) (hm : MsgWF L m) :
    ∃ mand, encGroups L.fields m false L.encMand = .ok mand ∧
      encode L m = .ok (mand ++ ((optPieces L.fields m L.encOpt).map (·.2)).flatten) ∧
      ∀ ps : List (Nat × Bytes), (∀ p ∈ ps, p ∈ optPieces L.fields m L.encOpt) →
        (∀ p ∈ optPieces L.fields m L.encOpt, p.1 ∈ ps.map (·.1)) →
        decode L (mand ++ (ps.map (·.2)).flatten) = .ok m := by
  simp only [LayoutWF, layoutWF, Bool.and_eq_true] at hL
  obtain ⟨⟨hw1, hw2⟩, hnd⟩ := hL
  simp only [MsgWF, msgWF, Bool.and_eq_true, beq_iff_eq] at hm
  obtain ⟨⟨hlen, hv1⟩, hv2⟩ := hm
  obtain ⟨mand, tr₁, henc1, hdec1, hidx1, hcons1⟩ := mand_roundtrip L.fields m L.encMand L.decMand 0 hw1 hv1
  obtain ⟨henc2, hp2, hcov2⟩ := encGroups_opt L.fields m L.encOpt L.cases _ hw2 hv2
  obtain ⟨hk, hptr⟩ := optWF_fields L.fields L.encOpt L.cases _ hw2
  refine ⟨mand, henc1, by simp [encode, henc1, henc2], ?_⟩
  intro ps hsub hcov
  have hpieces : ∀ p ∈ ps, PieceOf L m p.1 p.2 := by
    intro p hp
    obtain ⟨e, f, v, hge, hf, hmv, henc⟩ := hp2 p (hsub p hp)
    obtain ⟨c, hc, f', hf', hslot, hkind, hr, hvv⟩ :=
      opt_lookup L.fields m L.encOpt L.cases _ hw2 hv2 (p.1, e) hge v hmv
    simp only [hf] at hf'
    cases hf'
    exact ⟨c, hc, f, e, v, hf, hslot, hmv, hkind, hr, hvv, henc⟩
  obtain ⟨tr₂, hloop, hidx2, hcons2⟩ := decLoop_pieces L m hnd ps hpieces _ (Nat.le_refl _)
  simp only [decode, hdec1, hloop]
  congr 1
  apply assign_eq
  · simp [initMsg, hlen]
  · intro p hp
    simp at hp
    rcases hp with hp | hp
    · exact hcons1 p hp
    · exact hcons2 p hp
  · intro i hi
    by_cases hik : i < L.encMand.length
    · right
      simp only [List.map_append, List.mem_append]
      left
      rw [hidx1]
      simp [List.mem_range']
      omega
    · obtain ⟨⟨f, hf, hfp⟩, hmem⟩ := hptr i (by omega) (by omega)
      cases hmi : m[i]? with
      | none => rw [List.getElem?_eq_none_iff] at hmi; omega
      | some o =>
        cases o with
        | none => left; simp [initMsg_getElem?, hf, hfp]
        | some v =>
          right
          simp only [List.map_append, List.mem_append]
          right
          rw [hidx2]
          simp only [List.mem_map] at hmem
          obtain ⟨g, hg, hgi⟩ := hmem
          have := hcov2 g hg v (by rw [hgi]; exact hmi)
          simp only [List.mem_map] at this
          obtain ⟨p, hp, hpi⟩ := this
          have := hcov p hp
          rw [hpi, hgi] at this
          exact this

/-! ### nas.go: PlainNasEncode / PlainNasDecode -/

theorem lookup_mem {α β} [BEq α] [LawfulBEq α] : ∀ (l : List (α × β)) (a : α) (b : β), l.lookup a = some b → (a, b) ∈ l := by
  intro l
  induction l with
  | nil => intro a b h; simp [List.lookup] at h
  | cons p l ih =>
    intro a b h
    obtain ⟨x, y⟩ := p
    simp only [List.lookup] at h
    split at h
    · rename_i heq; simp at heq; cases h; simp [heq]
    · simp; right; exact ih a b h

theorem dispatchWF_layout (layouts : List Layout) (d : Dispatch) (h : dispatchWF layouts d = true)
    (t i : Nat) (hl : d.dec.lookup t = some i) :
    d.enc.lookup t = some i ∧ d.typeIdx < d.hdrLen ∧ 0 < d.typeIdx ∧ ∃ L, layouts[i]? = some L ∧ LayoutWF L := by
  simp only [dispatchWF, Bool.and_eq_true, decide_eq_true_eq, List.all_eq_true, beq_iff_eq] at h
  obtain ⟨⟨⟨⟨⟨⟨heq, hti⟩, hpos⟩, _⟩, _⟩, _⟩, hall⟩ := h
  have hm := lookup_mem d.dec t i hl
  have := hall (t, i) hm
  refine ⟨by rw [← heq]; exact hl, hti, hpos, ?_⟩
  simp at this
  cases hL : layouts[i]? with
  | none => simp [hL] at this
  | some L => simp [hL] at this; exact ⟨L, rfl, this.2.1⟩

theorem plainDecode_ok (C : Codec) (gsm : Bool) (d : Dispatch) (hd : d = if gsm then C.gsm else C.gmm)
    (hne : C.gmm.epd ≠ C.gsm.epd) (b : UInt8) (rest : Bytes) (he : b.toNat = d.epd)
    (hlen : d.hdrLen ≤ (b :: rest).length) (t : UInt8) (ht : ((b :: rest).take d.hdrLen)[d.typeIdx]? = some t)
    (i : Nat) (hl : d.dec.lookup t.toNat = some i) (L : Layout) (hL : C.layouts[i]? = some L)
    (m : Msg) (hm : decode L (b :: rest) = .ok m) :
    plainDecode C (b :: rest) = .ok { gsm := gsm, hdr := (b :: rest).take d.hdrLen, idx := i, body := m } := by
  have hread : (readN d.hdrLen (b :: rest)).1 = some ((b :: rest).take d.hdrLen) := by
    unfold readN; rw [if_pos hlen]
  cases gsm with
  | false =>
    simp only [Bool.false_eq_true, if_false] at hd
    subst hd
    simp only [plainDecode]
    rw [if_pos he]
    simp only [hread, ht, hl, hL, hm]
  | true =>
    simp only [if_true] at hd
    subst hd
    have : ¬ (b.toNat = C.gmm.epd) := by rw [he]; exact fun h => hne h.symm
    simp only [plainDecode]
    rw [if_neg this, if_pos he]
    simp only [hread, ht, hl, hL, hm]

theorem plain_roundtrip (C : Codec) (hC : CodecWF C) (pm : PlainMsg) (hp : PlainWF C pm) :
    (plainEncode C pm).bind (plainDecode C) = .ok pm := by
  simp only [CodecWF, codecWF, Bool.and_eq_true, bne_iff_ne, ne_eq] at hC
  obtain ⟨⟨⟨hgmm, hgsm⟩, hepd⟩, _⟩ := hC
  simp only [PlainWF, plainWF, Bool.and_eq_true] at hp
  obtain ⟨h1, h2⟩ := hp
  generalize hd : (if pm.gsm = true then C.gsm else C.gmm) = d at h1 h2
  have hdw : dispatchWF C.layouts d = true := by
    rw [← hd]; split <;> assumption
  cases he0 : pm.hdr[0]? with
  | none => simp [he0] at h1
  | some e =>
    cases ht0 : pm.hdr[d.typeIdx]? with
    | none => simp [he0, ht0] at h1
    | some t =>
      simp only [he0, ht0, Bool.and_eq_true, beq_iff_eq] at h1
      obtain ⟨hepd', hlk⟩ := h1
      obtain ⟨henc, hti, hpos, L, hL, hLwf⟩ := dispatchWF_layout C.layouts d hdw t.toNat pm.idx hlk
      simp only [hL, Bool.and_eq_true] at h2
      obtain ⟨hm, h3⟩ := h2
      obtain ⟨bs, hbs⟩ : ∃ bs, encode L pm.body = .ok bs := by
        cases h : encode L pm.body with
        | ok bs => exact ⟨bs, rfl⟩
        | error e => simp [h] at h3
      simp only [hbs, Bool.and_eq_true, decide_eq_true_eq, beq_iff_eq] at h3
      obtain ⟨hlen, hhdr⟩ := h3
      have hdec : decode L bs = .ok pm.body := by
        have := decode_pieces L pm.body hLwf hm
        obtain ⟨mand, _, henc', hdec'⟩ := this
        rw [hbs] at henc'
        cases henc'
        exact hdec' _ (fun _ h => h) (fun p hp => List.mem_map_of_mem hp)
      have hpe : plainEncode C pm = .ok bs := by
        simp only [plainEncode, hd, ht0, henc, hL, hbs]
        simp
      rw [hpe]
      show plainDecode C bs = .ok pm
      cases bs with
      | nil => simp at hlen; omega
      | cons b rest =>
        have hb : b = e := by
          rw [hhdr] at he0
          rw [List.getElem?_take] at he0
          simp [show 0 < d.hdrLen by omega] at he0
          exact he0
        subst hb
        rw [plainDecode_ok C pm.gsm d hd.symm hepd b rest hepd' hlen t (by rw [← hhdr]; exact ht0) pm.idx hlk L hL pm.body hdec]
        rw [← hhdr]

end Stgutg.Nas
