/-
  C01 helper: the emulator's reading of the specified DOWNLINK NAS TRANSPORT that carries the AUTHENTICATION REQUEST
  (Spec/AmfDownlink.lean): `GetNasPdu` hands the plain 5GMM octets to `PlainNasDecode`, which produces a message from which
  `RegisterUE` takes exactly the AUTN and RAND the specification encoder was given (C09: the TS 24.501 encoder and the code's
  decoder agree), and the first IE of the transport is the AMF-UE-NGAP-ID. Then the whole `DlReads` for `Spec.AmfDl.dl`.
-/
import Stgutg.Props.C09
import Stgutg.Spec.AmfDownlink
import Stgutg.Proofs.EmulatorReencode
import Stgutg.Proofs.EmulatorDownlink

namespace Stgutg.Proofs.EmulatorDownlink
open Stgutg Stgutg.Nas Stgutg.Spec.Ts24501 Stgutg.Gen.Nas Stgutg.Gen Stgutg.Model.Emulator

/-- the message `PlainNasDecode` produces for the Authentication Request -/
def mAR (ngKsi : Nat) (abba rand autn : Bytes) : Msg :=
  [some ⟨0, 0, [0x7E]⟩, some ⟨0, 0, [0x00]⟩, some ⟨0, 0, [0x56]⟩, some ⟨0, 0, [UInt8.ofNat ngKsi]⟩,
   some ⟨0, abba.length, abba⟩, some ⟨0x21, 0, rand⟩, some ⟨0x20, 16, autn⟩, none]

theorem mAR_wf (ngKsi : Nat) (abba rand autn : Bytes) (hab : 2 ≤ abba.length) (hab2 : abba.length < 256)
    (hr : rand.length = 16) (ha : autn.length = 16) : specWF layout_AuthenticationRequest (mAR ngKsi abba rand autn) = true := by
  simp [specWF, msgWF, mandValsOK, optValsOK, specValsOK, layout_AuthenticationRequest, mandValOK, optValOK, specValOK, lenFits,
    sh_ExtendedProtocolDiscriminator, sh_SpareHalfOctetAndSecurityHeaderType, sh_AuthenticationRequestMessageIdentity,
    sh_SpareHalfOctetAndNgksi, sh_ABBA, sh_AuthenticationParameterRAND, sh_AuthenticationParameterAUTN, sh_EAPMessage,
    Body.size, mAR, hr, ha, hab2, allZero]
  intro x hx
  rw [List.drop_eq_nil_of_le (by omega)] at hx
  cases hx

set_option maxRecDepth 100000 in
theorem ar_facts : Props.C09.skipOf layout_AuthenticationRequest = [] ∧ (Props.C09.wireOf layout_AuthenticationRequest).isSome = true ∧
    (Props.C09.wireOf layout_AuthenticationRequest).map (·.mand.take 3) = some [.v 1, .v 1, .v 1] := by decide +kernel

theorem ar_toSpec (w : Wire) (hw : Props.C09.wireOf layout_AuthenticationRequest = some w) (ngKsi : Nat) (abba rand autn : Bytes)
    (hr : rand.length = 16) (ha : autn.length = 16) :
    toSpec layout_AuthenticationRequest w (mAR ngKsi abba rand autn) = Spec.AmfDl.authenticationRequest ngKsi abba rand autn := by
  have hopt : w.opt = ((Props.C09.wireOf layout_AuthenticationRequest).map (·.opt)).getD [] := by rw [hw]; rfl
  simp [toSpec, layout_AuthenticationRequest, mandToSpec, optToSpec, mAR, Spec.AmfDl.authenticationRequest]
  refine ⟨?_, by rw [← ha, List.take_length]⟩
  have hf : w.opt.find? (fun x => x.iei == 33) = some ⟨0x21, .tv 16, 16, some 16⟩ := by
    have : ((Props.C09.wireOf layout_AuthenticationRequest).map fun x => x.opt.find? (fun x => x.iei == 33))
        = some (some ⟨0x21, .tv 16, 16, some 16⟩) := by decide +kernel
    rw [hw] at this
    simpa using this
  rw [hf]
  simp only
  rw [← hr, List.take_length]

/-- index of AUTHENTICATION REQUEST in the generated layout list (re-checked by `rfl` on every build) -/
def iAr : Nat := 2

set_option maxRecDepth 1000000 in
theorem ar_dispatch : Gen.Nas.dispatchGmm.dec.lookup 0x56 = some iAr ∧ Gen.Nas.layouts[iAr]? = some layout_AuthenticationRequest ∧
    Gen.Nas.dispatchGmm.typeIdx = 2 ∧ Gen.Nas.dispatchGmm.hdrLen = 3 ∧ Gen.Nas.dispatchGmm.epd = 0x7E :=
  ⟨by decide +kernel, rfl, by decide +kernel, by decide +kernel, by decide +kernel⟩

theorem table_authenticationRequest : tableByName "AuthenticationRequest" = some Spec.Ts24501.authenticationRequest := by rfl

/-- **the emulator reads the specified AUTHENTICATION REQUEST**: the octets the TS 24.501 encoder produces for (ngKSI, ABBA, RAND,
    AUTN) are plain 5GMM octets that `PlainNasDecode` reads as a message from which `RegisterUE` takes exactly this AUTN and RAND -/
theorem ar_decodes (ngKsi : Nat) (abba rand autn : Bytes) (hab2 : abba.length < 256) (hab : 2 ≤ abba.length)
    (hr : rand.length = 16) (ha : autn.length = 16) (ar : Bytes)
    (h : Spec.AmfDl.nas Spec.Ts24501.authenticationRequest (Spec.AmfDl.authenticationRequest ngKsi abba rand autn) = some ar) :
    ∃ pm r, Nas.plainDecode nasCodec ar = .ok pm ∧ authParams (some pm) = some (autn, rand) ∧ ar = 0x7E :: 0x00 :: 0x56 :: r := by
  obtain ⟨hsk, _, hhead⟩ := ar_facts
  obtain ⟨hdis, hlay, hti, hhl, hepd⟩ := ar_dispatch
  obtain ⟨w, bs, hw, _, hparse, hspec, hdec⟩ := Props.C09.C09_consequences layout_AuthenticationRequest (by simp [Gen.Nas.layouts])
    (by decide +kernel) (mAR ngKsi abba rand autn) (mAR_wf ngKsi abba rand autn hab hab2 hr ha) (by rw [hsk]; rfl)
  rw [ar_toSpec w hw ngKsi abba rand autn hr ha] at hparse hspec
  have hw' : Spec.Ts24501.authenticationRequest.wire = some w := by
    unfold Props.C09.wireOf at hw
    have : layout_AuthenticationRequest.name = "AuthenticationRequest" := rfl
    rw [this, table_authenticationRequest] at hw
    exact hw
  have har : ar = bs := by
    unfold Spec.AmfDl.nas at h
    rw [hw'] at h
    simp only [Option.bind_some] at h
    rw [hspec] at h
    exact (Option.some.inj h).symm
  subst har
  have hhead' : w.mand.take 3 = [.v 1, .v 1, .v 1] := by
    rw [hw] at hhead; simpa using hhead
  obtain ⟨r, hbs⟩ := Proofs.EmulatorReencode.parse_header_cons w ar _ hhead' hparse 0x7E 0x00 0x56 _ rfl
  refine ⟨{ gsm := false, hdr := [0x7E, 0x00, 0x56], idx := iAr, body := mAR ngKsi abba rand autn }, r, ?_, ?_, hbs⟩
  · rw [hbs] at hdec ⊢
    simp [Nas.plainDecode, nasCodec, hepd, hhl, hti, hdis, hlay, hdec, readN]
  · simp [authParams, hdis, mAR, idx_AuthenticationRequest_AuthenticationParameterAUTN,
      idx_AuthenticationRequest_AuthenticationParameterRAND]
    exact ⟨by rw [← ha, List.take_length], by rw [← hr, List.take_length]⟩

open Stgutg.Aper in
/-- the DOWNLINK NAS TRANSPORT message value inside the PDU -/
def dntMsg (amf ran : Int) (nas : Bytes) : Aper.Val :=
  .struct [.struct [.slice [
    Spec.AmfDl.ieV 10 Spec.AmfDl.reject 9 1 (.struct [.int amf]),
    Spec.AmfDl.ieV 85 Spec.AmfDl.reject 9 2 (.struct [.int ran]),
    Spec.AmfDl.ieV 38 Spec.AmfDl.reject 9 5 (.struct [.octs nas])]]]

theorem dnt_alt (amf ran : Int) (nas : Bytes) :
    initiatingAlt altDownlinkNASTransport (Spec.AmfDl.downlinkNasTransport amf ran nas) = some (some (dntMsg amf ran nas)) := rfl

theorem dnt_amf (amf ran : Int) (nas : Bytes) :
    ((ieList (dntMsg amf ran nas)).bind (·[0]?) |>.bind (ieAlt altDnAMFUENGAPID) |>.bind deref |>.bind (field 0)) = some (.int amf) := rfl

theorem dnt_getNasPdu (P : Prims) (ue : Ue) (amf ran : Int) (r : Bytes) (pm : Nas.PlainMsg)
    (hpd : Nas.plainDecode nasCodec (0x7E :: 0x00 :: 0x56 :: r) = .ok pm) (w : World) :
    getNasPdu P ue (dntMsg amf ran (0x7E :: 0x00 :: 0x56 :: r)) w = (w, .ok (ue, some pm)) := by
  have hl : ieList (dntMsg amf ran (0x7E :: 0x00 :: 0x56 :: r)) = some [
      Spec.AmfDl.ieV 10 Spec.AmfDl.reject 9 1 (.struct [.int amf]),
      Spec.AmfDl.ieV 85 Spec.AmfDl.reject 9 2 (.struct [.int ran]),
      Spec.AmfDl.ieV 38 Spec.AmfDl.reject 9 5 (.struct [.octs (0x7E :: 0x00 :: 0x56 :: r)])] := rfl
  unfold getNasPdu
  rw [hl]
  simp [Spec.AmfDl.ieV, Spec.AmfDl.choiceV, ieId, ieAlt, field, deref, altDnNASPDU, Model.NasProtect.getNasPdu,
    Model.NasProtect.getNasPduWith, Model.NasProtect.nasDecode, Model.NasProtect.nasDecodeCore, Model.NasProtect.nilOnError,
    Model.NasProtect.handToPlainDecode, hpd]
  rfl

/-- what `Spec.AmfDl.dl … = some dls` says, component by component -/
theorem dl_some (P : Prims) (cfg : Spec.Amf.Cfg) (j : Nat) (ch : Spec.Amf.Choice) (ran : Int) (cap : Bytes) (dls : List Bytes)
    (h : Spec.AmfDl.dl P cfg j ch ran cap = some dls) :
    ∃ plmn aka autn ar n3 n4 n5 d1 d2 d3 d4 d5,
      Spec.Amf.plmnOf cfg = some plmn ∧ Spec.Amf.vector P cfg j ch = some aka ∧ Spec.Amf.autnOf P cfg ch = some autn ∧
      Spec.AmfDl.ngap (Spec.AmfDl.ngSetupResponse plmn) = some d1 ∧
      Spec.AmfDl.nas Spec.Ts24501.authenticationRequest (Spec.AmfDl.authenticationRequest ch.ngKsi cfg.abba ch.rand autn) = some ar ∧
      Spec.AmfDl.ngap (Spec.AmfDl.downlinkNasTransport ch.amfUeNgapId ran ar) = some d2 ∧
      Spec.AmfDl.ngap (Spec.AmfDl.downlinkNasTransport ch.amfUeNgapId ran n3) = some d3 ∧
      Spec.AmfDl.ngap (Spec.AmfDl.initialContextSetupRequest ch.amfUeNgapId ran plmn (Spec.AmfDl.kgnb P aka.kamf) n4) = some d4 ∧
      Spec.AmfDl.ngap (Spec.AmfDl.downlinkNasTransport ch.amfUeNgapId ran n5) = some d5 ∧
      dls = [d1, d2, d3, d4, d5] := by
  unfold Spec.AmfDl.dl at h
  simp only [Option.bind_eq_bind, Option.bind_eq_some_iff] at h
  obtain ⟨plmn, h1, aka, h2, autn, h3, d1, h4, ar, h5, d2, h6, pn, _, d3, h8, d4, h9, d5, h10, h11⟩ := h
  exact ⟨plmn, aka, autn, ar, pn.1, pn.2.1, pn.2.2, d1, d2, d3, d4, d5, h1, h2, h3, h4, h5, h6, h8, h9, h10,
    (Option.some.inj h11).symm⟩

end Stgutg.Proofs.EmulatorDownlink
