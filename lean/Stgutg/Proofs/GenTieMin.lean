import Stgutg.Gen.PureMin
import Stgutg.Model.Config
import Stgutg.Model.FailStop
/-!
  Tie by translation (C02): `Gen/PureMin.lean` is regenerated from src/stgutg/utils.go `Min` on every run by
  `gen pure-min`; the translated function IS `Model.Config.goMin` (the cascade `main` takes the procedure
  counts through).
-/
namespace Stgutg.Proofs.GenTie.Min
open Stgutg

/-- **Tie.** (The proof is by cases and arithmetic, so a rewrite of `Min` that computes the same function, e.g. `x >= y`,
    still checks; one that does not, fails.) The translated `Min` is the hand model used by the emulator / fail-stop models (C01, C02, C19). -/
theorem Min_eq : Gen.Pure.Min.Min = Model.FailStop.goMin := by
  funext x y
  unfold Gen.Pure.Min.Min Model.FailStop.goMin
  split <;> split <;> simp_all <;> omega

/-- … and the copy the configuration model (C18) uses. -/
theorem Min_eq_config : Gen.Pure.Min.Min = Model.Config.goMin := by
  funext x y
  unfold Gen.Pure.Min.Min Model.Config.goMin
  split <;> split <;> simp_all <;> omega

end Stgutg.Proofs.GenTie.Min
