/-
  C14 (cost): the cost table of a schema and the bound predicates.

  `costTab ws wa env` computes, in ONE pass over the (topologically ordered) schema and without random access into it
  (so the kernel can decide it), for every struct type an entry `(q, p, s, d)` such that, for the weighted cost
  `ws·steps + wa·alloc` of decoding a value of that type from a reader with `L` bits left:
      success, `c` bits consumed :  cost ≤ q + p·c
      any outcome                :  cost ≤ q + p·L + s
      d = true                   :  a successful decode consumes at least one bit
  `s` sums, along the deepest nesting of SEQUENCE OF types, the largest element count the count field can announce
  (`sliceMax`): only the lists on the current path can be over-claimed, a list that completes has at most as many
  elements as bits it consumed (every element type must have `d = true`, otherwise the table is refused).
-/
import Stgutg.Model.AperDecCost

namespace Stgutg.Proofs.AperCost
open Stgutg Stgutg.Aper

structure CEntry where
  q : Nat
  p : Nat
  s : Nat
  d : Bool
  deriving Repr, DecidableEq, Inhabited

/-- the lower bound `parseSequenceOf` uses -/
def sliceLBc (p : Params) : Int :=
  match p.sizeLB with
  | some l => if l < 65536 then l else 0
  | none => 0

/-- the size range `sliceCount` computes when no extension bit is set (−1: general length determinant) -/
def sliceSR (p : Params) : Int :=
  match p.sizeUB with
  | some u => if u < 65536 then u - sliceLBc p + 1 else -1
  | none => -1

/-- largest value `parseConstraintValue range` can return -/
def cvMax (range : Int) : Nat :=
  if range ≤ 255 then 2 ^ (bitsForRange range) - 1 else if range = 256 then 255 else 65535

/-- largest element count `sliceCount` can return: constrained count (the value read is NOT checked against the
    range: up to 2^width − 1, plus lb), fixed count, or a general length determinant (< 16384; fragments refused) -/
def sliceMax (p : Params) : Nat :=
  let c : Nat :=
    if sliceSR p > 1 then cvMax (sliceSR p) + (sliceLBc p).toNat
    else if sliceSR p = 1 then (sliceLBc p).toNat
    else 16383
  max c 16383

def lookupE (j : Nat) : List (Nat × CEntry) → Option CEntry
  | [] => none
  | (k, e) :: rest => if k == j then some e else lookupE j rest

/-- cost entry of a component of type `ty` decoded with parameters `p` (`none`: not covered) -/
def tyCost (ws wa : Nat) (tab : List (Nat × CEntry)) : Ty → Params → Option CEntry
  | .ptr t, p =>
    match tyCost ws wa tab t p with
    | none => none
    | some e => some { e with q := ws + e.q }
  | .slice t, p =>
    match tyCost ws wa tab t (stripSizeE p) with
    | none => none
    | some e =>
      if e.d then some { q := ws + e.q, p := e.q + e.p + wa, s := e.s + wa * sliceMax p, d := p.sizeExt }
      else none
  | .struct j, p =>
    match lookupE j tab with
    | none => none
    | some e => some { q := ws + e.q, p := if p.openType then e.p + wa else e.p, s := e.s,
                       d := p.valueExt || (!p.openType && e.d) }
  | .int, p => some { q := ws, p := wa, s := 0, d := p.valueExt || p.sizeExt ||
      (match p.valueLB, p.valueUB with | some lb, some ub => decide (lb ≠ ub) | _, _ => true) }
  | .enum, p => some { q := ws, p := wa, s := 0, d := p.valueExt || p.sizeExt ||
      (match p.valueLB, p.valueUB with | some lb, some ub => decide (lb < ub) | _, _ => true) }
  | .bool, _ => some { q := ws, p := wa, s := 0, d := true }
  | .oid, _ => some { q := ws, p := wa, s := 0, d := true }
  | .bits, p => some { q := ws, p := wa, s := 0, d := p.valueExt || p.sizeExt ||
      (match p.sizeLB, p.sizeUB with | some lb, some ub => decide (lb = ub) && decide (ub ≤ 65535) | _, _ => false) }
  | .octs, p => some { q := ws, p := wa, s := 0, d := p.valueExt || p.sizeExt ||
      (match p.sizeLB, p.sizeUB with | some lb, some ub => decide (lb = ub) && decide (ub ≤ 65535) | _, _ => false) }
  | .str, p => some { q := ws, p := wa, s := 0, d := p.valueExt || p.sizeExt ||
      (match p.sizeLB, p.sizeUB with | some lb, some ub => decide (lb = ub) && decide (ub ≤ 65535) | _, _ => false) }

/-- (q, p, s) of a field list: q adds up for a SEQUENCE, is the maximum for a CHOICE -/
def fieldsCost (ws wa : Nat) (tab : List (Nat × CEntry)) (choice : Bool) : List Field → Option (Nat × Nat × Nat)
  | [] => some (0, 0, 0)
  | f :: rest =>
    match tyCost ws wa tab f.ty f.params, fieldsCost ws wa tab choice rest with
    | some e, some (q, p, s) => some (if choice then max e.q q else e.q + q, max e.p p, max e.s s)
    | _, _ => none

def structCost (ws wa : Nat) (tab : List (Nat × CEntry)) (sd : StructDef) : Option CEntry :=
  match fieldsCost ws wa tab (isChoice sd) sd.fields with
  | none => none
  | some (q, p, s) =>
    some { q := q, p := p, s := s,
           d := isChoice sd || sd.fields.any (fun f => f.params.optional) ||
                match sd.fields with
                | f0 :: _ => (match tyCost ws wa tab f0.ty f0.params with | some e => e.d | none => false)
                | [] => false }

def costTabFrom (ws wa : Nat) : Nat → List StructDef → List (Nat × CEntry) → Option (List (Nat × CEntry))
  | _, [], acc => some acc
  | id, sd :: rest, acc =>
    match structCost ws wa acc sd with
    | none => none
    | some e => costTabFrom ws wa (id + 1) rest ((id, e) :: acc)

def costTab (ws wa : Nat) (env : Env) : Option (List (Nat × CEntry)) := costTabFrom ws wa 0 env []

/-- the entry of a top-level type -/
def topCost (ws wa : Nat) (env : Env) (ty : Ty) (p : Params) : Option CEntry :=
  match costTab ws wa env with
  | none => none
  | some tab => tyCost ws wa tab ty p

/-- componentwise maxima of the table: a bound for every struct type of the schema decoded on its own -/
def tabMax : List (Nat × CEntry) → Nat × Nat × Nat
  | [] => (0, 0, 0)
  | (_, e) :: rest => (max e.q (tabMax rest).1, max e.p (tabMax rest).2.1, max e.s (tabMax rest).2.2)

/-- entry of the top-level type together with the maxima over all struct types (one pass) -/
def costSummary (ws wa : Nat) (env : Env) (ty : Ty) (p : Params) : Option (CEntry × Nat × Nat × Nat) :=
  match costTab ws wa env with
  | none => none
  | some tab =>
    match tyCost ws wa tab ty p with
    | none => none
    | some e => some (e, tabMax tab)

/-! ### bound predicates -/

/-- weighted cost -/
def cst (ws wa : Nat) (c : Cost) : Nat := ws * c.steps + wa * c.alloc

/-- success consuming `c` bits costs at most `q + p·c`; any outcome costs at most `q + p·L + s` -/
def Bnd {α : Type} (ws wa q p s : Nat) (m : DC α) : Prop :=
  ∀ r, (∀ a r', (m r).1 = .ok (a, r') → ∃ c, r.len = r'.len + c ∧ cst ws wa (m r).2 ≤ q + p * c) ∧
    cst ws wa (m r).2 ≤ q + p * r.len + s

/-- a successful run consumes at least one bit -/
def Strict {α : Type} (m : DC α) : Prop := ∀ r a r', (m r).1 = .ok (a, r') → r'.len < r.len

def MonoC {α : Type} (m : DC α) : Prop := ∀ r a r', (m r).1 = .ok (a, r') → r'.len ≤ r.len

def MonoD {α : Type} (m : D α) : Prop := ∀ r a r', m r = .ok (a, r') → r'.len ≤ r.len
def StrictD {α : Type} (m : D α) : Prop := ∀ r a r', m r = .ok (a, r') → r'.len < r.len

end Stgutg.Proofs.AperCost
