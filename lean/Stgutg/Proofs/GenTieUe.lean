import Stgutg.Gen.PureUe
import Stgutg.Model.UeIdentity
/-!
  Tie by translation (C16): `Gen/PureUe.lean` is regenerated from src/stgutg/ue.go `CreateUE` on every run by
  `gen pure-ue`. The translator covers the arithmetic part of the function — the statements before
  `ue := tglib.NewRanUeContext(…)`, i.e. how RAN-UE-NGAP-ID and SUPI are computed from the IMSI and the UE number —
  and pins the rest of the body (three statements that hand those two values to the constructors) and the signature
  as text. `strconv.Atoi` and the `%0*d` verb of `fmt.Sprintf` are standard-library calls: the translated function
  takes them as parameters (`Go.Ext`), instantiated here with the hand models of `Model/UeIdentity.lean`.
-/
namespace Stgutg.Proofs.GenTie.Ue
open Stgutg Stgutg.Gen
open Stgutg.Model.UeIdentity

/-- the standard-library calls of `CreateUE`, as the hand model has them (`hexDecode`, `fmtD` are not called) -/
def ext : Go.Ext :=
  { atoi := atoi, hexDecode := fun _ => ([], true), fmtD := fun _ => [], fmtD0Star := fun w v => fmtPad0 w.toNat v }

/-- **Tie (arithmetic).** RAN-UE-NGAP-ID and SUPI of the hand model are the translated Go expressions. -/
theorem CreateUE_ids (imsi : Bytes) (ueNumber : Int) (k opc op : Bytes) :
    Pure.Ue.CreateUE ext imsi ueNumber k opc op
      = ((createUE imsi ueNumber k opc op).ranUeNgapId, (createUE imsi ueNumber k opc op).supi) := by
  simp [Pure.Ue.CreateUE, createUE, ext, setAuthSubscription, newRanUeContext, Go.imodc, Go.iadd, Go.wrapInt, wrap64,
    Go.len, imsiPrefix]

/-- **Tie (whole function).** The hand model is: the translated prefix, then the pinned tail
    `NewRanUeContext(supi, int64(ranUeNgapId), NEA0, NIA2)`, `AuthenticationSubs = GetAuthSubscription(K, OPC, OP)`. -/
theorem CreateUE_eq (imsi : Bytes) (ueNumber : Int) (k opc op : Bytes) :
    createUE imsi ueNumber k opc op =
      setAuthSubscription
        (newRanUeContext (Pure.Ue.CreateUE ext imsi ueNumber k opc op).2 (Pure.Ue.CreateUE ext imsi ueNumber k opc op).1
          algCiphering128NEA0 algIntegrity128NIA2) k opc op := by
  rw [CreateUE_ids]; rfl

/-- **Pin.** The statements after the translated prefix, the signature, and the values of the two algorithm constants
    those statements name are what the hand model (`newRanUeContext`, `setAuthSubscription`, `algCiphering128NEA0`,
    `algIntegrity128NIA2`) was written against. -/
theorem CreateUE_tail :
    Pure.Ue.CreateUE.tail =
      ["ue := tglib.NewRanUeContext(supi, int64(ranUeNgapId), security.AlgCiphering128NEA0, security.AlgIntegrity128NIA2)",
       "ue.AuthenticationSubs = tglib.GetAuthSubscription(K, OPC, OP)",
       "return ue"] ∧
    Pure.Ue.CreateUE.signature = "func(imsi string, ueNumber int, K string, OPC string, OP string) *tglib.RanUeContext" ∧
    Pure.Ue.CreateUE.tailConsts =
      [("security.AlgCiphering128NEA0", (algCiphering128NEA0.toNat : Int)), ("security.AlgIntegrity128NIA2", (algIntegrity128NIA2.toNat : Int))] := by
  refine ⟨by decide, by decide, by decide⟩

/-- non-trivial instance: IMSI 208930000000003, UE number 7 -/
example : Pure.Ue.CreateUE ext [50, 48, 56, 57, 51, 48, 48, 48, 48, 48, 48, 48, 48, 48, 51] 7 [] [] []
    = (10, [105, 109, 115, 105, 45, 50, 48, 56, 57, 51, 48, 48, 48, 48, 48, 48, 48, 48, 49, 48]) := by decide

end Stgutg.Proofs.GenTie.Ue
