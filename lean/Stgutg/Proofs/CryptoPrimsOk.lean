/-
  The executable AES-128 CTR / CMAC of the comparator (Crypto/Aes.lean) satisfies the hypotheses C06/C10 put on the
  external primitives (`PrimsOk`): the hypotheses are not only satisfiable by a toy instance.
-/
import Stgutg.Proofs.NasProtect
import Stgutg.Crypto.Prims
namespace Stgutg.Proofs.NasProtect
open Stgutg Stgutg.Crypto

theorem nextKey_length (k : Bytes) (rc : UInt8) : (nextKey k rc).length = 16 := by
  simp [nextKey]

theorem aes128_length (key blk : Bytes) : (aes128 key blk).length = 16 := by
  simp [aes128, roundKeys, rcon, List.foldl, xorBytes, subShift, nextKey_length]


theorem ctrStream_length (key : Bytes) (fuel : Nat) (ctr : Bytes) (n : Nat) (h : n ≤ 16 * fuel) :
    (ctrStream aes128 key fuel ctr n).length = n := by
  induction fuel generalizing ctr n with
  | zero => have : n = 0 := by omega
            subst this; rfl
  | succ f ih =>
    unfold ctrStream
    by_cases hn : n = 0
    · simp [hn]
    · simp only [hn, if_false, List.length_append, List.length_take, aes128_length]
      rw [ih _ (n - 16) (by omega)]; omega

/-- the executable primitives of the comparator satisfy `PrimsOk`: SP 800-38A CTR is a keystream cipher and
    the AES-CMAC tag has 16 octets -/
theorem cryptoPrims_ok : PrimsOk Crypto.prims :=
  ⟨⟨fun k iv n => ctrStream aes128 k (n / 16 + 1) iv n,
    fun k iv n => ctrStream_length k _ iv n (by omega),
    fun _ _ _ => rfl⟩,
   fun k m => by
     show 4 ≤ (cmacMode aes128 k m).length
     unfold cmacMode
     simp only [aes128_length]
     omega⟩

end Stgutg.Proofs.NasProtect
