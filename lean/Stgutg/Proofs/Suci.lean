/-
  Helper lemmas for Props/C11.lean (SUCI and PLMN encodings).
-/
import Stgutg.Model.Suci
import Stgutg.Model.Convert
import Stgutg.Spec.Ts24501Identity
open Stgutg

namespace Stgutg.Proofs.Suci
open Model.Suci Spec.Identity

def asc (ds : List Nat) : Bytes := ds.map fun d => UInt8.ofNat (48 + d)

theorem pack_fin : ∀ a b : Fin 10, pack (UInt8.ofNat (48 + a.val)) (UInt8.ofNat (48 + b.val)) = octet a.val b.val := by decide
theorem packF_fin : ∀ a : Fin 10, ((0xf : UInt8) <<< 4) ||| hexCharToByte (UInt8.ofNat (48 + a.val)) = octet 15 a.val := by decide
theorem lo_hi_fin : ∀ h l : Fin 16, lo (octet h.val l.val) = l.val ∧ hi (octet h.val l.val) = h.val := by decide

theorem pack_digit {a b : Nat} (ha : a < 10) (hb : b < 10) :
    pack (UInt8.ofNat (48 + a)) (UInt8.ofNat (48 + b)) = octet a b := pack_fin ⟨a, ha⟩ ⟨b, hb⟩
theorem packF_digit {a : Nat} (ha : a < 10) :
    ((0xf : UInt8) <<< 4) ||| hexCharToByte (UInt8.ofNat (48 + a)) = octet 15 a := packF_fin ⟨a, ha⟩
theorem lo_octet {h l : Nat} (hh : h < 16) (hl : l < 16) : lo (octet h l) = l := (lo_hi_fin ⟨h, hh⟩ ⟨l, hl⟩).1
theorem hi_octet {h l : Nat} (hh : h < 16) (hl : l < 16) : hi (octet h l) = h := (lo_hi_fin ⟨h, hh⟩ ⟨l, hl⟩).2

/-- the MSIN loop of the code is the BCD packing of the figure -/
theorem packMsin_asc : ∀ (ms : List Nat), (∀ d ∈ ms, d < 10) → packMsin (asc ms) = bcdEncode ms
  | [], _ => rfl
  | [a], h => by
    have ha : a < 10 := h a (by simp)
    show [((0xf : UInt8) <<< 4) ||| hexCharToByte (UInt8.ofNat (48 + a))] = [octet 15 a]
    rw [packF_digit ha]
  | a :: b :: rest, h => by
    have ha : a < 10 := h a (by simp)
    have hb : b < 10 := h b (by simp)
    have ih := packMsin_asc rest (fun d hd => h d (by simp [hd]))
    simp only [asc, List.map_cons, packMsin, bcdEncode] at ih ⊢
    rw [pack_digit hb ha, ih]

/-- the independent BCD reader recovers the digits -/
theorem bcdDecode_encode : ∀ (ms : List Nat), (∀ d ∈ ms, d < 10) → bcdDecode (bcdEncode ms) = some ms
  | [], _ => rfl
  | [a], h => by
    have ha : a < 10 := h a (by simp)
    simp [bcdEncode, bcdDecode, lo_octet (by omega : 15 < 16) (by omega : a < 16), hi_octet (by omega : 15 < 16) (by omega : a < 16), ha]
  | [a, b], h => by
    have ha : a < 10 := h a (by simp)
    have hb : b < 10 := h b (by simp)
    have hb' : b ≠ 15 := by omega
    simp [bcdEncode, bcdDecode, lo_octet (by omega : b < 16) (by omega : a < 16), hi_octet (by omega : b < 16) (by omega : a < 16), ha, hb, hb']
  | a :: b :: c :: rest, h => by
    have ha : a < 10 := h a (by simp)
    have hb : b < 10 := h b (by simp)
    have ih := bcdDecode_encode (c :: rest) (fun d hd => h d (List.mem_cons_of_mem _ (List.mem_cons_of_mem _ hd)))
    have hne : bcdEncode (c :: rest) ≠ [] := by cases rest <;> simp [bcdEncode]
    show bcdDecode (octet b a :: bcdEncode (c :: rest)) = _
    obtain ⟨x, xs, hx⟩ := List.exists_cons_of_ne_nil hne
    rw [hx] at ih ⊢
    simp only [bcdDecode, lo_octet (by omega : b < 16) (by omega : a < 16), hi_octet (by omega : b < 16) (by omega : a < 16)]
    simp [ha, hb, ih]


theorem asc_append (a b : List Nat) : asc (a ++ b) = asc a ++ asc b := List.map_append ..

/-- the buffer the code builds for a 2-digit MNC, in the vocabulary of the figure -/
theorem encodeSuci_mnc2 {c1 c2 c3 n1 n2 : Nat} (msin : List Nat)
    (h : ∀ d ∈ [c1, c2, c3, n1, n2] ++ msin, d < 10) :
    Model.Suci.encodeSuci (asc ([c1, c2, c3] ++ [n1, n2] ++ msin)) 2 =
      .ok ([0x01, octet c2 c1, octet 15 c3, octet n2 n1, 0xf0, 0xff, 0x00, 0x00] ++ bcdEncode msin) := by
  have hc1 : c1 < 10 := h c1 (by simp)
  have hc2 : c2 < 10 := h c2 (by simp)
  have hc3 : c3 < 10 := h c3 (by simp)
  have hn1 : n1 < 10 := h n1 (by simp)
  have hn2 : n2 < 10 := h n2 (by simp)
  have hm : ∀ d ∈ msin, d < 10 := fun d hd => h d (by simp [hd])
  show Model.Suci.encodeSuci (UInt8.ofNat (48 + c1) :: UInt8.ofNat (48 + c2) :: UInt8.ofNat (48 + c3) :: UInt8.ofNat (48 + n1)
      :: UInt8.ofNat (48 + n2) :: asc msin) 2 = _
  unfold Model.Suci.encodeSuci
  dsimp only
  rw [if_neg (by decide)]
  show Except.ok ([0x01, pack _ _, _, pack _ _, 0xf0, 0xff, 0x00, 0x00] ++ packMsin (asc msin)) = _
  rw [pack_digit hc2 hc1, packF_digit hc3, pack_digit hn2 hn1, packMsin_asc msin hm]

theorem encodeSuci_mnc3 {c1 c2 c3 n1 n2 n3 : Nat} (msin : List Nat)
    (h : ∀ d ∈ [c1, c2, c3, n1, n2, n3] ++ msin, d < 10) :
    Model.Suci.encodeSuci (asc ([c1, c2, c3] ++ [n1, n2, n3] ++ msin)) 3 =
      .ok ([0x01, octet c2 c1, octet n3 c3, octet n2 n1, 0xf0, 0xff, 0x00, 0x00] ++ bcdEncode msin) := by
  have hc1 : c1 < 10 := h c1 (by simp)
  have hc2 : c2 < 10 := h c2 (by simp)
  have hc3 : c3 < 10 := h c3 (by simp)
  have hn1 : n1 < 10 := h n1 (by simp)
  have hn2 : n2 < 10 := h n2 (by simp)
  have hn3 : n3 < 10 := h n3 (by simp)
  have hm : ∀ d ∈ msin, d < 10 := fun d hd => h d (by simp [hd])
  show Model.Suci.encodeSuci (UInt8.ofNat (48 + c1) :: UInt8.ofNat (48 + c2) :: UInt8.ofNat (48 + c3) :: UInt8.ofNat (48 + n1)
      :: UInt8.ofNat (48 + n2) :: UInt8.ofNat (48 + n3) :: asc msin) 3 = _
  unfold Model.Suci.encodeSuci
  dsimp only
  rw [if_pos (by decide)]
  show Except.ok ([0x01, pack _ _, pack _ _, pack _ _, 0xf0, 0xff, 0x00, 0x00] ++ packMsin (asc msin)) = _
  rw [pack_digit hc2 hc1, pack_digit hn3 hc3, pack_digit hn2 hn1, packMsin_asc msin hm]

/-- the independent reader of the three PLMN octets inverts `plmn3` -/
theorem plmn3Decode_plmn3 (mcc mnc : List Nat) (p : Bytes) (h : plmn3 mcc mnc = some p) :
    plmn3Decode p = some (mcc, mnc) := by
  unfold plmn3 at h
  split at h
  · next c1 c2 c3 n1 n2 =>
    split at h
    · next hd =>
      injection h with h; subst h
      simp [allDigits, isDigit] at hd
      obtain ⟨⟨h1, h2, h3⟩, h4, h5⟩ := hd
      simp [plmn3Decode, allDigits, isDigit, lo_octet (by omega : c2 < 16) (by omega : c1 < 16),
        hi_octet (by omega : c2 < 16) (by omega : c1 < 16), lo_octet (by omega : 15 < 16) (by omega : c3 < 16),
        hi_octet (by omega : 15 < 16) (by omega : c3 < 16), lo_octet (by omega : n2 < 16) (by omega : n1 < 16),
        hi_octet (by omega : n2 < 16) (by omega : n1 < 16), h1, h2, h3, h4, h5]
    · cases h
  · next c1 c2 c3 n1 n2 n3 =>
    split at h
    · next hd =>
      injection h with h; subst h
      simp [allDigits, isDigit] at hd
      obtain ⟨⟨h1, h2, h3⟩, h4, h5, h6⟩ := hd
      have h6' : n3 ≠ 15 := by omega
      simp [plmn3Decode, allDigits, isDigit, lo_octet (by omega : c2 < 16) (by omega : c1 < 16),
        hi_octet (by omega : c2 < 16) (by omega : c1 < 16), lo_octet (by omega : n3 < 16) (by omega : c3 < 16),
        hi_octet (by omega : n3 < 16) (by omega : c3 < 16), lo_octet (by omega : n2 < 16) (by omega : n1 < 16),
        hi_octet (by omega : n2 < 16) (by omega : n1 < 16), h1, h2, h3, h4, h5, h6, h6']
    · cases h
  · cases h


theorem routing_default : routingDecode 0xf0 0xff = some [0] := by decide

/-- reading a buffer of the shape the emulator builds -/
theorem decodeSuci_shape (o5 o6 o7 : UInt8) (out : Bytes) (mcc mnc msin : List Nat)
    (hp : plmn3Decode [o5, o6, o7] = some (mcc, mnc)) (hm : bcdDecode out = some msin) (hne : msin ≠ []) :
    decodeSuci ([0x01, o5, o6, o7, 0xf0, 0xff, 0x00, 0x00] ++ out) = some (nullSchemeSuci mcc mnc msin) := by
  show decodeSuci (0x01 :: o5 :: o6 :: o7 :: 0xf0 :: 0xff :: 0x00 :: 0x00 :: out) = _
  unfold decodeSuci
  dsimp only
  rw [if_neg (by decide), hp, routing_default, hm]
  dsimp only
  have h0 : (hi (0 : UInt8) = 0 && lo (0 : UInt8) = 0) = true := by decide
  have h1 : (!msin.isEmpty) = true := by cases msin <;> simp_all
  rw [h0, h1]
  simp [nullSchemeSuci]
  decide


/-! ### the "imsi-" prefix -/

theorem digit_ne_i : ∀ d : Fin 10, UInt8.ofNat (48 + d.val) ≠ 105 := by decide

theorem trim_digits (c : Nat) (rest : Bytes) (hc : c < 10) :
    trimImsiPrefix (UInt8.ofNat (48 + c) :: rest) = UInt8.ofNat (48 + c) :: rest := by
  unfold trimImsiPrefix
  split
  · next h =>
    injection h with h _
    exact absurd h (digit_ne_i ⟨c, hc⟩)
  · rfl

theorem trim_prefix (rest : Bytes) : trimImsiPrefix ([105, 109, 115, 105, 45] ++ rest) = rest := rfl

/-! ### nasConvert.PlmnIDToNas -/

theorem digit_cond_fin : ∀ d : Fin 10, ((48 : UInt8) ≤ UInt8.ofNat (48 + d.val) && UInt8.ofNat (48 + d.val) ≤ 57) = true
    ∧ (UInt8.ofNat (48 + d.val)).toNat - 48 = d.val := by decide

theorem atoi_digit_fin (d : Fin 10) (k : Nat) : Model.Convert.atoiOr k (UInt8.ofNat (48 + d.val)) = d.val := by
  unfold Model.Convert.atoiOr
  rw [if_pos (digit_cond_fin d).1, (digit_cond_fin d).2]

theorem nib_fin : ∀ h l : Fin 16, Model.Convert.nib h.val l.val = octet h.val l.val := by decide

theorem atoi_digit {d : Nat} (hd : d < 10) (k : Nat) : Model.Convert.atoiOr k (UInt8.ofNat (48 + d)) = d :=
  atoi_digit_fin ⟨d, hd⟩ k
theorem nib_octet {h l : Nat} (hh : h < 16) (hl : l < 16) : Model.Convert.nib h l = octet h l := nib_fin ⟨h, hh⟩ ⟨l, hl⟩

/-- two half octets determine the octet and conversely -/
theorem octet_inj {a b c d : Nat} (ha : a < 16) (hb : b < 16) (hc : c < 16) (hd : d < 16)
    (h : octet a b = octet c d) : a = c ∧ b = d := by
  have h1 := congrArg hi h
  have h2 := congrArg lo h
  rw [hi_octet ha hb, hi_octet hc hd] at h1
  rw [lo_octet ha hb, lo_octet hc hd] at h2
  exact ⟨h1, h2⟩


/-! ### the vocabulary of C11 and the buffer `EncodeSuci` builds -/

/-- an IMSI as the property reads it: 3-digit MCC, 2- or 3-digit MNC, an MSIN of at least one digit
    (a legal IMSI has at most 15 digits, i.e. MSIN length ≤ 10; no upper bound is needed below) -/
structure ValidImsi (mcc mnc msin : List Nat) : Prop where
  mcc3 : mcc.length = 3
  mnc23 : mnc.length = 2 ∨ mnc.length = 3
  msin1 : 1 ≤ msin.length
  digits : ∀ d ∈ mcc ++ mnc ++ msin, d < 10

/-- what `EncodeSuci(imsi, len(mnc))` returns for a valid IMSI, as octets of figure 9.11.3.4.3 -/
theorem suci_buffer {mcc mnc msin : List Nat} (h : ValidImsi mcc mnc msin) :
    ∃ o5 o6 o7, Spec.Identity.plmn3 mcc mnc = some [o5, o6, o7] ∧
      Model.Suci.encodeSuci (asc (mcc ++ mnc ++ msin)) (mnc.length : Int) =
        .ok ([0x01, o5, o6, o7, 0xf0, 0xff, 0x00, 0x00] ++ Spec.Identity.bcdEncode msin) := by
  obtain ⟨h3, h23, _, hd⟩ := h
  match mcc, h3 with
  | [c1, c2, c3], _ =>
    rcases h23 with h2 | h3'
    · match mnc, h2 with
      | [n1, n2], _ =>
        have hd' : ∀ d ∈ [c1, c2, c3, n1, n2] ++ msin, d < 10 := fun d hm => hd d (by simpa using hm)
        refine ⟨_, _, _, ?_, encodeSuci_mnc2 msin hd'⟩
        have : (Spec.Identity.allDigits [c1, c2, c3] && Spec.Identity.allDigits [n1, n2]) = true := by
          simp [Spec.Identity.allDigits, Spec.Identity.isDigit, hd' c1, hd' c2, hd' c3, hd' n1, hd' n2]
        simp [Spec.Identity.plmn3, this]
    · match mnc, h3' with
      | [n1, n2, n3], _ =>
        have hd' : ∀ d ∈ [c1, c2, c3, n1, n2, n3] ++ msin, d < 10 := fun d hm => hd d (by simpa using hm)
        refine ⟨_, _, _, ?_, encodeSuci_mnc3 msin hd'⟩
        have : (Spec.Identity.allDigits [c1, c2, c3] && Spec.Identity.allDigits [n1, n2, n3]) = true := by
          simp [Spec.Identity.allDigits, Spec.Identity.isDigit, hd' c1, hd' c2, hd' c3, hd' n1, hd' n2, hd' n3]
        simp [Spec.Identity.plmn3, this]

/-- the independent decoder reads the buffer back as the null-scheme SUCI of the IMSI -/
theorem suci_decodes {mcc mnc msin : List Nat} (h : ValidImsi mcc mnc msin) :
    ∃ buf, Model.Suci.encodeSuci (asc (mcc ++ mnc ++ msin)) (mnc.length : Int) = .ok buf ∧
      Spec.Identity.decodeSuci buf = some (Spec.Identity.nullSchemeSuci mcc mnc msin) := by
  obtain ⟨o5, o6, o7, hp, hb⟩ := suci_buffer h
  refine ⟨_, hb, ?_⟩
  have hm : ∀ d ∈ msin, d < 10 := fun d hd => h.digits d (by simp [hd])
  have hne : msin ≠ [] := by
    intro e; have := h.msin1; simp [e] at this
  exact decodeSuci_shape _ _ _ _ mcc mnc msin (plmn3Decode_plmn3 mcc mnc _ hp) (bcdDecode_encode msin hm) hne

end Stgutg.Proofs.Suci
