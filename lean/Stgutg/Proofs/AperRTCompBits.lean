/-
  C04, composite round trip — octet packing lemmas: unpacking packed bits gives the bits followed by the zero padding.
-/
import Stgutg.Proofs.Bits

namespace Stgutg.Proofs.AperRTComp
open Stgutg Stgutg.Proofs.Bits

theorem natToBits_bitsToNat (l : Bits) : natToBits l.length (bitsToNat l) = l := by
  induction l with
  | nil => rfl
  | cons x xs ih =>
    rw [List.length_cons, natToBits, bitsToNat_cons]
    have hlt := bitsToNat_lt xs
    congr 1
    · rw [Nat.mul_comm, Nat.testBit_two_pow_mul_add _ hlt]
      simp only [Nat.lt_irrefl, if_false, Nat.sub_self]
      cases x <;> simp
    · rw [← natToBits_mod xs.length xs.length _ (Nat.le_refl _)]
      have : ((if x = true then 1 else 0) * 2 ^ xs.length + bitsToNat xs) % 2 ^ xs.length = bitsToNat xs := by
        rw [Nat.mul_comm, Nat.mul_add_mod, Nat.mod_eq_of_lt hlt]
      rw [this, ih]

theorem byteBits_ofNat_bitsToNat (chunk : Bits) (h : chunk.length = 8) :
    byteBits (UInt8.ofNat (bitsToNat chunk)) = chunk := by
  unfold byteBits
  have e : (UInt8.ofNat (bitsToNat chunk)).toNat = bitsToNat chunk % 2 ^ 8 := by
    simp [UInt8.toNat_ofNat']
  rw [e, natToBits_mod 8 8 _ (Nat.le_refl _)]
  have := natToBits_bitsToNat chunk
  rw [h] at this
  exact this

theorem bitsToBytesAux_nil (fuel : Nat) : bitsToBytesAux fuel [] = [] := by
  cases fuel <;> simp [bitsToBytesAux]

theorem padLen_lt (n : Nat) : padLen n < 8 := by unfold padLen; omega

theorem bytesToBits_bitsToBytesAux : ∀ (fuel : Nat) (l : Bits), l.length ≤ fuel →
    bytesToBits (bitsToBytesAux fuel l) = l ++ List.replicate (padLen l.length) false := by
  intro fuel
  induction fuel with
  | zero =>
    intro l hl
    have : l = [] := List.length_eq_zero_iff.mp (by omega)
    subst this
    simp [bitsToBytesAux, bytesToBits, padLen]
  | succ fuel ih =>
    intro l hl
    unfold bitsToBytesAux
    cases hl0 : l with
    | nil => simp [bytesToBits, padLen]
    | cons x xs =>
      rw [← hl0]
      have hne : l.isEmpty = false := by rw [hl0]; rfl
      have hpos : 0 < l.length := by rw [hl0]; simp
      simp only [hne, Bool.false_eq_true, if_false]
      rw [bytesToBits_cons]
      have hchunk : (l.take 8 ++ List.replicate (8 - (l.take 8).length) false).length = 8 := by
        simp only [List.length_append, List.length_take, List.length_replicate]; omega
      rw [byteBits_ofNat_bitsToNat _ hchunk]
      by_cases h8 : 8 ≤ l.length
      · have ht : (l.take 8).length = 8 := by simp only [List.length_take]; omega
        rw [ht, Nat.sub_self, List.replicate_zero, List.append_nil]
        rw [ih (l.drop 8) (by simp only [List.length_drop]; omega)]
        have hp : padLen (l.drop 8).length = padLen l.length := by
          simp only [List.length_drop]; unfold padLen; omega
        rw [hp, ← List.append_assoc, List.take_append_drop]
      · have ht : l.take 8 = l := List.take_of_length_le (by omega)
        have hd : l.drop 8 = [] := List.drop_of_length_le (by omega)
        rw [ht, hd, bitsToBytesAux_nil]
        have hp : padLen l.length = 8 - l.length := by unfold padLen; omega
        rw [hp]
        simp [bytesToBits]

/-- unpacking the packed bits: the bits, then zero padding to the octet boundary -/
theorem bytesToBits_bitsToBytes (l : Bits) :
    bytesToBits (bitsToBytes l) = l ++ List.replicate (padLen l.length) false :=
  bytesToBits_bitsToBytesAux l.length l (Nat.le_refl _)

theorem bytesToBits_bitsToBytes_aligned (l : Bits) (h : l.length % 8 = 0) : bytesToBits (bitsToBytes l) = l := by
  rw [bytesToBits_bitsToBytes]
  have : padLen l.length = 0 := by unfold padLen; omega
  rw [this]; simp

theorem bitsToBytes_length_aligned (l : Bits) (h : l.length % 8 = 0) : 8 * (bitsToBytes l).length = l.length := by
  have := congrArg List.length (bytesToBits_bitsToBytes_aligned l h)
  rw [bytesToBits_length] at this
  exact this

end Stgutg.Proofs.AperRTComp
