/-
  Helper lemmas for Props/C12: slices of lists given as prefix ++ rest, the layout walked by
  DecodePDUSessionNASPDU, termination of both walks, closed forms of the X.691 encodings.
-/
import Stgutg.Model.Extract
import Stgutg.Spec.SetupRequest
namespace Stgutg.Proofs.Extract
open Stgutg Stgutg.Model.Extract

@[simp] theorem ok_bind {α β : Type} (a : α) (f : α → Res β) : (Except.ok a >>= f) = f a := rfl
@[simp] theorem err_bind {α β : Type} (e : Err) (f : α → Res β) : ((Except.error e : Res α) >>= f) = Except.error e := rfl
@[simp] theorem pure_eq {α : Type} (a : α) : (pure a : Res α) = Except.ok a := rfl

/-! ### slices of a list given as prefix ++ rest -/

theorem sliceFrom_pre (pre rest : Bytes) (n a : Nat) (hp : pre.length = a) (ha : a ≤ n) :
    Sl.sliceFrom ⟨pre ++ rest, n⟩ a = .ok ⟨rest, n - a⟩ := by
  simp [Sl.sliceFrom, ha, List.drop_left' hp]

theorem slice_pre (pre rest : Bytes) (n a b : Nat) (hp : pre.length = a) (hab : a ≤ b)
    (hb : b ≤ a + rest.length) : Sl.slice ⟨pre ++ rest, n⟩ a b = .ok ⟨rest, b - a⟩ := by
  have : b ≤ pre.length + rest.length := by omega
  simp [Sl.slice, hab, this, List.drop_left' hp]

theorem idx_pre (pre rest : Bytes) (x : UInt8) (n i : Nat) (hp : pre.length = i) (hi : i < n) :
    Sl.idx ⟨pre ++ x :: rest, n⟩ i = .ok x := by
  subst hp
  simp [Sl.idx, hi]

theorem idx_zero (x : UInt8) (rest : Bytes) (n : Nat) (hn : 0 < n) : Sl.idx ⟨x :: rest, n⟩ 0 = .ok x := by
  simp [Sl.idx, hn]

theorem be16_cons (x y : UInt8) (rest : Bytes) (n : Nat) (hn : 2 ≤ n) :
    be16 ⟨x :: y :: rest, n⟩ = .ok (x.toNat * 256 + y.toNat) := by
  have h1 : 1 < n := by omega
  have h0 : 0 < n := by omega
  simp [be16, Sl.idx, h1, h0]

theorem be32_cons (a b c d : UInt8) (rest : Bytes) (n : Nat) (hn : 4 ≤ n) :
    be32 ⟨a :: b :: c :: d :: rest, n⟩ = .ok (((a.toNat * 256 + b.toNat) * 256 + c.toNat) * 256 + d.toNat) := by
  have h3 : 3 < n := by omega
  have h2 : 2 < n := by omega
  have h1 : 1 < n := by omega
  have h0 : 0 < n := by omega
  simp [be32, Sl.idx, h3, h2, h1, h0]

theorem be16_spec_val (n : Nat) (h : n < 65536) :
    (UInt8.ofNat (n / 256)).toNat * 256 + (UInt8.ofNat (n % 256)).toNat = n := by
  simp [UInt8.toNat_ofNat']
  omega


theorem slice_of_eq (mem pre rest : Bytes) (n a b : Nat) (h : mem = pre ++ rest) (hp : pre.length = a) (hab : a ≤ b)
    (hb : b ≤ a + rest.length) : Sl.slice ⟨mem, n⟩ a b = .ok ⟨rest, b - a⟩ := by
  subst h; exact slice_pre pre rest n a b hp hab hb

theorem sliceFrom_of_eq (mem pre rest : Bytes) (n a : Nat) (h : mem = pre ++ rest) (hp : pre.length = a) (ha : a ≤ n) :
    Sl.sliceFrom ⟨mem, n⟩ a = .ok ⟨rest, n - a⟩ := by
  subst h; exact sliceFrom_pre pre rest n a hp ha

theorem idx_of_eq (mem pre rest : Bytes) (x : UInt8) (n i : Nat) (h : mem = pre ++ x :: rest) (hp : pre.length = i)
    (hi : i < n) : Sl.idx ⟨mem, n⟩ i = .ok x := by
  subst h; exact idx_pre pre rest x n i hp hi

local notation "sbe16" => Spec.SetupRequest.be16

/-- the fixed-offset part of DecodePDUSessionNASPDU on a message laid out as
    header(7) ‖ DL NAS TRANSPORT head(4) ‖ L(2) ‖ [ accept head(5) ‖ q(2) ‖ QoS rules(q) ‖ LV AMBR(7) ‖ optional IEs ] ‖ tail -/
theorem decodeNas_layout' (stop : Bool) (fuel : Nat) (hdr dh ah qos la opt tail : Bytes) (l1 l0 q1 q0 : UInt8) (n : Nat)
    (hhdr : hdr.length = 7) (hdh : dh.length = 4) (hah : ah.length = 5) (hla : la.length = 7)
    (hLv : l1.toNat * 256 + l0.toNat = 5 + 2 + qos.length + 7 + opt.length)
    (hqv : q1.toNat * 256 + q0.toNat = qos.length)
    (hL : 5 + 2 + qos.length + 7 + opt.length < 65530) (hn : 7 ≤ n) :
    decodeNas stop fuel
      ⟨hdr ++ (dh ++ (l1 :: l0 :: (ah ++ (q1 :: q0 :: (qos ++ (la ++ (opt ++ tail))))))), n⟩
      = nasLoop stop ⟨opt ++ tail, opt.length⟩ fuel 0 := by
  unfold decodeNas
  rw [sliceFrom_pre hdr _ n 7 hhdr hn]
  simp only [ok_bind]
  rw [slice_pre dh _ (n - 7) 4 6 hdh (by omega) (by simp; omega)]
  simp only [ok_bind]
  rw [be16_cons _ _ _ _ (by omega)]
  simp only [ok_bind, hLv]
  rw [Nat.mod_eq_of_lt (by omega : 6 + (5 + 2 + qos.length + 7 + opt.length) < 65536)]
  rw [slice_of_eq _ (dh ++ [l1, l0]) (ah ++ (q1 :: q0 :: (qos ++ (la ++ (opt ++ tail))))) (n - 7) 6 _
        (by simp) (by simp [hdh]) (by omega) (by simp [hah, hla]; omega)]
  simp only [ok_bind]
  rw [slice_pre ah _ _ 5 7 hah (by omega) (by simp; omega)]
  simp only [ok_bind]
  rw [be16_cons _ _ _ _ (by omega)]
  simp only [ok_bind, hqv]
  rw [Nat.mod_eq_of_lt (by omega : 5 + 2 + qos.length + 7 < 65536)]
  rw [sliceFrom_of_eq _ (ah ++ q1 :: q0 :: (qos ++ la)) (opt ++ tail) _ _ (by simp) (by simp [hah, hla]; omega) (by omega)]
  simp only [ok_bind]
  congr 2
  omega


/-- the walk has reached the PDU address IE -/
theorem nasLoop_found (stop : Bool) (fuel : Nat) (pre after ip : Bytes) (l ty : UInt8) (n : Nat)
    (hip : ip.length = 4) (hn : pre.length < n) :
    nasLoop stop ⟨pre ++ 0x29 :: l :: ty :: (ip ++ after), n⟩ (fuel + 1) pre.length = .ok ip := by
  unfold nasLoop
  simp only [hn, if_true]
  rw [idx_pre pre _ 0x29 n pre.length rfl hn]
  simp only [ok_bind, if_true]
  rw [slice_of_eq _ (pre ++ [0x29, l, ty]) (ip ++ after) n (pre.length + 3) (pre.length + 7) (by simp) (by simp)
        (by omega) (by simp [hip]; omega)]
  simp [Sl.toBytes, List.take_left' hip]

theorem nasLoop_skip_cause (stop : Bool) (fuel : Nat) (c : UInt8) (rest : Bytes) (n : Nat) (hn : 0 < n) :
    nasLoop stop ⟨0x59 :: c :: rest, n⟩ (fuel + 1) 0 = nasLoop stop ⟨0x59 :: c :: rest, n⟩ fuel 2 := by
  rw [nasLoop]
  simp only [hn, if_true]
  rw [idx_zero _ _ _ hn]
  have h1 : isHalfByte 0x59 = false := by decide
  have h2 : lookupLen 0x59 = 2 := by decide
  simp [h1, h2]


theorem len4 {l : Bytes} (h : l.length = 4) : ∃ a b c d, l = [a, b, c, d] := by
  match l, h with
  | [a, b, c, d], _ => exact ⟨a, b, c, d, rfl⟩

theorem len6 {l : Bytes} (h : l.length = 6) : ∃ a b c d e f, l = [a, b, c, d, e, f] := by
  match l, h with
  | [a, b, c, d, e, f], _ => exact ⟨a, b, c, d, e, f, rfl⟩

open Spec.SetupRequest in
theorem accept_encode_length (a : Accept) (h : a.ambr.length = 6) :
    a.encode.length = 5 + 2 + a.qosRules.length + 7 + a.optionalIEs.length := by
  simp [Accept.encode, lvE, lv, Spec.SetupRequest.be16, h]
  omega

open Spec.SetupRequest in
/-- DecodePDUSessionNASPDU on a spec-built NAS-PDU whose accept carries an IPv4 PDU address -/
theorem decodeNas_spec (h : SecHeader) (pct : UInt8) (a : Accept) (psi2 : Option UInt8) (addInfo : Option Bytes)
    (cause5gmm backoff : Option UInt8) (ty : UInt8) (ip slack : Bytes) (stop : Bool) (fuel : Nat)
    (hmac : h.mac.length = 4) (hwf : a.WellFormed) (haddr : a.pduAddress = some (ty :: ip)) (hip : ip.length = 4)
    (hlen : a.encode.length < 65530) (hfuel : 2 ≤ fuel) :
    decodeNas stop fuel (Sl.ofBytes (nasPdu h pct a psi2 addInfo cause5gmm backoff) slack) = .ok ip := by
  obtain ⟨hq, hambr⟩ := hwf
  obtain ⟨m0, m1, m2, m3, hm⟩ := len4 hmac
  have hL := accept_encode_length a hambr
  have hLv := be16_spec_val a.encode.length (by omega)
  have hqv := be16_spec_val a.qosRules.length hq
  rw [hL] at hLv hlen
  let tail := (DlNasTransport.trailer { pct, payload := a.encode, psi2, addInfo, cause5gmm, backoff }) ++ slack
  have hform : (Sl.ofBytes (nasPdu h pct a psi2 addInfo cause5gmm backoff) slack) =
      ⟨[0x7E, h.sht, m0, m1, m2, m3, h.sqn] ++ ([0x7E, 0x00, 0x68, pct] ++
        (UInt8.ofNat ((5 + 2 + a.qosRules.length + 7 + a.optionalIEs.length) / 256) ::
         UInt8.ofNat ((5 + 2 + a.qosRules.length + 7 + a.optionalIEs.length) % 256) ::
          ([0x2E, a.psi, a.pti, 0xC2, a.sscAndType] ++ (UInt8.ofNat (a.qosRules.length / 256) ::
            UInt8.ofNat (a.qosRules.length % 256) :: (a.qosRules ++ ((UInt8.ofNat a.ambr.length :: a.ambr) ++
              (a.optionalIEs ++ tail))))))),
        (nasPdu h pct a psi2 addInfo cause5gmm backoff).length⟩ := by
    simp [Sl.ofBytes, nasPdu, protect, DlNasTransport.encode, hm, lvE, Spec.SetupRequest.be16, ← hL, tail]
    simp [Accept.encode, lvE, lv, Spec.SetupRequest.be16]
  rw [hform, decodeNas_layout' stop fuel _ _ _ _ _ _ _ _ _ _ _ _ (by rfl) (by rfl) (by rfl) (by simp [hambr]) hLv hqv hlen
        (by simp [nasPdu, protect, hm])]
  obtain ⟨f, rfl⟩ : ∃ f, fuel = f + 2 := ⟨fuel - 2, by omega⟩
  cases hc : a.cause with
  | none =>
    have : a.optionalIEs ++ tail = [] ++ 0x29 :: UInt8.ofNat (ty :: ip).length :: ty :: (ip ++ (a.afterAddress ++ tail)) := by
      simp [Accept.optionalIEs, hc, haddr, opt, tlv]
    rw [this]
    exact nasLoop_found stop (f + 1) [] _ ip _ ty _ hip (by simp [Accept.optionalIEs, hc, haddr, opt, tlv])
  | some c =>
    have : a.optionalIEs ++ tail = [0x59, c] ++ 0x29 :: UInt8.ofNat (ty :: ip).length :: ty :: (ip ++ (a.afterAddress ++ tail)) := by
      simp [Accept.optionalIEs, hc, haddr, opt, tlv, tv]
    rw [this]
    have h2 := nasLoop_found stop f [0x59, c] (a.afterAddress ++ tail) ip (UInt8.ofNat (ty :: ip).length) ty
      a.optionalIEs.length hip (by simp [Accept.optionalIEs, hc, haddr, opt, tlv, tv])
    rw [← h2]
    exact nasLoop_skip_cause stop (f + 1) c _ _ (by simp [Accept.optionalIEs, hc, haddr, opt, tlv, tv])


/-! ### termination -/

theorem idx_ne_hang (s : Sl) (i : Nat) : s.idx i ≠ .error .hang := by
  unfold Sl.idx; split
  · split <;> simp
  · simp

theorem slice_ne_hang (s : Sl) (a b : Nat) : s.slice a b ≠ .error .hang := by
  unfold Sl.slice; split <;> simp

theorem sliceFrom_ne_hang (s : Sl) (a : Nat) : s.sliceFrom a ≠ .error .hang := by
  unfold Sl.sliceFrom; split <;> simp

theorem bind_ne_hang {α β : Type} {x : Res α} {f : α → Res β} (hx : x ≠ .error .hang)
    (hf : ∀ a, x = .ok a → f a ≠ .error .hang) : (x >>= f) ≠ .error .hang := by
  cases x with
  | ok a => exact hf a rfl
  | error e => cases e <;> simp_all

theorem be16_ne_hang (s : Sl) : be16 s ≠ .error .hang := by
  unfold be16
  exact bind_ne_hang (idx_ne_hang _ _) fun _ _ => bind_ne_hang (idx_ne_hang _ _) fun _ _ => by simp

theorem be32_ne_hang (s : Sl) : be32 s ≠ .error .hang := by
  unfold be32
  exact bind_ne_hang (idx_ne_hang _ _) fun _ _ => bind_ne_hang (idx_ne_hang _ _) fun _ _ =>
    bind_ne_hang (idx_ne_hang _ _) fun _ _ => bind_ne_hang (idx_ne_hang _ _) fun _ _ => by simp

/-- after the F9 repair every turn of the walk either ends it or moves the index forward -/
theorem nasLoop_ne_hang (op : Sl) : ∀ (fuel index : Nat), op.len - index < fuel → nasLoop true op fuel index ≠ .error .hang := by
  intro fuel
  induction fuel with
  | zero => intro index h; omega
  | succ fuel ih =>
    intro index h
    unfold nasLoop
    split
    next hlt =>
      refine bind_ne_hang (idx_ne_hang _ _) fun id _ => ?_
      split
      · exact bind_ne_hang (slice_ne_hang _ _ _) fun _ _ => by simp
      · split
        · exact ih _ (by omega)
        · simp only
          split
          next hpos => exact ih _ (by omega)
          next =>
            split
            · exact bind_ne_hang (idx_ne_hang _ _) fun _ _ => ih _ (by omega)
            · split
              · exact bind_ne_hang (slice_ne_hang _ _ _) fun _ _ => bind_ne_hang (be16_ne_hang _) fun _ _ => ih _ (by omega)
              · simp
    next => simp


theorem slice_ok {s r : Sl} {a b : Nat} (h : s.slice a b = .ok r) : r.len ≤ s.mem.length ∧ r.mem.length ≤ s.mem.length := by
  unfold Sl.slice at h
  split at h
  · cases h; simp; omega
  · cases h

theorem sliceFrom_ok {s r : Sl} {a : Nat} (h : s.sliceFrom a = .ok r) : r.len ≤ s.len ∧ r.mem.length ≤ s.mem.length := by
  unfold Sl.sliceFrom at h
  split at h
  · cases h; simp
  · cases h

/-- DecodePDUSessionNASPDU (after the F9 repair) returns on every input: fuel above the capacity is never used up -/
theorem decodeNas_ne_hang (s : Sl) (fuel : Nat) (hf : s.mem.length < fuel) : decodeNas true fuel s ≠ .error .hang := by
  unfold decodeNas
  refine bind_ne_hang (sliceFrom_ne_hang _ _) fun plain hplain => ?_
  refine bind_ne_hang (slice_ne_hang _ _ _) fun _ _ => ?_
  refine bind_ne_hang (be16_ne_hang _) fun pcl _ => ?_
  refine bind_ne_hang (slice_ne_hang _ _ _) fun pc hpc => ?_
  refine bind_ne_hang (slice_ne_hang _ _ _) fun _ _ => ?_
  refine bind_ne_hang (be16_ne_hang _) fun q _ => ?_
  refine bind_ne_hang (sliceFrom_ne_hang _ _) fun op hop => ?_
  have h1 := sliceFrom_ok hplain
  have h2 := slice_ok hpc
  have h3 := sliceFrom_ok hop
  exact nasLoop_ne_hang op fuel 0 (by omega)

/-- each turn of the transfer walk moves the offset forward by at least four -/
theorem xferLoop_ne_hang (s : Sl) : ∀ (fuel offset : Nat), s.len - offset < fuel → xferLoop s fuel offset ≠ .error .hang := by
  intro fuel
  induction fuel with
  | zero => intro offset h; omega
  | succ fuel ih =>
    intro offset h
    unfold xferLoop
    split
    next hlt =>
      refine bind_ne_hang (slice_ne_hang _ _ _) fun _ _ => ?_
      refine bind_ne_hang (be16_ne_hang _) fun id _ => ?_
      split
      · exact bind_ne_hang (idx_ne_hang _ _) fun _ _ => ih _ (by omega)
      · refine bind_ne_hang (idx_ne_hang _ _) fun n _ => ?_
        refine bind_ne_hang (slice_ne_hang _ _ _) fun info _ => ?_
        split
        · simp
        · refine bind_ne_hang (sliceFrom_ne_hang _ _) fun _ _ => ?_
          refine bind_ne_hang (be32_ne_hang _) fun _ _ => ?_
          split
          · simp
          · exact bind_ne_hang (slice_ne_hang _ _ _) fun _ _ => by simp
    next => simp

theorem decodeTransfer_ne_hang (s : Sl) (fuel : Nat) (hf : s.len < fuel) : decodeTransfer fuel s ≠ .error .hang :=
  xferLoop_ne_hang s fuel 3 (by omega)

/-! ### F9: the original walk on an IEI outside the table -/

theorem nasLoop_stuck (op : Sl) (id : UInt8) (h0 : 0 < op.len) (hid : op.idx 0 = .ok id) (h29 : id ≠ 0x29)
    (hh : isHalfByte id = false) (hl : lookupLen id = 0) : ∀ fuel, nasLoop false op fuel 0 = .error .hang := by
  intro fuel
  induction fuel with
  | zero => rfl
  | succ fuel ih =>
    unfold nasLoop
    simp [h0, hid, h29, hh, hl, ih]

theorem nasLoop_stops (op : Sl) (id : UInt8) (h0 : 0 < op.len) (hid : op.idx 0 = .ok id) (h29 : id ≠ 0x29)
    (hh : isHalfByte id = false) (hl : lookupLen id = 0) (fuel : Nat) : nasLoop true op (fuel + 1) 0 = .ok [] := by
  unfold nasLoop
  simp [h0, hid, h29, hh, hl]

/-! ### X.691: closed forms of the transfer encoding and the transfer walk -/

open Stgutg.Spec.SetupRequest

theorem natBE_two (n : Nat) : natBE 2 n = [UInt8.ofNat (n / 256), UInt8.ofNat n] := by
  simp [natBE, List.range, List.range.loop]

theorem natBE_length (w n : Nat) : (natBE w n).length = w := by simp [natBE]

theorem bitWidth_3 : bitWidth 3 = 2 := by decide
theorem bitWidth_6 : bitWidth 6 = 3 := by decide
theorem bitWidth_160 : bitWidth 160 = 8 := by decide
theorem octetLen_max : octetLen 4000000000000 = 6 := by decide

/-- one octet of the IE header: the criticality in the two leading bits -/
def critOctet (crit : Nat) : UInt8 := octetOfBits (natBits 2 crit)

/-- the octets of one ProtocolIE-Field -/
def ieBytes (ie : Nat × Nat × Bytes) : Bytes :=
  natBE 2 ie.1 ++ (critOctet ie.2.1 :: (lengthDet ie.2.2.length ++ ie.2.2))

theorem protocolIE_aligned (d : Bytes) (id crit : Nat) (v : Bytes) :
    protocolIE ⟨d, []⟩ id crit v = ⟨d ++ ieBytes (id, crit, v), []⟩ := by
  simp [protocolIE, cwn, openType, W.octets, W.align, W.bits, W.bit, bitWidth_3, natBits, ieBytes, critOctet]

theorem fold_protocolIE (ies : List (Nat × Nat × Bytes)) : ∀ (d : Bytes),
    ies.foldl (fun w ie => protocolIE w ie.1 ie.2.1 ie.2.2) ⟨d, []⟩ = ⟨d ++ ies.flatMap ieBytes, []⟩ := by
  induction ies with
  | nil => intro d; simp
  | cons ie rest ih =>
    intro d
    simp only [List.foldl_cons, List.flatMap_cons]
    rw [protocolIE_aligned, ih]
    simp

/-- closed form of the transfer: 00, the IE count in two octets, the IEs one after the other -/
theorem container_eq (ies : List (Nat × Nat × Bytes)) :
    encodeContainer ies = 0x00 :: (natBE 2 ies.length ++ ies.flatMap ieBytes) := by
  have h0 : cwn (({} : W).bit false) 0 65535 ies.length = ⟨0x00 :: natBE 2 ies.length, []⟩ := by
    simp [cwn, W.bit, W.octets, W.align, octetOfBits]
  simp only [encodeContainer]
  rw [h0, fold_protocolIE]
  simp [W.finish, W.align]


/-- GTP tunnel with a 32-bit transport layer address: 01 F0, the address, the TEID -/
theorem upTnlValue_v4 (tla teid : Bytes) (h : tla.length = 4) :
    upTnlValue tla teid = 0x01 :: 0xF0 :: (tla ++ teid) := by
  simp [upTnlValue, cwn, h, bitWidth_160, natBits, W.bit, W.bits, W.octets, W.align, W.finish, octetOfBits]

theorem octetLen_le (v : Nat) (h : v ≤ 4000000000000) : 1 ≤ octetLen v ∧ octetLen v ≤ 6 := by
  unfold octetLen
  by_cases h0 : v = 0
  · subst h0; decide
  · have : v.log2 < 48 := (Nat.log2_lt h0).2 (by omega)
    omega

/-- the AMBR value: one octet (two preamble bits, extension bit and length of DL), DL, one octet, UL -/
theorem ambrValue_length (dl ul : Nat) :
    (ambrValue dl ul).length = 2 + octetLen dl + octetLen ul := by
  simp [ambrValue, bitRate, cwnExt, cwn, octetLen_max, bitWidth_6, natBits, W.bit, W.bits, W.octets, W.align, W.finish,
    natBE_length]
  omega


/-- the transfer walk standing on the IE 139 whose value is a GTP tunnel with a 32-bit address -/
theorem xferLoop_found (pre R tla teid : Bytes) (c x y : UInt8) (n fuel off : Nat) (htla : tla.length = 4)
    (hteid : teid.length = 4) (hoff : pre.length = off) (hn : off + 3 < n) :
    xferLoop ⟨pre ++ (0 :: 139 :: c :: 10 :: x :: y :: (tla ++ (teid ++ R))), n⟩ (fuel + 1) off
      = .ok (beNat teid, tla) := by
  subst hoff
  obtain ⟨t0, t1, t2, t3, rfl⟩ := len4 hteid
  unfold xferLoop
  have h0 : pre.length < n := by omega
  simp only [h0, if_true]
  rw [slice_pre pre _ n _ _ rfl (by omega) (by simp)]
  simp only [ok_bind]
  rw [be16_cons _ _ _ _ (by omega)]
  simp only [ok_bind]
  have hid : ¬ ((0 : UInt8).toNat * 256 + (139 : UInt8).toNat ≠ 139) := by decide
  simp only [hid, if_false]
  rw [idx_of_eq _ (pre ++ [0, 139, c]) (x :: y :: (tla ++ ([t0, t1, t2, t3] ++ R))) 10 n _ (by simp) (by simp) hn]
  simp only [ok_bind]
  have h10 : (10 : UInt8).toNat = 10 := by decide
  rw [h10]
  rw [slice_of_eq _ (pre ++ [0, 139, c, 10]) (x :: y :: (tla ++ ([t0, t1, t2, t3] ++ R))) n _ _ (by simp) (by simp)
        (by omega) (by simp [htla]; omega)]
  simp only [ok_bind]
  have e1 : pre.length + 3 + 1 + 10 - (pre.length + 3 + 1) = 10 := by omega
  rw [e1]
  simp only [show ¬ (10 < 4) by omega, show ¬ (10 < 8) by omega, if_false]
  rw [sliceFrom_of_eq _ (x :: y :: tla) ([t0, t1, t2, t3] ++ R) 10 (10 - 4) (by simp) (by simp [htla]) (by omega)]
  simp only [ok_bind, List.cons_append, List.nil_append]
  rw [be32_cons _ _ _ _ _ _ (by omega)]
  simp only [ok_bind]
  rw [slice_of_eq _ [x, y] (tla ++ (t0 :: t1 :: t2 :: t3 :: R)) 10 (10 - 8) (10 - 4) (by simp) (by simp) (by omega)
        (by simp [htla]; omega)]
  simp [Sl.toBytes, List.take_left' htla, beNat]

/-- the transfer walk steps over an IE that is not 139 and whose length fits one octet -/
theorem xferLoop_skip (pre v R : Bytes) (i1 i0 c l : UInt8) (n fuel off : Nat)
    (hid : i1.toNat * 256 + i0.toNat ≠ 139) (hl : l.toNat = v.length) (hoff : pre.length = off) (hn : off + 3 < n) :
    xferLoop ⟨pre ++ (i1 :: i0 :: c :: l :: (v ++ R)), n⟩ (fuel + 1) off
      = xferLoop ⟨pre ++ (i1 :: i0 :: c :: l :: (v ++ R)), n⟩ fuel (off + 3 + v.length + 1) := by
  subst hoff
  rw [xferLoop]
  have h0 : pre.length < n := by omega
  simp only [h0, if_true]
  rw [slice_pre pre _ n _ _ rfl (by omega) (by simp)]
  simp only [ok_bind]
  rw [be16_cons _ _ _ _ (by omega)]
  simp only [ok_bind, hid, if_true, ne_eq, not_false_eq_true]
  rw [idx_of_eq _ (pre ++ [i1, i0, c]) (v ++ R) l n _ (by simp) (by simp) hn]
  simp only [ok_bind, hl]


theorem ie139_bytes (tla teid : Bytes) (h4 : tla.length = 4) (ht : teid.length = 4) :
    ieBytes (139, 0, upTnlValue tla teid) = 0 :: 139 :: critOctet 0 :: 10 :: 0x01 :: 0xF0 :: (tla ++ teid) := by
  rw [upTnlValue_v4 _ _ h4]
  simp [ieBytes, natBE_two, lengthDet, h4, ht]

theorem ie130_bytes (dl ul : Nat) (hd : dl ≤ 4000000000000) (hu : ul ≤ 4000000000000) :
    ∃ l : UInt8, l.toNat = (ambrValue dl ul).length ∧
      ieBytes (130, 0, ambrValue dl ul) = 0 :: 130 :: critOctet 0 :: l :: ambrValue dl ul := by
  have hlen := ambrValue_length dl ul
  have h1 := octetLen_le dl hd
  have h2 := octetLen_le ul hu
  refine ⟨UInt8.ofNat (ambrValue dl ul).length, ?_, ?_⟩
  · simp [UInt8.toNat_ofNat']; omega
  · have : (ambrValue dl ul).length < 128 := by omega
    simp [ieBytes, natBE_two, lengthDet, this]

/-- the AMBR IE in front of the tunnel IE, or nothing -/
def ambrIes : Option (Nat × Nat) → List (Nat × Nat × Bytes)
  | some (dl, ul) => [(130, 0, ambrValue dl ul)]
  | none => []

/-- DecodePDUSessionResourceSetupRequestTransfer on a container whose first or second IE is the tunnel IE (139)
    with a 32-bit transport layer address, preceded at most by the AMBR IE (130) and followed by any IEs -/
theorem decodeTransfer_container (ambr : Option (Nat × Nat)) (tla teid slack : Bytes) (tail : List (Nat × Nat × Bytes))
    (fuel : Nat) (hambr : ∀ dl ul, ambr = some (dl, ul) → dl ≤ 4000000000000 ∧ ul ≤ 4000000000000)
    (hteid : teid.length = 4) (h4 : tla.length = 4) (hfuel : 2 ≤ fuel) :
    decodeTransfer fuel (Sl.ofBytes (encodeContainer (ambrIes ambr ++ ((139, 0, upTnlValue tla teid) :: tail))) slack)
      = .ok (beNat teid, tla) := by
  obtain ⟨f, rfl⟩ : ∃ f, fuel = f + 2 := ⟨fuel - 2, by omega⟩
  rw [container_eq, natBE_two]
  unfold decodeTransfer
  generalize UInt8.ofNat ((ambrIes ambr ++ ((139, 0, upTnlValue tla teid) :: tail)).length / 256) = c1
  generalize UInt8.ofNat (ambrIes ambr ++ ((139, 0, upTnlValue tla teid) :: tail)).length = c0
  generalize hR : tail.flatMap ieBytes = R
  cases ha : ambr with
  | none =>
    simp only [ambrIes, List.nil_append, List.flatMap_cons, ie139_bytes _ _ h4 hteid, hR]
    have := xferLoop_found [0x00, c1, c0] (R ++ slack) tla teid
      (critOctet 0) 0x01 0xF0
      (0x00 :: ([c1, c0] ++ (0 :: 139 :: critOctet 0 :: 10 :: 0x01 :: 0xF0 :: (tla ++ teid) ++ R))).length
      (f + 1) 3 h4 hteid rfl (by simp)
    simpa [Sl.ofBytes] using this
  | some p =>
    obtain ⟨dl, ul⟩ := p
    obtain ⟨hd, hu⟩ := hambr dl ul ha
    obtain ⟨l, hl, hie⟩ := ie130_bytes dl ul hd hu
    simp only [ambrIes, List.cons_append, List.nil_append, List.flatMap_cons, ie139_bytes _ _ h4 hteid, hie, hR]
    generalize ambrValue dl ul = v at hl
    refine Eq.trans (congrArg (fun s => xferLoop s (f + 2) 3) (?_ : _ =
        (⟨[0x00, c1, c0] ++ (0 :: 130 :: critOctet 0 :: l :: (v ++
          (0 :: 139 :: critOctet 0 :: 10 :: 0x01 :: 0xF0 :: (tla ++ (teid ++ (R ++ slack)))))),
         3 + 4 + v.length + 14 + R.length⟩ : Sl))) ?_
    · simp [Sl.ofBytes, hteid, h4]
      omega
    show xferLoop _ (f + 1 + 1) 3 = _
    have hs := xferLoop_skip [0x00, c1, c0] v (0 :: 139 :: critOctet 0 :: 10 :: 0x01 :: 0xF0 :: (tla ++ (teid ++ (R ++ slack))))
      0 130 (critOctet 0) l (3 + 4 + v.length + 14 + R.length) (f + 1) 3 (by decide) hl rfl (by omega)
    rw [hs]
    have hf := xferLoop_found ([0x00, c1, c0] ++ (0 :: 130 :: critOctet 0 :: l :: v)) (R ++ slack) tla teid
      (critOctet 0) 0x01 0xF0 (3 + 4 + v.length + 14 + R.length) f (3 + 3 + v.length + 1) h4 hteid
      (by simp; omega) (by omega)
    rw [← hf]
    congr 2

theorem transfer_ies_eq (t : Transfer) : t.ies = ambrIes t.ambr ++ ((139, 0, upTnlValue t.tla t.teid) :: t.tailIes) := by
  unfold Transfer.ies Transfer.ambrIes ambrIes
  cases t.ambr with
  | none => rfl
  | some p => rfl

end Stgutg.Proofs.Extract
