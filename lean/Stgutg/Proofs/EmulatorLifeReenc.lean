/-
  C02 helper: C08 on the three remaining NAS messages the emulator protects after registration. `EncodeNasPduWithSecurity`
  first runs `PlainNasDecode` on the constructor's octets and re-encodes the decoded message with `PlainNasEncode`; for the
  UL NAS TRANSPORT wrapper with request type, DNN and S-NSSAI (PDU SESSION ESTABLISHMENT REQUEST, PDU SESSION RELEASE COMPLETE
  inside) and for the DEREGISTRATION REQUEST (any mobile identity below 64 KiB) this reproduces the octets
  (`Props.C08.C08_plain_roundtrip` + the message the constructor model returns + the generated dispatch tables), in the style
  of Proofs/EmulatorReencode.lean.
-/
import Stgutg.Proofs.EmulatorLife
import Stgutg.Proofs.EmulatorReencode

namespace Stgutg.Proofs.EmulatorLifeReenc
open Stgutg Stgutg.Nas Stgutg.Gen.Nas Stgutg.Gen Stgutg.Model.Emulator Stgutg.Proofs.EmulatorLife Stgutg.Proofs.EmulatorReencode
open Stgutg.Props.C09 Stgutg.Spec.Ts24501

/-- indices of UL NAS TRANSPORT and DEREGISTRATION REQUEST (UE originating) in the generated layout list (re-checked on every build) -/
def iUl : Nat := 44
def iDereg : Nat := 10

set_option maxRecDepth 1000000 in
theorem life_dispatch :
    Gen.Nas.dispatchGmm.dec.lookup 0x67 = some iUl ∧ Gen.Nas.dispatchGmm.enc.lookup 0x67 = some iUl ∧
    Gen.Nas.layouts[iUl]? = some layout_ULNASTransport ∧
    Gen.Nas.dispatchGmm.dec.lookup 0x45 = some iDereg ∧ Gen.Nas.dispatchGmm.enc.lookup 0x45 = some iDereg ∧
    Gen.Nas.layouts[iDereg]? = some layout_DeregistrationRequestUEOriginatingDeregistration ∧
    Gen.Nas.dispatchGmm.typeIdx = 2 ∧ Gen.Nas.dispatchGmm.hdrLen = 3 ∧ Gen.Nas.dispatchGmm.epd = 0x7E :=
  ⟨by decide +kernel, by decide +kernel, rfl, by decide +kernel, by decide +kernel, rfl, by decide +kernel, by decide +kernel,
   by decide +kernel⟩

/-- the message `GetUlNasTransport_…` (the variant with request type, DNN, S-NSSAI) builds -/
def ulMsg (payload : Bytes) (psi rt : Nat) (dnn : Bytes) (sn : Option (Nat × UInt8 × UInt8 × UInt8)) : Msg :=
  [some ⟨0, 0, [0x7E]⟩, some ⟨0, 0, [0x00]⟩, some ⟨0, 0, [0x67]⟩, some ⟨0, 0, [0x01]⟩, some ⟨0, payload.length, payload⟩,
   some ⟨0x12, 0, [UInt8.ofNat psi]⟩, none, some ⟨0, 0, [UInt8.ofNat (0x80 + rt)]⟩,
   sn.map fun x => ⟨0x22, 4, [UInt8.ofNat x.1, x.2.1, x.2.2.1, x.2.2.2, 0, 0, 0, 0]⟩,
   if dnn.isEmpty then none else some (Ctor.ulDnnIE dnn), none]

theorem ulMsg_model (payload : Bytes) (psi rt : Nat) (dnn : Bytes) (sn : Option (Nat × UInt8 × UInt8 × UInt8))
    (hpsi : psi < 256) (hrt : rt < 8) (hp : payload.length < 65536) :
    Ctor.ulNasTransport payload (UInt8.ofNat psi) true (UInt8.ofNat rt) dnn
      (sn.map fun x => ⟨UInt8.ofNat x.1, [x.2.1, x.2.2.1, x.2.2.2]⟩) = .ok (ulMsg payload psi rt dnn sn) := by
  simp only [Ctor.ulNasTransport, ulHead_eval psi hpsi, ulRequestType_eval rt hrt, if_true]
  cases sn with
  | none =>
    by_cases hde : dnn.isEmpty = true
    · simp [hde, Ctor.setP, idx_ULNASTransport_RequestType]
      rw [ulTail_eval _ payload (by rfl) (by rfl) hp]
      simp [ulMsg, hde]
    · simp [hde, Ctor.setP, idx_ULNASTransport_RequestType, idx_ULNASTransport_DNN]
      rw [ulTail_eval _ payload (by rfl) (by rfl) hp]
      simp [ulMsg, hde]
  | some x =>
    by_cases hde : dnn.isEmpty = true
    · simp [hde, Ctor.setP, idx_ULNASTransport_RequestType, ulSnssai_eval, idx_ULNASTransport_SNSSAI]
      rw [ulTail_eval _ payload (by rfl) (by rfl) hp]
      simp [ulMsg, hde]
    · simp [hde, Ctor.setP, idx_ULNASTransport_RequestType, idx_ULNASTransport_DNN, ulSnssai_eval, idx_ULNASTransport_SNSSAI]
      rw [ulTail_eval _ payload (by rfl) (by rfl) hp]
      simp [ulMsg, hde]

theorem ulMsg_wf (payload : Bytes) (psi rt : Nat) (dnn : Bytes) (sn : Option (Nat × UInt8 × UInt8 × UInt8))
    (hrt : rt < 8) (hp : payload.length < 65536) (hd : dnn.length ≤ 99) :
    msgWF layout_ULNASTransport (ulMsg payload psi rt dnn sn) = true := by
  simp only [msgWF, Bool.and_eq_true, beq_iff_eq]
  refine ⟨⟨?_, ?_⟩, ?_⟩
  · rfl
  · simp [ulMsg, layout_ULNASTransport, mandValsOK, mandValOK, lenFits, sh_ExtendedProtocolDiscriminator,
      sh_SpareHalfOctetAndSecurityHeaderType, sh_ULNASTRANSPORTMessageIdentity, sh_SpareHalfOctetAndPayloadContainerType,
      sh_PayloadContainer, Body.size, hp]
  · simp [ulMsg, layout_ULNASTransport, optValsOK]
    refine ⟨?_, ?_, ?_, ?_⟩
    · simp [optValOK, sh_PduSessionID2Value, Body.size]
    · simp [optValOK]; omega
    · cases sn with
      | none => rfl
      | some x => simp [optValOK, lenFits, sh_SNSSAI, Body.size, allZero]
    · by_cases hde : dnn = []
      · simp [hde]
      · simp [hde, optValOK, lenFits, sh_DNN, Ctor.ulDnnIE]
        omega

set_option maxRecDepth 100000 in
theorem wire_heads_life :
    (wireOf layout_ULNASTransport).map (·.mand.take 3) = some [.v 1, .v 1, .v 1] ∧
    (wireOf layout_DeregistrationRequestUEOriginatingDeregistration).map (·.mand.take 3) = some [.v 1, .v 1, .v 1] := by
  decide +kernel

/-- **C08 on the UL NAS TRANSPORT wrapper** (request type, DNN, S-NSSAI variant), any payload below 64 KiB -/
theorem reenc_ulNasTransport (payload : Bytes) (psi rt : Nat) (dnn : Bytes) (sn : Option (Nat × UInt8 × UInt8 × UInt8))
    (hpsi : psi < 256) (hrt : rt < 8) (hp : payload.length < 65536) (hd : dnn.length ≤ 99 ∧ ∀ c ∈ dnn, c ≠ 0x2E)
    (hs : ∀ x, sn = some x → x.1 < 256) (p : Bytes)
    (h : Ctor.encodeWith layout_ULNASTransport (Ctor.ulNasTransport payload (UInt8.ofNat psi) true (UInt8.ofNat rt) dnn
      (sn.map fun x => ⟨UInt8.ofNat x.1, [x.2.1, x.2.2.1, x.2.2.2]⟩)) = .ok p) : Reenc p := by
  obtain ⟨hdec, henc, hlay, -, -, -, hti, hhl, hepd⟩ := life_dispatch
  have hencode := h
  rw [ulMsg_model payload psi rt dnn sn hpsi hrt hp] at hencode
  simp only [Ctor.encodeWith] at hencode
  obtain ⟨w, p', hw, henc', hparse⟩ := C09_ctor_ulNasTransport payload psi rt dnn sn hpsi hrt hp hd hs
  rw [h] at henc'
  cases henc'
  have hhead : w.mand.take 3 = [.v 1, .v 1, .v 1] := by
    have := wire_heads_life.1
    rw [hw] at this
    simpa using this
  obtain ⟨r, hpr⟩ := parse_header_cons w p _ hhead hparse 0x7E 0x00 0x67 _ rfl
  let pm : PlainMsg := { gsm := false, hdr := [0x7E, 0x00, 0x67], idx := iUl, body := ulMsg payload psi rt dnn sn }
  have hpe : Nas.plainEncode nasCodec pm = .ok p := by
    simp [Nas.plainEncode, nasCodec, pm, hti, henc, hlay, hencode]
  have hwf : PlainWF Props.C08.codec pm := by
    show plainWF nasCodec pm = true
    simp [plainWF, nasCodec, pm, hti, hdec, hlay, hepd, hhl, ulMsg_wf payload psi rt dnn sn hrt hp hd.1, hencode, hpr]
  have hrt' := Props.C08.C08_plain_roundtrip pm hwf
  rw [← nasCodec_eq, hpe] at hrt'
  exact ⟨pm, hrt', hpe⟩

/-- **C08 on `GetUlNasTransport_PduSessionEstablishmentRequest`** (`hreE` of `C02_accepted_partial`) -/
theorem reenc_ulEstablishment (psi rt : Nat) (dnn : Bytes) (sn : Option (Nat × UInt8 × UInt8 × UInt8))
    (hpsi : psi < 256) (hrt : rt < 8) (hd : dnn.length ≤ 99 ∧ ∀ c ∈ dnn, c ≠ 0x2E) (hs : ∀ x, sn = some x → x.1 < 256) (p : Bytes)
    (h : Ctor.encodeWith layout_ULNASTransport (Ctor.ulEstablishment (UInt8.ofNat psi) (UInt8.ofNat rt) dnn
      (sn.map fun x => ⟨UInt8.ofNat x.1, [x.2.1, x.2.2.1, x.2.2.2]⟩)) = .ok p) : Reenc p := by
  have hi := (ul_inner_eval psi hpsi).1
  simp only [Ctor.ulEstablishment, hi] at h
  exact reenc_ulNasTransport _ psi rt dnn sn hpsi hrt (by simp [Intended.pco]) hd hs p h

/-- **C08 on `GetUlNasTransport_PduSessionReleaseComplete`** (`hre3`) -/
theorem reenc_ulReleaseComplete (psi rt : Nat) (dnn : Bytes) (sn : Option (Nat × UInt8 × UInt8 × UInt8))
    (hpsi : psi < 256) (hrt : rt < 8) (hd : dnn.length ≤ 99 ∧ ∀ c ∈ dnn, c ≠ 0x2E) (hs : ∀ x, sn = some x → x.1 < 256) (p : Bytes)
    (h : Ctor.encodeWith layout_ULNASTransport (Ctor.ulReleaseComplete (UInt8.ofNat psi) (UInt8.ofNat rt) dnn
      (sn.map fun x => ⟨UInt8.ofNat x.1, [x.2.1, x.2.2.1, x.2.2.2]⟩)) = .ok p) : Reenc p := by
  have hi := (ul_inner_eval psi hpsi).2.2
  simp only [Ctor.ulReleaseComplete, hi] at h
  exact reenc_ulNasTransport _ psi rt dnn sn hpsi hrt (by simp) hd hs p h

/-! ### DEREGISTRATION REQUEST -/

def deregMsg (acc sw ksi : Nat) (mi : Val) : Msg :=
  [some ⟨0, 0, [0x7E]⟩, some ⟨0, 0, [0x00]⟩, some ⟨0, 0, [0x45]⟩,
   some ⟨0, 0, Intended.halves (Intended.deregType sw 0 acc) (Intended.ngKSI 0 ksi)⟩, some ⟨0, mi.data.length, mi.data⟩]

/-- **C08 on `GetDeregistrationRequest`** (`hreD`): any access type, switch-off flag, even key set identifier, and mobile identity
    whose `Len` is its length, below 64 KiB -/
theorem reenc_deregistrationRequest (acc sw ksi : Nat) (mi : Val) (ha : acc < 4) (hs : sw < 2) (hk : ksi < 8)
    (hev : ksi % 2 = 0) (hl : mi.len = mi.data.length) (hlt : mi.data.length < 65536) (p : Bytes)
    (h : Ctor.encodeWith layout_DeregistrationRequestUEOriginatingDeregistration
      (Ctor.deregistrationRequest (UInt8.ofNat acc) (UInt8.ofNat sw) (UInt8.ofNat ksi) mi) = .ok p) : Reenc p := by
  obtain ⟨-, -, -, hdec, henc, hlay, hti, hhl, hepd⟩ := life_dispatch
  have hbase := deregBase_eval acc ha sw hs (ksi / 2) (by omega)
  rw [show 2 * (ksi / 2) = ksi by omega] at hbase
  have hmodel : Ctor.deregistrationRequest (UInt8.ofNat acc) (UInt8.ofNat sw) (UInt8.ofNat ksi) mi = .ok (deregMsg acc sw ksi mi) := by
    simp [deregMsg, Ctor.deregistrationRequest, hbase, Ctor.updF, Ctor.ok1, Ctor.setContents, Ctor.setLenBuf,
      idx_DeregistrationRequestUEOriginatingDeregistration_MobileIdentity5GS, hl, Ctor.copyInto_replicate]
  have hencode := h
  rw [hmodel] at hencode
  simp only [Ctor.encodeWith] at hencode
  obtain ⟨w, p', hw, henc', hparse⟩ := C09_ctor_deregistrationRequest acc sw ksi mi ha hs hk hev hl hlt
  rw [h] at henc'
  cases henc'
  have hhead : w.mand.take 3 = [.v 1, .v 1, .v 1] := by
    have := wire_heads_life.2
    rw [hw] at this
    simpa using this
  obtain ⟨r, hpr⟩ := parse_header_cons w p _ hhead hparse 0x7E 0x00 0x45 _ rfl
  have hmwf : msgWF layout_DeregistrationRequestUEOriginatingDeregistration (deregMsg acc sw ksi mi) = true := by
    simp [deregMsg, msgWF, mandValsOK, optValsOK, layout_DeregistrationRequestUEOriginatingDeregistration,
      mandValOK, lenFits, sh_ExtendedProtocolDiscriminator, sh_SpareHalfOctetAndSecurityHeaderType,
      sh_DeregistrationRequestMessageIdentity, sh_NgksiAndDeregistrationType, sh_MobileIdentity5GS, Body.size, hlt,
      Intended.halves]
  let pm : PlainMsg := { gsm := false, hdr := [0x7E, 0x00, 0x45], idx := iDereg, body := deregMsg acc sw ksi mi }
  have hpe : Nas.plainEncode nasCodec pm = .ok p := by
    simp [Nas.plainEncode, nasCodec, pm, hti, henc, hlay, hencode]
  have hwf : PlainWF Props.C08.codec pm := by
    show plainWF nasCodec pm = true
    simp [plainWF, nasCodec, pm, hti, hdec, hlay, hepd, hhl, hmwf, hencode, hpr]
  have hrt' := Props.C08.C08_plain_roundtrip pm hwf
  rw [← nasCodec_eq, hpe] at hrt'
  exact ⟨pm, hrt', hpe⟩

set_option maxRecDepth 1000000 in
/-- the hypotheses are satisfiable: the three constructors do encode with the emulator's arguments (PSI 5, request type 1, DNN
    "internet", S-NSSAI 1 / 010203; a 13-octet SUCI) -/
example :
    (match Ctor.encodeWith layout_ULNASTransport (Ctor.ulEstablishment (UInt8.ofNat 5) (UInt8.ofNat 1) internet
        ((some (1, (1 : UInt8), (2 : UInt8), (3 : UInt8))).map fun x => ⟨UInt8.ofNat x.1, [x.2.1, x.2.2.1, x.2.2.2]⟩)),
      Ctor.encodeWith layout_ULNASTransport (Ctor.ulReleaseComplete (UInt8.ofNat 5) (UInt8.ofNat 1) internet
        ((some (1, (1 : UInt8), (2 : UInt8), (3 : UInt8))).map fun x => ⟨UInt8.ofNat x.1, [x.2.1, x.2.2.1, x.2.2.2]⟩)),
      Ctor.encodeWith layout_DeregistrationRequestUEOriginatingDeregistration
        (Ctor.deregistrationRequest (UInt8.ofNat 1) (UInt8.ofNat 0) (UInt8.ofNat 4)
          (suciVal [0x01, 0x00, 0xf1, 0x10, 0xf0, 0xff, 0x00, 0x00, 0x00, 0x00, 0x00, 0x00, 0x10])) with
    | .ok _, .ok _, .ok _ => true
    | _, _, _ => false) = true := by decide +kernel

end Stgutg.Proofs.EmulatorLifeReenc
