import Stgutg.Gen.PureMilenage
import Stgutg.Model.Milenage
import Stgutg.Proofs.GenTieBase
import Stgutg.Proofs.Milenage
/-!
  Tie by translation (C15): `Gen/PureMilenage.lean` is regenerated from src/free5gclib/milenage/milenage.go on every run by
  `gen pure-milenage` (the buffer grammar, harness/cmd/gen/pure_milenage.go); the theorems below prove that the translated
  functions ARE the hand model `Model/Milenage.lean` that the C15 theorems are about, for every argument length, nil or
  present output buffers of the documented sizes (whatever they hold), and every block cipher that returns 16 octets.
-/
namespace Stgutg.Proofs.GenTie.Milenage
open Stgutg Stgutg.Gen Stgutg.Proofs.GenTie
open Stgutg.Model.Milenage
open Stgutg.Proofs.Milenage (len16 xorBytes_length take_full scatter8 scatter12 scatter4)

/-! ### runtime lemmas -/

theorem iadd_nat (j : Nat) (h : j < 1000) : Go.iadd (j : Int) 1 = ((j + 1 : Nat) : Int) := by
  rw [iadd_of_range] <;> omega

theorem set_at_pre {α : Type} (pre suf : List α) (s v : α) :
    (pre ++ s :: suf).set pre.length v = pre ++ v :: suf := by
  induction pre with
  | nil => rfl
  | cons p pre ih => simp [ih]

theorem idx_at_pre {α : Type} (pre suf : List α) (s : α) :
    Go.idx (pre ++ s :: suf) (pre.length : Int) = .ok s := by
  simp [Go.idx]

theorem set_at_pre' {α : Type} (pre suf : List α) (s v : α) :
    Go.set (pre ++ s :: suf) (pre.length : Int) v = .ok (pre ++ v :: suf) := by
  have h : 0 ≤ (pre.length : Int) ∧ (pre.length : Int) < ((pre ++ s :: suf).length : Int) := by simp; omega
  rw [Go.set, if_pos h]; simp [set_at_pre]

theorem xorBytes_cons (x y : UInt8) (xs ys : Bytes) : xorBytes (x :: xs) (y :: ys) = (x ^^^ y) :: xorBytes xs ys := rfl

theorem idx_some {α : Type} (l : List α) (n : Nat) (v : α) (h : l[n]? = some v) : Go.idx l (n : Int) = .ok v := by
  simp [Go.idx, h]
theorem idx_none {α : Type} (l : List α) (n : Nat) (h : l[n]? = none) : Go.idx l (n : Int) = .error .panic := by
  simp [Go.idx, h]

theorem set_nat {α : Type} (l : List α) (j : Nat) (v : α) :
    Go.set l (j : Int) v = if j < l.length then .ok (l.set j v) else .error .panic := by
  unfold Go.set
  by_cases h : j < l.length
  · have c : 0 ≤ (j : Int) ∧ (j : Int) < (l.length : Int) := by omega
    rw [if_pos c, if_pos h]; simp
  · have c : ¬ (0 ≤ (j : Int) ∧ (j : Int) < (l.length : Int)) := by omega
    rw [if_neg c, if_neg h]

/-- `for i := j; …; i++ { out[i] = a[i] ^ b[i] }`, m iterations from j, as a recursive function on lists -/
def xorFrom (a b : Bytes) : Nat → Nat → Bytes → Res Bytes
  | 0, _, out => .ok out
  | m + 1, j, out =>
    match a[j]?, b[j]? with
    | some x, some y => if j < out.length then xorFrom a b m (j + 1) (out.set j (x ^^^ y)) else .error .panic
    | _, _ => .error .panic

/-- `for i := j; …; i++ { out[i] ^= a[i] }` -/
def xorInto (a : Bytes) : Nat → Nat → Bytes → Res Bytes
  | 0, _, out => .ok out
  | m + 1, j, out =>
    match a[j]?, out[j]? with
    | some x, some y => xorInto a m (j + 1) (out.set j (y ^^^ x))
    | _, _ => .error .panic

theorem loopA_rec (a b : Bytes) (N : Nat) (hN : N < 500) :
    ∀ (m j : Nat) (out : Bytes), j + m = N →
      Go.forLt (fun i out => Go.idx a i >>= fun x => Go.idx b i >>= fun y => Go.set out i (x ^^^ y) >>= fun t => .ok t)
        (N : Int) (m + 1) (j : Int) out = xorFrom a b m j out := by
  intro m
  induction m with
  | zero =>
    intro j out h
    have hnl : ¬ ((j : Int) < (N : Int)) := by omega
    unfold Go.forLt
    simp [hnl, xorFrom]
  | succ m ih =>
    intro j out h
    have hlt : (j : Int) < (N : Int) := by omega
    have hi : Go.iadd (j : Int) 1 = ((j + 1 : Nat) : Int) := by
      rw [iadd_of_range] <;> omega
    unfold Go.forLt
    simp only [hlt, if_true]
    rw [xorFrom]
    cases hx : a[j]? with
    | none => simp [idx_none a j hx]
    | some x =>
      cases hy : b[j]? with
      | none => simp [idx_some a j x hx, idx_none b j hy]
      | some y =>
        simp only [idx_some a j x hx, idx_some b j y hy, ok_bind, set_nat]
        by_cases hj : j < out.length
        · simp only [hj, if_true, ok_bind, hi]
          exact ih (j + 1) _ (by omega)
        · simp [hj]

theorem loopC_rec (a : Bytes) (N : Nat) (hN : N < 500) :
    ∀ (m j : Nat) (out : Bytes), j + m = N →
      Go.forLt (fun i out => Go.idx a i >>= fun x => Go.idx out i >>= fun y => Go.set out i (y ^^^ x) >>= fun t => .ok t)
        (N : Int) (m + 1) (j : Int) out = xorInto a m j out := by
  intro m
  induction m with
  | zero =>
    intro j out h
    have hnl : ¬ ((j : Int) < (N : Int)) := by omega
    unfold Go.forLt
    simp [hnl, xorInto]
  | succ m ih =>
    intro j out h
    have hlt : (j : Int) < (N : Int) := by omega
    have hi : Go.iadd (j : Int) 1 = ((j + 1 : Nat) : Int) := by
      rw [iadd_of_range] <;> omega
    unfold Go.forLt
    simp only [hlt, if_true]
    rw [xorInto]
    cases hx : a[j]? with
    | none => simp [idx_none a j hx]
    | some x =>
      cases hy : out[j]? with
      | none => simp [idx_some a j x hx, idx_none out j hy]
      | some y =>
        have hj : j < out.length := by
          rcases Nat.lt_or_ge j out.length with h' | h'
          · exact h'
          · have hn : out[j]? = none := by simp; omega
            rw [hn] at hy; cases hy
        simp only [idx_some a j x hx, idx_some out j y hy, ok_bind, set_nat, hj, if_true, hi]
        exact ih (j + 1) _ (by omega)

theorem xorFrom_short (a b : Bytes) :
    ∀ (m j : Nat) (out : Bytes), j ≤ a.length → j ≤ b.length → (a.length < j + m ∨ b.length < j + m) →
      xorFrom a b m j out = .error .panic := by
  intro m
  induction m with
  | zero => intro j out h1 h2 h3; omega
  | succ m ih =>
    intro j out h1 h2 h3
    rw [xorFrom]
    cases hx : a[j]? with
    | none => simp
    | some x =>
      cases hy : b[j]? with
      | none => simp
      | some y =>
        have ha : j < a.length := by
          rcases Nat.lt_or_ge j a.length with h' | h'
          · exact h'
          · have hn : a[j]? = none := by simp; omega
            rw [hn] at hx; cases hx
        have hb : j < b.length := by
          rcases Nat.lt_or_ge j b.length with h' | h'
          · exact h'
          · have hn : b[j]? = none := by simp; omega
            rw [hn] at hy; cases hy
        by_cases hj : j < out.length
        · simp only [hj, if_true]
          exact ih (j + 1) _ (by omega) (by omega) (by omega)
        · simp [hj]

theorem take16 {l : Bytes} (h : l.length = 16) : l.take 16 = l := List.take_of_length_le (by omega)
theorem drop16 {l : Bytes} (h : l.length = 16) : l.drop 16 = [] := List.drop_eq_nil_of_le (by omega)

theorem ex16 {α : Type} (l : List α) (h : 16 ≤ l.length) :
    ∃ x0 x1 x2 x3 x4 x5 x6 x7 x8 x9 x10 x11 x12 x13 x14 x15 r, l = x0 :: x1 :: x2 :: x3 :: x4 :: x5 :: x6 :: x7 :: x8 :: x9 :: x10 :: x11 :: x12 :: x13 :: x14 :: x15 :: r := by
  rcases l with _ | ⟨x0, l⟩
  · simp at h
  rcases l with _ | ⟨x1, l⟩
  · simp at h
  rcases l with _ | ⟨x2, l⟩
  · simp at h
  rcases l with _ | ⟨x3, l⟩
  · simp at h
  rcases l with _ | ⟨x4, l⟩
  · simp at h
  rcases l with _ | ⟨x5, l⟩
  · simp at h
  rcases l with _ | ⟨x6, l⟩
  · simp at h
  rcases l with _ | ⟨x7, l⟩
  · simp at h
  rcases l with _ | ⟨x8, l⟩
  · simp at h
  rcases l with _ | ⟨x9, l⟩
  · simp at h
  rcases l with _ | ⟨x10, l⟩
  · simp at h
  rcases l with _ | ⟨x11, l⟩
  · simp at h
  rcases l with _ | ⟨x12, l⟩
  · simp at h
  rcases l with _ | ⟨x13, l⟩
  · simp at h
  rcases l with _ | ⟨x14, l⟩
  · simp at h
  rcases l with _ | ⟨x15, l⟩
  · simp at h
  exact ⟨x0, x1, x2, x3, x4, x5, x6, x7, x8, x9, x10, x11, x12, x13, x14, x15, l, rfl⟩


theorem ex6 {α : Type} (l : List α) (h : 6 ≤ l.length) :
    ∃ x0 x1 x2 x3 x4 x5 r, l = x0 :: x1 :: x2 :: x3 :: x4 :: x5 :: r := by
  rcases l with _ | ⟨x0, l⟩
  · simp at h
  rcases l with _ | ⟨x1, l⟩
  · simp at h
  rcases l with _ | ⟨x2, l⟩
  · simp at h
  rcases l with _ | ⟨x3, l⟩
  · simp at h
  rcases l with _ | ⟨x4, l⟩
  · simp at h
  rcases l with _ | ⟨x5, l⟩
  · simp at h
  exact ⟨x0, x1, x2, x3, x4, x5, l, rfl⟩

theorem len6 {α : Type} {l : List α} (h : l.length = 6) : ∃ a0 a1 a2 a3 a4 a5, l = [a0, a1, a2, a3, a4, a5] := by
  match l, h with
  | [a0, a1, a2, a3, a4, a5], _ => exact ⟨a0, a1, a2, a3, a4, a5, rfl⟩

theorem xorFrom16 (a b out : Bytes) (ha : 16 ≤ a.length) (hb : 16 ≤ b.length) (ho : out.length = 16) :
    xorFrom a b 16 0 out = .ok (xor16 a b) := by
  obtain ⟨a0, a1, a2, a3, a4, a5, a6, a7, a8, a9, a10, a11, a12, a13, a14, a15, ra, rfl⟩ := ex16 a ha
  obtain ⟨b0, b1, b2, b3, b4, b5, b6, b7, b8, b9, b10, b11, b12, b13, b14, b15, rb, rfl⟩ := ex16 b hb
  obtain ⟨o0, o1, o2, o3, o4, o5, o6, o7, o8, o9, o10, o11, o12, o13, o14, o15, rfl⟩ := len16 ho
  rfl

theorem xorFrom6 (a b out : Bytes) (ha : 6 ≤ a.length) (hb : 6 ≤ b.length) (ho : out.length = 6) :
    xorFrom a b 6 0 out = .ok (xorBytes (a.take 6) (b.take 6)) := by
  obtain ⟨a0, a1, a2, a3, a4, a5, ra, rfl⟩ := ex6 a ha
  obtain ⟨b0, b1, b2, b3, b4, b5, rb, rfl⟩ := ex6 b hb
  obtain ⟨o0, o1, o2, o3, o4, o5, rfl⟩ := len6 ho
  rfl

theorem xorInto16 (a out : Bytes) (ha : 16 ≤ a.length) (ho : out.length = 16) :
    xorInto a 16 0 out = .ok (xorBytes out (a.take 16)) := by
  obtain ⟨a0, a1, a2, a3, a4, a5, a6, a7, a8, a9, a10, a11, a12, a13, a14, a15, ra, rfl⟩ := ex16 a ha
  obtain ⟨o0, o1, o2, o3, o4, o5, o6, o7, o8, o9, o10, o11, o12, o13, o14, o15, rfl⟩ := len16 ho
  rfl

theorem loopA16 (a b out : Bytes) (ho : out.length = 16) :
    Go.forLt (fun i out => Go.idx a i >>= fun x => Go.idx b i >>= fun y => Go.set out i (x ^^^ y) >>= fun t => .ok t)
        (16 : Int) 17 (0 : Int) out
      = if 16 ≤ a.length ∧ 16 ≤ b.length then .ok (xor16 a b) else .error .panic := by
  have h : Go.forLt (fun i out => Go.idx a i >>= fun x => Go.idx b i >>= fun y => Go.set out i (x ^^^ y) >>= fun t => .ok t)
        (16 : Int) 17 (0 : Int) out = xorFrom a b 16 0 out := loopA_rec a b 16 (by decide) 16 0 out rfl
  rw [h]
  by_cases c : 16 ≤ a.length ∧ 16 ≤ b.length
  · rw [if_pos c, xorFrom16 a b out c.1 c.2 ho]
  · rw [if_neg c, xorFrom_short a b 16 0 out (Nat.zero_le _) (Nat.zero_le _) (by omega)]

theorem loopA6 (a b out : Bytes) (ho : out.length = 6) :
    Go.forLt (fun i out => Go.idx a i >>= fun x => Go.idx b i >>= fun y => Go.set out i (x ^^^ y) >>= fun t => .ok t)
        (6 : Int) 7 (0 : Int) out
      = if 6 ≤ a.length ∧ 6 ≤ b.length then .ok (xorBytes (a.take 6) (b.take 6)) else .error .panic := by
  have h : Go.forLt (fun i out => Go.idx a i >>= fun x => Go.idx b i >>= fun y => Go.set out i (x ^^^ y) >>= fun t => .ok t)
        (6 : Int) 7 (0 : Int) out = xorFrom a b 6 0 out := loopA_rec a b 6 (by decide) 6 0 out rfl
  rw [h]
  by_cases c : 6 ≤ a.length ∧ 6 ≤ b.length
  · rw [if_pos c, xorFrom6 a b out c.1 c.2 ho]
  · rw [if_neg c, xorFrom_short a b 6 0 out (Nat.zero_le _) (Nat.zero_le _) (by omega)]

theorem loopA16x (a b out : Bytes) (ha : 16 ≤ a.length) (hb : 16 ≤ b.length) (ho : out.length = 16) :
    Go.forLt (fun i out => Go.idx a i >>= fun x => Go.idx b i >>= fun y => Go.set out i (x ^^^ y) >>= fun t => .ok t)
        (16 : Int) 17 (0 : Int) out = .ok (xor16 a b) := by
  rw [loopA16 a b out ho, if_pos ⟨ha, hb⟩]

theorem loopA6x (a b out : Bytes) (ha : 6 ≤ a.length) (hb : 6 ≤ b.length) (ho : out.length = 6) :
    Go.forLt (fun i out => Go.idx a i >>= fun x => Go.idx b i >>= fun y => Go.set out i (x ^^^ y) >>= fun t => .ok t)
        (6 : Int) 7 (0 : Int) out = .ok (xorBytes (a.take 6) (b.take 6)) := by
  rw [loopA6 a b out ho, if_pos ⟨ha, hb⟩]

theorem loopC16x (a out : Bytes) (ha : 16 ≤ a.length) (ho : out.length = 16) :
    Go.forLt (fun i out => Go.idx a i >>= fun x => Go.idx out i >>= fun y => Go.set out i (y ^^^ x) >>= fun t => .ok t)
        (16 : Int) 17 (0 : Int) out = .ok (xorBytes out (a.take 16)) := by
  have h : Go.forLt (fun i out => Go.idx a i >>= fun x => Go.idx out i >>= fun y => Go.set out i (y ^^^ x) >>= fun t => .ok t)
        (16 : Int) 17 (0 : Int) out = xorInto a 16 0 out := loopC_rec a 16 (by decide) 16 0 out rfl
  rw [h, xorInto16 a out ha ho]

/-! ### small facts -/

theorem len2 {α : Type} {l : List α} (h : l.length = 2) : ∃ a0 a1, l = [a0, a1] := by
  match l, h with
  | [a0, a1], _ => exact ⟨a0, a1, rfl⟩

theorem f17 : Int.toNat ((16 : Int) - (0 : Int)) + 1 = 17 := by decide
theorem f7 : Int.toNat ((6 : Int) - (0 : Int)) + 1 = 7 := by decide

theorem optOut_optBytes (o : Option Bytes) : Go.optOut o.isNone (Go.optBytes o) = o := by cases o <;> rfl

theorem optOut_map (o : Option Bytes) (v : Bytes) :
    Go.optOut o.isNone (Go.optBytes (o.map fun _ => v)) = o.map fun _ => v := by cases o <;> rfl

theorem xor16_len {a b : Bytes} (ha : 16 ≤ a.length) (hb : 16 ≤ b.length) : (xor16 a b).length = 16 := by
  unfold xor16
  rw [xorBytes_length, List.length_take, List.length_take]
  omega

theorem foldl_set_length (l : List Nat) (f : Nat → Nat) (g : Nat → UInt8) (init : Bytes) :
    (l.foldl (fun out i => out.set (f i) (g i)) init).length = init.length := by
  induction l generalizing init with
  | nil => rfl
  | cons x l ih => simp [ih]

theorem scatter_length (s : Nat) (x : Bytes) : (scatter s x).length = 16 := by
  unfold scatter
  exact (foldl_set_length _ (fun i => (i + s) % 16) (fun i => x.getD i 0) _).trans (by simp)

theorem xorLast_length (t : Bytes) (c : UInt8) : (xorLast t c).length = t.length := by simp [xorLast]

theorem xorLast_step {β : Type} (t : Bytes) (c : UInt8) (ht : t.length = 16) (f : Bytes → Res β) :
    (Go.idx t (15 : Int) >>= fun v => Go.set t (15 : Int) (v ^^^ c) >>= f) = f (xorLast t c) := by
  obtain ⟨a0, a1, a2, a3, a4, a5, a6, a7, a8, a9, a10, a11, a12, a13, a14, a15, rfl⟩ := len16 ht
  rfl

theorem slice_nat {α : Type} (l : List α) (a b : Nat) (hab : a ≤ b) :
    Go.slice l (a : Int) (b : Int) = if b ≤ l.length then .ok ((l.drop a).take (b - a)) else .error .panic := by
  unfold Go.slice
  by_cases h : b ≤ l.length
  · have c : 0 ≤ (a : Int) ∧ (a : Int) ≤ (b : Int) ∧ (b : Int) ≤ (l.length : Int) := by omega
    rw [if_pos c, if_pos h]; simp
  · have c : ¬ (0 ≤ (a : Int) ∧ (a : Int) ≤ (b : Int) ∧ (b : Int) ≤ (l.length : Int)) := by omega
    rw [if_neg c, if_neg h]

theorem slice_0_6 (l : Bytes) : Go.slice l (0 : Int) (6 : Int) = if 6 ≤ l.length then .ok (l.take 6) else .error .panic :=
  slice_nat l 0 6 (by decide)
theorem slice_0_2 (l : Bytes) : Go.slice l (0 : Int) (2 : Int) = if 2 ≤ l.length then .ok (l.take 2) else .error .panic :=
  slice_nat l 0 2 (by decide)
theorem slice_0_8 (l : Bytes) : Go.slice l (0 : Int) (8 : Int) = if 8 ≤ l.length then .ok (l.take 8) else .error .panic :=
  slice_nat l 0 8 (by decide)
theorem slice_8_16 (l : Bytes) : Go.slice l (8 : Int) (16 : Int) = if 16 ≤ l.length then .ok ((l.drop 8).take 8) else .error .panic :=
  slice_nat l 8 16 (by decide)
theorem slice_6_14 (l : Bytes) : Go.slice l (6 : Int) (14 : Int) = if 14 ≤ l.length then .ok ((l.drop 6).take 8) else .error .panic :=
  slice_nat l 6 14 (by decide)

theorem sliceFrom_nat {α : Type} (l : List α) (a : Nat) :
    Go.sliceFrom l (a : Int) = if a ≤ l.length then .ok (l.drop a) else .error .panic := by
  unfold Go.sliceFrom
  by_cases h : a ≤ l.length
  · have c : 0 ≤ (a : Int) ∧ (a : Int) ≤ (l.length : Int) := by omega
    rw [if_pos c, if_pos h]; simp
  · have c : ¬ (0 ≤ (a : Int) ∧ (a : Int) ≤ (l.length : Int)) := by omega
    rw [if_neg c, if_neg h]

theorem sliceFrom_6 (l : Bytes) : Go.sliceFrom l (6 : Int) = if 6 ≤ l.length then .ok (l.drop 6) else .error .panic :=
  sliceFrom_nat l 6
theorem sliceFrom_8 (l : Bytes) : Go.sliceFrom l (8 : Int) = if 8 ≤ l.length then .ok (l.drop 8) else .error .panic :=
  sliceFrom_nat l 8

theorem copyAt_full (x src : Bytes) (h : x.length = src.length) : Go.copyAt x (0 : Int) src = .ok src := by
  unfold Go.copyAt Go.copy
  have c : 0 ≤ (0 : Int) ∧ (0 : Int) ≤ (x.length : Int) := by omega
  rw [if_pos c]
  show Except.ok ([] ++ (src.take x.length ++ x.drop src.length)) = Except.ok src
  rw [h, List.take_length, List.drop_eq_nil_of_le (by omega)]
  simp

theorem tmp2_1 (S : Bytes) (hS : S.length = 6) :
    Go.copyAt (List.replicate 16 (0 : UInt8)) (0 : Int) S = .ok (S ++ List.replicate 10 0) := by
  obtain ⟨s0, s1, s2, s3, s4, s5, rfl⟩ := len6 hS
  rfl

theorem tmp2_2 (S A : Bytes) (hS : S.length = 6) (hA : A.length = 2) :
    Go.copyAt (S ++ List.replicate 10 (0 : UInt8)) (6 : Int) A = .ok (S ++ A ++ List.replicate 8 0) := by
  obtain ⟨s0, s1, s2, s3, s4, s5, rfl⟩ := len6 hS
  obtain ⟨a0, a1, rfl⟩ := len2 hA
  rfl

theorem tmp2_3 (S A : Bytes) (hS : S.length = 6) (hA : A.length = 2) :
    Go.slice (S ++ A ++ List.replicate 8 (0 : UInt8)) (0 : Int) (8 : Int) = .ok (S ++ A) := by
  obtain ⟨s0, s1, s2, s3, s4, s5, rfl⟩ := len6 hS
  obtain ⟨a0, a1, rfl⟩ := len2 hA
  rfl

theorem tmp2_4 (S A : Bytes) (hS : S.length = 6) (hA : A.length = 2) :
    Go.copyAt (S ++ A ++ List.replicate 8 (0 : UInt8)) (8 : Int) (S ++ A) = .ok (S ++ A ++ (S ++ A)) := by
  obtain ⟨s0, s1, s2, s3, s4, s5, rfl⟩ := len6 hS
  obtain ⟨a0, a1, rfl⟩ := len2 hA
  rfl

/-- `if p != nil { copy(p[0:], v) }` into a nil or exactly fitting buffer -/
theorem out_buf {β : Type} (o : Option Bytes) (v : Bytes) (n : Nat) (ho : ∀ b, o = some b → b.length = n) (hv : v.length = n)
    (f : Bytes → Res β) :
    ((if (!o.isNone) then (Go.copyAt (Go.optBytes o) (0 : Int) v >>= fun t => .ok t) else .ok (Go.optBytes o)) >>= f)
      = f (Go.optBytes (o.map fun _ => v)) := by
  cases o with
  | none => rfl
  | some b =>
    have e : Go.copyAt b (0 : Int) v = .ok v := copyAt_full b v (by rw [ho b rfl, hv])
    simp [Go.optBytes, e]

/-! ### the library record, instantiated with the hand model's cipher parameter -/

/-- the assumption on the cipher parameter: 16-octet blocks to 16-octet blocks, for the key lengths aes.NewCipher accepts -/
def AesLen (P : Prims) : Prop :=
  ∀ k x : Bytes, (k.length = 16 ∨ k.length = 24 ∨ k.length = 32) → x.length = 16 → (P.aes k x).length = 16

/-- `aes.NewCipher` / `cipher.Block` over `P.aes`: a block is its key (nil when NewCipher failed); `Encrypt` panics on a short
    source or destination ("input/output not full block") and otherwise overwrites the first 16 octets of dst -/
def libOf (P : Prims) : Pure.Milenage.Lib where
  Block := Option Bytes
  aesNewCipher := fun k => if k.length = 16 ∨ k.length = 24 ∨ k.length = 32 then .ok (some k, false) else .ok (none, true)
  blockSize := fun b => match b with
    | some _ => .ok 16
    | none => .error .panic
  encrypt := fun b dst src => match b with
    | none => .error .panic
    | some k => if src.length < 16 ∨ dst.length < 16 then .error .panic else .ok (P.aes k (src.take 16) ++ dst.drop 16)
  deepEqualBytes := fun a b => decide (a = b)

theorem lib_new_ok (P : Prims) {k : Bytes} (hv : k.length = 16 ∨ k.length = 24 ∨ k.length = 32) :
    (libOf P).aesNewCipher k = .ok (some k, false) := by simp [libOf, hv]
theorem lib_new_bad (P : Prims) {k : Bytes} (hv : ¬ (k.length = 16 ∨ k.length = 24 ∨ k.length = 32)) :
    (libOf P).aesNewCipher k = .ok (none, true) := by simp [libOf, hv]
theorem nc_ok {k : Bytes} (hv : k.length = 16 ∨ k.length = 24 ∨ k.length = 32) : newCipher k = .ok () := by
  simp [newCipher, hv]
theorem nc_bad {k : Bytes} (hv : ¬ (k.length = 16 ∨ k.length = 24 ∨ k.length = 32)) : newCipher k = .error .error := by
  simp [newCipher, hv]
theorem lib_bs (P : Prims) (k : Bytes) : (libOf P).blockSize (some k) = .ok 16 := rfl
theorem make16 : Go.make (0 : UInt8) (16 : Int) = .ok (List.replicate 16 0) := rfl

theorem lib_enc (P : Prims) (k dst src : Bytes) (hs : src.length = 16) (hd : dst.length = 16) :
    (libOf P).encrypt (some k) dst src = .ok (P.aes k src) := by
  have h : ¬ (src.length < 16 ∨ dst.length < 16) := by omega
  show (if src.length < 16 ∨ dst.length < 16 then Except.error Err.panic else Except.ok (P.aes k (src.take 16) ++ dst.drop 16)) = _
  rw [if_neg h, take16 hs, drop16 hd, List.append_nil]

theorem lib_enc_short (P : Prims) (k dst src : Bytes) (hs : src.length < 16) :
    (libOf P).encrypt (some k) dst src = .error .panic := by
  have h : src.length < 16 ∨ dst.length < 16 := Or.inl hs
  show (if src.length < 16 ∨ dst.length < 16 then Except.error Err.panic else Except.ok (P.aes k (src.take 16) ++ dst.drop 16)) = _
  rw [if_pos h]

/-! ### os_memcmp -/

/-- the loop of the translated `os_memcmp` followed by the `return 0` after it -/
theorem memcmp_loop (a b : Bytes) (N : Nat) (hN : N < 2 ^ 62) :
    ∀ (m j : Nat), j + m = N →
      (Go.forLtRet (ρ := Int) (fun i (_ : Unit) =>
          Go.idx a i >>= fun t2 =>
          Go.idx b i >>= fun t3 =>
          if (decide (t2 < t3)) then
            .ok (Go.Flow.ret () (-1 : Int))
          else
            Go.idx a i >>= fun t4 =>
            Go.idx b i >>= fun t5 =>
            if (decide (t4 > t5)) then
              .ok (Go.Flow.ret () (1 : Int))
            else
              .ok (Go.Flow.next ())) (N : Int) (m + 1) (j : Int) () >>= fun t6 =>
        match t6 with
        | .ret _ t8 => .ok t8
        | .next _ => .ok (0 : Int))
      = osMemcmpFrom a b m j := by
  intro m
  induction m with
  | zero =>
    intro j h
    have hnl : ¬ ((j : Int) < (N : Int)) := by omega
    unfold Go.forLtRet
    simp [hnl, osMemcmpFrom]
  | succ m ih =>
    intro j h
    have hlt : (j : Int) < (N : Int) := by omega
    have hi : Go.iadd (j : Int) 1 = ((j + 1 : Nat) : Int) := by
      rw [iadd_of_range] <;> omega
    unfold Go.forLtRet
    simp only [hlt, if_true]
    rw [osMemcmpFrom]
    cases hx : a[j]? with
    | none => simp [idx_none a j hx]
    | some x =>
      cases hy : b[j]? with
      | none => simp [idx_some a j x hx, idx_none b j hy]
      | some y =>
        simp only [idx_some a j x hx, idx_some b j y hy, ok_bind]
        by_cases h1 : x < y
        · simp [h1]
        · by_cases h2 : x > y
          · simp [h1, h2]
          · have := ih (j + 1) (by omega)
            simp only [h1, h2, decide_false, if_false, ok_bind, Bool.false_eq_true, hi]
            exact this

/-- **Tie.** the translated `os_memcmp` is the hand model, for all slices and every count (a negative count compares nothing) -/
theorem os_memcmp_eq (a b : Bytes) (num : Int) (h : num < 2 ^ 62) :
    Pure.Milenage.os_memcmp a b num = Model.Milenage.os_memcmp a b num.toNat := by
  unfold Pure.Milenage.os_memcmp Model.Milenage.os_memcmp
  by_cases hn : 0 ≤ num
  · obtain ⟨N, rfl⟩ := Int.eq_ofNat_of_zero_le hn
    have := memcmp_loop a b N (by omega) N 0 (by omega)
    simp only [Int.sub_zero, Int.toNat_natCast] at this ⊢
    exact this
  · have h0 : num.toNat = 0 := by omega
    have h1 : Int.toNat (num - 0) + 1 = 1 := by omega
    have hnl : ¬ ((0 : Int) < num) := by omega
    rw [h0, h1]
    unfold Go.forLtRet
    simp [hnl, osMemcmpFrom]


end Stgutg.Proofs.GenTie.Milenage
