/-
  C14 (cost): SEQUENCE OF — the count the decoder accepts is bounded by a schema constant (`sliceMax`), the elements
  of a list that completes are at most as many as the bits they consumed.
-/
import Stgutg.Proofs.AperCostStrict
import Stgutg.Proofs.Bits

namespace Stgutg.Proofs.AperCost
open Stgutg Stgutg.Aper

theorem getBitsValue_lt (n : Nat) (r : Rd) (v : Nat) (r' : Rd) (h : getBitsValue n r = .ok (v, r')) : v < 2 ^ n := by
  unfold getBitsValue at h
  rw [D_bind_apply] at h
  cases hg : getBits n r with
  | error e => rw [hg] at h; cases h
  | ok x =>
    obtain ⟨b, r1⟩ := x
    rw [hg] at h
    have hp : (pure (bitsToNat b % 2 ^ 64) : D Nat) r1 = .ok (bitsToNat b % 2 ^ 64, r1) := rfl
    dsimp only at h
    rw [hp] at h
    simp only [Except.ok.injEq, Prod.mk.injEq] at h
    rw [← h.1]
    have hb : b = r.rest.take n := by
      unfold getBits at hg
      split at hg
      · cases hg
      · split at hg
        · cases hg
        · simp only [Except.ok.injEq, Prod.mk.injEq] at hg; exact hg.1.symm
    have hlen : b.length ≤ n := by rw [hb, List.length_take]; omega
    have h1 := Bits.bitsToNat_lt b
    have h2 : 2 ^ b.length ≤ 2 ^ n := Nat.pow_le_pow_right (by decide) hlen
    have h3 : bitsToNat b % 2 ^ 64 ≤ bitsToNat b := Nat.mod_le _ _
    omega

theorem after_align {α : Type} (k : D α) (r : Rd) (a : α) (r' : Rd)
    (h : (parseAlignBits >>= fun _ => k) r = .ok (a, r')) : ∃ r1, k r1 = .ok (a, r') := by
  rw [D_bind_apply] at h
  cases hal : parseAlignBits r with
  | error e => rw [hal] at h; cases h
  | ok x => obtain ⟨u, r1⟩ := x; rw [hal] at h; exact ⟨r1, h⟩

theorem parseConstraintValue_le (range : Int) (r : Rd) (v : Nat) (r' : Rd)
    (h : parseConstraintValue range r = .ok (v, r')) : v ≤ cvMax range := by
  unfold parseConstraintValue at h
  unfold cvMax
  split at h
  · rename_i h255
    simp only [h255, if_true]
    split at h
    · simp [D.fail] at h
    · have := getBitsValue_lt _ r v r' h; omega
  · rename_i h255
    simp only [h255, if_false]
    split at h
    · rename_i h256
      simp only [h256, if_true]
      obtain ⟨r1, h1⟩ := after_align _ r v r' h
      have := getBitsValue_lt 8 r1 v r' h1
      omega
    · rename_i h256
      simp only [h256, if_false]
      split at h
      · obtain ⟨r1, h1⟩ := after_align _ r v r' h
        have := getBitsValue_lt 16 r1 v r' h1
        omega
      · simp [D.fail] at h

/-- a general length determinant that is not a fragment header is below 16384 -/
theorem parseLength_general_lt (r : Rd) (n : Nat) (r' : Rd) (h : parseLength (-1) r = .ok ((n, false), r')) :
    n ≤ 16383 := by
  unfold parseLength at h
  have hc : ¬ ((-1 : Int) ≤ 65536 ∧ (-1 : Int) > 0) := by decide
  simp only [hc, if_false] at h
  obtain ⟨r1, h1⟩ := after_align _ r (n, false) r' h
  rw [D_bind_apply] at h1
  cases hf : getBitsValue 8 r1 with
  | error e => rw [hf] at h1; cases h1
  | ok x =>
    obtain ⟨first, r2⟩ := x
    rw [hf] at h1
    dsimp only at h1
    split at h1
    · have hp : (pure (first &&& 127, false) : D (Nat × Bool)) r2 = .ok ((first &&& 127, false), r2) := rfl
      rw [hp] at h1
      simp only [Except.ok.injEq, Prod.mk.injEq] at h1
      have : first &&& 127 ≤ 127 := Nat.and_le_right
      omega
    · split at h1
      · rw [D_bind_apply] at h1
        cases hs : getBitsValue 8 r2 with
        | error e => rw [hs] at h1; cases h1
        | ok y =>
          obtain ⟨second, r3⟩ := y
          rw [hs] at h1
          dsimp only at h1
          have hp : (pure ((first &&& 63) <<< 8 ||| second, false) : D (Nat × Bool)) r3 =
              .ok (((first &&& 63) <<< 8 ||| second, false), r3) := rfl
          rw [hp] at h1
          simp only [Except.ok.injEq, Prod.mk.injEq] at h1
          have hsec := getBitsValue_lt 8 r2 second r3 hs
          have h63 : first &&& 63 ≤ 63 := Nat.and_le_right
          have hx : (first &&& 63) <<< 8 < 2 ^ 14 := by
            rw [Nat.shiftLeft_eq]
            have : (2 : Nat) ^ 8 = 256 := by decide
            rw [this]
            have : (2 : Nat) ^ 14 = 16384 := by decide
            omega
          have hy : second < 2 ^ 14 := by
            have : (2 : Nat) ^ 8 = 256 := by decide
            have : (2 : Nat) ^ 14 = 16384 := by decide
            omega
          have := Nat.or_lt_two_pow hx hy
          have e14 : (2 : Nat) ^ 14 = 16384 := by decide
          omega
      · split at h1
        · simp [D.fail] at h1
        · have hp : ∀ k, (pure (16384 * k, true) : D (Nat × Bool)) r2 = .ok ((16384 * k, true), r2) := fun _ => rfl
          rw [hp] at h1
          simp only [Except.ok.injEq, Prod.mk.injEq] at h1
          exact absurd h1.1.2 (by decide)

theorem sliceCountWith_le (lb sr : Int) (r : Rd) (n : Nat) (r' : Rd) (h : sliceCountWith lb sr r = .ok (n, r')) :
    n ≤ (if sr > 1 then cvMax sr + lb.toNat else if sr = 1 then lb.toNat else 16383) := by
  unfold sliceCountWith at h
  split at h
  · rename_i h1
    simp only [h1, if_true]
    unfold D.catchErr at h
    rw [D_bind_apply] at h
    cases hp : parseConstraintValue sr r with
    | error e =>
      rw [hp] at h
      cases e with
      | error =>
        dsimp only at h
        simp only [Except.ok.injEq, Prod.mk.injEq] at h
        omega
      | panic => cases h
      | hang => cases h
    | ok x =>
      obtain ⟨v, r1⟩ := x
      rw [hp] at h
      have hpp : (pure (v + lb.toNat) : D Nat) r1 = .ok (v + lb.toNat, r1) := rfl
      dsimp only at h
      rw [hpp] at h
      simp only [Except.ok.injEq, Prod.mk.injEq] at h
      have := parseConstraintValue_le sr r v r1 hp
      omega
  · rename_i h1
    simp only [h1, if_false]
    split at h
    · rename_i h2
      simp only [h2, if_true]
      have hpp : (pure lb.toNat : D Nat) r = .ok (lb.toNat, r) := rfl
      rw [hpp] at h
      simp only [Except.ok.injEq, Prod.mk.injEq] at h
      omega
    · rename_i h2
      simp only [h2, if_false]
      rw [D_bind_apply] at h
      cases hp : parseLength (-1) r with
      | error e => rw [hp] at h; cases h
      | ok x =>
        obtain ⟨⟨k, rep⟩, r1⟩ := x
        rw [hp] at h
        dsimp only at h
        cases rep with
        | true => simp [D.fail] at h
        | false =>
          simp only [Bool.false_eq_true, if_false] at h
          have hpp : (pure k : D Nat) r1 = .ok (k, r1) := rfl
          rw [hpp] at h
          simp only [Except.ok.injEq, Prod.mk.injEq] at h
          have := parseLength_general_lt r k r1 hp
          omega

theorem sliceCount_eq' (p : Params) (se : Bool) :
    sliceCount p se = sliceCountWith (sliceLBc p) (if se then -1 else sliceSR p) := by
  unfold sliceCount sliceLBc sliceSR sliceLBc
  cases se <;> cases p.sizeLB <;> cases p.sizeUB <;> simp

/-- **every `MakeSlice` count is bounded by a constant of the schema** -/
theorem sliceCount_le (p : Params) (se : Bool) (r : Rd) (n : Nat) (r' : Rd) (h : sliceCount p se r = .ok (n, r')) :
    n ≤ sliceMax p := by
  rw [sliceCount_eq'] at h
  have := sliceCountWith_le _ _ r n r' h
  unfold sliceMax
  cases se with
  | true =>
    simp only [if_true] at this
    have h1 : ¬ ((-1 : Int) > 1) := by decide
    have h2 : ¬ ((-1 : Int) = 1) := by decide
    simp only [h1, h2, if_false] at this
    dsimp only
    omega
  | false =>
    simp only [Bool.false_eq_true, if_false] at this
    dsimp only
    omega

/-- the elements of a SEQUENCE OF: when all `n` are read, at least `n` bits were consumed -/
theorem elems_bound (ws wa q p s : Nat) (f : DC Val) (hf : Bnd ws wa q p s f) (hs : Strict f) : ∀ (n : Nat) (r : Rd),
    (∀ vs r', (decElemsC f n r).1 = .ok (vs, r') →
      ∃ c, r.len = r'.len + c ∧ n ≤ c ∧ cst ws wa (decElemsC f n r).2 ≤ (q + p) * c) ∧
    cst ws wa (decElemsC f n r).2 ≤ q + (q + p) * r.len + s := by
  intro n
  induction n with
  | zero =>
    intro r
    have : decElemsC f 0 r = (.ok ([], r), Cost.zero) := rfl
    rw [this]
    refine ⟨?_, by simp [cst_zero]⟩
    intro vs r' h
    simp only [Except.ok.injEq, Prod.mk.injEq] at h
    exact ⟨0, by rw [h.2]; rfl, Nat.le_refl _, by simp [cst_zero]⟩
  | succ n ih =>
    intro r
    unfold decElemsC
    rw [DC_bind_apply]
    obtain ⟨f1, f2⟩ := hf r
    rcases hfr : f r with ⟨res, c⟩
    rw [hfr] at f1 f2
    cases res with
    | error e =>
      dsimp only at f2 ⊢
      refine ⟨(by intro vs r' h; cases h), ?_⟩
      have : p * r.len ≤ (q + p) * r.len := Nat.mul_le_mul_right _ (by omega)
      omega
    | ok x =>
      obtain ⟨v, r1⟩ := x
      dsimp only at f1 f2 ⊢
      obtain ⟨c1, hc1, hb1⟩ := f1 v r1 rfl
      have hstrict := hs r v r1 (by rw [hfr])
      have hc1pos : 1 ≤ c1 := by omega
      have hqc : q + p * c1 ≤ (q + p) * c1 := by
        rw [Nat.add_mul]
        have := Nat.le_mul_of_pos_right q (by omega : 0 < c1)
        omega
      obtain ⟨g1, g2⟩ := ih r1
      rw [DC_bind_apply, cst_add]
      rcases her : decElemsC f n r1 with ⟨res2, c2⟩
      rw [her] at g1 g2
      cases res2 with
      | error e =>
        dsimp only at g2 ⊢
        refine ⟨(by intro vs r' h; cases h), ?_⟩
        rw [hc1, Nat.mul_add]
        omega
      | ok y =>
        obtain ⟨vs, r2⟩ := y
        dsimp only at g1 g2 ⊢
        obtain ⟨c2', hc2, hn, hb2⟩ := g1 vs r2 rfl
        have hz : cst ws wa (c2.add ((pure (v :: vs) : DC (List Val)) r2).2) = cst ws wa c2 := by
          rw [cst_add, DC_pure_apply, cst_zero]; rfl
        rw [hz]
        refine ⟨?_, ?_⟩
        · intro vs' r' h
          rw [DC_pure_apply] at h
          simp only [Except.ok.injEq, Prod.mk.injEq] at h
          refine ⟨c2' + c1, by rw [← h.2]; omega, by omega, ?_⟩
          rw [Nat.mul_add]; omega
        · rw [hc1, Nat.mul_add]
          omega

end Stgutg.Proofs.AperCost
