import Stgutg.Gen.PureSecNas
import Stgutg.Model.NasAlg
import Stgutg.Base.Words
import Stgutg.Proofs.GenTieSecAlg
/-!
  Tie by translation (C07): `Gen/PureSecNas.lean` is regenerated from src/free5gclib/nas/security/security.go on every run by
  `gen pure-secnas` (the word-machine grammar, harness/cmd/gen/pure_secalg*.go; the SNOW 3G functions it calls are those of
  `Gen/PureSecAlg.lean`). Proved here, for ALL arguments:
  * the three GF(2^64) helpers `mulx`, `mulxPow` (recursion on fuel), `mul` (a loop over a uint64 counter with a shift by the
    counter) are the hand model's `mulx64`, `mulxPow64`, `mul64` (Model/NasAlg.lean);
  * `NIA1(ik, countI, bearer, direction, msg, 8*len(msg))` is `Model.NasAlg.nia1` for every 16-octet key (the Go type is
    `[16]byte`), every count / bearer / direction and every message incl. the empty one (a panic in both): `NIA1_eq`. The length
    argument is the one its only caller `NASMacCalculate` passes (`uint64(len(msg))*8`); the hand model has no other.
  * `NEA1(ck, countC, bearer, direction, ibs, 8*len(ibs))` is `Model.NasAlg.nea1` for every 16-octet key, every count / bearer /
    direction and every message of fewer than 2^28 octets (the hand model's stated bound is 2^29: `uint32(len)*8` must not
    wrap; here `length + 31` must not either): `NEA1_eq`. The length argument is the one its only caller `NASEncrypt` passes.
  NEA2 / NIA2 / NASEncrypt / NASMacCalculate are not translated.
-/
namespace Stgutg.Proofs.GenTie.SecNas
open Stgutg Stgutg.Gen Stgutg.Gen.Pure.SecNas

theorem okb {α β : Type} (a : α) (f : α → Res β) : ((Except.ok a : Res α) >>= f) = f a := rfl

theorem mulx_eq (v c : UInt64) : mulx v c = Model.NasAlg.mulx64 v c := by
  unfold mulx Model.NasAlg.mulx64
  by_cases h : v &&& 9223372036854775808 = 0 <;> simp [h]

theorem mulxPow_rec (fuel : Nat) : ∀ (v i c : UInt64), i.toNat < fuel →
    mulxPow.rec_ fuel v i c = .ok (Model.NasAlg.mulxPow64 v i.toNat c) := by
  induction fuel with
  | zero => intro v i c h; omega
  | succ n ih =>
    intro v i c h
    unfold mulxPow.rec_
    by_cases hi : i = 0
    · subst hi; simp [Model.NasAlg.mulxPow64]
    · have hne : i.toNat ≠ 0 := by
        intro h0; apply hi; exact UInt64.toNat_inj.mp (by simpa using h0)
      have hsub : (i - 1).toNat = i.toNat - 1 := by
        have : (1 : UInt64) ≤ i := by
          rw [UInt64.le_iff_toNat_le]; simp; omega
        rw [UInt64.toNat_sub_of_le _ _ this]; simp
      simp only [hi, decide_false, Bool.false_eq_true, if_false]
      rw [ih v (i - 1) c (by omega), okb, hsub, mulx_eq]
      obtain ⟨m, hm⟩ := Nat.exists_eq_succ_of_ne_zero hne
      rw [hm]; simp [Model.NasAlg.mulxPow64]

theorem mulxPow_eq (v i c : UInt64) : mulxPow v i c = .ok (Model.NasAlg.mulxPow64 v i.toNat c) :=
  mulxPow_rec _ v i c (by omega)

/-- the body of the hand model's fold -/
def step (v p c : UInt64) (rst : UInt64) (i : Nat) : UInt64 :=
  if (p >>> (UInt64.ofNat i)) &&& 1 == 1 then rst ^^^ Model.NasAlg.mulxPow64 v i c else rst

theorem mulLoop_eq (v p c : UInt64) (fuel : Nat) : ∀ (k : Nat) (rst : UInt64), k ≤ 64 → 64 - k < fuel →
    mul.loop1 v p c fuel (UInt64.ofNat k) rst = .ok ((List.range' k (64 - k)).foldl (step v p c) rst) := by
  induction fuel with
  | zero => intro k rst _ h; omega
  | succ n ih =>
    intro k rst hk hf
    unfold mul.loop1
    have htn : (UInt64.ofNat k).toNat = k := by
      rw [UInt64.toNat_ofNat']; exact Nat.mod_eq_of_lt (by omega)
    by_cases hlt : k < 64
    · have hc : UInt64.ofNat k < 64 := by
        rw [UInt64.lt_iff_toNat_lt, htn]; exact hlt
      have hsh : Go.shrv64 p k = p >>> UInt64.ofNat k := by
        unfold Go.shrv64; simp [hlt]
      have hnext : UInt64.ofNat k + 1 = UInt64.ofNat (k + 1) := by
        apply UInt64.toNat_inj.mp
        simp [UInt64.toNat_add, UInt64.toNat_ofNat']
      have hr : 64 - k = (64 - (k + 1)) + 1 := by omega
      simp only [hc, decide_true, if_true, mulxPow_eq, htn, hsh, okb, hnext]
      rw [hr, List.range'_succ, List.foldl_cons]
      by_cases hb : (p >>> UInt64.ofNat k) &&& 1 = 1
      · simp only [hb, decide_true, if_true, okb]
        rw [ih (k + 1) _ (by omega) (by omega)]
        have hs : step v p c rst k = rst ^^^ Model.NasAlg.mulxPow64 v k c := by unfold step; simp [hb]
        rw [hs]
      · simp only [hb, decide_false, Bool.false_eq_true, if_false, okb]
        rw [ih (k + 1) _ (by omega) (by omega)]
        have hs : step v p c rst k = rst := by unfold step; simp [hb]
        rw [hs]
    · have : k = 64 := by omega
      subst this
      simp

theorem mul_eq (v p c : UInt64) : mul v p c = .ok (Model.NasAlg.mul64 v p c) := by
  unfold mul
  have h := mulLoop_eq v p c 65 0 0 (by omega) (by omega)
  simp only [Nat.sub_zero] at h
  have h0 : UInt64.ofNat 0 = 0 := rfl
  rw [h0] at h
  simp only [h, okb]
  unfold Model.NasAlg.mul64
  rw [List.range_eq_range']
  rfl

theorem shl32_8 (x : UInt32) : x <<< 8 <<< 8 = x <<< 16 := (UInt32.shiftLeft_add (a := x) (b := 8) (c := 8) (by decide) (by decide) (by decide)).symm
theorem shl32_16 (x : UInt32) : x <<< 16 <<< 8 = x <<< 24 := (UInt32.shiftLeft_add (a := x) (b := 16) (c := 8) (by decide) (by decide) (by decide)).symm
theorem shl64_8 (x : UInt64) : x <<< 8 <<< 8 = x <<< 16 := (UInt64.shiftLeft_add (a := x) (b := 8) (c := 8) (by decide) (by decide) (by decide)).symm
theorem shl64_16 (x : UInt64) : x <<< 16 <<< 8 = x <<< 24 := (UInt64.shiftLeft_add (a := x) (b := 16) (c := 8) (by decide) (by decide) (by decide)).symm
theorem shl64_24 (x : UInt64) : x <<< 24 <<< 8 = x <<< 32 := (UInt64.shiftLeft_add (a := x) (b := 24) (c := 8) (by decide) (by decide) (by decide)).symm
theorem shl64_32 (x : UInt64) : x <<< 32 <<< 8 = x <<< 40 := (UInt64.shiftLeft_add (a := x) (b := 32) (c := 8) (by decide) (by decide) (by decide)).symm
theorem shl64_40 (x : UInt64) : x <<< 40 <<< 8 = x <<< 48 := (UInt64.shiftLeft_add (a := x) (b := 40) (c := 8) (by decide) (by decide) (by decide)).symm
theorem shl64_48 (x : UInt64) : x <<< 48 <<< 8 = x <<< 56 := (UInt64.shiftLeft_add (a := x) (b := 48) (c := 8) (by decide) (by decide) (by decide)).symm

theorem be32_4 (a b c d : UInt8) :
    be32 [a, b, c, d] = (a.toUInt32 <<< 24) ||| (b.toUInt32 <<< 16) ||| (c.toUInt32 <<< 8) ||| d.toUInt32 := by
  simp only [be32, List.foldl_cons, List.foldl_nil, UInt32.zero_shiftLeft, UInt32.zero_or, UInt32.shiftLeft_or, shl32_8, shl32_16]

theorem be64_8 (a b c d e f g h : UInt8) :
    be64 [a, b, c, d, e, f, g, h] = (a.toUInt64 <<< 56) ||| (b.toUInt64 <<< 48) ||| (c.toUInt64 <<< 40) ||| (d.toUInt64 <<< 32) |||
      (e.toUInt64 <<< 24) ||| (f.toUInt64 <<< 16) ||| (g.toUInt64 <<< 8) ||| h.toUInt64 := by
  simp only [be64, List.foldl_cons, List.foldl_nil, UInt64.zero_shiftLeft, UInt64.zero_or, UInt64.shiftLeft_or,
    shl64_8, shl64_16, shl64_24, shl64_32, shl64_40, shl64_48]

theorem keyLoop_eq (a0 a1 a2 a3 a4 a5 a6 a7 a8 a9 a10 a11 a12 a13 a14 a15 : UInt8) :
    NIA1.loop1 [a0, a1, a2, a3, a4, a5, a6, a7, a8, a9, a10, a11, a12, a13, a14, a15] 5 0 [0, 0, 0, 0]
      = .ok [be32 [a12, a13, a14, a15], be32 [a8, a9, a10, a11], be32 [a4, a5, a6, a7], be32 [a0, a1, a2, a3]] := by
  simp [NIA1.loop1, Go.slice, Go.beU32, Go.set, okb, be32_4]


theorem beU64_eq (l : Bytes) (h : 8 ≤ l.length) : Go.beU64 l = .ok (be64 (l.take 8)) := by
  match l, h with
  | a :: b :: c :: d :: e :: f :: g :: hh :: rest, _ => simp [Go.beU64, be64_8]

theorem beU64_short (l : Bytes) (h : l.length < 8) : Go.beU64 l = .error .panic := by
  match l, h with
  | [], _ => rfl
  | [_], _ => rfl
  | [_, _], _ => rfl
  | [_, _, _], _ => rfl
  | [_, _, _, _], _ => rfl
  | [_, _, _, _, _], _ => rfl
  | [_, _, _, _, _, _], _ => rfl
  | [_, _, _, _, _, _, _], _ => rfl
  | _ :: _ :: _ :: _ :: _ :: _ :: _ :: _ :: rest, h => simp at h; omega

/-- the full blocks of the hand model's `evalBlocks` -/
def foldBlocks (p : UInt64) : Nat → UInt64 → Bytes → UInt64
  | 0, ev, _ => ev
  | n + 1, ev, m => foldBlocks p n (Model.NasAlg.mul64 (ev ^^^ be64 (m.take 8)) p 0x1b) (m.drop 8)

theorem evalBlocks_eq (p : UInt64) (n : Nat) : ∀ (fuel : Nat) (ev : UInt64) (m : Bytes), n < fuel →
    8 * n < m.length → m.length ≤ 8 * n + 8 →
    Model.NasAlg.evalBlocks p fuel ev m
      = Model.NasAlg.mul64 (foldBlocks p n ev m ^^^ be64 (m.drop (8 * n) ++ List.replicate (8 - (m.length - 8 * n)) 0)) p 0x1b := by
  induction n with
  | zero =>
    intro fuel ev m hf h1 h2
    obtain ⟨f, rfl⟩ := Nat.exists_eq_succ_of_ne_zero (by omega : fuel ≠ 0)
    have : m.length ≤ 8 := by omega
    simp [Model.NasAlg.evalBlocks, this, foldBlocks]
  | succ n ih =>
    intro fuel ev m hf h1 h2
    obtain ⟨f, rfl⟩ := Nat.exists_eq_succ_of_ne_zero (by omega : fuel ≠ 0)
    have : ¬ m.length ≤ 8 := by omega
    simp only [Model.NasAlg.evalBlocks, this, if_false, foldBlocks]
    rw [ih f _ (m.drop 8) (by omega) (by simp; omega) (by simp; omega)]
    simp only [List.drop_drop, List.length_drop]
    have e1 : 8 + 8 * n = 8 * (n + 1) := by omega
    have e2 : m.length - 8 - 8 * n = m.length - 8 * (n + 1) := by omega
    rw [e1, e2]


theorem ofNat_toNat64 (n : Nat) (h : n < 2 ^ 64) : (UInt64.ofNat n).toNat = n := by
  rw [UInt64.toNat_ofNat']; exact Nat.mod_eq_of_lt h

theorem evalLoop_eq (msg : Bytes) (D P : UInt64) (nb : Nat) (hD : D - 2 = UInt64.ofNat nb) (hnb : 8 * nb + 8 < 2 ^ 63)
    (hlen : 8 * nb < msg.length) (fuel : Nat) : ∀ (j : Nat) (ev : UInt64), j ≤ nb → nb - j < fuel →
    NIA1.loop2 msg D P fuel (UInt64.ofNat j) ev = .ok (foldBlocks P (nb - j) ev (msg.drop (8 * j))) := by
  induction fuel with
  | zero => intro j ev _ h; omega
  | succ n ih =>
    intro j ev hj hf
    unfold NIA1.loop2
    rw [hD]
    by_cases hlt : j < nb
    · have hc : UInt64.ofNat j < UInt64.ofNat nb := by
        rw [UInt64.lt_iff_toNat_lt, ofNat_toNat64 _ (by omega), ofNat_toNat64 _ (by omega)]; exact hlt
      have h8 : ((8 : UInt64) * UInt64.ofNat j).toNat = 8 * j := by
        rw [UInt64.toNat_mul, ofNat_toNat64 _ (by omega)]
        exact Nat.mod_eq_of_lt (by simp; omega)
      have hsl : Go.sliceFrom msg ((8 * j : Nat) : Int) = .ok (msg.drop (8 * j)) := by
        unfold Go.sliceFrom
        have : (0 : Int) ≤ ((8 * j : Nat) : Int) ∧ ((8 * j : Nat) : Int) ≤ (msg.length : Int) := by omega
        rw [if_pos this, Int.toNat_natCast]
      have hbe : Go.beU64 (msg.drop (8 * j)) = .ok (be64 ((msg.drop (8 * j)).take 8)) :=
        beU64_eq _ (by simp; omega)
      have hnext : UInt64.ofNat j + 1 = UInt64.ofNat (j + 1) := by
        apply UInt64.toNat_inj.mp
        simp [UInt64.toNat_add, UInt64.toNat_ofNat']
      have hr : nb - j = (nb - (j + 1)) + 1 := by omega
      simp only [hc, decide_true, if_true, h8, hsl, hbe, okb, mul_eq, hnext]
      rw [ih (j + 1) _ (by omega) (by omega), hr]
      simp only [foldBlocks, List.drop_drop]
      rw [show 8 * j + 8 = 8 * (j + 1) by omega]
    · have : j = nb := by omega
      subst this
      have hc : ¬ (UInt64.ofNat j < UInt64.ofNat j) := by
        rw [UInt64.lt_iff_toNat_lt]; omega
      simp [hc, foldBlocks]


theorem genWords_length (n : Nat) : ∀ st, (Model.Snow3g.genWords n st).1.length = n := by
  induction n with
  | zero => intro st; rfl
  | succ n ih => intro st; simp [Model.Snow3g.genWords, ih]

theorem generateKeystream_length (n : Nat) (st : Model.Snow3g.State) : (Model.Snow3g.generateKeystream n st).1.length = n := by
  simp [Model.Snow3g.generateKeystream, genWords_length]

theorem len5 (l : List UInt32) (h : l.length = 5) : ∃ z0 z1 z2 z3 z4, l = [z0, z1, z2, z3, z4] := by
  match l, h with
  | [z0, z1, z2, z3, z4], _ => exact ⟨z0, z1, z2, z3, z4, rfl⟩

theorem make5 : Go.make (0 : UInt32) 5 = .ok [0, 0, 0, 0, 0] := rfl
theorem make8 : Go.make (0 : UInt8) 8 = .ok [0, 0, 0, 0, 0, 0, 0, 0] := rfl
theorem make4 : Go.make (0 : UInt8) 4 = .ok [0, 0, 0, 0] := rfl
theorem rep4 : List.replicate 4 (0 : UInt32) = [0, 0, 0, 0] := rfl


theorem putU32_eq (w : UInt32) : Go.putU32BE [0, 0, 0, 0] w = .ok (u32Bytes w) := rfl

theorem nia1_tail (msg : Bytes) (hlen : msg.length < 2 ^ 59) (P Q : UInt64) (z4 : UInt32) :
    (NIA1.loop2 msg ((UInt64.ofNat (8 * List.length msg) + 63) / 64 + 1) P
            (((UInt64.ofNat (8 * List.length msg) + 63) / 64 + 1 - 2 - 0).toNat + 1) 0 0 >>= fun t15 =>
      Go.sliceFrom msg ↑(8 * ((UInt64.ofNat (8 * List.length msg) + 63) / 64 + 1 - 2)).toNat >>= fun t17 =>
      Go.beU64 (Go.copy [0, 0, 0, 0, 0, 0, 0, 0] t17) >>= fun t18 =>
      mul (t15 ^^^ t18) P 27 >>= fun t19 =>
      mul (t19 ^^^ UInt64.ofNat (8 * List.length msg)) Q 27 >>= fun t20 =>
      Go.putU32BE [0, 0, 0, 0] ((t20 >>> 32).toUInt32 ^^^ z4) >>= fun t23 =>
      (Except.ok (t23, false) : Res (Bytes × Bool))) =
    Except.map (fun mac => (mac, false))
      (if List.isEmpty msg = true then Except.error Err.panic
      else
        Except.ok
          (u32Bytes
            ((Model.NasAlg.mul64
                    (Model.NasAlg.evalBlocks P (List.length msg / 8 + 1) 0 msg ^^^
                      UInt64.ofNat (8 * List.length msg))
                    Q 27 >>>
                  32).toUInt32 ^^^
              z4))) := by
  by_cases he : msg = []
  · subst he
    unfold NIA1.loop2
    have hc : (0 : UInt64) < (UInt64.ofNat (8 * ([] : Bytes).length) + 63) / 64 + 1 - 2 := by decide
    simp only [hc, decide_true, if_true]
    have hs : Go.sliceFrom ([] : Bytes) ↑((8 : UInt64) * 0).toNat = .ok [] := rfl
    rw [hs, okb]
    rfl
  · have hpos : 0 < msg.length := List.length_pos_iff.mpr he
    have hne : msg.isEmpty = false := by simp [he]
    generalize hL : msg.length = L at *
    have h1 : (UInt64.ofNat (8 * L)).toNat = 8 * L := ofNat_toNat64 _ (by omega)
    have hDn : ((UInt64.ofNat (8 * L) + 63) / 64 + 1).toNat = (8 * L + 63) / 64 + 1 := by
      rw [UInt64.toNat_add, UInt64.toNat_div, UInt64.toNat_add, h1]
      simp
      omega
    have hD : (UInt64.ofNat (8 * L) + 63) / 64 + 1 - 2 = UInt64.ofNat ((8 * L + 63) / 64 - 1) := by
      apply UInt64.toNat_inj.mp
      rw [UInt64.toNat_sub_of_le _ _ (by rw [UInt64.le_iff_toNat_le, hDn]; simp; omega), hDn,
        ofNat_toNat64 _ (by omega)]
      simp
    generalize hnb : (8 * L + 63) / 64 - 1 = nb at hD
    have hb1 : 8 * nb < L := by omega
    have hb2 : L ≤ 8 * nb + 8 := by omega
    have hloop := evalLoop_eq msg _ P nb hD (by omega) (by omega) (nb + 1) 0 0 (by omega) (by omega)
    have h0 : UInt64.ofNat 0 = 0 := rfl
    rw [h0] at hloop
    simp only [Nat.mul_zero, List.drop_zero, Nat.sub_zero] at hloop
    have hfuel : ((UInt64.ofNat (8 * L) + 63) / 64 + 1 - 2 - 0).toNat + 1 = nb + 1 := by
      rw [UInt64.sub_zero, hD, ofNat_toNat64 _ (by omega)]
    rw [hfuel, hloop, okb, hD]
    have h8 : ((8 : UInt64) * UInt64.ofNat nb).toNat = 8 * nb := by
      rw [UInt64.toNat_mul, ofNat_toNat64 _ (by omega)]
      exact Nat.mod_eq_of_lt (by simp; omega)
    have hsl : Go.sliceFrom msg ((8 * nb : Nat) : Int) = .ok (msg.drop (8 * nb)) := by
      unfold Go.sliceFrom
      have : (0 : Int) ≤ ((8 * nb : Nat) : Int) ∧ ((8 * nb : Nat) : Int) ≤ (msg.length : Int) := by omega
      rw [if_pos this, Int.toNat_natCast]
    rw [h8, hsl, okb]
    have hcopy : Go.copy [0, 0, 0, 0, 0, 0, 0, 0] (msg.drop (8 * nb))
        = msg.drop (8 * nb) ++ List.replicate (8 - (L - 8 * nb)) 0 := by
      unfold Go.copy
      have hl : (msg.drop (8 * nb)).length = L - 8 * nb := by simp [hL]
      rw [hl]
      have ht : List.take ([(0 : UInt8), 0, 0, 0, 0, 0, 0, 0]).length (msg.drop (8 * nb)) = msg.drop (8 * nb) :=
        List.take_of_length_le (by rw [hl]; simp; omega)
      rw [ht]
      congr 1
      have : L - 8 * nb = 1 ∨ L - 8 * nb = 2 ∨ L - 8 * nb = 3 ∨ L - 8 * nb = 4 ∨ L - 8 * nb = 5 ∨ L - 8 * nb = 6 ∨
          L - 8 * nb = 7 ∨ L - 8 * nb = 8 := by omega
      rcases this with h | h | h | h | h | h | h | h <;> rw [h] <;> rfl
    have hbe : Go.beU64 (msg.drop (8 * nb) ++ List.replicate (8 - (L - 8 * nb)) 0)
        = .ok (be64 (msg.drop (8 * nb) ++ List.replicate (8 - (L - 8 * nb)) 0)) := by
      have hl8 : (msg.drop (8 * nb) ++ List.replicate (8 - (L - 8 * nb)) (0 : UInt8)).length = 8 := by
        simp [hL]; omega
      rw [beU64_eq _ (by omega), List.take_of_length_le (by omega)]
    rw [hcopy, hbe, okb, mul_eq, okb, mul_eq, okb, putU32_eq, okb]
    rw [evalBlocks_eq P nb (L / 8 + 1) 0 msg (by omega) (by omega) (by omega), hL]
    simp [hne, Except.map]

theorem NIA1_eq (ik : Bytes) (hik : ik.length = 16) (count : UInt32) (bearer : UInt8) (dir : UInt32) (msg : Bytes)
    (hlen : msg.length < 2 ^ 59) :
    NIA1 ik count bearer dir msg (UInt64.ofNat (8 * msg.length))
      = (Model.NasAlg.nia1 ik count bearer dir msg).map (fun mac => (mac, false)) := by
  match ik, hik with
  | [a0, a1, a2, a3, a4, a5, a6, a7, a8, a9, a10, a11, a12, a13, a14, a15], _ =>
  unfold NIA1
  simp only [rep4, keyLoop_eq, okb, make5, SecAlg.InitSnow3g_eq]
  have hk : Model.NasAlg.keyWords [a0, a1, a2, a3, a4, a5, a6, a7, a8, a9, a10, a11, a12, a13, a14, a15]
      = (be32 [a12, a13, a14, a15], be32 [a8, a9, a10, a11], be32 [a4, a5, a6, a7], be32 [a0, a1, a2, a3]) := rfl
  unfold Model.NasAlg.nia1
  simp only [hk]
  generalize Model.Snow3g.initSnow3g (be32 [a12, a13, a14, a15]) (be32 [a8, a9, a10, a11]) (be32 [a4, a5, a6, a7])
                  (be32 [a0, a1, a2, a3]) (bearer.toUInt32 <<< 27 ^^^ dir <<< 15) (count ^^^ dir <<< 31)
                  (bearer.toUInt32 <<< 27) count = st
  have hg := SecAlg.GenerateKeystream_eq st 5 [0, 0, 0, 0, 0] (by simp) (by simp)
  rw [show ((5 : Nat) : Int) = 5 from rfl] at hg
  rw [hg]
  obtain ⟨z0, z1, z2, z3, z4, hz⟩ := len5 _ (generateKeystream_length 5 st)
  rw [hz, okb]
  have hi0 : Go.idx ([z0, z1, z2, z3, z4] ++ List.drop 5 [(0 : UInt32), 0, 0, 0, 0]) 0 = .ok z0 := rfl
  have hi1 : Go.idx ([z0, z1, z2, z3, z4] ++ List.drop 5 [(0 : UInt32), 0, 0, 0, 0]) 1 = .ok z1 := rfl
  have hi2 : Go.idx ([z0, z1, z2, z3, z4] ++ List.drop 5 [(0 : UInt32), 0, 0, 0, 0]) 2 = .ok z2 := rfl
  have hi3 : Go.idx ([z0, z1, z2, z3, z4] ++ List.drop 5 [(0 : UInt32), 0, 0, 0, 0]) 3 = .ok z3 := rfl
  have hi4 : Go.idx ([z0, z1, z2, z3, z4] ++ List.drop 5 [(0 : UInt32), 0, 0, 0, 0]) 4 = .ok z4 := rfl
  simp only [hi0, hi1, hi2, hi3, hi4, okb, make8, make4]
  clear hi0 hi1 hi2 hi3 hi4 hg hz hk
  generalize (z0.toUInt64 <<< 32 ||| z1.toUInt64) = P
  generalize (z2.toUInt64 <<< 32 ||| z3.toUInt64) = Q
  exact nia1_tail msg hlen P Q z4


/-! ### NEA1 -/

theorem idx_app {α : Type} (pre l : List α) (j : Nat) (n : Nat) (hn : pre.length = n) :
    Go.idx (pre ++ l) ((n + j : Nat) : Int) = Go.idx l (j : Int) := by
  subst hn
  unfold Go.idx
  have h0 : (0 : Int) ≤ ((pre.length + j : Nat) : Int) := by omega
  have h1 : (0 : Int) ≤ (j : Int) := by omega
  rw [if_pos h0, if_pos h1, Int.toNat_natCast, Int.toNat_natCast, List.getElem?_append_right (by omega)]
  simp

theorem set_app {α : Type} (pre l : List α) (j : Nat) (n : Nat) (hn : pre.length = n) (v : α) :
    Go.set (pre ++ l) ((n + j : Nat) : Int) v = (Go.set l (j : Int) v).map (pre ++ ·) := by
  subst hn
  unfold Go.set
  by_cases h : j < l.length
  · have h1 : (0 : Int) ≤ ((pre.length + j : Nat) : Int) ∧ ((pre.length + j : Nat) : Int) < ((pre ++ l).length : Int) := by
      simp; omega
    have h2 : (0 : Int) ≤ (j : Int) ∧ (j : Int) < (l.length : Int) := by omega
    rw [if_pos h1, if_pos h2, Int.toNat_natCast, Int.toNat_natCast, List.set_append_right _ _ (by omega)]
    simp [Except.map]
  · have h1 : ¬ ((0 : Int) ≤ ((pre.length + j : Nat) : Int) ∧ ((pre.length + j : Nat) : Int) < ((pre ++ l).length : Int)) := by
      simp; omega
    have h2 : ¬ ((0 : Int) ≤ (j : Int) ∧ (j : Int) < (l.length : Int)) := by omega
    rw [if_neg h1, if_neg h2]
    rfl

theorem toU8_and255 (x : UInt32) : (x &&& 255).toUInt8 = x.toUInt8 := by
  rw [UInt32.toUInt8_and]
  exact SecAlg.u8_and255 _


theorem ofNat_toNat32 (n : Nat) (h : n < 2 ^ 32) : (UInt32.ofNat n).toNat = n := by
  rw [UInt32.toNat_ofNat']; exact Nat.mod_eq_of_lt h

theorem pos32 (i j : Nat) (jj : UInt32) (hjj : jj.toNat = j) (h : 4 * i + j < 2 ^ 32) :
    ((4 : UInt32) * UInt32.ofNat i + jj).toNat = 4 * i + j := by
  rw [UInt32.toNat_add, UInt32.toNat_mul, ofNat_toNat32 _ (by omega), hjj]
  simp
  omega

theorem shr24 (w : UInt32) : Go.shrv32 w 24 = w >>> 24 := rfl
theorem shr16 (w : UInt32) : Go.shrv32 w 16 = w >>> 16 := rfl
theorem shr8 (w : UInt32) : Go.shrv32 w 8 = w >>> 8 := rfl
theorem shr0 (w : UInt32) : Go.shrv32 w 0 = w := by unfold Go.shrv32; simp

/-- one byte of the xor loops, at position 4i+j of a buffer split at 4i -/
theorem xorStep (ipre pre il ol : Bytes) (ks : List UInt32) (w : UInt32) (i j : Nat) (h : 4 * i + j < 2 ^ 32)
    (hip : ipre.length = 4 * i) (hp : pre.length = 4 * i) (hw : ks[i]? = some w) (c : UInt8) (hc : il[j]? = some c)
    (hj : j < ol.length) (sh : Nat) (jj : UInt32) (hjj : jj.toNat = j) {β : Type} (f : Bytes → Res β) :
    (Go.idx (ipre ++ il) ((((4 : UInt32) * UInt32.ofNat i) + jj).toNat : Int) >>= fun t12 =>
      Go.idx ks ((UInt32.ofNat i).toNat : Int) >>= fun t13 =>
      Go.set (pre ++ ol) ((((4 : UInt32) * UInt32.ofNat i) + jj).toNat : Int)
        (t12 ^^^ (((Go.shrv32 t13 sh) &&& (255 : UInt32)).toUInt8)) >>= fun t14 => f t14)
      = f (pre ++ ol.set j (c ^^^ (Go.shrv32 w sh).toUInt8)) := by
  rw [pos32 i j jj hjj h, ofNat_toNat32 i (by omega), idx_app ipre il j _ hip]
  have h1 : Go.idx il (j : Int) = .ok c := by
    unfold Go.idx; simp [hc]
  have h2 : Go.idx ks (i : Int) = .ok w := by
    unfold Go.idx; simp [hw]
  rw [h1, okb, h2, okb, toU8_and255, set_app pre ol j _ hp]
  have h3 : Go.set ol (j : Int) (c ^^^ (Go.shrv32 w sh).toUInt8) = .ok (ol.set j (c ^^^ (Go.shrv32 w sh).toUInt8)) := by
    unfold Go.set
    have : (0 : Int) ≤ (j : Int) ∧ (j : Int) < (ol.length : Int) := by omega
    rw [if_pos this, Int.toNat_natCast]
  rw [h3]
  rfl


theorem inner4 (ipre irest pre rest : Bytes) (c0 c1 c2 c3 b0 b1 b2 b3 : UInt8) (ks : List UInt32) (w : UInt32)
    (i : Nat) (hi : 4 * i + 3 < 2 ^ 32) (hip : ipre.length = 4 * i) (hp : pre.length = 4 * i)
    (hw : ks[i]? = some w) :
    NEA1.loop3 (ipre ++ c0 :: c1 :: c2 :: c3 :: irest) ks (UInt32.ofNat i) 5 0 (pre ++ b0 :: b1 :: b2 :: b3 :: rest)
      = .ok (pre ++ (c0 ^^^ (w >>> 24).toUInt8) :: (c1 ^^^ (w >>> 16).toUInt8) :: (c2 ^^^ (w >>> 8).toUInt8) ::
          (c3 ^^^ w.toUInt8) :: rest) := by
  simp only [NEA1.loop3, UInt32.reduceAdd, UInt32.reduceLT, UInt32.reduceSub, UInt32.reduceMul, UInt32.reduceToNat,
    decide_true, decide_false, if_true, Bool.false_eq_true, if_false]
  rw [xorStep ipre pre _ _ ks w i 0 (by omega) hip hp hw c0 rfl (by simp) 24 0 rfl,
      xorStep ipre pre _ _ ks w i 1 (by omega) hip hp hw c1 rfl (by simp) 16 1 rfl,
      xorStep ipre pre _ _ ks w i 2 (by omega) hip hp hw c2 rfl (by simp) 8 2 rfl,
      xorStep ipre pre _ _ ks w i 3 (by omega) hip hp hw c3 rfl (by simp) 0 3 rfl]
  simp [shr24, shr16, shr8, shr0]


theorem inner4' (ibs obs ipre irest pre rest : Bytes) (c0 c1 c2 c3 b0 b1 b2 b3 : UInt8) (ks : List UInt32) (w : UInt32)
    (i : Nat) (hi : 4 * i + 3 < 2 ^ 32) (hip : ipre.length = 4 * i) (hp : pre.length = 4 * i)
    (hw : ks[i]? = some w) (hib : ibs = ipre ++ c0 :: c1 :: c2 :: c3 :: irest) (hob : obs = pre ++ b0 :: b1 :: b2 :: b3 :: rest) :
    NEA1.loop3 ibs ks (UInt32.ofNat i) 5 0 obs
      = .ok (pre ++ (c0 ^^^ (w >>> 24).toUInt8) :: (c1 ^^^ (w >>> 16).toUInt8) :: (c2 ^^^ (w >>> 8).toUInt8) ::
          (c3 ^^^ w.toUInt8) :: rest) := by
  subst hib hob
  exact inner4 ipre irest pre rest c0 c1 c2 c3 b0 b1 b2 b3 ks w i hi hip hp hw

theorem xorWords_length (a : List UInt32) : ∀ (ibs : Bytes), 4 * a.length ≤ ibs.length →
    (Model.NasAlg.xorWords a ibs).length = 4 * a.length := by
  induction a with
  | nil => intro ibs _; rfl
  | cons w ws ih =>
    intro ibs h
    simp only [Model.NasAlg.xorWords, List.length_append, List.length_zipWith, List.length_take, u32Bytes_length,
      List.length_cons] at *
    rw [ih (ibs.drop 4) (by simp; omega)]
    omega

theorem xorWords_append (a : List UInt32) (w : UInt32) : ∀ (ibs : Bytes), 4 * a.length ≤ ibs.length →
    Model.NasAlg.xorWords (a ++ [w]) ibs
      = Model.NasAlg.xorWords a ibs ++ List.zipWith (· ^^^ ·) ((ibs.drop (4 * a.length)).take 4) (u32Bytes w) := by
  induction a with
  | nil => intro ibs _; simp [Model.NasAlg.xorWords]
  | cons x xs ih =>
    intro ibs h
    simp only [List.cons_append, Model.NasAlg.xorWords, List.length_cons] at *
    rw [ih (ibs.drop 4) (by simp; omega), List.append_assoc, List.drop_drop]
    rw [show 4 + 4 * xs.length = 4 * (xs.length + 1) by omega]


theorem split4 (l : Bytes) (h : 4 ≤ l.length) : ∃ c0 c1 c2 c3 rest, l = c0 :: c1 :: c2 :: c3 :: rest := by
  match l, h with
  | c0 :: c1 :: c2 :: c3 :: rest, _ => exact ⟨c0, c1, c2, c3, rest, rfl⟩

theorem outer_eq (ibs : Bytes) (length : UInt32) (ks : List UInt32) (nw : Nat) (hnw : length / 32 = UInt32.ofNat nw)
    (hL : 4 * nw ≤ ibs.length) (hks : nw ≤ ks.length) (hb : ibs.length < 2 ^ 28) (fuel : Nat) :
    ∀ i, i ≤ nw → nw - i < fuel →
    NEA1.loop2 ibs length ks fuel (UInt32.ofNat i)
        (Model.NasAlg.xorWords (ks.take i) ibs ++ List.replicate (ibs.length - 4 * i) 0)
      = .ok (UInt32.ofNat nw, Model.NasAlg.xorWords (ks.take nw) ibs ++ List.replicate (ibs.length - 4 * nw) 0) := by
  induction fuel with
  | zero => intro i _ h; omega
  | succ n ih =>
    intro i hi hf
    unfold NEA1.loop2
    rw [hnw]
    by_cases hlt : i < nw
    · have hc : UInt32.ofNat i < UInt32.ofNat nw := by
        rw [UInt32.lt_iff_toNat_lt, ofNat_toNat32 _ (by omega), ofNat_toNat32 _ (by omega)]; exact hlt
      have hiks : i < ks.length := by omega
      have hw : ks[i]? = some ks[i] := List.getElem?_eq_getElem hiks
      obtain ⟨c0, c1, c2, c3, irest, hd⟩ := split4 (ibs.drop (4 * i)) (by simp; omega)
      have hib : ibs = ibs.take (4 * i) ++ c0 :: c1 :: c2 :: c3 :: irest := by
        rw [← hd, List.take_append_drop]
      have hrep : List.replicate (ibs.length - 4 * i) (0 : UInt8)
          = 0 :: 0 :: 0 :: 0 :: List.replicate (ibs.length - 4 * (i + 1)) 0 := by
        rw [show ibs.length - 4 * i = (ibs.length - 4 * (i + 1)) + 1 + 1 + 1 + 1 by omega]
        simp [List.replicate_succ]
      have hpl : (Model.NasAlg.xorWords (ks.take i) ibs).length = 4 * i := by
        rw [xorWords_length _ _ (by simp; omega)]; simp; omega
      have hin := inner4' ibs (Model.NasAlg.xorWords (ks.take i) ibs ++ List.replicate (ibs.length - 4 * i) 0) (ibs.take (4 * i)) irest (Model.NasAlg.xorWords (ks.take i) ibs)
        (List.replicate (ibs.length - 4 * (i + 1)) 0) c0 c1 c2 c3 0 0 0 0 ks ks[i] i (by omega) (by simp; omega) hpl hw hib
        (by rw [hrep])
      have hnext : UInt32.ofNat i + 1 = UInt32.ofNat (i + 1) := by
        apply UInt32.toNat_inj.mp
        simp [UInt32.toNat_add, UInt32.toNat_ofNat']
      simp only [hc, decide_true, if_true, hin, okb, hnext]
      have htk : ks.take (i + 1) = ks.take i ++ [ks[i]] := by
        rw [List.take_add_one, List.getElem?_eq_getElem hiks]; rfl
      have hnew : Model.NasAlg.xorWords (ks.take i) ibs ++ (c0 ^^^ (ks[i] >>> 24).toUInt8) :: (c1 ^^^ (ks[i] >>> 16).toUInt8) ::
            (c2 ^^^ (ks[i] >>> 8).toUInt8) :: (c3 ^^^ (ks[i]).toUInt8) :: List.replicate (ibs.length - 4 * (i + 1)) 0
          = Model.NasAlg.xorWords (ks.take (i + 1)) ibs ++ List.replicate (ibs.length - 4 * (i + 1)) 0 := by
        rw [htk, xorWords_append _ _ _ (by simp; omega)]
        have : (ks.take i).length = i := by simp; omega
        rw [this, hd]
        simp [u32Bytes]
      rw [hnew]
      exact ih (i + 1) (by omega) (by omega)
    · have : i = nw := by omega
      subst this
      have hc : ¬ (UInt32.ofNat i < UInt32.ofNat i) := by
        rw [UInt32.lt_iff_toNat_lt]; omega
      simp [hc]


theorem tail1 (ipre pre : Bytes) (c0 : UInt8) (ks : List UInt32) (w : UInt32) (i : Nat) (hi : 4 * i + 3 < 2 ^ 32)
    (hip : ipre.length = 4 * i) (hp : pre.length = 4 * i) (hw : ks[i]? = some w) :
    NEA1.loop4 (ipre ++ [c0]) ks (UInt32.ofNat i) 1 (((1 : UInt32) - 0).toNat + 1) 0 (pre ++ [0])
      = .ok (pre ++ [c0 ^^^ (w >>> 24).toUInt8]) := by
  simp only [NEA1.loop4, UInt32.reduceAdd, UInt32.reduceLT, UInt32.reduceSub, UInt32.reduceMul, UInt32.reduceToNat,
    decide_true, decide_false, if_true, Bool.false_eq_true, if_false]
  rw [xorStep ipre pre _ _ ks w i 0 (by omega) hip hp hw c0 rfl (by simp) 24 0 rfl]
  simp [shr24]

theorem tail2 (ipre pre : Bytes) (c0 c1 : UInt8) (ks : List UInt32) (w : UInt32) (i : Nat) (hi : 4 * i + 3 < 2 ^ 32)
    (hip : ipre.length = 4 * i) (hp : pre.length = 4 * i) (hw : ks[i]? = some w) :
    NEA1.loop4 (ipre ++ [c0, c1]) ks (UInt32.ofNat i) 2 (((2 : UInt32) - 0).toNat + 1) 0 (pre ++ [0, 0])
      = .ok (pre ++ [c0 ^^^ (w >>> 24).toUInt8, c1 ^^^ (w >>> 16).toUInt8]) := by
  simp only [NEA1.loop4, UInt32.reduceAdd, UInt32.reduceLT, UInt32.reduceSub, UInt32.reduceMul, UInt32.reduceToNat,
    decide_true, decide_false, if_true, Bool.false_eq_true, if_false]
  rw [xorStep ipre pre _ _ ks w i 0 (by omega) hip hp hw c0 rfl (by simp) 24 0 rfl,
      xorStep ipre pre _ _ ks w i 1 (by omega) hip hp hw c1 rfl (by simp) 16 1 rfl]
  simp [shr24, shr16]

theorem tail3 (ipre pre : Bytes) (c0 c1 c2 : UInt8) (ks : List UInt32) (w : UInt32) (i : Nat) (hi : 4 * i + 3 < 2 ^ 32)
    (hip : ipre.length = 4 * i) (hp : pre.length = 4 * i) (hw : ks[i]? = some w) :
    NEA1.loop4 (ipre ++ [c0, c1, c2]) ks (UInt32.ofNat i) 3 (((3 : UInt32) - 0).toNat + 1) 0 (pre ++ [0, 0, 0])
      = .ok (pre ++ [c0 ^^^ (w >>> 24).toUInt8, c1 ^^^ (w >>> 16).toUInt8, c2 ^^^ (w >>> 8).toUInt8]) := by
  simp only [NEA1.loop4, UInt32.reduceAdd, UInt32.reduceLT, UInt32.reduceSub, UInt32.reduceMul, UInt32.reduceToNat,
    decide_true, decide_false, if_true, Bool.false_eq_true, if_false]
  rw [xorStep ipre pre _ _ ks w i 0 (by omega) hip hp hw c0 rfl (by simp) 24 0 rfl,
      xorStep ipre pre _ _ ks w i 1 (by omega) hip hp hw c1 rfl (by simp) 16 1 rfl,
      xorStep ipre pre _ _ ks w i 2 (by omega) hip hp hw c2 rfl (by simp) 8 2 rfl]
  simp [shr24, shr16, shr8]




theorem tail1' (ibs obs ipre pre : Bytes) (c0 : UInt8) (ks : List UInt32) (w : UInt32) (i : Nat) (hi : 4 * i + 3 < 2 ^ 32)
    (hip : ipre.length = 4 * i) (hp : pre.length = 4 * i) (hw : ks[i]? = some w) (hib : ibs = ipre ++ [c0])
    (hob : obs = pre ++ [0]) (ll : UInt32) (hll : ll = 1) :
    NEA1.loop4 ibs ks (UInt32.ofNat i) ll ((ll - 0).toNat + 1) 0 obs = .ok (pre ++ [c0 ^^^ (w >>> 24).toUInt8]) := by
  subst hib hob hll
  exact tail1 ipre pre c0 ks w i hi hip hp hw

theorem tail2' (ibs obs ipre pre : Bytes) (c0 c1 : UInt8) (ks : List UInt32) (w : UInt32) (i : Nat) (hi : 4 * i + 3 < 2 ^ 32)
    (hip : ipre.length = 4 * i) (hp : pre.length = 4 * i) (hw : ks[i]? = some w) (hib : ibs = ipre ++ [c0, c1])
    (hob : obs = pre ++ [0, 0]) (ll : UInt32) (hll : ll = 2) :
    NEA1.loop4 ibs ks (UInt32.ofNat i) ll ((ll - 0).toNat + 1) 0 obs
      = .ok (pre ++ [c0 ^^^ (w >>> 24).toUInt8, c1 ^^^ (w >>> 16).toUInt8]) := by
  subst hib hob hll
  exact tail2 ipre pre c0 c1 ks w i hi hip hp hw

theorem tail3' (ibs obs ipre pre : Bytes) (c0 c1 c2 : UInt8) (ks : List UInt32) (w : UInt32) (i : Nat) (hi : 4 * i + 3 < 2 ^ 32)
    (hip : ipre.length = 4 * i) (hp : pre.length = 4 * i) (hw : ks[i]? = some w) (hib : ibs = ipre ++ [c0, c1, c2])
    (hob : obs = pre ++ [0, 0, 0]) (ll : UInt32) (hll : ll = 3) :
    NEA1.loop4 ibs ks (UInt32.ofNat i) ll ((ll - 0).toNat + 1) 0 obs
      = .ok (pre ++ [c0 ^^^ (w >>> 24).toUInt8, c1 ^^^ (w >>> 16).toUInt8, c2 ^^^ (w >>> 8).toUInt8]) := by
  subst hib hob hll
  exact tail3 ipre pre c0 c1 c2 ks w i hi hip hp hw

theorem len1 (l : Bytes) (h : l.length = 1) : ∃ c0, l = [c0] := by
  match l, h with
  | [c0], _ => exact ⟨c0, rfl⟩
theorem len2 (l : Bytes) (h : l.length = 2) : ∃ c0 c1, l = [c0, c1] := by
  match l, h with
  | [c0, c1], _ => exact ⟨c0, c1, rfl⟩
theorem len3 (l : Bytes) (h : l.length = 3) : ∃ c0 c1 c2, l = [c0, c1, c2] := by
  match l, h with
  | [c0, c1, c2], _ => exact ⟨c0, c1, c2, rfl⟩

theorem nea1_tail (ibs : Bytes) (hlen : ibs.length < 2 ^ 28) (zs : List UInt32)
    (hz : zs.length = (8 * ibs.length + 31) / 32) :
    ((if decide (UInt32.ofNat (8 * List.length ibs) % 32 ≠ 0) = true then
          Go.idx zs ↑((UInt32.ofNat (8 * List.length ibs) + 31) / 32 - 1).toNat >>= fun t8 =>
          Go.set zs (↑((UInt32.ofNat (8 * List.length ibs) + 31) / 32 - 1).toNat)
                  (t8 &&& ~~~(Go.shlv32 1 (32 - UInt32.ofNat (8 * List.length ibs) % 32).toNat - 1)) >>= fun t9 =>
          Except.ok t9
        else Except.ok zs) >>= fun t10 =>
      Go.make (0 : UInt8) (Go.len ibs) >>= fun t11 =>
      NEA1.loop2 ibs (UInt32.ofNat (8 * List.length ibs)) t10
            ((UInt32.ofNat (8 * List.length ibs) / 32 - 0).toNat + 1) 0 t11 >>= fun t16 =>
      (if decide (UInt32.ofNat (8 * List.length ibs) % 32 ≠ 0) = true then
            NEA1.loop4 ibs t10 t16.fst ((UInt32.ofNat (8 * List.length ibs) % 32 + 7) / 8)
                  (((UInt32.ofNat (8 * List.length ibs) % 32 + 7) / 8 - 0).toNat + 1) 0 t16.snd >>= fun t20 =>
            Except.ok t20
          else Except.ok t16.snd) >>= fun t21 =>
      (Except.ok (t21, false) : Res (Bytes × Bool)))
    = Except.ok (Model.NasAlg.xorWords (Model.NasAlg.maskLast (8 * List.length ibs % 32) zs) ibs, false) := by
  generalize hL : ibs.length = L at *
  have h8 : (UInt32.ofNat (8 * L)).toNat = 8 * L := ofNat_toNat32 _ (by omega)
  have hr : (UInt32.ofNat (8 * L) % 32).toNat = 8 * L % 32 := by rw [UInt32.toNat_mod, h8]; rfl
  have hnw : UInt32.ofNat (8 * L) / 32 = UInt32.ofNat (L / 4) := by
    apply UInt32.toNat_inj.mp
    rw [UInt32.toNat_div, h8, ofNat_toNat32 _ (by omega)]
    simp; omega
  have hl : ((UInt32.ofNat (8 * L) + 31) / 32).toNat = (8 * L + 31) / 32 := by
    rw [UInt32.toNat_div, UInt32.toNat_add, h8]
    simp; omega
  have hmk : Go.make (0 : UInt8) (Go.len ibs) = .ok (List.replicate L 0) := by
    unfold Go.make Go.len; simp [hL]
  have hfuel : (UInt32.ofNat (L / 4) - 0).toNat + 1 = L / 4 + 1 := by
    rw [UInt32.sub_zero, ofNat_toNat32 _ (by omega)]
  by_cases ht : L % 4 = 0
  · -- whole words only
    have hr0 : UInt32.ofNat (8 * L) % 32 = 0 := by
      apply UInt32.toNat_inj.mp; rw [hr]; simp; omega
    have hd : ¬ (UInt32.ofNat (8 * L) % 32 ≠ 0) := fun h => h hr0
    simp only [hd, decide_false, Bool.false_eq_true, if_false, okb, hmk, hnw, hfuel]
    have hout := outer_eq ibs (UInt32.ofNat (8 * L)) zs (L / 4) hnw (by omega) (by omega) (by omega) (L / 4 + 1) 0
      (by omega) (by omega)
    have h0 : UInt32.ofNat 0 = 0 := rfl
    simp only [h0, List.take_zero, Model.NasAlg.xorWords, List.nil_append, Nat.mul_zero, Nat.sub_zero, hL] at hout
    rw [hout, okb]
    have hzl : zs.length = L / 4 := by omega
    have : 8 * L % 32 = 0 := by omega
    simp [Model.NasAlg.maskLast, this, ← hzl]
    rw [show L - 4 * zs.length = 0 by omega]
  · -- a partial last word
    generalize hq : L / 4 = q at *
    have hrne : UInt32.ofNat (8 * L) % 32 ≠ 0 := by
      intro h
      have := congrArg UInt32.toNat h
      rw [hr] at this
      simp at this
      omega
    have hzl : zs.length = q + 1 := by omega
    have hl1 : ((UInt32.ofNat (8 * L) + 31) / 32 - 1).toNat = q := by
      rw [UInt32.toNat_sub_of_le _ _ (by rw [UInt32.le_iff_toNat_le, hl]; simp; omega), hl]
      simp; omega
    have hw0 : zs[q]? = some zs[q] := List.getElem?_eq_getElem (by omega)
    have hidx : Go.idx zs (q : Int) = .ok zs[q] := by
      unfold Go.idx; simp [hw0]
    have hsh : Go.shlv32 1 (32 - UInt32.ofNat (8 * L) % 32).toNat = Model.NasAlg.shl32 1 (32 - 8 * L % 32) := by
      have : (32 - UInt32.ofNat (8 * L) % 32).toNat = 32 - 8 * L % 32 := by
        rw [UInt32.toNat_sub_of_le _ _ (by rw [UInt32.le_iff_toNat_le, hr]; simp; omega), hr]
        rfl
      rw [this]
      unfold Go.shlv32 Model.NasAlg.shl32
      by_cases h32 : 32 - 8 * L % 32 < 32
      · rw [if_pos h32, if_neg (by omega)]
      · rw [if_neg h32, if_pos (by omega)]
    generalize hv : zs[q] &&& ~~~(Model.NasAlg.shl32 1 (32 - 8 * L % 32) - 1) = v
    have hset : Go.set zs (q : Int) v = .ok (zs.take (q) ++ [v]) := by
      unfold Go.set
      have : (0 : Int) ≤ (q : Int) ∧ (q : Int) < (zs.length : Int) := by omega
      rw [if_pos this, Int.toNat_natCast]
      congr 1
      apply List.ext_getElem?
      intro n
      by_cases hn : n = q
      · subst hn; simp [hzl]
      · by_cases hn2 : n < q
        · simp [List.getElem?_append_left, hn2, hzl, Ne.symm hn]
        · have : q + 1 ≤ n := by omega
          rw [List.getElem?_eq_none (by simp; omega), List.getElem?_eq_none (by simp; omega)]
    have hmask : Model.NasAlg.maskLast (8 * L % 32) zs = zs.take (q) ++ [v] := by
      unfold Model.NasAlg.maskLast
      have hne : ¬ (8 * L % 32 = 0) := by omega
      rw [if_neg hne]
      have hgl : zs.getLast? = some zs[q] := by
        rw [List.getLast?_eq_getElem?, show zs.length - 1 = q by omega]; exact hw0
      rw [hgl]
      simp only []
      rw [hv, List.dropLast_eq_take, hzl]
      rfl
    simp only [hrne, ne_eq, not_false_eq_true, decide_true, if_true, hl1, hidx, okb, hsh, hv, hset, hmk, hnw, hfuel, hmask]
    generalize hks : zs.take q ++ [v] = ks'
    have hkl : ks'.length = q + 1 := by rw [← hks]; simp; omega
    have hkt : ks'.take q = zs.take q := by
      rw [← hks, List.take_append_of_le_length (by simp; omega), List.take_take]; simp
    have hkq : ks'[q]? = some v := by
      have hlen : (zs.take q).length = q := by simp; omega
      rw [← hks, List.getElem?_append_right (by omega), hlen]; simp
    have hout := outer_eq ibs (UInt32.ofNat (8 * L)) ks' q hnw (by omega) (by omega) (by omega) (q + 1) 0 (by omega) (by omega)
    have h0 : UInt32.ofNat 0 = 0 := rfl
    simp only [h0, List.take_zero, Model.NasAlg.xorWords, List.nil_append, Nat.mul_zero, Nat.sub_zero, hL] at hout
    rw [hout, okb]
    simp only []
    have hktl : (ks'.take q).length = q := by simp [hkl]
    have hpl : (Model.NasAlg.xorWords (ks'.take q) ibs).length = 4 * q := by
      rw [xorWords_length _ _ (by rw [hktl]; omega), hktl]
    have hfin : Model.NasAlg.xorWords ks' ibs = Model.NasAlg.xorWords (ks'.take q) ibs
        ++ List.zipWith (· ^^^ ·) ((ibs.drop (4 * q)).take 4) (u32Bytes v) := by
      have := xorWords_append (zs.take q) v ibs (by simp; omega)
      rw [hks] at this
      rw [this, hkt]
      have : (zs.take q).length = q := by simp; omega
      rw [this]
    have hib : ibs = ibs.take (4 * q) ++ ibs.drop (4 * q) := (List.take_append_drop _ _).symm
    have hipl : (ibs.take (4 * q)).length = 4 * q := by simp; omega
    have hll : ((UInt32.ofNat (8 * L) % 32 + 7) / 8).toNat = L % 4 := by
      rw [UInt32.toNat_div, UInt32.toNat_add, hr]
      simp; omega
    have ht3 : L % 4 = 1 ∨ L % 4 = 2 ∨ L % 4 = 3 := by omega
    rcases ht3 with h1 | h2 | h3
    · obtain ⟨c0, hd⟩ := len1 (ibs.drop (4 * q)) (by simp; omega)
      have hllv : (UInt32.ofNat (8 * L) % 32 + 7) / 8 = 1 := UInt32.toNat_inj.mp (by rw [hll, h1]; rfl)
      rw [tail1' ibs _ (ibs.take (4 * q)) (Model.NasAlg.xorWords (ks'.take q) ibs) c0 ks' v q (by omega) hipl hpl hkq
        (by rw [← hd]; exact hib) (by rw [show L - 4 * q = 1 by omega]; rfl) _ hllv, okb, hfin, hd]
      simp [u32Bytes, okb]
    · obtain ⟨c0, c1, hd⟩ := len2 (ibs.drop (4 * q)) (by simp; omega)
      have hllv : (UInt32.ofNat (8 * L) % 32 + 7) / 8 = 2 := UInt32.toNat_inj.mp (by rw [hll, h2]; rfl)
      rw [tail2' ibs _ (ibs.take (4 * q)) (Model.NasAlg.xorWords (ks'.take q) ibs) c0 c1 ks' v q (by omega) hipl hpl hkq
        (by rw [← hd]; exact hib) (by rw [show L - 4 * q = 2 by omega]; rfl) _ hllv, okb, hfin, hd]
      simp [u32Bytes, okb]
    · obtain ⟨c0, c1, c2, hd⟩ := len3 (ibs.drop (4 * q)) (by simp; omega)
      have hllv : (UInt32.ofNat (8 * L) % 32 + 7) / 8 = 3 := UInt32.toNat_inj.mp (by rw [hll, h3]; rfl)
      rw [tail3' ibs _ (ibs.take (4 * q)) (Model.NasAlg.xorWords (ks'.take q) ibs) c0 c1 c2 ks' v q (by omega) hipl hpl hkq
        (by rw [← hd]; exact hib) (by rw [show L - 4 * q = 3 by omega]; rfl) _ hllv, okb, hfin, hd]
      simp [u32Bytes, okb]

theorem keyLoopE_eq (a0 a1 a2 a3 a4 a5 a6 a7 a8 a9 a10 a11 a12 a13 a14 a15 : UInt8) :
    NEA1.loop1 [a0, a1, a2, a3, a4, a5, a6, a7, a8, a9, a10, a11, a12, a13, a14, a15] 5 0 [0, 0, 0, 0]
      = .ok [be32 [a12, a13, a14, a15], be32 [a8, a9, a10, a11], be32 [a4, a5, a6, a7], be32 [a0, a1, a2, a3]] := by
  simp [NEA1.loop1, Go.slice, Go.beU32, Go.set, okb, be32_4]

theorem NEA1_eq (ck : Bytes) (hck : ck.length = 16) (count bearer dir : UInt32) (ibs : Bytes)
    (hlen : ibs.length < 2 ^ 28) :
    NEA1 ck count bearer dir ibs (UInt32.ofNat (8 * ibs.length))
      = (Model.NasAlg.nea1 ck count bearer dir ibs).map (fun obs => (obs, false)) := by
  match ck, hck with
  | [a0, a1, a2, a3, a4, a5, a6, a7, a8, a9, a10, a11, a12, a13, a14, a15], _ =>
  unfold NEA1
  simp only [rep4, keyLoopE_eq, okb, SecAlg.InitSnow3g_eq]
  have hk : Model.NasAlg.keyWords [a0, a1, a2, a3, a4, a5, a6, a7, a8, a9, a10, a11, a12, a13, a14, a15]
      = (be32 [a12, a13, a14, a15], be32 [a8, a9, a10, a11], be32 [a4, a5, a6, a7], be32 [a0, a1, a2, a3]) := rfl
  unfold Model.NasAlg.nea1
  simp only [hk]
  generalize Model.Snow3g.initSnow3g (be32 [a12, a13, a14, a15]) (be32 [a8, a9, a10, a11]) (be32 [a4, a5, a6, a7])
                  (be32 [a0, a1, a2, a3]) (bearer <<< 27 ||| dir <<< 26) count (bearer <<< 27 ||| dir <<< 26) count = st
  have h8 : (UInt32.ofNat (8 * ibs.length)).toNat = 8 * ibs.length := ofNat_toNat32 _ (by omega)
  have hl : ((UInt32.ofNat (8 * ibs.length) + 31) / 32).toNat = (8 * ibs.length + 31) / 32 := by
    rw [UInt32.toNat_div, UInt32.toNat_add, h8]
    simp; omega
  rw [hl]
  generalize hlw : (8 * ibs.length + 31) / 32 = l
  have hmk : Go.make (0 : UInt32) (l : Int) = .ok (List.replicate l 0) := by
    unfold Go.make; simp
  have hg := SecAlg.GenerateKeystream_eq st l (List.replicate l 0) (by simp) (by simp; omega)
  rw [hmk, okb, hg, okb]
  have hz := generateKeystream_length l st
  generalize (Model.Snow3g.generateKeystream l st).1 = zs at hz
  have hdrop : zs ++ List.drop l (List.replicate l (0 : UInt32)) = zs := by simp
  simp only [hdrop]
  have := nea1_tail ibs hlen zs (by omega)
  simp only [Except.map]
  rw [← this]


/-- the hypotheses of `NEA1_eq` are satisfiable (a 16-octet key, a 5-octet message: one whole word and one octet) -/
example : ([0, 1, 2, 3, 4, 5, 6, 7, 8, 9, 10, 11, 12, 13, 14, 15] : Bytes).length = 16 ∧ ([1, 2, 3, 4, 5] : Bytes).length < 2 ^ 28 := by
  decide

/-- the hypotheses of `NIA1_eq` are satisfiable (a 16-octet key, a 3-octet message) -/
example : ([0, 1, 2, 3, 4, 5, 6, 7, 8, 9, 10, 11, 12, 13, 14, 15] : Bytes).length = 16 ∧ ([1, 2, 3] : Bytes).length < 2 ^ 59 := by
  decide

end Stgutg.Proofs.GenTie.SecNas
