/-
  Helper lemmas for Props/C17.lean (conversion helpers).
-/
import Stgutg.Model.Convert
import Stgutg.Spec.Convert3gpp
import Stgutg.Proofs.Suci
open Stgutg

namespace Stgutg.Proofs.Convert
open Model.Convert


/-- the AMF Set ID arithmetic of `AmfIdToNas` on the octets, as numbers -/
theorem amf_set_toNat (b1 b2 : UInt8) :
    ((b1.toUInt16 <<< 2) + ((b2.toUInt16 &&& 0x00c0) >>> 6)).toNat = b1.toNat * 4 + b2.toNat / 64 := by
  have h1 := b1.toNat_lt
  have h2 := b2.toNat_lt
  simp only [UInt16.toNat_add, UInt16.toNat_shiftLeft, UInt16.toNat_shiftRight, UInt16.toNat_and, UInt8.toNat_toUInt16]
  have e2 : (2 : UInt16).toNat % 16 = 2 := by decide
  have e6 : (6 : UInt16).toNat % 16 = 6 := by decide
  have ec : (0x00c0 : UInt16).toNat = 192 := by decide
  rw [e2, e6, ec, Nat.shiftRight_and_distrib, Nat.shiftLeft_eq]
  have e3 : 192 >>> 6 = 2 ^ 2 - 1 := by decide
  rw [e3, Nat.and_two_pow_sub_one_eq_mod, Nat.shiftRight_eq_div_pow]
  omega

theorem amf_pointer_toNat (b2 : UInt8) : (b2 &&& 0x3f).toNat = b2.toNat % 64 := by
  rw [UInt8.toNat_and]
  have : (0x3f : UInt8).toNat = 2 ^ 6 - 1 := by decide
  rw [this, Nat.and_two_pow_sub_one_eq_mod]

/-- all 2^24 identifiers at once: region 8 bits, set 10 bits, pointer 6 bits -/
theorem amfIdToNas_octets (E : Ext) (amfId : Bytes) (n : Nat)
    (hdec : (E.hexDecode amfId).1 = Spec.Convert.amfIdOctets n) :
    ∃ r s p, amfIdToNas E amfId = .ok (r, s, p) ∧
      Spec.Convert.amfIdSplit n = { region := r.toNat, set := s.toNat, pointer := p.toNat } := by
  unfold amfIdToNas
  rw [hdec]
  refine ⟨_, _, _, rfl, ?_⟩
  simp only [Spec.Convert.amfIdSplit, amf_set_toNat, amf_pointer_toNat, UInt8.toNat_ofNat']
  have : (2:Nat) ^ 24 = 16777216 := by decide
  simp only [Spec.Convert.AmfId.mk.injEq]
  refine ⟨trivial, ?_, ?_⟩ <;> omega

theorem amfId_join_split (n : Nat) (hn : n < 2 ^ 24) : Spec.Convert.amfIdJoin (Spec.Convert.amfIdSplit n) = n := by
  simp only [Spec.Convert.amfIdJoin, Spec.Convert.amfIdSplit]
  omega

theorem amfId_split_join (a : Spec.Convert.AmfId) (hr : a.region < 2 ^ 8) (hs : a.set < 2 ^ 10) (hp : a.pointer < 2 ^ 6) :
    Spec.Convert.amfIdSplit (Spec.Convert.amfIdJoin a) = a := by
  cases a with
  | mk r s p =>
    simp only [Spec.Convert.amfIdJoin, Spec.Convert.amfIdSplit, Spec.Convert.AmfId.mk.injEq] at *
    omega


theorem u16_recompose (v : UInt16) : ((v >>> 8).toUInt8.toUInt16 <<< 8) ||| v.toUInt8.toUInt16 = v := by
  apply UInt16.toNat_inj.mp
  have hv := v.toNat_lt
  simp only [UInt16.toNat_or, UInt16.toNat_shiftLeft, UInt8.toNat_toUInt16, UInt16.toNat_toUInt8, UInt16.toNat_shiftRight]
  have e8 : (8 : UInt16).toNat % 16 = 8 := by decide
  rw [e8, Nat.shiftRight_eq_div_pow, Nat.shiftLeft_eq]
  have hb : v.toNat % 2 ^ 8 < 2 ^ 8 := Nat.mod_lt _ (by decide)
  have hlt : v.toNat / 2 ^ 8 % 2 ^ 8 * 2 ^ 8 % 2 ^ 16 = (v.toNat / 2 ^ 8 % 2 ^ 8) <<< 8 := by
    rw [Nat.shiftLeft_eq]; omega
  rw [hlt, ← Nat.shiftLeft_add_eq_or_of_lt hb, Nat.shiftLeft_eq]
  omega

/-- a unit whose length field says what its contents are -/
def Consistent (u : PcoUnit) : Prop := u.len.toNat = u.contents.length

/-- the reader consumes one marshalled unit in three turns of the loop and appends exactly that unit -/
theorem pcoLoop_unit (u : PcoUnit) (hu : Consistent u) (t : Bytes) (f : Nat) (cur : PcoUnit) (acc : List PcoUnit) :
    ∃ cur', pcoLoop (f + 3) .readingID ((3 + u.contents.length + t.length : Nat) : Int)
        (u16BE u.id ++ [u.len] ++ u.contents ++ t) cur acc
      = pcoLoop f .readingID ((t.length : Nat) : Int) t cur' (acc ++ [u]) := by
  unfold Consistent at hu
  -- turn 1: the identifier
  have s1 : pcoLoop (f + 3) .readingID ((3 + u.contents.length + t.length : Nat) : Int)
        (u16BE u.id ++ [u.len] ++ u.contents ++ t) cur acc
      = pcoLoop (f + 2) .readingLength ((1 + u.contents.length + t.length : Nat) : Int)
        ([u.len] ++ u.contents ++ t) { id := u.id, len := 0, contents := [] } acc := by
    conv => lhs; unfold pcoLoop
    rw [if_neg (by omega)]
    simp only [u16BE, List.cons_append, List.nil_append, u16_recompose]
    congr 1
    omega
  -- turn 2: the length
  have s2 : pcoLoop (f + 2) .readingLength ((1 + u.contents.length + t.length : Nat) : Int)
        ([u.len] ++ u.contents ++ t) { id := u.id, len := 0, contents := [] } acc
      = pcoLoop (f + 1) .readingContent ((u.contents.length + t.length : Nat) : Int)
        (u.contents ++ t) { id := u.id, len := u.len, contents := [] }
        (if u.len == 0 then acc ++ [{ id := u.id, len := u.len, contents := [] }] else acc) := by
    conv => lhs; unfold pcoLoop
    rw [if_neg (by omega)]
    simp only [List.cons_append, List.nil_append]
    congr 1
    omega
  rw [s1, s2]
  by_cases h0 : u.len = 0
  · -- no contents: the unit was appended in turn 2, turn 3 only changes the state
    have hc : u.contents = [] := by
      rw [h0] at hu
      exact List.eq_nil_of_length_eq_zero hu.symm
    have hu' : ({ id := u.id, len := 0, contents := [] } : PcoUnit) = u := by
      cases u with
      | mk i l c => simp only at h0 hc; subst h0 hc; rfl
    simp only [h0, beq_self_eq_true, if_true, hc, List.length_nil, Nat.zero_add, List.nil_append]
    rw [hu']
    refine ⟨u, ?_⟩
    by_cases ht : t = []
    · subst ht
      unfold pcoLoop
      simp
    · have hpos : 0 < t.length := List.length_pos_iff.mpr ht
      conv => lhs; unfold pcoLoop
      rw [if_neg (by omega)]
      simp only [h0]
      rw [if_neg (by decide)]
      simp
  · -- contents: read in turn 3
    have hpos : 0 < u.len.toNat := by
      have : u.len.toNat ≠ 0 := fun e => h0 (UInt8.toNat_inj.mp (by simpa using e))
      omega
    have hgt : u.len > 0 := by
      rw [gt_iff_lt, UInt8.lt_iff_toNat_lt]; simpa using hpos
    have hb : (u.len == 0) = false := by simpa using h0
    refine ⟨u, ?_⟩
    conv => lhs; unfold pcoLoop
    rw [if_neg (by omega)]
    simp only [hb, Bool.false_eq_true, if_false]
    rw [if_pos hgt, if_neg (by rw [List.length_append]; omega)]
    have htake : (u.contents ++ t).take u.len.toNat = u.contents := by rw [hu]; exact List.take_left
    have hdrop : (u.contents ++ t).drop u.len.toNat = t := by rw [hu]; exact List.drop_left
    rw [htake, hdrop]
    have hu' : ({ id := u.id, len := u.len, contents := u.contents } : PcoUnit) = u := by cases u; rfl
    rw [hu']
    congr 1
    omega

theorem u16BE_length (v : UInt16) : (u16BE v).length = 2 := rfl

theorem marshalUnits_length_ge : ∀ l : List PcoUnit, 3 * l.length ≤ (pcoMarshalUnits l).length
  | [] => by simp [pcoMarshalUnits]
  | u :: rest => by
    have := marshalUnits_length_ge rest
    simp only [pcoMarshalUnits, List.length_append, List.length_cons, u16BE_length, List.length_nil]
    omega

/-- the three-state reader recovers a marshalled list, by induction on the list -/
theorem pcoLoop_units : ∀ (l : List PcoUnit), (∀ u ∈ l, Consistent u) → ∀ (f : Nat) (cur : PcoUnit) (acc : List PcoUnit),
    3 * l.length ≤ f →
    pcoLoop f .readingID (((pcoMarshalUnits l).length : Nat) : Int) (pcoMarshalUnits l) cur acc = .ok (acc ++ l)
  | [], _, f, cur, acc, _ => by
    unfold pcoLoop
    simp [pcoMarshalUnits]
  | u :: rest, hl, f, cur, acc, hf => by
    obtain ⟨f', rfl⟩ : ∃ f', f = f' + 3 := ⟨f - 3, by have : (u :: rest).length = rest.length + 1 := rfl; omega⟩
    have hu := hl u (by simp)
    have hlen : (pcoMarshalUnits (u :: rest)).length = 3 + u.contents.length + (pcoMarshalUnits rest).length := by
      simp only [pcoMarshalUnits, List.length_append, List.length_cons, u16BE_length, List.length_nil]
    obtain ⟨cur', hstep⟩ := pcoLoop_unit u hu (pcoMarshalUnits rest) f' cur acc
    rw [hlen]
    show pcoLoop (f' + 3) .readingID _ (u16BE u.id ++ [u.len] ++ u.contents ++ pcoMarshalUnits rest) cur acc = _
    have hf' : 3 * rest.length ≤ f' := by
      have : (u :: rest).length = rest.length + 1 := rfl
      omega
    rw [hstep, pcoLoop_units rest (fun v hv => hl v (by simp [hv])) f' cur' (acc ++ [u]) hf', List.append_assoc]
    rfl

/-- `UnMarshal(Marshal(l)) = l` -/
theorem pco_roundtrip (l : List PcoUnit) (hl : ∀ u ∈ l, Consistent u) : pcoUnmarshal (pcoMarshal l) = .ok l := by
  unfold pcoUnmarshal pcoUnmarshalFrom pcoMarshal
  simp only [List.length_cons]
  have hge := marshalUnits_length_ge l
  have := pcoLoop_units l hl (3 * ((pcoMarshalUnits l).length + 1) + 3) { id := 0, len := 0, contents := [] } [] (by omega)
  rw [List.nil_append] at this
  rw [← this]
  congr 1
  omega

/-! ### the marshalled form is the TS 24.008 encoding, and the specification's reader inverts it -/

def toContainer (u : PcoUnit) : Spec.Convert.Container := { id := u.id.toNat, contents := u.contents }

theorem u16BE_spec (v : UInt16) : u16BE v = [UInt8.ofNat (v.toNat / 256), UInt8.ofNat v.toNat] := by
  unfold u16BE
  congr 1
  · apply UInt8.toNat_inj.mp
    rw [UInt16.toNat_toUInt8, UInt16.toNat_shiftRight, UInt8.toNat_ofNat', Nat.shiftRight_eq_div_pow]
    have : (8 : UInt16).toNat % 16 = 8 := by decide
    rw [this]

theorem marshalUnits_spec : ∀ (l : List PcoUnit), (∀ u ∈ l, Consistent u) →
    pcoMarshalUnits l = Spec.Convert.pcoEncodeUnits (l.map toContainer)
  | [], _ => rfl
  | u :: rest, hl => by
    have hu : u.len.toNat = u.contents.length := hl u (by simp)
    have ih := marshalUnits_spec rest (fun v hv => hl v (by simp [hv]))
    simp only [pcoMarshalUnits, List.map_cons, Spec.Convert.pcoEncodeUnits, toContainer, u16BE_spec, ih, ← hu,
      UInt8.ofNat_toNat]
    simp

theorem spec_decode_units : ∀ (cs : List Spec.Convert.Container) (fuel : Nat),
    (∀ c ∈ cs, c.id < 65536 ∧ c.contents.length < 256) → (Spec.Convert.pcoEncodeUnits cs).length ≤ fuel →
    Spec.Convert.pcoDecodeUnits fuel (Spec.Convert.pcoEncodeUnits cs) = some cs
  | [], fuel, _, _ => by
    cases fuel <;> rfl
  | c :: rest, fuel, hc, hf => by
    obtain ⟨hid, hlen⟩ := hc c (by simp)
    have hf' : 3 + c.contents.length + (Spec.Convert.pcoEncodeUnits rest).length ≤ fuel := by
      simp only [Spec.Convert.pcoEncodeUnits, List.length_append, List.length_cons, List.length_nil] at hf
      omega
    obtain ⟨f, rfl⟩ : ∃ f, fuel = f + 1 := ⟨fuel - 1, by omega⟩
    show Spec.Convert.pcoDecodeUnits (f + 1) (UInt8.ofNat (c.id / 256) :: UInt8.ofNat c.id :: UInt8.ofNat c.contents.length
      :: (c.contents ++ Spec.Convert.pcoEncodeUnits rest)) = _
    unfold Spec.Convert.pcoDecodeUnits
    have hl : (UInt8.ofNat c.contents.length).toNat = c.contents.length := by
      rw [UInt8.toNat_ofNat']; omega
    have hi : (UInt8.ofNat (c.id / 256)).toNat * 256 + (UInt8.ofNat c.id).toNat = c.id := by
      rw [UInt8.toNat_ofNat', UInt8.toNat_ofNat']; omega
    rw [hl, if_neg (by rw [List.length_append]; omega), List.drop_left, List.take_left,
      spec_decode_units rest f (fun d hd => hc d (by simp [hd])) (by omega), hi]
    rfl


/-! ### the reader is total -/

/-- what is left to do: three per unread octet, plus one when the next turn is not an identifier turn -/
def pcoMeasure (st : PcoState) (rd : Bytes) : Nat :=
  3 * rd.length + (match st with | .readingID => 0 | _ => 1)

/-- every turn of the reader's loop makes progress, so it cannot run out of fuel, and no turn traps:
    the only failure of `UnMarshal` is its error return -/
theorem pcoLoop_fails_only_with_error : ∀ (fuel : Nat) (st : PcoState) (n : Int) (rd : Bytes) (cur : PcoUnit)
    (acc : List PcoUnit), pcoMeasure st rd < fuel → ∀ e, pcoLoop fuel st n rd cur acc = .error e → e = Err.error := by
  intro fuel
  induction fuel with
  | zero => intro st n rd cur acc h; omega
  | succ f ih =>
    intro st n rd cur acc h e
    unfold pcoLoop
    by_cases hn : n ≤ 0
    · rw [if_pos hn]; intro he; cases he
    · rw [if_neg hn]
      cases st with
      | readingID =>
        match rd with
        | [] => intro he; cases he; rfl
        | [_] => intro he; cases he; rfl
        | a :: b :: rd' =>
          apply ih
          simp only [pcoMeasure, List.length_cons] at h ⊢
          omega
      | readingLength =>
        match rd with
        | [] => intro he; cases he; rfl
        | l :: rd' =>
          apply ih
          simp only [pcoMeasure, List.length_cons] at h ⊢
          omega
      | readingContent =>
        dsimp only
        split
        · split
          · intro he; cases he; rfl
          · apply ih
            simp only [pcoMeasure, List.length_drop] at h ⊢
            omega
        · apply ih
          simp only [pcoMeasure] at h ⊢
          omega

/-- `UnMarshal` is total: on every octet string it returns a list or its error, it neither hangs nor panics -/
theorem pcoUnmarshal_total (data : Bytes) (e : Err) (h : pcoUnmarshal data = .error e) : e = Err.error := by
  unfold pcoUnmarshal pcoUnmarshalFrom at h
  match data, h with
  | [], h => cases h; rfl
  | d :: rd, h =>
    refine pcoLoop_fails_only_with_error _ _ _ _ _ _ ?_ e h
    simp only [pcoMeasure, List.length_cons]
    omega

/-! ### transport layer address: what is assumed about `net` -/

/-- `a` is the text of the IPv4 address `w.x.y.z` for the standard library: `ParseIP` reads it as that address and
    `IP.String` prints that address as `a` -/
structure V4Text (E : Ext) (a : Bytes) (w x y z : UInt8) : Prop where
  nonempty : a ≠ []
  parse : to4 (E.parseIP a) = some [w, x, y, z]
  print : E.ipString (netIPv4 w x y z) = a

/-- `b` is the text of the 16-octet IPv6 address `ip` for the standard library -/
structure V6Text (E : Ext) (b : Bytes) (ip : Bytes) : Prop where
  nonempty : b ≠ []
  parse : E.parseIP b = some ip
  len : ip.length = 16
  print : E.ipString ip = b

theorem to16_of_len {ip : Bytes} (h : ip.length = 16) : to16 (some ip) = some ip := by
  unfold to16
  split
  · next a b c d heq => injection heq with heq; subst heq; simp at h
  · next l heq => injection heq with heq; subst heq; simp [h]
  · next heq => cases heq

theorem first16_of_len {ip : Bytes} (h : ip.length = 16) : first16 (some ip) = .ok ip := by
  have ht : ip.take 16 = ip := by rw [← h]; exact List.take_length
  simp [first16, h, ht]

/-! ### PlmnIDToNas on decimal strings -/

open Stgutg.Proofs.Suci in
theorem plmnIDToNas_digits (mcc mnc : List Nat) (p : Bytes) (h : Spec.Identity.plmn3 mcc mnc = some p) :
    plmnIDToNas (asc mcc) (asc mnc) = .ok p := by
  unfold Spec.Identity.plmn3 at h
  split at h
  · next c1 c2 c3 n1 n2 =>
    split at h
    · next hd =>
      injection h with h; subst h
      simp [Spec.Identity.allDigits, Spec.Identity.isDigit] at hd
      obtain ⟨⟨h1, h2, h3⟩, h4, h5⟩ := hd
      show plmnIDToNas [UInt8.ofNat (48 + c1), UInt8.ofNat (48 + c2), UInt8.ofNat (48 + c3)]
        [UInt8.ofNat (48 + n1), UInt8.ofNat (48 + n2)] = _
      unfold plmnIDToNas
      dsimp only
      rw [atoi_digit h1, atoi_digit h2, atoi_digit h3, atoi_digit h4, atoi_digit h5,
        nib_octet (by omega) (by omega), nib_octet (by omega) (by omega), nib_octet (by omega) (by omega)]
    · cases h
  · next c1 c2 c3 n1 n2 n3 =>
    split at h
    · next hd =>
      injection h with h; subst h
      simp [Spec.Identity.allDigits, Spec.Identity.isDigit] at hd
      obtain ⟨⟨h1, h2, h3⟩, h4, h5, h6⟩ := hd
      show plmnIDToNas [UInt8.ofNat (48 + c1), UInt8.ofNat (48 + c2), UInt8.ofNat (48 + c3)]
        [UInt8.ofNat (48 + n1), UInt8.ofNat (48 + n2), UInt8.ofNat (48 + n3)] = _
      unfold plmnIDToNas
      dsimp only
      rw [atoi_digit h1, atoi_digit h2, atoi_digit h3, atoi_digit h4, atoi_digit h5, atoi_digit h6,
        nib_octet (by omega) (by omega), nib_octet (by omega) (by omega), nib_octet (by omega) (by omega)]
    · cases h
  · cases h

end Stgutg.Proofs.Convert
