/-
  Helper lemmas for Props/C09: the NAS codec model and the TS 24.501 encoder of Spec/Ts24501.lean write the
  same octets for the same abstract message, for every layout that implements the table's wire structure.
  Core Lean only.
-/
import Stgutg.Proofs.NasCodec
import Stgutg.Proofs.Ts24501
import Stgutg.Model.NasSpec
namespace Stgutg.Nas
open Stgutg Stgutg.Spec.Ts24501

theorem lenBytes_one (n : Nat) : lenBytes 1 n = [UInt8.ofNat n] := rfl
theorem lenBytes_two (n : Nat) : lenBytes 2 n = be16 n := rfl

/-- one mandatory field: the model writes what the standard's encoder writes for the element's value -/
theorem mandIE_spec (s : Shape) (e : List WOp) (d : List ROp) (v : Val) (mw : MWire) (impl : MWire)
    (hk : mandKindOK s e d = true) (hv : mandValOK s v e = true) (hs : specValOK s v e = true)
    (hw : mandWireOf s e = some impl) (hm : mandMatches impl mw = true) :
    ∃ a, encIE s v e = .ok a ∧ ∀ ws vals tail, Spec.Ts24501.encMand ws vals = some tail →
      Spec.Ts24501.encMand (mw :: ws) (mandToSpec v e :: vals) = some (a ++ tail) := by
  unfold mandKindOK at hk
  split at hk
  · -- Octet
    simp [mandValOK] at hv
    simp [mandWireOf] at hw
    subst hw
    cases mw <;> simp [mandMatches] at hm
    subst hm
    refine ⟨v.data, by simp [encIE, wop], ?_⟩
    intro ws vals tail ht
    simp [Spec.Ts24501.encMand, mandToSpec, hv.2, ht]
  · -- Len + Buffer
    simp at hk
    simp [mandValOK] at hv
    obtain ⟨⟨hvi, hvl⟩, hf⟩ := hv
    simp [lenFits] at hf
    simp [mandWireOf] at hw
    refine ⟨lenBytes s.lenW v.len ++ v.data, by simp [encIE, wop], ?_⟩
    intro ws vals tail ht
    rcases hf with ⟨h1, hlt⟩ | ⟨h2, hlt⟩
    · simp [h1] at hw; subst hw
      cases mw <;> simp [mandMatches] at hm
      rename_i fx
      cases fx <;> simp [mandMatches] at hm
      simp [Spec.Ts24501.encMand, mandToSpec, h1, lenBytes_one, ← hvl, hlt, ht, fixedOK]
    · simp [h2] at hw; subst hw
      cases mw <;> simp [mandMatches] at hm
      rename_i fx
      cases fx <;> simp [mandMatches] at hm
      simp [Spec.Ts24501.encMand, mandToSpec, h2, lenBytes_two, ← hvl, hlt, ht, fixedOK]
  · -- Len + whole Octet array
    simp at hk
    simp [mandValOK] at hv
    obtain ⟨⟨hvi, hf⟩, hd⟩ := hv
    simp [lenFits] at hf
    simp [specValOK] at hs
    simp [mandWireOf] at hw
    refine ⟨lenBytes s.lenW v.len ++ v.data, by simp [encIE, wop], ?_⟩
    intro ws vals tail ht
    rcases hf with ⟨h1, hlt⟩ | ⟨h2, hlt⟩
    · simp [h1] at hw; subst hw
      cases mw <;> simp [mandMatches] at hm
      rename_i fx
      cases fx <;> simp [mandMatches] at hm
      simp [Spec.Ts24501.encMand, mandToSpec, h1, lenBytes_one, hd, ← hs, hlt, ht, fixedOK]
      omega
    · simp [h2] at hw; subst hw
      cases mw <;> simp [mandMatches] at hm
      rename_i fx
      cases fx <;> simp [mandMatches] at hm
      simp [Spec.Ts24501.encMand, mandToSpec, h2, lenBytes_two, hd, ← hs, hlt, ht, fixedOK]
      omega
  · -- empty struct
    simp [mandValOK] at hv
    simp [mandWireOf] at hw
    subst hw
    cases mw <;> simp [mandMatches] at hm
    subst hm
    refine ⟨[], by simp [encIE, wop], ?_⟩
    intro ws vals tail ht
    simp [Spec.Ts24501.encMand, mandToSpec, hv.2, ht]
  · simp at hk

theorem u8_of_div_mod (b : UInt8) : UInt8.ofNat (b.toNat / 16) * 16 + UInt8.ofNat (b.toNat % 16) = b := by
  apply UInt8.toNat_inj.mp
  simp [UInt8.toNat_add, UInt8.toNat_mul, UInt8.toNat_ofNat']
  have := b.toNat_lt
  omega

/-- one optional IE: the model writes what the standard's encoder writes for (IEI, value) under the table row -/
theorem optIE_spec (s : Shape) (e : List WOp) (d : List ROp) (c : Nat) (v : Val) (w : Wire) (ow : OWire)
    (impl : OKind × Option Nat)
    (hk : optKindOK s e d = true) (hr : ieiRangeOK e c = true) (hv : optValOK s c v e = true)
    (hs : specValOK s v e = true) (hw : optKindOf s e = some impl) (hm : optMatches c impl ow = true)
    (hfind : w.opt.find? (fun x => x.iei == c) = some ow) :
    ∃ a, encIE s v e = .ok a ∧ (optToSpec w c v e).1 = c ∧
      Spec.Ts24501.encOptIE ow (optToSpec w c v e).2 = some a := by
  simp only [optMatches, Bool.and_eq_true, beq_iff_eq] at hm
  obtain ⟨⟨hiei, hkind⟩, hcap⟩ := hm
  unfold optKindOK at hk
  split at hk
  · -- half octet
    simp [optValOK] at hv
    obtain ⟨⟨hvi, hvl⟩, hd⟩ := hv
    split at hd
    · rename_i b hb
      simp at hd
      simp [ieiRangeOK] at hr
      simp at hk
      simp [optKindOf, hk] at hw
      subst hw
      simp at hkind
      refine ⟨[b], by simp [encIE, wop, hb], by simp [optToSpec], ?_⟩
      have hlt : b.toNat % 16 < 16 := by omega
      simp [optToSpec, hb, Spec.Ts24501.encOptIE, ← hkind, ← hiei, u8_toNat_lt (show b.toNat % 16 < 256 by omega), hlt, hr.1, hr.2]
      rw [← hd]; exact u8_of_div_mod b
    · simp at hd
  · -- Iei + Octet (TV)
    simp at hk
    simp [optValOK] at hv
    obtain ⟨⟨hvi, hvl⟩, hd⟩ := hv
    simp [ieiRangeOK] at hr
    simp [optKindOf] at hw
    subst hw
    simp at hkind
    refine ⟨UInt8.ofNat c :: v.data, by simp [encIE, wop, hvi], by simp [optToSpec]; split <;> rfl, ?_⟩
    have : optToSpec w c v [.iei, .octet] = (c, v.data) := by
      simp only [optToSpec, hfind]
      cases ow with
      | mk i k mn mx =>
        simp at hkind
        subst hkind
        simp [← hd]
    simp [this, Spec.Ts24501.encOptIE, ← hkind, hd, ← hiei, hr]
  · -- Iei + Len + Octet
    simp at hk
    obtain ⟨⟨⟨hi, hn⟩, hb⟩, hlw⟩ := hk
    simp [optValOK] at hv
    obtain ⟨⟨hvi, hf⟩, hd⟩ := hv
    simp [lenFits] at hf
    simp [specValOK] at hs
    simp [ieiRangeOK] at hr
    simp [optKindOf] at hw
    refine ⟨UInt8.ofNat c :: (lenBytes s.lenW v.len ++ v.data), by simp [encIE, wop, hvi], by simp [optToSpec], ?_⟩
    rcases hf with ⟨h1, hlt⟩ | ⟨h2, hlt⟩
    · simp [h1] at hw; subst hw
      simp at hkind
      simp [optToSpec, Spec.Ts24501.encOptIE, ← hkind, ← hiei, hr, h1, lenBytes_one, hd, ← hs, hlt]
    · simp [h2] at hw; subst hw
      simp at hkind
      simp [optToSpec, Spec.Ts24501.encOptIE, ← hkind, ← hiei, hr, h2, lenBytes_two, hd, ← hs, hlt]
  · -- Iei + Len + Buffer
    simp at hk
    simp [optValOK] at hv
    obtain ⟨⟨hvi, hvl⟩, hf⟩ := hv
    simp [lenFits] at hf
    simp [ieiRangeOK] at hr
    simp [optKindOf] at hw
    refine ⟨UInt8.ofNat c :: (lenBytes s.lenW v.len ++ v.data), by simp [encIE, wop, hvi], by simp [optToSpec], ?_⟩
    rcases hf with ⟨h1, hlt⟩ | ⟨h2, hlt⟩
    · simp [h1] at hw; subst hw
      simp at hkind
      simp [optToSpec, Spec.Ts24501.encOptIE, ← hkind, ← hiei, hr, h1, lenBytes_one, ← hvl, hlt]
    · simp [h2] at hw; subst hw
      simp at hkind
      simp [optToSpec, Spec.Ts24501.encOptIE, ← hkind, ← hiei, hr, h2, lenBytes_two, ← hvl, hlt]
  · -- Iei + Len + Octet[:Len]
    simp at hk
    simp [optValOK] at hv
    obtain ⟨⟨⟨⟨hvi, hf⟩, hd⟩, hle⟩, hz⟩ := hv
    simp [lenFits] at hf
    simp [ieiRangeOK] at hr
    simp [optKindOf] at hw
    have hle' : v.len ≤ v.data.length := by omega
    have htl : (v.data.take v.len).length = v.len := by simp; omega
    refine ⟨UInt8.ofNat c :: (lenBytes s.lenW v.len ++ v.data.take v.len), by simp [encIE, wop, hvi, hle'], by simp [optToSpec], ?_⟩
    rcases hf with ⟨h1, hlt⟩ | ⟨h2, hlt⟩
    · simp [h1] at hw; subst hw
      simp at hkind
      simp [optToSpec, Spec.Ts24501.encOptIE, ← hkind, ← hiei, hr, h1, lenBytes_one, hle', hlt]
    · simp [h2] at hw; subst hw
      simp at hkind
      simp [optToSpec, Spec.Ts24501.encOptIE, ← hkind, ← hiei, hr, h2, lenBytes_two, hle', hlt]
  · simp at hk

theorem mand_spec (fields : List Field) (m : Msg) :
    ∀ (ge : List (Nat × List WOp)) (gd : List (Nat × List ROp)) (i : Nat) (mws : List MWire),
    mandWF fields i ge gd = true → mandValsOK fields m ge = true → mandAgree fields ge mws = true →
    specValsOK fields m ge = true →
    ∃ a, encGroups fields m false ge = .ok a ∧
      Spec.Ts24501.encMand mws (ge.filterMap fun g => match m[g.1]? with
        | some (some v) => some (mandToSpec v g.2)
        | _ => none) = some a := by
  intro ge
  induction ge with
  | nil =>
    intro gd i mws _ _ ha _
    cases mws with
    | nil => exact ⟨[], rfl, rfl⟩
    | cons _ _ => simp [mandAgree] at ha
  | cons g ge ih =>
    intro gd i mws hw hv ha hs
    obtain ⟨a0, e⟩ := g
    cases gd with
    | nil => simp [mandWF] at hw
    | cons g' gd =>
      obtain ⟨b0, d⟩ := g'
      cases mws with
      | nil => simp [mandAgree] at ha
      | cons mw mws =>
        simp only [mandWF, Bool.and_eq_true, beq_iff_eq] at hw
        obtain ⟨⟨⟨hai, hbi⟩, hf⟩, hrest⟩ := hw
        have hai := hai.symm; subst hai
        simp only [mandValsOK, Bool.and_eq_true] at hv
        obtain ⟨hv1, hv2⟩ := hv
        simp only [mandAgree, Bool.and_eq_true] at ha
        obtain ⟨ha1, ha2⟩ := ha
        simp only [specValsOK, List.all_cons, Bool.and_eq_true] at hs
        obtain ⟨hs1, hs2⟩ := hs
        cases hfa : fields[i]? with
        | none => simp [hfa] at hf
        | some f =>
          simp only [hfa, Bool.and_eq_true] at hf
          cases hma : m[i]? with
          | none => simp [hfa, hma] at hv1
          | some o =>
            cases o with
            | none => simp [hfa, hma] at hv1
            | some v =>
              simp only [hfa, hma] at hv1 hs1
              simp only [hfa] at ha1
              cases hwo : mandWireOf f.shape e with
              | none => simp [hwo] at ha1
              | some impl =>
                simp only [hwo] at ha1
                obtain ⟨a, henc, hspec⟩ := mandIE_spec f.shape e d v mw impl hf.2 hv1 hs1 hwo ha1
                obtain ⟨a', henc', hspec'⟩ := ih gd (i + 1) mws hrest hv2 ha2 (by simpa [specValsOK] using hs2)
                refine ⟨a ++ a', by simp [encGroups, hfa, hma, henc, henc'], ?_⟩
                simp only [List.filterMap_cons, hma]
                exact hspec _ _ _ hspec'

theorem find_owire : ∀ (ws : List OWire) (ow : OWire), nodupNat (ws.map (·.iei)) = true → ow ∈ ws →
    ws.find? (fun x => x.iei == ow.iei) = some ow := by
  intro ws
  induction ws with
  | nil => intro c _ h; simp at h
  | cons a ws ih =>
    intro c hn hc
    simp only [List.map_cons, nodupNat, Bool.and_eq_true, Bool.not_eq_true'] at hn
    simp at hc
    rcases hc with hc | hc
    · subst hc; simp [List.find?]
    · have hne : (a.iei == c.iei) = false := by
        cases h : (a.iei == c.iei) with
        | false => rfl
        | true =>
          simp at h
          simp at hn
          exact absurd h.symm (hn.1 c hc)
      simp [List.find?, hne]
      exact ih c hn.2 hc

theorem opt_spec (fields : List Field) (m : Msg) (w : Wire) (skip : List Nat)
    (hnd : nodupNat (w.opt.map (·.iei)) = true) (hsk : skips m skip = true) :
    ∀ (ge : List (Nat × List WOp)) (cs : List DecCase) (ows : List OWire) (i : Nat),
    optWF fields i ge cs = true → optValsOK fields m ge cs = true → optAgree fields skip ge cs ows = true →
    specValsOK fields m ge = true → (∀ ow ∈ ows, ow ∈ w.opt) →
    ∃ b, encGroups fields m true ge = .ok b ∧
      Spec.Ts24501.encOpts w.opt ((ge.zip cs).filterMap fun p => match m[p.1.1]? with
        | some (some v) => some (optToSpec w p.2.iei v p.1.2)
        | _ => none) = some b := by
  intro ge
  induction ge with
  | nil =>
    intro cs ows i _ _ _ _ _
    exact ⟨[], rfl, by simp [Spec.Ts24501.encOpts]⟩
  | cons g ge ih =>
    intro cs ows i hw hv ha hs hmem
    obtain ⟨a0, e⟩ := g
    cases cs with
    | nil => simp [optWF] at hw
    | cons c cs =>
      cases ows with
      | nil => simp [optAgree] at ha
      | cons ow ows =>
        simp only [optWF, Bool.and_eq_true, beq_iff_eq] at hw
        obtain ⟨⟨⟨hai, hci⟩, hf⟩, hrest⟩ := hw
        have hai := hai.symm; subst hai
        simp only [optValsOK, Bool.and_eq_true] at hv
        obtain ⟨hv1, hv2⟩ := hv
        simp only [optAgree, Bool.and_eq_true, Bool.or_eq_true] at ha
        obtain ⟨ha1, ha2⟩ := ha
        simp only [specValsOK, List.all_cons, Bool.and_eq_true] at hs
        obtain ⟨hs1, hs2⟩ := hs
        obtain ⟨b', henc', hspec'⟩ := ih cs ows (i + 1) hrest hv2 ha2 (by simpa [specValsOK] using hs2)
          (fun x hx => hmem x (by simp [hx]))
        cases hfa : fields[i]? with
        | none => simp [hfa] at hf
        | some f =>
          simp only [hfa, Bool.and_eq_true] at hf
          cases hma : m[i]? with
          | none => simp [hfa, hma] at hv1
          | some o =>
            cases o with
            | none =>
              refine ⟨b', by simp [encGroups, hfa, hma, henc'], ?_⟩
              simp only [List.zip_cons_cons, List.filterMap_cons, hma]
              exact hspec'
            | some v =>
              simp only [hfa, hma] at hv1 hs1
              have hns : skip.contains i = false := by
                cases h : skip.contains i with
                | false => rfl
                | true =>
                  simp at h
                  simp only [skips, List.all_eq_true] at hsk
                  have := hsk i h
                  simp [hma] at this
              simp only [hns, Bool.false_eq_true, false_or, hfa] at ha1
              cases hwo : optKindOf f.shape e with
              | none => simp [hwo] at ha1
              | some impl =>
                simp only [hwo] at ha1
                have hieq : ow.iei = c.iei := by
                  simp only [optMatches, Bool.and_eq_true, beq_iff_eq] at ha1
                  exact ha1.1.1.symm
                have hfind : w.opt.find? (fun x => x.iei == c.iei) = some ow := by
                  rw [← hieq]; exact find_owire w.opt ow hnd (hmem ow (by simp))
                obtain ⟨a, henc, hfst, hspec⟩ :=
                  optIE_spec f.shape e c.ops c.iei v w ow impl hf.1.2 hf.2 hv1 hs1 hwo ha1 hfind
                refine ⟨a ++ b', by simp [encGroups, hfa, hma, henc, henc'], ?_⟩
                simp only [List.zip_cons_cons, List.filterMap_cons, hma]
                generalize hsv : optToSpec w c.iei v e = sv at hfst hspec
                obtain ⟨s1, s2⟩ := sv
                simp at hfst
                subst hfst
                simp only [Spec.Ts24501.encOpts, hfind]
                simp at hspec
                simp [hspec, hspec']

/-- the model's encoder and the standard's encoder agree on every message that denotes an abstract message,
    for every well-formed layout that implements the wire structure `w` (outside the skipped fields) -/
theorem spec_encode_eq (L : Layout) (w : Wire) (m : Msg) (skip : List Nat)
    (hL : LayoutWF L) (hm : specWF L m = true) (ha : agree L w skip = true) (hs : skips m skip = true) :
    ∃ bs, encode L m = .ok bs ∧ Spec.Ts24501.encode w (toSpec L w m) = some bs := by
  simp only [LayoutWF, layoutWF, Bool.and_eq_true] at hL
  obtain ⟨⟨hw1, hw2⟩, _⟩ := hL
  simp only [specWF, msgWF, Bool.and_eq_true, beq_iff_eq] at hm
  obtain ⟨⟨⟨⟨_, hv1⟩, hv2⟩, hs1⟩, hs2⟩ := hm
  simp only [agree, Bool.and_eq_true] at ha
  obtain ⟨⟨⟨ha1, ha2⟩, hnd⟩, _⟩ := ha
  obtain ⟨a, henc1, hspec1⟩ := mand_spec L.fields m L.encMand L.decMand 0 w.mand hw1 hv1 ha1 hs1
  obtain ⟨b, henc2, hspec2⟩ := opt_spec L.fields m w skip hnd hs L.encOpt L.cases w.opt _ hw2 hv2 ha2 hs2
    (fun _ h => h)
  refine ⟨a ++ b, by simp [encode, henc1, henc2], ?_⟩
  show (match Spec.Ts24501.encMand w.mand (toSpec L w m).mand, Spec.Ts24501.encOpts w.opt (toSpec L w m).opt with
    | some a, some b => some (a ++ b)
    | _, _ => none) = some (a ++ b)
  have e1 : Spec.Ts24501.encMand w.mand (toSpec L w m).mand = some a := hspec1
  have e2 : Spec.Ts24501.encOpts w.opt (toSpec L w m).opt = some b := hspec2
  rw [e1, e2]

end Stgutg.Nas
