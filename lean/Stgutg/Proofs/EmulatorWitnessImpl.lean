/-
  C01 / C02 — kernel-level tie on two recorded conversations (THOROUGH tier only; about ten minutes of kernel evaluation):
  the model `emulate`, with the executable AES-128 / SHA-256 / HMAC / CMAC of Crypto/, produces octet for octet the uplink
  messages the IMPLEMENTATION sent in the recorded runs (and its reports), and the reference AMF accepts those octets.
  The recorded octets are those of the tree at recording time: after a repair in /repo that changes the wire octets this
  file must be re-generated (see Proofs/EmulatorWitness.lean); the live comparison is the `convo-*` correspondence run.
-/
import Stgutg.Proofs.EmulatorWitness

namespace Stgutg.Proofs.EmulatorWitness
open Stgutg Stgutg.Model.Emulator

/-! ### NG Setup + registration of one UE -/

set_option maxRecDepth 1000000 in
/-- the model reproduces, octet for octet, the six uplink messages the implementation sent, and completes -/
theorem reg1_model_eq_impl :
    (emulate Crypto.prims Model.NetExt.goExt reg1Cfg reg1Dls).uls = reg1ImplUls ∧
    (emulate Crypto.prims Model.NetExt.goExt reg1Cfg reg1Dls).outcome = .completed := by decide +kernel

set_option maxRecDepth 1000000 in
/-- the reference AMF accepts the implementation's transcript (C01's clauses) -/
theorem reg1_accepted :
    Spec.Amf.judge Crypto.prims false (specOf reg1Cfg reg1Abba) reg1Choices reg1ImplUls none true = .accept := by decide +kernel

/-! ### the whole life cycle of one UE -/

set_option maxRecDepth 1000000 in
/-- the model reproduces the fifteen uplink messages and the reported (UE IP, TEID, UPF IP) of the implementation -/
theorem life1_model_eq_impl :
    (emulate Crypto.prims Model.NetExt.goExt life1Cfg life1Dls).uls = life1ImplUls ∧
    (emulate Crypto.prims Model.NetExt.goExt life1Cfg life1Dls).reports = life1ImplReports ∧
    (emulate Crypto.prims Model.NetExt.goExt life1Cfg life1Dls).outcome = .completed := by decide +kernel

set_option maxRecDepth 1000000 in
/-- the reference AMF/SMF accepts the implementation's transcript and reports (C02's clauses) -/
theorem life1_accepted :
    Spec.Amf.judge Crypto.prims true (specOf life1Cfg life1Abba) life1Choices life1ImplUls (some (toReported life1ImplReports)) true
      = .accept := by decide +kernel

/-- … and the reports are the values the network chose -/
theorem life1_reports_are_assigned :
    toReported life1ImplReports = life1Choices.map fun ch => { ip := ch.ueIp, teid := ch.teid, upf := ch.upfIp } := by decide

end Stgutg.Proofs.EmulatorWitness
