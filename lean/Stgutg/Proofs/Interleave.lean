/-
  Helper lemmas for C20: independent steps do not see each other, so every interleaving leaves each thread
  with the result of running it alone, and the store with the union of the threads' own writes.
-/
import Stgutg.Model.Interleave

namespace Stgutg.Proofs.Interleave
open Stgutg.Model.Interleave

variable {Val Local : Type}

/-! ### stores -/

theorem applyWrites_congr (ws : List (Loc × Val)) (σ σ' : Store Val) (l : Loc) (h : σ l = σ' l) :
    applyWrites σ ws l = applyWrites σ' ws l := by
  induction ws generalizing σ σ' with
  | nil => exact h
  | cons w ws ih =>
    apply ih
    simp only [setLoc]
    split <;> simp [h]

theorem applyWrites_frame (ws : List (Loc × Val)) (σ : Store Val) (l : Loc)
    (h : ∀ w, w ∈ ws → w.1 ≠ l) : applyWrites σ ws l = σ l := by
  induction ws generalizing σ with
  | nil => rfl
  | cons w ws ih =>
    simp only [applyWrites]
    rw [ih _ (fun w' hw' => h w' (List.mem_cons_of_mem _ hw'))]
    have : w.1 ≠ l := h w (List.mem_cons_self ..)
    simp only [setLoc]
    split
    · next heq => exact absurd heq.symm this
    · rfl

/-- a step that respects its footprint leaves every location outside its write set alone -/
theorem step_frame {s : Step Val Local} (hs : Respects s) (σ : Store Val) (loc : Local) (l : Loc)
    (hl : l ∉ s.writes) : applyWrites σ (s.act σ loc).1 l = σ l := by
  apply applyWrites_frame
  intro w hw heq
  exact hl (heq ▸ hs.writes_only σ loc w hw)

/-! ### a thread alone -/

theorem mem_writesOf {t : List (Step Val Local)} {l : Loc} :
    l ∈ writesOf t ↔ ∃ s, s ∈ t ∧ l ∈ s.writes := by
  induction t with
  | nil => simp [writesOf]
  | cons s ss ih =>
    simp only [writesOf, List.mem_append, ih, List.mem_cons]
    constructor
    · rintro (h | ⟨s', hs', hl⟩)
      · exact ⟨s, Or.inl rfl, h⟩
      · exact ⟨s', Or.inr hs', hl⟩
    · rintro ⟨s', (rfl | hs'), hl⟩
      · exact Or.inl hl
      · exact Or.inr ⟨s', hs', hl⟩

theorem mem_readsOf {t : List (Step Val Local)} {l : Loc} :
    l ∈ readsOf t ↔ ∃ s, s ∈ t ∧ l ∈ s.reads := by
  induction t with
  | nil => simp [readsOf]
  | cons s ss ih =>
    simp only [readsOf, List.mem_append, ih, List.mem_cons]
    constructor
    · rintro (h | ⟨s', hs', hl⟩)
      · exact ⟨s, Or.inl rfl, h⟩
      · exact ⟨s', Or.inr hs', hl⟩
    · rintro ⟨s', (rfl | hs'), hl⟩
      · exact Or.inl hl
      · exact Or.inr ⟨s', hs', hl⟩

/-- running a thread alone changes only what its steps declare to write -/
theorem solo_frame (t : List (Step Val Local)) (ht : ∀ s, s ∈ t → Respects s) (σ : Store Val) (loc : Local)
    (l : Loc) (hl : l ∉ writesOf t) : (solo σ loc t).1 l = σ l := by
  induction t generalizing σ loc with
  | nil => rfl
  | cons s ss ih =>
    simp only [writesOf, List.mem_append, not_or] at hl
    simp only [solo]
    rw [ih (fun s' hs' => ht s' (List.mem_cons_of_mem _ hs')) _ _ hl.2]
    exact step_frame (ht s (List.mem_cons_self ..)) σ loc l hl.1

/-- the result of a thread run alone depends on the store only through the thread's own footprint, and so
    does the part of the final store inside that footprint -/
theorem solo_congr (t : List (Step Val Local)) (ht : ∀ s, s ∈ t → Respects s) (σ σ' : Store Val) (loc : Local)
    (h : ∀ l, (l ∈ readsOf t ∨ l ∈ writesOf t) → σ l = σ' l) :
    (solo σ loc t).2 = (solo σ' loc t).2 ∧
    ∀ l, (l ∈ readsOf t ∨ l ∈ writesOf t) → (solo σ loc t).1 l = (solo σ' loc t).1 l := by
  induction t generalizing σ σ' loc with
  | nil => exact ⟨rfl, h⟩
  | cons s ss ih =>
    have hs : Respects s := ht s (List.mem_cons_self ..)
    have hss : ∀ s', s' ∈ ss → Respects s' := fun s' hs' => ht s' (List.mem_cons_of_mem _ hs')
    have hact : s.act σ loc = s.act σ' loc :=
      hs.reads_only σ σ' loc (fun l hl => h l (Or.inl (by simp [readsOf, hl])))
    simp only [solo]
    rw [← hact]
    have hagree : ∀ l, (l ∈ readsOf (s :: ss) ∨ l ∈ writesOf (s :: ss)) →
        applyWrites σ (s.act σ loc).1 l = applyWrites σ' (s.act σ loc).1 l :=
      fun l hl => applyWrites_congr _ _ _ _ (h l hl)
    have hsub : ∀ l, (l ∈ readsOf ss ∨ l ∈ writesOf ss) → (l ∈ readsOf (s :: ss) ∨ l ∈ writesOf (s :: ss)) := by
      intro l hl
      rcases hl with hl | hl
      · exact Or.inl (by simp [readsOf, hl])
      · exact Or.inr (by simp [writesOf, hl])
    have ih' := ih hss (applyWrites σ (s.act σ loc).1) (applyWrites σ' (s.act σ loc).1) (s.act σ loc).2
      (fun l hl => hagree l (hsub l hl))
    refine ⟨ih'.1, ?_⟩
    intro l hl
    by_cases hin : l ∈ readsOf ss ∨ l ∈ writesOf ss
    · exact ih'.2 l hin
    · have hnw : l ∉ writesOf ss := fun hw => hin (Or.inr hw)
      rw [solo_frame ss hss _ _ l hnw, solo_frame ss hss _ _ l hnw]
      exact hagree l hl

/-! ### pools -/

theorem upd_same {α : Type} (f : Nat → α) (i : Nat) (a : α) : upd f i a i = a := by simp [upd]
theorem upd_other {α : Type} (f : Nat → α) (i j : Nat) (a : α) (h : j ≠ i) : upd f i a j = f j := by simp [upd, h]

theorem upd_upd {α : Type} (f : Nat → α) (i : Nat) (a b : α) : upd (upd f i a) i b = upd f i b := by
  funext j; simp only [upd]; split <;> rfl

theorem upd_self {α : Type} (f : Nat → α) (i : Nat) (a : α) (h : f i = a) : upd f i a = f := by
  funext j; simp only [upd]; split
  · next hj => rw [hj, h]
  · rfl

theorem mem_upd_tail {p : Pool Val Local} {i : Tid} {s : Step Val Local} {rest : List (Step Val Local)}
    (hp : p i = s :: rest) {j : Tid} {s' : Step Val Local} (h : s' ∈ upd p i rest j) : s' ∈ p j := by
  by_cases hj : j = i
  · subst hj; rw [upd_same] at h; rw [hp]; exact List.mem_cons_of_mem _ h
  · rw [upd_other _ _ _ _ hj] at h; exact h

theorem poolRespects_tail {p : Pool Val Local} {i : Tid} {s : Step Val Local} {rest : List (Step Val Local)}
    (hp : p i = s :: rest) (h : PoolRespects p) : PoolRespects (upd p i rest) :=
  fun j s' hs' => h j s' (mem_upd_tail hp hs')

theorem poolDisjoint_tail {p : Pool Val Local} {i : Tid} {s : Step Val Local} {rest : List (Step Val Local)}
    (hp : p i = s :: rest) (h : PoolDisjoint p) : PoolDisjoint (upd p i rest) :=
  fun j k hjk a ha b hb => h j k hjk a (mem_upd_tail hp ha) b (mem_upd_tail hp hb)

/-- every step of a schedule is a step of the thread that performs it -/
theorem interleaving_mem {p : Pool Val Local} {tr : Trace Val Local} (h : Interleaving p tr) :
    ∀ e, e ∈ tr → e.2 ∈ p e.1 := by
  induction h with
  | done _ => intro e he; cases he
  | @pick p i s rest tr hp _ ih =>
    intro e he
    rcases List.mem_cons.mp he with rfl | he
    · show s ∈ p i
      rw [hp]; exact List.mem_cons_self ..
    · exact mem_upd_tail hp (ih e he)

/-! ### the main invariant -/

/-- Under footprint respect and pairwise disjointness, after ANY schedule:
    (1) every thread's local state is what it computes when run alone from the initial store;
    (2) every location a thread may write holds what that thread leaves there when run alone;
    (3) every other location is unchanged. -/
theorem exec_eq_solo {p : Pool Val Local} {tr : Trace Val Local} (h : Interleaving p tr) :
    PoolRespects p → PoolDisjoint p → ∀ c : Config Val Local,
    (∀ i, (exec c tr).locals i = (solo c.store (c.locals i) (p i)).2) ∧
    (∀ i l, l ∈ writesOf (p i) → (exec c tr).store l = (solo c.store (c.locals i) (p i)).1 l) ∧
    (∀ l, (∀ i, l ∉ writesOf (p i)) → (exec c tr).store l = c.store l) := by
  induction h with
  | done hall =>
    intro _ _ c
    refine ⟨?_, ?_, ?_⟩
    · intro i; simp [exec, hall i, solo]
    · intro i l hl; simp [hall i, writesOf] at hl
    · intro l _; rfl
  | @pick p i0 s rest tr hp _ ih =>
    intro hR hD c
    have hs : Respects s := hR i0 s (by rw [hp]; exact List.mem_cons_self ..)
    have hrest : ∀ s', s' ∈ rest → Respects s' :=
      fun s' hs' => hR i0 s' (by rw [hp]; exact List.mem_cons_of_mem _ hs')
    obtain ⟨ih1, ih2, ih3⟩ := ih (poolRespects_tail hp hR) (poolDisjoint_tail hp hD) (stepCfg c i0 s)
    -- the step of thread i0 touches nothing in the footprint of another thread
    have hother : ∀ j, j ≠ i0 → ∀ l, (l ∈ readsOf (p j) ∨ l ∈ writesOf (p j)) →
        (stepCfg c i0 s).store l = c.store l := by
      intro j hj l hl
      apply step_frame hs
      intro hw
      rcases hl with hl | hl
      · obtain ⟨s', hs', hl'⟩ := mem_readsOf.mp hl
        exact (hD i0 j (Ne.symm hj) s (by rw [hp]; exact List.mem_cons_self ..) s' hs' l hw).1 hl'
      · obtain ⟨s', hs', hl'⟩ := mem_writesOf.mp hl
        exact (hD i0 j (Ne.symm hj) s (by rw [hp]; exact List.mem_cons_self ..) s' hs' l hw).2 hl'
    have hsolo_other : ∀ j, j ≠ i0 →
        (solo (stepCfg c i0 s).store (c.locals j) (p j)).2 = (solo c.store (c.locals j) (p j)).2 ∧
        ∀ l, (l ∈ readsOf (p j) ∨ l ∈ writesOf (p j)) →
          (solo (stepCfg c i0 s).store (c.locals j) (p j)).1 l = (solo c.store (c.locals j) (p j)).1 l :=
      fun j hj => solo_congr (p j) (hR j) _ _ _ (hother j hj)
    refine ⟨?_, ?_, ?_⟩
    · intro j
      show (exec (stepCfg c i0 s) tr).locals j = _
      rw [ih1 j]
      by_cases hj : j = i0
      · subst hj
        rw [upd_same, hp]
        simp only [stepCfg, upd_same, solo]
      · rw [upd_other _ _ _ _ hj]
        have : (stepCfg c i0 s).locals j = c.locals j := by simp [stepCfg, upd_other _ _ _ _ hj]
        rw [this]
        exact (hsolo_other j hj).1
    · intro j l hl
      show (exec (stepCfg c i0 s) tr).store l = _
      by_cases hj : j = i0
      · subst hj
        rw [hp] at hl ⊢
        by_cases hlr : l ∈ writesOf rest
        · have := ih2 j l (by rw [upd_same]; exact hlr)
          rw [this, upd_same]
          simp only [stepCfg, upd_same, solo]
        · -- written by `s` only: nobody touches it afterwards
          have hnone : ∀ k, l ∉ writesOf (upd p j rest k) := by
            intro k hk
            by_cases hkj : k = j
            · subst hkj; rw [upd_same] at hk; exact hlr hk
            · rw [upd_other _ _ _ _ hkj] at hk
              have hls : l ∈ s.writes := by
                simp only [writesOf, List.mem_append] at hl
                exact hl.resolve_right hlr
              obtain ⟨s', hs', hl'⟩ := mem_writesOf.mp hk
              exact (hD k j hkj s' hs' s (by rw [hp]; exact List.mem_cons_self ..) l hl').2 hls
          rw [ih3 l hnone]
          simp only [solo]
          rw [solo_frame rest hrest _ _ l hlr]
          rfl
      · have := ih2 j l (by rw [upd_other _ _ _ _ hj]; exact hl)
        rw [this, upd_other _ _ _ _ hj]
        have hloc : (stepCfg c i0 s).locals j = c.locals j := by simp [stepCfg, upd_other _ _ _ _ hj]
        rw [hloc]
        exact (hsolo_other j hj).2 l (Or.inr hl)
    · intro l hl
      show (exec (stepCfg c i0 s) tr).store l = _
      have hnone : ∀ k, l ∉ writesOf (upd p i0 rest k) := by
        intro k hk
        obtain ⟨s', hs', hl'⟩ := mem_writesOf.mp hk
        exact hl k (mem_writesOf.mpr ⟨s', mem_upd_tail hp hs', hl'⟩)
      rw [ih3 l hnone]
      apply step_frame hs
      intro hw
      exact hl i0 (by rw [hp]; simp [writesOf, hw])

/-- any two schedules of the same threads end in the same thread-local states and the same store -/
theorem schedules_agree {p : Pool Val Local} (hR : PoolRespects p) (hD : PoolDisjoint p) (c : Config Val Local)
    {tr tr' : Trace Val Local} (h : Interleaving p tr) (h' : Interleaving p tr') :
    (exec c tr).locals = (exec c tr').locals ∧ (exec c tr).store = (exec c tr').store := by
  obtain ⟨a1, a2, a3⟩ := exec_eq_solo h hR hD c
  obtain ⟨b1, b2, b3⟩ := exec_eq_solo h' hR hD c
  refine ⟨funext fun i => (a1 i).trans (b1 i).symm, funext fun l => ?_⟩
  by_cases hw : ∃ i, l ∈ writesOf (p i)
  · obtain ⟨i, hi⟩ := hw
    exact (a2 i l hi).trans (b2 i l hi).symm
  · have hn : ∀ i, l ∉ writesOf (p i) := fun i hi => hw ⟨i, hi⟩
    exact (a3 l hn).trans (b3 l hn).symm

/-- no schedule contains a conflicting access pair -/
theorem raceFree {p : Pool Val Local} (hD : PoolDisjoint p) {tr : Trace Val Local} (h : Interleaving p tr) :
    RaceFree tr := by
  induction h with
  | done _ => exact List.Pairwise.nil
  | @pick p i s rest tr hp htr ih =>
    refine List.Pairwise.cons ?_ (ih (poolDisjoint_tail hp hD))
    intro e he hne
    have hmem : e.2 ∈ p e.1 := mem_upd_tail hp (interleaving_mem htr e he)
    have hsi : s ∈ p i := by rw [hp]; exact List.mem_cons_self ..
    exact ⟨hD i e.1 hne s hsi e.2 hmem, hD e.1 i (Ne.symm hne) e.2 hmem s hsi⟩

/-! ### the sequential run is one of the schedules -/

theorem run_thread (i : Tid) (steps : List (Step Val Local)) :
    ∀ (p : Pool Val Local) (tr : Trace Val Local), p i = steps → Interleaving (upd p i []) tr →
      Interleaving p (steps.map (fun s => (i, s)) ++ tr) := by
  induction steps with
  | nil =>
    intro p tr hp h
    rw [upd_self p i [] hp] at h
    exact h
  | cons s rest ih =>
    intro p tr hp h
    refine Interleaving.pick hp ?_
    apply ih (upd p i rest) tr (upd_same ..)
    rw [upd_upd]
    exact h

theorem seqTrace_congr (p q : Pool Val Local) (ids : List Tid) (h : ∀ i, i ∈ ids → p i = q i) :
    seqTrace p ids = seqTrace q ids := by
  induction ids with
  | nil => rfl
  | cons i ids ih =>
    simp only [seqTrace]
    rw [h i (List.mem_cons_self ..), ih (fun j hj => h j (List.mem_cons_of_mem _ hj))]

theorem seq_interleaving (ids : List Tid) : ∀ (p : Pool Val Local), ids.Nodup → (∀ i, i ∉ ids → p i = []) →
    Interleaving p (seqTrace p ids) := by
  induction ids with
  | nil => intro p _ hc; exact Interleaving.done (fun i => hc i (by simp))
  | cons i ids ih =>
    intro p hn hc
    have hn' := List.nodup_cons.mp hn
    simp only [seqTrace]
    apply run_thread i (p i) p _ rfl
    have hq : seqTrace p ids = seqTrace (upd p i []) ids :=
      seqTrace_congr _ _ _ (fun j hj => by
        have : j ≠ i := fun e => hn'.1 (e ▸ hj)
        rw [upd_other _ _ _ _ this])
    rw [hq]
    apply ih _ hn'.2
    intro j hj
    by_cases hji : j = i
    · subst hji; exact upd_same ..
    · rw [upd_other _ _ _ _ hji]
      exact hc j (by simp [hji, hj])

theorem pool_out_of_range (ts : List (List (Step Val Local))) (i : Tid) (h : i ∉ List.range ts.length) :
    pool ts i = [] := by
  have : ¬ i < ts.length := fun hlt => h (List.mem_range.mpr hlt)
  simp [pool, List.getElem?_eq_none (Nat.le_of_not_lt this)]

theorem sequential_interleaving (ts : List (List (Step Val Local))) : Interleaving (pool ts) (sequential ts) :=
  seq_interleaving _ _ List.nodup_range (pool_out_of_range ts)

theorem mem_pool {ts : List (List (Step Val Local))} {i : Tid} {s : Step Val Local} (h : s ∈ pool ts i) :
    ∃ t, t ∈ ts ∧ s ∈ t := by
  unfold pool at h
  cases hget : ts[i]? with
  | none => rw [hget] at h; simp at h
  | some t =>
    rw [hget] at h
    exact ⟨t, List.mem_of_getElem? hget, by simpa using h⟩

/-! ### from the footprint table to disjoint pools -/

theorem not_interferes {a b : FP} (h : a.interferes b = false) :
    ∀ l, l ∈ a.writes → l ∉ b.reads ∧ l ∉ b.writes := by
  intro l hl
  simp only [FP.interferes, List.any_eq_false, Bool.or_eq_true, List.contains_eq_mem, decide_eq_true_eq,
    not_or] at h
  exact h l hl

theorem disjoint_of_table {fps : List FP} (h : footprintsDisjoint fps = true) {a b : FP}
    (ha : a ∈ fps) (hb : b ∈ fps) : ∀ l, l ∈ a.writes → l ∉ b.reads ∧ l ∉ b.writes := by
  simp only [footprintsDisjoint, List.all_eq_true, Bool.not_eq_true'] at h
  exact not_interferes (h a ha b hb)

theorem mem_callSteps {cs : List (Call Val Local)} {s : Step Val Local} (h : s ∈ callSteps cs) :
    ∃ c, c ∈ cs ∧ s ∈ c.steps := by
  induction cs with
  | nil => cases h
  | cons c cs ih =>
    simp only [callSteps, List.mem_append] at h
    rcases h with h | h
    · exact ⟨c, List.mem_cons_self .., h⟩
    · obtain ⟨c', hc', hs⟩ := ih h
      exact ⟨c', List.mem_cons_of_mem _ hc', hs⟩

/-- threads made of calls that stay within pairwise interference-free entry-point footprints are disjoint -/
theorem poolDisjoint_of_calls {fps : List FP} (h : footprintsDisjoint fps = true)
    (threads : List (List (Call Val Local)))
    (hW : ∀ t, t ∈ threads → ∀ c, c ∈ t → c.Within fps) :
    PoolDisjoint (pool (threads.map callSteps)) := by
  intro i j _ s hs s' hs' l hl
  obtain ⟨t, ht, hst⟩ := mem_pool hs
  obtain ⟨t', ht', hst'⟩ := mem_pool hs'
  obtain ⟨cs, hcs, rfl⟩ := List.mem_map.mp ht
  obtain ⟨cs', hcs', rfl⟩ := List.mem_map.mp ht'
  obtain ⟨c, hc, hsc⟩ := mem_callSteps hst
  obtain ⟨c', hc', hsc'⟩ := mem_callSteps hst'
  obtain ⟨e, he, hin⟩ := hW cs hcs c hc
  obtain ⟨e', he', hin'⟩ := hW cs' hcs' c' hc'
  have hd := disjoint_of_table h (List.mem_of_getElem? he) (List.mem_of_getElem? he') l ((hin s hsc).2 l hl)
  exact ⟨fun hr => hd.1 ((hin' s' hsc').1 l hr), fun hw => hd.2 ((hin' s' hsc').2 l hw)⟩

end Stgutg.Proofs.Interleave
