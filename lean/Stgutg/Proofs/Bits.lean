/- Lemmas about `natToBits` / `bitsToNat` / octet packing. (Proof module: may use Mathlib's `ring`.) -/
import Stgutg.Base.Bits
import Mathlib.Tactic.Ring

namespace Stgutg.Proofs.Bits
open Stgutg

theorem bitsToNat_foldl (b : Bits) (acc : Nat) :
    b.foldl (fun a x => 2 * a + (if x then 1 else 0)) acc = acc * 2 ^ b.length + bitsToNat b := by
  induction b generalizing acc with
  | nil => simp [bitsToNat]
  | cons x xs ih =>
    simp only [List.foldl_cons, List.length_cons, bitsToNat]
    rw [ih, ih (2 * 0 + _)]
    cases x <;> simp <;> ring

theorem bitsToNat_cons (x : Bool) (xs : Bits) :
    bitsToNat (x :: xs) = (if x then 1 else 0) * 2 ^ xs.length + bitsToNat xs := by
  simp only [bitsToNat, List.foldl_cons]
  rw [bitsToNat_foldl]
  simp [bitsToNat]

theorem bitsToNat_append (a b : Bits) : bitsToNat (a ++ b) = bitsToNat a * 2 ^ b.length + bitsToNat b := by
  induction a with
  | nil => simp [bitsToNat]
  | cons x xs ih =>
    rw [List.cons_append, bitsToNat_cons, bitsToNat_cons, ih, List.length_append]
    rw [Nat.pow_add]; ring

theorem bitsToNat_lt (b : Bits) : bitsToNat b < 2 ^ b.length := by
  induction b with
  | nil => simp [bitsToNat]
  | cons x xs ih =>
    rw [bitsToNat_cons, List.length_cons, Nat.pow_succ]
    cases x <;> simp <;> omega

/-- reading back what `natToBits` wrote: the value modulo 2^w -/
theorem bitsToNat_natToBits (w n : Nat) : bitsToNat (natToBits w n) = n % 2 ^ w := by
  induction w with
  | zero => simp [natToBits, bitsToNat, Nat.mod_one]
  | succ w ih =>
    rw [natToBits, bitsToNat_cons, ih, natToBits_length]
    have h2 : n % 2 ^ (w + 1) = (n / 2 ^ w % 2) * 2 ^ w + n % 2 ^ w := by
      rw [Nat.pow_succ, Nat.mod_mul, Nat.add_comm, Nat.mul_comm]
    rw [h2, Nat.testBit_eq_decide_div_mod_eq]
    by_cases h : n / 2 ^ w % 2 = 1
    · simp [h]
    · have : n / 2 ^ w % 2 = 0 := by omega
      simp [this]

theorem bitsToNat_natToBits_of_lt (w n : Nat) (h : n < 2 ^ w) : bitsToNat (natToBits w n) = n := by
  rw [bitsToNat_natToBits, Nat.mod_eq_of_lt h]

@[simp] theorem take_append_length {α : Type} (a b : List α) : (a ++ b).take a.length = a := by simp
@[simp] theorem drop_append_length {α : Type} (a b : List α) : (a ++ b).drop a.length = b := by simp

theorem byteBits_length (b : UInt8) : (byteBits b).length = 8 := by simp [byteBits]

theorem bytesToBits_length (bs : Bytes) : (bytesToBits bs).length = 8 * bs.length := by
  induction bs with
  | nil => rfl
  | cons b bs ih => simp [bytesToBits, List.flatMap_cons, byteBits_length] at *; omega

theorem bytesToBits_cons (b : UInt8) (bs : Bytes) : bytesToBits (b :: bs) = byteBits b ++ bytesToBits bs := by
  simp [bytesToBits, List.flatMap_cons]

theorem bytesToBits_append (a b : Bytes) : bytesToBits (a ++ b) = bytesToBits a ++ bytesToBits b := by
  simp [bytesToBits, List.flatMap_append]

theorem ofNat_bitsToNat_byteBits (b : UInt8) : UInt8.ofNat (bitsToNat (byteBits b)) = b := by
  rw [byteBits, bitsToNat_natToBits]
  have : b.toNat % 2 ^ 8 = b.toNat := Nat.mod_eq_of_lt (by have := b.toNat_lt; omega)
  rw [this]; simp

theorem bitsToBytesAux_bytesToBits (bs : Bytes) (fuel : Nat) (h : bs.length ≤ fuel) :
    bitsToBytesAux fuel (bytesToBits bs) = bs := by
  induction bs generalizing fuel with
  | nil =>
    cases fuel with
    | zero => rfl
    | succ f => simp [bitsToBytesAux, bytesToBits]
  | cons b bs ih =>
    cases fuel with
    | zero => simp at h
    | succ f =>
      rw [bytesToBits_cons]
      have hl := byteBits_length b
      have hne : (byteBits b ++ bytesToBits bs).isEmpty = false := by
        cases hb : byteBits b with
        | nil => rw [hb] at hl; simp at hl
        | cons x xs => simp
      simp only [bitsToBytesAux, hne, Bool.false_eq_true, if_false]
      have ht : (byteBits b ++ bytesToBits bs).take 8 = byteBits b := by
        rw [← hl]; simp
      have hd : (byteBits b ++ bytesToBits bs).drop 8 = bytesToBits bs := by
        rw [← hl]; simp
      rw [ht, hd, hl]
      simp only [Nat.sub_self, List.replicate_zero, List.append_nil, ofNat_bitsToNat_byteBits]
      rw [ih f (by simpa using h)]

/-- packing the bits of whole octets gives the octets back -/
theorem bitsToBytes_bytesToBits (bs : Bytes) : bitsToBytes (bytesToBits bs) = bs := by
  unfold bitsToBytes
  exact bitsToBytesAux_bytesToBits bs _ (by rw [bytesToBits_length]; omega)

/-- `a + b` bits = the upper `a` bits followed by the lower `b` bits -/
theorem natToBits_add (a b n : Nat) : natToBits (a + b) n = natToBits a (n / 2 ^ b) ++ natToBits b n := by
  induction a with
  | zero => simp [natToBits]
  | succ a ih =>
    have e : a + 1 + b = (a + b) + 1 := by omega
    rw [e, natToBits, natToBits, ih, Nat.testBit_div_two_pow]
    rfl

/-- only the low `k ≥ w` bits matter -/
theorem natToBits_mod (w k n : Nat) (h : w ≤ k) : natToBits w (n % 2 ^ k) = natToBits w n := by
  induction w with
  | zero => rfl
  | succ w ih =>
    rw [natToBits, natToBits, ih (by omega), Nat.testBit_mod_two_pow]
    have : decide (w < k) = true := by simp; omega
    rw [this]; simp

end Stgutg.Proofs.Bits
