/-
  C14 helper lemmas: the decoder model never panics and never runs out of fuel.
  `DOK m` : for every reader state, `m` returns a value or an *error* (never panic / hang) and does not
  increase the number of remaining bits.
-/
import Stgutg.Model.AperDec

namespace Stgutg.Proofs.AperTotal
open Stgutg Stgutg.Aper

def Good {α : Type} : Res α → Prop
  | .ok _ => True
  | .error e => e = .error

@[simp] theorem good_ok {α : Type} (a : α) : Good (.ok a : Res α) := trivial
@[simp] theorem good_error {α : Type} (e : Err) : Good (.error e : Res α) ↔ e = .error := Iff.rfl

def DOK {α : Type} (m : D α) : Prop :=
  ∀ r, Good (m r) ∧ ∀ a r', m r = .ok (a, r') → r'.len ≤ r.len

theorem D_pure_apply {α : Type} (a : α) (r : Rd) : (pure a : D α) r = .ok (a, r) := rfl
theorem D_bind_apply {α β : Type} (m : D α) (f : α → D β) (r : Rd) :
    (m >>= f) r = match m r with | .ok (a, r') => f a r' | .error e => .error e := rfl

theorem DOK_pure {α : Type} (a : α) : DOK (pure a : D α) := by
  intro r
  refine ⟨by simp [D_pure_apply], ?_⟩
  intro a' r' h
  simp only [D_pure_apply, Except.ok.injEq, Prod.mk.injEq] at h
  rw [← h.2]; exact Nat.le_refl _

theorem DOK_bind {α β : Type} (m : D α) (f : α → D β) (hm : DOK m) (hf : ∀ a, DOK (f a)) : DOK (m >>= f) := by
  intro r
  have ⟨hg, hl⟩ := hm r
  rw [D_bind_apply]
  cases hmr : m r with
  | error e =>
    rw [hmr] at hg
    dsimp only
    exact ⟨by simpa using hg, by intro a r' h; simp at h⟩
  | ok p =>
    obtain ⟨a, r1⟩ := p
    have ⟨hg2, hl2⟩ := hf a r1
    dsimp only
    refine ⟨hg2, ?_⟩
    intro b r' h
    have h1 := hl a r1 hmr
    have h2 := hl2 b r' h
    omega

theorem DOK_fail_error {α : Type} : DOK (D.fail .error : D α) := by
  intro r
  refine ⟨by simp [D.fail], ?_⟩
  intro a r' h; simp [D.fail] at h

theorem DOK_getBits (n : Nat) (hn : n ≠ 0) : DOK (getBits n) := by
  intro r
  unfold getBits
  simp only [hn, if_false]
  split
  · exact ⟨by simp, by intro a r' h; simp at h⟩
  · refine ⟨by simp, ?_⟩
    intro a r' h
    simp only [Except.ok.injEq, Prod.mk.injEq] at h
    rw [← h.2]; simp

theorem DOK_getBitsValue (n : Nat) (hn : n ≠ 0) : DOK (getBitsValue n) := by
  unfold getBitsValue
  exact DOK_bind _ _ (DOK_getBits n hn) (fun _ => DOK_pure _)

theorem DOK_parseAlignBits : DOK parseAlignBits := by
  intro r
  unfold parseAlignBits
  split
  · rename_i h
    have hk : 8 - r.pos % 8 ≠ 0 := by omega
    have ⟨hg, hl⟩ := DOK_getBitsValue (8 - r.pos % 8) hk r
    cases hv : getBitsValue (8 - r.pos % 8) r with
    | error e => rw [hv] at hg; exact ⟨by simpa using hg, by intro a r' h; simp at h⟩
    | ok p =>
      obtain ⟨v, r1⟩ := p
      dsimp only
      split
      · exact ⟨by simp, by intro a r' h; simp at h⟩
      · refine ⟨by simp, ?_⟩
        intro a r' h
        simp only [Except.ok.injEq, Prod.mk.injEq] at h
        rw [← h.2]; exact hl v r1 hv
  · refine ⟨by simp, ?_⟩
    intro a r' h
    simp only [Except.ok.injEq, Prod.mk.injEq] at h
    rw [← h.2]; exact Nat.le_refl _

theorem DOK_takeOctets (n : Nat) : DOK (takeOctets n) := by
  intro r
  unfold takeOctets
  split
  · exact ⟨by simp, by intro a r' h; simp at h⟩
  · refine ⟨by simp, ?_⟩
    intro a r' h
    simp only [Except.ok.injEq, Prod.mk.injEq] at h
    rw [← h.2]; simp

/-- a successful read of `n` whole octets consumes exactly `8n` bits -/
theorem takeOctets_len (n : Nat) (r : Rd) (a : Bytes) (r' : Rd) (h : takeOctets n r = .ok (a, r')) :
    r'.len + 8 * n = r.len := by
  unfold takeOctets at h
  split at h
  · simp at h
  · simp only [Except.ok.injEq, Prod.mk.injEq] at h
    rw [← h.2]; simp; omega

theorem getBits_len (n : Nat) (r : Rd) (a : Bits) (r' : Rd) (h : getBits n r = .ok (a, r')) :
    r'.len + n = r.len := by
  unfold getBits at h
  split at h
  · simp at h
  · split at h
    · simp at h
    · simp only [Except.ok.injEq, Prod.mk.injEq] at h
      rw [← h.2]; simp; omega

theorem bitsForRange_ne_zero (range : Int) : bitsForRange range ≠ 0 := by
  unfold bitsForRange
  repeat (first | split | omega)

theorem DOK_parseConstraintValue (range : Int) : DOK (parseConstraintValue range) := by
  unfold parseConstraintValue
  split
  · split
    · exact DOK_fail_error
    · exact DOK_getBitsValue _ (bitsForRange_ne_zero _)
  · split
    · exact DOK_bind _ _ DOK_parseAlignBits (fun _ => DOK_getBitsValue 8 (by decide))
    · split
      · exact DOK_bind _ _ DOK_parseAlignBits (fun _ => DOK_getBitsValue 16 (by decide))
      · exact DOK_fail_error

theorem DOK_parseLength (sizeRange : Int) : DOK (parseLength sizeRange) := by
  unfold parseLength
  split
  · exact DOK_bind _ _ (DOK_parseConstraintValue _) (fun _ => DOK_pure _)
  · refine DOK_bind _ _ DOK_parseAlignBits (fun _ => ?_)
    refine DOK_bind _ _ (DOK_getBitsValue 8 (by decide)) (fun first => ?_)
    split
    · exact DOK_pure _
    · split
      · exact DOK_bind _ _ (DOK_getBitsValue 8 (by decide)) (fun _ => DOK_pure _)
      · dsimp only
        split
        · exact DOK_fail_error
        · exact DOK_pure _

/-- loop statement: with more fuel than remaining bits the loop neither panics nor runs out of fuel -/
def LoopOK {α : Type} (loop : D α) (r : Rd) : Prop :=
  Good (loop r) ∧ ∀ a r', loop r = .ok (a, r') → r'.len ≤ r.len

theorem octLoop_ok (sizeRange lb : Int) : ∀ (fuel : Nat) (acc : Bytes) (r : Rd), r.len < fuel →
    LoopOK (parseOctetStringLoop sizeRange lb fuel acc) r := by
  intro fuel
  induction fuel with
  | zero => intro acc r h; omega
  | succ fuel ih =>
    intro acc r hfuel
    unfold LoopOK
    unfold parseOctetStringLoop
    rw [D_bind_apply]
    have ⟨hg1, hl1⟩ := DOK_parseLength sizeRange r
    cases h1 : parseLength sizeRange r with
    | error e => rw [h1] at hg1; exact ⟨by simpa using hg1, by intro a r' h; simp at h⟩
    | ok p1 =>
      obtain ⟨⟨len, rep⟩, r1⟩ := p1
      have hr1 := hl1 _ _ h1
      dsimp only
      split
      · refine ⟨by simp [D_pure_apply], ?_⟩
        intro a r' h
        simp only [D_pure_apply, Except.ok.injEq, Prod.mk.injEq] at h
        rw [← h.2]; exact hr1
      · rename_i hraw
        rw [D_bind_apply]
        have ⟨hg2, hl2⟩ := DOK_parseAlignBits r1
        cases h2 : parseAlignBits r1 with
        | error e => rw [h2] at hg2; exact ⟨by simpa using hg2, by intro a r' h; simp at h⟩
        | ok p2 =>
          obtain ⟨u, r2⟩ := p2
          have hr2 := hl2 _ _ h2
          dsimp only
          rw [D_bind_apply]
          have ⟨hg3, _⟩ := DOK_takeOctets ((len : Int) + lb).toNat r2
          cases h3 : takeOctets ((len : Int) + lb).toNat r2 with
          | error e => rw [h3] at hg3; exact ⟨by simpa using hg3, by intro a r' h; simp at h⟩
          | ok p3 =>
            obtain ⟨b, r3⟩ := p3
            have hr3 := takeOctets_len _ _ _ _ h3
            dsimp only
            split
            · have hlt : r3.len < fuel := by omega
              have ⟨hg4, hl4⟩ := ih (acc ++ b) r3 hlt
              refine ⟨hg4, ?_⟩
              intro a r' h
              have := hl4 a r' h
              omega
            · refine ⟨by simp [D_pure_apply], ?_⟩
              intro a r' h
              simp only [D_pure_apply, Except.ok.injEq, Prod.mk.injEq] at h
              rw [← h.2]; omega

theorem D_get_apply (r : Rd) : D.get r = .ok (r, r) := rfl

theorem bitLoop_ok (sizeRange lb : Int) : ∀ (fuel : Nat) (accB : Bytes) (accL : Nat) (r : Rd), r.len < fuel →
    LoopOK (parseBitStringLoop sizeRange lb fuel accB accL) r := by
  intro fuel
  induction fuel with
  | zero => intro accB accL r h; omega
  | succ fuel ih =>
    intro accB accL r hfuel
    unfold LoopOK
    unfold parseBitStringLoop
    rw [D_bind_apply]
    have ⟨hg1, hl1⟩ := DOK_parseLength sizeRange r
    cases h1 : parseLength sizeRange r with
    | error e => rw [h1] at hg1; exact ⟨by simpa using hg1, by intro a r' h; simp at h⟩
    | ok p1 =>
      obtain ⟨⟨len, rep⟩, r1⟩ := p1
      have hr1 := hl1 _ _ h1
      dsimp only
      split
      · refine ⟨by simp [D_pure_apply], ?_⟩
        intro a r' h
        simp only [D_pure_apply, Except.ok.injEq, Prod.mk.injEq] at h
        rw [← h.2]; exact hr1
      · rename_i hraw
        rw [D_bind_apply]
        have ⟨hg2, hl2⟩ := DOK_parseAlignBits r1
        cases h2 : parseAlignBits r1 with
        | error e => rw [h2] at hg2; exact ⟨by simpa using hg2, by intro a r' h; simp at h⟩
        | ok p2 =>
          obtain ⟨u, r2⟩ := p2
          have hr2 := hl2 _ _ h2
          dsimp only
          rw [D_bind_apply, D_get_apply]
          dsimp only
          split
          · exact ⟨by simp [D.fail], by intro a r' h; simp [D.fail] at h⟩
          · rw [D_bind_apply]
            have ⟨hg3, _⟩ := DOK_getBits ((len : Int) + lb).toNat hraw r2
            cases h3 : getBits ((len : Int) + lb).toNat r2 with
            | error e => rw [h3] at hg3; exact ⟨by simpa using hg3, by intro a r' h; simp at h⟩
            | ok p3 =>
              obtain ⟨b, r3⟩ := p3
              have hr3 := getBits_len _ _ _ _ h3
              dsimp only
              split
              · have hlt : r3.len < fuel := by omega
                have ⟨hg4, hl4⟩ := ih (accB ++ bitsToBytes b) (accL + ((len : Int) + lb).toNat) r3 hlt
                refine ⟨hg4, ?_⟩
                intro a r' h
                have := hl4 a r' h
                omega
              · refine ⟨by simp [D_pure_apply], ?_⟩
                intro a r' h
                simp only [D_pure_apply, Except.ok.injEq, Prod.mk.injEq] at h
                rw [← h.2]; omega

theorem openLoop_ok : ∀ (fuel : Nat) (acc : Bytes) (r : Rd), r.len < fuel →
    LoopOK (openTypeOctets fuel acc) r := by
  intro fuel
  induction fuel with
  | zero => intro acc r h; omega
  | succ fuel ih =>
    intro acc r hfuel
    unfold LoopOK
    unfold openTypeOctets
    rw [D_bind_apply]
    have ⟨hg1, hl1⟩ := DOK_parseLength (-1) r
    cases h1 : parseLength (-1) r with
    | error e => rw [h1] at hg1; exact ⟨by simpa using hg1, by intro a r' h; simp at h⟩
    | ok p1 =>
      obtain ⟨⟨len, rep⟩, r1⟩ := p1
      have hr1 := hl1 _ _ h1
      dsimp only
      split
      · refine ⟨by simp [D_pure_apply], ?_⟩
        intro a r' h
        simp only [D_pure_apply, Except.ok.injEq, Prod.mk.injEq] at h
        rw [← h.2]; exact hr1
      · rename_i hraw
        rw [D_bind_apply]
        have ⟨hg2, hl2⟩ := DOK_parseAlignBits r1
        cases h2 : parseAlignBits r1 with
        | error e => rw [h2] at hg2; exact ⟨by simpa using hg2, by intro a r' h; simp at h⟩
        | ok p2 =>
          obtain ⟨u, r2⟩ := p2
          have hr2 := hl2 _ _ h2
          dsimp only
          rw [D_bind_apply]
          have ⟨hg3, _⟩ := DOK_takeOctets len r2
          cases h3 : takeOctets len r2 with
          | error e => rw [h3] at hg3; exact ⟨by simpa using hg3, by intro a r' h; simp at h⟩
          | ok p3 =>
            obtain ⟨b, r3⟩ := p3
            have hr3 := takeOctets_len _ _ _ _ h3
            dsimp only
            split
            · have hlt : r3.len < fuel := by omega
              have ⟨hg4, hl4⟩ := ih (acc ++ b) r3 hlt
              refine ⟨hg4, ?_⟩
              intro a r' h
              have := hl4 a r' h
              omega
            · have hd := DOK_bind _ _ DOK_parseAlignBits (fun _ => DOK_pure (acc ++ b)) r3
              refine ⟨hd.1, ?_⟩
              intro a r' h
              have := hd.2 a r' h
              omega

/-- a fixed size constraint (lb = ub) is never the empty size: otherwise `getBitString(0)` would trap -/
def sizeOK (p : Params) : Bool :=
  match p.sizeUB with
  | none => true
  | some u => if u - p.sizeLB.getD 0 + 1 = 1 then decide (u ≥ 1) else true

theorem sizeBounds_fixed (ext : Bool) (lbP ubP : Option Int) (lb ub sr : Int)
    (h : sizeBounds ext lbP ubP = (lb, ub, sr)) (hsr : sr = 1)
    (hok : ∀ u, ubP = some u → u - lbP.getD 0 + 1 = 1 → u ≥ 1) : ub ≥ 1 := by
  unfold sizeBounds at h
  split at h
  · simp only [Prod.mk.injEq] at h; omega
  · cases ubP with
    | none => simp only [Prod.mk.injEq] at h; omega
    | some u =>
      simp only [Prod.mk.injEq] at h
      obtain ⟨h1, h2, h3⟩ := h
      have := hok u rfl
      split at h3 <;> omega

theorem DOK_parseBitString (ext : Bool) (lbP ubP : Option Int)
    (hok : ∀ u, ubP = some u → u - lbP.getD 0 + 1 = 1 → u ≥ 1) : DOK (parseBitString ext lbP ubP) := by
  unfold parseBitString
  generalize hsb : sizeBounds ext lbP ubP = sb
  obtain ⟨lb, ub, sr⟩ := sb
  dsimp only
  split
  · rename_i hsr
    have hub := sizeBounds_fixed ext lbP ubP lb ub sr hsb hsr hok
    have hn : ub.toNat ≠ 0 := by omega
    split
    · refine DOK_bind _ _ DOK_parseAlignBits (fun _ => ?_)
      refine DOK_bind _ _ ?_ (fun r => ?_)
      · intro r; exact ⟨by simp [D_get_apply], by intro a r' h; simp [D_get_apply] at h; rw [← h.2]; exact Nat.le_refl _⟩
      · split
        · exact DOK_fail_error
        · exact DOK_bind _ _ (DOK_getBits _ hn) (fun _ => DOK_pure _)
    · exact DOK_bind _ _ (DOK_getBits _ hn) (fun _ => DOK_pure _)
  · intro r
    rw [D_bind_apply, D_get_apply]
    exact bitLoop_ok sr lb (r.len + 2) [] 0 r (by omega)

theorem DOK_parseOctetString (ext : Bool) (lbP ubP : Option Int)
    (hok : ∀ u, ubP = some u → u - lbP.getD 0 + 1 = 1 → u ≥ 1) : DOK (parseOctetString ext lbP ubP) := by
  unfold parseOctetString
  generalize hsb : sizeBounds ext lbP ubP = sb
  obtain ⟨lb, ub, sr⟩ := sb
  dsimp only
  split
  · rename_i hsr
    have hub := sizeBounds_fixed ext lbP ubP lb ub sr hsb hsr hok
    split
    · exact DOK_bind _ _ DOK_parseAlignBits (fun _ => DOK_takeOctets _)
    · have hn : 8 * ub.toNat ≠ 0 := by omega
      exact DOK_bind _ _ (DOK_getBits _ hn) (fun _ => DOK_pure _)
  · intro r
    rw [D_bind_apply, D_get_apply]
    exact octLoop_ok sr lb (r.len + 2) [] r (by omega)

theorem DOK_parseInteger (ext : Bool) (lbP ubP : Option Int) : DOK (parseInteger ext lbP ubP) := by
  unfold parseInteger
  generalize (if ext = true then ((0 : Int), (-1 : Int), (-1 : Int)) else
      match lbP with
      | none => (0, -1, -1)
      | some l => match ubP with
        | none => (l, -1, 0)
        | some u => (l, u, u - l + 1)) = t
  obtain ⟨lb, ub, range⟩ := t
  dsimp only
  split
  · exact DOK_pure _
  · split
    · refine DOK_bind _ _ DOK_parseAlignBits (fun _ => ?_)
      refine DOK_bind _ _ (DOK_takeOctets 1) (fun lenB => ?_)
      split
      · exact DOK_fail_error
      · rename_i hraw
        refine DOK_bind _ _ (DOK_getBitsValue _ (by omega)) (fun raw => ?_)
        split
        · split
          · split
            · exact DOK_pure _
            · exact DOK_pure _
          · split
            · exact DOK_pure _
            · exact DOK_pure _
        · exact DOK_pure _
    · split
      · exact DOK_bind _ _ (DOK_parseConstraintValue _) (fun _ => DOK_pure _)
      · refine DOK_bind _ _ (DOK_getBitsValue _ (bitsForRange_ne_zero _)) (fun t => ?_)
        refine DOK_bind _ _ DOK_parseAlignBits (fun _ => ?_)
        exact DOK_bind _ _ (DOK_getBitsValue _ (by omega)) (fun _ => DOK_pure _)

theorem DOK_parseEnumerated (ext : Bool) (lbP ubP : Option Int) : DOK (parseEnumerated ext lbP ubP) := by
  unfold parseEnumerated
  split
  · exact DOK_fail_error
  · split
    · dsimp only
      split
      · exact DOK_parseConstraintValue _
      · exact DOK_pure _
    · exact DOK_fail_error

theorem DOK_getChoiceIndex (ext : Bool) (ubP : Option Int) : DOK (getChoiceIndex ext ubP) := by
  unfold getChoiceIndex
  split
  · exact DOK_fail_error
  · split
    · exact DOK_fail_error
    · split
      · exact DOK_fail_error
      · exact DOK_bind _ _ (DOK_parseConstraintValue _) (fun _ => DOK_pure _)

theorem DOK_extBits (params : Params) (isSlice : Bool) : DOK (extBits params isSlice) := by
  unfold extBits
  refine DOK_bind _ _ ?_ (fun se => DOK_bind _ _ ?_ (fun ve => DOK_pure _))
  · split
    · exact DOK_bind _ _ (DOK_getBitsValue 1 (by decide)) (fun _ => DOK_pure _)
    · exact DOK_pure _
  · split
    · exact DOK_bind _ _ (DOK_getBitsValue 1 (by decide)) (fun _ => DOK_pure _)
    · exact DOK_pure _

theorem sizeOK_spec (p : Params) (h : sizeOK p = true) :
    ∀ u, p.sizeUB = some u → u - p.sizeLB.getD 0 + 1 = 1 → u ≥ 1 := by
  intro u hu hfix
  unfold sizeOK at h
  rw [hu] at h
  simp only [hfix, if_true, decide_eq_true_eq] at h
  exact h

theorem DOK_decLeaf (ty : Ty) (params : Params) (se ve : Bool) (hok : sizeOK params = true) :
    DOK (decLeaf ty params se ve) := by
  have hs := sizeOK_spec params hok
  unfold decLeaf
  split
  · exact DOK_bind _ _ (DOK_parseBitString _ _ _ hs) (fun _ => DOK_pure _)
  · exact DOK_bind _ _ (DOK_parseOctetString _ _ _ hs) (fun _ => DOK_pure _)
  · exact DOK_bind _ _ (DOK_parseOctetString _ _ _ hs) (fun _ => DOK_pure _)
  · exact DOK_bind _ _ (DOK_parseEnumerated _ _ _) (fun _ => DOK_pure _)
  · exact DOK_bind _ _ (DOK_getBitsValue 1 (by decide)) (fun _ => DOK_pure _)
  · exact DOK_bind _ _ (DOK_parseInteger _ _ _) (fun _ => DOK_pure _)
  · exact DOK_fail_error

theorem DOK_catchErr {α : Type} (m : D α) (h : Rd → α × Rd) (hm : DOK m) (hh : ∀ r, (h r).2.len ≤ r.len) :
    DOK (D.catchErr m h) := by
  intro r
  unfold D.catchErr
  have ⟨hg, hl⟩ := hm r
  cases hmr : m r with
  | ok x =>
    obtain ⟨a, r1⟩ := x
    dsimp only
    refine ⟨by simp, ?_⟩
    intro a' r' h'
    simp only [Except.ok.injEq, Prod.mk.injEq] at h'
    rw [← h'.2]; exact hl a r1 hmr
  | error e =>
    rw [hmr] at hg
    have he : e = .error := by simpa using hg
    subst he
    dsimp only
    refine ⟨by simp, ?_⟩
    intro a' r' h'
    simp only [Except.ok.injEq] at h'
    have := hh r
    rw [h'] at this
    exact this

theorem DOK_sliceCountWith (lb sr : Int) : DOK (sliceCountWith lb sr) := by
  unfold sliceCountWith
  split
  · refine DOK_catchErr _ _ (DOK_bind _ _ (DOK_parseConstraintValue _) (fun _ => DOK_pure _)) ?_
    intro r
    dsimp only
    split
    · simp
    · exact Nat.le_refl _
  · split
    · exact DOK_pure _
    · refine DOK_bind _ _ (DOK_parseLength _) (fun x => ?_)
      split
      split
      · exact DOK_fail_error
      · exact DOK_pure _

theorem DOK_sliceCount (params : Params) (se : Bool) : DOK (sliceCount params se) := by
  unfold sliceCount
  exact DOK_sliceCountWith _ _

theorem DOK_decElems (f : D Val) (hf : DOK f) : ∀ n, DOK (decElems f n) := by
  intro n
  induction n with
  | zero => exact DOK_pure _
  | succ n ih =>
    unfold decElems
    exact DOK_bind _ _ hf (fun _ => DOK_bind _ _ ih (fun _ => DOK_pure _))

/-- nesting depth of a type when struct `id` counts `8·(id+1)`: strictly decreasing along the fields of a
    topologically ordered schema -/
def tyDepth : Ty → Nat
  | .struct id => 8 * (id + 1)
  | .ptr t => tyDepth t + 1
  | .slice t => tyDepth t + 1
  | _ => 0

/-- `getReferenceFieldValue` never meets an empty struct below this type -/
def refTyOK (env : Env) : Nat → Ty → Bool
  | 0, _ => false
  | n + 1, .struct id =>
    match env[id]? with
    | none => true
    | some sd =>
      match sd.fields with
      | [] => false
      | f0 :: rest =>
        if f0.name == "Present" then rest.all (fun f => refTyOK env n f.ty)
        else refTyOK env n f0.ty
  | _ + 1, _ => true

/-- decidable well-formedness of a schema, exactly what the totality proof needs -/
def structOK (env : Env) (id : Nat) (sd : StructDef) : Bool :=
  sd.fields.all (fun f => decide (tyDepth f.ty < 8 * (id + 1)) && sizeOK f.params) &&
  (!(sd.fields.any (fun f => f.params.openType)) || sd.fields.all (fun f => refTyOK env 6 f.ty))

def envOKFrom (env : Env) : Nat → List StructDef → Bool
  | _, [] => true
  | id, sd :: rest => structOK env id sd && envOKFrom env (id + 1) rest

def envOK (env : Env) : Bool := envOKFrom env 0 env

theorem envOKFrom_get (env : Env) : ∀ (l : List StructDef) (base : Nat), envOKFrom env base l = true →
    ∀ i sd, l[i]? = some sd → structOK env (base + i) sd = true := by
  intro l
  induction l with
  | nil => intro base _ i sd h; simp at h
  | cons x xs ih =>
    intro base hok i sd h
    simp only [envOKFrom, Bool.and_eq_true] at hok
    cases i with
    | zero => simp at h; subst h; simpa using hok.1
    | succ i =>
      simp at h
      have := ih (base + 1) hok.2 i sd h
      have e : base + 1 + i = base + (i + 1) := by omega
      rw [e] at this; exact this

theorem envOK_get (env : Env) (h : envOK env = true) (id : Nat) (sd : StructDef) (hsd : env[id]? = some sd) :
    structOK env id sd = true := by
  have := envOKFrom_get env env 0 h id sd hsd
  simpa using this

theorem structOK_field (env : Env) (id : Nat) (sd : StructDef) (h : structOK env id sd = true)
    (f : Field) (hf : f ∈ sd.fields) : tyDepth f.ty < 8 * (id + 1) ∧ sizeOK f.params = true := by
  unfold structOK at h
  simp only [Bool.and_eq_true, List.all_eq_true, decide_eq_true_eq] at h
  exact h.1 f hf

theorem getElem?_mem' {α : Type} (l : List α) (i : Nat) (a : α) (h : l[i]? = some a) : a ∈ l :=
  List.mem_of_getElem? h

theorem refFieldValue_good (env : Env) (henv : envOK env = true) :
    ∀ (n fuel : Nat) (ty : Ty) (v : Val), refTyOK env n ty = true → tyDepth ty < fuel →
      Good (refFieldValue env fuel ty v) := by
  intro n
  induction n with
  | zero => intro fuel ty v h; simp [refTyOK] at h
  | succ n ih =>
    intro fuel ty v hok hd
    cases fuel with
    | zero => omega
    | succ fuel =>
      cases ty <;> cases v <;> try (simp [refFieldValue, err])
      rename_i id fs
      split
      · simp
      · rename_i sd hsd
        have hs := envOK_get env henv id sd hsd
        split
        · rename_i hnil
          simp [refTyOK, hsd, hnil] at hok
        · rename_i f0 rest hcons
          simp only [refTyOK, hsd, hcons] at hok
          split
          · rename_i hpres
            simp [hpres] at hok
            split
            · rename_i p tl
              split
              · simp
              · split
                · simp
                · rename_i hp0 hplen
                  split
                  · rename_i f v' hf hv
                    have hpos : p.toNat ≥ 1 := by omega
                    have hfm : f ∈ rest := by
                      have : (f0 :: rest)[p.toNat]? = some f := by rw [← hcons]; exact hf
                      obtain ⟨k, hk⟩ : ∃ k, p.toNat = k + 1 := ⟨p.toNat - 1, by omega⟩
                      rw [hk] at this
                      simp at this
                      exact List.mem_of_getElem? this
                    have hfd := structOK_field env id sd hs f (by rw [hcons]; exact List.mem_cons_of_mem _ hfm)
                    simp only [tyDepth] at hd
                    exact ih fuel f.ty v' (hok f hfm) (by omega)
                  · simp
            · simp
          · rename_i hpres
            simp [hpres] at hok
            split
            · rename_i v0 tl
              have hfd := structOK_field env id sd hs f0 (by rw [hcons]; exact List.mem_cons_self)
              simp only [tyDepth] at hd
              exact ih fuel f0.ty v0 hok (by omega)
            · simp

theorem DOK_getThen {α : Type} (g : Rd → D α) (h : ∀ r, LoopOK (g r) r) : DOK (D.get >>= g) := by
  intro r
  rw [D_bind_apply, D_get_apply]
  exact h r

theorem DOK_fail_of_good {α β : Type} (x : Res α) (hx : Good x) (k : α → D β) (hk : ∀ a, DOK (k a)) :
    DOK (match x with | .error e => D.fail e | .ok a => k a) := by
  cases x with
  | error e => have : e = .error := by simpa using hx
               subst this; exact DOK_fail_error
  | ok a => exact hk a

theorem sizeOK_refValue (p : Params) (x : Option Int) : sizeOK { p with refValue := x } = sizeOK p := rfl

theorem resolveRef_spec (rfv : Ty → Val → Res Int) (allFields : List Field) (vals : List Val) (i : Nat) (fd : Field)
    (hr : fd.params.openType = true → ∀ rf ∈ allFields, ∀ v, Good (rfv rf.ty v)) :
    Good (resolveRef rfv allFields vals i fd) ∧
      ∀ fp, resolveRef rfv allFields vals i fd = .ok fp → sizeOK fp = sizeOK fd.params := by
  unfold resolveRef
  split
  · rename_i hopen
    split
    · exact ⟨by simp [err], by intro fp h; simp [err] at h⟩
    · split
      · rename_i rf rv hrf hrv
        have hg := hr hopen rf (List.mem_of_getElem? hrf) rv
        cases hx : rfv rf.ty rv with
        | error e =>
          rw [hx] at hg
          dsimp only
          exact ⟨by simpa using hg, by intro fp h; simp at h⟩
        | ok x =>
          dsimp only
          refine ⟨by simp, ?_⟩
          intro fp h
          simp only [Except.ok.injEq] at h
          rw [← h]; rfl
      · exact ⟨by simp [err], by intro fp h; simp [err] at h⟩
  · refine ⟨by simp, ?_⟩
    intro fp h
    simp only [Except.ok.injEq] at h
    rw [← h]

theorem DOK_decSeqFields (f : Ty → Params → D Val) (rfv : Ty → Val → Res Int) (allFields : List Field) :
    ∀ (fields : List Field), (∀ fd ∈ fields, sizeOK fd.params = true ∧ (∀ p, sizeOK p = true → DOK (f fd.ty p)) ∧
        (fd.params.openType = true → ∀ rf ∈ allFields, ∀ v, Good (rfv rf.ty v))) →
      ∀ (i optCount optBits : Nat) (vals : List Val),
        DOK (decSeqFields f rfv allFields i optCount optBits fields vals) := by
  intro fields
  induction fields with
  | nil => intro _ i oc ob vals; unfold decSeqFields; exact DOK_pure _
  | cons fd rest ih =>
    intro hf i oc ob vals
    have hrest : ∀ fd' ∈ rest, sizeOK fd'.params = true ∧ (∀ p, sizeOK p = true → DOK (f fd'.ty p)) ∧
        (fd'.params.openType = true → ∀ rf ∈ allFields, ∀ v, Good (rfv rf.ty v)) :=
      fun fd' h => hf fd' (List.mem_cons_of_mem _ h)
    have ⟨hsz, hfd, hr⟩ := hf fd List.mem_cons_self
    unfold decSeqFields
    dsimp only
    split
    · exact ih hrest _ _ _ _
    · have ⟨hg, hsp⟩ := resolveRef_spec rfv allFields vals i fd hr
      cases hx : resolveRef rfv allFields vals i fd with
      | error e =>
        rw [hx] at hg
        have : e = .error := by simpa using hg
        subst this
        exact DOK_fail_error
      | ok fp =>
        dsimp only
        refine DOK_bind _ _ (hfd fp (by rw [hsp fp hx]; exact hsz)) (fun v => ?_)
        exact ih hrest _ _ _ _

theorem DOK_decStruct (f : Ty → Params → D Val) (rfv : Ty → Val → Res Int) (zero : Ty → Val)
    (sd : StructDef) (params : Params) (ve : Bool)
    (hf : ∀ fd ∈ sd.fields, sizeOK fd.params = true ∧ (∀ p, sizeOK p = true → DOK (f fd.ty p)) ∧
        (fd.params.openType = true → ∀ rf ∈ sd.fields, ∀ v, Good (rfv rf.ty v))) :
    DOK (decStruct f rfv zero sd params ve) := by
  unfold decStruct
  dsimp only
  refine DOK_bind _ _ ?_ (fun optBits => ?_)
  · split
    · rename_i h
      exact DOK_getBitsValue _ (by omega)
    · exact DOK_pure _
  · split
    · split
      · split
        · exact DOK_fail_error
        · split
          · exact DOK_pure _
          · split
            · exact DOK_fail_error
            · rename_i present fd hfd
              have hmem : fd ∈ sd.fields := List.mem_of_getElem? hfd
              have ⟨hsz, hdf, _⟩ := hf fd hmem
              refine DOK_getThen _ (fun r0 => ?_)
              have ⟨hg1, hl1⟩ := openLoop_ok (r0.len + 2) [] r0 (by omega)
              unfold LoopOK
              rw [D_bind_apply]
              cases h1 : openTypeOctets (r0.len + 2) [] r0 with
              | error e => rw [h1] at hg1; exact ⟨by simpa using hg1, by intro a r' h; simp at h⟩
              | ok p1 =>
                obtain ⟨octs, r1⟩ := p1
                have hr1 := hl1 _ _ h1
                dsimp only
                have hin := (hdf fd.params hsz (Rd.ofBytes octs)).1
                cases hx : f fd.ty fd.params (Rd.ofBytes octs) with
                | error e =>
                  rw [hx] at hin
                  have : e = .error := by simpa using hin
                  subst this
                  dsimp only
                  exact ⟨by simp [D.fail], by intro a r' h; simp [D.fail] at h⟩
                | ok p2 =>
                  obtain ⟨v, r2⟩ := p2
                  dsimp only
                  refine ⟨by simp [D_pure_apply], ?_⟩
                  intro a r' h
                  simp only [D_pure_apply, Except.ok.injEq, Prod.mk.injEq] at h
                  rw [← h.2]; exact hr1
      · refine DOK_bind _ _ (DOK_catchErr _ _ (DOK_getChoiceIndex _ _) (fun r => Nat.le_refl _)) (fun present => ?_)
        split
        · exact DOK_fail_error
        · split
          · exact DOK_fail_error
          · split
            · exact DOK_fail_error
            · rename_i fd hfd
              have hmem : fd ∈ sd.fields := List.mem_of_getElem? hfd
              have ⟨hsz, hdf, _⟩ := hf fd hmem
              exact DOK_bind _ _ (hdf fd.params hsz) (fun _ => DOK_pure _)
    · exact DOK_bind _ _ (DOK_decSeqFields f rfv sd.fields sd.fields hf _ _ _ _) (fun _ => DOK_pure _)

/-- stripping the size constraint keeps `sizeOK` -/
theorem sizeOK_stripSize (p : Params) : sizeOK (stripSize p) = true := rfl

/-- **Totality of the decoder model**: over a schema that passes `envOK`, with fuel above the nesting depth of
    the type, `parseField` returns a value or an error — never a panic, never out of fuel — and never un-reads. -/
theorem DOK_decField (env : Env) (henv : envOK env = true) :
    ∀ (fuel : Nat) (ty : Ty) (params : Params), tyDepth ty < fuel → sizeOK params = true →
      DOK (decField env fuel ty params) := by
  intro fuel
  induction fuel with
  | zero => intro ty params h; omega
  | succ fuel ih =>
    intro ty params hd hsz r0
    unfold decField
    dsimp only
    split
    · exact ⟨by simp, by intro a r' h; simp at h⟩
    · cases ty with
      | ptr t =>
        dsimp only
        simp only [tyDepth] at hd
        exact DOK_bind _ _ (ih t params (by omega) hsz) (fun _ => DOK_pure _) r0
      | slice t =>
        dsimp only
        simp only [tyDepth] at hd
        refine DOK_bind _ _ (DOK_extBits _ _) (fun x => ?_) r0
        obtain ⟨se, ve⟩ := x
        dsimp only
        refine DOK_bind _ _ (DOK_sliceCount _ _) (fun n => ?_)
        refine DOK_bind _ _ (DOK_decElems _ (ih t (stripSize params) (by omega) (sizeOK_stripSize params)) n) (fun _ => DOK_pure _)
      | struct id =>
        dsimp only
        split
        · exact ⟨by simp, by intro a r' h; simp at h⟩
        · rename_i sd hsd
          have hs := envOK_get env henv id sd hsd
          simp only [tyDepth] at hd
          refine DOK_bind _ _ (DOK_extBits _ _) (fun x => ?_) r0
          obtain ⟨se, ve⟩ := x
          dsimp only
          refine DOK_decStruct _ _ _ sd params ve ?_
          intro fd hfdm
          have hfd := structOK_field env id sd hs fd hfdm
          refine ⟨hfd.2, fun p hp => ih fd.ty p (by omega) hp, ?_⟩
          intro hopen rf hrf v
          have hrfd := structOK_field env id sd hs rf hrf
          have hany : sd.fields.any (fun f => f.params.openType) = true := by
            simp only [List.any_eq_true]
            exact ⟨fd, hfdm, hopen⟩
          have hall : sd.fields.all (fun f => refTyOK env 6 f.ty) = true := by
            unfold structOK at hs
            simp only [Bool.and_eq_true, Bool.or_eq_true, Bool.not_eq_true'] at hs
            rcases hs.2 with h | h
            · rw [hany] at h; cases h
            · exact h
          have hrt : refTyOK env 6 rf.ty = true := by
            simp only [List.all_eq_true] at hall
            exact hall rf hrf
          exact refFieldValue_good env henv 6 fuel rf.ty v hrt (by omega)
      | int => dsimp only; exact DOK_bind _ _ (DOK_extBits _ _) (fun x => DOK_decLeaf _ _ _ _ hsz) r0
      | enum => dsimp only; exact DOK_bind _ _ (DOK_extBits _ _) (fun x => DOK_decLeaf _ _ _ _ hsz) r0
      | bits => dsimp only; exact DOK_bind _ _ (DOK_extBits _ _) (fun x => DOK_decLeaf _ _ _ _ hsz) r0
      | octs => dsimp only; exact DOK_bind _ _ (DOK_extBits _ _) (fun x => DOK_decLeaf _ _ _ _ hsz) r0
      | str => dsimp only; exact DOK_bind _ _ (DOK_extBits _ _) (fun x => DOK_decLeaf _ _ _ _ hsz) r0
      | bool => dsimp only; exact DOK_bind _ _ (DOK_extBits _ _) (fun x => DOK_decLeaf _ _ _ _ hsz) r0
      | oid => dsimp only; exact DOK_bind _ _ (DOK_extBits _ _) (fun x => DOK_decLeaf _ _ _ _ hsz) r0

/-- the entry point: `UnmarshalWithParams` neither panics nor runs out of fuel -/
theorem unmarshal_good (env : Env) (henv : envOK env = true) (fuel : Nat) (ty : Ty) (params : Params)
    (hd : tyDepth ty < fuel) (hp : sizeOK params = true) (bs : Bytes) :
    unmarshal env fuel ty params bs ≠ .error .panic ∧ unmarshal env fuel ty params bs ≠ .error .hang := by
  have h := (DOK_decField env henv fuel ty params hd hp (Rd.ofBytes bs)).1
  unfold unmarshal
  cases hx : decField env fuel ty params (Rd.ofBytes bs) with
  | error e =>
    rw [hx] at h
    have : e = .error := by simpa using h
    subst this
    exact ⟨by simp, by simp⟩
  | ok p => exact ⟨by simp, by simp⟩

end Stgutg.Proofs.AperTotal
