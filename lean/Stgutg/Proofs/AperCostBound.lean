/-
  C14 (cost): the bound calculus (`Bnd` through bind, lifted steps, charges) and the leaf parsers.
-/
import Stgutg.Proofs.AperCostDefs
import Stgutg.Proofs.AperCostErase
import Stgutg.Proofs.AperTotal

namespace Stgutg.Proofs.AperCost
open Stgutg Stgutg.Aper

theorem cst_zero (ws wa : Nat) : cst ws wa Cost.zero = 0 := by simp [cst, Cost.zero]

theorem cst_add (ws wa : Nat) (a b : Cost) : cst ws wa (a.add b) = cst ws wa a + cst ws wa b := by
  simp only [cst, Cost.add, Nat.mul_add]; omega

theorem DC_pure_apply {α : Type} (a : α) (r : Rd) : (pure a : DC α) r = (.ok (a, r), Cost.zero) := rfl

theorem Bnd_mono {α : Type} {ws wa q p s q' p' s' : Nat} {m : DC α} (hq : q ≤ q') (hp : p ≤ p') (hs : s ≤ s')
    (h : Bnd ws wa q p s m) : Bnd ws wa q' p' s' m := by
  intro r
  obtain ⟨h1, h2⟩ := h r
  refine ⟨?_, ?_⟩
  · intro a r' hr
    obtain ⟨c, hc, hb⟩ := h1 a r' hr
    refine ⟨c, hc, ?_⟩
    have := Nat.mul_le_mul_right c hp
    omega
  · have := Nat.mul_le_mul_right r.len hp
    omega

theorem Bnd_toMono {α : Type} {ws wa q p s : Nat} {m : DC α} (h : Bnd ws wa q p s m) : MonoC m := by
  intro r a r' hr
  obtain ⟨c, hc, _⟩ := (h r).1 a r' hr
  omega

theorem Bnd_pure {α : Type} (ws wa : Nat) (a : α) : Bnd ws wa 0 0 0 (pure a : DC α) := by
  intro r
  rw [DC_pure_apply]
  refine ⟨?_, by simp [cst_zero]⟩
  intro a' r' h
  simp only [Except.ok.injEq, Prod.mk.injEq] at h
  exact ⟨0, by rw [h.2]; rfl, by simp [cst_zero]⟩

theorem Bnd_fail {α : Type} (ws wa : Nat) (e : Err) : Bnd ws wa 0 0 0 (DC.fail e : DC α) := by
  intro r
  refine ⟨?_, by simp [DC.fail, cst_zero]⟩
  intro a r' h
  simp [DC.fail] at h

theorem Bnd_lift {α : Type} (ws wa : Nat) (m : D α) (hm : MonoD m) : Bnd ws wa 0 0 0 (DC.lift m) := by
  intro r
  refine ⟨?_, by simp [DC.lift, cst_zero]⟩
  intro a r' h
  have := hm r a r' h
  exact ⟨r.len - r'.len, by omega, by simp [DC.lift, cst_zero]⟩

theorem Bnd_get (ws wa : Nat) : Bnd ws wa 0 0 0 DC.get := by
  intro r
  refine ⟨?_, by simp [DC.get, cst_zero]⟩
  intro a r' h
  simp only [DC.get, Except.ok.injEq, Prod.mk.injEq] at h
  exact ⟨0, by rw [h.2]; rfl, by simp [DC.get, cst_zero]⟩

/-- sequencing: the additive parts add up, the slopes and the over-claim budget are shared -/
theorem Bnd_bind {α β : Type} {ws wa q1 q2 p s : Nat} {m : DC α} {f : α → DC β}
    (hm : Bnd ws wa q1 p s m) (hf : ∀ a, Bnd ws wa q2 p s (f a)) : Bnd ws wa (q1 + q2) p s (m >>= f) := by
  intro r
  obtain ⟨h1, h2⟩ := hm r
  rw [DC_bind_apply]
  rcases hmr : m r with ⟨res, c⟩
  rw [hmr] at h1 h2
  cases res with
  | error e =>
    dsimp only at h2 ⊢
    exact ⟨(by intro a r' h; cases h), by omega⟩
  | ok x =>
    obtain ⟨a, r1⟩ := x
    dsimp only at h1 h2 ⊢
    obtain ⟨c1, hc1, hb1⟩ := h1 a r1 rfl
    obtain ⟨g1, g2⟩ := hf a r1
    rw [cst_add]
    refine ⟨?_, ?_⟩
    · intro b r' h
      obtain ⟨c2, hc2, hb2⟩ := g1 b r' h
      refine ⟨c2 + c1, by omega, ?_⟩
      rw [Nat.mul_add]; omega
    · rw [hc1, Nat.mul_add]; omega

/-- sequencing where the first part is free -/
theorem Bnd_bind0 {α β : Type} {ws wa q p s : Nat} {m : DC α} {f : α → DC β}
    (hm : Bnd ws wa 0 0 0 m) (hf : ∀ a, Bnd ws wa q p s (f a)) : Bnd ws wa q p s (m >>= f) := by
  have := Bnd_bind (Bnd_mono (Nat.le_refl 0) (Nat.zero_le p) (Nat.zero_le s) hm) hf
  rw [Nat.zero_add] at this
  exact this

theorem Bnd_ite {α : Type} {ws wa q p s : Nat} (c : Prop) [Decidable c] {a b : DC α}
    (ha : Bnd ws wa q p s a) (hb : Bnd ws wa q p s b) : Bnd ws wa q p s (if c then a else b) := by
  split <;> assumption

theorem MonoD_of_DOK {α : Type} {m : D α} (h : AperTotal.DOK m) : MonoD m :=
  fun r a r' hr => (h r).2 a r' hr

/-! ### copies -/

theorem Bnd_takeOctetsC (ws wa n : Nat) : Bnd ws wa 0 wa 0 (takeOctetsC n) := by
  intro r
  unfold takeOctetsC
  rw [DC_bind_apply]
  unfold DC.lift
  cases h : takeOctets n r with
  | error e =>
    dsimp only
    exact ⟨(by intro a r' h'; cases h'), by simp [cst_zero]⟩
  | ok x =>
    obtain ⟨b, r1⟩ := x
    have hl := AperTotal.takeOctets_len n r b r1 h
    dsimp only
    have hcost : cst ws wa (Cost.zero.add ((DC.chargeAlloc n >>= fun _ => (pure b : DC Bytes)) r1).2) = wa * n := by
      simp [cst, Cost.zero, Cost.add, DC_bind_apply, DC.chargeAlloc, DC_pure_apply]
    rw [hcost]
    have h8 : wa * n ≤ wa * (8 * n) := Nat.mul_le_mul_left wa (by omega)
    refine ⟨?_, ?_⟩
    · intro a r' h'
      have hr' : r' = r1 := by
        simp only [DC_bind_apply, DC.chargeAlloc, DC_pure_apply, Except.ok.injEq, Prod.mk.injEq] at h'
        exact h'.2.symm
      subst hr'
      exact ⟨8 * n, by omega, by omega⟩
    · have : wa * (8 * n) ≤ wa * r.len := Nat.mul_le_mul_left wa (by omega)
      omega

theorem Strict_takeOctetsC (n : Nat) (hn : 1 ≤ n) : Strict (takeOctetsC n) := by
  intro r a r' h
  have he := congrFun (erase_takeOctetsC n) r
  unfold DC.erase at he
  rw [he] at h
  have := AperTotal.takeOctets_len n r a r' h
  omega

theorem Bnd_getBitsCopyC (ws wa n : Nat) : Bnd ws wa 0 wa 0 (getBitsCopyC n) := by
  intro r
  unfold getBitsCopyC
  rw [DC_bind_apply]
  unfold DC.lift
  cases h : getBits n r with
  | error e =>
    dsimp only
    exact ⟨(by intro a r' h'; cases h'), by simp [cst_zero]⟩
  | ok x =>
    obtain ⟨b, r1⟩ := x
    have hl := AperTotal.getBits_len n r b r1 h
    have hn0 : n ≠ 0 := by
      intro h0
      unfold getBits at h
      simp [h0] at h
    dsimp only
    have hcost : cst ws wa (Cost.zero.add ((DC.chargeAlloc ((n + 7) / 8) >>= fun _ => (pure b : DC Bits)) r1).2) =
        wa * ((n + 7) / 8) := by
      simp [cst, Cost.zero, Cost.add, DC_bind_apply, DC.chargeAlloc, DC_pure_apply]
    rw [hcost]
    have h8 : wa * ((n + 7) / 8) ≤ wa * n := Nat.mul_le_mul_left wa (by omega)
    refine ⟨?_, ?_⟩
    · intro a r' h'
      have hr' : r' = r1 := by
        simp only [DC_bind_apply, DC.chargeAlloc, DC_pure_apply, Except.ok.injEq, Prod.mk.injEq] at h'
        exact h'.2.symm
      subst hr'
      exact ⟨n, by omega, by omega⟩
    · have : wa * n ≤ wa * r.len := Nat.mul_le_mul_left wa (by omega)
      omega

theorem Strict_getBitsCopyC (n : Nat) : Strict (getBitsCopyC n) := by
  intro r a r' h
  have he := congrFun (erase_getBitsCopyC n) r
  unfold DC.erase at he
  rw [he] at h
  have := AperTotal.getBits_len n r a r' h
  have hn0 : n ≠ 0 := by
    intro h0
    unfold getBits at h
    simp [h0] at h
  omega

/-! ### strings -/

theorem MonoD_parseLength (sr : Int) : MonoD (parseLength sr) := MonoD_of_DOK (AperTotal.DOK_parseLength sr)
theorem MonoD_align : MonoD parseAlignBits := MonoD_of_DOK AperTotal.DOK_parseAlignBits

theorem Bnd_octLoopC (ws wa : Nat) (sr lb : Int) : ∀ (fuel : Nat) (acc : Bytes),
    Bnd ws wa 0 wa 0 (parseOctetStringLoopC sr lb fuel acc) := by
  intro fuel
  induction fuel with
  | zero => intro acc; exact Bnd_mono (Nat.le_refl _) (Nat.zero_le _) (Nat.le_refl _) (Bnd_fail ws wa _)
  | succ fuel ih =>
    intro acc
    unfold parseOctetStringLoopC
    refine Bnd_bind0 (Bnd_lift ws wa _ (MonoD_parseLength sr)) ?_
    intro x
    obtain ⟨len, rep⟩ := x
    dsimp only
    refine Bnd_ite _ (Bnd_mono (Nat.le_refl _) (Nat.zero_le _) (Nat.le_refl _) (Bnd_pure ws wa _)) ?_
    refine Bnd_bind0 (Bnd_lift ws wa _ MonoD_align) (fun _ => ?_)
    have := Bnd_bind (q2 := 0) (Bnd_takeOctetsC ws wa ((len : Int) + lb).toNat)
      (f := fun b => if rep = true then parseOctetStringLoopC sr lb fuel (acc ++ b) else pure (acc ++ b))
      (fun b => Bnd_ite _ (ih _) (Bnd_mono (Nat.le_refl _) (Nat.zero_le _) (Nat.le_refl _) (Bnd_pure ws wa _)))
    exact this

theorem Bnd_parseOctetStringC (ws wa : Nat) (ext : Bool) (lbP ubP : Option Int) :
    Bnd ws wa 0 wa 0 (parseOctetStringC ext lbP ubP) := by
  unfold parseOctetStringC
  generalize sizeBounds ext lbP ubP = sb
  obtain ⟨lb, ub, sr⟩ := sb
  dsimp only
  refine Bnd_ite _ (Bnd_ite _ ?_ ?_) ?_
  · exact Bnd_bind0 (Bnd_lift ws wa _ MonoD_align) (fun _ => Bnd_takeOctetsC ws wa _)
  · have := Bnd_bind (q2 := 0) (Bnd_getBitsCopyC ws wa (8 * ub.toNat)) (f := fun b => (pure (bitsToBytes b) : DC Bytes))
      (fun b => Bnd_mono (Nat.le_refl _) (Nat.zero_le _) (Nat.le_refl _) (Bnd_pure ws wa _))
    exact this
  · exact Bnd_bind0 (Bnd_get ws wa) (fun r => Bnd_octLoopC ws wa sr lb _ _)

theorem Bnd_bitLoopC (ws wa : Nat) (sr lb : Int) : ∀ (fuel : Nat) (accB : Bytes) (accL : Nat),
    Bnd ws wa 0 wa 0 (parseBitStringLoopC sr lb fuel accB accL) := by
  intro fuel
  induction fuel with
  | zero => intro accB accL; exact Bnd_mono (Nat.le_refl _) (Nat.zero_le _) (Nat.le_refl _) (Bnd_fail ws wa _)
  | succ fuel ih =>
    intro accB accL
    unfold parseBitStringLoopC
    refine Bnd_bind0 (Bnd_lift ws wa _ (MonoD_parseLength sr)) ?_
    intro x
    obtain ⟨len, rep⟩ := x
    dsimp only
    refine Bnd_ite _ (Bnd_mono (Nat.le_refl _) (Nat.zero_le _) (Nat.le_refl _) (Bnd_pure ws wa _)) ?_
    refine Bnd_bind0 (Bnd_lift ws wa _ MonoD_align) (fun _ => ?_)
    refine Bnd_bind0 (Bnd_get ws wa) (fun r => ?_)
    refine Bnd_ite _ (Bnd_mono (Nat.le_refl _) (Nat.zero_le _) (Nat.le_refl _) (Bnd_fail ws wa _)) ?_
    have := Bnd_bind (q2 := 0) (Bnd_getBitsCopyC ws wa ((len : Int) + lb).toNat)
      (f := fun b => if rep = true then parseBitStringLoopC sr lb fuel (accB ++ bitsToBytes b) (accL + ((len : Int) + lb).toNat)
        else pure (accB ++ bitsToBytes b, accL + ((len : Int) + lb).toNat))
      (fun b => Bnd_ite _ (ih _ _) (Bnd_mono (Nat.le_refl _) (Nat.zero_le _) (Nat.le_refl _) (Bnd_pure ws wa _)))
    exact this

theorem Bnd_parseBitStringC (ws wa : Nat) (ext : Bool) (lbP ubP : Option Int) :
    Bnd ws wa 0 wa 0 (parseBitStringC ext lbP ubP) := by
  unfold parseBitStringC
  generalize sizeBounds ext lbP ubP = sb
  obtain ⟨lb, ub, sr⟩ := sb
  dsimp only
  have hcopy : ∀ n, Bnd ws wa 0 wa 0 (getBitsCopyC n >>= fun b => (pure (bitsToBytes b, n) : DC (Bytes × Nat))) := by
    intro n
    have := Bnd_bind (q2 := 0) (Bnd_getBitsCopyC ws wa n) (f := fun b => (pure (bitsToBytes b, n) : DC (Bytes × Nat)))
      (fun b => Bnd_mono (Nat.le_refl _) (Nat.zero_le _) (Nat.le_refl _) (Bnd_pure ws wa _))
    exact this
  refine Bnd_ite _ (Bnd_ite _ ?_ (hcopy _)) ?_
  · refine Bnd_bind0 (Bnd_lift ws wa _ MonoD_align) (fun _ => ?_)
    refine Bnd_bind0 (Bnd_get ws wa) (fun r => ?_)
    exact Bnd_ite _ (Bnd_mono (Nat.le_refl _) (Nat.zero_le _) (Nat.le_refl _) (Bnd_fail ws wa _)) (hcopy _)
  · exact Bnd_bind0 (Bnd_get ws wa) (fun r => Bnd_bitLoopC ws wa sr lb _ _ _)

theorem Bnd_map {α β : Type} {ws wa q p s : Nat} {m : DC α} (g : α → β) (h : Bnd ws wa q p s m) :
    Bnd ws wa q p s (m >>= fun x => (pure (g x) : DC β)) := by
  have := Bnd_bind (q2 := 0) h (f := fun x => (pure (g x) : DC β))
    (fun b => Bnd_mono (Nat.le_refl _) (Nat.zero_le _) (Nat.zero_le _) (Bnd_pure ws wa _))
  exact this

/-- leaf kinds of `parseField`: strings copy at most one octet per 8 bits consumed, the others nothing -/
theorem Bnd_decLeafC (ws wa : Nat) (ty : Ty) (params : Params) (se ve : Bool) :
    Bnd ws wa 0 wa 0 (decLeafC ty params se ve) := by
  have hl : ∀ {α β : Type} (m : D α) (g : α → β), MonoD m →
      Bnd ws wa 0 wa 0 (DC.lift m >>= fun x => (pure (g x) : DC β)) := by
    intro α β m g hm
    exact Bnd_map g (Bnd_mono (Nat.le_refl _) (Nat.zero_le _) (Nat.le_refl _) (Bnd_lift ws wa m hm))
  unfold decLeafC
  cases ty with
  | bits => exact Bnd_map (fun (x : Bytes × Nat) => Val.bits x.1 x.2) (Bnd_parseBitStringC ws wa _ _ _)
  | octs => exact Bnd_map Val.octs (Bnd_parseOctetStringC ws wa _ _ _)
  | str => exact Bnd_map Val.str (Bnd_parseOctetStringC ws wa _ _ _)
  | enum => exact hl _ Val.enum (MonoD_of_DOK (AperTotal.DOK_parseEnumerated _ _ _))
  | bool => exact hl _ (fun b => Val.bool (decide (b = 1))) (MonoD_of_DOK (AperTotal.DOK_getBitsValue 1 (by decide)))
  | int => exact hl _ Val.int (MonoD_of_DOK (AperTotal.DOK_parseInteger _ _ _))
  | _ => exact Bnd_mono (Nat.le_refl _) (Nat.zero_le _) (Nat.le_refl _) (Bnd_fail ws wa _)

end Stgutg.Proofs.AperCost
