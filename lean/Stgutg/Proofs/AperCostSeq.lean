/-
  C14 (cost): SEQUENCE / CHOICE / open type bodies of `parseField`.
-/
import Stgutg.Proofs.AperCostStruct
import Stgutg.Proofs.AperRTCompBits

namespace Stgutg.Proofs.AperCost
open Stgutg Stgutg.Aper

theorem D_bind_ok {α β : Type} (m : D α) (f : α → D β) (r : Rd) (b : β) (r' : Rd) (h : (m >>= f) r = .ok (b, r')) :
    ∃ a r1, m r = .ok (a, r1) ∧ f a r1 = .ok (b, r') := by
  rw [D_bind_apply] at h
  cases hm : m r with
  | error e => rw [hm] at h; cases h
  | ok x => obtain ⟨a, r1⟩ := x; rw [hm] at h; exact ⟨a, r1, rfl, h⟩

theorem bitsToBytes_length (l : Bits) : (bitsToBytes l).length = (l.length + 7) / 8 := by
  have := congrArg List.length (AperRTComp.bytesToBits_bitsToBytes l)
  rw [Bits.bytesToBits_length, List.length_append, List.length_replicate] at this
  unfold padLen at this
  omega

/-- the octets of an open type were all read from the input: 8 bits each -/
theorem openTypeOctets_len : ∀ (fuel : Nat) (acc : Bytes) (r : Rd) (octs : Bytes) (r' : Rd),
    openTypeOctets fuel acc r = .ok (octs, r') → 8 * octs.length + r'.len ≤ 8 * acc.length + r.len := by
  intro fuel
  induction fuel with
  | zero => intro acc r octs r' h; simp [openTypeOctets, D.fail] at h
  | succ fuel ih =>
    intro acc r octs r' h
    unfold openTypeOctets at h
    obtain ⟨x, r1, h1, h2⟩ := D_bind_ok _ _ _ _ _ h
    obtain ⟨rawLength, rep⟩ := x
    have m1 := MonoD_parseLength (-1) r _ r1 h1
    dsimp only at h2
    split at h2
    · have hp : (pure acc : D Bytes) r1 = .ok (acc, r1) := rfl
      rw [hp] at h2
      simp only [Except.ok.injEq, Prod.mk.injEq] at h2
      rw [← h2.1, ← h2.2]; omega
    · obtain ⟨u, r2, h3, h4⟩ := D_bind_ok _ _ _ _ _ h2
      have m2 := MonoD_align r1 u r2 h3
      obtain ⟨b, r3, h5, h6⟩ := D_bind_ok _ _ _ _ _ h4
      have hl := AperTotal.takeOctets_len rawLength r2 b r3 h5
      have hbl : b.length ≤ rawLength := by
        unfold takeOctets at h5
        split at h5
        · cases h5
        · simp only [Except.ok.injEq, Prod.mk.injEq] at h5
          rw [← h5.1]
          have hlen : (r2.rest.take (8 * rawLength)).length ≤ 8 * rawLength := by
            rw [List.length_take]; omega
          have e := bitsToBytes_length (r2.rest.take (8 * rawLength))
          omega
      split at h6
      · have := ih (acc ++ b) r3 octs r' h6
        rw [List.length_append] at this
        omega
      · obtain ⟨u2, r4, h7, h8⟩ := D_bind_ok _ _ _ _ _ h6
        have m3 := MonoD_align r3 u2 r4 h7
        have hp : (pure (acc ++ b) : D Bytes) r4 = .ok (acc ++ b, r4) := rfl
        rw [hp] at h8
        simp only [Except.ok.injEq, Prod.mk.injEq] at h8
        rw [← h8.1, ← h8.2, List.length_append]
        omega


theorem Bnd_openTypeOctetsC (ws wa : Nat) : ∀ (fuel : Nat) (acc : Bytes),
    Bnd ws wa 0 wa 0 (openTypeOctetsC fuel acc) := by
  intro fuel
  induction fuel with
  | zero => intro acc; exact Bnd_mono (Nat.le_refl _) (Nat.zero_le _) (Nat.le_refl _) (Bnd_fail ws wa _)
  | succ fuel ih =>
    intro acc
    unfold openTypeOctetsC
    refine Bnd_bind0 (Bnd_lift ws wa _ (MonoD_parseLength (-1))) ?_
    intro x
    obtain ⟨len, rep⟩ := x
    dsimp only
    refine Bnd_ite _ (Bnd_mono (Nat.le_refl _) (Nat.zero_le _) (Nat.le_refl _) (Bnd_pure ws wa _)) ?_
    refine Bnd_bind0 (Bnd_lift ws wa _ MonoD_align) (fun _ => ?_)
    have := Bnd_bind (q2 := 0) (Bnd_takeOctetsC ws wa len)
      (f := fun b => if rep = true then openTypeOctetsC fuel (acc ++ b) else
        (DC.lift parseAlignBits >>= fun _ => (pure (acc ++ b) : DC Bytes)))
      (fun b => Bnd_ite _ (ih _)
        (Bnd_bind0 (Bnd_lift ws wa _ MonoD_align)
          (fun _ => Bnd_mono (Nat.le_refl _) (Nat.zero_le _) (Nat.le_refl _) (Bnd_pure ws wa _))))
    exact this

/-- the open-type branch of `decStruct`: octets copied, inner value decoded from its own buffer -/
def openBranchC (f : Ty → Params → DC Val) (fd : Field) (zeros : List Val) (present : Nat) : DC Val :=
  DC.get >>= fun r0 => openTypeOctetsC (r0.len + 2) [] >>= fun octs =>
    DC.sub (f fd.ty fd.params (Rd.ofBytes octs)) >>= fun v =>
      (pure (.struct (setAt (setAt zeros 0 (.int present)) present v)) : DC Val)

theorem Bnd_openBranch (ws wa qa pa sa : Nat) (f : Ty → Params → DC Val) (fd : Field) (zeros : List Val) (present : Nat)
    (hf : Bnd ws wa qa pa sa (f fd.ty fd.params)) :
    Bnd ws wa qa (pa + wa) sa (openBranchC f fd zeros present) := by
  intro r
  unfold openBranchC
  rw [DC_bind_apply]
  have hg : DC.get r = (.ok (r, r), Cost.zero) := rfl
  rw [hg]
  dsimp only
  rw [DC_bind_apply]
  obtain ⟨o1, o2⟩ := Bnd_openTypeOctetsC ws wa (r.len + 2) [] r
  have herase := congrFun (erase_openTypeOctetsC (r.len + 2) []) r
  unfold DC.erase at herase
  rcases hoc : openTypeOctetsC (r.len + 2) [] r with ⟨res, c1⟩
  rw [hoc] at o1 o2 herase
  simp only [cst_add, cst_zero, Nat.zero_add]
  have hwl : wa * r.len ≤ (pa + wa) * r.len := Nat.mul_le_mul_right _ (by omega)
  cases res with
  | error e =>
    dsimp only at o2 ⊢
    exact ⟨(by intro a r' h; cases h), by omega⟩
  | ok x =>
    obtain ⟨octs, r1⟩ := x
    dsimp only at o1 o2 herase ⊢
    obtain ⟨c, hc, hb1⟩ := o1 octs r1 rfl
    have hlen := openTypeOctets_len (r.len + 2) [] r octs r1 herase.symm
    simp only [List.length_nil, Nat.mul_zero, Nat.zero_add] at hlen
    have h8 : 8 * octs.length ≤ c := by omega
    obtain ⟨i1, i2⟩ := hf (Rd.ofBytes octs)
    have hrl : (Rd.ofBytes octs).len = 8 * octs.length := rfl
    rw [hrl] at i2
    rw [DC_bind_apply]
    unfold DC.sub
    rcases hin : f fd.ty fd.params (Rd.ofBytes octs) with ⟨res2, c2⟩
    rw [hin] at i1 i2
    dsimp only at i1 i2 ⊢
    have hp8 : pa * (8 * octs.length) ≤ pa * c := Nat.mul_le_mul_left pa h8
    have hsplit : (pa + wa) * c = pa * c + wa * c := Nat.add_mul _ _ _
    have hcl : (pa + wa) * c ≤ (pa + wa) * r.len := Nat.mul_le_mul_left _ (by omega)
    cases res2 with
    | error e =>
      dsimp only
      simp only [cst_add]
      exact ⟨(by intro a r' h; cases h), by omega⟩
    | ok y =>
      obtain ⟨v, rin⟩ := y
      dsimp only
      obtain ⟨c', hc', hb2⟩ := i1 v rin rfl
      rw [hrl] at hc'
      have hpc' : pa * c' ≤ pa * (8 * octs.length) := Nat.mul_le_mul_left pa (by omega)
      rw [DC_pure_apply]
      dsimp only
      simp only [cst_add, cst_zero, Nat.add_zero]
      refine ⟨?_, by omega⟩
      intro a r' h
      simp only [Except.ok.injEq, Prod.mk.injEq] at h
      exact ⟨c, by rw [← h.2]; exact hc, by omega⟩

theorem resolveRef_shape (rfv : Ty → Val → Res Int) (allFields : List Field) (allVals : List Val) (i : Nat)
    (fd : Field) (fp : Params) (h : resolveRef rfv allFields allVals i fd = .ok fp) :
    fp = fd.params ∨ ∃ x, fp = { fd.params with refValue := some x } := by
  unfold resolveRef at h
  split at h
  · split at h
    · simp [err] at h
    · split at h
      · split at h
        · simp at h
        · simp only [Except.ok.injEq] at h
          exact Or.inr ⟨_, h.symm⟩
      · simp [err] at h
  · simp only [Except.ok.injEq] at h
    exact Or.inl h.symm

/-- the component loop of a SEQUENCE: the additive parts of the components add up -/
theorem Bnd_seqFields (ws wa P S : Nat) (f : Ty → Params → DC Val) (rfv : Ty → Val → Res Int) (allFields : List Field)
    (qf : Field → Nat) : ∀ (fields : List Field),
    (∀ fd ∈ fields, ∀ fp, (fp = fd.params ∨ ∃ x, fp = { fd.params with refValue := some x }) →
      Bnd ws wa (qf fd) P S (f fd.ty fp)) →
    ∀ (i oc ob : Nat) (vals : List Val),
      Bnd ws wa ((fields.map qf).sum) P S (decSeqFieldsC f rfv allFields i oc ob fields vals) := by
  intro fields
  induction fields with
  | nil =>
    intro _ i oc ob vals
    unfold decSeqFieldsC
    exact Bnd_mono (Nat.zero_le _) (Nat.zero_le _) (Nat.zero_le _) (Bnd_pure ws wa _)
  | cons fd rest ih =>
    intro hf i oc ob vals
    have hrest := ih (fun fd' h => hf fd' (List.mem_cons_of_mem _ h))
    unfold decSeqFieldsC
    dsimp only
    rw [List.map_cons, List.sum_cons]
    split
    · exact Bnd_mono (by omega) (Nat.le_refl _) (Nat.le_refl _) (hrest _ _ _ _)
    · cases hr : resolveRef rfv allFields vals i fd with
      | error e => exact Bnd_mono (Nat.zero_le _) (Nat.zero_le _) (Nat.zero_le _) (Bnd_fail ws wa _)
      | ok fp =>
        dsimp only
        exact Bnd_bind (hf fd List.mem_cons_self fp (resolveRef_shape _ _ _ _ _ _ hr)) (fun v => hrest _ _ _ _)

/-- what follows the OPTIONAL bitmap in `decStruct` -/
def structRestC (f : Ty → Params → DC Val) (rfv : Ty → Val → Res Int) (zero : Ty → Val)
    (sd : StructDef) (params : Params) (valueExt : Bool) (optBits : Nat) : DC Val :=
  let optCount := (sd.fields.filter (·.params.optional)).length
  let zeros := sd.fields.map fun fd => zero fd.ty
  if isChoice sd then
    if params.openType then
      match params.refValue with
      | none => DC.fail .error
      | some rv =>
        match findAlt sd.fields rv with
        | none => pure (.struct zeros)
        | some present =>
          match sd.fields[present]? with
          | none => DC.fail .error
          | some fd => openBranchC f fd zeros present
    else do
      let present ← DC.lift (D.catchErr (getChoiceIndex valueExt params.valueUB) (fun r => (0, r)))
      if present = 0 then DC.fail .error
      else if present ≥ sd.fields.length then DC.fail .error
      else
        match sd.fields[present]? with
        | none => DC.fail .error
        | some fd => do
          let v ← f fd.ty fd.params
          pure (.struct (setAt (setAt zeros 0 (.int present)) present v))
  else do
    let vals ← decSeqFieldsC f rfv sd.fields 0 optCount optBits sd.fields zeros
    pure (.struct vals)

theorem decStructC_eq (f : Ty → Params → DC Val) (rfv : Ty → Val → Res Int) (zero : Ty → Val)
    (sd : StructDef) (params : Params) (ve : Bool) :
    decStructC f rfv zero sd params ve =
      (DC.lift (if (sd.fields.filter (·.params.optional)).length > 0
          then getBitsValue (sd.fields.filter (·.params.optional)).length else pure 0 : D Nat) >>=
        fun ob => structRestC f rfv zero sd params ve ob) := by
  rfl

theorem MonoD_optRead (n : Nat) : MonoD (if n > 0 then getBitsValue n else pure 0 : D Nat) := by
  split
  · rename_i h; exact MonoD_of_DOK (AperTotal.DOK_getBitsValue n (by omega))
  · exact MonoD_pure _

theorem MonoD_catchIdx (ve : Bool) (ub : Option Int) :
    MonoD (D.catchErr (getChoiceIndex ve ub) (fun r => (0, r))) :=
  MonoD_of_DOK (AperTotal.DOK_catchErr _ _ (AperTotal.DOK_getChoiceIndex _ _) (fun r => Nat.le_refl _))

theorem Bnd_structRest (ws wa Q P S : Nat) (f : Ty → Params → DC Val) (rfv : Ty → Val → Res Int) (zero : Ty → Val)
    (sd : StructDef) (params : Params) (ve : Bool) (ob : Nat) (qf : Field → Nat)
    (hf : ∀ fd ∈ sd.fields, ∀ fp, (fp = fd.params ∨ ∃ x, fp = { fd.params with refValue := some x }) →
      Bnd ws wa (qf fd) P S (f fd.ty fp))
    (hQ : if isChoice sd then ∀ fd ∈ sd.fields, qf fd ≤ Q else (sd.fields.map qf).sum ≤ Q) :
    Bnd ws wa Q (if params.openType then P + wa else P) S (structRestC f rfv zero sd params ve ob) := by
  unfold structRestC
  dsimp only
  have hPle : P ≤ (if params.openType then P + wa else P) := by split <;> omega
  cases hc : isChoice sd with
  | true =>
    simp only [hc, if_true] at hQ ⊢
    cases hot : params.openType with
    | true =>
      simp only [if_true]
      cases params.refValue with
      | none => exact Bnd_mono (Nat.zero_le _) (Nat.zero_le _) (Nat.zero_le _) (Bnd_fail ws wa _)
      | some rv =>
        dsimp only
        cases findAlt sd.fields rv with
        | none => exact Bnd_mono (Nat.zero_le _) (Nat.zero_le _) (Nat.zero_le _) (Bnd_pure ws wa _)
        | some present =>
          dsimp only
          cases hfd : sd.fields[present]? with
          | none => exact Bnd_mono (Nat.zero_le _) (Nat.zero_le _) (Nat.zero_le _) (Bnd_fail ws wa _)
          | some fd =>
            dsimp only
            have hm := List.mem_of_getElem? hfd
            exact Bnd_mono (hQ fd hm) (Nat.le_refl _) (Nat.le_refl _)
              (Bnd_openBranch ws wa (qf fd) P S f fd _ present (hf fd hm fd.params (Or.inl rfl)))
    | false =>
      simp only [Bool.false_eq_true, if_false]
      refine Bnd_bind0 (Bnd_lift ws wa _ (MonoD_catchIdx _ _)) (fun present => ?_)
      refine Bnd_ite _ (Bnd_mono (Nat.zero_le _) (Nat.zero_le _) (Nat.zero_le _) (Bnd_fail ws wa _)) ?_
      refine Bnd_ite _ (Bnd_mono (Nat.zero_le _) (Nat.zero_le _) (Nat.zero_le _) (Bnd_fail ws wa _)) ?_
      cases hfd : sd.fields[present]? with
      | none => exact Bnd_mono (Nat.zero_le _) (Nat.zero_le _) (Nat.zero_le _) (Bnd_fail ws wa _)
      | some fd =>
        dsimp only
        have hm := List.mem_of_getElem? hfd
        exact Bnd_mono (hQ fd hm) (Nat.le_refl _) (Nat.le_refl _)
          (Bnd_map _ (hf fd hm fd.params (Or.inl rfl)))
  | false =>
    simp only [hc, Bool.false_eq_true, if_false] at hQ ⊢
    exact Bnd_mono hQ hPle (Nat.le_refl _) (Bnd_map _ (Bnd_seqFields ws wa P S f rfv sd.fields qf sd.fields hf _ _ _ _))

theorem Bnd_decStruct (ws wa Q P S : Nat) (f : Ty → Params → DC Val) (rfv : Ty → Val → Res Int) (zero : Ty → Val)
    (sd : StructDef) (params : Params) (ve : Bool) (qf : Field → Nat)
    (hf : ∀ fd ∈ sd.fields, ∀ fp, (fp = fd.params ∨ ∃ x, fp = { fd.params with refValue := some x }) →
      Bnd ws wa (qf fd) P S (f fd.ty fp))
    (hQ : if isChoice sd then ∀ fd ∈ sd.fields, qf fd ≤ Q else (sd.fields.map qf).sum ≤ Q) :
    Bnd ws wa Q (if params.openType then P + wa else P) S (decStructC f rfv zero sd params ve) := by
  rw [decStructC_eq]
  exact Bnd_bind0 (Bnd_lift ws wa _ (MonoD_optRead _)) (fun ob => Bnd_structRest ws wa Q P S f rfv zero sd params ve ob qf hf hQ)

end Stgutg.Proofs.AperCost
