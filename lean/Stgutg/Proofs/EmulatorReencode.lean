/-
  C01 helper: C08 on the two NAS messages the emulator protects. `EncodeNasPduWithSecurity` first runs `PlainNasDecode` on the
  constructor's octets and re-encodes the decoded message with `PlainNasEncode`; for SECURITY MODE COMPLETE (any NAS message
  container below 64 KiB) and REGISTRATION COMPLETE this reproduces the octets (`Props.C08.C08_plain_roundtrip` + the message
  the constructor model returns + the generated dispatch tables).
-/
import Stgutg.Proofs.EmulatorRun
import Stgutg.Proofs.BuildersJudge
import Stgutg.Props.C08
import Stgutg.Props.C09

namespace Stgutg.Proofs.EmulatorReencode
open Stgutg Stgutg.Nas Stgutg.Gen.Nas Stgutg.Gen Stgutg.Model.Emulator

theorem nasCodec_eq : nasCodec = Props.C08.codec := rfl

/-- index of SECURITY MODE COMPLETE in the generated layout list (the `rfl` below re-checks it on every build) -/
def iSmc : Nat := 36

set_option maxRecDepth 1000000 in
theorem smc_facts :
    Ctor.securityModeCompleteBase
      = .ok [some ⟨0, 0, [0x7E]⟩, some ⟨0, 0, [0x00]⟩, some ⟨0, 0, [0x5E]⟩,
             some ⟨0x77, 9, [0x15, 0x11, 0, 0, 0, 0, 0, 0, 0]⟩, none] ∧
    Gen.Nas.dispatchGmm.dec.lookup 0x5E = some iSmc ∧ Gen.Nas.dispatchGmm.enc.lookup 0x5E = some iSmc ∧
    Gen.Nas.layouts[iSmc]? = some layout_SecurityModeComplete ∧
    Gen.Nas.dispatchGmm.typeIdx = 2 ∧ Gen.Nas.dispatchGmm.hdrLen = 3 ∧ Gen.Nas.dispatchGmm.epd = 0x7E :=
  ⟨by decide +kernel, by decide +kernel, by decide +kernel, rfl, by decide +kernel, by decide +kernel, by decide +kernel⟩

theorem smc_msg (rr : Bytes) (hlen : rr.length < 65536) :
    Ctor.securityModeComplete (some rr) = .ok
      [some ⟨0, 0, [0x7E]⟩, some ⟨0, 0, [0x00]⟩, some ⟨0, 0, [0x5E]⟩,
       some ⟨0x77, 9, [0x15, 0x11, 0, 0, 0, 0, 0, 0, 0]⟩, some ⟨0x71, rr.length, rr⟩] := by
  simp [Ctor.securityModeComplete, smc_facts.1, Ctor.setP,
    Ctor.bufIE_eq sh_NASMessageContainer 0x71 65536 rr _ rfl rfl (by omega) hlen,
    idx_SecurityModeComplete_NASMessageContainer]

theorem smc_wf (rr : Bytes) (hlen : rr.length < 65536) :
    msgWF layout_SecurityModeComplete
      [some ⟨0, 0, [0x7E]⟩, some ⟨0, 0, [0x00]⟩, some ⟨0, 0, [0x5E]⟩,
       some ⟨0x77, 9, [0x15, 0x11, 0, 0, 0, 0, 0, 0, 0]⟩, some ⟨0x71, rr.length, rr⟩] = true := by
  simp [msgWF, mandValsOK, optValsOK, layout_SecurityModeComplete, mandValOK, optValOK,
    lenFits, sh_ExtendedProtocolDiscriminator, sh_SpareHalfOctetAndSecurityHeaderType,
    sh_SecurityModeCompleteMessageIdentity, sh_NASMessageContainer, sh_IMEISV, Body.size, hlen, allZero]

open Spec.Ts24501 in
theorem parse_header_cons (w : Wire) (bs : Bytes) (m : SMsg) (hw : w.mand.take 3 = [.v 1, .v 1, .v 1])
    (h : parse w bs = some m) (a b c : UInt8) (tl : List Bytes) (hm : m.mand = [a] :: [b] :: [c] :: tl) :
    ∃ r, bs = a :: b :: c :: r := by
  have hw' : w.mand = .v 1 :: .v 1 :: .v 1 :: w.mand.drop 3 := by
    conv => lhs; rw [← List.take_append_drop 3 w.mand, hw]
    rfl
  unfold parse at h
  rw [hw'] at h
  cases bs with
  | nil => simp [parseMand, takeN] at h
  | cons x0 r0 =>
    cases r0 with
    | nil => simp [parseMand, takeN] at h
    | cons x1 r1 =>
      cases r1 with
      | nil => simp [parseMand, takeN] at h
      | cons x2 r2 =>
        simp only [parseMand, takeN, List.length_cons, Nat.le_add_left, if_true, List.take_succ_cons, List.take_zero,
          List.drop_succ_cons, List.drop_zero] at h
        cases hp : parseMand (w.mand.drop 3) r2 with
        | none => simp [hp] at h
        | some x =>
          obtain ⟨vs, r⟩ := x
          simp only [hp, Option.map_some] at h
          cases ho : parseOpts w.opt r.length r with
          | none => simp [ho] at h
          | some os =>
            simp only [ho, Option.map_some, Option.some.injEq] at h
            subst h
            simp only [List.cons.injEq] at hm
            obtain ⟨h0, h1, h2, _⟩ := hm
            simp only [List.cons.injEq, and_true] at h0 h1 h2
            subst h0 h1 h2
            exact ⟨r2, rfl⟩

set_option maxRecDepth 100000 in
theorem wire_head_smc :
    (Props.C09.wireOf Gen.Nas.layout_SecurityModeComplete).map (·.mand.take 3) = some [.v 1, .v 1, .v 1] := by decide +kernel

/-- **C08 on SECURITY MODE COMPLETE**: `PlainNasDecode` reads the constructor's octets as a message that `PlainNasEncode`
    writes back to the same octets -/
theorem reenc_smc (rr smc : Bytes) (hlen : rr.length < 65536)
    (h : Ctor.encodeWith layout_SecurityModeComplete (Ctor.securityModeComplete (some rr)) = .ok smc) :
    ∃ pm4, Nas.plainDecode nasCodec smc = .ok pm4 ∧ Nas.plainEncode nasCodec pm4 = .ok smc := by
  obtain ⟨hbase, hdec, henc, hlay, hti, hhl, hepd⟩ := smc_facts
  have hencode := h
  rw [smc_msg rr hlen] at hencode
  simp only [Ctor.encodeWith] at hencode
  obtain ⟨w, smc', hw, henc', hparse⟩ := Props.C09.C09_ctor_securityModeComplete (some rr) (by intro c hc; cases hc; exact hlen)
  rw [h] at henc'
  cases henc'
  have hhead : w.mand.take 3 = [.v 1, .v 1, .v 1] := by
    have := wire_head_smc
    rw [hw] at this
    simpa using this
  obtain ⟨r, hsmc⟩ := parse_header_cons w smc _ hhead hparse 0x7E 0x00 0x5E _ rfl
  let pm : PlainMsg := { gsm := false, hdr := [0x7E, 0x00, 0x5E], idx := iSmc, body :=
    [some ⟨0, 0, [0x7E]⟩, some ⟨0, 0, [0x00]⟩, some ⟨0, 0, [0x5E]⟩,
     some ⟨0x77, 9, [0x15, 0x11, 0, 0, 0, 0, 0, 0, 0]⟩, some ⟨0x71, rr.length, rr⟩] }
  have hpe : Nas.plainEncode nasCodec pm = .ok smc := by
    simp [Nas.plainEncode, nasCodec, pm, hti, henc, hlay, hencode]
  have hwf : PlainWF Props.C08.codec pm := by
    show plainWF nasCodec pm = true
    simp [plainWF, nasCodec, pm, hti, hdec, hlay, hepd, hhl, smc_wf rr hlen, hencode, hsmc]
  have hrt := Props.C08.C08_plain_roundtrip pm hwf
  rw [← nasCodec_eq, hpe] at hrt
  exact ⟨pm, hrt, hpe⟩

set_option maxRecDepth 1000000 in
theorem reenc_rc : ∀ rc, Nas.Ctor.encodeWith Gen.Nas.layout_RegistrationComplete (Nas.Ctor.registrationComplete none) = .ok rc →
    ∃ pm6, Nas.plainDecode nasCodec rc = .ok pm6 ∧ Nas.plainEncode nasCodec pm6 = .ok rc := by
  have h : Nas.Ctor.encodeWith Gen.Nas.layout_RegistrationComplete (Nas.Ctor.registrationComplete none) = .ok [0x7E, 0x00, 0x43] := by
    decide +kernel
  intro rc hrc
  rw [h] at hrc
  cases hrc
  have h2 : (match Nas.plainDecode nasCodec [0x7E, 0x00, 0x43] with
    | .ok pm => Nas.plainEncode nasCodec pm == .ok [0x7E, 0x00, 0x43]
    | .error _ => false) = true := by decide +kernel
  cases hd : Nas.plainDecode nasCodec [0x7E, 0x00, 0x43] with
  | error e => rw [hd] at h2; cases h2
  | ok pm => rw [hd] at h2; exact ⟨pm, rfl, by simpa using h2⟩

end Stgutg.Proofs.EmulatorReencode
