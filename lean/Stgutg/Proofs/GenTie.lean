import Stgutg.Proofs.GenTieSuci
import Stgutg.Proofs.GenTieMin
import Stgutg.Proofs.GenTieUe
import Stgutg.Proofs.GenTieCount
import Stgutg.Proofs.GenTieKdf
import Stgutg.Proofs.GenTieConvert
import Stgutg.Proofs.GenTieNas
import Stgutg.Proofs.GenTieKeys
/-!
  The ties by translation, all groups (see DESIGN 2.2): for each small pure Go function listed in
  harness/cmd/gen/pure.go the definition regenerated from the source text on every run (Gen/Pure*.lean) is proved
  equal to the hand model the property theorems speak about. One module per group so that a change of one
  function breaks only the properties that depend on it:
    GenTieSuci (C11)  GenTieMin (C02)  GenTieUe (C16)  GenTieCount (C06)  GenTieKdf (C05)  GenTieConvert (C17, C11)
    GenTieNas (C06, C10: NASEncode, NASDecode, EncodeNasPduWithSecurity, GetNasPdu — the extended grammar of pure_nas.go)
    GenTieKeys (C05: DerivateKamf, DerivateAlgKey)
-/
