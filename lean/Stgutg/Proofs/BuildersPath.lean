/-
  C13 / C01 helper: `InRange` for the four NGAP messages of NG Setup + registration, from explicit argument ranges
  (NG SETUP REQUEST as the wrapper hands it to the encoder, INITIAL UE MESSAGE without 5G-S-TMSI, UPLINK NAS TRANSPORT,
  INITIAL CONTEXT SETUP RESPONSE).
-/
import Stgutg.Props.C13

namespace Stgutg.Proofs.BuildersPath
open Stgutg Stgutg.Aper Stgutg.Builders Stgutg.Model.Convert
open Stgutg.Proofs.BuildersOk Stgutg.Proofs.Builders Stgutg.Proofs.BuildersTm Stgutg.Proofs.BuildersRange
open Stgutg.Proofs.BuildersRoles

/-- the skeleton ranges over no list argument and takes no caller-supplied value without a fixed range -/
def noExtra (t : Template) (tm : Tm) : Bool :=
  (skObls tm).all fun o => (oblIndex o).isNone && !genericOK t o

def noExtraT (t : Template) : Bool :=
  t.cases.all fun c => match c.out with | .val tm => noExtra t tm | _ => true

theorem noExtra_generic (t : Template) (tm : Tm) (h : noExtra t tm = true) (canon : Bool) (E : Ext) (e : BEnv) :
    ∀ o ∈ skObls tm, genericOK t o = true → Obl.ok Gen.Ngap.schema canon E e .nil o = true := by
  intro o ho hg
  have := List.all_eq_true.mp h o ho
  simp [hg] at this

theorem noExtra_lists (t : Template) (tm : Tm) (h : noExtra t tm = true) (i : Nat) :
    ¬ ∃ o ∈ skObls tm, oblIndex o = some i := by
  rintro ⟨o, ho, hi⟩
  have := List.all_eq_true.mp h o ho
  simp [hi] at this

/-- the wrappers that only build: what they hand to the encoder is what the builder returns -/
theorem ngsetup_wrapper_eq (E : Ext) (plmn : Bytes) (g m bl nm : Val) :
    Wrapper.pdu E .GetNGSetupRequest plmn [g, m, bl, nm] = build E tGetNGSetupRequest plmn [g, m, bl, nm] := rfl

/-- INITIAL UE MESSAGE as `RegisterUE` builds it (no 5G-S-TMSI) -/
def skInitialUE : Tm := initiating 15 ignore 29 (initialUEIEs false)

set_option maxRecDepth 1000000 in
theorem path_noExtra : (noExtraT tGetNGSetupRequest && noExtra tInitialUEMessage skInitialUE &&
    noExtraT tUplinkNasTransport && noExtraT tInitialContextSetupResponseForRegistraionTest) = true := by
  decide +kernel

theorem mem_hand {t : Template} (h : t ∈ handTable) : t ∈ allTable :=
  List.mem_append_left _ (List.mem_append_left _ h)

/-- UPLINK NAS TRANSPORT: AMF-UE-NGAP-ID in 0..2^40−1, RAN-UE-NGAP-ID in 0..2^32−1, any NAS-PDU, a 3-octet `TestPlmn` -/
theorem inRange_uplinkNasTransport (E : Ext) (plmn : Bytes) (hplmn : plmn.length = 3) (amf ran : Int) (nas : Bytes)
    (ha0 : 0 ≤ amf) (ha1 : amf < 2 ^ 40) (hr0 : 0 ≤ ran) (hr1 : ran < 2 ^ 32) :
    InRange true E tUplinkNasTransport plmn [.int amf, .int ran, .octs nas] := by
  have hx : noExtraT tUplinkNasTransport = true := by
    have := path_noExtra; simp only [Bool.and_eq_true] at this; exact this.1.2
  refine Props.C13.C13_in_range true E _ (mem_hand (by simp [handTable])) plmn _ ⟨[], .val _⟩ _ rfl rfl ?_ ?_
  · have hn := noExtra_lists _ _ (by simpa [noExtraT, tUplinkNasTransport] using hx)
    refine ⟨hplmn, ?_, ?_, ?_, ?_, ?_, ?_, ?_, fun i hi _ => absurd hi (hn i)⟩
    · intro i hi
      rcases i with _ | _ | _ | i <;> simp [roleAt, tUplinkNasTransport] at hi
      exact ⟨amf, rfl, ha0, ha1⟩
    · intro i hi
      rcases i with _ | _ | _ | i <;> simp [roleAt, tUplinkNasTransport] at hi
      exact ⟨ran, rfl, hr0, hr1⟩
    · intro i hi; rcases i with _ | _ | _ | i <;> simp [roleAt, tUplinkNasTransport] at hi
    · intro i hi; rcases i with _ | _ | _ | i <;> simp [roleAt, tUplinkNasTransport] at hi
    · intro i hi; rcases i with _ | _ | _ | i <;> simp [roleAt, tUplinkNasTransport] at hi
    · intro i j hi; rcases i with _ | _ | _ | i <;> simp [roleAt, tUplinkNasTransport] at hi
    · intro i j hi; rcases i with _ | _ | _ | i <;> simp [roleAt, tUplinkNasTransport] at hi
  · exact noExtra_generic _ _ (by simpa [noExtraT, tUplinkNasTransport] using hx) _ _ _

/-- INITIAL CONTEXT SETUP RESPONSE (registration): both identifiers in range -/
theorem inRange_initialContextSetupResponse (E : Ext) (plmn : Bytes) (hplmn : plmn.length = 3) (amf ran : Int)
    (ha0 : 0 ≤ amf) (ha1 : amf < 2 ^ 40) (hr0 : 0 ≤ ran) (hr1 : ran < 2 ^ 32) :
    InRange true E tInitialContextSetupResponseForRegistraionTest plmn [.int amf, .int ran] := by
  have hx : noExtraT tInitialContextSetupResponseForRegistraionTest = true := by
    have := path_noExtra; simp only [Bool.and_eq_true] at this; exact this.2
  refine Props.C13.C13_in_range true E _ (mem_hand (by simp [handTable])) plmn _ ⟨[], .val _⟩ _ rfl rfl ?_ ?_
  · have hn := noExtra_lists _ _ (by simpa [noExtraT, tInitialContextSetupResponseForRegistraionTest] using hx)
    refine ⟨hplmn, ?_, ?_, ?_, ?_, ?_, ?_, ?_, fun i hi _ => absurd hi (hn i)⟩
    · intro i hi
      rcases i with _ | _ | i <;> simp [roleAt, tInitialContextSetupResponseForRegistraionTest] at hi
      exact ⟨amf, rfl, ha0, ha1⟩
    · intro i hi
      rcases i with _ | _ | i <;> simp [roleAt, tInitialContextSetupResponseForRegistraionTest] at hi
      exact ⟨ran, rfl, hr0, hr1⟩
    · intro i hi; rcases i with _ | _ | i <;> simp [roleAt, tInitialContextSetupResponseForRegistraionTest] at hi
    · intro i hi; rcases i with _ | _ | i <;> simp [roleAt, tInitialContextSetupResponseForRegistraionTest] at hi
    · intro i hi; rcases i with _ | _ | i <;> simp [roleAt, tInitialContextSetupResponseForRegistraionTest] at hi
    · intro i j hi; rcases i with _ | _ | i <;> simp [roleAt, tInitialContextSetupResponseForRegistraionTest] at hi
    · intro i j hi; rcases i with _ | _ | i <;> simp [roleAt, tInitialContextSetupResponseForRegistraionTest] at hi
  · exact noExtra_generic _ _ (by simpa [noExtraT, tInitialContextSetupResponseForRegistraionTest] using hx) _ _ _

/-- INITIAL UE MESSAGE without 5G-S-TMSI (`fiveGSTmsi == ""`, as `RegisterUE` calls it): RAN-UE-NGAP-ID in range, any NAS-PDU -/
theorem inRange_initialUEMessage (E : Ext) (plmn : Bytes) (hplmn : plmn.length = 3) (ran : Int) (nas : Bytes)
    (hr0 : 0 ≤ ran) (hr1 : ran < 2 ^ 32) :
    InRange true E tInitialUEMessage plmn [.int ran, .octs nas, .str []] := by
  have hx : noExtra tInitialUEMessage skInitialUE = true := by
    have := path_noExtra; simp only [Bool.and_eq_true] at this; exact this.1.1.2
  refine Props.C13.C13_in_range true E _ (mem_hand (by simp [handTable])) plmn _ ⟨[1], .val skInitialUE⟩ skInitialUE rfl rfl ?_ ?_
  · have hn := noExtra_lists _ _ hx
    refine ⟨hplmn, ?_, ?_, ?_, ?_, ?_, ?_, ?_, fun i hi _ => absurd hi (hn i)⟩
    · intro i hi; rcases i with _ | _ | _ | i <;> simp [roleAt, tInitialUEMessage] at hi
    · intro i hi
      rcases i with _ | _ | _ | i <;> simp [roleAt, tInitialUEMessage] at hi
      exact ⟨ran, rfl, hr0, hr1⟩
    · intro i hi; rcases i with _ | _ | _ | i <;> simp [roleAt, tInitialUEMessage] at hi
    · intro i hi; rcases i with _ | _ | _ | i <;> simp [roleAt, tInitialUEMessage] at hi
    · intro i hi; rcases i with _ | _ | _ | i <;> simp [roleAt, tInitialUEMessage] at hi
    · intro i j hi; rcases i with _ | _ | _ | i <;> simp [roleAt, tInitialUEMessage] at hi
    · intro i j hi; rcases i with _ | _ | _ | i <;> simp [roleAt, tInitialUEMessage] at hi
  · exact noExtra_generic _ _ hx _ _ _

/-- NG SETUP REQUEST as `GetNGSetupRequest(gnbId, mobilePLMN, bitlength, name)` hands it to the encoder: gNB id of
    `bitlength` = 22..32 bits in ⌈bitlength/8⌉ octets with the unused bits clear, a 3-octet PLMN, a non-empty name -/
theorem inRange_ngSetupRequest (E : Ext) (plmn : Bytes) (g m name : Bytes) (bl : Int)
    (hm : m.length = 3) (h22 : 22 ≤ bl) (h32 : bl ≤ 32) (hg : g.length = (bl.toNat + 7) / 8)
    (hc : Canonical g bl.toNat) (hname : 1 ≤ name.length) :
    InRange true E tGetNGSetupRequest plmn [.octs g, .octs m, .int bl, .str name] := by
  have hx : noExtraT tGetNGSetupRequest = true := by
    have := path_noExtra; simp only [Bool.and_eq_true] at this; exact this.1.1.1
  have ht : tGetNGSetupRequest ∈ allTable := List.mem_append_right _ (by simp)
  refine Props.C13.C13_in_range true E _ ht plmn _ ⟨[], .val _⟩ _ rfl rfl ?_ ?_
  · have hn := noExtra_lists _ _ (by simpa [noExtraT, tGetNGSetupRequest] using hx)
    refine ⟨hm, ?_, ?_, ?_, ?_, ?_, ?_, ?_, fun i hi _ => absurd hi (hn i)⟩
    · intro i hi; rcases i with _ | _ | _ | _ | i <;> simp [roleAt, tGetNGSetupRequest] at hi
    · intro i hi; rcases i with _ | _ | _ | _ | i <;> simp [roleAt, tGetNGSetupRequest] at hi
    · intro i hi; rcases i with _ | _ | _ | _ | i <;> simp [roleAt, tGetNGSetupRequest] at hi
    · intro i hi; rcases i with _ | _ | _ | _ | i <;> simp [roleAt, tGetNGSetupRequest] at hi
    · intro i hi
      rcases i with _ | _ | _ | _ | i <;> simp [roleAt, tGetNGSetupRequest] at hi
      exact hname
    · intro i j hi hj
      rcases i with _ | _ | _ | _ | i <;> simp [roleAt, tGetNGSetupRequest] at hi
      rcases j with _ | _ | _ | _ | j <;> simp [roleAt, tGetNGSetupRequest] at hj
      refine ⟨?_, ?_, hg, fun _ => hc⟩
      · show 22 ≤ bl.toNat; omega
      · show bl.toNat ≤ 32; omega
    · intro i j hi hj
      rcases i with _ | _ | _ | _ | i <;> simp [roleAt, tGetNGSetupRequest] at hi
      rcases j with _ | _ | _ | _ | j <;> simp [roleAt, tGetNGSetupRequest] at hj
  · exact noExtra_generic _ _ (by simpa [noExtraT, tGetNGSetupRequest] using hx) _ _ _

end Stgutg.Proofs.BuildersPath
