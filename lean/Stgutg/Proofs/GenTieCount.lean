import Stgutg.Gen.PureCount
import Stgutg.Model.NasProtect
/-!
  Tie by translation (C06, C10): `Gen/PureCount.lean` is regenerated from src/free5gclib/nas/security/counter.go on
  every run by `gen pure-count`. The hand model `Model.NasProtect.Count` carries the struct `Count{count uint32}` as
  its one field; each translated method is the hand model's function on that field.
-/
namespace Stgutg.Proofs.GenTie.Count
open Stgutg
open Stgutg.Gen.Pure.Count



theorem maskTo24Bits_eq (c : UInt32) : Count.maskTo24Bits ⟨c⟩ = ⟨Model.NasProtect.Count.maskTo24Bits c⟩ := rfl
/-- `Get()` returns the masked word and leaves the masked word stored -/
theorem Get_eq (c : UInt32) : Count.Get ⟨c⟩ = (⟨(Model.NasProtect.Count.get c).1⟩, (Model.NasProtect.Count.get c).2) := rfl
theorem AddOne_eq (c : UInt32) : Count.AddOne ⟨c⟩ = ⟨Model.NasProtect.Count.addOne c⟩ := rfl
theorem SQN_eq (c : UInt32) : Count.SQN ⟨c⟩ = Model.NasProtect.Count.sqn c := rfl
theorem SetSQN_eq (c : UInt32) (s : UInt8) : Count.SetSQN ⟨c⟩ s = ⟨Model.NasProtect.Count.setSQN c s⟩ := rfl
theorem Overflow_eq (c : UInt32) : Count.Overflow ⟨c⟩ = Model.NasProtect.Count.overflow c := rfl
theorem SetOverflow_eq (c : UInt32) (o : UInt16) : Count.SetOverflow ⟨c⟩ o = ⟨Model.NasProtect.Count.setOverflow c o⟩ := rfl
theorem Set_eq (c : UInt32) (o : UInt16) (s : UInt8) : Count.Set ⟨c⟩ o s = ⟨Model.NasProtect.Count.set c o s⟩ := rfl

/-- **Tie.** All eight methods of `security.Count` at once. -/
theorem Count_methods_eq :
    (∀ c, Count.maskTo24Bits ⟨c⟩ = ⟨Model.NasProtect.Count.maskTo24Bits c⟩) ∧
    (∀ c, Count.Get ⟨c⟩ = (⟨(Model.NasProtect.Count.get c).1⟩, (Model.NasProtect.Count.get c).2)) ∧
    (∀ c, Count.AddOne ⟨c⟩ = ⟨Model.NasProtect.Count.addOne c⟩) ∧
    (∀ c, Count.SQN ⟨c⟩ = Model.NasProtect.Count.sqn c) ∧
    (∀ c s, Count.SetSQN ⟨c⟩ s = ⟨Model.NasProtect.Count.setSQN c s⟩) ∧
    (∀ c, Count.Overflow ⟨c⟩ = Model.NasProtect.Count.overflow c) ∧
    (∀ c o, Count.SetOverflow ⟨c⟩ o = ⟨Model.NasProtect.Count.setOverflow c o⟩) ∧
    (∀ c o s, Count.Set ⟨c⟩ o s = ⟨Model.NasProtect.Count.set c o s⟩) :=
  ⟨maskTo24Bits_eq, Get_eq, AddOne_eq, SQN_eq, SetSQN_eq, Overflow_eq, SetOverflow_eq, Set_eq⟩

end Stgutg.Proofs.GenTie.Count
