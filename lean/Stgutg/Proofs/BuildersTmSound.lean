/-
  C13 helper, part 4: soundness of the static skeleton analysis (`tmOK_sound`).
-/
import Stgutg.Proofs.BuildersTm

namespace Stgutg.Proofs.BuildersTm
open Stgutg Stgutg.Aper Stgutg.Builders Stgutg.Model.Convert
open Stgutg.Proofs.BuildersOk Stgutg.Proofs.Builders
open Stgutg.Proofs.AperRTComp (neTy nilExceptFrom)
open Stgutg.Spec.X691 (governor)

variable (E : Ext) (e : BEnv)

theorem refVal_eval (cur : Val) (t : Tm) (v : Val) (h : refVal t = some v) : eval E e cur t = v := by
  unfold refVal at h
  split at h
  · simp only [Option.some.injEq] at h; subst h; simp [eval]
  · simp only [Option.some.injEq] at h; subst h; simp [eval, evalL]
  · simp at h

theorem tmResolveP_sound (env : Env) (cur : Val) (f : Nat) (aF : List Field) (aT : List Tm) (fd : Field) (q : Params)
    (h : tmResolveP env f aF aT fd = some q) :
    resolveP (governor env f) aF (aT.map (eval E e cur)) fd = some q := by
  unfold tmResolveP at h
  unfold resolveP
  split at h
  · rename_i hot
    rw [if_pos hot]
    split at h
    · simp at h
    · rename_i k hk
      rw [hk]
      simp only
      split at h
      · rename_i rf rt hrf hrt
        rw [hrf, List.getElem?_map, hrt]
        simp only [Option.map_some]
        cases hrv : refVal rt with
        | none => simp [hrv] at h
        | some rv =>
          simp only [hrv] at h
          rw [refVal_eval E e cur rt rv hrv]
          exact h
      · simp at h
  · rename_i hot
    rw [if_neg hot]
    exact h

theorem encOutcomeL_of_all (cur : Val) : ∀ (l : List Tm), (∀ x ∈ l, encOutcome E e cur x = none) → encOutcomeL E e cur l = none := by
  intro l
  induction l with
  | nil => intro _; rfl
  | cons t ts ih =>
    intro h
    simp only [encOutcomeL, h t (List.mem_cons_self ..)]
    exact ih fun x hx => h x (List.mem_cons_of_mem _ hx)

/-- what the induction hypothesis of `tmOK_sound` provides for the components of a composite skeleton -/
def SubSound (env : Env) (canon : Bool) (cur : Val) (f : Nat) (ok : Ty → Params → Tm → Bool) (ob : Ty → Params → Tm → List Obl) : Prop :=
  ∀ (ty : Ty) (q : Params) (t : Tm), ok ty q t = true → (∀ o ∈ ob ty q t, Obl.ok env canon E e cur o = true) →
    okV env canon f ty q (eval E e cur t) = true ∧ encOutcome E e cur t = none

theorem tmField_sound (env : Env) (canon : Bool) (cur : Val) (f : Nat) (ok : Ty → Params → Tm → Bool)
    (ob : Ty → Params → Tm → List Obl) (H : SubSound E e env canon cur f ok ob) (aF : List Field) (aT : List Tm)
    (fd : Field) (t : Tm) (h : tmField env ok f aF aT fd t = true)
    (hob : ∀ o ∈ oblField env ob f aF aT fd t, Obl.ok env canon E e cur o = true) :
    okField (okV env canon f) (governor env f) aF (aT.map (eval E e cur)) fd (eval E e cur t) = true ∧
    encOutcome E e cur t = none := by
  unfold okField
  cases t with
  | nil =>
    simp only [tmField] at h
    exact ⟨by simp [eval, isNil, h], rfl⟩
  | hole hh =>
    simp only [tmField] at h
    simp only [oblField] at hob
    cases hq : tmResolveP env f aF aT fd with
    | none => simp [hq] at h
    | some q =>
      simp only [hq, List.mem_singleton, forall_eq] at hob
      simp only [Obl.ok] at hob
      refine ⟨?_, rfl⟩
      rw [tmResolveP_sound E e env cur f aF aT fd q hq]
      simpa [eval] using hob
  | _ =>
    simp only [tmField] at h
    simp only [oblField] at hob
    cases hq : tmResolveP env f aF aT fd with
    | none => simp [hq] at h
    | some q =>
      simp only [hq] at h hob
      obtain ⟨h1, h2⟩ := H _ _ _ h hob
      refine ⟨?_, h2⟩
      rw [tmResolveP_sound E e env cur f aF aT fd q hq]
      simp [h1]

theorem tmFields_sound (env : Env) (canon : Bool) (cur : Val) (f : Nat) (ok : Ty → Params → Tm → Bool)
    (ob : Ty → Params → Tm → List Obl) (H : SubSound E e env canon cur f ok ob) (aF : List Field) (aT : List Tm) :
    ∀ (fields : List Field) (ts : List Tm), tmFields env ok f aF aT fields ts = true →
      (∀ o ∈ oblFields env ob f aF aT fields ts, Obl.ok env canon E e cur o = true) →
      okFields (okV env canon f) (governor env f) aF (aT.map (eval E e cur)) fields (ts.map (eval E e cur)) = true ∧
      ∀ t ∈ ts, encOutcome E e cur t = none := by
  intro fields
  induction fields with
  | nil =>
    intro ts h _
    cases ts with
    | nil => exact ⟨rfl, fun t ht => by simp at ht⟩
    | cons _ _ => simp [tmFields] at h
  | cons fd frest ih =>
    intro ts h hob
    cases ts with
    | nil => simp [tmFields] at h
    | cons t trest =>
      simp only [tmFields, Bool.and_eq_true] at h
      simp only [oblFields, List.mem_append] at hob
      obtain ⟨hrest, hencs⟩ := ih trest h.2 (fun o ho => hob o (.inr ho))
      obtain ⟨hhead, henc⟩ := tmField_sound E e env canon cur f ok ob H aF aT fd t h.1 (fun o ho => hob o (.inl ho))
      simp only [List.map_cons, okFields, Bool.and_eq_true, List.mem_cons, forall_eq_or_imp]
      exact ⟨⟨hhead, hrest⟩, henc, hencs⟩

theorem isNilT_eq (t : Tm) (h : isNilT t = true) : t = .nil := by
  cases t <;> simp [isNilT] at h ⊢

theorem tmNilExcept_eval (cur : Val) : ∀ (alts : List Tm) (j k : Nat), tmNilExcept j k alts = true →
    nilExceptFrom j k (alts.map (eval E e cur)) = true := by
  intro alts
  induction alts with
  | nil => intro j k _; rfl
  | cons t ts ih =>
    intro j k h
    simp only [tmNilExcept, Bool.and_eq_true, Bool.or_eq_true] at h
    simp only [List.map_cons, nilExceptFrom, Bool.and_eq_true, Bool.or_eq_true]
    refine ⟨?_, ih _ _ h.2⟩
    rcases h.1 with h1 | h1
    · exact .inl h1
    · right; rw [isNilT_eq t h1]; rfl

theorem tmNilExcept_get : ∀ (alts : List Tm) (j k : Nat), tmNilExcept j k alts = true →
    ∀ i t, alts[i]? = some t → t = .nil ∨ j + i = k := by
  intro alts
  induction alts with
  | nil => intro j k _ i t h; simp at h
  | cons a rest ih =>
    intro j k h i t hi
    simp only [tmNilExcept, Bool.and_eq_true, Bool.or_eq_true, beq_iff_eq] at h
    cases i with
    | zero =>
      simp only [List.getElem?_cons_zero, Option.some.injEq] at hi
      subst hi
      rcases h.1 with h1 | h1
      · exact .inr (by omega)
      · exact .inl (isNilT_eq _ h1)
    | succ i =>
      simp only [List.getElem?_cons_succ] at hi
      rcases ih (j + 1) k h.2 i t hi with h1 | h1
      · exact .inl h1
      · exact .inr (by omega)

theorem tmChoice_sound (env : Env) (canon : Bool) (cur : Val) (f : Nat) (ok : Ty → Params → Tm → Bool)
    (ob : Ty → Params → Tm → List Obl) (H : SubSound E e env canon cur f ok ob) (ne : Ty → Params → Bool)
    (sd : StructDef) (params : Params) (fs : List Tm) (h : tmChoice ok ne sd params fs = true)
    (hob : ∀ o ∈ oblChoice ob sd fs, Obl.ok env canon E e cur o = true) :
    okChoice (okV env canon f) ne sd params (fs.map (eval E e cur)) = true ∧ ∀ t ∈ fs, encOutcome E e cur t = none := by
  unfold tmChoice at h
  unfold okChoice
  simp only [Bool.and_eq_true, decide_eq_true_eq] at h
  obtain ⟨hlen, h⟩ := h
  cases fs with
  | nil => simp at h
  | cons f0 alts =>
    cases f0 <;> try (simp at h; done)
    rename_i pv
    simp only [Bool.and_eq_true, decide_eq_true_eq] at h
    obtain ⟨⟨⟨hp1, hp2⟩, hnil⟩, h⟩ := h
    simp only [oblChoice] at hob
    cases hfd : sd.fields[pv.toNat]? with
    | none => simp [hfd] at h
    | some fd =>
      cases halt : (Tm.int pv :: alts)[pv.toNat]? with
      | none => simp [hfd, halt] at h
      | some alt =>
        simp only [hfd, halt, Bool.and_eq_true] at h hob
        obtain ⟨⟨hne, hok⟩, hpar⟩ := h
        obtain ⟨hv, henc⟩ := H _ _ _ hok hob
        have hev : eval E e cur (.int pv) = .int pv := by simp [eval]
        constructor
        · simp only [List.map_cons, hev, List.length_cons, List.length_map, Bool.and_eq_true, decide_eq_true_eq]
          refine ⟨by simpa using hlen, ⟨⟨hp1, hp2⟩, tmNilExcept_eval E e cur alts 1 pv.toNat hnil⟩, ?_⟩
          have : (Val.int pv :: alts.map (eval E e cur))[pv.toNat]? = some (eval E e cur alt) := by
            have := congrArg (Option.map (eval E e cur)) halt
            rw [← List.getElem?_map] at this
            simpa [hev] using this
          simp only [hfd, this, Bool.and_eq_true]
          exact ⟨⟨hne, hv⟩, hpar⟩
        · intro t ht
          rcases List.mem_cons.mp ht with rfl | ht
          · rfl
          · obtain ⟨i, hi⟩ := List.getElem?_of_mem ht
            rcases tmNilExcept_get alts 1 pv.toNat hnil i t hi with h1 | h1
            · subst h1; rfl
            · have : (Tm.int pv :: alts)[pv.toNat]? = some t := by
                rw [← h1, Nat.add_comm, List.getElem?_cons_succ]; exact hi
              rw [halt] at this
              simp only [Option.some.injEq] at this
              subst this
              exact henc

theorem sizeOKn_of_sizeFree (n : Nat) (p : Params) (h : sizeFree p = true) : sizeOKn n p = true := by
  unfold sizeFree at h
  unfold sizeOKn Spec.X691.sizeConstraint
  cases hl : p.sizeLB with
  | none => rfl
  | some l => simp [hl] at h

theorem transfer_params_ok (sty : Nat) : AperSpec.tyParamsOK Gen.Ngap.schema (.struct sty) transferParams = true := by
  simp [AperSpec.tyParamsOK, AperSpec.structOK, transferParams]

theorem transfer_params_okc (sty : Nat) : AperSpec.tyParamsOKc (.struct sty) transferParams = true := by
  simp [AperSpec.tyParamsOKc, transferParams]

theorem eval_mapInts (cur : Val) (i : Nat) (item : Tm) :
    eval E e cur (.mapInts i item) = .slice ((listOf (e.arg i)).map fun x => eval E e x item) := by
  simp only [eval]
  cases e.arg i <;> simp [listOf]

/-- **soundness of the static analysis** (NGAP schema, the fuel of the builders' nested encodings): a skeleton that passes
    `tmOK`, evaluated on arguments that satisfy its obligations, is an `okV` value of its type, and every nested
    `aper.MarshalWithParams` of it succeeds -/
theorem tmOK_sound (canon : Bool) (hwf : AperSpec.specOK Gen.Ngap.schema = true) (hwfc : AperSpec.specOKc Gen.Ngap.schema = true) :
    ∀ (g f : Nat) (ty : Ty) (p : Params) (tm : Tm) (cur : Val),
      tmOK Gen.Ngap.schema canon Builders.fuel g f ty p tm = true →
      (∀ o ∈ obls Gen.Ngap.schema Builders.fuel g f ty p tm, Obl.ok Gen.Ngap.schema canon E e cur o = true) →
      okV Gen.Ngap.schema canon f ty p (eval E e cur tm) = true ∧ encOutcome E e cur tm = none := by
  intro g
  induction g with
  | zero => intro f ty p tm cur h; simp [tmOK] at h
  | succ g ih =>
    intro f ty p tm cur h hob
    cases f with
    | zero => simp [tmOK] at h
    | succ f =>
      cases tm with
      | hole hh =>
        simp only [obls, List.mem_singleton, forall_eq, Obl.ok, Bool.false_and, Bool.false_or] at hob
        exact ⟨by simpa [eval] using hob, rfl⟩
      | nil => simp [tmOK] at h
      | int v => exact ⟨by simpa [tmOK, eval] using h, rfl⟩
      | enum v => exact ⟨by simpa [tmOK, eval] using h, rfl⟩
      | bits b n => exact ⟨by simpa [tmOK, eval] using h, rfl⟩
      | octs b => exact ⟨by simpa [tmOK, eval] using h, rfl⟩
      | str b => exact ⟨by simpa [tmOK, eval] using h, rfl⟩
      | bool b => exact ⟨by simpa [tmOK, eval] using h, rfl⟩
      | ptr t =>
        cases ty <;> try (simp [tmOK] at h; done)
        rename_i ty'
        simp only [tmOK] at h
        simp only [obls] at hob
        obtain ⟨h1, h2⟩ := ih f ty' p t cur h hob
        exact ⟨by simpa [eval, okV] using h1, by simpa [encOutcome] using h2⟩
      | slice l =>
        cases ty <;> try (simp [tmOK] at h; done)
        rename_i t
        simp only [tmOK, Bool.and_eq_true, decide_eq_true_eq, List.all_eq_true] at h
        simp only [obls, List.mem_flatMap] at hob
        have hall : ∀ x ∈ l, okV Gen.Ngap.schema canon f t (stripSizeE p) (eval E e cur x) = true ∧ encOutcome E e cur x = none :=
          fun x hx => ih f t (stripSizeE p) x cur (h.2 x hx) (fun o ho => hob o ⟨x, hx, ho⟩)
        constructor
        · simp only [eval, evalL_eq, okV, List.length_map, Bool.and_eq_true, decide_eq_true_eq, List.all_eq_true, List.mem_map]
          refine ⟨h.1, ?_⟩
          rintro v ⟨x, hx, rfl⟩
          exact (hall x hx).1
        · simp only [encOutcome]
          exact encOutcomeL_of_all E e cur l fun x hx => (hall x hx).2
      | mapInts i item =>
        cases ty <;> try (simp [tmOK] at h; done)
        rename_i t
        simp only [tmOK] at h
        simp only [obls, List.mem_cons, List.mem_map, forall_eq_or_imp] at hob
        obtain ⟨hlen, heach⟩ := hob
        simp only [Obl.ok, Bool.and_eq_true, decide_eq_true_eq] at hlen
        refine ⟨?_, rfl⟩
        rw [eval_mapInts]
        simp only [okV, List.length_map, Bool.and_eq_true, decide_eq_true_eq, List.all_eq_true, List.mem_map]
        refine ⟨hlen, ?_⟩
        rintro v ⟨x, hx, rfl⟩
        refine (ih f t (stripSizeE p) item x h ?_).1
        intro o ho
        have := heach (.each i o) ⟨o, ho, rfl⟩
        simp only [Obl.ok, List.all_eq_true] at this
        exact this x hx
      | enc sty inner =>
        cases ty <;> try (simp [tmOK] at h; done)
        simp only [tmOK, Bool.and_eq_true] at h
        simp only [obls] at hob
        obtain ⟨h1, h2⟩ := ih Builders.fuel (.struct sty) transferParams inner cur h.2 hob
        obtain ⟨bs, hm, _⟩ := okV_marshal Gen.Ngap.schema canon hwf hwfc Builders.fuel (.struct sty) transferParams
          (eval E e cur inner) (transfer_params_ok sty) (transfer_params_okc sty) h1
        have hm' : marshalTransfer sty (eval E e cur inner) = .ok bs := hm
        constructor
        · simp only [eval, hm', okV]
          exact sizeOKn_of_sizeFree _ _ h.1
        · simp [encOutcome, h2, hm']
      | struct fs =>
        cases ty <;> try (simp [tmOK] at h; done)
        rename_i id
        simp only [tmOK] at h
        simp only [obls] at hob
        cases hsd : Gen.Ngap.schema[id]? with
        | none => simp [hsd] at h
        | some sd =>
          simp only [hsd] at h hob
          have H : SubSound E e Gen.Ngap.schema canon cur f (tmOK Gen.Ngap.schema canon Builders.fuel g f)
              (obls Gen.Ngap.schema Builders.fuel g f) := fun ty q t ht ho => ih f ty q t cur ht ho
          by_cases hch : isChoice sd = true
          · simp only [hch, if_true] at h hob
            obtain ⟨h1, h2⟩ := tmChoice_sound E e Gen.Ngap.schema canon cur f _ _ H _ sd p fs h hob
            constructor
            · simp only [eval, evalL_eq, okV, hsd, hch, if_true]
              exact h1
            · simp only [encOutcome]
              exact encOutcomeL_of_all E e cur fs h2
          · simp only [hch, if_false, Bool.false_eq_true, Bool.and_eq_true, decide_eq_true_eq] at h hob
            obtain ⟨h1, h2⟩ := tmFields_sound E e Gen.Ngap.schema canon cur f _ _ H sd.fields fs sd.fields fs h.2 hob
            constructor
            · simp only [eval, evalL_eq, okV, hsd, hch, if_false, Bool.false_eq_true, List.length_map, Bool.and_eq_true,
                decide_eq_true_eq]
              exact ⟨h.1, h1⟩
            · simp only [encOutcome]
              exact encOutcomeL_of_all E e cur fs h2

end Stgutg.Proofs.BuildersTm
