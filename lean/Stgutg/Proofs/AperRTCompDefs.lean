/-
  C04, composite round trip — definitions.

  * `RT'`      : `RT` for a computation that refuses an exhausted reader at entry (`parseField`'s
                 "sequence truncated" test): the statement assumes that at least one bit is left.
  * `neF`      : static "every successful encoding of this (type, parameters) has at least one bit".
  * `exIds`    : ids of the struct types that may encode to zero bits (computed in one pass over the
                 topologically ordered schema; no random access into the schema, so the kernel can decide it).
  * `paramsOK` : what the parameters (the `aper:"…"` tag) of a component must satisfy for decoder and encoder to agree.
  * `rtOK`     : decidable well-formedness of a schema, exactly what the round-trip proof forces.
  * `conf`     : "v is a value of type ty within its constraints" (Bool-valued, so concrete values are checked by `decide`);
                 no bound on string lengths or open-type contents (fragmented lengths are covered, `Proofs/AperRTFrag.lean`).
-/
import Stgutg.Proofs.AperRTFrag
import Stgutg.Proofs.AperTotal

namespace Stgutg.Proofs.AperRTComp
open Stgutg Stgutg.Aper Stgutg.Proofs.Bits Stgutg.Proofs.AperRT

/-- as `RT`, for inputs on which at least one bit is left at entry -/
def RT' {α : Type} (bits : Bits) (pos : Nat) (m : D α) (a : α) : Prop :=
  ∀ tail, (pos + bits.length + tail.length) % 8 = 0 → bits ++ tail ≠ [] →
    m (mkRd (bits ++ tail) pos) = .ok (a, mkRd tail (pos + bits.length))

def isPtr : Ty → Bool
  | .ptr _ => true
  | _ => false

/-! ### parameters -/

/-- INTEGER: the side conditions of `RT_int` -/
def intOK (p : Params) : Bool :=
  match p.valueLB, p.valueUB with
  | some lb, some ub =>
    decide (0 ≤ lb) && decide (ub < 2 ^ 63) && (decide (ub - lb + 1 ≤ 65536) || decide (lb = 0)) && !p.sizeExt
  | _, _ => false

/-- ENUMERATED: the decoder returns the index, so the root must start at 0 (no bounds: never encodable) -/
def enumOK (p : Params) : Bool :=
  !p.sizeExt && (match p.valueLB with | some lb => decide (lb = 0) | none => true)

/-- what fragmentation asks of a string's size constraint (`FragParamsOK`): SIZE(lb..MAX) only with lb = 0, a
    constrained size (ub < 64K) ends below 16K — so a length of 16K or more is always a general length with lower bound 0 -/
def fragOK (p : Params) : Bool :=
  (p.sizeUB.isSome || p.sizeLB == none || p.sizeLB == some 0) &&
  (match p.sizeUB with | some u => decide (65535 < u) || decide (u < 16384) | none => true)

/-- BIT STRING / OCTET STRING / PrintableString: `SizedParamsOK`, `FragParamsOK` and no value-extension bit -/
def sizedOK (p : Params) : Bool :=
  (!p.sizeExt || (p.sizeLB.isSome && p.sizeUB.isSome)) && (!p.sizeUB.isSome || p.sizeLB.isSome) &&
  (match p.sizeLB with | some l => decide (0 ≤ l) | none => true) && AperTotal.sizeOK p && !p.valueExt && fragOK p

/-- the lower bound `parseSequenceOf` uses -/
def sliceLB (p : Params) : Int :=
  match p.sizeLB with
  | some l => if l < 65536 then l else 0
  | none => 0

/-- SEQUENCE OF: non-negative lower bound; a size-extension marker only with an upper bound below 64K
    (otherwise the encoder writes no extension bit while the decoder reads one) -/
def sliceOK (p : Params) : Bool :=
  decide (0 ≤ sliceLB p) &&
  (!p.sizeExt || match p.sizeUB with | some u => decide (u < 65536) | none => false)

/-! ### non-empty encodings -/

/-- every successful encoding has ≥ 1 bit. `ex` lists the struct ids (below `bound`) that may encode to nothing. -/
def neF (ex : List Nat) (bound : Nat) : Ty → Params → Bool
  | .ptr t, p => neF ex bound t p
  | .int, p =>
    match p.valueLB, p.valueUB with
    | some lb, some ub => p.valueExt || decide (lb ≠ ub)
    | _, _ => false
  | .enum, p =>
    match p.valueLB, p.valueUB with
    | some lb, some ub => p.valueExt || decide (lb ≠ ub)
    | _, _ => true
  | .bool, _ => true
  | .oid, _ => true
  | .bits, p => sizedOK p
  | .octs, p => sizedOK p
  | .str, p => sizedOK p
  | .slice _, p =>
    match p.sizeUB with
    | some u => if u < 65536 then p.sizeExt || decide (u ≠ sliceLB p) else true
    | none => true
  | .struct j, p => p.valueExt || (decide (j < bound) && !(ex.contains j))

/-- a struct type encodes to ≥ 1 bit even without an extension bit: CHOICE (index / open-type length),
    SEQUENCE with an OPTIONAL bitmap, or a first (mandatory) component that is never empty -/
def selfNE (ex : List Nat) (id : Nat) (sd : StructDef) : Bool :=
  isChoice sd || sd.fields.any (fun f => f.params.optional) ||
  match sd.fields with
  | f0 :: _ => neF ex id f0.ty f0.params
  | [] => false

/-- one pass over the schema: the ids whose struct may encode to zero bits -/
def exIdsFrom : Nat → List StructDef → List Nat → List Nat
  | _, [], acc => acc
  | id, sd :: rest, acc =>
    if selfNE acc id sd then exIdsFrom (id + 1) rest acc else exIdsFrom (id + 1) rest (id :: acc)

def exIds (env : Env) : List Nat := exIdsFrom 0 env []

/-- "never empty" relative to a schema -/
def neTy (env : Env) (ty : Ty) (p : Params) : Bool := neF (exIds env) env.length ty p

/-- parameters fit the type (the reference value of an open type is irrelevant here) -/
def paramsOKx (ex : List Nat) (bound : Nat) : Ty → Params → Bool
  | .ptr t, p => paramsOKx ex bound t p
  | .slice t, p => sliceOK p && paramsOKx ex bound t (stripSizeE p) && neF ex bound t (stripSizeE p)
  | .struct _, p => !p.sizeExt
  | .int, p => intOK p
  | .enum, p => enumOK p
  | .bool, p => !p.sizeExt && !p.valueExt
  | .oid, _ => true
  | .bits, p => sizedOK p
  | .octs, p => sizedOK p
  | .str, p => sizedOK p

def paramsOK (env : Env) (ty : Ty) (p : Params) : Bool := paramsOKx (exIds env) env.length ty p

/-- `findAlt` finds every alternative that carries a reference value (first match wins: values are distinct) -/
def altsOKFrom (fields : List Field) : Nat → List Field → Bool
  | _, [] => true
  | j, f :: rest =>
    (match f.params.refValue with
     | none => true
     | some rv => findAlt fields rv == some j) && altsOKFrom fields (j + 1) rest

def optCountOf (sd : StructDef) : Nat := (sd.fields.filter (fun f => f.params.optional)).length

def structRT (ex : List Nat) (bound : Nat) (sd : StructDef) : Bool :=
  if isChoice sd then
    sd.fields.all (fun f => !f.params.optional) &&
    (sd.fields.drop 1).all (fun f => isPtr f.ty && paramsOKx ex bound f.ty f.params) &&
    altsOKFrom sd.fields 1 (sd.fields.drop 1)
  else
    sd.fields.all (fun f => (!f.params.optional || isPtr f.ty) && paramsOKx ex bound f.ty f.params &&
      neF ex bound f.ty f.params) &&
    decide (optCountOf sd < 64)

/-- decidable well-formedness of a schema for the round trip -/
def rtOK (env : Env) : Bool := env.all (structRT (exIds env) env.length)

/-! ### conforming values -/

/-- every element is nil except the one at index `k` (indices counted from `j`) -/
def nilExceptFrom : Nat → Nat → List Val → Bool
  | _, _, [] => true
  | j, k, v :: vs => (j == k || isNil v) && nilExceptFrom (j + 1) k vs

def confFields (c : Ty → Params → Val → Bool) : List Field → List Val → Bool
  | [], [] => true
  | fd :: frest, v :: vrest =>
    ((fd.params.optional && isNil v) || c fd.ty fd.params v) && confFields c frest vrest
  | _, _ => false

/-- CHOICE / open type value: `Present = p`, alternative `p` conforms and never encodes to nothing, every other
    alternative is nil (the content of an open type may be of any length: 16K octets or more are fragmented) -/
def confChoice (c : Ty → Params → Val → Bool) (ne : Ty → Params → Bool)
    (sd : StructDef) (fs : List Val) : Bool :=
  decide (fs.length = sd.fields.length) &&
  match fs with
  | .int p :: alts =>
    nilExceptFrom 1 p.toNat alts &&
    match sd.fields[p.toNat]?, fs[p.toNat]? with
    | some fd, some alt =>
      c fd.ty fd.params alt && ne fd.ty fd.params
    | _, _ => false
  | _ => false

/-- `v` is a value of type `ty` within the constraints `params` (what the round trip needs beyond
    "the encoder accepts it") -/
def conf (env : Env) : Nat → Ty → Params → Val → Bool
  | 0, _, _, _ => false
  | fuel + 1, ty, params, v =>
    match ty, v with
    | .ptr t, .ptr v' => conf env fuel t params v'
    | .bits, .bits bytes len => decide (bitsToBytes ((bytesToBits bytes).take len) = bytes)
    | .octs, .octs _ => true
    | .str, .str _ => true
    | .enum, .enum _ => true
    | .bool, .bool _ => true
    | .int, .int n =>
      (match params.valueLB, params.valueUB with
       | some lb, some ub =>
         -- inside the root, or an extension value of an extensible INTEGER (an int64)
         decide (lb ≤ n) && (decide (n ≤ ub) || (params.valueExt && decide (n < 2 ^ 63)))
       | _, _ => false)
    | .slice t, .slice vs => vs.all (fun v => conf env fuel t (stripSizeE params) v)
    | .struct id, .struct fs =>
      (match env[id]? with
       | none => false
       | some sd =>
         if !(isChoice sd) then confFields (conf env fuel) sd.fields fs
         else confChoice (conf env fuel) (neTy env) sd fs)
    | _, _ => false

end Stgutg.Proofs.AperRTComp
