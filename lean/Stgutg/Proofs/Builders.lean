/-
  C13 helper lemmas: what the IE walker (Spec/NgapView.lean) finds in `eval tm` is what the skeleton `tm` shows at the
  same position, with holes filled. All skeleton-side functions (`Tm.…`) compute on closed data, so the table facts of
  Props/C13.lean are kernel evaluations.
-/
import Stgutg.Model.Builders
import Stgutg.Spec.NgapView

namespace Stgutg.Proofs.Builders
open Stgutg Stgutg.Aper Stgutg.Builders Stgutg.Spec.NgapView Stgutg.Model.Convert

variable (E : Ext) (e : BEnv) (cur : Val)

theorem evalL_eq (l : List Tm) : evalL E e cur l = l.map (eval E e cur) := by
  induction l with
  | nil => rfl
  | cons t ts ih => simp [evalL, ih]

/-- the sub-skeleton at a position (through structs, lists and pointers only) -/
def Tm.at : List Nat → Tm → Option Tm
  | [], t => some t
  | i :: p, .struct fs =>
    match fs[i]? with
    | some x => Tm.at p x
    | none => none
  | i :: p, .slice fs =>
    match fs[i]? with
    | some x => Tm.at p x
    | none => none
  | 0 :: p, .ptr x => Tm.at p x
  | _, _ => none

/-- **position lemma**: evaluation commutes with taking the sub-term at a position -/
theorem eval_at : ∀ (p : List Nat) (tm t' : Tm), Tm.at p tm = some t' →
    Val.at p (eval E e cur tm) = some (eval E e cur t') := by
  intro p
  induction p with
  | nil =>
    intro tm t' h
    simp only [Tm.at, Option.some.injEq] at h
    subst h; rfl
  | cons i p ih =>
    intro tm t' h
    cases tm with
    | struct fs =>
      simp only [Tm.at] at h
      simp only [eval, evalL_eq, Val.at, List.getElem?_map]
      cases hfi : fs[i]? with
      | none => simp [hfi] at h
      | some t => simp only [hfi] at h; simp only [Option.map_some]; exact ih t t' h
    | slice fs =>
      simp only [Tm.at] at h
      simp only [eval, evalL_eq, Val.at, List.getElem?_map]
      cases hfi : fs[i]? with
      | none => simp [hfi] at h
      | some t => simp only [hfi] at h; simp only [Option.map_some]; exact ih t t' h
    | ptr t =>
      cases i with
      | zero => simp only [Tm.at] at h; simp only [eval, Val.at]; exact ih t t' h
      | succ n => simp [Tm.at] at h
    | _ => simp [Tm.at] at h

/-! ### header of the PDU -/

def Tm.intAt (p : List Nat) (t : Tm) : Option Int :=
  match Tm.at p t with
  | some (.int n) => some n
  | _ => none

theorem intAt_eval (p : List Nat) (tm : Tm) (n : Int) (h : Tm.intAt p tm = some n) :
    intAt p (eval E e cur tm) = some n := by
  unfold Tm.intAt at h
  split at h
  · rename_i m hm
    simp only [Option.some.injEq] at h; subst h
    unfold intAt
    rw [eval_at E e cur p tm _ hm]
    rfl
  · simp at h

def Tm.pduPresent (t : Tm) : Option Nat := (Tm.intAt [0] t).map Int.toNat
def Tm.pduProc (t : Tm) : Option Int := (Tm.pduPresent t).bind fun p => Tm.intAt [p, 0, 0, 0] t
def Tm.pduMsgIndex (t : Tm) : Option Nat := (Tm.pduPresent t).bind fun p => (Tm.intAt [p, 0, 2, 0] t).map Int.toNat
def Tm.pduIEs (t : Tm) : Option (List Tm) :=
  (Tm.pduPresent t).bind fun p => (Tm.pduMsgIndex t).bind fun m =>
    match Tm.at [p, 0, 2, m, 0, 0, 0] t with
    | some (.slice l) => some l
    | _ => none

theorem pduPresent_eval (tm : Tm) (p : Nat) (h : Tm.pduPresent tm = some p) : pduPresent (eval E e cur tm) = some p := by
  unfold Tm.pduPresent at h
  cases hi : Tm.intAt [0] tm with
  | none => simp [hi] at h
  | some n =>
    simp only [hi, Option.map_some, Option.some.injEq] at h
    unfold pduPresent
    rw [intAt_eval E e cur _ _ _ hi]
    simp [h]

theorem pduProc_eval (tm : Tm) (c : Int) (h : Tm.pduProc tm = some c) : pduProc (eval E e cur tm) = some c := by
  unfold Tm.pduProc at h
  cases hp : Tm.pduPresent tm with
  | none => simp [hp] at h
  | some p =>
    simp only [hp, Option.bind_some] at h
    unfold pduProc
    rw [pduPresent_eval E e cur _ _ hp]
    simp only [Option.bind_some]
    exact intAt_eval E e cur _ _ _ h

theorem pduMsgIndex_eval (tm : Tm) (m : Nat) (h : Tm.pduMsgIndex tm = some m) : pduMsgIndex (eval E e cur tm) = some m := by
  unfold Tm.pduMsgIndex at h
  cases hp : Tm.pduPresent tm with
  | none => simp [hp] at h
  | some p =>
    simp only [hp, Option.bind_some] at h
    cases hi : Tm.intAt [p, 0, 2, 0] tm with
    | none => simp [hi] at h
    | some n =>
      simp only [hi, Option.map_some, Option.some.injEq] at h
      unfold pduMsgIndex
      rw [pduPresent_eval E e cur _ _ hp]
      simp only [Option.bind_some]
      rw [intAt_eval E e cur _ _ _ hi]
      simp [h]

theorem pduIEs_eval (tm : Tm) (l : List Tm) (h : Tm.pduIEs tm = some l) :
    pduIEs (eval E e cur tm) = some (l.map (eval E e cur)) := by
  unfold Tm.pduIEs at h
  cases hp : Tm.pduPresent tm with
  | none => simp [hp] at h
  | some p =>
    simp only [hp, Option.bind_some] at h
    cases hm : Tm.pduMsgIndex tm with
    | none => simp [hm] at h
    | some m =>
      simp only [hm, Option.bind_some] at h
      split at h
      · rename_i l' hl
        simp only [Option.some.injEq] at h; subst h
        unfold pduIEs
        rw [pduPresent_eval E e cur _ _ hp, pduMsgIndex_eval E e cur _ _ hm]
        simp only [Option.bind_some]
        rw [eval_at E e cur _ tm _ hl]
        simp [eval, evalL_eq]
      · simp at h

/-! ### one protocol IE -/

/-- (IE id, criticality) of a skeleton IE, if both are literal -/
def Tm.ieHeader (ie : Tm) : Option (Int × Nat) :=
  match Tm.at [0, 0] ie, Tm.at [1, 0] ie with
  | some (.int id), some (.enum c) => some (id, c)
  | _, _ => none

theorem ieHeader_eval (ie : Tm) (h : Int × Nat) (hh : Tm.ieHeader ie = some h) :
    ieHeader (eval E e cur ie) = some h := by
  unfold Tm.ieHeader at hh
  split at hh
  · rename_i id c h0 h1
    simp only [Option.some.injEq] at hh; subst hh
    unfold ieHeader
    rw [eval_at E e cur _ ie _ h0, eval_at E e cur _ ie _ h1]
    rfl
  · simp at hh

/-- the pointee of the present alternative of a skeleton IE's value -/
def Tm.ieValue (ie : Tm) : Option Tm :=
  match Tm.intAt [2, 0] ie with
  | some k => Tm.at [2, k.toNat, 0] ie
  | none => none

theorem ieValue_eval (ie v : Tm) (h : Tm.ieValue ie = some v) :
    ieValue (eval E e cur ie) = some (eval E e cur v) := by
  unfold Tm.ieValue at h
  cases hk : Tm.intAt [2, 0] ie with
  | none => simp [hk] at h
  | some k =>
    simp only [hk] at h
    unfold ieValue
    rw [intAt_eval E e cur _ _ _ hk]
    exact eval_at E e cur _ ie _ h

/-- all IE headers of a skeleton, `none` unless every header is literal -/
def Tm.headers (t : Tm) : Option (List (Int × Nat)) :=
  (Tm.pduIEs t).bind fun l => l.mapM Tm.ieHeader

theorem mapM_ieHeader_eval : ∀ (l : List Tm) (hs : List (Int × Nat)), l.mapM Tm.ieHeader = some hs →
    (l.map (eval E e cur)).map ieHeader = hs.map some := by
  intro l
  induction l with
  | nil => intro hs h; simp at h; subst h; rfl
  | cons ie rest ih =>
    intro hs h
    rw [List.mapM_cons] at h
    cases hh : Tm.ieHeader ie with
    | none => simp [hh] at h
    | some hd =>
      cases hr : rest.mapM Tm.ieHeader with
      | none => simp [hh, hr] at h
      | some tl =>
        simp [hh, hr] at h
        subst h
        simp [ieHeader_eval E e cur ie hd hh, ih tl hr]

/-- **headers lemma**: the (id, criticality) list of the built PDU is the skeleton's -/
theorem headers_eval (tm : Tm) (hs : List (Int × Nat)) (h : Tm.headers tm = some hs) :
    headers (eval E e cur tm) = some (hs.map some) := by
  unfold Tm.headers at h
  cases hl : Tm.pduIEs tm with
  | none => simp [hl] at h
  | some l =>
    simp only [hl, Option.bind_some] at h
    unfold headers
    rw [pduIEs_eval E e cur _ _ hl]
    simp only [Option.map_some]
    rw [mapM_ieHeader_eval E e cur l hs h]

/-- the skeleton IEs with a given id (requires literal headers: see `Tm.headers`) -/
def Tm.iesById (t : Tm) (id : Int) : Option (List Tm) :=
  (Tm.pduIEs t).map fun l => l.filter fun ie => hasId id (Tm.ieHeader ie)

theorem filter_byId_eval (id : Int) : ∀ (l : List Tm) (hs : List (Int × Nat)), l.mapM Tm.ieHeader = some hs →
    (l.map (eval E e cur)).filter (fun ie => hasId id (ieHeader ie))
      = (l.filter fun ie => hasId id (Tm.ieHeader ie)).map (eval E e cur) := by
  intro l
  induction l with
  | nil => intro hs _; rfl
  | cons ie rest ih =>
    intro hs h
    rw [List.mapM_cons] at h
    cases hh : Tm.ieHeader ie with
    | none => simp [hh] at h
    | some hd =>
      cases hr : rest.mapM Tm.ieHeader with
      | none => simp [hh, hr] at h
      | some tl =>
        have hev := ieHeader_eval E e cur ie hd hh
        simp only [List.map_cons, List.filter_cons, hev, hh]
        split
        · simp only [List.map_cons]; rw [ih tl hr]
        · exact ih tl hr

/-- **IE value lemma**: the values of the IEs with id `id` in the built PDU are the evaluated skeleton values -/
theorem ieValuesById_eval (tm : Tm) (id : Int) (hs : List (Int × Nat)) (hh : Tm.headers tm = some hs)
    (ies : List Tm) (hi : Tm.iesById tm id = some ies) (vs : List Tm) (hv : ies.mapM Tm.ieValue = some vs) :
    ieValuesById (eval E e cur tm) id = some (vs.map fun v => some (eval E e cur v)) := by
  unfold Tm.headers at hh
  unfold Tm.iesById at hi
  cases hl : Tm.pduIEs tm with
  | none => simp [hl] at hh
  | some l =>
    simp only [hl, Option.bind_some] at hh
    simp only [hl, Option.map_some, Option.some.injEq] at hi
    unfold ieValuesById
    rw [pduIEs_eval E e cur _ _ hl]
    simp only [Option.map_some]
    rw [filter_byId_eval E e cur id l hs hh, hi]
    congr 1
    clear hi hh hl
    induction ies generalizing vs with
    | nil => simp at hv; subst hv; rfl
    | cons ie rest ih =>
      rw [List.mapM_cons] at hv
      cases h1 : Tm.ieValue ie with
      | none => simp [h1] at hv
      | some v =>
        cases h2 : rest.mapM Tm.ieValue with
        | none => simp [h1, h2] at hv
        | some tl =>
          simp [h1, h2] at hv
          subst hv
          simp [ieValue_eval E e cur ie v h1, ih tl h2]

/-! ### what `build` returns -/

/-- a successful `build` returns the evaluation of the skeleton of one of the template's cases, and every nested
    encoding of that skeleton succeeded -/
theorem build_ok (t : Template) (plmn : Bytes) (args : List Val) (pdu : Val) (h : build E t plmn args = .ok pdu) :
    ∃ c ∈ t.cases, ∃ tm, c.cls = classes E t (effEnv t plmn args) ∧ c.out = .val tm ∧
      encOutcome E (effEnv t plmn args) .nil tm = none ∧ pdu = eval E (effEnv t plmn args) .nil tm := by
  unfold build at h
  simp only at h
  cases hf : t.cases.find? (fun c => c.cls == classes E t (effEnv t plmn args)) with
  | none => simp [hf] at h
  | some c =>
    simp only [hf] at h
    have hmem : c ∈ t.cases := List.mem_of_find?_eq_some hf
    have hcls : c.cls = classes E t (effEnv t plmn args) := by
      have := List.find?_some hf
      simpa using this
    cases hout : c.out with
    | panic => simp [hout] at h
    | exit => simp [hout] at h
    | val tm =>
      simp only [hout] at h
      cases henc : encOutcome E (effEnv t plmn args) .nil tm with
      | some x => simp [henc] at h
      | none =>
        simp only [henc, Except.ok.injEq] at h
        exact ⟨c, hmem, tm, hcls, hout, henc, h.symm⟩


/-! ### skeleton-side checks (closed data: evaluated by the kernel in Props/C13.lean) and what they imply -/

/-- the skeletons of a template: one per class of arguments under which the builder returns a PDU -/
def skeletons (t : Template) : List Tm :=
  t.cases.filterMap fun c => match c.out with | .val tm => some tm | _ => none

theorem build_ok_skeleton (t : Template) (plmn : Bytes) (args : List Val) (pdu : Val) (h : build E t plmn args = .ok pdu) :
    ∃ tm ∈ skeletons t, encOutcome E (effEnv t plmn args) .nil tm = none ∧ pdu = eval E (effEnv t plmn args) .nil tm := by
  obtain ⟨c, hc, tm, _, hout, henc, hp⟩ := build_ok E t plmn args pdu h
  refine ⟨tm, ?_, henc, hp⟩
  unfold skeletons
  rw [List.mem_filterMap]
  exact ⟨c, hc, by rw [hout]⟩

/-- `pdu` is the evaluation of one of the template's skeletons (what a successful `build` returns, and what the two
    wrappers that modify the built PDU hand to the encoder) -/
def Shaped (t : Template) (plmn : Bytes) (args : List Val) (pdu : Val) : Prop :=
  ∃ tm ∈ skeletons t, pdu = eval E (effEnv t plmn args) .nil tm

theorem build_shaped (t : Template) (plmn : Bytes) (args : List Val) (pdu : Val) (h : build E t plmn args = .ok pdu) :
    Shaped E t plmn args pdu := by
  obtain ⟨tm, htm, _, hp⟩ := build_ok_skeleton E t plmn args pdu h
  exact ⟨tm, htm, hp⟩

/-- every template of the builder table together with the two skeletons the wrapper surgery produces -/
def allTable : List Template := table ++ [tGetNGSetupRequest, tGetPathSwitchRequest]

open Spec.Ts38413 in
/-- procedure code and message class of every skeleton are the row of TS 38.413 clause 9.4.3 -/
def classOK (t : Template) : Bool :=
  (skeletons t).all fun tm =>
    decide (Tm.pduPresent tm = some ((msgClass t.message).index + 1)) && decide (Tm.pduProc tm = some (procCode t.message : Int))

open Spec.Ts38413 in
/-- every mandatory IE of the message's table is in every skeleton, with the table's criticality -/
def mandOK (t : Template) : Bool :=
  match mandatory t.message with
  | none => true
  | some ms =>
    (skeletons t).all fun tm =>
      match Tm.headers tm with
      | some hs => ms.all fun m => hs.contains ((m.1 : Int), m.2)
      | none => false


/-! ### carrying an argument -/

/-- the IE with id `id` occurs exactly once and, at position `path` of its value, the skeleton has the hole `h` -/
def carriesHole (tm : Tm) (id : Int) (path : List Nat) (h : Hole) : Bool :=
  match Tm.headers tm, Tm.iesById tm id with
  | some _, some [ie] =>
    match Tm.ieValue ie with
    | some v =>
      match Tm.at path v with
      | some (.hole h') => h' == h
      | _ => false
    | none => false
  | _, _ => false

/-- **carrier lemma**: then the built PDU has exactly one IE with that id, and at that position of its value stands
    what the hole evaluates to (the argument) -/
theorem carriesHole_sound (tm : Tm) (id : Int) (path : List Nat) (h : Hole) (hc : carriesHole tm id path h = true) :
    ∃ v, ieValuesById (eval E e cur tm) id = some [some v] ∧ Val.at path v = some (evalHole E e cur h) := by
  unfold carriesHole at hc
  split at hc
  · rename_i hs ie hh hi
    split at hc
    · rename_i v hv
      split at hc
      · rename_i h' hat
        have : h' = h := by simpa using hc
        subst this
        refine ⟨eval E e cur v, ?_, ?_⟩
        · have := ieValuesById_eval E e cur tm id hs hh [ie] hi [v] (by simp [hv])
          simpa using this
        · rw [eval_at E e cur path v _ hat]; simp [eval]
      · simp at hc
    · simp at hc
  · simp at hc

/-- no IE with id `id` -/
def lacksIE (tm : Tm) (id : Int) : Bool :=
  match Tm.headers tm, Tm.iesById tm id with
  | some _, some [] => true
  | _, _ => false

theorem lacksIE_sound (tm : Tm) (id : Int) (hc : lacksIE tm id = true) : ieValuesById (eval E e cur tm) id = some [] := by
  unfold lacksIE at hc
  split at hc
  · rename_i hs hh hi
    have := ieValuesById_eval E e cur tm id hs hh [] hi [] (by simp)
    simpa using this
  · simp at hc

/-- the IE with id `id` occurs once and its value is the list built by ranging over argument `i`:
    `{List: [ {PDUSessionID{x}, nil} for x in arg i ]}` -/
def carriesList (tm : Tm) (id : Int) (i : Nat) : Bool :=
  match Tm.headers tm, Tm.iesById tm id with
  | some _, some [ie] =>
    match Tm.ieValue ie with
    | some (.struct [.mapInts j (.struct [.struct [.hole .elem], .nil])]) => j == i
    | _ => false
  | _, _ => false

theorem carriesList_sound (tm : Tm) (id : Int) (i : Nat) (xs : List Val) (hx : e.arg i = .slice xs)
    (hc : carriesList tm id i = true) :
    ieValuesById (eval E e cur tm) id = some [some (.struct [.slice (xs.map fun x => .struct [.struct [x], .nil])])] := by
  unfold carriesList at hc
  split at hc
  · rename_i hs ie hh hi
    split at hc
    · rename_i j hv
      have : j = i := by simpa using hc
      subst this
      have := ieValuesById_eval E e cur tm id hs hh [ie] hi
        [.struct [.mapInts j (.struct [.struct [.hole .elem], .nil])]] (by simp [hv])
      simp only [List.map_cons, List.map_nil] at this
      rw [this]
      simp [eval, evalL, evalHole, hx]
    · simp at hc
  · simp at hc

/-! ### nested encodings -/

theorem encOutcomeL_none : ∀ (l : List Tm), encOutcomeL E e cur l = none → ∀ x ∈ l, encOutcome E e cur x = none := by
  intro l
  induction l with
  | nil => intro _ x hx; simp at hx
  | cons t ts ih =>
    intro h x hx
    simp only [encOutcomeL] at h
    cases ht : encOutcome E e cur t with
    | some y => simp [ht] at h
    | none =>
      simp only [ht] at h
      rcases List.mem_cons.mp hx with rfl | hmem
      · exact ht
      · exact ih h x hmem

/-- if no nested encoding of a skeleton fails, none fails in a sub-skeleton -/
theorem encOutcome_at : ∀ (p : List Nat) (tm t' : Tm), encOutcome E e cur tm = none → Tm.at p tm = some t' →
    encOutcome E e cur t' = none := by
  intro p
  induction p with
  | nil => intro tm t' h hat; simp only [Tm.at, Option.some.injEq] at hat; subst hat; exact h
  | cons i p ih =>
    intro tm t' h hat
    cases tm with
    | struct fs =>
      simp only [Tm.at] at hat
      cases hfi : fs[i]? with
      | none => simp [hfi] at hat
      | some x =>
        simp only [hfi] at hat
        simp only [encOutcome] at h
        exact ih x t' (encOutcomeL_none E e cur fs h x (List.mem_of_getElem? hfi)) hat
    | slice fs =>
      simp only [Tm.at] at hat
      cases hfi : fs[i]? with
      | none => simp [hfi] at hat
      | some x =>
        simp only [hfi] at hat
        simp only [encOutcome] at h
        exact ih x t' (encOutcomeL_none E e cur fs h x (List.mem_of_getElem? hfi)) hat
    | ptr x =>
      cases i with
      | zero => simp only [Tm.at] at hat; simp only [encOutcome] at h; exact ih x t' h hat
      | succ n => simp [Tm.at] at hat
    | _ => simp [Tm.at] at hat

/-- a nested encoding that did not fail produced the octets the skeleton evaluates to -/
theorem enc_ok (ty : Nat) (inner : Tm) (h : encOutcome E e cur (.enc ty inner) = none) :
    ∃ b, marshalTransfer ty (eval E e cur inner) = .ok b ∧ eval E e cur (.enc ty inner) = .octs b := by
  simp only [encOutcome] at h
  cases hi : encOutcome E e cur inner with
  | some x => simp [hi] at h
  | none =>
    simp only [hi] at h
    cases hm : marshalTransfer ty (eval E e cur inner) with
    | ok b => exact ⟨b, rfl, by simp [eval, hm]⟩
    | error x => cases x <;> simp [hm] at h

/-- the IE with id `id` occurs once; at `path` of its value sits the encoding of a value of struct type `ty`, and at
    `innerPath` of that value the skeleton has the hole `h` -/
def carriesEnc (tm : Tm) (id : Int) (path : List Nat) (ty : Nat) (innerPath : List Nat) (h : Hole) : Bool :=
  match Tm.headers tm, Tm.pduIEs tm, Tm.iesById tm id with
  | some _, some _, some [ie] =>
    match Tm.ieValue ie with
    | some v =>
      match Tm.at path v with
      | some (.enc ty' inner) =>
        ty' == ty &&
        (match Tm.at innerPath inner with
         | some (.hole h') => h' == h
         | _ => false)
      | _ => false
    | none => false
  | _, _, _ => false

theorem mem_of_iesById (tm : Tm) (id : Int) (l ies : List Tm) (hl : Tm.pduIEs tm = some l) (hi : Tm.iesById tm id = some ies) :
    ∀ ie ∈ ies, ie ∈ l := by
  unfold Tm.iesById at hi
  simp only [hl, Option.map_some, Option.some.injEq] at hi
  intro ie hie
  rw [← hi] at hie
  exact (List.mem_filter.mp hie).1

theorem encOutcome_ies (tm : Tm) (l : List Tm) (hl : Tm.pduIEs tm = some l) (h : encOutcome E e cur tm = none) :
    ∀ ie ∈ l, encOutcome E e cur ie = none := by
  unfold Tm.pduIEs at hl
  cases hp : Tm.pduPresent tm with
  | none => simp [hp] at hl
  | some p =>
    simp only [hp, Option.bind_some] at hl
    cases hm : Tm.pduMsgIndex tm with
    | none => simp [hm] at hl
    | some m =>
      simp only [hm, Option.bind_some] at hl
      split at hl
      · rename_i l' hat
        simp only [Option.some.injEq] at hl; subst hl
        have := encOutcome_at E e cur _ tm _ h hat
        simp only [encOutcome] at this
        exact encOutcomeL_none E e cur l' this
      · simp at hl

/-- **nested carrier lemma**: then the built PDU has exactly one IE with that id; at `path` of its value stand the octets
    `b` that the encoder model produces ("valueExt") for a value `w` of type `ty`, and `w` has the argument at `innerPath` -/
theorem carriesEnc_sound (tm : Tm) (id : Int) (path : List Nat) (ty : Nat) (innerPath : List Nat) (h : Hole)
    (hc : carriesEnc tm id path ty innerPath h = true) (henc : encOutcome E e cur tm = none) :
    ∃ v b w, ieValuesById (eval E e cur tm) id = some [some v] ∧ Val.at path v = some (.octs b) ∧
      marshalTransfer ty w = .ok b ∧ Val.at innerPath w = some (evalHole E e cur h) := by
  unfold carriesEnc at hc
  split at hc
  · rename_i hs l ie hh hl hi
    split at hc
    · rename_i v hv
      split at hc
      · rename_i ty' inner hat
        simp only [Bool.and_eq_true, beq_iff_eq] at hc
        obtain ⟨hty, hc⟩ := hc
        subst hty
        split at hc
        · rename_i h' hin
          have : h' = h := by simpa using hc
          subst this
          have hie : encOutcome E e cur ie = none :=
            encOutcome_ies E e cur tm l hl henc ie (mem_of_iesById tm id l [ie] hl hi ie (by simp))
          have hvv : encOutcome E e cur v = none := by
            unfold Tm.ieValue at hv
            cases hk : Tm.intAt [2, 0] ie with
            | none => simp [hk] at hv
            | some k => simp only [hk] at hv; exact encOutcome_at E e cur _ ie v hie hv
          have hen : encOutcome E e cur (.enc ty' inner) = none := encOutcome_at E e cur path v _ hvv hat
          obtain ⟨b, hm, hev⟩ := enc_ok E e cur ty' inner hen
          refine ⟨eval E e cur v, b, eval E e cur inner, ?_, ?_, hm, ?_⟩
          · have := ieValuesById_eval E e cur tm id hs hh [ie] hi [v] (by simp [hv])
            simpa using this
          · rw [eval_at E e cur path v _ hat, hev]
          · rw [eval_at E e cur innerPath inner _ hin]; simp [eval]
        · simp at hc
      · simp at hc
    · simp at hc
  · simp at hc


/-! ### role-driven table checks -/

/-- position of the (first) parameter with role `r` -/
def roleIdx (t : Template) (r : Role) : Option Nat := t.roles.findIdx? (fun x => x == r)

open Spec.Ts38413 in
def amfOK (t : Template) : Bool :=
  match roleIdx t .amf with
  | some i => (skeletons t).all fun tm => carriesHole tm (amfIe t.message) [0] (.arg i)
  | none => true

open Spec.Ts38413 in
def ranOK (t : Template) : Bool :=
  match roleIdx t .ran with
  | some i => (skeletons t).all fun tm => carriesHole tm ieRANUENGAPID [0] (.arg i)
  | none => true

open Spec.Ts38413 in
/-- NAS-PDU: carried; where the builder tests the argument (`i ∈ dims`) the IE may instead be absent -/
def nasOK (t : Template) : Bool :=
  match roleIdx t .nas with
  | some i => (skeletons t).all fun tm =>
      carriesHole tm ieNASPDU [0] (.argOcts i) || (t.dims.contains i && lacksIE tm ieNASPDU)
  | none => true

open Spec.Ts38413 in
def psiOK (t : Template) : Bool :=
  match roleIdx t .psi, psiItemIe t.message with
  | some i, some id => (skeletons t).all fun tm => carriesHole tm id [0, 0, 0, 0] (.arg i)
  | some _, none => false
  | none, _ => true

open Spec.Ts38413 in
/-- PDU session id list: the builder tests `list != nil` (the only dimension): absent for nil, carried otherwise -/
def psiListOK (t : Template) : Bool :=
  match roleIdx t .psilist, psiListIe t.message with
  | some i, some id =>
    t.dims == [i] && roleAt t i == .psilist && t.cases.all fun c =>
      match c.out with
      | .val tm => if c.cls == [0] then lacksIE tm id else carriesList tm id i
      | _ => false
  | some _, none => false
  | none, _ => true

open Spec.Ts38413 in
def nameOK (t : Template) : Bool :=
  match roleIdx t .name with
  | some i => (skeletons t).all fun tm => carriesHole tm ieRANNodeName [0] (.argStr i)
  | none => true

open Spec.Ts38413 in
/-- gNB id: with its bit length in the Global RAN Node ID of NG SETUP REQUEST; as whole octets in the Target ID of
    HANDOVER REQUIRED, and together with the cell id in the NR CGI of the source-to-target container (struct 1413) -/
def gnbOK (t : Template) : Bool :=
  match roleIdx t .gnbid, roleIdx t .bitlen, roleIdx t .cellid with
  | some i, some j, none => (skeletons t).all fun tm => carriesHole tm ieGlobalRANNodeID [1, 0, 1, 1, 0] (.bitsLen i j)
  | some i, none, some j => (skeletons t).all fun tm =>
      carriesHole tm ieTargetID [1, 0, 0, 1, 0, 1, 1, 0] (.bits8 i)
      && carriesEnc tm ieSourceToTargetTransparentContainer [0] 1413 [3, 1, 0, 1, 0] (.cell36 i j)
  | none, none, none => true
  | _, _, _ => false

open Spec.Ts38413 in
/-- GTP transport address: in the PDUSessionResourceSetupResponseTransfer (struct 1360) of the first item of the setup list -/
def ipOK (t : Template) : Bool :=
  match roleIdx t .ip, psiItemIe t.message with
  | some i, some id => (skeletons t).all fun tm => carriesEnc tm id [0, 0, 1] 1360 [0, 0, 1, 0, 0, 0] (.ip4 i)
  | some _, none => false
  | none, _ => true


/-! ### PLMN positions: a traversal of the skeleton directed by the schema types -/

/-- index of `PLMNIdentity` in the schema (re-checked by name in Props/C13.lean) -/
def plmnTy : Nat := 3

/-- a site that can never pass the check (type mismatch between skeleton and schema, fuel exhausted) -/
def badSite : List Nat × Bool × Tm := ([], false, .nil)

/-- every position of the skeleton whose schema type is `PLMNIdentity`, as (position, nested?, sub-skeleton).
    Caller-supplied values (holes at struct / pointer / list level) are not entered. `nested` = the position lies inside a
    nested encoding or a per-item template, where positions of the outer value do not reach. -/
def plmnSites (env : List StructDef) : Nat → Ty → Tm → List Nat → Bool → List (List Nat × Bool × Tm)
  | 0, _, _, _, _ => [badSite]
  | f + 1, ty, tm, p, n =>
    match ty, tm with
    | .ptr t, .ptr x => plmnSites env f t x (p ++ [0]) n
    | .ptr _, .nil => []
    | .ptr _, .hole _ => []
    | .ptr _, _ => [badSite]
    | .slice t, .slice xs => (xs.zipIdx).flatMap fun xk => plmnSites env f t xk.1 (p ++ [xk.2]) n
    | .slice t, .mapInts _ item => plmnSites env f t item p true
    | .slice _, .hole _ => []
    | .slice _, _ => [badSite]
    | .struct id, x =>
      if id = plmnTy then [(p, n, x)]
      else
        match x with
        | .struct fs =>
          match env[id]? with
          | some sd =>
            if sd.fields.length = fs.length then
              ((sd.fields.zip fs).zipIdx).flatMap fun fk => plmnSites env f fk.1.1.ty fk.1.2 (p ++ [fk.2]) n
            else [badSite]
          | none => [badSite]
        | .hole _ => []
        | _ => [badSite]
    | .octs, .enc ty t => plmnSites env f (.struct ty) t p true
    | _, _ => []

def isPlmnT : Tm → Bool
  | .struct [.hole .plmn] => true
  | _ => false

theorem isPlmnT_eval (s : Tm) (h : isPlmnT s = true) : eval E e cur s = .struct [.octs e.plmn] := by
  unfold isPlmnT at h
  split at h
  · simp [eval, evalL, evalHole]
  · simp at h

/-- the fuel of the traversal (skeletons are far shallower) -/
def siteFuel : Nat := 64

def sitesOf (tm : Tm) : List (List Nat × Bool × Tm) :=
  plmnSites Gen.Ngap.schema siteFuel (.struct Gen.Ngap.pduId) tm [] false

/-- every PLMNIdentity-typed position of every skeleton holds `TestPlmn`; positions outside nested encodings are also
    positions of `Tm.at` -/
def plmnOK (t : Template) : Bool :=
  (skeletons t).all fun tm =>
    (sitesOf tm).all fun site =>
      isPlmnT site.2.2 && (site.2.1 || (match Tm.at site.1 tm with | some s' => isPlmnT s' | none => false))

end Stgutg.Proofs.Builders
