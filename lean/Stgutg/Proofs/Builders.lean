/-
  C13 helper lemmas: what the IE walker (Spec/NgapView.lean) finds in `eval tm` is what the skeleton `tm` shows at the
  same position, with holes filled. All skeleton-side functions (`Tm.…`) compute on closed data, so the table facts of
  Props/C13.lean are kernel evaluations.
-/
import Stgutg.Model.Builders
import Stgutg.Spec.NgapView

namespace Stgutg.Proofs.Builders
open Stgutg Stgutg.Aper Stgutg.Builders Stgutg.Spec.NgapView Stgutg.Model.Convert

variable (E : Ext) (e : BEnv) (cur : Val)

theorem evalL_eq (l : List Tm) : evalL E e cur l = l.map (eval E e cur) := by
  induction l with
  | nil => rfl
  | cons t ts ih => simp [evalL, ih]

/-- the sub-skeleton at a position (through structs, lists and pointers only) -/
def Tm.at : List Nat → Tm → Option Tm
  | [], t => some t
  | i :: p, .struct fs =>
    match fs[i]? with
    | some x => Tm.at p x
    | none => none
  | i :: p, .slice fs =>
    match fs[i]? with
    | some x => Tm.at p x
    | none => none
  | 0 :: p, .ptr x => Tm.at p x
  | _, _ => none

/-- **position lemma**: evaluation commutes with taking the sub-term at a position -/
theorem eval_at : ∀ (p : List Nat) (tm t' : Tm), Tm.at p tm = some t' →
    Val.at p (eval E e cur tm) = some (eval E e cur t') := by
  intro p
  induction p with
  | nil =>
    intro tm t' h
    simp only [Tm.at, Option.some.injEq] at h
    subst h; rfl
  | cons i p ih =>
    intro tm t' h
    cases tm with
    | struct fs =>
      simp only [Tm.at] at h
      simp only [eval, evalL_eq, Val.at, List.getElem?_map]
      cases hfi : fs[i]? with
      | none => simp [hfi] at h
      | some t => simp only [hfi] at h; simp only [Option.map_some]; exact ih t t' h
    | slice fs =>
      simp only [Tm.at] at h
      simp only [eval, evalL_eq, Val.at, List.getElem?_map]
      cases hfi : fs[i]? with
      | none => simp [hfi] at h
      | some t => simp only [hfi] at h; simp only [Option.map_some]; exact ih t t' h
    | ptr t =>
      cases i with
      | zero => simp only [Tm.at] at h; simp only [eval, Val.at]; exact ih t t' h
      | succ n => simp [Tm.at] at h
    | _ => simp [Tm.at] at h

/-! ### header of the PDU -/

def Tm.intAt (p : List Nat) (t : Tm) : Option Int :=
  match Tm.at p t with
  | some (.int n) => some n
  | _ => none

theorem intAt_eval (p : List Nat) (tm : Tm) (n : Int) (h : Tm.intAt p tm = some n) :
    intAt p (eval E e cur tm) = some n := by
  unfold Tm.intAt at h
  split at h
  · rename_i m hm
    simp only [Option.some.injEq] at h; subst h
    unfold intAt
    rw [eval_at E e cur p tm _ hm]
    rfl
  · simp at h

def Tm.pduPresent (t : Tm) : Option Nat := (Tm.intAt [0] t).map Int.toNat
def Tm.pduProc (t : Tm) : Option Int := (Tm.pduPresent t).bind fun p => Tm.intAt [p, 0, 0, 0] t
def Tm.pduMsgIndex (t : Tm) : Option Nat := (Tm.pduPresent t).bind fun p => (Tm.intAt [p, 0, 2, 0] t).map Int.toNat
def Tm.pduIEs (t : Tm) : Option (List Tm) :=
  (Tm.pduPresent t).bind fun p => (Tm.pduMsgIndex t).bind fun m =>
    match Tm.at [p, 0, 2, m, 0, 0, 0] t with
    | some (.slice l) => some l
    | _ => none

theorem pduPresent_eval (tm : Tm) (p : Nat) (h : Tm.pduPresent tm = some p) : pduPresent (eval E e cur tm) = some p := by
  unfold Tm.pduPresent at h
  cases hi : Tm.intAt [0] tm with
  | none => simp [hi] at h
  | some n =>
    simp only [hi, Option.map_some, Option.some.injEq] at h
    unfold pduPresent
    rw [intAt_eval E e cur _ _ _ hi]
    simp [h]

theorem pduProc_eval (tm : Tm) (c : Int) (h : Tm.pduProc tm = some c) : pduProc (eval E e cur tm) = some c := by
  unfold Tm.pduProc at h
  cases hp : Tm.pduPresent tm with
  | none => simp [hp] at h
  | some p =>
    simp only [hp, Option.bind_some] at h
    unfold pduProc
    rw [pduPresent_eval E e cur _ _ hp]
    simp only [Option.bind_some]
    exact intAt_eval E e cur _ _ _ h

theorem pduMsgIndex_eval (tm : Tm) (m : Nat) (h : Tm.pduMsgIndex tm = some m) : pduMsgIndex (eval E e cur tm) = some m := by
  unfold Tm.pduMsgIndex at h
  cases hp : Tm.pduPresent tm with
  | none => simp [hp] at h
  | some p =>
    simp only [hp, Option.bind_some] at h
    cases hi : Tm.intAt [p, 0, 2, 0] tm with
    | none => simp [hi] at h
    | some n =>
      simp only [hi, Option.map_some, Option.some.injEq] at h
      unfold pduMsgIndex
      rw [pduPresent_eval E e cur _ _ hp]
      simp only [Option.bind_some]
      rw [intAt_eval E e cur _ _ _ hi]
      simp [h]

theorem pduIEs_eval (tm : Tm) (l : List Tm) (h : Tm.pduIEs tm = some l) :
    pduIEs (eval E e cur tm) = some (l.map (eval E e cur)) := by
  unfold Tm.pduIEs at h
  cases hp : Tm.pduPresent tm with
  | none => simp [hp] at h
  | some p =>
    simp only [hp, Option.bind_some] at h
    cases hm : Tm.pduMsgIndex tm with
    | none => simp [hm] at h
    | some m =>
      simp only [hm, Option.bind_some] at h
      split at h
      · rename_i l' hl
        simp only [Option.some.injEq] at h; subst h
        unfold pduIEs
        rw [pduPresent_eval E e cur _ _ hp, pduMsgIndex_eval E e cur _ _ hm]
        simp only [Option.bind_some]
        rw [eval_at E e cur _ tm _ hl]
        simp [eval, evalL_eq]
      · simp at h

/-! ### one protocol IE -/

/-- (IE id, criticality) of a skeleton IE, if both are literal -/
def Tm.ieHeader (ie : Tm) : Option (Int × Nat) :=
  match Tm.at [0, 0] ie, Tm.at [1, 0] ie with
  | some (.int id), some (.enum c) => some (id, c)
  | _, _ => none

theorem ieHeader_eval (ie : Tm) (h : Int × Nat) (hh : Tm.ieHeader ie = some h) :
    ieHeader (eval E e cur ie) = some h := by
  unfold Tm.ieHeader at hh
  split at hh
  · rename_i id c h0 h1
    simp only [Option.some.injEq] at hh; subst hh
    unfold ieHeader
    rw [eval_at E e cur _ ie _ h0, eval_at E e cur _ ie _ h1]
    rfl
  · simp at hh

/-- the pointee of the present alternative of a skeleton IE's value -/
def Tm.ieValue (ie : Tm) : Option Tm :=
  match Tm.intAt [2, 0] ie with
  | some k => Tm.at [2, k.toNat, 0] ie
  | none => none

theorem ieValue_eval (ie v : Tm) (h : Tm.ieValue ie = some v) :
    ieValue (eval E e cur ie) = some (eval E e cur v) := by
  unfold Tm.ieValue at h
  cases hk : Tm.intAt [2, 0] ie with
  | none => simp [hk] at h
  | some k =>
    simp only [hk] at h
    unfold ieValue
    rw [intAt_eval E e cur _ _ _ hk]
    exact eval_at E e cur _ ie _ h

/-- all IE headers of a skeleton, `none` unless every header is literal -/
def Tm.headers (t : Tm) : Option (List (Int × Nat)) :=
  (Tm.pduIEs t).bind fun l => l.mapM Tm.ieHeader

theorem mapM_ieHeader_eval : ∀ (l : List Tm) (hs : List (Int × Nat)), l.mapM Tm.ieHeader = some hs →
    (l.map (eval E e cur)).map ieHeader = hs.map some := by
  intro l
  induction l with
  | nil => intro hs h; simp at h; subst h; rfl
  | cons ie rest ih =>
    intro hs h
    rw [List.mapM_cons] at h
    cases hh : Tm.ieHeader ie with
    | none => simp [hh] at h
    | some hd =>
      cases hr : rest.mapM Tm.ieHeader with
      | none => simp [hh, hr] at h
      | some tl =>
        simp [hh, hr] at h
        subst h
        simp [ieHeader_eval E e cur ie hd hh, ih tl hr]

/-- **headers lemma**: the (id, criticality) list of the built PDU is the skeleton's -/
theorem headers_eval (tm : Tm) (hs : List (Int × Nat)) (h : Tm.headers tm = some hs) :
    headers (eval E e cur tm) = some (hs.map some) := by
  unfold Tm.headers at h
  cases hl : Tm.pduIEs tm with
  | none => simp [hl] at h
  | some l =>
    simp only [hl, Option.bind_some] at h
    unfold headers
    rw [pduIEs_eval E e cur _ _ hl]
    simp only [Option.map_some]
    rw [mapM_ieHeader_eval E e cur l hs h]

/-- the skeleton IEs with a given id (requires literal headers: see `Tm.headers`) -/
def Tm.iesById (t : Tm) (id : Int) : Option (List Tm) :=
  (Tm.pduIEs t).map fun l => l.filter fun ie => hasId id (Tm.ieHeader ie)

theorem filter_byId_eval (id : Int) : ∀ (l : List Tm) (hs : List (Int × Nat)), l.mapM Tm.ieHeader = some hs →
    (l.map (eval E e cur)).filter (fun ie => hasId id (ieHeader ie))
      = (l.filter fun ie => hasId id (Tm.ieHeader ie)).map (eval E e cur) := by
  intro l
  induction l with
  | nil => intro hs _; rfl
  | cons ie rest ih =>
    intro hs h
    rw [List.mapM_cons] at h
    cases hh : Tm.ieHeader ie with
    | none => simp [hh] at h
    | some hd =>
      cases hr : rest.mapM Tm.ieHeader with
      | none => simp [hh, hr] at h
      | some tl =>
        have hev := ieHeader_eval E e cur ie hd hh
        simp only [List.map_cons, List.filter_cons, hev, hh]
        split
        · simp only [List.map_cons]; rw [ih tl hr]
        · exact ih tl hr

/-- **IE value lemma**: the values of the IEs with id `id` in the built PDU are the evaluated skeleton values -/
theorem ieValuesById_eval (tm : Tm) (id : Int) (hs : List (Int × Nat)) (hh : Tm.headers tm = some hs)
    (ies : List Tm) (hi : Tm.iesById tm id = some ies) (vs : List Tm) (hv : ies.mapM Tm.ieValue = some vs) :
    ieValuesById (eval E e cur tm) id = some (vs.map fun v => some (eval E e cur v)) := by
  unfold Tm.headers at hh
  unfold Tm.iesById at hi
  cases hl : Tm.pduIEs tm with
  | none => simp [hl] at hh
  | some l =>
    simp only [hl, Option.bind_some] at hh
    simp only [hl, Option.map_some, Option.some.injEq] at hi
    unfold ieValuesById
    rw [pduIEs_eval E e cur _ _ hl]
    simp only [Option.map_some]
    rw [filter_byId_eval E e cur id l hs hh, hi]
    congr 1
    clear hi hh hl
    induction ies generalizing vs with
    | nil => simp at hv; subst hv; rfl
    | cons ie rest ih =>
      rw [List.mapM_cons] at hv
      cases h1 : Tm.ieValue ie with
      | none => simp [h1] at hv
      | some v =>
        cases h2 : rest.mapM Tm.ieValue with
        | none => simp [h1, h2] at hv
        | some tl =>
          simp [h1, h2] at hv
          subst hv
          simp [ieValue_eval E e cur ie v h1, ih tl h2]

/-! ### what `build` returns -/

/-- a successful `build` returns the evaluation of the skeleton of one of the template's cases, and every nested
    encoding of that skeleton succeeded -/
theorem build_ok (t : Template) (plmn : Bytes) (args : List Val) (pdu : Val) (h : build E t plmn args = .ok pdu) :
    ∃ c ∈ t.cases, ∃ tm, c.out = .val tm ∧ encOutcome E (effEnv t plmn args) .nil tm = none ∧
      pdu = eval E (effEnv t plmn args) .nil tm := by
  unfold build at h
  simp only at h
  cases hf : t.cases.find? (fun c => c.cls == classes E t (effEnv t plmn args)) with
  | none => simp [hf] at h
  | some c =>
    simp only [hf] at h
    have hmem : c ∈ t.cases := List.mem_of_find?_eq_some hf
    cases hout : c.out with
    | panic => simp [hout] at h
    | exit => simp [hout] at h
    | val tm =>
      simp only [hout] at h
      cases henc : encOutcome E (effEnv t plmn args) .nil tm with
      | some x => simp [henc] at h
      | none =>
        simp only [henc, Except.ok.injEq] at h
        exact ⟨c, hmem, tm, hout, henc, h.symm⟩

end Stgutg.Proofs.Builders
