/-
  C14 (cost): which decoder steps consume at least one bit when they succeed (so that a SEQUENCE OF that completes
  has at most as many elements as bits it consumed).
-/
import Stgutg.Proofs.AperCostBound

namespace Stgutg.Proofs.AperCost
open Stgutg Stgutg.Aper

theorem MonoD_bind {α β : Type} {m : D α} {f : α → D β} (hm : MonoD m) (hf : ∀ a, MonoD (f a)) : MonoD (m >>= f) := by
  intro r b r' h
  rw [D_bind_apply] at h
  cases hmr : m r with
  | error e => rw [hmr] at h; cases h
  | ok x =>
    obtain ⟨a, r1⟩ := x
    rw [hmr] at h
    have h1 := hm r a r1 hmr
    have h2 := hf a r1 b r' h
    omega

theorem StrictD_bind_l {α β : Type} {m : D α} {f : α → D β} (hm : StrictD m) (hf : ∀ a, MonoD (f a)) :
    StrictD (m >>= f) := by
  intro r b r' h
  rw [D_bind_apply] at h
  cases hmr : m r with
  | error e => rw [hmr] at h; cases h
  | ok x =>
    obtain ⟨a, r1⟩ := x
    rw [hmr] at h
    have h1 := hm r a r1 hmr
    have h2 := hf a r1 b r' h
    omega

theorem StrictD_bind_r {α β : Type} {m : D α} {f : α → D β} (hm : MonoD m) (hf : ∀ a, StrictD (f a)) :
    StrictD (m >>= f) := by
  intro r b r' h
  rw [D_bind_apply] at h
  cases hmr : m r with
  | error e => rw [hmr] at h; cases h
  | ok x =>
    obtain ⟨a, r1⟩ := x
    rw [hmr] at h
    have h1 := hm r a r1 hmr
    have h2 := hf a r1 b r' h
    omega

theorem MonoD_pure {α : Type} (a : α) : MonoD (pure a : D α) := by
  intro r b r' h
  have : (pure a : D α) r = .ok (a, r) := rfl
  rw [this] at h
  simp only [Except.ok.injEq, Prod.mk.injEq] at h
  rw [← h.2]; exact Nat.le_refl _

theorem StrictD_fail {α : Type} (e : Err) : StrictD (D.fail e : D α) := by
  intro r a r' h; simp [D.fail] at h

theorem StrictD_getBits (n : Nat) : StrictD (getBits n) := by
  intro r a r' h
  have := AperTotal.getBits_len n r a r' h
  have hn0 : n ≠ 0 := by
    intro h0
    unfold getBits at h
    simp [h0] at h
  omega

theorem StrictD_getBitsValue (n : Nat) : StrictD (getBitsValue n) := by
  unfold getBitsValue
  exact StrictD_bind_l (StrictD_getBits n) (fun _ => MonoD_pure _)

theorem StrictD_takeOctets (n : Nat) (hn : 1 ≤ n) : StrictD (takeOctets n) := by
  intro r a r' h
  have := AperTotal.takeOctets_len n r a r' h
  omega

theorem StrictD_ite {α : Type} (c : Prop) [Decidable c] {a b : D α} (ha : StrictD a) (hb : StrictD b) :
    StrictD (if c then a else b) := by
  split <;> assumption

theorem StrictD_parseConstraintValue (range : Int) : StrictD (parseConstraintValue range) := by
  unfold parseConstraintValue
  refine StrictD_ite _ (StrictD_ite _ (StrictD_fail _) (StrictD_getBitsValue _)) ?_
  refine StrictD_ite _ (StrictD_bind_r MonoD_align (fun _ => StrictD_getBitsValue 8)) ?_
  exact StrictD_ite _ (StrictD_bind_r MonoD_align (fun _ => StrictD_getBitsValue 16)) (StrictD_fail _)

theorem StrictD_parseLength (sr : Int) : StrictD (parseLength sr) := by
  unfold parseLength
  refine StrictD_ite _ (StrictD_bind_l (StrictD_parseConstraintValue sr) (fun _ => MonoD_pure _)) ?_
  refine StrictD_bind_r MonoD_align (fun _ => ?_)
  refine StrictD_bind_l (StrictD_getBitsValue 8) (fun first => ?_)
  have hgv : MonoD (getBitsValue 8) := MonoD_of_DOK (AperTotal.DOK_getBitsValue 8 (by decide))
  split
  · exact MonoD_pure _
  · split
    · exact MonoD_bind hgv (fun _ => MonoD_pure _)
    · dsimp only
      split
      · intro r a r' h; simp [D.fail] at h
      · exact MonoD_pure _

theorem MonoD_getBit : MonoD (do let b ← getBitsValue 1; pure (b != 0) : D Bool) :=
  MonoD_bind (MonoD_of_DOK (AperTotal.DOK_getBitsValue 1 (by decide))) (fun _ => MonoD_pure _)

theorem StrictD_getBit : StrictD (do let b ← getBitsValue 1; pure (b != 0) : D Bool) :=
  StrictD_bind_l (StrictD_getBitsValue 1) (fun _ => MonoD_pure _)

/-- the extension bits are read whenever the parameters declare them -/
theorem StrictD_extBits (p : Params) (isSlice : Bool)
    (h : p.sizeExt = true ∨ (p.valueExt && !isSlice) = true) : StrictD (extBits p isSlice) := by
  unfold extBits
  rcases h with h | h
  · simp only [h, if_true]
    refine StrictD_bind_l StrictD_getBit (fun se => ?_)
    refine MonoD_bind ?_ (fun _ => MonoD_pure _)
    split
    · exact MonoD_getBit
    · exact MonoD_pure _
  · simp only [h, if_true]
    refine StrictD_bind_r ?_ (fun se => StrictD_bind_l StrictD_getBit (fun _ => MonoD_pure _))
    split
    · exact MonoD_getBit
    · exact MonoD_pure _

/-- (lb, ub, range) of `parseInteger` -/
def intTuple (ext : Bool) (lbP ubP : Option Int) : Int × Int × Int :=
  if ext then (0, -1, -1)
  else match lbP with
    | none => (0, -1, -1)
    | some l => match ubP with
      | none => (l, -1, 0)
      | some u => (l, u, u - l + 1)

/-- the body of `parseInteger` after the bounds are fixed -/
def intBody (lb ub range : Int) : D Int :=
  if range = 1 then pure ub
  else if range ≤ 0 then do
    parseAlignBits
    let lenB ← takeOctets 1
    let rawLength := (lenB.headD 0).toNat
    if rawLength = 0 then D.fail .error else do
    let raw ← getBitsValue (rawLength * 8)
    if range < 0 then
      let signBit : Nat := if rawLength * 8 - 1 < 64 then 2 ^ (rawLength * 8 - 1) else 0
      let valueMask : Nat := (signBit + 2 ^ 64 - 1) % 2 ^ 64
      if raw &&& signBit > 0 then
        pure (wrapInt64 (-(toInt64 ((((2 ^ 64 - 1 - raw) &&& valueMask) + 1) % 2 ^ 64))))
      else pure (wrapInt64 (toInt64 raw + lb))
    else pure (wrapInt64 (toInt64 raw + lb))
  else if range ≤ 65536 then do
    let raw ← parseConstraintValue range
    pure (wrapInt64 ((raw : Int) + lb))
  else do
    let t ← getBitsValue (bitsForRange (rangeByteLen range))
    let rawLength := t + 1
    parseAlignBits
    let raw ← getBitsValue (rawLength * 8)
    pure (wrapInt64 (toInt64 raw + lb))

theorem parseInteger_eq (ext : Bool) (lbP ubP : Option Int) :
    parseInteger ext lbP ubP = intBody (intTuple ext lbP ubP).1 (intTuple ext lbP ubP).2.1 (intTuple ext lbP ubP).2.2 := by
  rfl

theorem intTuple_ne (ext : Bool) (lbP ubP : Option Int)
    (h : ∀ lb ub, lbP = some lb → ubP = some ub → lb ≠ ub) : (intTuple ext lbP ubP).2.2 ≠ 1 := by
  unfold intTuple
  cases ext with
  | true => simp
  | false =>
    cases hl : lbP with
    | none => simp
    | some l =>
      cases hu : ubP with
      | none => simp
      | some u => have := h l u hl hu; simp; omega

theorem StrictD_intBody (lb ub range : Int) (hr : range ≠ 1) : StrictD (intBody lb ub range) := by
  unfold intBody
  simp only [hr, if_false]
  split
  · refine StrictD_bind_r MonoD_align (fun _ => ?_)
    refine StrictD_bind_l (StrictD_takeOctets 1 (Nat.le_refl _)) (fun lenB => ?_)
    split
    · intro r a r' h; simp [D.fail] at h
    · rename_i hraw
      refine MonoD_bind (MonoD_of_DOK (AperTotal.DOK_getBitsValue _ (by omega))) (fun raw => ?_)
      split
      · split
        · split <;> exact MonoD_pure _
        · split <;> exact MonoD_pure _
      · exact MonoD_pure _
  · split
    · exact StrictD_bind_l (StrictD_parseConstraintValue _) (fun _ => MonoD_pure _)
    · refine StrictD_bind_l (StrictD_getBitsValue _) (fun t => ?_)
      refine MonoD_bind MonoD_align (fun _ => ?_)
      exact MonoD_bind (MonoD_of_DOK (AperTotal.DOK_getBitsValue _ (by omega))) (fun _ => MonoD_pure _)

theorem StrictD_parseInteger (ext : Bool) (lbP ubP : Option Int)
    (h : ∀ lb ub, lbP = some lb → ubP = some ub → lb ≠ ub) : StrictD (parseInteger ext lbP ubP) := by
  rw [parseInteger_eq]
  exact StrictD_intBody _ _ _ (intTuple_ne ext lbP ubP h)

theorem StrictD_parseEnumerated (ext : Bool) (lbP ubP : Option Int)
    (h : ∀ lb ub, lbP = some lb → ubP = some ub → lb < ub) : StrictD (parseEnumerated ext lbP ubP) := by
  unfold parseEnumerated
  split
  · exact StrictD_fail _
  · split
    · rename_i lb ub
      have := h lb ub rfl rfl
      dsimp only
      have hr : ub - lb + 1 > 1 := by omega
      simp only [hr, if_true]
      exact StrictD_parseConstraintValue _
    · exact StrictD_fail _

/-! ### instrumented level -/

theorem Strict_lift {α : Type} {m : D α} (h : StrictD m) : Strict (DC.lift m) := fun r a r' hr => h r a r' hr

theorem MonoC_lift {α : Type} {m : D α} (h : MonoD m) : MonoC (DC.lift m) := fun r a r' hr => h r a r' hr

theorem MonoC_pure {α : Type} (a : α) : MonoC (pure a : DC α) := Bnd_toMono (Bnd_pure 0 0 a)

theorem Strict_bind_l {α β : Type} {m : DC α} {f : α → DC β} (hm : Strict m) (hf : ∀ a, MonoC (f a)) :
    Strict (m >>= f) := by
  intro r b r' h
  rw [DC_bind_apply] at h
  rcases hmr : m r with ⟨res, c⟩
  rw [hmr] at h
  cases res with
  | error e => cases h
  | ok x =>
    obtain ⟨a, r1⟩ := x
    dsimp only at h
    have h1 := hm r a r1 (by rw [hmr])
    have h2 := hf a r1 b r' h
    omega

theorem Strict_bind_r {α β : Type} {m : DC α} {f : α → DC β} (hm : MonoC m) (hf : ∀ a, Strict (f a)) :
    Strict (m >>= f) := by
  intro r b r' h
  rw [DC_bind_apply] at h
  rcases hmr : m r with ⟨res, c⟩
  rw [hmr] at h
  cases res with
  | error e => cases h
  | ok x =>
    obtain ⟨a, r1⟩ := x
    dsimp only at h
    have h1 := hm r a r1 (by rw [hmr])
    have h2 := hf a r1 b r' h
    omega

theorem Strict_fail {α : Type} (e : Err) : Strict (DC.fail e : DC α) := by
  intro r a r' h; simp [DC.fail] at h

theorem Strict_ite {α : Type} (c : Prop) [Decidable c] {a b : DC α} (ha : Strict a) (hb : Strict b) :
    Strict (if c then a else b) := by
  split <;> assumption

theorem sizeBounds_fixed_eq (u : Int) (hu : u ≤ 65535) : sizeBounds false (some u) (some u) = (u, u, 1) := by
  unfold sizeBounds
  have h : ¬ u > 65535 := by omega
  simp [h]

/-- a fixed-size OCTET STRING is never read from nothing (size 0 traps in `getBitString`) -/
theorem Strict_parseOctetStringC_fixed (u : Int) (hu : u ≤ 65535) :
    Strict (parseOctetStringC false (some u) (some u)) := by
  unfold parseOctetStringC
  rw [sizeBounds_fixed_eq u hu]
  simp only [if_true]
  split
  · rename_i h2
    exact Strict_bind_r (MonoC_lift MonoD_align) (fun _ => Strict_takeOctetsC _ (by omega))
  · exact Strict_bind_l (Strict_getBitsCopyC _) (fun _ => MonoC_pure _)

theorem Strict_parseBitStringC_fixed (u : Int) (hu : u ≤ 65535) :
    Strict (parseBitStringC false (some u) (some u)) := by
  unfold parseBitStringC
  rw [sizeBounds_fixed_eq u hu]
  simp only [if_true]
  have hcopy : ∀ n, Strict (getBitsCopyC n >>= fun b => (pure (bitsToBytes b, n) : DC (Bytes × Nat))) :=
    fun n => Strict_bind_l (Strict_getBitsCopyC n) (fun _ => MonoC_pure _)
  split
  · refine Strict_bind_r (MonoC_lift MonoD_align) (fun _ => ?_)
    refine Strict_bind_r (Bnd_toMono (Bnd_get 0 0)) (fun r => ?_)
    exact Strict_ite _ (Strict_fail _) (hcopy _)
  · exact hcopy _

end Stgutg.Proofs.AperCost
