/- Helper lemmas: the SNOW 3G model (code shaped, tables from the source) equals the TS 35.216 specification. -/
import Stgutg.Model.Snow3g
import Stgutg.Spec.Snow3g

namespace Stgutg.Proofs.Snow3g
open Stgutg Stgutg.Model.Snow3g

theorem sr_table : Gen.Snow3g.sr = Spec.Snow3g.SRtable := by decide +kernel
theorem sq_table : Gen.Snow3g.sq = Spec.Snow3g.SQtable := by decide +kernel

theorem mulx_eq (v c : UInt8) : mulx v c = Spec.Snow3g.MULx v c := rfl

theorem mulxPow_eq (v : UInt8) (i : Nat) (c : UInt8) : mulxPow v i c = Spec.Snow3g.MULxPOW v i c := by
  induction i with
  | zero => rfl
  | succ n ih => simp [mulxPow, Spec.Snow3g.MULxPOW, ih, mulx_eq]

theorem toNat_and_ff (x : UInt32) : (x &&& 0xff).toNat = x.toUInt8.toNat := by
  simp only [UInt32.toNat_and, UInt32.toNat_toUInt8]
  exact Nat.and_two_pow_sub_one_eq_mod x.toNat 8

theorem look_and_ff (tbl : List Nat) (x : UInt32) :
    look tbl (x &&& 0xff) = UInt8.ofNat (tbl.getD x.toUInt8.toNat 0) := by
  simp only [look, toNat_and_ff]

theorem s1_eq (w : UInt32) : s1 w = Spec.Snow3g.S1 w := by
  simp only [s1, sbox, look_and_ff, sr_table, mulx_eq, Spec.Snow3g.S1, Spec.Snow3g.SR,
    Spec.Snow3g.byte0, Spec.Snow3g.byte1, Spec.Snow3g.byte2, Spec.Snow3g.byte3]
theorem s2_eq (w : UInt32) : s2 w = Spec.Snow3g.S2 w := by
  simp only [s2, sbox, look_and_ff, sq_table, mulx_eq, Spec.Snow3g.S2, Spec.Snow3g.SQ,
    Spec.Snow3g.byte0, Spec.Snow3g.byte1, Spec.Snow3g.byte2, Spec.Snow3g.byte3]

theorem mulAlpha_eq (c : UInt8) : mulAlpha c = Spec.Snow3g.MULα c := by
  simp only [mulAlpha, Spec.Snow3g.MULα, mulxPow_eq]
theorem divAlpha_eq (c : UInt8) : divAlpha c = Spec.Snow3g.DIVα c := by
  simp only [divAlpha, Spec.Snow3g.DIVα, mulxPow_eq]

theorem and_ff_toUInt8 (x : UInt32) : (x &&& 0xff).toUInt8 = x.toUInt8 := by
  apply UInt8.toNat_inj.mp
  rw [UInt32.toNat_toUInt8, toNat_and_ff, UInt32.toNat_toUInt8]
  simp

theorem feedback_eq (st : State) : feedback st = Spec.Snow3g.lfsrV st := by
  simp only [feedback, Spec.Snow3g.lfsrV, mulAlpha_eq, divAlpha_eq, Spec.Snow3g.byte0, Spec.Snow3g.byte3, and_ff_toUInt8]

theorem shiftIn_eq (st : State) (v : UInt32) : shiftIn st v = Spec.Snow3g.shift st v := rfl

theorem clockFsm_eq (st : State) : clockFsm st = Spec.Snow3g.clockFSM st := by
  simp only [clockFsm, Spec.Snow3g.clockFSM, s1_eq, s2_eq]

theorem initRound_eq (st : State) : initRound st = Spec.Snow3g.initStep st := by
  simp only [initRound, Spec.Snow3g.initStep, clockFsm_eq, lfsrInitialisationMode, feedback_eq, shiftIn_eq]

theorem iter_congr {α : Type} (f g : α → α) (h : ∀ a, f a = g a) (n : Nat) (a : α) : iter f n a = iter g n a := by
  induction n generalizing a with
  | zero => rfl
  | succ n ih => simp [iter, h, ih]

theorem init_eq (k0 k1 k2 k3 iv0 iv1 iv2 iv3 : UInt32) :
    initSnow3g k0 k1 k2 k3 iv0 iv1 iv2 iv3 = Spec.Snow3g.init k0 k1 k2 k3 iv0 iv1 iv2 iv3 := by
  simp only [initSnow3g, Spec.Snow3g.init]
  exact iter_congr _ _ initRound_eq 32 _

theorem genWords_eq (n : Nat) (st : State) : (genWords n st).1 = Spec.Snow3g.words n st := by
  induction n generalizing st with
  | zero => rfl
  | succ n ih =>
    simp only [genWords, Spec.Snow3g.words, clockFsm_eq, lfsrKeystreamMode, feedback_eq, shiftIn_eq, ih]

theorem keystream_eq (n : Nat) (st : State) : (generateKeystream n st).1 = Spec.Snow3g.keystream n st := by
  simp only [generateKeystream, Spec.Snow3g.keystream, clockFsm_eq, lfsrKeystreamMode, feedback_eq, shiftIn_eq, genWords_eq]

theorem words_length (n : Nat) (st : State) : (Spec.Snow3g.words n st).length = n := by
  induction n generalizing st with
  | zero => rfl
  | succ n ih => simp [Spec.Snow3g.words, ih]

theorem keystream_length (n : Nat) (st : State) : (Spec.Snow3g.keystream n st).length = n := by
  simp [Spec.Snow3g.keystream, words_length]

end Stgutg.Proofs.Snow3g
