/-
  C03 helper lemmas, part 1: the primitives of the APER encoder model (Model/AperEnc.lean, i.e. marshal.go) against the
  clauses of Spec/X691.lean — constrained whole number (11.5), length determinant (11.9), INTEGER (13), ENUMERATED (14),
  CHOICE index (23.6), size constraints, OCTET STRING (17), BIT STRING (16).
  `…_fwd`: whatever bits the model writes are the specification's.  (`…_total`, the converse, is in AperSpecTotal.lean.)
  The two encoders are not syntactically parallel: the model's loops (`octetCount`, `bitsForRange`, `fragLoop`) are
  characterised first (`octetCount_char`, `octetsFor_eq`, `octetsForSigned_eq`, `bitsFor_eq`, `fragLoop_small`).
-/
import Stgutg.Model.AperEnc
import Stgutg.Spec.X691
import Stgutg.Proofs.Bits

namespace Stgutg.Proofs.AperSpec
open Stgutg Stgutg.Aper Stgutg.Proofs.Bits
open Stgutg.Spec.X691 (bitsFor octetsFor pad constrainedWholeNumber lengthDeterminant lengthAndItems twosComplement octetsForSigned
  integer enumerated sizeConstraint bitString octetString)

/-! ### small facts (the first four are copies of lemmas of Proofs/AperRT.lean, kept here so that this file
    does not depend on the decoder model) -/

theorem putBitsValue_ok (v n : Nat) (bits : Bits) (hn : n ≠ 0) (hn64 : n < 64)
    (h : putBitsValue v n = .ok bits) : bits = natToBits n v ∧ v < 2 ^ n := by
  unfold putBitsValue at h
  simp only [hn, if_false] at h
  split at h
  · simp [err] at h
  · rename_i hc
    simp only [Except.ok.injEq] at h
    exact ⟨h.symm, by omega⟩

theorem bitsForRange_pos (range : Int) : bitsForRange range ≠ 0 ∧ bitsForRange range < 64 := by
  unfold bitsForRange
  repeat (first | split | omega)

theorem bind_ok_eq {α β : Type} (x : Res α) (f : α → Res β) (b : β) (h : (x >>= f) = .ok b) :
    ∃ a, x = .ok a ∧ f a = .ok b := by
  cases x with
  | error e => simp [bind, Except.bind] at h
  | ok a => exact ⟨a, rfl, by simpa [bind, Except.bind] using h⟩

/-- below the fragmentation threshold the loop runs once: length determinant, alignment, content -/
theorem fragLoop_small (unit : Nat) (sr : Int) (lb fuel pos rawLength : Nat) (payload : Bits) (h : rawLength < 16384) :
    fragLoop unit sr lb (fuel + 1) pos rawLength payload =
      match appendLength pos sr rawLength with
      | .error e => .error e
      | .ok lenBits =>
        if rawLength + lb = 0 then .ok lenBits
        else .ok (lenBits ++ alignBits (pos + lenBits.length) ++ payload.take ((rawLength + lb) * unit)) := by
  unfold fragLoop
  have h1 : ¬ rawLength ≥ 65536 := by omega
  have h2 : ¬ rawLength ≥ 16384 := by omega
  simp only [h1, h2, if_false]
  cases appendLength pos sr rawLength with
  | error e => rfl
  | ok lenBits =>
    dsimp only
    split
    · rfl
    · simp

theorem pad_eq (pos : Nat) : pad pos = alignBits pos := rfl

theorem alignBits_length (pos : Nat) : (alignBits pos).length = (8 - pos % 8) % 8 := by
  simp [alignBits, padLen]

theorem bitsFor_fin : ∀ r : Fin 257, 2 ≤ r.val → bitsFor r.val = bitsForRange (r.val : Int) := by decide +kernel

theorem bitsFor_eq (range : Int) (h2 : 2 ≤ range) (h : range ≤ 256) : bitsFor range.toNat = bitsForRange range := by
  have := bitsFor_fin ⟨range.toNat, by omega⟩ (by simp only; omega)
  simp only at this
  rw [this]
  congr 1
  omega

/-- first hit of `find?` on a `range'` -/
theorem find_range' (p : Nat → Bool) : ∀ (len s k : Nat), s ≤ k → k < s + len → p k = true →
    (∀ j, s ≤ j → j < k → p j = false) → (List.range' s len).find? p = some k := by
  intro len
  induction len with
  | zero => intro s k h1 h2; omega
  | succ len ih =>
    intro s k h1 h2 hp hlt
    rw [List.range'_succ, List.find?_cons]
    by_cases hs : s = k
    · subst hs; rw [hp]
    · rw [hlt s (Nat.le_refl _) (by omega)]
      exact ih (s + 1) k (by omega) (by omega) hp (fun j hj1 hj2 => hlt j (by omega) hj2)

theorem find_range (p : Nat → Bool) (n k : Nat) (hk : k < n) (hp : p k = true) (hlt : ∀ j, j < k → p j = false) :
    (List.range n).find? p = some k := by
  rw [List.range_eq_range']
  exact find_range' p n 0 k (by omega) (by omega) hp (fun j _ hj => hlt j hj)

theorem pow256 (a : Nat) : 256 ^ a = 2 ^ (8 * a) := by
  rw [Nat.pow_mul]

/-- what the `octetCount` loop computes: 1 + the number of octets of `x` (0 for x = 0) -/
theorem octetCount_char : ∀ (f x : Nat), x < 256 ^ f →
    1 ≤ octetCount f x ∧ octetCount f x ≤ f + 1 ∧ x < 256 ^ (octetCount f x - 1) ∧
    (octetCount f x = 1 ∨ 256 ^ (octetCount f x - 2) ≤ x) := by
  intro f
  induction f with
  | zero => intro x hx; simp [octetCount] at *; omega
  | succ f ih =>
    intro x hx
    unfold octetCount
    split
    · rename_i h0; subst h0; simp
    · rename_i h0
      have hdiv : x >>> 8 = x / 256 := by rw [Nat.shiftRight_eq_div_pow]
      rw [hdiv]
      have hm : x / 256 < 256 ^ f := by
        rw [Nat.pow_succ] at hx
        exact Nat.div_lt_of_lt_mul (by rw [Nat.mul_comm]; exact hx)
      obtain ⟨h1, h2, h3, h4⟩ := ih (x / 256) hm
      generalize octetCount f (x / 256) = c at h1 h2 h3 h4
      obtain ⟨c', rfl⟩ : ∃ c', c = c' + 1 := ⟨c - 1, by omega⟩
      refine ⟨by omega, by omega, ?_, Or.inr ?_⟩
      · have e : 1 + (c' + 1) - 1 = c' + 1 := by omega
        rw [e, Nat.pow_succ]
        simp only [Nat.add_sub_cancel] at h3
        generalize 256 ^ c' = K at h3 ⊢
        omega
      · have e : 1 + (c' + 1) - 2 = c' := by omega
        rw [e]
        rcases h4 with h4 | h4
        · have : c' = 0 := by omega
          subst this; simp; omega
        · obtain ⟨c'', rfl⟩ : ∃ c'', c' = c'' + 1 := ⟨c' - 1, by
            cases c' with
            | zero => simp at h4; omega
            | succ n => simp⟩
          have e2 : c'' + 1 + 1 - 2 = c'' := by omega
          rw [e2] at h4
          rw [Nat.pow_succ]
          generalize 256 ^ c'' = K at h4 ⊢
          omega

theorem octetCount_le' (f x j : Nat) (hf : x < 256 ^ f) (hx : x < 256 ^ j) : octetCount f x ≤ j + 1 := by
  obtain ⟨h1, h2, h3, h4⟩ := octetCount_char f x hf
  rcases h4 with h4 | h4
  · omega
  · false_or_by_contra
    rename_i hc
    have : j ≤ octetCount f x - 2 := by omega
    have := Nat.pow_le_pow_right (n := 256) (by decide) this
    omega

/-! ### 11.5 constrained whole number -/

theorem putBits_some (v n : Nat) (hn : n ≠ 0) (hv : v < 2 ^ n) : putBitsValue v n = .ok (natToBits n v) := by
  unfold putBitsValue
  simp only [hn, if_false]
  have : ¬ (n < 64 ∧ v ≥ 2 ^ n) := by omega
  simp [this]

/-- for a range of 2..65536 values and an offset inside the range the two agree, and both encode -/
theorem constrained_eq (pos : Nat) (range : Int) (v : Nat) (h2 : 2 ≤ range) (h64 : range ≤ 65536)
    (hv : (v : Int) < range) :
    ∃ b, appendConstraintValue pos range v = .ok b ∧ constrainedWholeNumber pos v range.toNat = some b := by
  unfold appendConstraintValue constrainedWholeNumber
  have hr0 : ¬ (range.toNat = 0 ∨ v ≥ range.toNat) := by omega
  have hr1 : ¬ range.toNat = 1 := by omega
  simp only [hr0, hr1, if_false]
  by_cases h255 : range ≤ 255
  · have hn : ¬ range < 0 := by omega
    have h255' : range.toNat ≤ 255 := by omega
    simp only [h255, hn, h255', if_true, if_false]
    have ⟨w1, w2⟩ := bitsForRange_pos range
    have hw : v < 2 ^ bitsForRange range := by
      have : range ≤ ((2 ^ bitsForRange range : Nat) : Int) := by
        unfold bitsForRange
        repeat (first | split | omega)
      omega
    rw [putBits_some v _ w1 hw, bitsFor_eq range h2 (by omega)]
    exact ⟨_, rfl, rfl⟩
  · have h255' : ¬ range.toNat ≤ 255 := by omega
    simp only [h255, h255', if_false]
    by_cases h256 : range = 256
    · have h256' : range.toNat = 256 := by omega
      simp only [h256, if_true]
      rw [putBits_some v 8 (by decide) (by omega)]
      exact ⟨_, rfl, rfl⟩
    · have h256' : ¬ range.toNat = 256 := by omega
      have h64' : range.toNat ≤ 65536 := by omega
      simp only [h256, h256', h64, h64', if_true, if_false]
      rw [putBits_some v 16 (by decide) (by omega)]
      exact ⟨_, rfl, rfl⟩

/-- whatever the model writes for a constrained whole number (range ≥ 2, offset in range) is the 11.5 encoding -/
theorem constrained_fwd (pos : Nat) (range : Int) (v : Nat) (b : Bits) (h2 : 2 ≤ range) (hv : (v : Int) < range)
    (h : appendConstraintValue pos range v = .ok b) : constrainedWholeNumber pos v range.toNat = some b := by
  by_cases h64 : range ≤ 65536
  · obtain ⟨b', hb1, hb2⟩ := constrained_eq pos range v h2 h64 hv
    rw [hb1] at h
    simp only [Except.ok.injEq] at h
    rw [← h]; exact hb2
  · unfold appendConstraintValue at h
    have h1 : ¬ range ≤ 255 := by omega
    have h3 : ¬ range = 256 := by omega
    simp [h1, h3, h64, err] at h

/-- the model always writes at least one bit for a constrained value -/
theorem constraintValue_nonempty (pos : Nat) (range : Int) (v : Nat) (b : Bits)
    (h : appendConstraintValue pos range v = .ok b) : b ≠ [] := by
  unfold appendConstraintValue at h
  split at h
  · split at h
    · simp [err] at h
    · have ⟨w1, w2⟩ := bitsForRange_pos range
      have ⟨hb, _⟩ := putBitsValue_ok _ _ _ w1 w2 h
      intro hnil
      have := congrArg List.length hb
      rw [hnil, natToBits_length] at this
      exact w1 this.symm
  · split at h
    · obtain ⟨x, hx, hb⟩ := bind_ok_eq _ _ _ h
      have ⟨hx', _⟩ := putBitsValue_ok _ _ _ (by decide) (by decide) hx
      simp only [pure, Except.pure, Except.ok.injEq] at hb
      intro hnil
      have := congrArg List.length hb
      rw [hnil, List.length_append, hx', natToBits_length] at this
      simp at this
    · split at h
      · obtain ⟨x, hx, hb⟩ := bind_ok_eq _ _ _ h
        have ⟨hx', _⟩ := putBitsValue_ok _ _ _ (by decide) (by decide) hx
        simp only [pure, Except.pure, Except.ok.injEq] at hb
        intro hnil
        have := congrArg List.length hb
        rw [hnil, List.length_append, hx', natToBits_length] at this
        simp at this
      · simp [err] at h

/-! ### 11.9 length determinant -/

theorem or8000 (n : Nat) (hn : n < 16384) : n ||| 0x8000 = 32768 + n := by
  have := Nat.two_pow_add_eq_or_of_lt (i := 15) (b := n) (by omega) 1
  rw [Nat.or_comm]
  simpa using this.symm

theorem natToBits16_or (n : Nat) (hn : n < 16384) :
    natToBits 16 (n ||| 0x8000) = [true, false] ++ natToBits 14 n := by
  rw [or8000 n hn]
  have e : natToBits 16 (32768 + n) = (32768 + n).testBit 15 :: (32768 + n).testBit 14 :: natToBits 14 (32768 + n) := rfl
  rw [e]
  have t15 : (32768 + n).testBit 15 = true := by
    rw [Nat.testBit_eq_decide_div_mod_eq]; simp; omega
  have t14 : (32768 + n).testBit 14 = false := by
    rw [Nat.testBit_eq_decide_div_mod_eq]; simp; omega
  have hm : natToBits 14 (32768 + n) = natToBits 14 n := by
    rw [← natToBits_mod 14 14 (32768 + n) (Nat.le_refl _)]
    congr 1
    omega
  rw [t15, t14, hm]; rfl

/-- the general (unconstrained) length determinant of 11.9.3.6/7 as the model writes it -/
theorem length_unc (pos : Nat) (sr : Int) (n : Nat) (hn : n < 16384) (hsr : sr ≤ 0 ∨ 65536 < sr) :
    appendLength pos sr n =
      .ok (if n < 128 then pad pos ++ natToBits 8 n else pad pos ++ [true, false] ++ natToBits 14 n) := by
  unfold appendLength
  have h1 : ¬ (sr ≤ 65536 ∧ sr > 0) := by omega
  simp only [h1, if_false]
  by_cases h127 : n ≤ 127
  · have : n < 128 := by omega
    simp only [h127, this, if_true]
    rw [putBits_some n 8 (by decide) (by omega)]
    rfl
  · have : ¬ n < 128 := by omega
    have h16 : n ≤ 16383 := by omega
    simp only [h127, this, h16, if_true, if_false]
    have hlt : n ||| 0x8000 < 2 ^ 16 := by rw [or8000 n hn]; omega
    rw [putBits_some _ 16 (by decide) hlt, natToBits16_or n hn]
    show Except.ok (alignBits pos ++ ([true, false] ++ natToBits 14 n)) = _
    rw [pad_eq, List.append_assoc]

theorem lengthDeterminant_unc (pos n lb : Nat) (ub : Option Nat) (hn : n < 16384) (hub : ∀ u, ub = some u → 65536 ≤ u) :
    lengthDeterminant pos n lb ub =
      some (if n < 128 then pad pos ++ natToBits 8 n else pad pos ++ [true, false] ++ natToBits 14 n) := by
  unfold lengthDeterminant
  cases ub with
  | none => by_cases h : n < 128 <;> simp [h, hn]
  | some u =>
    have := hub u rfl
    have hu : ¬ u < 65536 := by omega
    by_cases h : n < 128 <;> simp [h, hn, hu]

/-- unconstrained length below the fragmentation threshold -/
theorem length_fwd_unc (pos : Nat) (sr : Int) (n lb : Nat) (ub : Option Nat) (b : Bits) (hn : n < 16384)
    (hsr : sr ≤ 0 ∨ 65536 < sr) (hub : ∀ u, ub = some u → 65536 ≤ u)
    (h : appendLength pos sr n = .ok b) : lengthDeterminant pos n lb ub = some b := by
  rw [length_unc pos sr n hn hsr] at h
  rw [lengthDeterminant_unc pos n lb ub hn hub]
  simp only [Except.ok.injEq] at h
  rw [h]

/-- constrained length (11.9.3.3): `n − lb` in the range `ub − lb + 1` -/
theorem length_fwd_con (pos n lb u : Nat) (b : Bits) (hl : lb ≤ n) (hu : n ≤ u) (hlu : lb < u) (hu64 : u < 65536)
    (h : appendLength pos ((u : Int) - lb + 1) (n - lb) = .ok b) : lengthDeterminant pos n lb (some u) = some b := by
  unfold appendLength at h
  have h1 : ((u : Int) - lb + 1 ≤ 65536 ∧ (u : Int) - lb + 1 > 0) := by omega
  simp only [h1, and_self, if_true] at h
  have := constrained_fwd pos _ _ b (by omega) (by omega) h
  unfold lengthDeterminant
  have h2 : ¬ (n < lb ∨ n > u) := by omega
  simp only [hu64, h2, if_true, if_false]
  have e : ((u : Int) - lb + 1).toNat = u - lb + 1 := by omega
  rw [e] at this
  exact this

/-! ### 13 INTEGER -/

/-- the magnitude the Go code sizes a two's-complement integer with: `v` or `−v − 1` -/
def absU (v : Int) : Nat := if v < 0 then (-v - 1).toNat else v.toNat

theorem signed_range (v : Int) (m : Nat) : (-(2 ^ m : Int) ≤ v ∧ v < (2 ^ m : Int)) ↔ absU v < 2 ^ m := by
  have e : (2 ^ m : Int) = ((2 ^ m : Nat) : Int) := by simp
  rw [e]
  generalize 2 ^ m = M
  unfold absU
  split <;> omega

/-- 11.3: the minimal octet count of a non-negative value, as the loop of `appendInteger` computes it -/
theorem octetsFor_eq (n : Nat) (hn : n < 256 ^ 9) : octetsFor n = octetCount 9 (n >>> 8) := by
  have hdiv : n >>> 8 = n / 256 := by rw [Nat.shiftRight_eq_div_pow]
  rw [hdiv]
  have hx8 : n / 256 < 256 ^ 8 := by
    have : (256 : Nat) ^ 9 = 256 ^ 8 * 256 := Nat.pow_succ ..
    rw [this] at hn
    exact Nat.div_lt_of_lt_mul (by rw [Nat.mul_comm]; exact hn)
  have hx9 : n / 256 < 256 ^ 9 := Nat.lt_of_lt_of_le hx8 (Nat.pow_le_pow_right (by decide) (by decide))
  obtain ⟨h1, _, h3, h4⟩ := octetCount_char 9 (n / 256) hx9
  have h9 := octetCount_le' 9 (n / 256) 8 hx9 hx8
  generalize octetCount 9 (n / 256) = c at h1 h3 h4 h9
  obtain ⟨c', rfl⟩ : ∃ c', c = c' + 1 := ⟨c - 1, by omega⟩
  simp only [Nat.add_sub_cancel] at h3
  unfold octetsFor
  rw [find_range _ 10 (c' + 1) (by omega)]
  · rfl
  · simp only [decide_eq_true_eq]
    refine ⟨by omega, ?_⟩
    rw [Nat.pow_succ]
    generalize 256 ^ c' = K at h3 ⊢
    omega
  · intro j hj
    simp only [decide_eq_false_iff_not]
    intro ⟨hj1, hlt⟩
    rcases h4 with h4 | h4
    · omega
    · obtain ⟨c'', rfl⟩ : ∃ c'', c' = c'' + 1 := ⟨c' - 1, by omega⟩
      have e : c'' + 1 + 1 - 2 = c'' := by omega
      rw [e] at h4
      have hle : 256 ^ j ≤ 256 ^ (c'' + 1) := Nat.pow_le_pow_right (by decide) (by omega)
      rw [Nat.pow_succ] at hle
      generalize 256 ^ c'' = K at h4 hle
      generalize 256 ^ j = J at hlt hle
      omega

/-- 11.4: the minimal octet count of a two's-complement value, as the loop of `appendInteger` computes it -/
theorem octetsForSigned_eq (v : Int) (hv : absU v < 2 ^ 71) : octetsForSigned v = octetCount 9 (absU v >>> 7) := by
  have hdiv : absU v >>> 7 = absU v / 128 := by rw [Nat.shiftRight_eq_div_pow]
  rw [hdiv]
  have hx8 : absU v / 128 < 256 ^ 8 := by
    have : (2 : Nat) ^ 71 = 256 ^ 8 * 128 := by decide
    rw [this] at hv
    exact Nat.div_lt_of_lt_mul (by rw [Nat.mul_comm]; exact hv)
  have hx9 : absU v / 128 < 256 ^ 9 := Nat.lt_of_lt_of_le hx8 (Nat.pow_le_pow_right (by decide) (by decide))
  obtain ⟨h1, _, h3, h4⟩ := octetCount_char 9 (absU v / 128) hx9
  have h9 := octetCount_le' 9 (absU v / 128) 8 hx9 hx8
  generalize octetCount 9 (absU v / 128) = c at h1 h3 h4 h9
  obtain ⟨c', rfl⟩ : ∃ c', c = c' + 1 := ⟨c - 1, by omega⟩
  simp only [Nat.add_sub_cancel] at h3
  unfold octetsForSigned
  rw [find_range _ 10 (c' + 1) (by omega)]
  · rfl
  · simp only [decide_eq_true_eq]
    refine ⟨by omega, ?_⟩
    have e : 8 * (c' + 1) - 1 = 8 * c' + 7 := by omega
    rw [e]
    refine (signed_range v _).mpr ?_
    rw [Nat.pow_add, ← pow256]
    generalize 256 ^ c' = K at h3 ⊢
    omega
  · intro j hj
    simp only [decide_eq_false_iff_not]
    intro ⟨hj1, hr⟩
    have hu := (signed_range v _).mp hr
    rcases h4 with h4 | h4
    · omega
    · obtain ⟨c'', rfl⟩ : ∃ c'', c' = c'' + 1 := ⟨c' - 1, by omega⟩
      have e : c'' + 1 + 1 - 2 = c'' := by omega
      rw [e] at h4
      have hle : 2 ^ (8 * j - 1) ≤ 2 ^ (8 * c'' + 7) := Nat.pow_le_pow_right (by decide) (by omega)
      rw [Nat.pow_add, ← pow256] at hle
      generalize 256 ^ c'' = K at h4 hle
      generalize 2 ^ (8 * j - 1) = J at hu hle
      omega

/-- the unconstrained form (11.8 / 13.2.4): aligned length octet and two's complement, as the model writes it -/
theorem unconstrained_tail (v : Int) (hv : absU v < 2 ^ 71) :
    putBitsValue (v % ((2 ^ (8 * octetCount 9 (absU v >>> 7)) : Nat) : Int)).toNat (8 * octetCount 9 (absU v >>> 7)) =
      .ok (twosComplement (octetsForSigned v) v) := by
  rw [octetsForSigned_eq v hv]
  have hx9 : absU v >>> 7 < 256 ^ 9 := by
    rw [Nat.shiftRight_eq_div_pow]
    have : (2 : Nat) ^ 71 = 256 ^ 8 * 2 ^ 7 := by decide
    rw [this] at hv
    have := Nat.div_lt_of_lt_mul (m := absU v) (n := 2 ^ 7) (k := 256 ^ 8) (by rw [Nat.mul_comm]; exact hv)
    exact Nat.lt_of_lt_of_le this (Nat.pow_le_pow_right (by decide) (by decide))
  obtain ⟨h1, _, _, _⟩ := octetCount_char 9 _ hx9
  generalize octetCount 9 (absU v >>> 7) = k at h1
  unfold twosComplement
  have e : (2 : Int) ^ (8 * k) = ((2 ^ (8 * k) : Nat) : Int) := by simp
  rw [e]
  apply putBits_some _ _ (by omega)
  have hM : 0 < 2 ^ (8 * k) := Nat.two_pow_pos _
  generalize 2 ^ (8 * k) = M at hM
  have h1 := Int.emod_nonneg v (b := (M : Int)) (by omega)
  have h2 := Int.emod_lt_of_pos v (b := (M : Int)) (by omega)
  omega

def intOK' (lbP ubP : Option Int) : Bool :=
  match lbP, ubP with
  | none, none => true
  | some l, some u => decide (u - l + 1 ≤ 65536) || (l == 0 && decide (u < 2 ^ 63))
  | _, _ => false

theorem absU_int64 (v : Int) (h1 : -(2 ^ 63) ≤ v) (h2 : v < 2 ^ 63) : absU v < 2 ^ 71 := by
  unfold absU
  split <;> omega

/-- the part of `appendInteger` after the bounds have been looked at (same text as in the model) -/
def intTail (pos : Nat) (value : Int) (pre : Bits) (lb range : Int) : Res Bits :=
    let pos1 := pos + pre.length
    if range = 1 then .ok pre
    else
      let unsignedValue : Nat := if value < 0 then (-value - 1).toNat else value.toNat
      if range ≤ 0 then
        let rawLength := octetCount 9 (unsignedValue >>> 7)
        let al := alignBits pos1
        let lenBits := natToBits 8 rawLength
        let body : Nat :=
          if range < 0 then (value % (2 ^ (8 * rawLength) : Nat)).toNat
          else (value - lb).toNat
        match putBitsValue body (8 * rawLength) with
        | .error e => .error e
        | .ok b => .ok (pre ++ al ++ lenBits ++ b)
      else if range ≤ 65536 then
        match appendConstraintValue pos1 range (value - lb).toNat with
        | .error e => .error e
        | .ok b => .ok (pre ++ b)
      else
        let rawLength := octetCount 9 (unsignedValue >>> 8)
        match putBitsValue (rawLength - 1) (bitsForRange (rangeByteLen range)) with
        | .error e => .error e
        | .ok lenBits =>
          let pos2 := pos1 + lenBits.length
          match putBitsValue (value - lb).toNat (8 * rawLength) with
          | .error e => .error e
          | .ok b => .ok (pre ++ lenBits ++ alignBits pos2 ++ b)

theorem appendInteger_eq (pos : Nat) (value : Int) (ext : Bool) (lbP ubP : Option Int) :
    appendInteger pos value ext lbP ubP =
      match (match lbP with
        | none => .ok ([], 0, -1)
        | some l =>
          if value < l then err else
          match ubP with
          | none => .ok ([], l, 0)
          | some u =>
            if value ≤ u then .ok (if ext then [false] else [], l, u - l + 1)
            else if !ext then err
            else .ok ([true], l, -1) : Res (Bits × Int × Int)) with
      | .error e => .error e
      | .ok (pre, lb, range) => intTail pos value pre lb range := rfl

/-- unconstrained form (range −1): aligned length octet and two's complement (11.8) -/
theorem intTail_unc (pos : Nat) (v : Int) (pre : Bits) (lb : Int) (hv : absU v < 2 ^ 71) :
    intTail pos v pre lb (-1) =
      .ok (pre ++ pad (pos + pre.length) ++ natToBits 8 (octetsForSigned v) ++ twosComplement (octetsForSigned v) v) := by
  unfold intTail
  have h1 : ¬ ((-1 : Int) = 1) := by decide
  have h2 : (-1 : Int) ≤ 0 := by decide
  have h3 : (-1 : Int) < 0 := by decide
  simp only [h1, h2, h3, if_true, if_false]
  have := unconstrained_tail v hv
  unfold absU at this
  rw [this]
  have e := octetsForSigned_eq v hv
  unfold absU at e
  rw [← e, pad_eq]

/-- constrained form, range 2..65536 -/
theorem intTail_con (pos : Nat) (v : Int) (pre : Bits) (lb range : Int) (b : Bits) (h2 : 2 ≤ range) (h64 : range ≤ 65536)
    (hl : lb ≤ v) (hu : v - lb < range)
    (h : intTail pos v pre lb range = .ok b) :
    ∃ c, constrainedWholeNumber (pos + pre.length) (v - lb).toNat range.toNat = some c ∧ b = pre ++ c := by
  unfold intTail at h
  have h1 : ¬ range = 1 := by omega
  have h0 : ¬ range ≤ 0 := by omega
  simp only [h1, h0, h64, if_true, if_false] at h
  cases hc : appendConstraintValue (pos + pre.length) range (v - lb).toNat with
  | error e => rw [hc] at h; simp at h
  | ok c =>
    rw [hc] at h
    simp only [Except.ok.injEq] at h
    exact ⟨c, constrained_fwd _ _ _ c h2 (by omega) hc, h.symm⟩

theorem bitsFor_small : ∀ m : Fin 18, 3 ≤ m.val → bitsFor m.val = bitsForRange (m.val : Int) := by decide +kernel

theorem octetCount_zero (f : Nat) : octetCount f 0 = 1 := by cases f <;> simp [octetCount]

/-- with enough fuel the loop's result does not depend on the fuel -/
theorem octetCount_fuel : ∀ (f g x : Nat), x < 256 ^ f → x < 256 ^ g → octetCount f x = octetCount g x := by
  intro f
  induction f with
  | zero => intro g x hf _; simp at hf; subst hf; rw [octetCount_zero, octetCount_zero]
  | succ f ih =>
    intro g x hf hg
    by_cases h0 : x = 0
    · subst h0; rw [octetCount_zero, octetCount_zero]
    · cases g with
      | zero => simp at hg; omega
      | succ g =>
        unfold octetCount
        simp only [h0, if_false]
        have hdiv : x >>> 8 = x / 256 := by rw [Nat.shiftRight_eq_div_pow]
        rw [hdiv]
        congr 1
        apply ih
        · rw [Nat.pow_succ] at hf; exact Nat.div_lt_of_lt_mul (by rw [Nat.mul_comm]; exact hf)
        · rw [Nat.pow_succ] at hg; exact Nat.div_lt_of_lt_mul (by rw [Nat.mul_comm]; exact hg)

theorem putBitsValue_bits (v n : Nat) (bits : Bits) (hn : n ≠ 0) (h : putBitsValue v n = .ok bits) :
    bits = natToBits n v := by
  unfold putBitsValue at h
  simp only [hn, if_false] at h
  split at h
  · simp [err] at h
  · simp only [Except.ok.injEq] at h; exact h.symm

/-- range above 64K starting at 0 (11.5.7.4): octet count − 1 as a constrained number, aligned minimal octets -/
theorem intTail_big (pos : Nat) (v : Int) (pre : Bits) (range : Int) (b : Bits) (h64 : 65536 < range) (hr : range ≤ 2 ^ 63)
    (hl : 0 ≤ v) (hu : v < range)
    (h : intTail pos v pre 0 range = .ok b) :
    ∃ c, constrainedWholeNumber (pos + pre.length) v.toNat range.toNat = some c ∧ b = pre ++ c := by
  unfold intTail at h
  have h1 : ¬ range = 1 := by omega
  have h0 : ¬ range ≤ 0 := by omega
  have h6 : ¬ range ≤ 65536 := by omega
  have hv0 : ¬ v < 0 := by omega
  simp only [h1, h0, h6, hv0, if_false, Int.sub_zero] at h
  have e72 : (256 : Nat) ^ 9 = 2 ^ 72 := by decide
  have hn9 : v.toNat < 256 ^ 9 := by omega
  have hr9 : range.toNat - 1 < 256 ^ 9 := by omega
  -- the width of the length field
  have hmax : rangeByteLen range = octetsFor (range.toNat - 1) := by
    unfold rangeByteLen
    have e : (range - 1).toNat = range.toNat - 1 := by omega
    rw [e, octetsFor_eq _ hr9]
    have hdiv : (range.toNat - 1) >>> 8 = (range.toNat - 1) / 256 := by rw [Nat.shiftRight_eq_div_pow]
    have hx : (range.toNat - 1) >>> 8 < 256 ^ 9 := by rw [hdiv]; omega
    exact octetCount_fuel 16 9 _ (Nat.lt_of_lt_of_le hx (Nat.pow_le_pow_right (by decide) (by decide))) hx
  have hmax3 : 3 ≤ octetsFor (range.toNat - 1) ∧ octetsFor (range.toNat - 1) ≤ 10 := by
    rw [octetsFor_eq _ hr9]
    have hdiv : (range.toNat - 1) >>> 8 = (range.toNat - 1) / 256 := by rw [Nat.shiftRight_eq_div_pow]
    rw [hdiv]
    have hx : (range.toNat - 1) / 256 < 256 ^ 9 := by omega
    obtain ⟨c1, c2, c3, c4⟩ := octetCount_char 9 _ hx
    refine ⟨?_, c2⟩
    false_or_by_contra
    rename_i hc
    have : octetCount 9 ((range.toNat - 1) / 256) - 1 ≤ 1 := by omega
    have := Nat.pow_le_pow_right (n := 256) (by decide) this
    omega
  have hw : bitsForRange (rangeByteLen range) = bitsFor (octetsFor (range.toNat - 1)) := by
    rw [hmax]
    exact (bitsFor_small ⟨octetsFor (range.toNat - 1), by omega⟩ hmax3.1).symm
  rw [← octetsFor_eq _ hn9, hw] at h
  have ⟨w1, w2⟩ := bitsForRange_pos (rangeByteLen range)
  rw [hw] at w1 w2
  cases hp1 : putBitsValue (octetsFor v.toNat - 1) (bitsFor (octetsFor (range.toNat - 1))) with
  | error e => rw [hp1] at h; simp at h
  | ok lenBits =>
    rw [hp1] at h
    dsimp only at h
    cases hp2 : putBitsValue v.toNat (8 * octetsFor v.toNat) with
    | error e => rw [hp2] at h; simp at h
    | ok body =>
      rw [hp2] at h
      simp only [Except.ok.injEq] at h
      have hk1 : 1 ≤ octetsFor v.toNat := by
        rw [octetsFor_eq _ hn9]
        have hdiv : v.toNat >>> 8 = v.toNat / 256 := by rw [Nat.shiftRight_eq_div_pow]
        rw [hdiv]
        exact (octetCount_char 9 _ (by omega)).1
      have hb1 := putBitsValue_bits _ _ _ w1 hp1
      have hb2 := putBitsValue_bits _ _ _ (by omega) hp2
      unfold constrainedWholeNumber
      have g1 : ¬ (range.toNat = 0 ∨ v.toNat ≥ range.toNat) := by omega
      have g2 : ¬ range.toNat = 1 := by omega
      have g3 : ¬ range.toNat ≤ 255 := by omega
      have g4 : ¬ range.toNat = 256 := by omega
      have g5 : ¬ range.toNat ≤ 65536 := by omega
      simp only [g1, g2, g3, g4, g5, if_false]
      refine ⟨_, rfl, ?_⟩
      rw [← h, hb1, hb2, pad_eq]
      simp only [List.append_assoc]

theorem extPre_length (ext : Bool) : (if ext then [false] else [] : Bits).length = if ext then 1 else 0 := by
  cases ext <;> rfl

/-- **13 INTEGER**: whatever `appendInteger` writes for an int64 value is the X.691 encoding, provided the bounds are
    both present or both absent and a range above 64K starts at 0 and ends below 2^63 -/
theorem integer_fwd (pos : Nat) (v : Int) (ext : Bool) (lbP ubP : Option Int) (b : Bits)
    (hok : intOK' lbP ubP = true) (h1 : -(2 ^ 63) ≤ v) (h2 : v < 2 ^ 63)
    (h : appendInteger pos v ext lbP ubP = .ok b) : integer pos v ext lbP ubP = some b := by
  rw [appendInteger_eq] at h
  have hv := absU_int64 v h1 h2
  cases lbP with
  | none =>
    cases ubP with
    | some u => simp [intOK'] at hok
    | none =>
      dsimp only at h
      rw [intTail_unc _ _ _ _ hv] at h
      simp only [Except.ok.injEq] at h
      unfold integer
      simp only
      rw [← h]
      simp
  | some l =>
    cases ubP with
    | none => simp [intOK'] at hok
    | some u =>
      dsimp only at h
      unfold integer
      simp only
      by_cases hvl : v < l
      · simp [hvl, err] at h
      · simp only [hvl, if_false] at h
        by_cases hvu : v ≤ u
        · simp only [hvu, if_true] at h
          have hin : l ≤ v ∧ v ≤ u := ⟨by omega, hvu⟩
          simp only [hin, and_self, if_true]
          rw [← extPre_length ext]
          by_cases hr1 : u - l + 1 = 1
          · unfold intTail at h
            simp only [hr1, if_true, Except.ok.injEq] at h
            have e : (v - l).toNat = 0 := by omega
            have e1 : (u - l + 1).toNat = 1 := by omega
            rw [e, e1, ← h]
            simp [constrainedWholeNumber]
          · by_cases hr64 : u - l + 1 ≤ 65536
            · obtain ⟨c, hc, hb⟩ := intTail_con pos v _ l _ b (by omega) hr64 (by omega) (by omega) h
              rw [hc, hb]; rfl
            · simp only [intOK', decide_eq_true_eq, Bool.or_eq_true, Bool.and_eq_true, beq_iff_eq] at hok
              have hl0 : l = 0 := by omega
              subst hl0
              obtain ⟨c, hc, hb⟩ := intTail_big pos v _ _ b (by omega) (by omega) (by omega) (by omega) h
              simp only [Int.sub_zero] at hc ⊢
              rw [hc, hb]; rfl
        · simp only [hvu, if_false] at h
          have hin : ¬ (l ≤ v ∧ v ≤ u) := by omega
          simp only [hin, if_false]
          cases ext with
          | false => simp [err] at h
          | true =>
            simp only [Bool.not_true, Bool.false_eq_true, if_false] at h
            rw [intTail_unc _ _ _ _ hv] at h
            simp only [Except.ok.injEq] at h
            have : v > u := by omega
            simp only [this, and_self, if_true]
            rw [← h]
            simp

/-! ### 14 ENUMERATED, 23.6 choice index -/

def enumOK' (lbP : Option Int) : Bool :=
  match lbP with
  | some l => l == 0
  | none => true

/-- **14 ENUMERATED** (root enumerations numbered from 0) -/
theorem enumerated_fwd (pos n : Nat) (ext : Bool) (lbP ubP : Option Int) (b : Bits)
    (hok : enumOK' lbP = true)
    (h : appendEnumerated pos n ext lbP ubP = .ok b) : enumerated pos n ext lbP ubP = some b := by
  unfold appendEnumerated at h
  cases lbP with
  | none => simp [err] at h
  | some l =>
    cases ubP with
    | none => simp [err] at h
    | some u =>
      simp only [enumOK', beq_iff_eq] at hok
      subst hok
      dsimp only at h
      unfold enumerated
      simp only
      split at h
      · simp [err] at h
      · rename_i hle
        split at h
        · simp [err] at h
        · have hle' : (n : Int) ≤ u := by omega
          simp only [hle', if_true]
          rw [← extPre_length ext]
          split at h
          · rename_i hr
            cases hc : appendConstraintValue (pos + (if ext = true then [false] else []).length) (u - 0 + 1) n with
            | error e => rw [hc] at h; simp at h
            | ok c =>
              rw [hc] at h
              simp only [Except.ok.injEq] at h
              have := constrained_fwd _ _ _ c (by omega) (by omega) hc
              simp only [Int.sub_zero] at this
              rw [this, ← h]; rfl
          · rename_i hr
            simp only [Except.ok.injEq] at h
            have hu : u = 0 := by omega
            have hn : n = 0 := by omega
            subst hu hn
            rw [← h]
            simp [constrainedWholeNumber]

/-- **23.6** index of the chosen alternative among `nAlt ≥ 2` root alternatives -/
theorem choice_index_fwd (pos p nAlt : Nat) (ext : Bool) (ub : Int) (b : Bits)
    (hub : ub + 1 = (nAlt : Int)) (h2 : 2 ≤ nAlt) (hp1 : 1 ≤ p) (hp : p ≤ nAlt)
    (h : appendChoiceIndex pos p ext (some ub) = .ok b) : constrainedWholeNumber pos (p - 1) nAlt = some b := by
  unfold appendChoiceIndex at h
  dsimp only at h
  have h0 : ¬ ub < 0 := by omega
  have h1 : ¬ (ext = true ∧ ((p - 1 : Nat) : Int) > ub) := by omega
  simp only [h0, h1, if_false] at h
  have := constrained_fwd pos (ub + 1) (p - 1) b (by omega) (by omega) h
  have e : (ub + 1).toNat = nAlt := by omega
  rw [e] at this
  exact this

/-! ### 11.9.3.8 fragmentation -/

theorem testBit_c000 (i : Nat) : Nat.testBit 0xc000 i = (decide (i = 14) || decide (i = 15)) := by
  by_cases h : i < 16
  · exact (by decide : ∀ j : Fin 16, Nat.testBit 0xc000 j.val = (decide (j.val = 14) || decide (j.val = 15))) ⟨i, h⟩
  · have : Nat.testBit 0xc000 i = false := by
      apply Nat.testBit_lt_two_pow
      have : 2 ^ 16 ≤ 2 ^ i := Nat.pow_le_pow_right (by decide) (by omega)
      omega
    rw [this]
    have h14 : ¬ i = 14 := by omega
    have h15 : ¬ i = 15 := by omega
    simp [h14, h15]

/-- the mask of the fragmentation loop: the largest multiple of 16K below 64K -/
theorem and_c000 (n : Nat) (h : n < 65536) : n &&& 0xc000 = n / 16384 * 16384 := by
  apply Nat.eq_of_testBit_eq
  intro i
  rw [Nat.testBit_and, testBit_c000]
  have e : n / 16384 * 16384 = (n >>> 14) <<< 14 := by
    rw [Nat.shiftRight_eq_div_pow, Nat.shiftLeft_eq]
  rw [e, Nat.testBit_shiftLeft, Nat.testBit_shiftRight]
  by_cases h14 : i = 14
  · subst h14; simp
  · by_cases h15 : i = 15
    · subst h15; simp
    · simp only [h14, h15, decide_false, Bool.or_false, Bool.and_false]
      by_cases hge : i ≥ 14
      · have : n.testBit i = false := by
          apply Nat.testBit_lt_two_pow
          have : 2 ^ 16 ≤ 2 ^ i := Nat.pow_le_pow_right (by decide) (by omega)
          omega
        have e2 : 14 + (i - 14) = i := by omega
        simp [hge, e2, this]
      · simp [hge]

theorem fragOctet : ∀ m : Fin 5, 1 ≤ m.val →
    natToBits 8 (m.val ||| 0xc0) = [true, true] ++ natToBits 6 m.val ∧ (m.val ||| 0xc0) < 2 ^ 8 := by decide

theorem alignBits_aligned (p : Nat) (h : p % 8 = 0) : alignBits p = [] := by
  simp [alignBits, padLen, h]

theorem aligned_after (p : Nat) : (p + (alignBits p).length) % 8 = 0 := by
  rw [alignBits_length]; omega

/-- the part the loop takes from a length of 16K or more: m·16K with m = min(4, n / 16K) -/
theorem frag_part (n : Nat) (h : 16384 ≤ n) :
    (if n ≥ 65536 then 65536 else if n ≥ 16384 then n &&& 0xc000 else n) = min 4 (n / 16384) * 16384 := by
  by_cases h64 : n ≥ 65536
  · simp only [h64, if_true]
    have : min 4 (n / 16384) = 4 := by omega
    rw [this]
  · simp only [h64, h, if_true, if_false]
    rw [and_c000 n (by omega)]
    have : min 4 (n / 16384) = n / 16384 := by omega
    rw [this]

/-- **11.9.3.5–8**: with a general (unconstrained) length the repaired fragmentation loop writes exactly the
    fragments, lengths and final length the Recommendation prescribes, for every length -/
theorem fragLoop_unc (unit : Nat) (hunit : (16384 * unit) % 8 = 0) :
    ∀ (f pos n : Nat) (payload : Bits), payload.length = n * unit → n / 16384 + 1 ≤ f →
      fragLoop unit (-1) 0 (f + 1) pos n payload = .ok (lengthAndItems unit f pos n payload) := by
  intro f
  induction f with
  | zero => intro pos n payload _ h; omega
  | succ f ih =>
    intro pos n payload hpl hf
    by_cases hn : n < 16384
    · -- a single length and the items
      rw [fragLoop_small unit (-1) 0 (f + 1) pos n payload hn, length_unc pos (-1) n hn (by omega)]
      unfold lengthAndItems
      simp only [hn, if_true, Nat.add_zero]
      by_cases h0 : n = 0
      · simp [h0]
      · simp only [h0, if_false]
        have htake : payload.take (n * unit) = payload := by
          rw [List.take_of_length_le]; omega
        rw [htake, pad_eq]
        by_cases h128 : n < 128 <;> simp [h128, pad_eq]
    · -- a fragment of m·16K items, then the rest
      have hge : 16384 ≤ n := by omega
      unfold fragLoop lengthAndItems
      simp only [hn, if_false]
      rw [frag_part n hge]
      have hm1 : 1 ≤ min 4 (n / 16384) := by omega
      have hm4 : min 4 (n / 16384) ≤ 4 := by omega
      generalize hm : min 4 (n / 16384) = m at hm1 hm4
      have hmn : m * 16384 ≤ n := by omega
      -- the length octet 11mmmmmm
      have hal : appendLength pos (-1) (m * 16384) = .ok (pad pos ++ [true, true] ++ natToBits 6 m) := by
        unfold appendLength
        have c1 : ¬ ((-1 : Int) ≤ 65536 ∧ (-1 : Int) > 0) := by decide
        have c2 : ¬ m * 16384 ≤ 127 := by omega
        have c3 : ¬ m * 16384 ≤ 16383 := by omega
        simp only [c1, c2, c3, if_false]
        have hsh : (m * 16384) >>> 14 = m := by
          rw [Nat.shiftRight_eq_div_pow]; omega
        rw [hsh]
        obtain ⟨f1, f2⟩ := fragOctet ⟨m, by omega⟩ hm1
        simp only at f1 f2
        rw [putBits_some _ 8 (by decide) f2, f1]
        show Except.ok (alignBits pos ++ ([true, true] ++ natToBits 6 m)) = _
        rw [pad_eq, List.append_assoc]
      rw [hal]
      dsimp only
      -- the fragment is whole octets
      have hclen : (payload.take (m * 16384 * unit)).length = m * 16384 * unit := by
        rw [List.length_take, hpl]
        have : m * 16384 * unit ≤ n * unit := Nat.mul_le_mul_right _ hmn
        omega
      have hc8 : (m * 16384 * unit) % 8 = 0 := by
        have : m * 16384 * unit = m * (16384 * unit) := by rw [Nat.mul_assoc]
        rw [this, Nat.mul_mod, hunit]; simp
      have hdl : (payload.drop (m * 16384 * unit)).length = (n - m * 16384) * unit := by
        rw [List.length_drop, hpl, Nat.sub_mul]
      have hf' : (n - m * 16384) / 16384 + 1 ≤ f := by omega
      split
      · omega
      · split
        · rename_i hcont
          simp only [Nat.add_zero]
          have hround : ((payload.take (m * 16384 * unit)).length + 7) / 8 * 8 = (payload.take (m * 16384 * unit)).length := by
            rw [hclen]; omega
          rw [hround, ← pad_eq (pos + (pad pos ++ [true, true] ++ natToBits 6 m).length)]
          rw [ih _ (n - m * 16384) (payload.drop (m * 16384 * unit)) hdl hf']
          dsimp only
          have hal0 : alignBits (pos + (pad pos ++ [true, true] ++ natToBits 6 m).length +
              (pad (pos + (pad pos ++ [true, true] ++ natToBits 6 m).length)).length +
              (payload.take (m * 16384 * unit)).length) = [] := by
            apply alignBits_aligned
            rw [hclen]
            simp only [pad_eq]
            have := aligned_after (pos + (alignBits pos ++ [true, true] ++ natToBits 6 m).length)
            omega
          rw [hal0]
          simp only [List.append_nil, List.append_assoc]
        · rename_i hcont
          exfalso
          apply hcont
          right
          omega

/-! ### size constraints of BIT STRING / OCTET STRING (16, 17) -/

/-- size bounds the proof can handle: 0 ≤ lb ≤ ub, not SIZE(0) (the library's `putBitString(bytes, 0)` indexes `bytes[0]` of an
    empty slice when the writer is not octet aligned: a trap where X.691 encodes nothing — found by the synthetic-schema
    correspondence run, harness/cmd/corr/apersyn.go); SIZE(lb..MAX) only with lb = 0 (the library writes length − lb there);
    a constrained length (ub < 64K) spans fewer than 16K values (the library's loop would fragment a constrained
    length of 16K or more, X.691 does not) -/
def strOK' (lbP ubP : Option Int) : Bool :=
  match lbP, ubP with
  | none, _ => true
  | some l, none => l == 0
  | some l, some u => decide (0 < u) && decide (0 ≤ l) && decide (l ≤ u) && (decide (65535 < u) || decide (u - l < 16384))

/-- the length is a constrained whole number (11.9.3.3) rather than a general length -/
def isCon (ub : Option Nat) : Bool := match ub with | some u => decide (u < 65536) | none => false

/-- the model's size preamble against the effective size constraint of the specification: a fixed size below 64K
    (no length determinant), a constrained length determinant that agrees, or a general length -/
theorem sizePreamble_fwd (len : Nat) (ext : Bool) (lbP ubP : Option Int) (pre : Bits) (lb ub sr : Int)
    (hok : strOK' lbP ubP = true)
    (h : sizePreamble len ext lbP ubP = .ok (pre, lb, ub, sr))
    (hfix : sr = 1 → (len : Int) = ub) (hge : sr ≠ 1 → lb ≤ len) :
    ∃ lbS ubS, sizeConstraint len ext lbP ubP = some (pre, lbS, ubS) ∧
      ((sr = 1 ∧ ubS = some lbS ∧ lbS < 65536 ∧ lbS = len) ∨
       (sr ≠ 1 ∧ ¬ (ubS = some lbS ∧ lbS < 65536) ∧ 0 ≤ lb ∧ isCon ubS = true ∧ len - lb.toNat < 16384 ∧
          ∀ pos l, appendLength pos sr (len - lb.toNat) = .ok l → lengthDeterminant pos len lbS ubS = some l) ∨
       (sr = -1 ∧ lb = 0 ∧ ¬ (ubS = some lbS ∧ lbS < 65536) ∧ isCon ubS = false)) := by
  unfold sizePreamble at h
  unfold sizeConstraint
  cases lbP with
  | none =>
    simp only [Except.ok.injEq, Prod.mk.injEq] at h
    obtain ⟨rfl, rfl, rfl, rfl⟩ := h
    exact ⟨0, none, rfl, Or.inr (Or.inr ⟨rfl, rfl, by simp, rfl⟩)⟩
  | some l =>
    cases ubP with
    | none =>
      simp only [strOK', beq_iff_eq] at hok
      subst hok
      simp only [Except.ok.injEq, Prod.mk.injEq] at h
      obtain ⟨rfl, rfl, rfl, rfl⟩ := h
      exact ⟨0, none, by simp, Or.inr (Or.inr ⟨rfl, rfl, by simp, rfl⟩)⟩
    | some u =>
      simp only [strOK', Bool.and_eq_true, Bool.or_eq_true, decide_eq_true_eq] at hok
      obtain ⟨⟨⟨_hu0, hl0⟩, hlu⟩, hspan⟩ := hok
      dsimp only at h ⊢
      have hbad : ¬ (l < 0 ∨ u < l) := by omega
      simp only [hbad, if_false]
      split at h
      · rename_i hle
        split at h
        · simp [err] at h
        · rename_i hnot
          simp only [Except.ok.injEq, Prod.mk.injEq] at h
          obtain ⟨rfl, rfl, rfl, rfl⟩ := h
          by_cases hbig : u > 65535
          · simp only [hbig, if_true] at hfix hge ⊢
            have hin : (len : Int) ≥ l ∧ (len : Int) ≤ u := by omega
            simp only [hin, and_self, if_true]
            refine ⟨l.toNat, some u.toNat, rfl, Or.inr (Or.inr ⟨trivial, trivial, ?_, ?_⟩)⟩
            · intro ⟨h1, h2⟩
              simp only [Option.some.injEq] at h1
              omega
            · simp only [isCon, decide_eq_false_iff_not]; omega
          · simp only [hbig, if_false] at hfix hge ⊢
            by_cases hsr : u - l + 1 = 1
            · have := hfix hsr
              have hin : (len : Int) ≥ l ∧ (len : Int) ≤ u := by omega
              simp only [hin, and_self, if_true]
              refine ⟨l.toNat, some u.toNat, rfl, Or.inl ⟨hsr, ?_, by omega, by omega⟩⟩
              congr 1; omega
            · have := hge hsr
              have hin : (len : Int) ≥ l ∧ (len : Int) ≤ u := by omega
              simp only [hin, and_self, if_true]
              refine ⟨l.toNat, some u.toNat, rfl, Or.inr (Or.inl ⟨hsr, ?_, hl0, ?_, by omega, ?_⟩)⟩
              · intro ⟨h1, h2⟩
                simp only [Option.some.injEq] at h1
                omega
              · simp only [isCon, decide_eq_true_eq]; omega
              · intro pos l' hl
                apply length_fwd_con pos len l.toNat u.toNat l' (by omega) (by omega) (by omega) (by omega)
                have e : ((u.toNat : Nat) : Int) - (l.toNat : Nat) + 1 = u - l + 1 := by omega
                rw [e]; exact hl
      · rename_i hgt
        split at h
        · simp [err] at h
        · rename_i hext
          have hext' : ext = true := by cases ext <;> simp_all
          subst hext'
          simp only [Except.ok.injEq, Prod.mk.injEq] at h
          obtain ⟨rfl, rfl, rfl, rfl⟩ := h
          have hin : ¬ ((len : Int) ≥ l ∧ (len : Int) ≤ u) := by omega
          have hin2 : (len : Int) > u := by omega
          simp only [hin, if_false, hin2, and_self, if_true]
          exact ⟨0, none, rfl, Or.inr (Or.inr ⟨trivial, trivial, by simp, rfl⟩)⟩

theorem isCon_true (ub : Option Nat) (h : isCon ub = true) : ∃ u, ub = some u ∧ u < 65536 := by
  cases ub with
  | none => simp [isCon] at h
  | some u => exact ⟨u, rfl, by simpa [isCon] using h⟩

theorem isCon_false (ub : Option Nat) (h : isCon ub = false) : ub = none ∨ ∃ u, ub = some u ∧ ¬ u < 65536 := by
  cases ub with
  | none => exact Or.inl rfl
  | some u => exact Or.inr ⟨u, rfl, by simpa [isCon] using h⟩

/-! ### 17 OCTET STRING, 16 BIT STRING -/

/-- **17 OCTET STRING** (also the form the library gives PrintableString), every length: a general length of 16K octets
    or more is fragmented (11.9.3.8) -/
theorem octet_string_fwd (pos : Nat) (bytes : Bytes) (ext : Bool) (lbP ubP : Option Int) (b : Bits)
    (hok : strOK' lbP ubP = true)
    (h : appendOctetString pos bytes ext lbP ubP = .ok b) : octetString pos bytes ext lbP ubP = some b := by
  unfold appendOctetString at h
  cases hsp : sizePreamble bytes.length ext lbP ubP with
  | error e => rw [hsp] at h; simp at h
  | ok t =>
    obtain ⟨pre, lb, ub, sr⟩ := t
    rw [hsp] at h
    dsimp only at h
    have hcl := bytesToBits_length bytes
    unfold octetString
    by_cases hsr : sr = 1
    · simp only [hsr, if_true] at h
      split at h
      · simp [err] at h
      · rename_i heq
        have heq' : (bytes.length : Int) = ub := by omega
        obtain ⟨lbS, ubS, hsc, hcase⟩ := sizePreamble_fwd _ _ _ _ _ _ _ _ hok hsp (fun _ => heq') (fun hne => absurd hsr hne)
        rw [hsc]
        rcases hcase with ⟨_, hu, hl64, hll⟩ | ⟨hne, _⟩ | ⟨hne, _⟩
        · dsimp only
          simp only [hu, hl64, and_self, if_true]
          split at h
          · rename_i hgt
            simp only [Except.ok.injEq] at h
            have g1 : ¬ lbS = 0 := by omega
            have g2 : ¬ lbS ≤ 2 := by omega
            simp only [g1, g2, if_false]
            rw [← h, pad_eq]
          · rename_i hle
            split at h
            · simp [Aper.panic] at h
            simp only [Except.ok.injEq] at h
            by_cases g1 : lbS = 0
            · simp only [g1, if_true]
              have : bytesToBits bytes = [] := by
                apply List.eq_nil_of_length_eq_zero; omega
              rw [← h, this]; simp
            · have g2 : lbS ≤ 2 := by omega
              simp only [g1, g2, if_true, if_false]
              rw [← h]
        · exact absurd hsr hne
        · omega
    · simp only [hsr, if_false] at h
      split at h
      · split at h <;> simp [err, Aper.panic] at h
      · rename_i hge
        obtain ⟨lbS, ubS, hsc, hcase⟩ := sizePreamble_fwd _ _ _ _ _ _ _ _ hok hsp (fun h1 => absurd h1 hsr) (fun _ => by omega)
        rw [hsc]
        rcases hcase with ⟨h1, _⟩ | ⟨_, hnf, hlb0, hcon, hsmall, hL⟩ | ⟨hsr1, hlb, hnf, hcon⟩
        · exact absurd h1 hsr
        · -- constrained length determinant
          obtain ⟨u, rfl, hu⟩ := isCon_true ubS hcon
          dsimp only
          simp only [hnf, if_false, hu, decide_true, if_true]
          rw [fragLoop_small 8 sr lb.toNat _ _ _ _ hsmall] at h
          cases hal : appendLength (pos + pre.length) sr (bytes.length - lb.toNat) with
          | error e => rw [hal] at h; simp at h
          | ok l =>
            rw [hal] at h
            dsimp only at h
            rw [hL _ l hal]
            dsimp only
            have hsum : bytes.length - lb.toNat + lb.toNat = bytes.length := by omega
            rw [hsum] at h
            by_cases h0 : bytes.length = 0
            · simp only [h0, if_true, Except.ok.injEq] at h
              have : bytes.isEmpty = true := by
                rw [List.isEmpty_iff]; exact List.eq_nil_of_length_eq_zero h0
              simp only [this, if_true]
              rw [← h]
            · simp only [h0, if_false, Except.ok.injEq] at h
              have : bytes.isEmpty = false := by
                cases bytes with
                | nil => simp at h0
                | cons x xs => rfl
              simp only [this, Bool.false_eq_true, if_false]
              have htake : (bytesToBits bytes).take (bytes.length * 8) = bytesToBits bytes := by
                rw [List.take_of_length_le]; omega
              rw [htake] at h
              rw [← h, pad_eq]
              simp only [List.append_assoc]
        · -- general length, fragmented from 16K octets on
          subst hsr1 hlb
          simp only [Int.toNat_zero, Nat.sub_zero] at h
          rw [fragLoop_unc 8 (by decide) (bytes.length / 16384 + 1) _ bytes.length (bytesToBits bytes)
            (by rw [hcl]; omega) (Nat.le_refl _)] at h
          simp only [Except.ok.injEq] at h
          rcases isCon_false ubS hcon with rfl | ⟨u, rfl, hu⟩
          · dsimp only
            simp only [hnf, if_false, Bool.false_eq_true]
            rw [← h]
          · dsimp only
            simp only [hnf, if_false, hu, decide_false, Bool.false_eq_true]
            rw [← h]

/-- **16 BIT STRING**, every length; the content is the first `len` bits of the value's octets -/
theorem bit_string_fwd (pos : Nat) (bytes : Bytes) (len : Nat) (ext : Bool) (lbP ubP : Option Int) (b : Bits)
    (hok : strOK' lbP ubP = true)
    (h : appendBitString pos bytes len ext lbP ubP = .ok b) :
    bitString pos ((bytesToBits bytes).take len) ext lbP ubP = some b := by
  unfold appendBitString at h
  split at h
  · simp [Aper.panic] at h
  · rename_i hbl
    have hclen : ((bytesToBits bytes).take len).length = len := by
      rw [List.length_take, bytesToBits_length]; omega
    generalize (bytesToBits bytes).take len = content at h hclen ⊢
    cases hsp : sizePreamble len ext lbP ubP with
    | error e => rw [hsp] at h; simp at h
    | ok t =>
      obtain ⟨pre, lb, ub, sr⟩ := t
      rw [hsp] at h
      dsimp only at h
      unfold bitString
      rw [hclen]
      by_cases hsr : sr = 1
      · simp only [hsr, if_true] at h
        split at h
        · simp [err] at h
        · rename_i heq
          have heq' : (len : Int) = ub := by omega
          obtain ⟨lbS, ubS, hsc, hcase⟩ := sizePreamble_fwd _ _ _ _ _ _ _ _ hok hsp (fun _ => heq') (fun hne => absurd hsr hne)
          rw [hsc]
          rcases hcase with ⟨_, hu, hl64, hll⟩ | ⟨hne, _⟩ | ⟨hne, _⟩
          · dsimp only
            simp only [hu, hl64, and_self, if_true]
            split at h
            · rename_i hgt
              simp only [Except.ok.injEq] at h
              have g2 : ¬ lbS ≤ 16 := by omega
              simp only [g2, if_false]
              rw [← h, pad_eq]
            · rename_i hle
              split at h
              · simp [Aper.panic] at h
              simp only [Except.ok.injEq] at h
              have g2 : lbS ≤ 16 := by omega
              simp only [g2, if_true]
              rw [← h]
          · exact absurd hsr hne
          · omega
      · simp only [hsr, if_false] at h
        split at h
        · split at h <;> simp [err, Aper.panic] at h
        · rename_i hge
          obtain ⟨lbS, ubS, hsc, hcase⟩ := sizePreamble_fwd _ _ _ _ _ _ _ _ hok hsp (fun h1 => absurd h1 hsr) (fun _ => by omega)
          rw [hsc]
          rcases hcase with ⟨h1, _⟩ | ⟨_, hnf, hlb0, hcon, hsmall, hL⟩ | ⟨hsr1, hlb, hnf, hcon⟩
          · exact absurd h1 hsr
          · obtain ⟨u, rfl, hu⟩ := isCon_true ubS hcon
            dsimp only
            simp only [hnf, if_false, hu, decide_true, if_true]
            rw [fragLoop_small 1 sr lb.toNat _ _ _ _ hsmall] at h
            cases hal : appendLength (pos + pre.length) sr (len - lb.toNat) with
            | error e => rw [hal] at h; simp at h
            | ok l =>
              rw [hal] at h
              dsimp only at h
              rw [hL _ l hal]
              dsimp only
              have hsum : len - lb.toNat + lb.toNat = len := by omega
              rw [hsum] at h
              by_cases h0 : len = 0
              · simp only [h0, if_true, Except.ok.injEq] at h
                have : content.isEmpty = true := by
                  rw [List.isEmpty_iff]; exact List.eq_nil_of_length_eq_zero (by omega)
                simp only [this, if_true]
                rw [← h]
              · simp only [h0, if_false, Except.ok.injEq] at h
                have : content.isEmpty = false := by
                  cases content with
                  | nil => simp at hclen; omega
                  | cons x xs => rfl
                simp only [this, Bool.false_eq_true, if_false]
                have htake : content.take (len * 1) = content := by
                  rw [List.take_of_length_le]; omega
                rw [htake] at h
                rw [← h, pad_eq]
                simp only [List.append_assoc]
          · subst hsr1 hlb
            simp only [Int.toNat_zero, Nat.sub_zero] at h
            rw [fragLoop_unc 1 (by decide) (len / 16384 + 1) _ len content (by omega) (Nat.le_refl _)] at h
            simp only [Except.ok.injEq] at h
            rcases isCon_false ubS hcon with rfl | ⟨u, rfl, hu⟩
            · dsimp only
              simp only [hnf, if_false, Bool.false_eq_true]
              rw [← h]
            · dsimp only
              simp only [hnf, if_false, hu, decide_false, Bool.false_eq_true]
              rw [← h]

end Stgutg.Proofs.AperSpec
