/-
  C14 (cost): the step table of the regenerated NGAP schema, decided by the kernel
  (weights: steps 1, alloc 0). Re-decided on every run; the literals are the current values of the schema.
-/
import Stgutg.Proofs.AperCostDefs
import Stgutg.Gen.NgapSchema

namespace Stgutg.Proofs.AperCost
open Stgutg Stgutg.Aper

set_option maxRecDepth 1000000 in
/-- entry of NGAPPDU and the maxima over all struct types: at most 206 `parseField` entries that consume nothing,
    at most 296 per bit consumed -/
theorem ngap_steps_summary :
    costSummary 1 0 Gen.Ngap.schema (.struct Gen.Ngap.pduId) Gen.Ngap.decoderParams =
      some (⟨206, 296, 0, true⟩, 205, 296, 0) := by
  decide +kernel

end Stgutg.Proofs.AperCost
